/-
  DaemonC03Inv — invariants of the router transition system, one proof per label:

  * `WfV`   (unconditional): owners, live requesters, timers below the counter and distinct;
  * `RidsV` (needs "the 32-bit counter did not wrap" and well-formed address tokens):
            every stored id was generated from a counter value below the current one, ids distinct;
  * `DInv`  (unconditional): a timer is destroyed at most once, and never while its entry lives.
-/
import Cjet.Lemmas.DaemonC03Lts

namespace Cjet.Daemon.C03

open Cjet Cjet.Json Cjet.Daemon

/-! ## WfV -/

theorem mem_conns_iff {V : List PV} {c : Nat} : c ∈ V.map (·.conn) ↔ ∃ v ∈ V, v.conn = c := by
  simp [List.mem_map]

theorem WfV.mono_nt {V : List PV} {nt nt' : Nat} (h : WfV V nt) (hle : nt ≤ nt') : WfV V nt' :=
  ⟨h.conns, h.owner, h.requester, fun r hr => Nat.lt_of_lt_of_le (h.timerLt r hr) hle, h.timers⟩

theorem WfV.vRemove {V : List PV} {nt : Nat} (h : WfV V nt) (o : Nat) (rid : Bytes) :
    WfV (vRemove V o rid) nt := by
  have hsub := vRoutes_vRemove_sublist V o rid
  refine ⟨by rw [vRemove_conns]; exact h.conns, ?_, ?_, ?_, ?_⟩
  · intro w hw r hr
    obtain ⟨v, hv, rfl⟩ := mem_vRemove.mp hw
    split at hr
    · next hc =>
      simp only [hc]
      exact h.owner v hv r (List.mem_filter.mp hr).1
    · next hc =>
      simp only [hc]
      exact h.owner v hv r hr
  · intro r hr
    rw [vRemove_conns]
    exact h.requester r (hsub.subset hr)
  · intro r hr
    exact h.timerLt r (hsub.subset hr)
  · exact List.Nodup.sublist (hsub.map _) h.timers

theorem WfV.vAdd {V : List PV} {nt : Nat} (h : WfV V nt) (r : Route)
    (hreq : r.requester ∈ V.map (·.conn)) (ht : r.timer = nt) : WfV (vAdd V r.owner r) (nt + 1) := by
  refine ⟨by rw [vAdd_conns]; exact h.conns, ?_, ?_, ?_, ?_⟩
  · intro w hw r' hr'
    obtain ⟨v, hv, rfl⟩ := mem_vAdd.mp hw
    split at hr'
    · next hc =>
      simp only [hc]
      simp only [List.mem_append, List.mem_singleton] at hr'
      rcases hr' with hr' | rfl
      · exact h.owner v hv r' hr'
      · exact (beq_iff_eq.mp hc).symm
    · next hc =>
      simp only [hc]
      exact h.owner v hv r' hr'
  · intro r' hr'
    rw [vAdd_conns]
    rcases mem_vRoutes_vAdd hr' with hr' | rfl
    · exact h.requester r' hr'
    · exact hreq
  · intro r' hr'
    rcases mem_vRoutes_vAdd hr' with hr' | rfl
    · exact Nat.lt_succ_of_lt (h.timerLt r' hr')
    · omega
  · apply nodup_vRoutes_vAdd _ h.conns h.timers
    intro a ha
    have := h.timerLt a ha
    omega

theorem vClose_conns_sublist (V : List PV) (c : Nat) : ((vClose V c).map (·.conn)).Sublist (V.map (·.conn)) := by
  unfold vClose
  rw [List.map_map]
  have : ((fun v : PV => v.conn) ∘ fun v : PV => { v with routes := v.routes.filter (·.requester != c) })
      = (fun v : PV => v.conn) := rfl
  rw [this]
  exact List.Sublist.map _ List.filter_sublist

theorem mem_vClose_conns {V : List PV} {c d : Nat} (hd : d ∈ V.map (·.conn)) (hne : d ≠ c) :
    d ∈ (vClose V c).map (·.conn) := by
  obtain ⟨v, hv, rfl⟩ := mem_conns_iff.mp hd
  exact mem_conns_iff.mpr ⟨_, mem_vClose.mpr ⟨v, hv, hne, rfl⟩, rfl⟩

theorem mem_vRoutes_vClose {V : List PV} {c : Nat} {r : Route} (h : r ∈ vRoutes (vClose V c)) :
    ∃ v ∈ V, v.conn ≠ c ∧ r ∈ v.routes ∧ r.requester ≠ c := by
  obtain ⟨w, hw, hr⟩ := mem_vRoutes.mp h
  obtain ⟨v, hv, hc, rfl⟩ := mem_vClose.mp hw
  have := List.mem_filter.mp hr
  exact ⟨v, hv, hc, this.1, by simpa using this.2⟩

theorem WfV.vClose {V : List PV} {nt : Nat} (h : WfV V nt) (c : Nat) : WfV (vClose V c) nt := by
  have hsub := vRoutes_vClose_sublist V c
  refine ⟨List.Nodup.sublist (vClose_conns_sublist V c) h.conns, ?_, ?_, ?_, ?_⟩
  · intro w hw r hr
    obtain ⟨v, hv, _, rfl⟩ := mem_vClose.mp hw
    exact h.owner v hv r (List.mem_filter.mp hr).1
  · intro r hr
    obtain ⟨v, hv, _, hrv, hne⟩ := mem_vRoutes_vClose hr
    exact mem_vClose_conns (h.requester r (mem_vRoutes.mpr ⟨v, hv, hrv⟩)) hne
  · intro r hr
    exact h.timerLt r (hsub.subset hr)
  · exact List.Nodup.sublist (hsub.map _) h.timers

theorem vRoutes_append (V W : List PV) : vRoutes (V ++ W) = vRoutes V ++ vRoutes W := by
  simp [vRoutes]

theorem WfV.connect {V : List PV} {nt : Nat} (h : WfV V nt) (c : Nat) (addr : Bytes)
    (hc : ∀ v ∈ V, v.conn ≠ c) : WfV (V ++ [⟨c, addr, []⟩]) nt := by
  have hr : vRoutes (V ++ [⟨c, addr, []⟩]) = vRoutes V := by
    rw [vRoutes_append]; simp [vRoutes]
  refine ⟨?_, ?_, ?_, ?_, ?_⟩
  · rw [List.map_append, List.nodup_append]
    refine ⟨h.conns, by simp, ?_⟩
    intro a ha b hb
    simp only [List.map_cons, List.map_nil, List.mem_singleton] at hb
    obtain ⟨v, hv, rfl⟩ := mem_conns_iff.mp ha
    rw [hb]; exact hc v hv
  · intro w hw r hr'
    rcases List.mem_append.mp hw with hw | hw
    · exact h.owner w hw r hr'
    · simp only [List.mem_singleton] at hw
      subst hw
      cases hr'
  · intro r hr'
    rw [hr] at hr'
    rw [List.map_append]
    exact List.mem_append_left _ (h.requester r hr')
  · intro r hr'
    rw [hr] at hr'
    exact h.timerLt r hr'
  · rw [hr]; exact h.timers

theorem Fresh.requester_mem {a : RS} {r : Route} (h : Fresh a r) : r.requester ∈ a.V.map (·.conn) := by
  obtain ⟨q, hq, h1, _, _⟩ := h
  exact mem_conns_iff.mpr ⟨q, hq, h1.symm⟩

theorem Fresh.timer {a : RS} {r : Route} (h : Fresh a r) : r.timer = a.nt := h.choose_spec.2.2.2

/-- the structural invariant is preserved by every router step -/
theorem wf_app {l : Lbl} {a : RS} (hp : Pre l a) (h : a.Wf) : (app l a).Wf := by
  cases l with
  | tick => exact h
  | full => exact WfV.mono_nt h (Nat.le_succ _)
  | issue r tns => exact WfV.vAdd h r hp.requester_mem hp.timer
  | issueFail r tns => exact (WfV.vAdd h r hp.requester_mem hp.timer).vRemove _ _
  | drop o r => exact WfV.vRemove h o r.rid
  | close c => exact WfV.vClose h c
  | connect c addr => exact WfV.connect h c addr hp

theorem wf_steps {ls : List Lbl} {a b : RS} (hs : Steps ls a b) (h : a.Wf) : b.Wf := by
  induction ls generalizing a with
  | nil => cases hs; exact h
  | cons l t ih => exact ih hs.2 (wf_app hs.1 h)

/-! ## RidsV: distinct generated ids -/

/-- Every address token is well formed, the counter is below 2³², every stored id was generated
    from a counter value below the current one, and the stored ids are pairwise distinct. -/
structure RidsV (V : List PV) (uuid : Nat) : Prop where
  addrs : ∀ v ∈ V, AddrOk v.addr
  bound : uuid < 4294967296
  issued : ∀ r ∈ vRoutes V, ∃ u, u < uuid ∧ uuidSeg r.rid = hexDigits u
  rids : ((vRoutes V).map (·.rid)).Nodup

def RS.Rids (a : RS) : Prop := RidsV a.V a.uuid

theorem RidsV.mono {V : List PV} {u u' : Nat} (h : RidsV V u) (hle : u ≤ u') (hb : u' < 4294967296) :
    RidsV V u' :=
  ⟨h.addrs, hb, fun r hr => (h.issued r hr).imp fun _ hx => ⟨Nat.lt_of_lt_of_le hx.1 hle, hx.2⟩, h.rids⟩

theorem RidsV.sub {V W : List PV} {u : Nat} (h : RidsV V u) (ha : ∀ w ∈ W, ∃ v ∈ V, w.addr = v.addr)
    (hs : (vRoutes W).Sublist (vRoutes V)) : RidsV W u :=
  ⟨fun w hw => by obtain ⟨v, hv, e⟩ := ha w hw; rw [e]; exact h.addrs v hv, h.bound,
   fun r hr => h.issued r (hs.subset hr), List.Nodup.sublist (hs.map _) h.rids⟩

theorem RidsV.vRemove {V : List PV} {u : Nat} (h : RidsV V u) (o : Nat) (rid : Bytes) :
    RidsV (vRemove V o rid) u := by
  apply h.sub _ (vRoutes_vRemove_sublist V o rid)
  intro w hw
  obtain ⟨v, hv, rfl⟩ := mem_vRemove.mp hw
  exact ⟨v, hv, by split <;> rfl⟩

theorem RidsV.vClose {V : List PV} {u : Nat} (h : RidsV V u) (c : Nat) : RidsV (vClose V c) u := by
  apply h.sub _ (vRoutes_vClose_sublist V c)
  intro w hw
  obtain ⟨v, hv, _, rfl⟩ := mem_vClose.mp hw
  exact ⟨v, hv, rfl⟩

/-- the id of a fresh entry carries the current counter value -/
theorem Fresh.uuidSeg {a : RS} {r : Route} (h : Fresh a r) (hr : a.Rids) :
    uuidSeg r.rid = hexDigits a.uuid := by
  obtain ⟨q, hq, _, h2, _⟩ := h
  rw [h2]
  exact uuidSeg_routedId _ _ _ (hr.addrs q hq)

/-- a fresh id differs from every stored one -/
theorem Fresh.rid_new {a : RS} {r : Route} (h : Fresh a r) (hr : a.Rids) :
    ∀ r' ∈ vRoutes a.V, r'.rid ≠ r.rid := by
  intro r' hr' e
  obtain ⟨u, hu, hseg⟩ := hr.issued r' hr'
  rw [e, h.uuidSeg hr] at hseg
  have := hexDigits_inj hseg
  omega

theorem RidsV.vAdd {a : RS} {r : Route} (h : a.Rids) (hc : (a.V.map (·.conn)).Nodup) (hf : Fresh a r)
    (hb : a.uuid + 1 < 4294967296) : RidsV (vAdd a.V r.owner r) (a.uuid + 1) := by
  refine ⟨?_, hb, ?_, ?_⟩
  · intro w hw
    obtain ⟨v, hv, rfl⟩ := mem_vAdd.mp hw
    have := h.addrs v hv
    split <;> exact this
  · intro r' hr'
    rcases mem_vRoutes_vAdd hr' with hr' | rfl
    · obtain ⟨u, hu, hs⟩ := h.issued r' hr'
      exact ⟨u, by omega, hs⟩
    · exact ⟨a.uuid, by omega, hf.uuidSeg h⟩
  · exact nodup_vRoutes_vAdd _ hc h.rids (hf.rid_new h)

theorem tickU_eq {u : Nat} (h : u + 1 < 4294967296) : tickU u = u + 1 := Nat.mod_eq_of_lt h

/-- the id invariant is preserved by every router step that does not wrap the counter and
    connects only peers with well-formed address tokens -/
theorem rids_app {l : Lbl} {a : RS} (hp : Pre l a) (hw : a.Wf) (h : a.Rids)
    (hb : a.uuid + l.ticks < 4294967296) (hconn : ∀ c addr, l = .connect c addr → AddrOk addr) :
    (app l a).Rids ∧ (app l a).uuid = a.uuid + l.ticks := by
  cases l with
  | tick =>
    have := tickU_eq (u := a.uuid) hb
    exact ⟨by simpa [app, RS.Rids, this] using h.mono (Nat.le_succ _) hb, this⟩
  | full =>
    have := tickU_eq (u := a.uuid) hb
    exact ⟨by simpa [app, RS.Rids, this] using h.mono (Nat.le_succ _) hb, this⟩
  | issue r tns =>
    have := tickU_eq (u := a.uuid) hb
    exact ⟨by simpa [app, RS.Rids, this] using RidsV.vAdd h hw.conns hp hb, this⟩
  | issueFail r tns =>
    have := tickU_eq (u := a.uuid) hb
    exact ⟨by simpa [app, RS.Rids, this] using (RidsV.vAdd h hw.conns hp hb).vRemove _ _, this⟩
  | drop o r => exact ⟨RidsV.vRemove h o r.rid, rfl⟩
  | close c => exact ⟨RidsV.vClose h c, rfl⟩
  | connect c addr =>
    refine ⟨⟨?_, h.bound, ?_, ?_⟩, rfl⟩
    · intro v hv
      rcases List.mem_append.mp hv with hv | hv
      · exact h.addrs v hv
      · simp only [List.mem_singleton] at hv
        subst hv
        exact hconn c addr rfl
    · intro r hr
      have : vRoutes (a.V ++ [⟨c, addr, []⟩]) = vRoutes a.V := by rw [vRoutes_append]; simp [vRoutes]
      rw [show (app (.connect c addr) a).V = a.V ++ [⟨c, addr, []⟩] from rfl, this] at hr
      exact h.issued r hr
    · have : vRoutes (a.V ++ [⟨c, addr, []⟩]) = vRoutes a.V := by rw [vRoutes_append]; simp [vRoutes]
      rw [show (app (.connect c addr) a).V = a.V ++ [⟨c, addr, []⟩] from rfl, this]
      exact h.rids

theorem rids_steps {ls : List Lbl} {a b : RS} (hs : Steps ls a b) (hw : a.Wf) (h : a.Rids)
    (hb : a.uuid + ticksOf ls < 4294967296)
    (hconn : ∀ c addr, Lbl.connect c addr ∈ ls → AddrOk addr) :
    b.Rids ∧ b.uuid = a.uuid + ticksOf ls := by
  induction ls generalizing a with
  | nil => cases hs; exact ⟨h, rfl⟩
  | cons l t ih =>
    rw [ticksOf_cons] at hb ⊢
    obtain ⟨h1, h2⟩ := rids_app hs.1 hw h (by omega)
      (fun c addr e => hconn c addr (e ▸ List.mem_cons_self ..))
    obtain ⟨h3, h4⟩ := ih hs.2 (wf_app hs.1 hw) h1 (by omega)
      (fun c addr hm => hconn c addr (List.mem_cons_of_mem _ hm))
    exact ⟨h3, by omega⟩

end Cjet.Daemon.C03
