/-
  DaemonC08Handlers — every request handler keeps `FInv`, sends only `J`-justified values,
  answers with an "id"-first value and touches the authentication data as `AuthEff` says.
-/
import Cjet.Lemmas.DaemonC08Inv

namespace Cjet.Daemon.C08

open Cjet Cjet.Json Cjet.Daemon

structure Good (cfg : Config) (d : Option (Bytes × Nat)) (c : Nat) (req : Json) (x : Ctx) (r : Ctx × Option Json) : Prop where
  inv : FInv cfg r.1.st
  out : OutExt (J cfg x.st d) x r.1
  resp : ∀ j, r.2 = some j → idFirst j = true
  auth : AuthEff cfg x.st c req r.1.st

theorem Good.same {cfg : Config} {d : Option (Bytes × Nat)} {c : Nat} {req : Json} {x : Ctx} (h : FInv cfg x.st)
    {r : Option Json} (hr : ∀ j, r = some j → idFirst j = true) : Good cfg d c req x (x, r) :=
  ⟨h, OutExt.refl _ _, hr, Or.inl (AuthSame.refl _)⟩

theorem Good.err {cfg : Config} {d : Option (Bytes × Nat)} {c : Nat} {req : Json} {x : Ctx} (h : FInv cfg x.st)
    (code : Int) (tag : String) (reason : Bytes) : Good cfg d c req x (x, errorFromRequest req code tag reason) :=
  Good.same h (fun _ hj => idFirst_errorFromRequest hj)

theorem Good.succ {cfg : Config} {d : Option (Bytes × Nat)} {c : Nat} {req : Json} {x : Ctx} (h : FInv cfg x.st) :
    Good cfg d c req x (x, successFromRequest req) :=
  Good.same h (fun _ hj => idFirst_successFromRequest hj)

theorem getParamsAndPath_err {req : Json} {r : Option Json} (h : getParamsAndPath req = .err r) :
    ∀ j, r = some j → idFirst j = true := by
  unfold getParamsAndPath at h
  split at h
  · injection h with h; subst h; exact fun j hj => idFirst_errorFromRequest hj
  · split at h
    · injection h with h; subst h; exact fun j hj => idFirst_errorFromRequest hj
    · cases h
    · injection h with h; subst h; exact fun j hj => idFirst_errorFromRequest hj

theorem findElement_mem {s : State} {path : Bytes} {e : Element} (h : findElement s path = some e) :
    ∃ o ∈ s.peers, e ∈ o.elements ∧ e.path = path := by
  unfold findElement at h
  split at h
  · cases h
  · split at h
    · cases h
    · rename_i p hp
      refine ⟨p, findPeer_mem hp, List.mem_of_find?_eq_some h, ?_⟩
      have := List.find?_some h
      simpa using this

/-! ## change -/

theorem changeState_good {cfg : Config} {d : Option (Bytes × Nat)} {x : Ctx} {p : Peer} {req : Json}
    (h : FInv cfg x.st) : Good cfg d p.conn req x (changeState x p req) := by
  unfold changeState
  cases hgp : getParamsAndPath req with
  | err r => exact Good.same h (getParamsAndPath_err hgp)
  | ok params path =>
    simp only
    cases hv : params.getItem (k "value") with
    | none => exact Good.err h _ _ _
    | some v =>
      simp only
      cases he : findElement x.st path with
      | none => exact Good.err h _ _ _
      | some e =>
        simp only
        split
        · exact Good.err h _ _ _
        · split
          · exact Good.err h _ _ _
          · obtain ⟨o, ho, heo, hpath⟩ := findElement_mem he
            have hok : ElemOK cfg x.st.peers e := h.fetchers o ho e heo
            have hok' : ElemOK cfg x.st.peers { e with value := some v } := hok.sub rfl (fun _ hfk => hfk)
            have hprov : Prov x.st d { e with value := some v } := Or.inl ⟨o, ho, e, heo, rfl, rfl⟩
            have hk : Keeps (fun q : Peer => if q.conn == p.conn then
                { q with elements := q.elements.map (fun el => if el.path == path then { e with value := some v } else el) }
                else q) := Keeps.ite _ (keeps_elements _)
            obtain ⟨n1, _, _, n4⟩ := notifyFetchers_spec (cfg := cfg) (s0 := x.st) (d := d)
              { x with st := { x.st with peers := updatePeer x.st.peers p.conn (fun q =>
                { q with elements := q.elements.map (fun el => if el.path == path then { e with value := some v } else el) }) } }
              { e with value := some v } "change" hok' hprov
            refine ⟨?_, ?_, fun _ hj => idFirst_successFromRequest hj, Or.inl ?_⟩
            · simp only [n1]
              refine h.map hk ?_ rfl
              intro q hq el hel
              split at hel
              · obtain ⟨el0, hel0, rfl⟩ := List.mem_map.mp hel
                split
                · exact hok'
                · exact h.fetchers q hq el0 hel0
              · exact h.fetchers q hq el hel
            · exact n4.congr_left rfl
            · simp only [n1]
              exact AuthSame.of_map hk.1 rfl rfl

/-! ## remove -/

theorem FInv.map_sub {cfg : Config} {s : State} (h : FInv cfg s) {g : Peer → Peer} (hg : Keeps g)
    (hsub : ∀ q, ∀ e ∈ (g q).elements, e ∈ q.elements) {s' : State} (hs : s'.peers = s.peers.map g) : FInv cfg s' :=
  h.map hg (fun q hq e he => h.fetchers q hq e (hsub q e he)) hs

theorem keeps_filter (c : Nat) (path : Bytes) : Keeps (fun q : Peer => if q.conn == c then
    { q with elements := q.elements.filter (fun el => el.path != path) } else q) := Keeps.ite _ (keeps_elements _)

theorem removeElement_spec {cfg : Config} {s0 : State} {d : Option (Bytes × Nat)} (x : Ctx) (e : Element)
    (hok : ElemOK cfg s0.peers e) (hprov : Prov s0 d e) :
    OutExt (J cfg s0 d) x (removeElement x e) ∧
    (removeElement x e).st.peers = x.st.peers.map (fun q : Peer => if q.conn == e.owner then
      { q with elements := q.elements.filter (fun el => el.path != e.path) } else q) ∧
    (removeElement x e).st.users = x.st.users := by
  obtain ⟨n1, _, _, n4⟩ := notifyFetchers_spec (cfg := cfg) (s0 := s0) (d := d) x e "remove" hok hprov
  unfold removeElement
  refine ⟨n4.congr_right rfl, ?_, ?_⟩
  · simp only [n1]; rfl
  · simp only [n1]

theorem filter_sub (c : Nat) (path : Bytes) (q : Peer) : ∀ e ∈ (if q.conn == c then
    { q with elements := q.elements.filter (fun el => el.path != path) } else q).elements, e ∈ q.elements := by
  intro e he
  split at he
  · exact (List.mem_filter.mp he).1
  · exact he

theorem removeElementReq_good {cfg : Config} {d : Option (Bytes × Nat)} {x : Ctx} {p : Peer} {req : Json}
    (h : FInv cfg x.st) (hp : findPeer x.st.peers p.conn = some p) : Good cfg d p.conn req x (removeElementReq x p req) := by
  unfold removeElementReq
  cases hgp : getParamsAndPath req with
  | err r => exact Good.same h (getParamsAndPath_err hgp)
  | ok params path =>
    simp only
    cases he : p.elements.find? (fun el => el.path == path) with
    | none => exact Good.err h _ _ _
    | some e =>
      simp only
      have hmem : e ∈ p.elements := List.mem_of_find?_eq_some he
      have hok : ElemOK cfg x.st.peers e := h.fetchers p (findPeer_mem hp) e hmem
      have hprov : Prov x.st d e := Or.inl ⟨p, findPeer_mem hp, e, hmem, rfl, rfl⟩
      obtain ⟨r1, r2, r3⟩ := removeElement_spec (cfg := cfg) (s0 := x.st) (d := d) x e hok hprov
      refine ⟨h.map_sub (keeps_filter _ _) (filter_sub _ _) r2, r1, fun _ hj => idFirst_successFromRequest hj, Or.inl ?_⟩
      exact AuthSame.of_map (keeps_filter _ _).1 r3 r2

/-! ## add -/

/-- path and fetch groups declared by an `add` request -/
def addDecl (cfg : Config) (req : Json) : Option (Bytes × Nat) :=
  match getParamsAndPath req with
  | .ok params path =>
    match fillAccess cfg (params.getItem (k "value")).isSome (params.getItem (k "access")) with
    | .ok (fg, _, _) => some (path, fg)
    | .error _ => none
  | .err _ => none

def SameBut (e e' : Element) : Prop := ∃ t, e' = { e with fetchers := t }

theorem SameBut.refl (e : Element) : SameBut e e := ⟨e.fetchers, rfl⟩
theorem SameBut.trans {a b c : Element} (h1 : SameBut a b) (h2 : SameBut b c) : SameBut a c := by
  obtain ⟨t1, rfl⟩ := h1
  obtain ⟨t2, rfl⟩ := h2
  exact ⟨t2, rfl⟩
theorem SameBut.path {a b : Element} (h : SameBut a b) : b.path = a.path := by obtain ⟨t, rfl⟩ := h; rfl
theorem SameBut.fg {a b : Element} (h : SameBut a b) : b.fetchGroups = a.fetchGroups := by obtain ⟨t, rfl⟩ := h; rfl
theorem SameBut.prov {s0 : State} {d : Option (Bytes × Nat)} {a b : Element} (h : SameBut a b) (hp : Prov s0 d a) : Prov s0 d b := by
  unfold Prov; rw [h.path, h.fg]; exact hp

theorem ffe_inner {cfg : Config} {s0 : State} {d : Option (Bytes × Nat)} (hn : (s0.peers.map (·.conn)).Nodup)
    (fp : Peer) (hfp : fp ∈ s0.peers) (fs : List Fetch) (hfs : ∀ f ∈ fs, f ∈ fp.fetches)
    (acc : Ctx × Element) (hacc : ElemOK cfg s0.peers acc.2) (hprov : Prov s0 d acc.2) :
    let r := fs.foldl (fun (acc : Ctx × Element) f => offerElement cfg acc.1 acc.2 fp f) acc
    r.1.st = acc.1.st ∧ r.1.indexFull = acc.1.indexFull ∧ OutExt (J cfg s0 d) acc.1 r.1 ∧
      ElemOK cfg s0.peers r.2 ∧ SameBut acc.2 r.2 := by
  induction fs generalizing acc with
  | nil => exact ⟨rfl, rfl, OutExt.refl _ _, hacc, SameBut.refl _⟩
  | cons f rest ih =>
    simp only [List.foldl_cons]
    have hfind : findPeer s0.peers fp.conn = some fp := findPeer_of_mem hn hfp
    obtain ⟨o1, o2, _, o4, t, ht, hmem⟩ := offerElement_spec (cfg := cfg) (s0 := s0) (d := d) acc.1 acc.2 fp f
      ⟨fp, hfind, rfl⟩ hprov
    have hsb : SameBut acc.2 (offerElement cfg acc.1 acc.2 fp f).2 := ⟨t, ht⟩
    have hok1 : ElemOK cfg s0.peers (offerElement cfg acc.1 acc.2 fp f).2 := by
      intro fk hfk
      rw [hsb.fg]
      rw [ht] at hfk
      rcases hmem fk hfk with h | ⟨rfl, ha⟩
      · exact hacc fk h
      · refine ⟨fp, hfind, ?_, ha⟩
        exact List.mem_map_of_mem (hfs f (List.mem_cons_self ..))
    obtain ⟨i1, i2, i3, i4, i5⟩ := ih (fun f hf => hfs f (List.mem_cons_of_mem _ hf))
      (offerElement cfg acc.1 acc.2 fp f) hok1 (hsb.prov hprov)
    exact ⟨i1.trans o1, i2.trans o2, o4.trans i3, i4, hsb.trans i5⟩

theorem ffe_outer {cfg : Config} {s0 : State} {d : Option (Bytes × Nat)} (hn : (s0.peers.map (·.conn)).Nodup)
    (ps : List Peer) (hps : ∀ fp ∈ ps, fp ∈ s0.peers)
    (acc : Ctx × Element) (hacc : ElemOK cfg s0.peers acc.2) (hprov : Prov s0 d acc.2) :
    let r := ps.foldl (fun (acc : Ctx × Element) fp =>
      fp.fetches.foldl (fun (acc : Ctx × Element) f => offerElement cfg acc.1 acc.2 fp f) acc) acc
    r.1.st = acc.1.st ∧ r.1.indexFull = acc.1.indexFull ∧ OutExt (J cfg s0 d) acc.1 r.1 ∧
      ElemOK cfg s0.peers r.2 ∧ SameBut acc.2 r.2 := by
  induction ps generalizing acc with
  | nil => exact ⟨rfl, rfl, OutExt.refl _ _, hacc, SameBut.refl _⟩
  | cons fp rest ih =>
    simp only [List.foldl_cons]
    obtain ⟨o1, o2, o3, o4, o5⟩ := ffe_inner (cfg := cfg) (d := d) hn fp (hps fp (List.mem_cons_self ..)) fp.fetches
      (fun _ hf => hf) acc hacc hprov
    obtain ⟨i1, i2, i3, i4, i5⟩ := ih (fun fp hfp => hps fp (List.mem_cons_of_mem _ hfp)) _ o4 (o5.prov hprov)
    exact ⟨i1.trans o1, i2.trans o2, o3.trans i3, i4, o5.trans i5⟩

theorem findFetchersForElement_spec {cfg : Config} {d : Option (Bytes × Nat)} (x : Ctx) (h : FInv cfg x.st) (e : Element)
    (hok : ElemOK cfg x.st.peers e) (hprov : Prov x.st d e) :
    (findFetchersForElement cfg x e).1.st = x.st ∧ (findFetchersForElement cfg x e).1.indexFull = x.indexFull ∧
      OutExt (J cfg x.st d) x (findFetchersForElement cfg x e).1 ∧
      ElemOK cfg x.st.peers (findFetchersForElement cfg x e).2 ∧ SameBut e (findFetchersForElement cfg x e).2 :=
  ffe_outer (cfg := cfg) (d := d) h.nodup x.st.peers (fun _ h => h) (x, e) hok hprov

theorem add_tail_good {cfg : Config} {x : Ctx} {c : Nat} {req : Json} (h : FInv cfg x.st) (e0 : Element)
    (path : Bytes) (n : Nat) (hf : e0.fetchers = List.replicate n none) (d : Option (Bytes × Nat))
    (hd : d = some (e0.path, e0.fetchGroups)) :
    Good cfg d c req x
      (match findFetchersForElement cfg x e0 with
       | (x1, e1) =>
        if x1.indexFull then
          let x2 := notifyFetchers x1 e1 "remove"
          ({ x2 with indexFull := false },
           errorFromRequest req INTERNAL_ERROR "reason" (k "element table full"))
        else
          let st := { x1.st with
            index := x1.st.index ++ [(path, c)],
            peers := updatePeer x1.st.peers c (fun q => { q with elements := q.elements ++ [e1] }) }
          ({ x1 with st := st }, successFromRequest req)) := by
  have hok0 : ElemOK cfg x.st.peers e0 := by
    intro fk hfk
    rw [hf] at hfk
    have := (List.mem_replicate.mp hfk).2
    cases this
  have hprov0 : Prov x.st d e0 := Or.inr hd
  obtain ⟨f1, f2, f3, f4, f5⟩ := findFetchersForElement_spec (cfg := cfg) (d := d) x h e0 hok0 hprov0
  generalize findFetchersForElement cfg x e0 = r at f1 f2 f3 f4 f5
  obtain ⟨x1, e1⟩ := r
  simp only at f1 f2 f3 f4 f5 ⊢
  split
  · obtain ⟨n1, _, _, n4⟩ := notifyFetchers_spec (cfg := cfg) (s0 := x.st) (d := d) x1 e1 "remove"
      f4 (f5.prov hprov0)
    refine ⟨?_, ?_, fun _ hj => idFirst_errorFromRequest hj, Or.inl ?_⟩
    · simp only [n1, f1]; exact h
    · exact f3.trans (n4.congr_right rfl)
    · simp only [n1, f1]; exact AuthSame.refl _
  · have hk : Keeps (fun q : Peer => if q.conn == c then { q with elements := q.elements ++ [e1] } else q) :=
      Keeps.ite _ (keeps_elements _)
    refine ⟨?_, f3.congr_right rfl, fun _ hj => idFirst_successFromRequest hj, Or.inl ?_⟩
    · simp only [f1]
      refine h.map hk ?_ rfl
      intro q hq el hel
      split at hel
      · rcases List.mem_append.mp hel with hel | hel
        · exact h.fetchers q hq el hel
        · rw [List.mem_singleton] at hel; subst hel; exact f4
      · exact h.fetchers q hq el hel
    · simp only [f1]
      exact AuthSame.of_map hk.1 rfl rfl

theorem addElement_good {cfg : Config} {x : Ctx} {p : Peer} {req : Json}
    (h : FInv cfg x.st) : Good cfg (addDecl cfg req) p.conn req x (addElement cfg x p req) := by
  have tail : ∀ params path, getParamsAndPath req = .ok params path →
      ∀ fo : Bool, Good cfg (addDecl cfg req) p.conn req x
      (match getTimeout cfg (params.getItem (k "timeout")) cfg.defaultTimeoutNs with
      | .err reason => (x, errorFromRequest req INVALID_PARAMS "reason" (k reason))
      | .ns tns =>
        if (lookupIndex x.st.index path).isSome then
          (x, errorFromRequest req INVALID_PARAMS "exists" path)
        else
          let value := params.getItem (k "value")
          match fillAccess cfg value.isSome (params.getItem (k "access")) with
          | .error reason => (x, errorFromRequest req INVALID_PARAMS "reason" (k reason))
          | .ok (fg, sg, cg) =>
            let e : Element := { path := path, owner := p.conn, value := value, fetchOnly := fo,
                                 timeoutNs := tns, fetchGroups := fg, setGroups := sg, callGroups := cg,
                                 fetchers := List.replicate cfg.initFetchTable none }
            let (x, e) := findFetchersForElement cfg x e
            if x.indexFull then
              let x := notifyFetchers x e "remove"
              ({ x with indexFull := false },
               errorFromRequest req INTERNAL_ERROR "reason" (k "element table full"))
            else
              let st := { x.st with
                index := x.st.index ++ [(path, p.conn)],
                peers := updatePeer x.st.peers p.conn (fun q => { q with elements := q.elements ++ [e] }) }
              ({ x with st := st }, successFromRequest req)) := by
    intro params path hgp fo
    cases hto : getTimeout cfg (params.getItem (k "timeout")) cfg.defaultTimeoutNs with
    | err reason => exact Good.err h _ _ _
    | ns tns =>
      simp only
      split
      · exact Good.err h _ _ _
      · cases hfa : fillAccess cfg (params.getItem (k "value")).isSome (params.getItem (k "access")) with
        | error reason => exact Good.err h _ _ _
        | ok groups =>
          obtain ⟨fg, sg, cg⟩ := groups
          have hd : addDecl cfg req = some (path, fg) := by simp [addDecl, hgp, hfa]
          exact add_tail_good h _ path cfg.initFetchTable rfl _ hd
  unfold addElement
  split
  · exact Good.err h _ _ _
  · cases hgp : getParamsAndPath req with
    | err r => exact Good.same h (getParamsAndPath_err hgp)
    | ok params path =>
      simp only
      split
      · exact tail params path hgp _
      · exact tail params path hgp _
      · exact Good.err h _ _ _

end Cjet.Daemon.C08
