/-
  Cjet.Lemmas.DaemonC05Close — closed form of `freePeerResources`: the post-state (`afterClose`)
  and the exact sequence of outputs (`closeTrace`) as functions of the pre-state.
-/
import Cjet.Lemmas.DaemonC05Handlers

namespace Cjet.Daemon.C05

open Cjet Cjet.Json Cjet.Daemon

/-! ## replaying a list of outputs -/

/-- perform the listed sends / emissions in order (the recorded send results are ignored:
    each send consumes the next oracle value) -/
def play (x : Ctx) (t : List Obs) : Ctx :=
  t.foldl (fun x o => match o with | .send c j _ => send' x c j | o => emit x o) x

@[simp] theorem play_nil (x : Ctx) : play x [] = x := rfl
theorem play_cons (x : Ctx) (o : Obs) (t : List Obs) :
    play x (o :: t) = play (match o with | .send c j _ => send' x c j | o => emit x o) t := rfl
theorem play_append (x : Ctx) (a b : List Obs) : play x (a ++ b) = play (play x a) b := by
  unfold play; rw [List.foldl_append]

theorem play_step_st (x : Ctx) (o : Obs) :
    (match o with | .send c j _ => send' x c j | o => emit x o).st = x.st := by
  cases o <;> simp

@[simp] theorem play_st (x : Ctx) (t : List Obs) : (play x t).st = x.st := by
  induction t generalizing x with
  | nil => rfl
  | cons o t ih => rw [play_cons, ih, play_step_st]

@[simp] theorem play_indexFull (x : Ctx) (t : List Obs) : (play x t).indexFull = x.indexFull := by
  induction t generalizing x with
  | nil => rfl
  | cons o t ih => rw [play_cons, ih]; cases o <;> simp
@[simp] theorem play_routeFull (x : Ctx) (t : List Obs) : (play x t).routeFull = x.routeFull := by
  induction t generalizing x with
  | nil => rfl
  | cons o t ih => rw [play_cons, ih]; cases o <;> simp

theorem send_with_st (x : Ctx) (S : State) (c : Nat) (j : Json) :
    send' { x with st := S } c j = { send' x c j with st := S } := by
  unfold send' send
  cases x.sends <;> rfl

/-- replaying does not look at the state -/
theorem play_with_st (x : Ctx) (S : State) (t : List Obs) :
    play { x with st := S } t = { play x t with st := S } := by
  induction t generalizing x with
  | nil => rfl
  | cons o t ih =>
    rw [play_cons, play_cons]
    cases o with
    | send c j b => simp only [send_with_st]; exact ih _
    | closed c => exact ih (emit x _)
    | timerArm a b => exact ih (emit x _)
    | timerDestroy a => exact ih (emit x _)

/-- the outputs of a replay, results erased -/
theorem play_out (x : Ctx) (t : List Obs) :
    (play x t).out.map strip = (t.map strip).reverse ++ x.out.map strip := by
  induction t generalizing x with
  | nil => simp
  | cons o t ih =>
    rw [play_cons, ih]
    cases o with
    | send c j b =>
      obtain ⟨b', hb'⟩ := send'_out x c j
      rw [hb']; simp [strip]
    | closed c => simp [strip]
    | timerArm a b => simp [strip]
    | timerDestroy a => simp [strip]

/-! ## the pieces of the teardown as replays -/

/-- clear_routing_entry for the leaving peer `c` -/
def routeActs (c : Nat) (r : Route) : List Obs :=
  .timerDestroy r.timer ::
    (if r.requester == c then [] else
      match r.originId with
      | none => []
      | some oid =>
        match errorResponse oid INTERNAL_ERROR "reason" (k "peer shuts down") with
        | some resp => [.send r.requester resp true]
        | none => [])

theorem clearRoute_eq (x : Ctx) (r : Route) (c : Nat) : clearRoute x r c = play x (routeActs c r) := by
  unfold clearRoute routeActs
  dsimp only
  by_cases hc : (r.requester == c) = true
  · simp only [hc, if_true]; rfl
  · simp only [hc]
    cases r.originId with
    | none => rfl
    | some oid =>
      dsimp only
      cases errorResponse oid INTERNAL_ERROR "reason" (k "peer shuts down") with
      | none => rfl
      | some resp => rfl

theorem foldl_clearRoute (c : Nat) (rs : List Route) (x : Ctx) :
    rs.foldl (fun x r => clearRoute x r c) x = play x (rs.flatMap (routeActs c)) := by
  induction rs generalizing x with
  | nil => rfl
  | cons r rs ih =>
    simp only [List.foldl_cons, List.flatMap_cons, play_append]
    rw [ih, clearRoute_eq]

/-- notify_fetchers as a list of sends -/
def notifyActs (ps : List Peer) (e : Element) (event : String) : List Obs :=
  e.fetchers.filterMap (fun s => match s with
    | some fk => (findFetch ps fk).map (fun f => Obs.send fk.peer (notification e f.fid event) true)
    | none => none)

theorem notifyFetchers_eq (x : Ctx) (e : Element) (ev : String) :
    notifyFetchers x e ev = play x (notifyActs x.st.peers e ev) := by
  unfold notifyFetchers notifyActs
  generalize hps : x.st.peers = ps
  generalize e.fetchers = l
  induction l generalizing x with
  | nil => rfl
  | cons s l ih =>
    simp only [List.foldl_cons]
    cases s with
    | none =>
      simp only [List.filterMap_cons]
      exact ih x hps
    | some fk =>
      simp only [List.filterMap_cons]
      unfold notifyOne
      rw [hps]
      cases hf : findFetch ps fk with
      | none => simp only [Option.map_none]; exact ih x hps
      | some f =>
        simp only [Option.map_some, play_cons]
        exact ih _ (by simpa using hps)

theorem filterMap_congr' {α β : Type} {l : List α} {f g : α → Option β} (h : ∀ a ∈ l, f a = g a) :
    l.filterMap f = l.filterMap g := by
  induction l with
  | nil => rfl
  | cons a l ih =>
    simp only [List.filterMap_cons]
    rw [h a List.mem_cons_self, ih (fun b hb => h b (List.mem_cons_of_mem _ hb))]

theorem notifyActs_congr {ps ps' : List Peer} {e : Element} (ev : String)
    (h : ∀ fk, some fk ∈ e.fetchers → findFetch ps' fk = findFetch ps fk) :
    notifyActs ps' e ev = notifyActs ps e ev := by
  unfold notifyActs
  apply filterMap_congr'
  intro s hs
  cases s with
  | none => rfl
  | some fk => simp only [h fk hs]

/-! ## list / peer-list algebra -/

theorem updatePeer_updatePeer (ps : List Peer) (c : Nat) (f g : Peer → Peer) (hf : ∀ p, (f p).conn = p.conn) :
    updatePeer (updatePeer ps c f) c g = updatePeer ps c (fun p => g (f p)) := by
  simp only [updatePeer_eq_map, List.map_map]
  apply List.map_congr_left
  intro p _
  simp only [Function.comp]
  by_cases hc : p.conn = c
  · simp [hc, hf]
  · have : (p.conn == c) = false := by simpa using hc
    simp [this]

theorem updatePeer_congr (ps : List Peer) (c : Nat) (f g : Peer → Peer) (h : ∀ p ∈ ps, f p = g p) :
    updatePeer ps c f = updatePeer ps c g := by
  simp only [updatePeer_eq_map]
  apply List.map_congr_left
  intro p hp
  rw [h p hp]

theorem updatePeer_id (ps : List Peer) (c : Nat) (f : Peer → Peer) (h : ∀ p ∈ ps, f p = p) :
    updatePeer ps c f = ps := by
  rw [updatePeer_eq_map]
  conv => rhs; rw [← List.map_id ps]
  apply List.map_congr_left
  intro p hp
  split
  · simp [h p hp]
  · rfl

theorem filter_ne_updatePeer (ps : List Peer) (c : Nat) (f : Peer → Peer) (hf : ∀ p, (f p).conn = p.conn) :
    (updatePeer ps c f).filter (·.conn != c) = ps.filter (·.conn != c) := by
  induction ps with
  | nil => rfl
  | cons p ps ih =>
    have hcons : updatePeer (p :: ps) c f = (if p.conn == c then f p else p) :: updatePeer ps c f := rfl
    rw [hcons, List.filter_cons, List.filter_cons, ih]
    by_cases hc : (p.conn == c) = true
    · have h2 : (p.conn != c) = false := by simp [bne, hc]
      have h3 : ((f p).conn != c) = false := by rw [hf]; exact h2
      simp only [hc, if_true, h2, h3, Bool.false_eq_true, if_false]
    · have hc' : (p.conn == c) = false := by simpa using hc
      simp only [hc', Bool.false_eq_true, if_false]

theorem filter_ne_map (ps : List Peer) (c : Nat) (g : Peer → Peer) (hg : ∀ p, (g p).conn = p.conn) :
    (ps.map g).filter (·.conn != c) = (ps.filter (·.conn != c)).map g := by
  rw [List.filter_map]
  congr 1
  apply List.filter_congr
  intro p _
  simp [hg]

theorem flatMap_routes_updatePeer (ps : List Peer) (c : Nat) (P : Route → Bool) :
    (updatePeer ps c (fun q => { q with routes := [] })).flatMap (fun q => q.routes.filter P) =
    (ps.filter (·.conn != c)).flatMap (fun q => q.routes.filter P) := by
  induction ps with
  | nil => rfl
  | cons p ps ih =>
    have hcons : updatePeer (p :: ps) c (fun q => { q with routes := [] }) =
        (if p.conn == c then { p with routes := [] } else p) :: updatePeer ps c (fun q => { q with routes := [] }) := rfl
    rw [hcons, List.flatMap_cons, ih, List.filter_cons]
    by_cases hc : (p.conn == c) = true
    · have h2 : (p.conn != c) = false := by simp [bne, hc]
      simp only [hc, if_true, h2, Bool.false_eq_true, if_false, List.filter_nil, List.nil_append]
    · have hc' : (p.conn == c) = false := by simpa using hc
      have h2 : (p.conn != c) = true := by simp [bne, hc']
      simp only [hc', Bool.false_eq_true, if_false, h2, if_true, List.flatMap_cons]

/-! ## the post-state and the output sequence of a teardown -/

/-- an element with every fetcher slot of the leaving peer `c` emptied -/
def unsub (c : Nat) (e : Element) : Element :=
  { e with fetchers := e.fetchers.map (fun s =>
      match s with | some fk => if fk.peer == c then none else some fk | none => none) }

/-- the record of a surviving peer after `c` has left -/
def scrub (c : Nat) (q : Peer) : Peer :=
  { q with elements := q.elements.map (unsub c), routes := q.routes.filter (·.requester != c) }

/-- the state after the connection `c` has been torn down -/
def afterClose (s : State) (c : Nat) : State :=
  { s with peers := (s.peers.filter (·.conn != c)).map (scrub c),
           index := s.index.filter (·.2 != c) }

/-- what the teardown of `c` emits, in order: for every entry of c's own routing table the
    timer destruction and (unless c itself asked) the "peer shuts down" error to the requester;
    the timer destruction for each of c's own requests in the other tables; the "remove"
    notification of every element of c to every remaining subscriber. -/
def closeTrace (s : State) (c : Nat) : List Obs :=
  match findPeer s.peers c with
  | none => []
  | some p =>
    p.routes.flatMap (routeActs c) ++
    ((s.peers.filter (·.conn != c)).flatMap (fun q => q.routes.filter (·.requester == c))).map
      (fun r => Obs.timerDestroy r.timer) ++
    p.elements.flatMap (fun e => notifyActs s.peers (unsub c e) "remove")

@[simp] theorem unsub_path (c : Nat) (e : Element) : (unsub c e).path = e.path := rfl
@[simp] theorem unsub_owner (c : Nat) (e : Element) : (unsub c e).owner = e.owner := rfl

theorem mem_unsub_fetchers {c : Nat} {e : Element} {fk : FetchKey} (h : some fk ∈ (unsub c e).fetchers) :
    some fk ∈ e.fetchers ∧ fk.peer ≠ c := by
  unfold unsub at h
  obtain ⟨s, hs, heq⟩ := List.mem_map.1 h
  cases s with
  | none => cases heq
  | some fk' =>
    simp only at heq
    split at heq
    · cases heq
    · next hne =>
      cases heq
      exact ⟨hs, by simpa using hne⟩

theorem filter_const_true {α : Type} (l : List α) : l.filter (fun _ => true) = l := by
  induction l with
  | nil => rfl
  | cons a l ih => simp [ih]

/-- the element loop of the teardown -/
theorem closeLoop (c : Nat) (els : List Element) : ∀ (y : Ctx) (pc : Peer),
    findPeer y.st.peers c = some pc → pc.elements = els.map (unsub c) → (els.map (·.path)).Nodup →
    (∀ e ∈ els, e.owner = c) →
    els.foldl (fun x e0 =>
      match (findPeer x.st.peers c).bind (·.elements.find? (·.path == e0.path)) with
      | some e => removeElement x e
      | none => x) y =
    { play y (els.flatMap (fun e => notifyActs y.st.peers (unsub c e) "remove")) with
      st := { y.st with
        index := y.st.index.filter (fun en => els.all (fun e => en.1 != e.path)),
        peers := updatePeer y.st.peers c (fun q =>
          { q with elements := q.elements.filter (fun el => els.all (fun e => el.path != e.path)) }) } } := by
  induction els with
  | nil =>
    intro y pc _ _ _ _
    simp only [List.foldl_nil, List.flatMap_nil, play_nil, List.all_nil, filter_const_true]
    have : updatePeer y.st.peers c (fun q => { q with elements := q.elements }) = y.st.peers :=
      updatePeer_id _ _ _ (by intro p _; rfl)
    rw [this]
  | cons e rest ih =>
    intro y pc hpc hels hnd hown
    simp only [List.foldl_cons]
    simp only [List.map_cons, List.nodup_cons] at hnd
    have hfind : (findPeer y.st.peers c).bind (·.elements.find? (·.path == e.path)) = some (unsub c e) := by
      rw [hpc]
      simp only [Option.bind_some, hels, List.map_cons, List.find?_cons]
      simp
    rw [hfind]
    dsimp only
    -- the context after this element
    have hrest_ne : ∀ e' ∈ rest, e'.path ≠ e.path := by
      intro e' he' heq
      exact hnd.1 (List.mem_map.2 ⟨e', he', heq⟩)
    have hpc' : findPeer (removeElement y (unsub c e)).st.peers c =
        some { pc with elements := pc.elements.filter (·.path != e.path) } := by
      unfold removeElement
      simp only [notifyFetchers_st, unsub_owner, unsub_path]
      rw [hown e List.mem_cons_self, findPeer_updatePeer_self, hpc]
      · rfl
      · intro _; rfl
    have hels' : ({ pc with elements := pc.elements.filter (·.path != e.path) } : Peer).elements = rest.map (unsub c) := by
      simp only [hels, List.map_cons, List.filter_cons, unsub_path]
      simp only [bne_self_eq_false, Bool.false_eq_true, if_false]
      rw [List.filter_eq_self]
      intro a ha
      obtain ⟨e', he', rfl⟩ := List.mem_map.1 ha
      simpa using hrest_ne e' he'
    rw [ih _ _ hpc' hels' hnd.2 (fun e' he' => hown e' (List.mem_cons_of_mem _ he'))]
    -- now compare both sides
    have hff : ∀ e', notifyActs (removeElement y (unsub c e)).st.peers (unsub c e') "remove" =
        notifyActs y.st.peers (unsub c e') "remove" := by
      intro e'
      apply notifyActs_congr
      intro fk _
      unfold removeElement
      simp only [notifyFetchers_st]
      exact findFetch_updatePeer (by intro _; rfl) (by intro _; rfl) fk
    simp only [hff, List.flatMap_cons, play_append]
    unfold removeElement
    simp only [notifyFetchers_st, unsub_owner, unsub_path, hown e List.mem_cons_self]
    rw [notifyFetchers_eq, play_with_st]
    congr 2
    · -- peers
      rw [updatePeer_updatePeer]
      rotate_left
      · intro _; rfl
      apply updatePeer_congr
      intro p _
      simp only [List.filter_filter, List.all_cons]
      congr 1
      apply List.filter_congr
      intro a _
      exact Bool.and_comm _ _
    · -- index
      unfold removeIndex
      simp only [List.filter_filter, List.all_cons]
      apply List.filter_congr
      intro a _
      exact Bool.and_comm _ _

/-! ## free_peer_resources, phase by phase -/

def phase1 (x : Ctx) (c : Nat) (p : Peer) : Ctx :=
  let x := p.routes.foldl (fun x r => clearRoute x r c) x
  { x with st := { x.st with peers := updatePeer x.st.peers c (fun q => { q with routes := [] }) } }

def phase2 (x : Ctx) (c : Nat) : Ctx :=
  let mine := x.st.peers.flatMap (fun q => q.routes.filter (·.requester == c))
  let x := mine.foldl (fun x r => clearRoute x r c) x
  { x with st := { x.st with peers := x.st.peers.map (fun (q : Peer) => { q with routes := q.routes.filter (·.requester != c) }) } }

def phase3 (x : Ctx) (c : Nat) : Ctx :=
  { x with st := { x.st with peers := updatePeer (mapElements x.st.peers (unsub c)) c (fun q => { q with fetches := [] }) } }

def phase4 (x : Ctx) (c : Nat) (p : Peer) : Ctx :=
  p.elements.foldl (fun x e0 =>
      match (findPeer x.st.peers c).bind (·.elements.find? (·.path == e0.path)) with
      | some e => removeElement x e
      | none => x) x

def phase5 (x : Ctx) (c : Nat) : Ctx :=
  { x with st := { x.st with peers := x.st.peers.filter (·.conn != c) } }

theorem freePeerResources_phases (x : Ctx) (c : Nat) :
    freePeerResources x c = match findPeer x.st.peers c with
      | none => x
      | some p => phase5 (phase4 (phase3 (phase2 (phase1 x c p) c) c) c p) c := rfl

theorem phase1_eq (x : Ctx) (c : Nat) (p : Peer) :
    phase1 x c p = { play x (p.routes.flatMap (routeActs c)) with
      st := { x.st with peers := updatePeer x.st.peers c (fun q => { q with routes := [] }) } } := by
  unfold phase1
  dsimp only
  rw [foldl_clearRoute]
  simp only [play_st]

theorem routeActs_self {c : Nat} {r : Route} (h : (r.requester == c) = true) :
    routeActs c r = [Obs.timerDestroy r.timer] := by
  unfold routeActs; simp only [h, if_true]

theorem phase2_eq (x : Ctx) (c : Nat) :
    phase2 x c = { play x ((x.st.peers.flatMap (fun q => q.routes.filter (·.requester == c))).map
        (fun r => Obs.timerDestroy r.timer)) with
      st := { x.st with peers := x.st.peers.map (fun (q : Peer) => { q with routes := q.routes.filter (·.requester != c) }) } } := by
  unfold phase2
  dsimp only
  rw [foldl_clearRoute]
  simp only [play_st]
  have : ∀ (l : List Route), (∀ r ∈ l, (r.requester == c) = true) →
      l.flatMap (routeActs c) = l.map (fun r => Obs.timerDestroy r.timer) := by
    intro l hl
    induction l with
    | nil => rfl
    | cons r l ih =>
      simp only [List.flatMap_cons, List.map_cons]
      rw [routeActs_self (hl r List.mem_cons_self), ih (fun r' hr' => hl r' (List.mem_cons_of_mem _ hr'))]
      rfl
  rw [this]
  intro r hr
  obtain ⟨q, _, hrq⟩ := List.mem_flatMap.1 hr
  exact (List.mem_filter.1 hrq).2

/-- the peer list just before the element loop -/
def peers3 (ps : List Peer) (c : Nat) : List Peer :=
  updatePeer (mapElements ((updatePeer ps c (fun q => { q with routes := [] })).map
    (fun (q : Peer) => { q with routes := q.routes.filter (·.requester != c) })) (unsub c)) c
    (fun q => { q with fetches := [] })

theorem findFetch_peers3 (ps : List Peer) (c : Nat) (fk : FetchKey) (hne : fk.peer ≠ c) :
    findFetch (peers3 ps c) fk = findFetch ps fk := by
  unfold peers3 mapElements
  rw [findFetch_updatePeer_ne (by intro _; rfl) fk hne]
  rw [findFetch_map (by intro _; rfl) (by intro _; rfl)]
  rw [findFetch_map (by intro _; rfl) (by intro _; rfl)]
  exact findFetch_updatePeer (by intro _; rfl) (by intro _; rfl) fk

theorem findPeer_peers3 {ps : List Peer} {c : Nat} {p : Peer} (hp : findPeer ps c = some p) :
    ∃ pc, findPeer (peers3 ps c) c = some pc ∧ pc.elements = p.elements.map (unsub c) := by
  unfold peers3 mapElements
  rw [findPeer_updatePeer_self (by intro _; rfl), findPeer_map (by intro _; rfl), findPeer_map (by intro _; rfl),
    findPeer_updatePeer_self (by intro _; rfl), hp]
  exact ⟨_, rfl, rfl⟩

theorem filter_peers3 (ps : List Peer) (c : Nat) :
    (peers3 ps c).filter (·.conn != c) = (ps.filter (·.conn != c)).map (scrub c) := by
  unfold peers3 mapElements
  rw [filter_ne_updatePeer _ _ _ (by intro _; rfl)]
  rw [filter_ne_map _ _ _ (by intro _; rfl)]
  rw [filter_ne_map _ _ _ (by intro _; rfl)]
  rw [filter_ne_updatePeer _ _ _ (by intro _; rfl)]
  simp only [List.map_map]
  rfl

/-- `free_peer_resources` for a live connection `c`, under the invariant: the post-state is
    `afterClose`, the outputs are `closeTrace` (appended in order, send results taken from the oracle) -/
theorem freePeerResources_eq {x : Ctx} (h : Inv x.st) {c : Nat} {p : Peer} (hp : findPeer x.st.peers c = some p) :
    freePeerResources x c = { play x (closeTrace x.st c) with st := afterClose x.st c } := by
  have hpm := (findPeer_some hp).1
  have hpc := (findPeer_some hp).2
  rw [freePeerResources_phases, hp]
  dsimp only
  rw [phase1_eq, phase2_eq]
  unfold phase3 phase4 phase5
  obtain ⟨pc, hpc3, hels3⟩ := findPeer_peers3 (c := c) hp
  simp only [play_with_st]
  have hloop := closeLoop c p.elements
    { play (play x (p.routes.flatMap (routeActs c))) (((updatePeer x.st.peers c (fun q => { q with routes := [] })).flatMap
        (fun q => q.routes.filter (·.requester == c))).map (fun r => Obs.timerDestroy r.timer)) with
      st := { x.st with peers := peers3 x.st.peers c } } pc hpc3 hels3 (h.paths p hpm)
    (fun e he => (h.owner p hpm e he).trans hpc)
  unfold peers3 at hloop
  rw [hloop]
  clear hloop
  simp only [play_with_st]
  -- traces
  unfold closeTrace
  rw [hp]
  simp only [play_append]
  rw [flatMap_routes_updatePeer]
  have htr : (p.elements.flatMap (fun e => notifyActs (peers3 x.st.peers c) (unsub c e) "remove")) =
      p.elements.flatMap (fun e => notifyActs x.st.peers (unsub c e) "remove") := by
    apply flatMap_congr'
    intro e _
    apply notifyActs_congr
    intro fk hfk
    exact findFetch_peers3 _ _ _ (mem_unsub_fetchers hfk).2
  unfold peers3 at htr
  rw [htr]
  -- state
  congr 1
  unfold afterClose
  congr 1
  · have := filter_peers3 x.st.peers c
    unfold peers3 at this
    rw [filter_ne_updatePeer _ _ _ (by intro _; rfl)]
    exact this
  · apply List.filter_congr
    intro en hen
    obtain ⟨pa, o⟩ := en
    simp only
    by_cases ho : o = c
    · subst ho
      obtain ⟨p', hp', hp'c, e, he, hpa⟩ := h.idxElem pa o hen
      have : p' = p := findPeer_unique h.nodup hp' hpm (hp'c.trans hpc.symm)
      subst this
      have h1 : (p'.elements.all fun e => pa != e.path) = false := by
        rw [List.all_eq_false]
        exact ⟨e, he, by simp [hpa]⟩
      simp [h1]
    · have h1 : (p.elements.all fun e => pa != e.path) = true := by
        rw [List.all_eq_true]
        intro e he
        simp only [bne_iff_ne, ne_eq]
        intro hpa
        have := h.inIdx p hpm e he
        rw [← hpa, hpc] at this
        exact ho (idx_unique h.idxNodup hen this)
      simp [h1, ho]

end Cjet.Daemon.C05
