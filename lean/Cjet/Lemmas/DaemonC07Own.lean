/-
  DaemonC07Own — ownership: every element, fetch and routing entry has exactly one owner list, and
  a teardown releases exactly what the leaving peer owns or requested.
-/
import Cjet.Lemmas.DaemonC01Exec
import Cjet.Lemmas.DaemonC07Base

namespace Cjet.Daemon.C07

open Cjet Cjet.Json Cjet.Daemon

/-! ## the objects of a state -/

def elemPaths (s : State) : List Bytes := s.peers.flatMap (fun p => p.elements.map (·.path))
def fetchUids (s : State) : List Nat := s.peers.flatMap (fun p => p.fetches.map (·.uid))
def allRoutes (s : State) : List Route := s.peers.flatMap (·.routes)

/-- the requests of `c` waiting in the tables of the other peers -/
def requestedBy (s : State) (c : Nat) : List Route :=
  (s.peers.filter (·.conn != c)).flatMap (fun q => q.routes.filter (·.requester == c))

/-! ## list facts -/

theorem nodup_flatMap' {α β : Type} {l : List α} {f : α → List β}
    (h1 : ∀ a ∈ l, (f a).Nodup) (h2 : l.Pairwise (fun a b => ∀ x ∈ f a, x ∉ f b)) : (l.flatMap f).Nodup := by
  induction l with
  | nil => simp
  | cons a t ih =>
    rw [List.flatMap_cons, List.nodup_append]
    rw [List.pairwise_cons] at h2
    refine ⟨h1 a List.mem_cons_self, ih (fun b hb => h1 b (List.mem_cons_of_mem _ hb)) h2.2, ?_⟩
    intro x hx y hy e
    subst e
    obtain ⟨b, hb, hxb⟩ := List.mem_flatMap.mp hy
    exact h2.1 b hb x hx hxb

theorem flatMap_append_perm' {α β : Type} (l : List α) (f g : α → List β) :
    (l.flatMap (fun a => f a ++ g a)).Perm (l.flatMap f ++ l.flatMap g) := by
  induction l with
  | nil => simp
  | cons a t ih =>
    simp only [List.flatMap_cons]
    -- (f a ++ g a) ++ rest ~ (f a ++ F) ++ (g a ++ G)
    have h1 : (f a ++ g a ++ List.flatMap (fun a => f a ++ g a) t).Perm
        (f a ++ g a ++ (List.flatMap f t ++ List.flatMap g t)) := List.Perm.append_left _ ih
    refine h1.trans ?_
    rw [List.append_assoc, List.append_assoc]
    apply List.Perm.append_left
    rw [← List.append_assoc, ← List.append_assoc]
    exact List.Perm.append_right _ List.perm_append_comm

theorem flatMap_perm_congr {α β : Type} {l : List α} {f g : α → List β}
    (h : ∀ a ∈ l, (f a).Perm (g a)) : (l.flatMap f).Perm (l.flatMap g) := by
  induction l with
  | nil => simp
  | cons a t ih =>
    simp only [List.flatMap_cons]
    exact (h a List.mem_cons_self).append (ih (fun b hb => h b (List.mem_cons_of_mem _ hb)))

theorem filter_conn_eq {ps : List Peer} (hn : (C05.conns ps).Nodup) {c : Nat} {p : Peer}
    (hp : findPeer ps c = some p) : ps.filter (·.conn == c) = [p] := by
  induction ps with
  | nil => cases hp
  | cons q t ih =>
    simp only [C05.conns_cons, List.nodup_cons] at hn
    unfold findPeer at hp
    rw [List.find?_cons] at hp
    by_cases hq : (q.conn == c) = true
    · simp only [hq, Option.some.injEq] at hp
      subst hp
      rw [List.filter_cons, if_pos hq]
      congr 1
      apply List.filter_eq_nil_iff.mpr
      intro r hr hrc
      have h1 : q.conn = c := by simpa using hq
      have h2 : r.conn = c := by simpa using hrc
      exact hn.1 (C05.mem_conns.mpr ⟨r, hr, by rw [h2, h1]⟩)
    · have hq' : (q.conn == c) = false := by simpa using hq
      simp only [hq'] at hp
      rw [List.filter_cons, if_neg hq]
      exact ih hn.2 hp

/-- the peer list splits into the leaving peer and the others -/
theorem peers_split {ps : List Peer} (hn : (C05.conns ps).Nodup) {c : Nat} {p : Peer}
    (hp : findPeer ps c = some p) {β : Type} (f : Peer → List β) :
    (ps.flatMap f).Perm (f p ++ (ps.filter (·.conn != c)).flatMap f) := by
  have h := (List.filter_append_perm (fun q : Peer => q.conn == c) ps).symm
  have h2 := List.Perm.flatMap_right f h
  rw [List.flatMap_append, filter_conn_eq hn hp] at h2
  simpa [bne] using h2

/-! ## ownership in every reachable state -/

theorem peers_pairwise {ps : List Peer} (hn : (C05.conns ps).Nodup) :
    ps.Pairwise (fun a b => a.conn ≠ b.conn) := by
  unfold C05.conns List.Nodup at hn
  exact List.pairwise_map.mp hn

theorem elemPaths_nodup {s : State} (hI : C05.Inv s) : (elemPaths s).Nodup := by
  apply nodup_flatMap'
  · intro p hp; exact hI.paths p hp
  · apply List.Pairwise.imp_of_mem _ (peers_pairwise hI.nodup)
    intro a b ha hb hne x hxa hxb
    obtain ⟨e, he, rfl⟩ := List.mem_map.mp hxa
    obtain ⟨e', he', hpe⟩ := List.mem_map.mp hxb
    exact hne (by rw [hI.path_owner ha hb he he' hpe.symm])

theorem fetchUids_nodup {cfg : Config} {s : State} (hI : C01.Inv cfg s) : (fetchUids s).Nodup := by
  apply nodup_flatMap'
  · intro p hp; exact hI.fetches.uidNodup p hp
  · have hn : (C05.conns s.peers).Nodup := hI.fetches.connNodup
    apply List.Pairwise.imp_of_mem _ (peers_pairwise hn)
    intro a b ha hb hne x hxa hxb
    obtain ⟨f, hf, rfl⟩ := List.mem_map.mp hxa
    obtain ⟨g, hg, hfg⟩ := List.mem_map.mp hxb
    exact hne (hI.fetches.uidGlobal a ha b hb f hf g hg hfg.symm)

/-- the index has exactly one entry per element -/
theorem index_perm_elemPaths {s : State} (hI : C05.Inv s) : (s.index.map (·.1)).Perm (elemPaths s) := by
  rw [List.perm_ext_iff_of_nodup hI.idxNodup (elemPaths_nodup hI)]
  intro pa
  constructor
  · intro h
    obtain ⟨en, hen, rfl⟩ := List.mem_map.mp h
    obtain ⟨p, hp, _, e, he, hpa⟩ := hI.idxElem en.1 en.2 hen
    exact List.mem_flatMap.mpr ⟨p, hp, List.mem_map.mpr ⟨e, he, hpa⟩⟩
  · intro h
    obtain ⟨p, hp, hm⟩ := List.mem_flatMap.mp h
    obtain ⟨e, he, rfl⟩ := List.mem_map.mp hm
    exact List.mem_map.mpr ⟨(e.path, p.conn), hI.inIdx p hp e he, rfl⟩

/-! ## what a teardown releases -/

theorem elemPaths_afterClose (s : State) (c : Nat) :
    elemPaths (C05.afterClose s c) = (s.peers.filter (·.conn != c)).flatMap (fun p => p.elements.map (·.path)) := by
  unfold elemPaths C05.afterClose
  simp only [List.flatMap_map]
  apply C05.flatMap_congr'
  intro p _
  simp [C05.scrub, List.map_map, Function.comp_def]

theorem fetchUids_afterClose (s : State) (c : Nat) :
    fetchUids (C05.afterClose s c) = (s.peers.filter (·.conn != c)).flatMap (fun p => p.fetches.map (·.uid)) := by
  unfold fetchUids C05.afterClose
  simp only [List.flatMap_map]
  rfl

theorem allRoutes_afterClose (s : State) (c : Nat) :
    allRoutes (C05.afterClose s c) =
      (s.peers.filter (·.conn != c)).flatMap (fun p => p.routes.filter (·.requester != c)) := by
  unfold allRoutes C05.afterClose
  simp only [List.flatMap_map]
  rfl

/-- the routing entries before a teardown of `c` = those of `c`'s own table + `c`'s requests in the
    other tables + the entries that survive -/
theorem allRoutes_split {s : State} (hn : (C05.conns s.peers).Nodup) {c : Nat} {p : Peer}
    (hp : findPeer s.peers c = some p) :
    (allRoutes s).Perm (p.routes ++ requestedBy s c ++ allRoutes (C05.afterClose s c)) := by
  rw [allRoutes_afterClose, List.append_assoc]
  refine (peers_split hn hp (·.routes)).trans (List.Perm.append_left _ ?_)
  unfold requestedBy
  refine List.Perm.trans ?_ (flatMap_append_perm' _ _ _)
  apply flatMap_perm_congr
  intro q _
  have := (List.filter_append_perm (fun r : Route => r.requester == c) q.routes).symm
  simpa [bne] using this

theorem heldTimers_eq_map (s : State) : heldTimers s = (allRoutes s).map (·.timer) := rfl

/-! ## the timers a teardown destroys -/

theorem destroyed_strip (l : List Obs) : C03.destroyed (l.map C05.strip) = C03.destroyed l := by
  induction l with
  | nil => rfl
  | cons o t ih =>
    cases o with
    | send c j b => exact ih
    | closed c => exact ih
    | timerArm a b => exact ih
    | timerDestroy a => show a :: C03.destroyed (t.map C05.strip) = a :: C03.destroyed t; rw [ih]

theorem destroyed_routeActs (c : Nat) (rs : List Route) :
    C03.destroyed (rs.flatMap (C05.routeActs c)) = rs.map (·.timer) := by
  induction rs with
  | nil => rfl
  | cons r t ih =>
    rw [List.flatMap_cons, C03.destroyed_append, ih]
    unfold C05.routeActs
    simp only [List.map_cons]
    congr 1
    split
    · rfl
    · split
      · rfl
      · split <;> rfl

theorem destroyed_map_destroy (rs : List Route) :
    C03.destroyed (rs.map (fun r => Obs.timerDestroy r.timer)) = rs.map (·.timer) := by
  induction rs with
  | nil => rfl
  | cons r t ih => simp [ih]

theorem destroyed_notifyActs (ps : List Peer) (e : Element) (ev : String) :
    C03.destroyed (C05.notifyActs ps e ev) = [] := by
  unfold C05.notifyActs
  induction e.fetchers with
  | nil => rfl
  | cons s t ih =>
    rw [List.filterMap_cons]
    split
    · exact ih
    · next o ho =>
      cases s with
      | none => simp at ho
      | some fk =>
        simp only at ho
        cases hf : findFetch ps fk with
        | none => rw [hf] at ho; simp at ho
        | some f =>
          rw [hf] at ho
          simp only [Option.map_some, Option.some.injEq] at ho
          subst ho
          exact ih

theorem destroyed_flatMap_nil {α : Type} (l : List α) (f : α → List Obs) (h : ∀ a, C03.destroyed (f a) = []) :
    C03.destroyed (l.flatMap f) = [] := by
  induction l with
  | nil => rfl
  | cons a t ih => rw [List.flatMap_cons, C03.destroyed_append, h a, ih]; rfl

/-- the timers destroyed by a closing step: whatever the accepted part of the message destroyed,
    then exactly the timers of the leaving peer's table and of its own requests elsewhere -/
theorem closes_destroyed {cfg : Config} {s : State} {op : Op} {c : Nat} {x : Ctx} (hI : C05.Inv s)
    (hx : C05.Closes cfg s op c x) {p : Peer} (hp : findPeer x.st.peers c = some p) :
    C03.destroyed (step cfg s op).2 =
      C03.destroyed x.out.reverse ++ (p.routes ++ requestedBy x.st c).map (·.timer) := by
  have h := congrArg C03.destroyed (hx.out_eq hI hp)
  rw [destroyed_strip] at h
  rw [h]
  simp only [C03.destroyed_append, destroyed_strip, destroyed_routeActs, destroyed_map_destroy,
    List.map_append]
  rw [destroyed_flatMap_nil _ _ (fun e => destroyed_notifyActs _ _ _)]
  simp [requestedBy, C03.destroyed, C03.destroyedOf]

end Cjet.Daemon.C07
