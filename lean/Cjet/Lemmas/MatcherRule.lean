import Cjet.Lemmas.MatcherFn

/-! Helper lemmas for C16: the rule parser (`create_fetch` … `add_matchers`) and `state_matches`. -/

namespace Cjet.Matcher

open List
open Cjet.Generated.Matcher (CFn Entry table optionKey optionKeyCmpLen)

/-! ### facts about the generated table (re-checked whenever fetch.c changes) -/

theorem optionKey_nulFree : NulFree optionKey := by decide
theorem optionKey_cmpLen : optionKey.length < optionKeyCmpLen := by decide
theorem optionName_eq : Kind.optionName = optionKey := by decide
theorem table_names_nulFree : ∀ e ∈ table, NulFree e.name := by decide

/-- Every table entry is one of the property's kinds, wired to the right pair of functions. -/
theorem table_kinds : ∀ e ∈ table, ∃ k ∈ Kind.all, e.name = k.name ∧
    kindOfFn e.caseSensitive = (k, false) ∧ kindOfFn e.caseInsensitive = (k, true) ∧ e.multi = k.multi := by
  decide

/-- Every kind of the property is in the table. -/
theorem kinds_in_table : ∀ k ∈ Kind.all, ∃ e ∈ table, e.name = k.name := by decide

theorem kind_names_inj : ∀ k₁ ∈ Kind.all, ∀ k₂ ∈ Kind.all, k₁.name = k₂.name → k₁ = k₂ := by decide

theorem kind_mem_all (k : Kind) : k ∈ Kind.all := by cases k <;> decide

/-- The option key is not a matcher name. -/
theorem specKind_optionKey : specKind optionKey = none := by decide

/-- No matcher name is taken for the option key by the option lookup of `create_fetch`. -/
theorem table_not_option : ∀ e ∈ table,
    cjsonKeyEq (Cjet.Generated.Matcher.optionLookupCaseSensitive ||
      Cjet.Generated.Matcher.cjsonGetObjectItemCaseSensitive) optionKey e.name = false := by
  decide


/-! ### the option key test and the table lookup -/

theorem isOptionKey_iff (k : Bytes) : isOptionKey k = true ↔ cstr k = optionKey := by
  unfold isOptionKey
  rw [beq_iff_eq]
  exact strncmp_long_eq_zero _ _ _ (nulFree_cstr k) optionKey_nulFree optionKey_cmpLen

theorem isOptionKey_eq (m : Bytes × JVal) : isOptionKey m.1 = isOption m := by
  have := isOptionKey_iff m.1
  unfold isOption
  cases h : isOptionKey m.1
  · have hne : ¬ cstr m.1 = optionKey := fun he => by simp [this.mpr he] at h
    simp [hne]
  · simp [this.mp h]

theorem lookupEntry_some {name : Bytes} : ∀ {es : List Entry} {e : Entry},
    lookupEntry name es = some e → e ∈ es ∧ strcmp name e.name = 0
  | [], _, h => by simp [lookupEntry] at h
  | x :: xs, e, h => by
    unfold lookupEntry at h
    by_cases hx : (strcmp name x.name == 0) = true
    · simp only [hx, ↓reduceIte, Option.some.injEq] at h
      subst h
      exact ⟨by simp, by simpa using hx⟩
    · simp only [hx, Bool.false_eq_true, ↓reduceIte] at h
      have := lookupEntry_some h
      exact ⟨List.mem_cons_of_mem _ this.1, this.2⟩

theorem lookupEntry_none {name : Bytes} : ∀ {es : List Entry},
    lookupEntry name es = none → ∀ e ∈ es, strcmp name e.name ≠ 0
  | [], _ => by simp
  | x :: xs, h => by
    unfold lookupEntry at h
    by_cases hx : (strcmp name x.name == 0) = true
    · simp [hx] at h
    · simp only [hx, Bool.false_eq_true, ↓reduceIte] at h
      intro e he
      rcases List.mem_cons.mp he with rfl | he
      · simpa using hx
      · exact lookupEntry_none h e he

/-- A name found in the table is the name of the entry found (names are C strings). -/
theorem lookupEntry_table {name : Bytes} {e : Entry} (hn : NulFree name)
    (h : lookupEntry name table = some e) : e ∈ table ∧ e.name = name := by
  obtain ⟨hm, hs⟩ := lookupEntry_some h
  exact ⟨hm, ((strcmp_eq_zero _ _ hn (table_names_nulFree e hm)).mp hs).symm⟩

theorem specKind_some {name : Bytes} {k : Kind} : specKind name = some k ↔ k.name = name := by
  unfold specKind
  constructor
  · intro h
    simpa using List.find?_some h
  · intro h
    cases hf : Kind.all.find? (fun k => k.name == name) with
    | none =>
      have := List.find?_eq_none.mp hf k (kind_mem_all k)
      simp [h] at this
    | some k' =>
      have h1 : k'.name = name := by simpa using List.find?_some hf
      rw [kind_names_inj k' (kind_mem_all k') k (kind_mem_all k) (h1.trans h.symm)]

theorem specKind_none {name : Bytes} : specKind name = none ↔ ∀ k : Kind, k.name ≠ name := by
  unfold specKind
  rw [List.find?_eq_none]
  constructor
  · intro h k
    simpa using h k (kind_mem_all k)
  · intro h k _
    simpa using h k

/-- The lookup loop of `create_matcher` finds exactly the kinds the property names. -/
theorem lookupEntry_specKind {name : Bytes} (hn : NulFree name) :
    (∀ e, lookupEntry name table = some e →
      ∃ k, specKind name = some k ∧ kindOfFn e.caseSensitive = (k, false) ∧
        kindOfFn e.caseInsensitive = (k, true) ∧ e.multi = k.multi) ∧
    (lookupEntry name table = none → specKind name = none) := by
  constructor
  · intro e h
    obtain ⟨hm, hname⟩ := lookupEntry_table hn h
    obtain ⟨k, _, hk, h1, h2, h3⟩ := table_kinds e hm
    exact ⟨k, specKind_some.mpr (hk.symm.trans hname), h1, h2, h3⟩
  · intro h
    rw [specKind_none]
    intro k hk
    obtain ⟨e, he, hen⟩ := kinds_in_table k (kind_mem_all k)
    have := lookupEntry_none h e he
    apply this
    rw [strcmp_eq_zero _ _ hn (table_names_nulFree e he), hen, hk]

theorem fillPathElements_eq_allStrings : ∀ items, fillPathElements items = allStrings items
  | [] => rfl
  | .str b :: rest => by simp [fillPathElements, allStrings, fillPathElements_eq_allStrings rest]
  | .other :: _ => rfl

theorem allStrings_nulFree : ∀ {items ops}, allStrings items = some ops → ∀ e ∈ ops, NulFree e
  | [], ops, h => by
    simp only [allStrings, Option.some.injEq] at h
    subst h
    simp
  | .str b :: rest, ops, h => by
    simp only [allStrings, Option.map_eq_some_iff] at h
    obtain ⟨t, ht, rfl⟩ := h
    intro e he
    rcases List.mem_cons.mp he with rfl | he
    · exact nulFree_cstr b
    · exact allStrings_nulFree ht e he
  | .other :: _, ops, h => by simp [allStrings] at h

theorem allStrings_length : ∀ {items ops}, allStrings items = some ops → ops.length = items.length
  | [], ops, h => by
    simp only [allStrings, Option.some.injEq] at h
    subst h
    rfl
  | .str b :: rest, ops, h => by
    simp only [allStrings, Option.map_eq_some_iff] at h
    obtain ⟨t, ht, rfl⟩ := h
    simp [allStrings_length ht]
  | .other :: _, ops, h => by simp [allStrings] at h

theorem operands_nulFree {k : Kind} {v : JVal} {ops : List Bytes} (h : operands k v = some ops) :
    ∀ e ∈ ops, NulFree e := by
  unfold operands at h
  split at h
  · split at h
    · simp at h
    · exact allStrings_nulFree h
    · simp at h
  · split at h
    · simp only [Option.some.injEq] at h
      subst h
      intro e he
      simp only [List.mem_singleton] at he
      subst he
      exact nulFree_cstr _
    · simp at h

theorem callocOk_zero_false {cfg : Cfg} (hs : cfg.Sane) : callocOk cfg (pathMatcherBytes 0) = false := by
  unfold Cfg.Sane at hs
  unfold callocOk
  simp only [Bool.not_eq_false', decide_eq_true_eq]
  omega

end Cjet.Matcher
