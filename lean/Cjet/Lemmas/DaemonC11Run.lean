/-
  Cjet.Lemmas.DaemonC11Run — lockstep of two runs that differ only in send results: whole
  messages, steps, runs.
-/
import Cjet.Lemmas.DaemonC11Sync

namespace Cjet.Daemon.C11

open Cjet Cjet.Json Cjet.Daemon Cjet.Daemon.C05

theorem Ok.grows {x x' : Ctx} (h : Ok x x') : ∃ D, x'.out = D ++ x.out := by
  obtain ⟨_, _, d, hd, _⟩ := h
  exact ⟨d, hd⟩

theorem Sim.inv {x y : Ctx} (h : Sim x y) (hI : Inv x.st) : Inv y.st := h.1 ▸ hI

theorem parseJsonArray_nil (cfg : Config) (x : Ctx) (c : Nat) : parseJsonArray cfg x c [] = (x, true) := rfl
theorem parseJsonArray_obj (cfg : Config) (x : Ctx) (c : Nat) (l : List (Bytes × Json)) (rest : List Json) :
    parseJsonArray cfg x c (.obj l :: rest) =
      if (parseJsonRpc cfg x c (.obj l)).2 then parseJsonArray cfg (parseJsonRpc cfg x c (.obj l)).1 c rest
      else ((parseJsonRpc cfg x c (.obj l)).1, false) := rfl

theorem parseJsonArray_sync (cfg : Config) {x y : Ctx} (hI : Inv x.st) (h : Sim x y) (c : Nat) (l : List Json)
    {o1 o2 : List Obs} (e1 : Ext (parseJsonArray cfg x c l).1 o1) (e2 : Ext (parseJsonArray cfg y c l).1 o2)
    (ha : AgreeOn (Crit c) o1 o2) :
    SimR (parseJsonArray cfg x c l) (parseJsonArray cfg y c l) := by
  induction l generalizing x y with
  | nil => exact ⟨h, rfl⟩
  | cons j rest ih =>
    cases j with
    | obj l' =>
      rw [parseJsonArray_obj cfg x] at e1 ⊢
      rw [parseJsonArray_obj cfg y] at e2 ⊢
      have hIy := h.inv hI
      have ok1 := parseJsonRpc_ok cfg hI c (.obj l')
      have ok2 := parseJsonRpc_ok cfg hIy c (.obj l')
      -- the outputs of the first member are a prefix of the final outputs
      have g1 : Ext (parseJsonRpc cfg x c (.obj l')).1 o1 := by
        by_cases hb : (parseJsonRpc cfg x c (.obj l')).2 = true
        · rw [if_pos hb] at e1
          exact Ext.of_grows (Ok.grows (parseJsonArray_ok cfg ok1.inv c rest)) e1
        · rw [if_neg hb] at e1; exact e1
      have g2 : Ext (parseJsonRpc cfg y c (.obj l')).1 o2 := by
        by_cases hb : (parseJsonRpc cfg y c (.obj l')).2 = true
        · rw [if_pos hb] at e2
          exact Ext.of_grows (Ok.grows (parseJsonArray_ok cfg ok2.inv c rest)) e2
        · rw [if_neg hb] at e2; exact e2
      obtain ⟨hs, hb⟩ := parseJsonRpc_sync cfg h c (.obj l') g1 g2 ha
      rw [← hb] at e2 ⊢
      by_cases hbb : (parseJsonRpc cfg x c (.obj l')).2 = true
      · simp only [if_pos hbb] at e1 e2 ⊢
        exact ih ok1.inv hs e1 e2
      · simp only [if_neg hbb]
        exact ⟨hs, rfl⟩
    | null => exact ⟨h, rfl⟩
    | bool b => exact ⟨h, rfl⟩
    | num n => exact ⟨h, rfl⟩
    | str s => exact ⟨h, rfl⟩
    | arr a => exact ⟨h, rfl⟩

theorem parseMessage_sync (cfg : Config) {x y : Ctx} (hI : Inv x.st) (h : Sim x y) (c : Nat) (msg : Option Json)
    {o1 o2 : List Obs} (e1 : Ext (parseMessage cfg x c msg).1 o1) (e2 : Ext (parseMessage cfg y c msg).1 o2)
    (ha : AgreeOn (Crit c) o1 o2) :
    SimR (parseMessage cfg x c msg) (parseMessage cfg y c msg) := by
  cases msg with
  | none => exact ⟨h, rfl⟩
  | some j =>
    cases j with
    | arr l => exact parseJsonArray_sync cfg hI h c l e1 e2 ha
    | obj l => exact parseJsonRpc_sync cfg h c (.obj l) e1 e2 ha
    | null => exact ⟨h, rfl⟩
    | bool b => exact ⟨h, rfl⟩
    | num n => exact ⟨h, rfl⟩
    | str s => exact ⟨h, rfl⟩

/-! ## steps -/

theorem Sim.out_reverse {x y : Ctx} (h : Sim x y) : x.out.reverse.map strip = y.out.reverse.map strip := by
  rw [List.map_reverse, List.map_reverse, h.2.2.2]

theorem closePeer_grows {x : Ctx} (hI : Inv x.st) {c : Nat} (hc : c ∈ conns x.st.peers) :
    ∃ D, (closePeer x c).out = D ++ x.out := by
  have := findPeer_isSome.2 hc
  cases hf : findPeer x.st.peers c with
  | none => rw [hf] at this; cases this
  | some p =>
    rw [closePeer_eq hI hf]
    obtain ⟨D, hD, _⟩ := play_out_raw x (closeTrace x.st c)
    exact ⟨Obs.closed c :: D, by simp [hD]⟩

/-- The same message of `c`, served from the same state with two oracles (same table refusals,
    any send results): if the two output lists agree on the results of the sends to `c` and of
    the routed requests, the post-states are equal and the outputs are equal up to send results. -/
theorem message_sync (cfg : Config) {s : State} (hI : Inv s) (c : Nat) (msg : Option Json) (o1 o2 : Oracle)
    (hif : o1.indexFull = o2.indexFull) (hrf : o1.routeFull = o2.routeFull)
    (ha : AgreeOn (Crit c) (step cfg s (.message c msg o1)).2 (step cfg s (.message c msg o2)).2) :
    (step cfg s (.message c msg o1)).1 = (step cfg s (.message c msg o2)).1 ∧
    (step cfg s (.message c msg o1)).2.map strip = (step cfg s (.message c msg o2)).2.map strip := by
  rw [step_message, step_message] at ha ⊢
  by_cases hn : (findPeer s.peers c).isNone = true
  · rw [if_pos hn, if_pos hn]; exact ⟨rfl, rfl⟩
  · simp only [if_neg hn] at ha ⊢
    have hc : c ∈ conns s.peers := by
      rcases Classical.em (c ∈ conns s.peers) with h | h
      · exact h
      · exact absurd (findPeer_isNone.2 h) hn
    have hsim : Sim (mkCtx s o1) (mkCtx s o2) := ⟨rfl, hif, hrf, rfl⟩
    have ok1 := parseMessage_ok cfg (x := mkCtx s o1) hI c msg
    have ok2 := parseMessage_ok cfg (x := mkCtx s o2) hI c msg
    have g1 : Ext (parseMessage cfg (mkCtx s o1) c msg).1
        (if (parseMessage cfg (mkCtx s o1) c msg).2 = true then (parseMessage cfg (mkCtx s o1) c msg).1
          else closePeer (parseMessage cfg (mkCtx s o1) c msg).1 c).out.reverse := by
      by_cases hb : (parseMessage cfg (mkCtx s o1) c msg).2 = true
      · rw [if_pos hb]; exact Ext.refl _
      · rw [if_neg hb]
        exact Ext.of_grows (closePeer_grows ok1.inv (by rw [ok1.2.1]; exact hc)) (Ext.refl _)
    have g2 : Ext (parseMessage cfg (mkCtx s o2) c msg).1
        (if (parseMessage cfg (mkCtx s o2) c msg).2 = true then (parseMessage cfg (mkCtx s o2) c msg).1
          else closePeer (parseMessage cfg (mkCtx s o2) c msg).1 c).out.reverse := by
      by_cases hb : (parseMessage cfg (mkCtx s o2) c msg).2 = true
      · rw [if_pos hb]; exact Ext.refl _
      · rw [if_neg hb]
        exact Ext.of_grows (closePeer_grows ok2.inv (by rw [ok2.2.1]; exact hc)) (Ext.refl _)
    obtain ⟨hs, hb⟩ := parseMessage_sync cfg (x := mkCtx s o1) hI hsim c msg g1 g2 ha
    rw [← hb]
    by_cases hbb : (parseMessage cfg (mkCtx s o1) c msg).2 = true
    · simp only [if_pos hbb]
      exact ⟨hs.1, hs.out_reverse⟩
    · simp only [if_neg hbb]
      have := closePeer_sim hs c
      exact ⟨this.1, this.out_reverse⟩

/-- a disconnect and a timer expiry do not look at any send result -/
theorem disconnect_sync (cfg : Config) (s : State) (c : Nat) (o1 o2 : Oracle)
    (hif : o1.indexFull = o2.indexFull) (hrf : o1.routeFull = o2.routeFull) :
    (step cfg s (.disconnect c o1)).1 = (step cfg s (.disconnect c o2)).1 ∧
    (step cfg s (.disconnect c o1)).2.map strip = (step cfg s (.disconnect c o2)).2.map strip := by
  rw [step_disconnect, step_disconnect]
  by_cases hn : (findPeer s.peers c).isNone = true
  · rw [if_pos hn, if_pos hn]; exact ⟨rfl, rfl⟩
  · simp only [if_neg hn]
    have hsim : Sim (mkCtx s o1) (mkCtx s o2) := ⟨rfl, hif, hrf, rfl⟩
    have := closePeer_sim hsim c
    exact ⟨this.1, this.out_reverse⟩

theorem timerFire_sync (cfg : Config) (s : State) (t : Nat) (o1 o2 : Oracle)
    (hif : o1.indexFull = o2.indexFull) (hrf : o1.routeFull = o2.routeFull) :
    (step cfg s (.timerFire t o1)).1 = (step cfg s (.timerFire t o2)).1 ∧
    (step cfg s (.timerFire t o1)).2.map strip = (step cfg s (.timerFire t o2)).2.map strip := by
  rw [step_timerFire, step_timerFire]
  have hsim : Sim (mkCtx s o1) (mkCtx s o2) := ⟨rfl, hif, hrf, rfl⟩
  have := timeoutFired_sim hsim t
  exact ⟨this.1, this.out_reverse⟩

/-- the same operation with the same table refusals; the send results may differ -/
def SameOp : Op → Op → Prop
  | .connect c ws l a, .connect c' ws' l' a' => c = c' ∧ ws = ws' ∧ l = l' ∧ a = a'
  | .message c m o, .message c' m' o' => c = c' ∧ m = m' ∧ o.indexFull = o'.indexFull ∧ o.routeFull = o'.routeFull
  | .disconnect c o, .disconnect c' o' => c = c' ∧ o.indexFull = o'.indexFull ∧ o.routeFull = o'.routeFull
  | .timerFire t o, .timerFire t' o' => t = t' ∧ o.indexFull = o'.indexFull ∧ o.routeFull = o'.routeFull
  | _, _ => False

/-- the sends whose results decide how an operation goes on: for a message of `c` the sends to
    `c` and the routed requests; for every other operation none -/
def critOf : Op → Nat → Json → Prop
  | .message c _ _ => Crit c
  | _ => fun _ _ => False

theorem step_sync (cfg : Config) {s : State} (hI : Inv s) {op1 op2 : Op} (hs : SameOp op1 op2)
    (ha : AgreeOn (critOf op1) (step cfg s op1).2 (step cfg s op2).2) :
    (step cfg s op1).1 = (step cfg s op2).1 ∧ (step cfg s op1).2.map strip = (step cfg s op2).2.map strip := by
  cases op1 with
  | connect c ws l a =>
    cases op2 with
    | connect c' ws' l' a' =>
      obtain ⟨rfl, rfl, rfl, rfl⟩ := hs
      exact ⟨rfl, rfl⟩
    | message _ _ _ => exact hs.elim
    | disconnect _ _ => exact hs.elim
    | timerFire _ _ => exact hs.elim
  | message c m o =>
    cases op2 with
    | message c' m' o' =>
      obtain ⟨rfl, rfl, h1, h2⟩ := hs
      exact message_sync cfg hI c m o o' h1 h2 ha
    | connect _ _ _ _ => exact hs.elim
    | disconnect _ _ => exact hs.elim
    | timerFire _ _ => exact hs.elim
  | disconnect c o =>
    cases op2 with
    | disconnect c' o' =>
      obtain ⟨rfl, h1, h2⟩ := hs
      exact disconnect_sync cfg s c o o' h1 h2
    | connect _ _ _ _ => exact hs.elim
    | message _ _ _ => exact hs.elim
    | timerFire _ _ => exact hs.elim
  | timerFire t o =>
    cases op2 with
    | timerFire t' o' =>
      obtain ⟨rfl, h1, h2⟩ := hs
      exact timerFire_sync cfg s t o o' h1 h2
    | connect _ _ _ _ => exact hs.elim
    | message _ _ _ => exact hs.elim
    | disconnect _ _ => exact hs.elim

/-! ## runs -/

/-- per step: the two runs' outputs agree on the decisive send results -/
def AgreeRun (K : Op → Nat → Json → Prop) : List Op → List (List Obs) → List (List Obs) → Prop
  | op :: ops, o1 :: os1, o2 :: os2 => AgreeOn (K op) o1 o2 ∧ AgreeRun K ops os1 os2
  | _, _, _ => True

/-- the same operations, with the same table refusals; send results may differ -/
inductive SameOps : List Op → List Op → Prop
  | nil : SameOps [] []
  | cons {a b : Op} {l l' : List Op} : SameOp a b → SameOps l l' → SameOps (a :: l) (b :: l')

theorem run_sync (cfg : Config) {s : State} (hI : Inv s) {ops1 ops2 : List Op} (hs : SameOps ops1 ops2)
    (ha : AgreeRun critOf ops1 (run cfg s ops1).2 (run cfg s ops2).2) :
    (run cfg s ops1).1 = (run cfg s ops2).1 ∧
    (run cfg s ops1).2.map (·.map strip) = (run cfg s ops2).2.map (·.map strip) := by
  induction hs generalizing s with
  | nil => exact ⟨rfl, rfl⟩
  | cons hop _ ih =>
    rw [run_cons, run_cons] at ha ⊢
    obtain ⟨ha1, ha2⟩ := ha
    obtain ⟨h1, h2⟩ := step_sync cfg hI hop ha1
    rw [← h1] at ha2 ⊢
    obtain ⟨h3, h4⟩ := ih (step_inv hI _) ha2
    exact ⟨h3, by simp only [List.map_cons, h2, h4]⟩

/-! ## faulty peers -/

/-- what peer `r` is sent in an output list: the messages and whether each was delivered -/
def received (r : Nat) : List Obs → List (Json × Bool)
  | [] => []
  | .send d j b :: rest => if d = r then (j, b) :: received r rest else received r rest
  | .closed _ :: rest => received r rest
  | .timerArm _ _ :: rest => received r rest
  | .timerDestroy _ :: rest => received r rest

theorem AgreeOn.tail {K : Nat → Json → Prop} {a b : Obs} {l l' : List Obs} (h : AgreeOn K (a :: l) (b :: l')) :
    AgreeOn K l l' := by
  intro i d j1 j2 b1 b2 h1 h2 hk
  exact h (i + 1) d j1 j2 b1 b2 (by simpa using h1) (by simpa using h2) hk

/-- equal up to send results + agreement on the results for peers outside `F`
    ⇒ a peer outside `F` is sent the same messages with the same results -/
theorem received_eq {F : Nat → Prop} {r : Nat} (hr : ¬ F r) :
    ∀ (o1 o2 : List Obs), o1.map strip = o2.map strip → AgreeOn (fun d _ => ¬ F d) o1 o2 →
      received r o1 = received r o2 := by
  intro o1
  induction o1 with
  | nil =>
    intro o2 hm _
    cases o2 with
    | nil => rfl
    | cons b l => cases hm
  | cons a l ih =>
    intro o2 hm ha
    cases o2 with
    | nil => cases hm
    | cons b l' =>
      simp only [List.map_cons, List.cons.injEq] at hm
      obtain ⟨hab, hl⟩ := hm
      have ht := ih l' hl ha.tail
      cases a with
      | send d j b1 =>
        cases b with
        | send d' j' b2 =>
          simp only [strip, Obs.send.injEq, and_true] at hab
          obtain ⟨rfl, rfl⟩ := hab
          unfold received
          by_cases hd : d = r
          · have : b1 = b2 := ha 0 d j j b1 b2 rfl rfl (hd ▸ hr)
            simp [hd, this, ht]
          · simp [hd, ht]
        | closed _ => simp [strip] at hab
        | timerArm _ _ => simp [strip] at hab
        | timerDestroy _ => simp [strip] at hab
      | closed c =>
        cases b <;> simp [strip] at hab
        simp [received, ht]
      | timerArm t n =>
        cases b <;> simp [strip] at hab
        simp [received, ht]
      | timerDestroy t =>
        cases b <;> simp [strip] at hab
        simp [received, ht]

/-- if no faulty peer is the sender of the message and no routed request of the step goes to a
    faulty peer, agreement outside `F` implies agreement on the decisive sends -/
theorem agreeOn_crit_of_faulty {F : Nat → Prop} {op : Op} {o1 o2 : List Obs}
    (hreq : ∀ c m o, op = .message c m o → ¬ F c)
    (hrouted : ∀ d j b, Obs.send d j b ∈ o1 → isRouted j = true → ¬ F d)
    (h : AgreeOn (fun d _ => ¬ F d) o1 o2) : AgreeOn (critOf op) o1 o2 := by
  intro i d j1 j2 b1 b2 h1 h2 hk
  apply h i d j1 j2 b1 b2 h1 h2
  cases op with
  | message c m o =>
    rcases hk with rfl | hk
    · exact hreq _ m o rfl
    · exact hrouted d j1 b1 (List.mem_of_getElem? h1) hk
  | connect _ _ _ _ => exact hk.elim
  | disconnect _ _ => exact hk.elim
  | timerFire _ _ => exact hk.elim

/-- Two runs of the same operations whose oracles differ only in the results of sends addressed
    to peers in `F`, where no peer of `F` sends a message and no routed request goes to a peer of
    `F`: equal final states, equal outputs up to send results, and every peer outside `F` is sent
    the same messages with the same results, step by step. -/
theorem run_sync_faulty (cfg : Config) (F : Nat → Prop) {s : State} (hI : Inv s) {ops1 ops2 : List Op}
    (hs : SameOps ops1 ops2)
    (hreq : ∀ op ∈ ops1, ∀ c m o, op = Op.message c m o → ¬ F c)
    (hrouted : ∀ o ∈ (run cfg s ops1).2, ∀ d j b, Obs.send d j b ∈ o → isRouted j = true → ¬ F d)
    (ha : AgreeRun (fun _ d _ => ¬ F d) ops1 (run cfg s ops1).2 (run cfg s ops2).2) :
    (run cfg s ops1).1 = (run cfg s ops2).1 ∧
    (run cfg s ops1).2.map (·.map strip) = (run cfg s ops2).2.map (·.map strip) ∧
    ∀ r, ¬ F r → (run cfg s ops1).2.map (received r) = (run cfg s ops2).2.map (received r) := by
  induction hs generalizing s with
  | nil => exact ⟨rfl, rfl, fun _ _ => rfl⟩
  | @cons a b l l' hop _ ih =>
    rw [run_cons, run_cons] at ha ⊢
    rw [run_cons] at hrouted
    obtain ⟨ha1, ha2⟩ := ha
    have hcrit := agreeOn_crit_of_faulty (op := a) (fun c m o h => hreq a List.mem_cons_self c m o h)
      (fun d j b' hm hr' => hrouted _ List.mem_cons_self d j b' hm hr') ha1
    obtain ⟨h1, h2⟩ := step_sync cfg hI hop hcrit
    rw [← h1] at ha2 ⊢
    obtain ⟨h3, h4, h5⟩ := ih (step_inv hI _) (fun op hop' => hreq op (List.mem_cons_of_mem _ hop'))
      (fun o ho => hrouted o (List.mem_cons_of_mem _ ho)) ha2
    refine ⟨h3, by simp only [List.map_cons, h2, h4], ?_⟩
    intro r hr
    simp only [List.map_cons, h5 r hr, received_eq hr _ _ h2 ha1]

end Cjet.Daemon.C11
