import Cjet.Ws.Wire
import Cjet.Lemmas.WsSend
/-! Helper lemmas about the dispatcher. -/
namespace Cjet.Ws
open Cjet.Generated.Ws

theorem xorFrom_getElem? (key : Bytes) (s : Nat) (bs : Bytes) (i : Nat) :
    (xorFrom key s bs)[i]? = bs[i]?.map (· ^^^ maskByte key (s + i)) := by
  induction bs generalizing s i with
  | nil => simp [xorFrom]
  | cons b bs ih =>
    cases i with
    | zero => simp [xorFrom]
    | succ i =>
      simp only [xorFrom, List.getElem?_cons_succ, ih]
      have : s + 1 + i = s + (i + 1) := by omega
      rw [this]

/-- `handle_error` of an upgraded server: close frame `88 02 code`, connection closed, `on_error` -/
theorem handleError_server (c : Conf) (hs : c.isServer = true) (hu : c.upgradeComplete = true) (code : Nat) :
    handleError c code = [Action.write c.sendOk (serverCloseFrame code), Action.closeConn, Action.onError] := by
  simp only [handleError, websocketClose, hu, if_true, Conf.frame, hs, closePayload, serverCloseFrame]
  rw [sendFrame_server_eq_wire _ _ _ _ (by decide)]
  simp [LenForm.minimal, be16]

theorem refuse_refusedWith (c : Conf) (f : Flags) (code : Nat) : (refuse c f code).refusedWith c code := by
  simp [refuse, HandleResult.refusedWith]

end Cjet.Ws
