import Cjet.Ws.Wire
import Cjet.Lemmas.WsSend
/-! Helper lemmas about the dispatcher. -/
namespace Cjet.Ws
open Cjet.Generated.Ws

theorem xorFrom_getElem? (key : Bytes) (s : Nat) (bs : Bytes) (i : Nat) :
    (xorFrom key s bs)[i]? = bs[i]?.map (· ^^^ maskByte key (s + i)) := by
  induction bs generalizing s i with
  | nil => simp [xorFrom]
  | cons b bs ih =>
    cases i with
    | zero => simp [xorFrom]
    | succ i =>
      simp only [xorFrom, List.getElem?_cons_succ, ih]
      have : s + 1 + i = s + (i + 1) := by omega
      rw [this]

/-- `handle_error` of an upgraded server: close frame `88 02 code`, connection closed, `on_error` -/
theorem handleError_server (c : Conf) (hs : c.isServer = true) (hu : c.upgradeComplete = true) (code : Nat) :
    handleError c code = [Action.write c.sendOk (serverCloseFrame code), Action.closeConn, Action.onError] := by
  simp only [handleError, websocketClose, hu, if_true, Conf.frame, hs, closePayload, serverCloseFrame]
  rw [sendFrame_server_eq_wire _ _ _ _ (by decide)]
  simp [LenForm.minimal, be16]

theorem refuse_refusedWith (c : Conf) (f : Flags) (code : Nat) : (refuse c f code).refusedWith c code := by
  simp [refuse, HandleResult.refusedWith]


/-- outcome of a fragment: processed by a fragment callback, or refused with 1002 / 1003 -/
def FragOutcome (c : Conf) (p : Bytes) (r : HandleResult) : Prop :=
  (∃ last, r.actions.head? = some (Action.textFrame p last)) ∨
  (∃ last, r.actions.head? = some (Action.binaryFrame p last)) ∨
  r.refusedWith c closeProtocolError ∨
  r.refusedWith c closeUnsupported

theorem fragOutcome_refuse1002 (c : Conf) (p : Bytes) (f : Flags) : FragOutcome c p (refuse c f closeProtocolError) :=
  Or.inr (Or.inr (Or.inl (refuse_refusedWith c f _)))

theorem fragOutcome_refuse1003 (c : Conf) (p : Bytes) (f : Flags) : FragOutcome c p (refuse c f closeUnsupported) :=
  Or.inr (Or.inr (Or.inr (refuse_refusedWith c f _)))

theorem dispatch_continuation (c : Conf) (f : Flags) (p : Bytes) (h0 : f.opcode = opContinuation) :
    FragOutcome c p (dispatchOpcode c f p) := by
  unfold dispatchOpcode
  simp only [h0, if_true]
  by_cases hb : f.fragOpcode = opBinary
  · simp only [hb, if_true]
    cases c.cbs.binaryFrame with
    | none => exact fragOutcome_refuse1003 c p f
    | some cb => exact Or.inr (Or.inl ⟨f.fin, by simp⟩)
  · simp only [hb, if_false]
    by_cases ht : f.fragOpcode = opText
    · simp only [ht, if_true]
      cases c.cbs.textFrame with
      | none => exact fragOutcome_refuse1003 c p f
      | some cb =>
        simp only
        cases cb p f.fin <;> exact Or.inl ⟨f.fin, by simp⟩
    · simp only [ht, if_false]
      exact fragOutcome_refuse1002 c p f

/-- with no fragment handlers installed, a continuation is always refused -/
theorem dispatch_continuation_nohandler (c : Conf) (f : Flags) (p : Bytes) (h0 : f.opcode = opContinuation)
    (h1 : c.cbs.textFrame = none) (h2 : c.cbs.binaryFrame = none) :
    (dispatchOpcode c f p).refusedWith c closeProtocolError ∨ (dispatchOpcode c f p).refusedWith c closeUnsupported := by
  unfold dispatchOpcode
  simp only [h0, if_true, h1, h2]
  by_cases hb : f.fragOpcode = opBinary
  · simp only [hb, if_true]; exact Or.inr (refuse_refusedWith c f _)
  · simp only [hb, if_false]
    by_cases ht : f.fragOpcode = opText
    · simp only [ht, if_true]; exact Or.inr (refuse_refusedWith c f _)
    · simp only [ht, if_false]; exact Or.inl (refuse_refusedWith c f _)

/-- the part of `ws_handle_frame` before the `switch`, for a fragment: either a protocol error, or the
    `switch` is entered with opcode 0 -/
theorem handleFrame_fragment (c : Conf) (f : Flags)
    (hfrag : (f.fin = false ∧ f.opcode < opClose) ∨ f.opcode = opContinuation) (p : Bytes) :
    wsHandleFrame c f p = refuse c f closeProtocolError ∨
    (∃ f', wsHandleFrame c f p = refuse c f' closeProtocolError) ∨
    (∃ f', f'.opcode = opContinuation ∧ wsHandleFrame c f p = dispatchOpcode c f' p) := by
  unfold wsHandleFrame
  cases rsvCheck c f with
  | none => exact Or.inl rfl
  | some comp =>
    simp only
    have hnc : (!f.fin && decide (f.opcode ≥ opClose)) = false := by
      rcases hfrag with ⟨_, ho⟩ | ho
      · simp only [opClose] at ho ⊢; simp; omega
      · simp [ho, opClose, opContinuation]
    simp only [hnc, Bool.false_eq_true, if_false]
    unfold fragStep
    by_cases hfin : f.fin = true
    · -- FIN = 1: then opcode = 0
      have ho : f.opcode = opContinuation := by
        rcases hfrag with ⟨hf, _⟩ | ho
        · rw [hf] at hfin; cases hfin
        · exact ho
      simp only [hfin, Bool.not_true, Bool.false_eq_true, if_false]
      have hz : (f.isFragmented && (decide (f.opcode < opClose) && decide (f.opcode > 0))) = false := by
        simp [ho, opContinuation]
      simp only [hz, Bool.false_eq_true, if_false]
      exact Or.inr (Or.inr ⟨f, ho, rfl⟩)
    · have hfin' : f.fin = false := by cases h : f.fin <;> simp_all
      simp only [hfin', Bool.not_false, if_true]
      by_cases ho : f.opcode = 0
      · simp only [ho, ne_eq, not_true_eq_false, if_false]
        by_cases hr : f.rsv = 0
        · simp only [hr, not_true_eq_false, if_false]
          cases hif : f.isFragmented with
          | false => simp
          | true =>
            simp only [Bool.not_true, Bool.false_eq_true, if_false]
            have hz : (f.isFragmented && (decide (f.opcode < opClose) && decide (f.opcode > 0))) = false := by
              simp [ho]
            simp only [hz, Bool.false_eq_true, if_false]
            exact Or.inr (Or.inr ⟨f, ho, rfl⟩)
        · simp [hr]
      · simp only [ne_eq, ho, not_false_eq_true, if_true]
        cases hif : f.isFragmented with
        | true => simp
        | false =>
          simp only [Bool.false_eq_true, if_false]
          refine Or.inr (Or.inr ⟨{ f with isFragmented := true, isFragCompressed := f.isFragCompressed || comp,
                                          fragOpcode := f.opcode, opcode := opContinuation }, rfl, ?_⟩)
          simp [opContinuation, hfin']


end Cjet.Ws
