/-
  DaemonC07Ledger — the timer ledger on the router transition system of `DaemonC03Lts`.

  The log `a.tl` of a router state holds the timer observations emitted so far (newest first).
  `DInv` (C03) already says: no timer id is destroyed twice, a destroyed id is below the counter
  and carried by no stored entry.  Here:

  * `AInv` (unconditional): no id is armed twice, an armed id is below the counter, every stored
    entry carries an armed id, and every id below the counter was armed or destroyed (a timer is
    never created silently);
  * `Acct` (needs distinct routed ids, `RS.Rids`, and a live owner for a stored entry): every id
    below the counter is destroyed or carried by a stored entry — no timer is lost.
-/
import Cjet.Lemmas.DaemonC03Final

namespace Cjet.Daemon.C07

open Cjet Cjet.Json Cjet.Daemon Cjet.Daemon.C03

/-! ## armed timers of a log -/

def armedOf : Obs → Option Nat
  | .timerArm t _ => some t
  | _ => none

/-- timer ids armed so far -/
def armed (tl : List Obs) : List Nat := tl.filterMap armedOf

@[simp] theorem armed_nil : armed [] = [] := rfl
@[simp] theorem armed_cons_arm (t n : Nat) (l : List Obs) : armed (.timerArm t n :: l) = t :: armed l := rfl
@[simp] theorem armed_cons_destroy (t : Nat) (l : List Obs) : armed (.timerDestroy t :: l) = armed l := rfl
@[simp] theorem armed_cons_send (c : Nat) (j : Json) (b : Bool) (l : List Obs) : armed (.send c j b :: l) = armed l := rfl
@[simp] theorem armed_cons_closed (c : Nat) (l : List Obs) : armed (.closed c :: l) = armed l := rfl
theorem armed_append (l₁ l₂ : List Obs) : armed (l₁ ++ l₂) = armed l₁ ++ armed l₂ := by
  simp [armed]

theorem armed_destroys (l : List Route) : armed (l.map (fun r => Obs.timerDestroy r.timer)) = [] := by
  induction l with
  | nil => rfl
  | cons a t ih => simpa using ih

theorem armed_destroys_reverse (l : List Route) :
    armed ((l.map (fun r => Obs.timerDestroy r.timer)).reverse) = [] := by
  rw [← List.map_reverse]; exact armed_destroys _

/-! ## the arming side (unconditional) -/

structure AInv (a : RS) : Prop where
  armedOnce : (armed a.tl).Nodup
  armedLt : ∀ t ∈ armed a.tl, t < a.nt
  heldArmed : ∀ r ∈ vRoutes a.V, r.timer ∈ armed a.tl
  seen : ∀ t, t < a.nt → t ∈ armed a.tl ∨ t ∈ destroyed a.tl

theorem vRoutes_connect (V : List PV) (c : Nat) (addr : Bytes) :
    vRoutes (V ++ [⟨c, addr, []⟩]) = vRoutes V := by
  rw [vRoutes_append]; simp [vRoutes]

theorem ainv_app {l : Lbl} {a : RS} (hp : Pre l a) (h : AInv a) : AInv (app l a) := by
  cases l with
  | tick => exact ⟨h.armedOnce, h.armedLt, h.heldArmed, h.seen⟩
  | full =>
    refine ⟨h.armedOnce, fun t ht => Nat.lt_succ_of_lt (h.armedLt t ht), h.heldArmed, ?_⟩
    intro t ht
    simp only [app, destroyed_cons_destroy, armed_cons_destroy, List.mem_cons] at ht ⊢
    by_cases e : t = a.nt
    · exact Or.inr (Or.inl e)
    · rcases h.seen t (by omega) with h1 | h1
      · exact Or.inl h1
      · exact Or.inr (Or.inr h1)
  | issue r tns =>
    refine ⟨?_, ?_, ?_, ?_⟩
    · simp only [app, armed_cons_arm, List.nodup_cons]
      exact ⟨fun hm => Nat.lt_irrefl _ (h.armedLt _ hm), h.armedOnce⟩
    · intro t ht
      simp only [app, armed_cons_arm, List.mem_cons] at ht ⊢
      rcases ht with rfl | ht
      · exact Nat.lt_succ_self _
      · exact Nat.lt_succ_of_lt (h.armedLt t ht)
    · intro r' hr'
      simp only [app, armed_cons_arm, List.mem_cons]
      rcases mem_vRoutes_vAdd hr' with hr' | rfl
      · exact Or.inr (h.heldArmed r' hr')
      · exact Or.inl hp.timer
    · intro t ht
      simp only [app, armed_cons_arm, destroyed_cons_arm, List.mem_cons] at ht ⊢
      by_cases e : t = a.nt
      · exact Or.inl (Or.inl e)
      · rcases h.seen t (by omega) with h1 | h1
        · exact Or.inl (Or.inr h1)
        · exact Or.inr h1
  | issueFail r tns =>
    refine ⟨?_, ?_, ?_, ?_⟩
    · simp only [app, armed_cons_destroy, armed_cons_arm, List.nodup_cons]
      exact ⟨fun hm => Nat.lt_irrefl _ (h.armedLt _ hm), h.armedOnce⟩
    · intro t ht
      simp only [app, armed_cons_destroy, armed_cons_arm, List.mem_cons] at ht ⊢
      rcases ht with rfl | ht
      · exact Nat.lt_succ_self _
      · exact Nat.lt_succ_of_lt (h.armedLt t ht)
    · intro r' hr'
      simp only [app, armed_cons_destroy, armed_cons_arm, List.mem_cons]
      exact Or.inr (h.heldArmed r' (mem_vRoutes_vRemove_vAdd hr'))
    · intro t ht
      simp only [app, armed_cons_destroy, armed_cons_arm, destroyed_cons_destroy, destroyed_cons_arm,
        List.mem_cons] at ht ⊢
      by_cases e : t = a.nt
      · exact Or.inl (Or.inl e)
      · rcases h.seen t (by omega) with h1 | h1
        · exact Or.inl (Or.inr h1)
        · exact Or.inr (Or.inr h1)
  | drop o r =>
    refine ⟨h.armedOnce, h.armedLt, ?_, ?_⟩
    · intro r' hr'
      exact h.heldArmed r' ((vRoutes_vRemove_sublist _ _ _).subset hr')
    · intro t ht
      simp only [app, armed_cons_destroy, destroyed_cons_destroy, List.mem_cons] at ht ⊢
      rcases h.seen t ht with h1 | h1
      · exact Or.inl h1
      · exact Or.inr (Or.inr h1)
  | close c =>
    have harm : armed (app (.close c) a).tl = armed a.tl := by
      simp only [app, armed_append, armed_destroys_reverse, List.nil_append]
    refine ⟨by rw [harm]; exact h.armedOnce, by rw [harm]; exact h.armedLt, ?_, ?_⟩
    · intro r' hr'
      rw [harm]
      exact h.heldArmed r' ((vRoutes_vClose_sublist _ _).subset hr')
    · intro t ht
      rw [harm]
      simp only [app, destroyed_append, List.mem_append] at ht ⊢
      rcases h.seen t ht with h1 | h1
      · exact Or.inl h1
      · exact Or.inr (Or.inr h1)
  | connect c addr =>
    refine ⟨h.armedOnce, h.armedLt, ?_, h.seen⟩
    intro r hr
    rw [show (app (.connect c addr) a).V = a.V ++ [⟨c, addr, []⟩] from rfl, vRoutes_connect] at hr
    exact h.heldArmed r hr

theorem ainv_steps {ls : List Lbl} {a b : RS} (hs : Steps ls a b) (h : AInv a) : AInv b := by
  induction ls generalizing a with
  | nil => cases hs; exact h
  | cons l t ih => exact ih hs.2 (ainv_app hs.1 h)

/-! ## no timer is lost -/

/-- every timer id handed out so far is destroyed or carried by a stored entry -/
def Acct (a : RS) : Prop := ∀ t, t < a.nt → t ∈ destroyed a.tl ∨ ∃ r ∈ vRoutes a.V, r.timer = t

/-- the owner named by a stored entry is a connected peer -/
def Live7 : Lbl → RS → Prop
  | .issue r _, a => r.owner ∈ a.V.map (·.conn)
  | _, _ => True

theorem mem_vRoutes_vAdd_self {V : List PV} {r : Route} (h : r.owner ∈ V.map (·.conn)) :
    r ∈ vRoutes (vAdd V r.owner r) := by
  obtain ⟨v, hv, hc⟩ := List.mem_map.mp h
  refine mem_vRoutes.mpr ⟨_, mem_vAdd.mpr ⟨v, hv, rfl⟩, ?_⟩
  have : (v.conn == r.owner) = true := by simpa using hc
  simp [this]

theorem mem_vRoutes_vRemove_of_ne {V : List PV} {o : Nat} {rid : Bytes} {r : Route}
    (h : r ∈ vRoutes V) (hne : r.rid ≠ rid) : r ∈ vRoutes (vRemove V o rid) := by
  obtain ⟨v, hv, hr⟩ := mem_vRoutes.mp h
  refine mem_vRoutes.mpr ⟨_, mem_vRemove.mpr ⟨v, hv, rfl⟩, ?_⟩
  split
  · exact List.mem_filter.mpr ⟨hr, by simpa using hne⟩
  · exact hr

/-- an entry is released by the close of `c` or survives it -/
theorem mem_close_split {V : List PV} (hn : (V.map (·.conn)).Nodup) (c : Nat) {r : Route}
    (h : r ∈ vRoutes V) : r ∈ vCloseRoutes V c ∨ r ∈ vRoutes (vClose V c) := by
  obtain ⟨v, hv, hr⟩ := mem_vRoutes.mp h
  by_cases hvc : v.conn = c
  · left
    apply List.mem_append_left
    rw [← hvc, vTable_of_mem hn hv]
    exact hr
  · by_cases hrc : r.requester = c
    · left
      apply List.mem_append_right
      unfold vMine
      refine List.mem_flatMap.mpr ⟨_, List.mem_map.mpr ⟨v, hv, rfl⟩, ?_⟩
      have : (v.conn == c) = false := by simpa using hvc
      simp only [this, Bool.false_eq_true, ↓reduceIte, List.mem_filter, beq_iff_eq]
      exact ⟨hr, hrc⟩
    · right
      refine mem_vRoutes.mpr ⟨_, mem_vClose.mpr ⟨v, hv, hvc, rfl⟩, ?_⟩
      exact List.mem_filter.mpr ⟨hr, by simpa using hrc⟩

theorem acct_app {l : Lbl} {a : RS} (hp : Pre l a) (hl : Live7 l a) (hw : a.Wf) (hr : a.Rids)
    (h : Acct a) : Acct (app l a) := by
  cases l with
  | tick => exact h
  | full =>
    intro t ht
    simp only [app, destroyed_cons_destroy, List.mem_cons] at ht ⊢
    by_cases e : t = a.nt
    · exact Or.inl (Or.inl e)
    · rcases h t (by omega) with h1 | h1
      · exact Or.inl (Or.inr h1)
      · exact Or.inr h1
  | issue r tns =>
    intro t ht
    simp only [app, destroyed_cons_arm] at ht ⊢
    by_cases e : t = a.nt
    · exact Or.inr ⟨r, mem_vRoutes_vAdd_self hl, by rw [e]; exact hp.timer⟩
    · rcases h t (by omega) with h1 | ⟨r', hr', ht'⟩
      · exact Or.inl h1
      · exact Or.inr ⟨r', mem_vRoutes_vAdd_of_mem hr', ht'⟩
  | issueFail r tns =>
    intro t ht
    simp only [app, destroyed_cons_destroy, destroyed_cons_arm, List.mem_cons] at ht ⊢
    by_cases e : t = a.nt
    · exact Or.inl (Or.inl e)
    · rcases h t (by omega) with h1 | ⟨r', hr', ht'⟩
      · exact Or.inl (Or.inr h1)
      · exact Or.inr ⟨r', mem_vRoutes_vRemove_of_ne (mem_vRoutes_vAdd_of_mem hr') (hp.rid_new hr r' hr'), ht'⟩
  | drop o r =>
    have hrt : r ∈ vTable a.V o := hp
    have hlive := vTable_subset_vRoutes hrt
    intro t ht
    simp only [app, destroyed_cons_destroy, List.mem_cons] at ht ⊢
    rcases h t ht with h1 | ⟨r', hr', ht'⟩
    · exact Or.inl (Or.inr h1)
    · by_cases e : r'.rid = r.rid
      · have : r' = r := eq_of_nodup_map _ hr.rids hr' hlive e
        subst this
        exact Or.inl (Or.inl ht'.symm)
      · exact Or.inr ⟨r', mem_vRoutes_vRemove_of_ne hr' e, ht'⟩
  | close c =>
    intro t ht
    simp only [app, destroyed_append, destroyed_map_reverse, List.mem_append, List.mem_reverse,
      List.mem_map] at ht ⊢
    rcases h t ht with h1 | ⟨r', hr', ht'⟩
    · exact Or.inl (Or.inr h1)
    · rcases mem_close_split hw.conns c hr' with h2 | h2
      · exact Or.inl (Or.inl ⟨r', h2, ht'⟩)
      · exact Or.inr ⟨r', h2, ht'⟩
  | connect c addr =>
    intro t ht
    rcases h t ht with h1 | ⟨r', hr', ht'⟩
    · exact Or.inl h1
    · refine Or.inr ⟨r', ?_, ht'⟩
      rw [show (app (.connect c addr) a).V = a.V ++ [⟨c, addr, []⟩] from rfl, vRoutes_connect]
      exact hr'

/-! ## steps whose stored entries have live owners -/

def Steps7 : List Lbl → RS → RS → Prop
  | [], a, b => b = a
  | l :: ls, a, b => Pre l a ∧ Live7 l a ∧ Steps7 ls (app l a) b

theorem Steps7.steps {ls : List Lbl} {a b : RS} (h : Steps7 ls a b) : Steps ls a b := by
  induction ls generalizing a with
  | nil => exact h
  | cons l t ih => exact ⟨h.1, ih h.2.2⟩

theorem Steps7.nil (a : RS) : Steps7 [] a a := rfl

theorem Steps7.single {l : Lbl} {a : RS} (h : Pre l a) (hl : Live7 l a) : Steps7 [l] a (app l a) :=
  ⟨h, hl, rfl⟩

theorem Steps7.append {l₁ l₂ : List Lbl} {a b c : RS} (h₁ : Steps7 l₁ a b) (h₂ : Steps7 l₂ b c) :
    Steps7 (l₁ ++ l₂) a c := by
  induction l₁ generalizing a with
  | nil => cases h₁; exact h₂
  | cons l ls ih => exact ⟨h₁.1, h₁.2.1, ih h₁.2.2⟩

/-- labels other than `issue` carry no liveness obligation -/
def NoIssue : Lbl → Prop
  | .issue _ _ => False
  | _ => True

theorem steps_to7 {ls : List Lbl} {a b : RS} (h : Steps ls a b) (hn : ∀ l ∈ ls, NoIssue l) :
    Steps7 ls a b := by
  induction ls generalizing a with
  | nil => exact h
  | cons l t ih =>
    refine ⟨h.1, ?_, ih h.2 (fun l' h' => hn l' (List.mem_cons_of_mem _ h'))⟩
    have := hn l (List.mem_cons_self ..)
    cases l <;> first | trivial | exact this.elim

theorem live7_addLog {l : Lbl} {a : RS} (L : List Obs) (h : Live7 l a) : Live7 l (a.addLog L) := by
  cases l <;> exact h

theorem steps7_addLog {ls : List Lbl} {a b : RS} (L : List Obs) (h : Steps7 ls a b) :
    Steps7 ls (a.addLog L) (b.addLog L) := by
  induction ls generalizing a with
  | nil => cases h; rfl
  | cons l t ih =>
    refine ⟨pre_addLog L h.1, live7_addLog L h.2.1, ?_⟩
    rw [app_addLog]
    exact ih h.2.2

/-- the conditional part of the ledger along a run of router steps -/
theorem acct_steps {ls : List Lbl} {a b : RS} (hs : Steps7 ls a b) (hw : a.Wf) (hr : a.Rids)
    (hb : a.uuid + ticksOf ls < 4294967296)
    (hconn : ∀ c addr, Lbl.connect c addr ∈ ls → AddrOk addr) (h : Acct a) : Acct b := by
  induction ls generalizing a with
  | nil => cases hs; exact h
  | cons l t ih =>
    rw [ticksOf_cons] at hb
    obtain ⟨h1, h2⟩ := rids_app hs.1 hw hr (by omega)
      (fun c addr e => hconn c addr (e ▸ List.mem_cons_self ..))
    exact ih hs.2.2 (wf_app hs.1 hw) h1 (by omega)
      (fun c addr hm => hconn c addr (List.mem_cons_of_mem _ hm)) (acct_app hs.1 hs.2.1 hw hr h)

end Cjet.Daemon.C07
