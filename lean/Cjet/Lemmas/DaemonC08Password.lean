/-
  DaemonC08Password — the password fields of the credential table are read by credentials_ok
  only: every other function of the model commutes with replacing the credential table
  (`wu`), and authenticate / passwd depend on the passwords through the verdict only.
-/
import Cjet.Lemmas.DaemonC08Auth

namespace Cjet.Daemon.C08

open Cjet Cjet.Json Cjet.Daemon

/-- the same context with another credential table -/
def wu (us : List User) (x : Ctx) : Ctx := { x with st := { x.st with users := us } }

@[simp] theorem wu_peers (us : List User) (x : Ctx) : (wu us x).st.peers = x.st.peers := rfl
@[simp] theorem wu_index (us : List User) (x : Ctx) : (wu us x).st.index = x.st.index := rfl
@[simp] theorem wu_users (us : List User) (x : Ctx) : (wu us x).st.users = us := rfl
@[simp] theorem wu_sends (us : List User) (x : Ctx) : (wu us x).sends = x.sends := rfl
@[simp] theorem wu_out (us : List User) (x : Ctx) : (wu us x).out = x.out := rfl
@[simp] theorem wu_indexFull (us : List User) (x : Ctx) : (wu us x).indexFull = x.indexFull := rfl
@[simp] theorem wu_routeFull (us : List User) (x : Ctx) : (wu us x).routeFull = x.routeFull := rfl
theorem wu_self (x : Ctx) : wu x.st.users x = x := rfl
theorem wu_wu (us us' : List User) (x : Ctx) : wu us (wu us' x) = wu us x := rfl

theorem findElement_wu (us : List User) (x : Ctx) (path : Bytes) : findElement (wu us x).st path = findElement x.st path := rfl

/-! ## primitives -/

theorem send_wu (us : List User) (x : Ctx) (c : Nat) (j : Json) :
    send (wu us x) c j = (wu us (send x c j).1, (send x c j).2) := by
  unfold send
  simp only [wu_sends]
  cases x.sends <;> rfl

theorem send'_wu (us : List User) (x : Ctx) (c : Nat) (j : Json) : send' (wu us x) c j = wu us (send' x c j) := by
  unfold send'; rw [send_wu]

theorem emit_wu (us : List User) (x : Ctx) (o : Obs) : emit (wu us x) o = wu us (emit x o) := rfl

theorem sendResponse_wu (us : List User) (x : Ctx) (c : Nat) (r : Option Json) :
    sendResponse (wu us x) c r = (wu us (sendResponse x c r).1, (sendResponse x c r).2) := by
  unfold sendResponse
  cases r with
  | none => rfl
  | some j => exact send_wu ..

theorem notifyOne_wu (us : List User) (x : Ctx) (e : Element) (fk : FetchKey) (ev : String) :
    notifyOne (wu us x) e fk ev = wu us (notifyOne x e fk ev) := by
  unfold notifyOne
  simp only [wu_peers]
  cases findFetch x.st.peers fk with
  | none => rfl
  | some f => exact send'_wu ..

theorem foldl_wu {β : Type} (g : Ctx → β → Ctx) (us : List User) (hg : ∀ x b, g (wu us x) b = wu us (g x b))
    (l : List β) (x : Ctx) : l.foldl g (wu us x) = wu us (l.foldl g x) := by
  induction l generalizing x with
  | nil => rfl
  | cons a rest ih => simp only [List.foldl_cons]; rw [hg, ih]

theorem foldl_wu2 {β γ : Type} (g : Ctx × γ → β → Ctx × γ) (us : List User)
    (hg : ∀ x e b, g (wu us x, e) b = (wu us (g (x, e) b).1, (g (x, e) b).2))
    (l : List β) (x : Ctx) (e : γ) :
    l.foldl g (wu us x, e) = (wu us (l.foldl g (x, e)).1, (l.foldl g (x, e)).2) := by
  induction l generalizing x e with
  | nil => rfl
  | cons a rest ih =>
    simp only [List.foldl_cons]
    rw [hg, ih]

theorem notifyFetchers_wu (us : List User) (x : Ctx) (e : Element) (ev : String) :
    notifyFetchers (wu us x) e ev = wu us (notifyFetchers x e ev) := by
  unfold notifyFetchers
  apply foldl_wu
  intro x s
  cases s with
  | none => rfl
  | some fk => exact notifyOne_wu ..

theorem offerElement_wu (cfg : Config) (us : List User) (x : Ctx) (e : Element) (fp : Peer) (f : Fetch) :
    offerElement cfg (wu us x) e fp f = (wu us (offerElement cfg x e fp f).1, (offerElement cfg x e fp f).2) := by
  unfold offerElement
  split
  · rfl
  · split
    · simp only [send'_wu]
    · rfl

theorem findFetchersForElement_wu (cfg : Config) (us : List User) (x : Ctx) (e : Element) :
    findFetchersForElement cfg (wu us x) e =
      (wu us (findFetchersForElement cfg x e).1, (findFetchersForElement cfg x e).2) := by
  unfold findFetchersForElement
  simp only [wu_peers]
  apply foldl_wu2
  intro x e fp
  apply foldl_wu2
  intro x e f
  exact offerElement_wu ..

/-! ## handlers that do not look at the credential table -/

theorem changeState_wu (us : List User) (x : Ctx) (p : Peer) (req : Json) :
    changeState (wu us x) p req = (wu us (changeState x p req).1, (changeState x p req).2) := by
  unfold changeState
  split
  · rfl
  · split
    · rfl
    · rw [findElement_wu]
      split
      · rfl
      · split
        · rfl
        · split
          · rfl
          · simp only
            rw [← notifyFetchers_wu]
            rfl

theorem removeElement_wu (us : List User) (x : Ctx) (e : Element) :
    removeElement (wu us x) e = wu us (removeElement x e) := by
  unfold removeElement
  simp only
  rw [notifyFetchers_wu]
  rfl

theorem removeElementReq_wu (us : List User) (x : Ctx) (p : Peer) (req : Json) :
    removeElementReq (wu us x) p req = (wu us (removeElementReq x p req).1, (removeElementReq x p req).2) := by
  unfold removeElementReq
  split
  · rfl
  · split
    · simp only [removeElement_wu]
    · rfl

theorem add_tail_wu (cfg : Config) (us : List User) (x : Ctx) (c : Nat) (req : Json) (path : Bytes) (e0 : Element) :
    (match findFetchersForElement cfg (wu us x) e0 with
       | (x1, e1) =>
        if x1.indexFull then
          let x2 := notifyFetchers x1 e1 "remove"
          (({ x2 with indexFull := false } : Ctx),
           errorFromRequest req INTERNAL_ERROR "reason" (k "element table full"))
        else
          let st := { x1.st with
            index := x1.st.index ++ [(path, c)],
            peers := updatePeer x1.st.peers c (fun q => { q with elements := q.elements ++ [e1] }) }
          ({ x1 with st := st }, successFromRequest req)) =
    (let r := (match findFetchersForElement cfg x e0 with
       | (x1, e1) =>
        if x1.indexFull then
          let x2 := notifyFetchers x1 e1 "remove"
          (({ x2 with indexFull := false } : Ctx),
           errorFromRequest req INTERNAL_ERROR "reason" (k "element table full"))
        else
          let st := { x1.st with
            index := x1.st.index ++ [(path, c)],
            peers := updatePeer x1.st.peers c (fun q => { q with elements := q.elements ++ [e1] }) }
          ({ x1 with st := st }, successFromRequest req))
     (wu us r.1, r.2)) := by
  rw [findFetchersForElement_wu]
  generalize findFetchersForElement cfg x e0 = r
  obtain ⟨x1, e1⟩ := r
  cases hb : x1.indexFull with
  | true =>
    have hb' : (wu us x1).indexFull = true := hb
    simp only [hb', hb, if_true]
    rw [notifyFetchers_wu]; rfl
  | false =>
    have hb' : (wu us x1).indexFull = false := hb
    simp only [hb', hb, Bool.false_eq_true, if_false]
    rfl

theorem addElement_wu (cfg : Config) (us : List User) (x : Ctx) (p : Peer) (req : Json) :
    addElement cfg (wu us x) p req = (wu us (addElement cfg x p req).1, (addElement cfg x p req).2) := by
  unfold addElement
  split
  · rfl
  · split
    · rfl
    · simp only [wu_index]
      split
      · split
        · rfl
        · split
          · rfl
          · split
            · rfl
            · exact add_tail_wu cfg us x p.conn req _ _
      · split
        · rfl
        · split
          · rfl
          · split
            · rfl
            · exact add_tail_wu cfg us x p.conn req _ _
      · rfl

@[simp] theorem wu_uuid (us : List User) (x : Ctx) : (wu us x).st.uuid = x.st.uuid := rfl
@[simp] theorem wu_nextTimer (us : List User) (x : Ctx) : (wu us x).st.nextTimer = x.st.nextTimer := rfl
@[simp] theorem wu_nextUid (us : List User) (x : Ctx) : (wu us x).st.nextUid = x.st.nextUid := rfl

/-- the part of set_or_call after the access check (a copy of the model text) -/
def routeTail (cfg : Config) (x : Ctx) (p : Peer) (req params : Json) (path : Bytes) (e : Element)
    (isState : Bool) (originId value : Option Json) : Ctx × Option Json :=
  let rid := routedId originId x.st.uuid p.addrTok
  let x := { x with st := { x.st with uuid := (x.st.uuid + 1) % 4294967296 } }
  if isState && value.isNone then
    (x, errorFromRequest req INVALID_PARAMS "reason" (k "no value found"))
  else
    match getTimeout cfg (params.getItem (k "timeout")) e.timeoutNs with
    | .err reason => (x, errorFromRequest req INVALID_PARAMS "reason" (k reason))
    | .ns tns =>
      let t := x.st.nextTimer
      let x := { x with st := { x.st with nextTimer := t + 1 } }
      if x.routeFull then
        ({ emit x (.timerDestroy t) with routeFull := false },
         errorFromRequest req INTERNAL_ERROR "reason" (k "routing table full"))
      else
        let r : Route := { rid := rid, requester := p.conn, owner := e.owner, originId := originId, timer := t }
        let st := { x.st with peers := updatePeer x.st.peers e.owner (fun q => { q with routes := q.routes ++ [r] }) }
        let x := emit { x with st := st } (.timerArm t tns)
        let (x, ok) := send x e.owner (routedMessage rid path isState value)
        if ok then (x, none)
        else
          let x := emit { x with st := { x.st with peers := removeRoute x.st.peers e.owner rid } } (.timerDestroy t)
          (x, errorFromRequest req INTERNAL_ERROR "reason" (k "could not send routing information"))

theorem routeTail_wu (cfg : Config) (us : List User) (x : Ctx) (p : Peer) (req params : Json) (path : Bytes) (e : Element)
    (isState : Bool) (originId value : Option Json) :
    routeTail cfg (wu us x) p req params path e isState originId value =
      (wu us (routeTail cfg x p req params path e isState originId value).1,
       (routeTail cfg x p req params path e isState originId value).2) := by
  unfold routeTail
  simp only [wu_uuid, wu_nextTimer, wu_routeFull, wu_peers]
  by_cases h1 : (isState && value.isNone) = true
  · simp only [h1, if_true]; rfl
  · simp only [h1, Bool.false_eq_true, if_false]
    cases getTimeout cfg (params.getItem (k "timeout")) e.timeoutNs with
    | err reason => rfl
    | ns tns =>
      simp only
      by_cases hrf : x.routeFull = true
      · simp only [hrf, if_true]; rfl
      · simp only [hrf, Bool.false_eq_true, if_false]
        generalize routedMessage _ path isState value = m
        generalize hY : emit _ (Obs.timerArm _ tns) = Y
        generalize hX : emit _ (Obs.timerArm _ tns) = X
        have hYX : Y = wu us X := by rw [← hY, ← hX]; rfl
        subst hYX
        rw [send_wu]
        generalize send X e.owner m = r
        obtain ⟨x2, ok⟩ := r
        cases ok <;> rfl

theorem setOrCall_wu (cfg : Config) (us : List User) (x : Ctx) (p : Peer) (req : Json) (isState : Bool) :
    setOrCall cfg (wu us x) p req isState =
      (wu us (setOrCall cfg x p req isState).1, (setOrCall cfg x p req isState).2) := by
  unfold setOrCall
  cases getParamsAndPath req with
  | err r => rfl
  | ok params path =>
    simp only [findElement_wu]
    cases findElement x.st path with
    | none => rfl
    | some e =>
      simp only
      by_cases h1 : e.fetchOnly = true
      · simp only [h1, if_true] <;> rfl
      · simp only [h1, Bool.false_eq_true, if_false]
        by_cases h2 : (isState != e.value.isSome) = true
        · simp only [h2, if_true] <;> rfl
        · simp only [h2, Bool.false_eq_true, if_false]
          generalize (if isState then hasAccess cfg e.setGroups p.setGroups else hasAccess cfg e.callGroups p.callGroups) = acc
          cases acc with
          | false => rfl
          | true =>
            simp only [Bool.not_true, Bool.false_eq_true, if_false]
            cases req.getItem (k "id") with
            | none => exact routeTail_wu cfg us x p req params path e isState none _
            | some id =>
              cases id with
              | str s => exact routeTail_wu cfg us x p req params path e isState (some (.str s)) _
              | num n => exact routeTail_wu cfg us x p req params path e isState (some (.num n)) _
              | null | bool _ | arr _ | obj _ => rfl

theorem routingResponse_wu (us : List User) (x : Ctx) (p : Peer) (msg payload : Json) (typ : String) :
    routingResponse (wu us x) p msg payload typ =
      (wu us (routingResponse x p msg payload typ).1, (routingResponse x p msg payload typ).2) := by
  unfold routingResponse
  cases msg.getItem (k "id") with
  | none => rfl
  | some id =>
    cases id with
    | str rid =>
      simp only
      cases p.routes.find? (fun r => r.rid == rid) with
      | none => rfl
      | some r =>
        simp only
        cases r.originId with
        | none => rfl
        | some oid =>
          simp only
          cases resultResponse oid payload typ with
          | none => rfl
          | some resp =>
            simp only
            rw [← send'_wu]
            rfl
    | null | bool _ | num _ | arr _ | obj _ => rfl

theorem timeoutFired_wu (us : List User) (x : Ctx) (t : Nat) :
    timeoutFired (wu us x) t = wu us (timeoutFired x t) := by
  unfold timeoutFired
  simp only [wu_peers]
  cases (x.st.peers.flatMap (fun q => q.routes)).find? (fun r => r.timer == t) with
  | none => rfl
  | some r =>
    simp only
    cases r.originId with
    | none => rfl
    | some oid =>
      simp only
      cases errorResponse oid INTERNAL_ERROR "reason" (k "timeout for routed request") with
      | none => rfl
      | some resp =>
        simp only
        rw [← emit_wu, ← send'_wu]
        rfl

theorem getReq_wu (cfg : Config) (us : List User) (x : Ctx) (p : Peer) (req : Json) :
    getReq cfg (wu us x) p req = (wu us (getReq cfg x p req).1, (getReq cfg x p req).2) := by
  unfold getReq
  split
  · rfl
  · split
    · rfl
    · rfl

theorem configReq_wu (us : List User) (x : Ctx) (p : Peer) (req : Json) :
    configReq (wu us x) p req = (wu us (configReq x p req).1, (configReq x p req).2) := by
  unfold configReq
  split
  · rfl
  · split <;> rfl

theorem infoReq_wu (cfg : Config) (us : List User) (x : Ctx) (req : Json) :
    infoReq cfg (wu us x) req = (wu us (infoReq cfg x req).1, (infoReq cfg x req).2) := rfl

theorem unfetchReq_wu (us : List User) (x : Ctx) (p : Peer) (req : Json) :
    unfetchReq (wu us x) p req = (wu us (unfetchReq x p req).1, (unfetchReq x p req).2) := by
  unfold unfetchReq
  split
  · rfl
  · split <;> rfl

def offerElem (ps : List Peer) (oc : Nat) (e0 : Element) : Element :=
  match (findPeer ps oc).bind (·.elements.find? (·.path == e0.path)) with
  | some e => e | none => e0

def offerPost (oc : Nat) (r : Ctx × Element) : Ctx :=
  { r.1 with st := { r.1.st with peers := updatePeer r.1.st.peers oc (fun q =>
      { q with elements := q.elements.map (fun el => if el.path == r.2.path then r.2 else el) }) } }

theorem offerBody_eq (cfg : Config) (fp : Peer) (f : Fetch) (oc : Nat) (x : Ctx) (e0 : Element) :
    offerBody cfg fp f oc x e0 = offerPost oc (offerElement cfg x (offerElem x.st.peers oc e0) fp f) := rfl

theorem offerBody_wu (cfg : Config) (us : List User) (fp : Peer) (f : Fetch) (oc : Nat) (x : Ctx) (e0 : Element) :
    offerBody cfg fp f oc (wu us x) e0 = wu us (offerBody cfg fp f oc x e0) := by
  rw [offerBody_eq, offerBody_eq, wu_peers, offerElement_wu]
  rfl

theorem offerAllElements_wu (cfg : Config) (us : List User) (x : Ctx) (fp : Peer) (f : Fetch) :
    offerAllElements cfg (wu us x) fp f = wu us (offerAllElements cfg x fp f) := by
  rw [offerAllElements_eq, offerAllElements_eq]
  simp only [wu_peers]
  apply foldl_wu
  intro x owner
  apply foldl_wu
  intro x e0
  exact offerBody_wu ..

theorem fetchReq_wu (cfg : Config) (us : List User) (x : Ctx) (p : Peer) (req : Json) :
    fetchReq cfg (wu us x) p req = (wu us (fetchReq cfg x p req).1, (fetchReq cfg x p req).2) := by
  unfold fetchReq
  cases getFetchId req true with
  | err r => rfl
  | ok params fid =>
    simp only
    by_cases h1 : (p.fetches.any (fun f => idsEqual f.fid fid)) = true
    · simp only [h1, if_true] <;> rfl
    · simp only [h1, Bool.false_eq_true, if_false]
      cases createRule cfg params with
      | err code reason => rfl
      | ok rule =>
        simp only [wu_peers, wu_nextUid]
        rw [← offerAllElements_wu]
        rfl

/-! ## close -/

theorem clearRoute_wu (us : List User) (x : Ctx) (r : Route) (c : Nat) :
    clearRoute (wu us x) r c = wu us (clearRoute x r c) := by
  unfold clearRoute
  simp only
  by_cases h : (r.requester == c) = true
  · simp only [h, if_true] <;> rfl
  · simp only [h, Bool.false_eq_true, if_false]
    cases r.originId with
    | none => rfl
    | some oid =>
      simp only
      cases errorResponse oid INTERNAL_ERROR "reason" (k "peer shuts down") with
      | none => rfl
      | some resp =>
        simp only
        rw [← send'_wu]
        rfl

theorem fpr1_wu (us : List User) (x : Ctx) (p : Peer) (c : Nat) : fpr1 (wu us x) p c = wu us (fpr1 x p c) := by
  unfold fpr1
  simp only
  rw [foldl_wu _ us (fun x r => clearRoute_wu us x r c)]
  rfl

theorem fpr2_wu (us : List User) (x : Ctx) (c : Nat) : fpr2 (wu us x) c = wu us (fpr2 x c) := by
  unfold fpr2
  simp only [wu_peers]
  rw [foldl_wu _ us (fun x r => clearRoute_wu us x r c)]
  rfl

theorem fpr3_wu (us : List User) (x : Ctx) (c : Nat) : fpr3 (wu us x) c = wu us (fpr3 x c) := rfl

theorem fprBody_wu (us : List User) (c : Nat) (x : Ctx) (e0 : Element) : fprBody c (wu us x) e0 = wu us (fprBody c x e0) := by
  unfold fprBody
  simp only [wu_peers]
  cases (findPeer x.st.peers c).bind (fun q => q.elements.find? (fun e => e.path == e0.path)) with
  | none => rfl
  | some e => exact removeElement_wu ..

theorem fpr5_wu (us : List User) (x : Ctx) (c : Nat) : fpr5 (wu us x) c = wu us (fpr5 x c) := rfl

theorem freePeerResources_wu (us : List User) (x : Ctx) (c : Nat) :
    freePeerResources (wu us x) c = wu us (freePeerResources x c) := by
  rw [freePeerResources_eq, freePeerResources_eq]
  simp only [wu_peers]
  cases findPeer x.st.peers c with
  | none => rfl
  | some p =>
    simp only
    rw [fpr1_wu, fpr2_wu, fpr3_wu, foldl_wu _ us (fun x e0 => fprBody_wu us c x e0), fpr5_wu]

theorem closePeer_wu (us : List User) (x : Ctx) (c : Nat) : closePeer (wu us x) c = wu us (closePeer x c) := by
  unfold closePeer
  rw [freePeerResources_wu]
  rfl

/-- a function that commutes with `wu` leaves the credential table alone -/
theorem users_of_wu {α : Type} (f : Ctx → Ctx × α) (hf : ∀ us x, f (wu us x) = (wu us (f x).1, (f x).2)) (x : Ctx) :
    (f x).1.st.users = x.st.users := by
  have h := hf x.st.users x
  rw [wu_self] at h
  have := congrArg (fun r => r.1.st.users) h
  simpa using this

end Cjet.Daemon.C08
