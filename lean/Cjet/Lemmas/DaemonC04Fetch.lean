/-
  C04 — `fetch` leaves the element store alone (it only fills subscriber tables); this needs the
  well-formedness of the state, because the model writes the offered element back by path.
-/
import Cjet.Lemmas.DaemonC04Frame

namespace Cjet.Daemon.C04

open Cjet Cjet.Json Cjet.Daemon

/-- well-formedness of a state, pointwise form -/
def WFS (s : State) : Prop := WFP (image s.peers) s.index

theorem wf_iff_wfs (s : State) : WF s ↔ WFS s := (wf_iff s).trans wfi_iff_wfp

theorem wfs_of_store_eq {s s' : State} (h : store s' = store s) (hwf : WFS s) : WFS s' := by
  simp only [store, Prod.mk.injEq] at h
  unfold WFS
  rw [h.1, h.2]; exact hwf

theorem WFS.conns {s : State} (h : WFS s) : (s.peers.map (·.conn)).Nodup := by
  rw [← image_conns]; exact WFP.conns h

theorem WFS.loc {s : State} (h : WFS s) {q : Peer} (hq : q ∈ s.peers) : ((peerAbs q).map (·.1)).Nodup :=
  WFP.loc h q.conn (peerAbs q) (List.mem_map.2 ⟨q, hq, rfl⟩)

theorem WFS.findPeer {s : State} (h : WFS s) {q : Peer} (hq : q ∈ s.peers) : findPeer s.peers q.conn = some q :=
  findPeer_of_mem h.conns hq

/-- two elements of one peer's list with the same path have the same abstraction -/
theorem WFS.entry_unique {s : State} (h : WFS s) {q : Peer} (hq : q ∈ s.peers) {e e' : Element}
    (he : e ∈ q.elements) (he' : e' ∈ q.elements) (hp : e.path = e'.path) : entry e = entry e' := by
  have h1 : entry e ∈ peerAbs q := List.mem_map.2 ⟨e, he, rfl⟩
  have h2 : entry e' ∈ peerAbs q := List.mem_map.2 ⟨e', he', rfl⟩
  exact nodup_map_inj (h.loc hq) h1 h2 hp

/-- writing back, by path, an element that has the abstraction of the one stored under that path -/
theorem image_writeBack {s : State} (c : Nat) (e' : Element)
    (hw : ∀ q ∈ s.peers, q.conn = c → ∀ el ∈ q.elements, el.path = e'.path → entry e' = entry el) :
    image (updatePeer s.peers c (fun q =>
      { q with elements := q.elements.map (fun el => if el.path == e'.path then e' else el) })) = image s.peers := by
  apply image_updatePeer_same
  intro q hq hc
  refine ⟨rfl, ?_⟩
  simp only [peerAbs, List.map_map]
  apply List.map_congr_left
  intro el hel
  simp only [Function.comp]
  split
  · rename_i hp
    exact hw q hq hc el hel (by simpa using hp)
  · rfl

/-- one iteration of `offerAllElements` -/
def offerStep (cfg : Config) (fp : Peer) (f : Fetch) (owner : Peer) (x : Ctx) (e0 : Element) : Ctx :=
  let e := match (findPeer x.st.peers owner.conn).bind (·.elements.find? (·.path == e0.path)) with
    | some e => e | none => e0
  let r := offerElement cfg x e fp f
  { r.1 with st := { r.1.st with peers := updatePeer r.1.st.peers owner.conn (fun q =>
      { q with elements := q.elements.map (fun el => if el.path == r.2.path then r.2 else el) }) } }

theorem offerAllElements_eq (cfg : Config) (x : Ctx) (fp : Peer) (f : Fetch) :
    offerAllElements cfg x fp f =
      x.st.peers.foldl (fun x owner => owner.elements.foldl (offerStep cfg fp f owner) x) x := rfl

theorem offerStep_frame (cfg : Config) (fp : Peer) (f : Fetch) (owner : Peer) (x : Ctx) (e0 : Element)
    (h : WFS x.st) : store (offerStep cfg fp f owner x e0).st = store x.st := by
  unfold offerStep
  simp only [store_def, offerElement_st, Prod.mk.injEq, and_true]
  apply image_writeBack
  intro q hq hc el hel hp
  rw [offerElement_path] at hp
  rw [(offerElement_spec ..).2]
  have hfq : findPeer x.st.peers owner.conn = some q := by rw [← hc]; exact h.findPeer hq
  simp only [hfq, Option.bind_some]
  cases hf : q.elements.find? (·.path == e0.path) with
  | some e =>
    have h2 := List.mem_of_find?_eq_some hf
    simp only [hfq, Option.bind_some, hf] at hp
    exact h.entry_unique hq h2 hel hp.symm
  | none =>
    simp only [hfq, Option.bind_some, hf] at hp
    rw [List.find?_eq_none] at hf
    exact absurd (by simpa using hp) (hf el hel)

theorem offerInner_frame (cfg : Config) (fp : Peer) (f : Fetch) (owner : Peer) (es : List Element) (x : Ctx)
    (h : WFS x.st) : store (es.foldl (offerStep cfg fp f owner) x).st = store x.st := by
  induction es generalizing x with
  | nil => rfl
  | cons e0 rest ih =>
    simp only [List.foldl_cons]
    have h1 := offerStep_frame cfg fp f owner x e0 h
    rw [ih _ (wfs_of_store_eq h1 h), h1]

theorem offerOuter_frame (cfg : Config) (fp : Peer) (f : Fetch) (ps : List Peer) (x : Ctx) (h : WFS x.st) :
    store (ps.foldl (fun x owner => owner.elements.foldl (offerStep cfg fp f owner) x) x).st = store x.st := by
  induction ps generalizing x with
  | nil => rfl
  | cons owner rest ih =>
    simp only [List.foldl_cons]
    have h1 := offerInner_frame cfg fp f owner owner.elements x h
    rw [ih _ (wfs_of_store_eq h1 h), h1]

theorem offerAllElements_frame (cfg : Config) (x : Ctx) (fp : Peer) (f : Fetch) (h : WFS x.st) :
    store (offerAllElements cfg x fp f).st = store x.st := by
  rw [offerAllElements_eq]; exact offerOuter_frame cfg fp f _ x h

theorem fetchReq_frame (cfg : Config) (x : Ctx) (p : Peer) (req : Json) (h : WFS x.st) :
    store (fetchReq cfg x p req).1.st = store x.st := by
  unfold fetchReq
  cases getFetchId req true with
  | err r => rfl
  | ok params fid =>
    dsimp only
    refine ite_cases (P := fun (r : Ctx × Option Json) => store r.1.st = store x.st) (fun _ => rfl) (fun _ => ?_)
    cases createRule cfg params with
    | err code reason => rfl
    | ok rule =>
      dsimp only
      rw [offerAllElements_frame]
      · simp only [store_def, image_updatePeer_frame, and_self, implies_true]
      · refine wfs_of_store_eq ?_ h
        simp only [store_def, image_updatePeer_frame, and_self, implies_true]

end Cjet.Daemon.C04
