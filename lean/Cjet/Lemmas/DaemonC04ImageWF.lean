/-
  C04 — preservation of the (pointwise) well-formedness of an image by the daemon's updates.
-/
import Cjet.Lemmas.DaemonC04Image

namespace Cjet.Daemon.C04

open Cjet Cjet.Json Cjet.Daemon

theorem wfp_nil : WFP [] [] := by
  refine ⟨by simp, by simp, by simp, by simp, by simp, by simp⟩

/-- a new peer without elements -/
theorem wfp_connect {im : Image} {idx} (h : WFP im idx) {c : Nat} (hc : c ∉ im.map (·.1)) :
    WFP (im ++ [(c, [])]) idx := by
  refine ⟨?_, ?_, ?_, ?_, h.idxNodup, ?_⟩
  · rw [List.map_append, List.nodup_append]
    refine ⟨h.conns, by simp, ?_⟩
    intro a ha b hb hab
    simp only [List.map_cons, List.map_nil, List.mem_singleton] at hb
    subst hab; subst hb; exact hc ha
  · intro o l hm q i hq
    rcases List.mem_append.1 hm with hm | hm
    · exact h.owner o l hm q i hq
    · simp only [List.mem_singleton, Prod.mk.injEq] at hm
      rw [hm.2] at hq; cases hq
  · intro o l hm
    rcases List.mem_append.1 hm with hm | hm
    · exact h.loc o l hm
    · simp only [List.mem_singleton, Prod.mk.injEq] at hm
      rw [hm.2]; simp
  · intro o l o' l' q i i' hm hm' hq hq'
    rcases List.mem_append.1 hm with hm | hm
    · rcases List.mem_append.1 hm' with hm' | hm'
      · exact h.glob o l o' l' q i i' hm hm' hq hq'
      · simp only [List.mem_singleton, Prod.mk.injEq] at hm'
        rw [hm'.2] at hq'; cases hq'
    · simp only [List.mem_singleton, Prod.mk.injEq] at hm
      rw [hm.2] at hq; cases hq
  · intro q o
    rw [h.sync]
    constructor
    · rintro ⟨l, hl, i, hi⟩; exact ⟨l, List.mem_append_left _ hl, i, hi⟩
    · rintro ⟨l, hl, i, hi⟩
      rcases List.mem_append.1 hl with hl | hl
      · exact ⟨l, hl, i, hi⟩
      · simp only [List.mem_singleton, Prod.mk.injEq] at hl
        rw [hl.2] at hi; cases hi

/-- add: append `(path, i)` to the list of `c` and `(path, c)` to the index -/
theorem wfp_add {im : Image} {idx} (h : WFP im idx) {c : Nat} {path : Bytes} {i : ElemInfo}
    (hfree : ∀ o, (path, o) ∉ idx) (hc : c ∈ im.map (·.1)) (hi : i.owner = c) :
    WFP (updImage im c (· ++ [(path, i)])) (idx ++ [(path, c)]) := by
  have hfree' : ∀ o l j, (o, l) ∈ im → (path, j) ∉ l := by
    intro o l j hm hj
    exact hfree o ((h.sync path o).2 ⟨l, hm, j, hj⟩)
  refine ⟨?_, ?_, ?_, ?_, ?_, ?_⟩
  · rw [updImage_conns]; exact h.conns
  · intro o l' hm q j hq
    obtain ⟨l, hl, rfl⟩ := mem_updImage.1 hm
    by_cases hoc : o = c
    · subst hoc
      simp only [↓reduceIte, List.mem_append, List.mem_singleton, Prod.mk.injEq] at hq
      rcases hq with hq | ⟨_, rfl⟩
      · exact h.owner o l hl q j hq
      · exact hi
    · simp only [hoc, ↓reduceIte] at hq
      exact h.owner o l hl q j hq
  · intro o l' hm
    obtain ⟨l, hl, rfl⟩ := mem_updImage.1 hm
    by_cases hoc : o = c
    · subst hoc
      simp only [↓reduceIte, List.map_append, List.map_cons, List.map_nil]
      rw [List.nodup_append]
      refine ⟨h.loc o l hl, by simp, ?_⟩
      intro a ha b hb hab
      simp only [List.mem_singleton] at hb
      subst hab; subst hb
      obtain ⟨⟨q, j⟩, hq, rfl⟩ := List.mem_map.1 ha
      exact hfree' o l j hl hq
    · simp only [hoc, ↓reduceIte]
      exact h.loc o l hl
  · intro o l1 o' l1' q j j' hm hm' hq hq'
    obtain ⟨l, hl, rfl⟩ := mem_updImage.1 hm
    obtain ⟨l', hl', rfl⟩ := mem_updImage.1 hm'
    by_cases hqp : q = path
    · subst hqp
      have h1 : o = c := by
        by_cases hoc : o = c
        · exact hoc
        · simp only [hoc, ↓reduceIte] at hq
          exact absurd hq (hfree' o l j hl)
      have h2 : o' = c := by
        by_cases hoc : o' = c
        · exact hoc
        · simp only [hoc, ↓reduceIte] at hq'
          exact absurd hq' (hfree' o' l' j' hl')
      rw [h1, h2]
    · have h1 : (q, j) ∈ l := by
        split at hq
        · simp only [List.mem_append, List.mem_singleton, Prod.mk.injEq] at hq
          rcases hq with hq | ⟨rfl, _⟩
          · exact hq
          · exact absurd rfl hqp
        · exact hq
      have h2 : (q, j') ∈ l' := by
        split at hq'
        · simp only [List.mem_append, List.mem_singleton, Prod.mk.injEq] at hq'
          rcases hq' with hq' | ⟨rfl, _⟩
          · exact hq'
          · exact absurd rfl hqp
        · exact hq'
      exact h.glob o l o' l' q j j' hl hl' h1 h2
  · rw [List.map_append, List.nodup_append]
    refine ⟨h.idxNodup, by simp, ?_⟩
    intro a ha b hb hab
    simp only [List.map_cons, List.map_nil, List.mem_singleton] at hb
    subst hab; subst hb
    obtain ⟨⟨q, o⟩, hq, rfl⟩ := List.mem_map.1 ha
    exact hfree o hq
  · intro q o
    simp only [List.mem_append, List.mem_singleton, Prod.mk.injEq]
    constructor
    · rintro (hq | ⟨rfl, rfl⟩)
      · obtain ⟨l, hl, j, hj⟩ := (h.sync q o).1 hq
        refine ⟨_, mem_updImage.2 ⟨l, hl, rfl⟩, j, ?_⟩
        split
        · exact List.mem_append_left _ hj
        · exact hj
      · obtain ⟨⟨o, l⟩, hl, rfl⟩ := List.mem_map.1 hc
        exact ⟨_, mem_updImage.2 ⟨l, hl, rfl⟩, i, by simp⟩
    · rintro ⟨l', hm, j, hj⟩
      obtain ⟨l, hl, rfl⟩ := mem_updImage.1 hm
      by_cases hoc : o = c
      · subst hoc
        simp only [↓reduceIte, List.mem_append, List.mem_singleton, Prod.mk.injEq] at hj
        rcases hj with hj | ⟨rfl, _⟩
        · exact Or.inl ((h.sync q o).2 ⟨l, hl, j, hj⟩)
        · exact Or.inr ⟨rfl, rfl⟩
      · simp only [hoc, ↓reduceIte] at hj
        exact Or.inl ((h.sync q o).2 ⟨l, hl, j, hj⟩)

/-- remove: filter `path` out of the list of `c` (which holds it) and out of the index -/
theorem wfp_remove {im : Image} {idx} (h : WFP im idx) {c : Nat} {path : Bytes} {l0 : List Entry}
    {i0 : ElemInfo} (hl0 : (c, l0) ∈ im) (hi0 : (path, i0) ∈ l0) :
    WFP (updImage im c (·.filter (·.1 != path))) (removeIndex idx path) := by
  have hsub : ∀ o l' q j, (o, l') ∈ updImage im c (·.filter (·.1 != path)) → (q, j) ∈ l' →
      ∃ l, (o, l) ∈ im ∧ (q, j) ∈ l ∧ (o = c → q ≠ path) := by
    intro o l' q j hm hq
    obtain ⟨l, hl, rfl⟩ := mem_updImage.1 hm
    by_cases hoc : o = c
    · subst hoc
      simp only [↓reduceIte, List.mem_filter, bne_iff_ne, ne_eq] at hq
      exact ⟨l, hl, hq.1, fun _ => hq.2⟩
    · simp only [hoc, ↓reduceIte] at hq
      exact ⟨l, hl, hq, fun h => absurd h hoc⟩
  refine ⟨?_, ?_, ?_, ?_, ?_, ?_⟩
  · rw [updImage_conns]; exact h.conns
  · intro o l' hm q j hq
    obtain ⟨l, hl, hq, _⟩ := hsub o l' q j hm hq
    exact h.owner o l hl q j hq
  · intro o l' hm
    obtain ⟨l, hl, rfl⟩ := mem_updImage.1 hm
    split
    · exact List.Nodup.sublist ((List.filter_sublist).map _) (h.loc o l hl)
    · exact h.loc o l hl
  · intro o l1 o' l1' q j j' hm hm' hq hq'
    obtain ⟨l, hl, hq, _⟩ := hsub o l1 q j hm hq
    obtain ⟨l', hl', hq', _⟩ := hsub o' l1' q j' hm' hq'
    exact h.glob o l o' l' q j j' hl hl' hq hq'
  · exact List.Nodup.sublist ((List.filter_sublist).map _) h.idxNodup
  · intro q o
    simp only [removeIndex, List.mem_filter, bne_iff_ne, ne_eq]
    constructor
    · rintro ⟨hq, hne⟩
      obtain ⟨l, hl, j, hj⟩ := (h.sync q o).1 hq
      refine ⟨_, mem_updImage.2 ⟨l, hl, rfl⟩, j, ?_⟩
      split
      · simp only [List.mem_filter, bne_iff_ne, ne_eq]; exact ⟨hj, hne⟩
      · exact hj
    · rintro ⟨l', hm, j, hj⟩
      obtain ⟨l, hl, hq, hne⟩ := hsub o l' q j hm hj
      refine ⟨(h.sync q o).2 ⟨l, hl, j, hq⟩, ?_⟩
      intro hqp
      subst hqp
      have := h.glob o l c l0 q j i0 hl hl0 hq hi0
      exact hne this rfl

/-- change: the info stored under `path` in the list of `c` is replaced by one with the same owner -/
theorem wfp_change {im : Image} {idx} (h : WFP im idx) {c : Nat} {path : Bytes} {i' : ElemInfo}
    (hi : i'.owner = c) :
    WFP (updImage im c (·.map (fun x => if x.1 == path then (path, i') else x))) idx := by
  have hkeys : ∀ l : List Entry, (l.map (fun x => if x.1 == path then (path, i') else x)).map (·.1) = l.map (·.1) := by
    intro l
    rw [List.map_map]
    apply List.map_congr_left
    intro x _
    simp only [Function.comp]
    split
    · rename_i hx; have : x.1 = path := by simpa using hx
      exact this.symm
    · rfl
  have hsub : ∀ o l' q j, (o, l') ∈ updImage im c (·.map (fun x => if x.1 == path then (path, i') else x)) →
      (q, j) ∈ l' → ∃ l j0, (o, l) ∈ im ∧ (q, j0) ∈ l ∧ (j = j0 ∨ (o = c ∧ j = i')) := by
    intro o l' q j hm hq
    obtain ⟨l, hl, rfl⟩ := mem_updImage.1 hm
    by_cases hoc : o = c
    · subst hoc
      simp only [↓reduceIte, List.mem_map] at hq
      obtain ⟨⟨q0, j0⟩, hx, he⟩ := hq
      by_cases hqp : q0 = path
      · subst hqp
        simp only [beq_self_eq_true, ↓reduceIte, Prod.mk.injEq] at he
        exact ⟨l, j0, hl, by rw [← he.1]; exact hx, Or.inr ⟨rfl, he.2.symm⟩⟩
      · have : (q0 == path) = false := by simpa using hqp
        simp only [this, Bool.false_eq_true, ↓reduceIte, Prod.mk.injEq] at he
        exact ⟨l, j0, hl, by rw [← he.1]; exact hx, Or.inl he.2.symm⟩
    · simp only [hoc, ↓reduceIte] at hq
      exact ⟨l, j, hl, hq, Or.inl rfl⟩
  refine ⟨?_, ?_, ?_, ?_, h.idxNodup, ?_⟩
  · rw [updImage_conns]; exact h.conns
  · intro o l' hm q j hq
    obtain ⟨l, j0, hl, hq0, hj⟩ := hsub o l' q j hm hq
    rcases hj with rfl | ⟨rfl, rfl⟩
    · exact h.owner o l hl q j hq0
    · exact hi
  · intro o l' hm
    obtain ⟨l, hl, rfl⟩ := mem_updImage.1 hm
    split
    · rw [hkeys]; exact h.loc o l hl
    · exact h.loc o l hl
  · intro o l1 o' l1' q j j' hm hm' hq hq'
    obtain ⟨l, j0, hl, hq0, _⟩ := hsub o l1 q j hm hq
    obtain ⟨l', j0', hl', hq0', _⟩ := hsub o' l1' q j' hm' hq'
    exact h.glob o l o' l' q j0 j0' hl hl' hq0 hq0'
  · intro q o
    rw [h.sync]
    constructor
    · rintro ⟨l, hl, j, hj⟩
      refine ⟨_, mem_updImage.2 ⟨l, hl, rfl⟩, ?_⟩
      have hk : q ∈ l.map (·.1) := List.mem_map.2 ⟨(q, j), hj, rfl⟩
      split
      · rw [← hkeys] at hk
        obtain ⟨⟨q', j'⟩, hx, rfl⟩ := List.mem_map.1 hk
        exact ⟨j', hx⟩
      · exact ⟨j, hj⟩
    · rintro ⟨l', hm, j, hj⟩
      obtain ⟨l, j0, hl, hq0, _⟩ := hsub o l' q j hm hj
      exact ⟨l, hl, j0, hq0⟩

/-- delete a peer whose list is empty -/
theorem wfp_delete {im : Image} {idx} (h : WFP im idx) {c : Nat} (hc : ∀ l, (c, l) ∈ im → l = []) :
    WFP (im.filter (·.1 != c)) idx := by
  have hmem : ∀ o l, (o, l) ∈ im.filter (·.1 != c) ↔ (o, l) ∈ im ∧ o ≠ c := by
    intro o l; simp only [List.mem_filter, bne_iff_ne, ne_eq]
  refine ⟨?_, ?_, ?_, ?_, h.idxNodup, ?_⟩
  · exact List.Nodup.sublist ((List.filter_sublist).map _) h.conns
  · intro o l hm; exact h.owner o l ((hmem o l).1 hm).1
  · intro o l hm; exact h.loc o l ((hmem o l).1 hm).1
  · intro o l o' l' q j j' hm hm'
    exact h.glob o l o' l' q j j' ((hmem o l).1 hm).1 ((hmem o' l').1 hm').1
  · intro q o
    rw [h.sync]
    constructor
    · rintro ⟨l, hl, j, hj⟩
      refine ⟨l, (hmem o l).2 ⟨hl, ?_⟩, j, hj⟩
      rintro rfl
      rw [hc l hl] at hj; cases hj
    · rintro ⟨l, hl, j, hj⟩
      exact ⟨l, ((hmem o l).1 hl).1, j, hj⟩

end Cjet.Daemon.C04
