import Cjet.Deflate
import Cjet.Lemmas.DeflateReasm
/-! Helper lemmas for C19, part B: buffer contents, the inflate output loop, tail handling. -/
namespace Cjet.Deflate
open Cjet.Generated.Deflate

/-! ### writeAt -/

theorem writeAt_length (mem : Bytes) (off : Nat) (d : Bytes) (h : off + d.length ≤ mem.length) :
    (writeAt mem off d).length = mem.length := by
  simp only [writeAt, List.length_append, List.length_take, List.length_drop]
  omega

theorem writeAt_eq (mem : Bytes) (off : Nat) (d : Bytes) :
    writeAt mem off d = mem.take off ++ (d ++ mem.drop (off + d.length)) := by
  simp [writeAt]

/-- the bytes behind the 4-byte size word, up to the end of the fragment just stored -/
theorem writeAt_payload (mem : Bytes) (T : Nat) (d : Bytes) (h : 4 + T + d.length ≤ mem.length) :
    ((writeAt mem (4 + T) d).drop 4).take (T + d.length) = (mem.drop 4).take T ++ d := by
  rw [writeAt_eq]
  have h1 : (mem.take (4 + T)).length = 4 + T := by simp; omega
  rw [List.drop_append_of_le_length (by omega)]
  have h2 : ((mem.take (4 + T)).drop 4) = (mem.drop 4).take T := by
    rw [List.drop_take]; simp
  rw [h2]
  have h3 : ((mem.drop 4).take T).length = T := by simp; omega
  rw [← List.append_assoc, List.take_append_of_le_length (by simp; omega),
    List.take_of_length_le (by simp; omega)]

/-! ### the reassembly buffer with its bytes -/

/-- `T` bytes (`data`) of the current message are stored behind the size word -/
def BufInv (b : RBuf) (T : Nat) (data : Bytes) : Prop :=
  Good b.st T ∧ data.length = T ∧ (b.live = true ↔ 0 < T) ∧
  (0 < T → b.mem.length = b.st.cap ∧ (b.mem.drop 4).take T = data)

theorem bufInv_init : BufInv RBuf.init 0 [] :=
  ⟨good_init, rfl, by simp [RBuf.init], fun h => absurd h (Nat.lt_irrefl 0)⟩

theorem growLoop_cap_mono (fuel : Nat) (s : RState) (L : Nat) : s.cap ≤ (growLoop fuel s L).cap := by
  induction fuel generalizing s with
  | zero => simp [growLoop]
  | succ n ih =>
    simp only [growLoop]
    split
    · have := ih (growStep s); rw [growStep_cap] at this; omega
    · exact Nat.le_refl _

theorem stepCopy_loop_cap_mono (s : RState) (L : Nat) (h : s.avail ≠ 0) :
    s.cap ≤ (stepCopy true s L).2.cap := by
  have hf : (s.avail == 0) = false := by simp [h]
  simp only [stepCopy, hf, grow, if_true, Bool.false_eq_true, if_false]
  exact growLoop_cap_mono _ _ _

theorem reasmBytes_loop (b : RBuf) (T : Nat) (data frag : Bytes) (hI : BufInv b T data) :
    ∃ b', reasmBytes true b frag = some b' ∧ BufInv b' (T + frag.length) (data ++ frag) := by
  by_cases h0 : frag.length = 0
  · have : frag = [] := List.eq_nil_of_length_eq_zero h0
    subst this
    exact ⟨b, by simp [reasmBytes], by simpa using hI⟩
  · obtain ⟨hg, hlen, hlive, hmem⟩ := hI
    obtain ⟨c1, c2, c3, c4, c5, c6⟩ := stepCopy_loop_good b.st T frag.length hg (by omega)
    simp only [reasmBytes, h0, if_false, c1, if_true]
    refine ⟨_, rfl, c6, by simp [hlen], by simp; omega, fun _ => ?_⟩
    have hcapL : 4 + T + frag.length ≤ (stepCopy true b.st frag.length).1.cap := by
      have := c1
      simp only [Copy.inBounds, decide_eq_true_eq, c2, c3] at this
      exact this
    by_cases hT : T = 0
    · -- a fresh buffer
      have hfr : (stepCopy true b.st frag.length).1.fresh = true := c4.2 hT
      subst hT
      have hd : data = [] := List.eq_nil_of_length_eq_zero hlen
      subst hd
      simp only [hfr, if_true, c2]
      constructor
      · rw [writeAt_length _ _ _ (by simpa using hcapL)]
        simp [c5]
      · have := writeAt_payload (List.replicate (stepCopy true b.st frag.length).1.cap (0 : UInt8)) 0 frag
          (by simpa using hcapL)
        simpa using this
    · have hfr : (stepCopy true b.st frag.length).1.fresh = false := by
        cases hh : (stepCopy true b.st frag.length).1.fresh
        · rfl
        · exact absurd (c4.1 hh) hT
      obtain ⟨hm1, hm2⟩ := hmem (by omega)
      have hav : b.st.avail ≠ 0 := by
        rcases hg with ⟨h, _⟩ | ⟨_, h, _⟩
        · exact absurd h hT
        · omega
      have hmono := stepCopy_loop_cap_mono b.st frag.length hav
      rw [← c5] at hmono
      simp only [hfr, Bool.false_eq_true, if_false, c2]
      have hl0 : (b.mem ++ List.replicate ((stepCopy true b.st frag.length).1.cap - b.mem.length) (0 : UInt8)).length
          = (stepCopy true b.st frag.length).1.cap := by
        simp; omega
      constructor
      · rw [writeAt_length _ _ _ (by rw [hl0]; exact hcapL), hl0, c5]
      · rw [writeAt_payload _ _ _ (by rw [hl0]; exact hcapL)]
        congr 1
        rw [← hm2]
        have hT4 : 4 + T ≤ b.mem.length := by
          rcases hg with ⟨h, _⟩ | ⟨_, _, h, _⟩
          · exact absurd h hT
          · omega
        rw [List.drop_append_of_le_length (by omega)]
        rw [List.take_append_of_le_length (by simp; omega)]

/-! ### the inflate output loop -/

theorem outLoop_have (fuel : Nat) (remaining : Nat) (st : OutSt)
    (hs : 0 < st.sizeOut) (hn : st.nextOut + st.availOut = st.sizeOut) (hf : remaining < fuel) :
    (outLoop fuel remaining st).2.sizeOut - (outLoop fuel remaining st).2.availOut = st.nextOut + remaining ∧
    (outLoop fuel remaining st).2.availOut ≤ (outLoop fuel remaining st).2.sizeOut := by
  induction fuel generalizing remaining st with
  | zero => omega
  | succ n ih =>
    obtain ⟨S, A, N⟩ := st
    simp only at hs hn
    by_cases hA : A = 0
    · subst hA
      simp only [outLoop, if_true]
      have hN : N = S := by omega
      subst hN
      have e : N * 2 / 2 = N := by omega
      simp only [e, Nat.zero_add]
      by_cases hk : N - min N remaining = 0
      · rw [if_pos hk]
        have hmin : min N remaining = N := by omega
        have := ih (remaining - min N remaining) ⟨N * 2, N - min N remaining, N + min N remaining⟩
          (by simp; omega) (by simp; omega) (by omega)
        simp only at this
        constructor
        · rw [this.1]; omega
        · exact this.2
      · rw [if_neg hk]
        simp only
        omega
    · simp only [outLoop, hA, if_false]
      by_cases hk : A - min A remaining = 0
      · rw [if_pos hk]
        have hmin : min A remaining = A := by omega
        have := ih (remaining - min A remaining) ⟨S, A - min A remaining, N + min A remaining⟩
          (by simpa using hs) (by simp; omega) (by omega)
        simp only at this
        constructor
        · rw [this.1]; omega
        · exact this.2
      · rw [if_neg hk]
        simp only
        omega

theorem outHave_eq (total s0 : Nat) (h : 0 < s0) : outHave total s0 = total := by
  unfold outHave
  have := outLoop_have (total + 2) total ⟨s0, s0, 0⟩ h (by simp) (by omega)
  simpa using this.1

/-- every `inflate` call of the loop stores inside the output buffer it was given, directly behind the
    previous one -/
def chunksFrom : Nat → List OutChunk → Prop
  | _, [] => True
  | n, c :: rest => c.off = n ∧ c.off + c.len ≤ c.size ∧ chunksFrom (n + c.len) rest

theorem outLoop_chunks (fuel : Nat) (remaining : Nat) (st : OutSt)
    (hs : 0 < st.sizeOut) (hn : st.nextOut + st.availOut = st.sizeOut) :
    chunksFrom st.nextOut (outLoop fuel remaining st).1 := by
  induction fuel generalizing remaining st with
  | zero => simp [outLoop, chunksFrom]
  | succ n ih =>
    obtain ⟨S, A, N⟩ := st
    simp only at hs hn
    by_cases hA : A = 0
    · subst hA
      simp only [outLoop, if_true]
      have hN : N = S := by omega
      subst hN
      have e : N * 2 / 2 = N := by omega
      simp only [e, Nat.zero_add]
      split
      · refine ⟨rfl, by simp; omega, ?_⟩
        exact ih _ ⟨N * 2, N - min N remaining, N + min N remaining⟩ (by simp; omega) (by simp; omega)
      · exact ⟨rfl, by simp; omega, trivial⟩
    · simp only [outLoop, hA, if_false]
      split
      · refine ⟨rfl, by simp; omega, ?_⟩
        exact ih _ ⟨S, A - min A remaining, N + min A remaining⟩ (by simpa using hs) (by simp; omega)
      · exact ⟨rfl, by simp; omega, trivial⟩

/-! ### tail -/

theorem tail_length : tail.length = 4 := rfl

theorem tailStrip_eq : tailStrip = 4 := rfl

/-- strip-then-reappend is the identity on streams that end with the tail -/
theorem strip_append_tail (s : Bytes) (ht : endsWithTail s = true) : stripTail s ++ tail = s := by
  unfold endsWithTail at ht
  unfold stripTail
  have : s.drop (s.length - tailStrip) = tail := by simpa using ht
  rw [← this]
  exact List.take_append_drop _ _

theorem endsWithTail_append (c : Bytes) : endsWithTail (c ++ tail) = true := by
  unfold endsWithTail
  have e : (c ++ tail).length - tailStrip = c.length := by simp [tail_length, tailStrip]
  rw [e]
  simp

theorem stripTail_append (c : Bytes) : stripTail (c ++ tail) = c := by
  unfold stripTail
  have e : (c ++ tail).length - tailStrip = c.length := by simp [tail_length, tailStrip]
  rw [e]
  simp

/-- The repaired compressor, for ANY zlib output and ANY destination size: it answers with data exactly
    when zlib's complete output — which ends with the tail — is shorter than the destination, and then
    returns that output without its tail. -/
theorem compress_strict_ok_iff (zd : Bytes → Option Bytes) (destSize : Nat) (x c : Bytes) (t : Bool) :
    compress true zd destSize x = .ok c t ↔
      t = true ∧ zd x = some (c ++ tail) ∧ (c ++ tail).length < destSize := by
  unfold compress
  constructor
  · intro h
    split at h
    · cases h
    · split at h
      · cases h
      · rename_i full hz
        simp only [Bool.true_and, if_true] at h
        split at h
        · cases h
        · rename_i hfull
          split at h
          · cases h
          · split at h
            · cases h
            · rename_i htl
              have htl' : endsWithTail (full.take destSize) = true := by simpa using htl
              have hlt : full.length < destSize := by
                have : ¬ (full.take destSize).length = destSize := by simpa using hfull
                rw [List.length_take] at this
                omega
              have htake : full.take destSize = full := List.take_of_length_le (by omega)
              rw [htake] at h htl'
              cases h
              have := strip_append_tail full htl'
              exact ⟨htl', by rw [this]; exact hz, by rw [this]; exact hlt⟩
  · rintro ⟨rfl, hz, hlt⟩
    have hd : ¬ destSize = 0 := by omega
    rw [if_neg hd]
    simp only [hz]
    have htake : (c ++ tail).take destSize = c ++ tail := List.take_of_length_le (by omega)
    rw [htake]
    have h1 : ((c ++ tail).length == destSize) = false := by
      have : (c ++ tail).length ≠ destSize := by omega
      simpa using this
    have h2 : ¬ (c ++ tail).length < tailStrip := by simp [tail_length, tailStrip]
    simp only [h1, Bool.and_false, Bool.false_eq_true, if_false, h2, endsWithTail_append, Bool.not_true,
      stripTail_append]

/-- … and otherwise it reports an error: the model's `wild` (the out-of-bounds tail check) is gone -/
theorem compress_strict_cases (zd : Bytes → Option Bytes) (destSize : Nat) (x : Bytes) :
    compress true zd destSize x = .error ∨ ∃ c, compress true zd destSize x = .ok c true := by
  unfold compress
  split
  · exact Or.inl rfl
  · split
    · exact Or.inl rfl
    · simp only [Bool.true_and, if_true]
      split
      · exact Or.inl rfl
      · split
        · exact Or.inl rfl
        · split
          · exact Or.inl rfl
          · rename_i full _ _ _ htl
            have htl' : endsWithTail (full.take destSize) = true := by simpa using htl
            exact Or.inr ⟨_, by rw [htl']⟩

/-- what the repaired compressor touches of `dest`, for ANY zlib output: zlib stores at most `destSize`
    bytes, and the tail check reads only bytes that were just stored -/
theorem compressAccess_strict (zd : Bytes → Option Bytes) (destSize : Nat) (x : Bytes) :
    (compressAccess true zd destSize x).written ≤ destSize ∧
    ∀ i ∈ (compressAccess true zd destSize x).reads,
      0 ≤ i ∧ i < Int.ofNat (compressAccess true zd destSize x).written := by
  unfold compressAccess
  split
  · simp
  · split
    · simp
    · rename_i full _
      simp only [Bool.true_and]
      split
      · refine ⟨by simp [List.length_take]; omega, by simp⟩
      · rename_i hc
        have hc' : ¬ (full.take destSize).length = destSize ∧ ¬ (full.take destSize).length < tailStrip := by
          simpa using hc
        refine ⟨by simp [List.length_take]; omega, ?_⟩
        intro i hi
        simp only [List.mem_map, List.mem_range] at hi
        obtain ⟨k, hk, rfl⟩ := hi
        have h4 := hc'.2
        simp only [tailStrip] at h4 hk
        simp only [Int.ofNat_eq_natCast]
        omega

theorem compressCopy_strict (destSize : Nat) (x : Bytes) :
    compressCopy true destSize x = (if destSize < x.length then .error else .ok x true) := by
  unfold compressCopy
  split <;> simp

/-! ### a whole fragmented message through the fixed code -/

theorem recvFrames_cons_cons (loops guard : Bool) (inflate : Bytes → Option Bytes) (b : RBuf)
    (f g : Bytes) (r : List Bytes) :
    recvFrames loops guard inflate b (f :: g :: r) =
      match reasmBytes loops b f with
      | none => Recv.wild
      | some b' => recvFrames loops guard inflate b' (g :: r) := by
  rw [recvFrames]
  cases reasmBytes loops b f <;> rfl

theorem recvFrames_eq (inflate : Bytes → Option Bytes) (frs : List Bytes) (hne : frs ≠ [])
    (b : RBuf) (T : Nat) (data : Bytes) (hI : BufInv b T data) :
    recvFrames true true inflate b frs =
      if data ++ frs.flatten = [] then Recv.error else recvMessage inflate (data ++ frs.flatten) := by
  induction frs generalizing b T data with
  | nil => exact absurd rfl hne
  | cons f rest ih =>
    obtain ⟨b', hb', hI'⟩ := reasmBytes_loop b T data f hI
    cases rest with
    | nil =>
      simp only [recvFrames, hb', List.flatten_cons, List.flatten_nil, List.append_nil, Bool.true_and]
      obtain ⟨hg, hlen, hlive, hmem⟩ := hI'
      by_cases hT : T + f.length = 0
      · have hav : b'.st.avail = 0 := by
          rcases hg with ⟨_, h⟩ | ⟨h, _⟩
          · exact h
          · omega
        have hnil : data ++ f = [] := List.eq_nil_of_length_eq_zero (by rw [hlen, hT])
        simp [hav, hnil]
      · have hpos : 0 < T + f.length := by omega
        obtain ⟨hm1, hm2⟩ := hmem hpos
        have hav : 4 < b'.st.avail ∧ b'.st.avail + 4 + (T + f.length) = b'.st.cap := by
          rcases hg with ⟨h, _⟩ | ⟨_, h1, h2, _⟩
          · omega
          · exact ⟨h1, h2⟩
        have hne0 : (b'.st.avail == 0) = false := by simp; omega
        have hl : b'.live = true := hlive.2 hpos
        have hnn : data ++ f ≠ [] := by
          intro h; rw [h] at hlen; simp at hlen; omega
        have hsum : b'.st.cap - b'.st.avail - reasmHeader = T + f.length := by
          simp only [reasmHeader]; omega
        simp only [hne0, hl, hsum, Bool.false_eq_true, if_false, Bool.not_true, hnn]
        show recvMessage inflate ((b'.mem.drop 4).take (T + f.length)) = _
        rw [hm2]
    | cons g rest' =>
      rw [recvFrames_cons_cons, hb']
      show recvFrames true true inflate b' (g :: rest') = _
      rw [ih (by simp) b' (T + f.length) (data ++ f) hI']
      simp [List.append_assoc]

end Cjet.Deflate
