/-
  Cjet.Lemmas.DaemonC05Step — every handler of the model preserves `Inv`, keeps the set of
  connections, only appends to the output, and addresses only live peers (`Ok`).
-/
import Cjet.Lemmas.DaemonC05Inv

namespace Cjet.Daemon.C05

open Cjet Cjet.Json Cjet.Daemon

/-- every send in `d` addresses a member of `cs`, and no connection is reported closed -/
def Live (cs : List Nat) (d : List Obs) : Prop :=
  (∀ c j b, Obs.send c j b ∈ d → c ∈ cs) ∧ (∀ c, Obs.closed c ∉ d)

theorem Live.nil (cs : List Nat) : Live cs [] := ⟨(by intro c j b h; cases h), (by intro c h; cases h)⟩
theorem Live.append {cs : List Nat} {a b : List Obs} (ha : Live cs a) (hb : Live cs b) : Live cs (a ++ b) := by
  constructor
  · intro c j ok h
    rcases List.mem_append.1 h with h | h
    · exact ha.1 c j ok h
    · exact hb.1 c j ok h
  · intro c h
    rcases List.mem_append.1 h with h | h
    · exact ha.2 c h
    · exact hb.2 c h

/-- timer observations -/
def isTimer : Obs → Prop
  | .timerArm _ _ => True
  | .timerDestroy _ => True
  | _ => False

/-- `x'` is reached from `x` by handler code: the invariant holds again, the same connections
    exist, the output was only extended, and every new send addresses a live connection. -/
def Ok (x x' : Ctx) : Prop :=
  Inv x'.st ∧ conns x'.st.peers = conns x.st.peers ∧
    ∃ d, x'.out = d ++ x.out ∧ Live (conns x.st.peers) d

theorem Ok.refl {x : Ctx} (h : Inv x.st) : Ok x x := ⟨h, rfl, [], rfl, Live.nil _⟩

theorem Ok.inv {x x' : Ctx} (h : Ok x x') : Inv x'.st := h.1

theorem Ok.trans {x y z : Ctx} (h1 : Ok x y) (h2 : Ok y z) : Ok x z := by
  obtain ⟨_, c1, d1, o1, l1⟩ := h1
  obtain ⟨i2, c2, d2, o2, l2⟩ := h2
  refine ⟨i2, c2.trans c1, d2 ++ d1, by rw [o2, o1, List.append_assoc], ?_⟩
  rw [c1] at l2
  exact l2.append l1

/-- only the state (and flags / oracle) changed -/
theorem Ok.of_out_eq {x x' : Ctx} (hi : Inv x'.st) (hc : conns x'.st.peers = conns x.st.peers)
    (ho : x'.out = x.out) : Ok x x' := ⟨hi, hc, [], by simpa using ho, Live.nil _⟩

theorem Ok.send {x : Ctx} (h : Inv x.st) {c : Nat} (hc : c ∈ conns x.st.peers) (j : Json) :
    Ok x (send x c j).1 := by
  refine ⟨by simpa using h, by simp, [Obs.send c j (Daemon.send x c j).2], by simp [send_out], ?_, ?_⟩
  · intro c' j' b' hm
    simp only [List.mem_singleton] at hm
    cases hm; exact hc
  · intro c' hm
    simp only [List.mem_singleton] at hm
    cases hm

theorem Ok.send' {x : Ctx} (h : Inv x.st) {c : Nat} (hc : c ∈ conns x.st.peers) (j : Json) :
    Ok x (send' x c j) := Ok.send h hc j

theorem Ok.emit {x : Ctx} (h : Inv x.st) (o : Obs) (ho : isTimer o) : Ok x (emit x o) := by
  refine ⟨h, rfl, [o], rfl, ?_, ?_⟩
  · intro c j b hm
    simp only [List.mem_singleton] at hm
    subst hm; exact ho.elim
  · intro c hm
    simp only [List.mem_singleton] at hm
    subst hm; exact ho.elim

theorem foldl_ok {α : Type} (f : Ctx → α → Ctx) (l : List α) (x : Ctx) (h : Inv x.st)
    (hf : ∀ y a, a ∈ l → Inv y.st → Ok y (f y a)) : Ok x (l.foldl f x) := by
  induction l generalizing x with
  | nil => exact Ok.refl h
  | cons a l ih =>
    have h1 := hf x a List.mem_cons_self h
    exact h1.trans (ih _ h1.inv (fun y b hb hy => hf y b (List.mem_cons_of_mem _ hb) hy))

/-! ## notifications -/

theorem notifyOne_ok {x : Ctx} (h : Inv x.st) (e : Element) (fk : FetchKey) (ev : String) :
    Ok x (notifyOne x e fk ev) := by
  unfold notifyOne
  split
  · next f hf => exact Ok.send' h (findFetch_peer_mem hf) _
  · exact Ok.refl h

theorem notifyFetchers_ok {x : Ctx} (h : Inv x.st) (e : Element) (ev : String) :
    Ok x (notifyFetchers x e ev) := by
  unfold notifyFetchers
  apply foldl_ok _ _ _ h
  intro y a _ hy
  split
  · exact notifyOne_ok hy _ _ _
  · exact Ok.refl hy

/-! ## fetcher tables -/

theorem mem_addFetcher {cfg : Config} {tbl : List (Option FetchKey)} {f fk : FetchKey}
    (h : some fk ∈ addFetcher cfg tbl f) : some fk ∈ tbl ∨ fk = f := by
  unfold addFetcher at h
  split at h
  · rcases List.mem_or_eq_of_mem_set h with h | h
    · exact Or.inl h
    · exact Or.inr (Option.some.inj h)
  · simp only [List.append_assoc, List.mem_append, List.mem_cons, List.mem_replicate, List.not_mem_nil, or_false] at h
    rcases h with h | h | h
    · exact Or.inl h
    · exact Or.inr (Option.some.inj h)
    · exact absurd h.2 (by simp)

theorem mem_removeFetcher {tbl : List (Option FetchKey)} {f fk : FetchKey}
    (h : some fk ∈ removeFetcher tbl f) : some fk ∈ tbl ∧ fk ≠ f := by
  unfold removeFetcher at h
  obtain ⟨s, hs, heq⟩ := List.mem_map.1 h
  split at heq
  · cases heq
  · next hne =>
    subst heq
    refine ⟨hs, ?_⟩
    intro he; subst he
    exact hne (by simp)

/-- offerElement: the state is untouched, the element keeps everything but possibly one more
    fetcher slot, which then names the offered fetch -/
theorem offerElement_spec (cfg : Config) {x : Ctx} (h : Inv x.st) (e : Element) (fp : Peer) (f : Fetch)
    (hfp : fp.conn ∈ conns x.st.peers) :
    Ok x (offerElement cfg x e fp f).1 ∧ (offerElement cfg x e fp f).1.st = x.st ∧
    (offerElement cfg x e fp f).1.indexFull = x.indexFull ∧ (offerElement cfg x e fp f).1.routeFull = x.routeFull ∧
    (offerElement cfg x e fp f).2.path = e.path ∧ (offerElement cfg x e fp f).2.owner = e.owner ∧
    ∀ fk, some fk ∈ (offerElement cfg x e fp f).2.fetchers → some fk ∈ e.fetchers ∨ fk = ⟨fp.conn, f.uid⟩ := by
  unfold offerElement
  split
  · exact ⟨Ok.refl h, rfl, rfl, rfl, rfl, rfl, fun fk hfk => Or.inl hfk⟩
  · split
    · refine ⟨Ok.send' h hfp _, by simp, by simp, by simp, rfl, rfl, ?_⟩
      intro fk hfk
      exact mem_addFetcher hfk
    · exact ⟨Ok.refl h, rfl, rfl, rfl, rfl, rfl, fun fk hfk => Or.inl hfk⟩

theorem findFetchersForElement_spec (cfg : Config) {x : Ctx} (h : Inv x.st) (e : Element) :
    Ok x (findFetchersForElement cfg x e).1 ∧ (findFetchersForElement cfg x e).1.st = x.st ∧
    (findFetchersForElement cfg x e).1.indexFull = x.indexFull ∧
    (findFetchersForElement cfg x e).1.routeFull = x.routeFull ∧
    (findFetchersForElement cfg x e).2.path = e.path ∧ (findFetchersForElement cfg x e).2.owner = e.owner ∧
    ∀ fk, some fk ∈ (findFetchersForElement cfg x e).2.fetchers → some fk ∈ e.fetchers ∨ fk ∈ fetchKeys x.st.peers := by
  unfold findFetchersForElement
  -- generalise the peer list that is folded over
  have key : ∀ (ps : List Peer), (∀ q ∈ ps, q ∈ x.st.peers) → ∀ (acc : Ctx × Element),
      (Ok x acc.1 ∧ acc.1.st = x.st ∧ acc.1.indexFull = x.indexFull ∧ acc.1.routeFull = x.routeFull ∧
        acc.2.path = e.path ∧ acc.2.owner = e.owner ∧
        ∀ fk, some fk ∈ acc.2.fetchers → some fk ∈ e.fetchers ∨ fk ∈ fetchKeys x.st.peers) →
      let r := ps.foldl (fun (acc : Ctx × Element) fp =>
        fp.fetches.foldl (fun (acc : Ctx × Element) f => offerElement cfg acc.1 acc.2 fp f) acc) acc
      (Ok x r.1 ∧ r.1.st = x.st ∧ r.1.indexFull = x.indexFull ∧ r.1.routeFull = x.routeFull ∧
        r.2.path = e.path ∧ r.2.owner = e.owner ∧
        ∀ fk, some fk ∈ r.2.fetchers → some fk ∈ e.fetchers ∨ fk ∈ fetchKeys x.st.peers) := by
    intro ps
    induction ps with
    | nil => intro _ acc hacc; exact hacc
    | cons fp ps ih =>
      intro hps acc hacc
      simp only [List.foldl_cons]
      apply ih (fun q hq => hps q (List.mem_cons_of_mem _ hq))
      -- inner fold over the fetches of fp
      have hfpm : fp ∈ x.st.peers := hps fp List.mem_cons_self
      have inner : ∀ (fs : List Fetch), (∀ f ∈ fs, f ∈ fp.fetches) → ∀ (acc : Ctx × Element),
          (Ok x acc.1 ∧ acc.1.st = x.st ∧ acc.1.indexFull = x.indexFull ∧ acc.1.routeFull = x.routeFull ∧
            acc.2.path = e.path ∧ acc.2.owner = e.owner ∧
            ∀ fk, some fk ∈ acc.2.fetchers → some fk ∈ e.fetchers ∨ fk ∈ fetchKeys x.st.peers) →
          let r := fs.foldl (fun (acc : Ctx × Element) f => offerElement cfg acc.1 acc.2 fp f) acc
          (Ok x r.1 ∧ r.1.st = x.st ∧ r.1.indexFull = x.indexFull ∧ r.1.routeFull = x.routeFull ∧
            r.2.path = e.path ∧ r.2.owner = e.owner ∧
            ∀ fk, some fk ∈ r.2.fetchers → some fk ∈ e.fetchers ∨ fk ∈ fetchKeys x.st.peers) := by
        intro fs
        induction fs with
        | nil => intro _ acc hacc; exact hacc
        | cons f fs ih2 =>
          intro hfs acc hacc
          simp only [List.foldl_cons]
          apply ih2 (fun g hg => hfs g (List.mem_cons_of_mem _ hg))
          obtain ⟨a1, a2, a3, a4, a5, a6, a7⟩ := hacc
          have hfpc : fp.conn ∈ conns acc.1.st.peers := by rw [a2]; exact mem_conns.2 ⟨fp, hfpm, rfl⟩
          obtain ⟨b1, b2, b3, b4, b5, b6, b7⟩ := offerElement_spec cfg a1.inv acc.2 fp f hfpc
          refine ⟨a1.trans b1, b2.trans a2, b3.trans a3, b4.trans a4, b5.trans a5, b6.trans a6, ?_⟩
          intro fk hfk
          rcases b7 fk hfk with h' | h'
          · exact a7 fk h'
          · right
            rw [h', mem_fetchKeys]
            exact ⟨fp, hfpm, rfl, f, hfs f List.mem_cons_self, rfl⟩
      exact inner fp.fetches (fun _ hf => hf) acc hacc
  exact key x.st.peers (fun _ hq => hq) (x, e) ⟨Ok.refl h, rfl, rfl, rfl, rfl, rfl, fun fk hfk => Or.inl hfk⟩

end Cjet.Daemon.C05
