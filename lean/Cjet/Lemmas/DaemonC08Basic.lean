/-
  DaemonC08Basic — vocabulary for the access-control proofs (C08):
  `findPeer`/`updatePeer`/`send`/`emit` lemmas, output extension (`OutExt`),
  the shape of the JSON values the daemon sends (`idFirst` = answer / routed request,
  `isNotif` = fetch notification) and the "keeps" predicates for peer updates.
-/
import Cjet.Daemon.Model

namespace Cjet.Daemon.C08

open Cjet Cjet.Json Cjet.Daemon

/-! ## findPeer -/

theorem findPeer_mem {ps : List Peer} {c : Nat} {p : Peer} (h : findPeer ps c = some p) : p ∈ ps :=
  List.mem_of_find?_eq_some h

theorem findPeer_conn {ps : List Peer} {c : Nat} {p : Peer} (h : findPeer ps c = some p) : p.conn = c := by
  have := List.find?_some h
  simpa using this

theorem findPeer_nil (c : Nat) : findPeer [] c = none := rfl

theorem findPeer_cons (q : Peer) (ps : List Peer) (c : Nat) :
    findPeer (q :: ps) c = if q.conn = c then some q else findPeer ps c := by
  unfold findPeer
  by_cases h : q.conn = c <;> simp [h]

theorem findPeer_map {g : Peer → Peer} (hg : ∀ q, (g q).conn = q.conn) (ps : List Peer) (c : Nat) :
    findPeer (ps.map g) c = (findPeer ps c).map g := by
  induction ps with
  | nil => rfl
  | cons q rest ih =>
    rw [List.map_cons, findPeer_cons, findPeer_cons, hg]
    split
    · rfl
    · exact ih

theorem findPeer_filter_ne (ps : List Peer) (c c' : Nat) (h : c' ≠ c) :
    findPeer (ps.filter (fun q => q.conn != c)) c' = findPeer ps c' := by
  induction ps with
  | nil => rfl
  | cons q rest ih =>
    by_cases hq : q.conn = c
    · have : (q.conn != c) = false := by simp [hq]
      rw [List.filter_cons_of_neg (by simp [hq]), ih, findPeer_cons]
      have : q.conn ≠ c' := by omega
      simp [this]
    · rw [List.filter_cons_of_pos (by simp [hq]), findPeer_cons, findPeer_cons, ih]

theorem findPeer_filter_self (ps : List Peer) (c : Nat) :
    findPeer (ps.filter (fun q => q.conn != c)) c = none := by
  unfold findPeer
  rw [List.find?_eq_none]
  intro q hq
  have := (List.mem_filter.mp hq).2
  simpa using this

theorem findPeer_append (ps qs : List Peer) (c : Nat) :
    findPeer (ps ++ qs) c = (findPeer ps c).or (findPeer qs c) := by
  unfold findPeer; exact List.find?_append

theorem findPeer_isSome_iff (ps : List Peer) (c : Nat) : (findPeer ps c).isSome ↔ c ∈ ps.map (·.conn) := by
  induction ps with
  | nil => simp [findPeer]
  | cons q rest ih =>
    rw [findPeer_cons]
    by_cases h : q.conn = c
    · simp [h]
    · simp only [h, if_false, ih, List.map_cons, List.mem_cons]
      constructor
      · exact Or.inr
      · rintro (h' | h')
        · exact absurd h'.symm h
        · exact h'

theorem findPeer_of_mem {ps : List Peer} (hn : (ps.map (·.conn)).Nodup) {p : Peer} (hp : p ∈ ps) :
    findPeer ps p.conn = some p := by
  induction ps with
  | nil => cases hp
  | cons q rest ih =>
    rw [findPeer_cons]
    rw [List.map_cons, List.nodup_cons] at hn
    rcases List.mem_cons.mp hp with rfl | hp'
    · simp
    · have : q.conn ≠ p.conn := by
        intro h
        exact hn.1 (h ▸ List.mem_map_of_mem hp')
      simp only [this, if_false]
      exact ih hn.2 hp'

/-! ## updatePeer, mapElements as maps -/

theorem updatePeer_eq_map (ps : List Peer) (c : Nat) (f : Peer → Peer) :
    updatePeer ps c f = ps.map (fun p => if p.conn == c then f p else p) := rfl

theorem mapElements_eq_map (ps : List Peer) (f : Element → Element) :
    mapElements ps f = ps.map (fun p => { p with elements := p.elements.map f }) := rfl

/-- `g` leaves the connection number and the authentication fields of every peer alone -/
def KeepsA (g : Peer → Peer) : Prop :=
  ∀ q, (g q).conn = q.conn ∧ (g q).user = q.user ∧ (g q).fetchGroups = q.fetchGroups ∧
    (g q).setGroups = q.setGroups ∧ (g q).callGroups = q.callGroups

/-- … and its fetch list -/
def Keeps (g : Peer → Peer) : Prop := KeepsA g ∧ ∀ q, (g q).fetches = q.fetches

theorem KeepsA.id : KeepsA (fun q => q) := fun _ => ⟨rfl, rfl, rfl, rfl, rfl⟩
theorem Keeps.id : Keeps (fun q => q) := ⟨KeepsA.id, fun _ => rfl⟩

theorem KeepsA.comp {g h : Peer → Peer} (hg : KeepsA g) (hh : KeepsA h) : KeepsA (fun q => h (g q)) := by
  intro q
  obtain ⟨a1, a2, a3, a4, a5⟩ := hg q
  obtain ⟨b1, b2, b3, b4, b5⟩ := hh (g q)
  exact ⟨b1.trans a1, b2.trans a2, b3.trans a3, b4.trans a4, b5.trans a5⟩

theorem Keeps.comp {g h : Peer → Peer} (hg : Keeps g) (hh : Keeps h) : Keeps (fun q => h (g q)) :=
  ⟨hg.1.comp hh.1, fun q => (hh.2 (g q)).trans (hg.2 q)⟩

theorem KeepsA.ite {f : Peer → Peer} (c : Nat) (hf : KeepsA f) :
    KeepsA (fun p => if p.conn == c then f p else p) := by
  intro q
  by_cases h : (q.conn == c) = true
  · simp only [h, if_true]; exact hf q
  · simp only [h]; exact ⟨rfl, rfl, rfl, rfl, rfl⟩

theorem Keeps.ite {f : Peer → Peer} (c : Nat) (hf : Keeps f) :
    Keeps (fun p => if p.conn == c then f p else p) := by
  refine ⟨hf.1.ite c, fun q => ?_⟩
  by_cases h : (q.conn == c) = true
  · simp only [h, if_true]; exact hf.2 q
  · simp only [h]; rfl

theorem Keeps.conn {g : Peer → Peer} (hg : Keeps g) (q : Peer) : (g q).conn = q.conn := (hg.1 q).1
theorem KeepsA.conn {g : Peer → Peer} (hg : KeepsA g) (q : Peer) : (g q).conn = q.conn := (hg q).1

theorem map_conn_of_keepsA {g : Peer → Peer} (hg : KeepsA g) (ps : List Peer) :
    (ps.map g).map (·.conn) = ps.map (·.conn) := by
  rw [List.map_map]
  apply List.map_congr_left
  intro q _
  exact hg.conn q

/-- updates of the element list / routing table / name only -/
theorem keeps_elements (f : Peer → List Element) : Keeps (fun q => { q with elements := f q }) :=
  ⟨fun _ => ⟨rfl, rfl, rfl, rfl, rfl⟩, fun _ => rfl⟩

theorem keeps_routes (f : Peer → List Route) : Keeps (fun q => { q with routes := f q }) :=
  ⟨fun _ => ⟨rfl, rfl, rfl, rfl, rfl⟩, fun _ => rfl⟩

theorem keeps_name (n : Option Bytes) : Keeps (fun q => { q with name := n }) :=
  ⟨fun _ => ⟨rfl, rfl, rfl, rfl, rfl⟩, fun _ => rfl⟩

theorem keepsA_fetches (f : Peer → List Fetch) : KeepsA (fun q => { q with fetches := f q }) :=
  fun _ => ⟨rfl, rfl, rfl, rfl, rfl⟩

/-! ## send, send', emit -/

@[simp] theorem send_st (x : Ctx) (c : Nat) (j : Json) : (send x c j).1.st = x.st := by
  unfold send; split <;> rfl

@[simp] theorem send'_st (x : Ctx) (c : Nat) (j : Json) : (send' x c j).st = x.st := send_st x c j

@[simp] theorem emit_st (x : Ctx) (o : Obs) : (emit x o).st = x.st := rfl
@[simp] theorem emit_out (x : Ctx) (o : Obs) : (emit x o).out = o :: x.out := rfl

@[simp] theorem send_indexFull (x : Ctx) (c : Nat) (j : Json) : (send x c j).1.indexFull = x.indexFull := by
  unfold send; split <;> rfl
@[simp] theorem send'_indexFull (x : Ctx) (c : Nat) (j : Json) : (send' x c j).indexFull = x.indexFull :=
  send_indexFull x c j
@[simp] theorem send_routeFull (x : Ctx) (c : Nat) (j : Json) : (send x c j).1.routeFull = x.routeFull := by
  unfold send; split <;> rfl
@[simp] theorem send'_routeFull (x : Ctx) (c : Nat) (j : Json) : (send' x c j).routeFull = x.routeFull :=
  send_routeFull x c j

theorem send_out (x : Ctx) (c : Nat) (j : Json) : ∃ ok, (send x c j).1.out = Obs.send c j ok :: x.out := by
  unfold send; split
  · exact ⟨true, rfl⟩
  · exact ⟨_, rfl⟩

theorem send'_out (x : Ctx) (c : Nat) (j : Json) : ∃ ok, (send' x c j).out = Obs.send c j ok :: x.out :=
  send_out x c j

/-! ## output extension -/

/-- `x'` has the outputs of `x` plus new ones (newest first), each satisfying `Q` -/
def OutExt (Q : Obs → Prop) (x x' : Ctx) : Prop :=
  ∃ new, x'.out = new ++ x.out ∧ ∀ o ∈ new, Q o

theorem OutExt.refl (Q : Obs → Prop) (x : Ctx) : OutExt Q x x := ⟨[], rfl, by simp⟩

theorem OutExt.of_out_eq {Q : Obs → Prop} {x x' : Ctx} (h : x'.out = x.out) : OutExt Q x x' :=
  ⟨[], by simpa using h, by simp⟩

theorem OutExt.trans {Q : Obs → Prop} {x y z : Ctx} (h1 : OutExt Q x y) (h2 : OutExt Q y z) : OutExt Q x z := by
  obtain ⟨n1, e1, q1⟩ := h1
  obtain ⟨n2, e2, q2⟩ := h2
  refine ⟨n2 ++ n1, by rw [e2, e1, List.append_assoc], ?_⟩
  intro o ho
  rcases List.mem_append.mp ho with h | h
  · exact q2 o h
  · exact q1 o h

theorem OutExt.mono {Q Q' : Obs → Prop} {x y : Ctx} (h : OutExt Q x y) (hq : ∀ o, Q o → Q' o) : OutExt Q' x y := by
  obtain ⟨n, e, q⟩ := h
  exact ⟨n, e, fun o ho => hq o (q o ho)⟩

theorem OutExt.send {Q : Obs → Prop} (x : Ctx) (c : Nat) (j : Json) (h : ∀ ok, Q (Obs.send c j ok)) :
    OutExt Q x (send x c j).1 := by
  obtain ⟨ok, e⟩ := send_out x c j
  refine ⟨[Obs.send c j ok], by simpa using e, ?_⟩
  intro o ho
  rw [List.mem_singleton] at ho
  subst ho
  exact h ok

theorem OutExt.send' {Q : Obs → Prop} (x : Ctx) (c : Nat) (j : Json) (h : ∀ ok, Q (Obs.send c j ok)) :
    OutExt Q x (send' x c j) := OutExt.send x c j h

theorem OutExt.emit {Q : Obs → Prop} (x : Ctx) (o : Obs) (h : Q o) : OutExt Q x (emit x o) :=
  ⟨[o], rfl, by simpa using h⟩

/-- the same outputs, seen from a context that differs in state / oracle fields only -/
theorem OutExt.congr_left {Q : Obs → Prop} {x x' y : Ctx} (h : OutExt Q x y) (e : x'.out = x.out) : OutExt Q x' y := by
  obtain ⟨n, e1, q⟩ := h
  exact ⟨n, by rw [e1, e], q⟩

theorem OutExt.congr_right {Q : Obs → Prop} {x y y' : Ctx} (h : OutExt Q x y) (e : y'.out = y.out) : OutExt Q x y' := by
  obtain ⟨n, e1, q⟩ := h
  exact ⟨n, by rw [e, e1], q⟩

/-! ## shapes of the values the daemon sends -/

/-- answers (result / error) and routed requests start with the member "id" -/
def idFirst : Json → Bool
  | .obj ((key, _) :: _) => key == k "id"
  | _ => false

/-- fetch notifications start with the member "method" -/
def isNotif : Json → Bool
  | .obj ((key, _) :: _) => key == k "method"
  | _ => false

theorem k_id_ne_method : (k "id" == k "method") = false := by decide +kernel

theorem not_isNotif_of_idFirst {j : Json} (h : idFirst j = true) : isNotif j = false := by
  unfold idFirst at h
  unfold isNotif
  split at h
  · rename_i key _ _
    have : key = k "id" := by simpa using h
    subst this
    exact k_id_ne_method
  · cases h

theorem isNotif_notification (e : Element) (fid : Json) (ev : String) : isNotif (notification e fid ev) = true := by
  simp [notification, isNotif]

theorem idFirst_commonResponse {id : Json} {l : List (Bytes × Json)} (h : commonResponse id = some l)
    (rest : List (Bytes × Json)) : idFirst (.obj (l ++ rest)) = true := by
  unfold commonResponse at h
  split at h
  · cases h; simp [idFirst]
  · cases h; simp [idFirst]
  · cases h

theorem idFirst_errorResponse {id : Json} {code : Int} {tag : String} {reason : Bytes} {j : Json}
    (h : errorResponse id code tag reason = some j) : idFirst j = true := by
  unfold errorResponse at h
  cases hc : commonResponse id with
  | none => simp [hc] at h
  | some l =>
    simp only [hc, Option.map_some, Option.some.injEq] at h
    subst h
    exact idFirst_commonResponse hc _

theorem idFirst_resultResponse {id result : Json} {typ : String} {j : Json}
    (h : resultResponse id result typ = some j) : idFirst j = true := by
  unfold resultResponse at h
  cases hc : commonResponse id with
  | none => simp [hc] at h
  | some l =>
    simp only [hc, Option.map_some, Option.some.injEq] at h
    subst h
    exact idFirst_commonResponse hc _

theorem idFirst_errorFromRequest {req : Json} {code : Int} {tag : String} {reason : Bytes} {j : Json}
    (h : errorFromRequest req code tag reason = some j) : idFirst j = true := by
  unfold errorFromRequest at h
  split at h
  · exact idFirst_errorResponse h
  · cases h

theorem idFirst_resultFromRequest {req result : Json} {j : Json}
    (h : resultFromRequest req result = some j) : idFirst j = true := by
  unfold resultFromRequest at h
  split at h
  · exact idFirst_resultResponse h
  · cases h

theorem idFirst_successFromRequest {req : Json} {j : Json}
    (h : successFromRequest req = some j) : idFirst j = true := idFirst_resultFromRequest h

theorem idFirst_routedMessage (rid path : Bytes) (isState : Bool) (v : Option Json) :
    idFirst (routedMessage rid path isState v) = true := by
  simp [routedMessage, idFirst]

end Cjet.Daemon.C08
