/-
  DaemonC08Groups — groups.c: group names ↦ bits, access = non-empty intersection;
  and a model of `is_localhost` (linux_io.c).
-/
import Cjet.Daemon.Model

namespace Cjet.Daemon.C08

open Cjet Cjet.Json Cjet.Daemon

/-! ## bits -/

theorem testBit_foldl_or (l : List (Bytes × Nat)) (acc i : Nat) :
    (l.foldl (fun acc (x : Bytes × Nat) => acc ||| (1 <<< x.2)) acc).testBit i =
      (acc.testBit i || l.any (fun x => x.2 == i)) := by
  induction l generalizing acc with
  | nil => simp
  | cons a rest ih =>
    simp only [List.foldl_cons, List.any_cons]
    rw [ih, Nat.testBit_or, Nat.one_shiftLeft, Nat.testBit_two_pow]
    by_cases h : a.2 = i
    · simp [h]
    · have : (a.2 == i) = false := by simpa using h
      simp [h, this]

/-- bit `i` of `groupBit all g` is set iff the `i`-th registered name is `g` -/
theorem groupBit_testBit (all : List Bytes) (g : Bytes) (i : Nat) :
    (groupBit all g).testBit i = true ↔ all[i]? = some g := by
  unfold groupBit
  have h := testBit_foldl_or (all.zipIdx.filter (fun x => x.1 == g)) 0 i
  have heq : (all.zipIdx.filter (fun x => x.1 == g)).foldl (fun acc (x : Bytes × Nat) => acc ||| (1 <<< x.2)) 0 =
      (all.zipIdx.filter (fun (n, _) => n == g)).foldl (fun acc (_, j) => acc ||| (1 <<< j)) 0 := rfl
  rw [← heq, h, Nat.zero_testBit, Bool.false_or, List.any_eq_true]
  constructor
  · rintro ⟨⟨n, j⟩, hm, hj⟩
    obtain ⟨hz, hn⟩ := List.mem_filter.mp hm
    have hz' := List.mem_zipIdx_iff_getElem?.mp hz
    simp only at hz' hn hj
    have hji : j = i := by simpa using hj
    have hng : n = g := by simpa using hn
    rw [← hji, ← hng]; exact hz'
  · intro h
    refine ⟨(g, i), List.mem_filter.mpr ⟨List.mem_zipIdx_iff_getElem?.mpr h, by simp⟩, by simp⟩

/-- one iteration of the outer loop of get_groups -/
def grpStep (all : List Bytes) (acc : Nat) (g : Json) : Nat :=
  match g with
  | .str s => acc ||| groupBit all s
  | _ => acc

theorem getGroups_eq (cfg : Config) (l : List Json) :
    getGroups cfg (some (.arr l)) = if !cfg.authLoaded then 0 else l.foldl (grpStep cfg.allGroups) 0 := by
  unfold getGroups
  split
  · rfl
  · simp only
    congr 1

theorem testBit_foldl_groups (all : List Bytes) (l : List Json) (acc i : Nat) :
    (l.foldl (grpStep all) acc).testBit i = true ↔
      acc.testBit i = true ∨ ∃ name, Json.str name ∈ l ∧ all[i]? = some name := by
  induction l generalizing acc with
  | nil => simp
  | cons a rest ih =>
    simp only [List.foldl_cons]
    rw [ih]
    cases a with
    | str s =>
      simp only [grpStep, Nat.testBit_or, Bool.or_eq_true, groupBit_testBit]
      constructor
      · rintro ((h | h) | ⟨n, hn, hi⟩)
        · exact Or.inl h
        · exact Or.inr ⟨s, List.mem_cons_self .., h⟩
        · exact Or.inr ⟨n, List.mem_cons_of_mem _ hn, hi⟩
      · rintro (h | ⟨n, hn, hi⟩)
        · exact Or.inl (Or.inl h)
        · rcases List.mem_cons.mp hn with heq | hn
          · cases heq; exact Or.inl (Or.inr hi)
          · exact Or.inr ⟨n, hn, hi⟩
    | null | bool _ | num _ | arr _ | obj _ =>
      simp only [grpStep]
      constructor
      · rintro (h | ⟨n, hn, hi⟩)
        · exact Or.inl h
        · exact Or.inr ⟨n, List.mem_cons_of_mem _ hn, hi⟩
      · rintro (h | ⟨n, hn, hi⟩)
        · exact Or.inl h
        · rcases List.mem_cons.mp hn with heq | hn
          · cases heq
          · exact Or.inr ⟨n, hn, hi⟩

/-- get_groups: bit `j` is set iff the `j`-th registered group name is a string member of the array -/
theorem getGroups_testBit (cfg : Config) (hauth : cfg.authLoaded = true) (l : List Json) (j : Nat) :
    (getGroups cfg (some (.arr l))).testBit j = true ↔ ∃ name, cfg.allGroups[j]? = some name ∧ Json.str name ∈ l := by
  rw [getGroups_eq]
  simp only [hauth, Bool.not_true, Bool.false_eq_true, if_false]
  rw [testBit_foldl_groups]
  simp only [Nat.zero_testBit, Bool.false_eq_true, false_or]
  constructor
  · rintro ⟨n, h1, h2⟩; exact ⟨n, h2, h1⟩
  · rintro ⟨n, h1, h2⟩; exact ⟨n, h2, h1⟩

theorem getGroups_not_array (cfg : Config) (j : Option Json) (h : ∀ l, j ≠ some (.arr l)) : getGroups cfg j = 0 := by
  unfold getGroups
  split
  · rfl
  · split
    · rename_i l; exact absurd rfl (h l)
    · rfl

theorem getGroups_noauth (cfg : Config) (h : cfg.authLoaded = false) (j : Option Json) : getGroups cfg j = 0 := by
  unfold getGroups; simp [h]

theorem and_ne_zero_iff (a b : Nat) : a &&& b ≠ 0 ↔ ∃ i, a.testBit i = true ∧ b.testBit i = true := by
  constructor
  · intro h
    apply Classical.byContradiction
    intro hne
    apply h
    apply Nat.eq_of_testBit_eq
    intro i
    rw [Nat.zero_testBit, Nat.testBit_and]
    cases ha : a.testBit i <;> cases hb : b.testBit i <;> simp
    exact hne ⟨i, ha, hb⟩
  · rintro ⟨i, ha, hb⟩ h
    have := Nat.testBit_and a b i
    rw [h, Nat.zero_testBit, ha, hb] at this
    cases this

theorem hasAccess_auth (cfg : Config) (hauth : cfg.authLoaded = true) (a b : Nat) :
    hasAccess cfg a b = true ↔ a &&& b ≠ 0 := by
  unfold hasAccess
  simp [hauth]

theorem hasAccess_noauth (cfg : Config) (hauth : cfg.authLoaded = false) (a b : Nat) : hasAccess cfg a b = true := by
  unfold hasAccess
  simp [hauth]

/-- every group word fits the 32-bit `group_t` when at most 32 groups are registered -/
theorem getGroups_lt (cfg : Config) (h32 : cfg.allGroups.length ≤ 32) (j : Option Json) : getGroups cfg j < 2 ^ 32 := by
  apply Nat.lt_pow_two_of_testBit
  intro i hi
  cases hauth : cfg.authLoaded with
  | false => rw [getGroups_noauth cfg hauth, Nat.zero_testBit]
  | true =>
    cases j with
    | none => rw [getGroups_not_array cfg none (by intro l h; cases h), Nat.zero_testBit]
    | some v =>
      cases v with
      | arr l =>
        cases hb : (getGroups cfg (some (.arr l))).testBit i with
        | false => rfl
        | true =>
          obtain ⟨n, hn, _⟩ := (getGroups_testBit cfg hauth l i).mp hb
          have : i < cfg.allGroups.length := by
            apply Classical.byContradiction
            intro hlt
            rw [List.getElem?_eq_none (by omega)] at hn
            cases hn
          omega
      | null | bool _ | num _ | str _ | obj _ =>
        rw [getGroups_not_array cfg _ (by intro l h; cases h), Nat.zero_testBit]

/-! ## is_localhost (linux_io.c) -/

def AF_UNIX : Nat := 1
def AF_INET : Nat := 2
def AF_INET6 : Nat := 10

def v4Loopback : List UInt8 := [0x7f, 0, 0, 1]
def v6Loopback : List UInt8 := [0, 0, 0, 0, 0, 0, 0, 0, 0, 0, 0, 0, 0, 0, 0, 1]
def v6MappedLoopback : List UInt8 := [0, 0, 0, 0, 0, 0, 0, 0, 0, 0, 0xff, 0xff, 0x7f, 0, 0, 1]

/-- `is_localhost(&addr)`: `fam` is `addr.ss_family`; `addr4` are the four bytes at the offset of
    `sin_addr` (bytes 4‥7 of the storage), `addr16` the sixteen bytes at the offset of `sin6_addr`
    (bytes 8‥23 of the storage). The storage was zeroed before `accept` filled it in. Only
    AF_INET takes the first branch; every other family is compared as if it were IPv6. -/
def isLocalhost (fam : Nat) (addr4 addr16 : List UInt8) : Bool :=
  if fam = AF_INET then addr4 == v4Loopback
  else addr16 == v6MappedLoopback || addr16 == v6Loopback

theorem isLocalhost_iff (fam : Nat) (a4 a16 : List UInt8) :
    isLocalhost fam a4 a16 = true ↔
      (fam = AF_INET ∧ a4 = v4Loopback) ∨ (fam ≠ AF_INET ∧ (a16 = v6MappedLoopback ∨ a16 = v6Loopback)) := by
  unfold isLocalhost
  by_cases h : fam = AF_INET
  · simp [h]
  · simp [h]

/-- what `accept` on the Unix-domain listener leaves in the zeroed storage for a client that did
    not bind its socket: family AF_UNIX and nothing else -/
theorem isLocalhost_unix_unnamed : isLocalhost AF_UNIX (List.replicate 4 0) (List.replicate 16 0) = false := by
  decide

/-- … hence, for AF_UNIX, the answer depends on bytes 6‥21 of the client's `sun_path` -/
theorem isLocalhost_unix (a4 a16 : List UInt8) :
    isLocalhost AF_UNIX a4 a16 = true ↔ a16 = v6MappedLoopback ∨ a16 = v6Loopback := by
  rw [isLocalhost_iff]
  simp [AF_UNIX, AF_INET]

end Cjet.Daemon.C08
