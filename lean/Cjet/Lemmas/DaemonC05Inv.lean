/-
  Cjet.Lemmas.DaemonC05Inv — the state invariant used by C05/C11 and generic preservation lemmas.

  `Inv s` says: connection ids are distinct; every element sits in its owner's list, has a unique
  path and exactly one index entry (and every index entry has its element); every occupied slot of
  every fetcher table names an existing fetch of a live peer; every routing entry sits in its
  owner's table, was requested by a live peer and carries a timer number already handed out.
-/
import Cjet.Lemmas.DaemonC05Basic

namespace Cjet.Daemon.C05

open Cjet Cjet.Json Cjet.Daemon

/-- all (peer, uid) pairs of existing fetches -/
def fetchKeys (ps : List Peer) : List FetchKey :=
  ps.flatMap (fun p => p.fetches.map (fun f => (⟨p.conn, f.uid⟩ : FetchKey)))

theorem mem_fetchKeys {ps : List Peer} {fk : FetchKey} :
    fk ∈ fetchKeys ps ↔ ∃ p ∈ ps, p.conn = fk.peer ∧ ∃ f ∈ p.fetches, f.uid = fk.uid := by
  unfold fetchKeys
  simp only [List.mem_flatMap, List.mem_map]
  constructor
  · rintro ⟨p, hp, f, hf, rfl⟩; exact ⟨p, hp, rfl, f, hf, rfl⟩
  · rintro ⟨p, hp, hc, f, hf, hu⟩
    refine ⟨p, hp, f, hf, ?_⟩
    cases fk; simp_all

structure Inv (s : State) : Prop where
  nodup : (conns s.peers).Nodup
  owner : ∀ p ∈ s.peers, ∀ e ∈ p.elements, e.owner = p.conn
  inIdx : ∀ p ∈ s.peers, ∀ e ∈ p.elements, (e.path, p.conn) ∈ s.index
  paths : ∀ p ∈ s.peers, (p.elements.map (·.path)).Nodup
  idxNodup : (s.index.map (·.1)).Nodup
  idxElem : ∀ pa o, (pa, o) ∈ s.index → ∃ p ∈ s.peers, p.conn = o ∧ ∃ e ∈ p.elements, e.path = pa
  fetchers : ∀ p ∈ s.peers, ∀ e ∈ p.elements, ∀ fk, some fk ∈ e.fetchers → fk ∈ fetchKeys s.peers
  routes : ∀ p ∈ s.peers, ∀ r ∈ p.routes,
    r.owner = p.conn ∧ r.requester ∈ conns s.peers ∧ r.timer < s.nextTimer

theorem inv_init (us : List User) : Inv { users := us } := by
  constructor <;> simp [conns]

/-- keys of an association list with distinct keys determine the value -/
theorem idx_unique {idx : List (Bytes × Nat)} (hn : (idx.map (·.1)).Nodup) {pa : Bytes} {a b : Nat}
    (ha : (pa, a) ∈ idx) (hb : (pa, b) ∈ idx) : a = b := by
  induction idx with
  | nil => cases ha
  | cons en rest ih =>
    simp only [List.map_cons, List.nodup_cons] at hn
    rcases List.mem_cons.1 ha with rfl | ha'
    · rcases List.mem_cons.1 hb with hb' | hb'
      · exact (Prod.mk.inj hb').2.symm
      · exact absurd (List.mem_map.2 ⟨(pa, b), hb', rfl⟩) hn.1
    · rcases List.mem_cons.1 hb with rfl | hb'
      · exact absurd (List.mem_map.2 ⟨(pa, a), ha', rfl⟩) hn.1
      · exact ih hn.2 ha' hb'

/-- an element's path occurs in no other peer's list -/
theorem Inv.path_owner {s : State} (hI : Inv s) {p q : Peer} (hp : p ∈ s.peers) (hq : q ∈ s.peers)
    {e e' : Element} (he : e ∈ p.elements) (he' : e' ∈ q.elements) (h : e.path = e'.path) : p = q := by
  have h1 := hI.inIdx p hp e he
  have h2 := hI.inIdx q hq e' he'
  rw [h] at h1
  exact findPeer_unique hI.nodup hp hq (idx_unique hI.idxNodup h1 h2)

/-- two elements of one peer with the same path are the same element -/
theorem nodup_path_unique {els : List Element} (hn : (els.map (·.path)).Nodup) {e e' : Element}
    (he : e ∈ els) (he' : e' ∈ els) (h : e.path = e'.path) : e = e' := by
  induction els with
  | nil => cases he
  | cons a rest ih =>
    simp only [List.map_cons, List.nodup_cons] at hn
    rcases List.mem_cons.1 he with rfl | he1
    · rcases List.mem_cons.1 he' with rfl | he2
      · rfl
      · exact absurd (List.mem_map.2 ⟨e', he2, h.symm⟩) hn.1
    · rcases List.mem_cons.1 he' with rfl | he2
      · exact absurd (List.mem_map.2 ⟨e, he1, h⟩) hn.1
      · exact ih hn.2 he1 he2

theorem flatMap_congr' {α β : Type} {l : List α} {f g : α → List β} (h : ∀ a ∈ l, f a = g a) :
    l.flatMap f = l.flatMap g := by
  induction l with
  | nil => rfl
  | cons a l ih =>
    simp only [List.flatMap_cons]
    rw [h a List.mem_cons_self, ih (fun b hb => h b (List.mem_cons_of_mem _ hb))]

theorem fetchKeys_map {ps : List Peer} {g : Peer → Peer} (hc : ∀ p, (g p).conn = p.conn)
    (hf : ∀ p ∈ ps, (g p).fetches = p.fetches) : fetchKeys (ps.map g) = fetchKeys ps := by
  unfold fetchKeys
  rw [List.flatMap_map]
  apply flatMap_congr'
  intro p hp
  simp [hc, hf p hp]

theorem fetchKeys_map_subset {ps : List Peer} {g : Peer → Peer} (hc : ∀ p, (g p).conn = p.conn)
    (hf : ∀ p ∈ ps, ∀ f ∈ p.fetches, f ∈ (g p).fetches) {fk : FetchKey} (h : fk ∈ fetchKeys ps) :
    fk ∈ fetchKeys (ps.map g) := by
  rw [mem_fetchKeys] at h ⊢
  obtain ⟨p, hp, hpc, f, hfm, hu⟩ := h
  exact ⟨g p, List.mem_map.2 ⟨p, hp, rfl⟩, by rw [hc]; exact hpc, f, hf p hp f hfm, hu⟩

/-- Generic preservation: the peer list is mapped by a conn-preserving function that keeps the
    (path, owner) view of every element list; the index is unchanged. -/
theorem Inv.map_peers {s s' : State} (hI : Inv s) (g : Peer → Peer)
    (hp : s'.peers = s.peers.map g) (hidx : s'.index = s.index)
    (hc : ∀ p, (g p).conn = p.conn)
    (hel : ∀ p ∈ s.peers, (g p).elements.map (fun e => (e.path, e.owner)) = p.elements.map (fun e => (e.path, e.owner)))
    (hfk : ∀ p ∈ s.peers, ∀ e' ∈ (g p).elements, ∀ fk, some fk ∈ e'.fetchers → fk ∈ fetchKeys s'.peers)
    (hr : ∀ p ∈ s.peers, ∀ r ∈ (g p).routes,
      r.owner = p.conn ∧ r.requester ∈ conns s.peers ∧ r.timer < s'.nextTimer) : Inv s' := by
  have hconns : conns s'.peers = conns s.peers := by rw [hp]; exact conns_map hc
  have helem : ∀ p ∈ s.peers, ∀ e' ∈ (g p).elements, ∃ e ∈ p.elements, e.path = e'.path ∧ e.owner = e'.owner := by
    intro p hpm e' he'
    have : (e'.path, e'.owner) ∈ (g p).elements.map (fun e => (e.path, e.owner)) := List.mem_map.2 ⟨e', he', rfl⟩
    rw [hel p hpm] at this
    obtain ⟨e, he, heq⟩ := List.mem_map.1 this
    exact ⟨e, he, (Prod.mk.inj heq).1, (Prod.mk.inj heq).2⟩
  have helem' : ∀ p ∈ s.peers, ∀ e ∈ p.elements, ∃ e' ∈ (g p).elements, e.path = e'.path ∧ e.owner = e'.owner := by
    intro p hpm e he
    have : (e.path, e.owner) ∈ p.elements.map (fun e => (e.path, e.owner)) := List.mem_map.2 ⟨e, he, rfl⟩
    rw [← hel p hpm] at this
    obtain ⟨e', he', heq⟩ := List.mem_map.1 this
    exact ⟨e', he', (Prod.mk.inj heq).1.symm, (Prod.mk.inj heq).2.symm⟩
  constructor
  · rw [hconns]; exact hI.nodup
  · intro q hq e' he'
    rw [hp] at hq
    obtain ⟨p, hpm, rfl⟩ := List.mem_map.1 hq
    obtain ⟨e, he, _, h2⟩ := helem p hpm e' he'
    rw [hc, ← h2]; exact hI.owner p hpm e he
  · intro q hq e' he'
    rw [hp] at hq
    obtain ⟨p, hpm, rfl⟩ := List.mem_map.1 hq
    obtain ⟨e, he, h1, _⟩ := helem p hpm e' he'
    rw [hc, hidx, ← h1]; exact hI.inIdx p hpm e he
  · intro q hq
    rw [hp] at hq
    obtain ⟨p, hpm, rfl⟩ := List.mem_map.1 hq
    have h1 : (g p).elements.map (·.path) = ((g p).elements.map (fun e => (e.path, e.owner))).map (·.1) := by
      simp [List.map_map, Function.comp_def]
    have h2 : p.elements.map (·.path) = (p.elements.map (fun e => (e.path, e.owner))).map (·.1) := by
      simp [List.map_map, Function.comp_def]
    rw [h1, hel p hpm, ← h2]; exact hI.paths p hpm
  · rw [hidx]; exact hI.idxNodup
  · intro pa o hm
    rw [hidx] at hm
    obtain ⟨p, hpm, hpc, e, he, hpa⟩ := hI.idxElem pa o hm
    obtain ⟨e', he', h1, _⟩ := helem' p hpm e he
    exact ⟨g p, by rw [hp]; exact List.mem_map.2 ⟨p, hpm, rfl⟩, by rw [hc]; exact hpc, e', he', by rw [← h1]; exact hpa⟩
  · intro q hq e' he' fk hfkm
    rw [hp] at hq
    obtain ⟨p, hpm, rfl⟩ := List.mem_map.1 hq
    exact hfk p hpm e' he' fk hfkm
  · intro q hq r hrm
    rw [hp] at hq
    obtain ⟨p, hpm, rfl⟩ := List.mem_map.1 hq
    rw [hc, hconns]
    exact hr p hpm r hrm

/-- nothing but fields the invariant does not mention changes (counters may grow) -/
theorem Inv.frame {s s' : State} (hI : Inv s) (hp : s'.peers = s.peers) (hidx : s'.index = s.index)
    (ht : s.nextTimer ≤ s'.nextTimer) : Inv s' := by
  apply hI.map_peers id
  · simpa using hp
  · exact hidx
  · intro p; rfl
  · intro p _; rfl
  · intro p hpm e' he' fk hfk
    rw [hp]; exact hI.fetchers p hpm e' he' fk hfk
  · intro p hpm r hr
    obtain ⟨h1, h2, h3⟩ := hI.routes p hpm r hr
    exact ⟨h1, h2, Nat.lt_of_lt_of_le h3 ht⟩

/-- one peer's record changes in fields the invariant does not mention -/
theorem Inv.updatePeer_frame {s s' : State} (hI : Inv s) (c : Nat) (f : Peer → Peer)
    (hp : s'.peers = updatePeer s.peers c f) (hidx : s'.index = s.index) (ht : s.nextTimer ≤ s'.nextTimer)
    (hc : ∀ p, (f p).conn = p.conn) (he : ∀ p, (f p).elements = p.elements)
    (hf : ∀ p, (f p).fetches = p.fetches) (hr : ∀ p, (f p).routes = p.routes) : Inv s' := by
  have hg : ∀ p : Peer, (if p.conn == c then f p else p).conn = p.conn := by
    intro p; split <;> simp [hc]
  apply hI.map_peers (fun p => if p.conn == c then f p else p) hp hidx hg
  · intro p _; split <;> simp [he]
  · intro p hpm e' he' fk hfk
    have : e' ∈ p.elements := by
      split at he'
      · rwa [he] at he'
      · exact he'
    rw [hp, updatePeer_eq_map, fetchKeys_map hg]
    · exact hI.fetchers p hpm e' this fk hfk
    · intro q _; split <;> simp [hf]
  · intro p hpm r hrm
    have : r ∈ p.routes := by
      split at hrm
      · rwa [hr] at hrm
      · exact hrm
    obtain ⟨h1, h2, h3⟩ := hI.routes p hpm r this
    exact ⟨h1, h2, Nat.lt_of_lt_of_le h3 ht⟩

/-- routing tables change: every entry of the new tables is an old one or a good new one -/
theorem Inv.map_routes {s s' : State} (hI : Inv s) (g : Peer → Peer)
    (hp : s'.peers = s.peers.map g) (hidx : s'.index = s.index) (ht : s.nextTimer ≤ s'.nextTimer)
    (hc : ∀ p, (g p).conn = p.conn) (he : ∀ p, (g p).elements = p.elements)
    (hf : ∀ p, (g p).fetches = p.fetches)
    (hr : ∀ p ∈ s.peers, ∀ r ∈ (g p).routes,
      r ∈ p.routes ∨ (r.owner = p.conn ∧ r.requester ∈ conns s.peers ∧ r.timer < s'.nextTimer)) : Inv s' := by
  apply hI.map_peers g hp hidx hc
  · intro p _; rw [he]
  · intro p hpm e' he' fk hfk
    rw [he] at he'
    rw [hp, fetchKeys_map hc (fun q _ => hf q)]
    exact hI.fetchers p hpm e' he' fk hfk
  · intro p hpm r hrm
    rcases hr p hpm r hrm with h | h
    · obtain ⟨h1, h2, h3⟩ := hI.routes p hpm r h
      exact ⟨h1, h2, Nat.lt_of_lt_of_le h3 ht⟩
    · exact h

theorem Inv.removeRoute {s : State} (hI : Inv s) (o : Nat) (rid : Bytes) :
    Inv { s with peers := Daemon.removeRoute s.peers o rid } := by
  apply hI.map_routes (s' := { s with peers := Daemon.removeRoute s.peers o rid })
    (fun p => if p.conn == o then { p with routes := p.routes.filter (·.rid != rid) } else p)
    rfl rfl (Nat.le_refl _)
  · intro p; split <;> rfl
  · intro p; split <;> rfl
  · intro p; split <;> rfl
  · intro p _ r hr
    left
    split at hr
    · exact (List.mem_filter.1 hr).1
    · exact hr

/-- element lists are mapped element-wise by functions that keep path and owner -/
theorem Inv.map_elements {s : State} (hI : Inv s) (H : Peer → Element → Element) (ps' : List Peer)
    (hp : ps' = s.peers.map (fun q => { q with elements := q.elements.map (H q) }))
    (hH : ∀ q ∈ s.peers, ∀ el ∈ q.elements, (H q el).path = el.path ∧ (H q el).owner = el.owner ∧
      ∀ fk, some fk ∈ (H q el).fetchers → some fk ∈ el.fetchers ∨ fk ∈ fetchKeys s.peers) :
    Inv { s with peers := ps' } := by
  have hc : ∀ p : Peer, ({ p with elements := p.elements.map (H p) } : Peer).conn = p.conn := fun _ => rfl
  apply hI.map_peers (s' := { s with peers := ps' }) (fun q => { q with elements := q.elements.map (H q) }) hp rfl hc
  · intro p hpm
    simp only [List.map_map]
    apply List.map_congr_left
    intro el hel
    obtain ⟨h1, h2, _⟩ := hH p hpm el hel
    simp [h1, h2]
  · intro p hpm e' he' fk hfk
    obtain ⟨el, hel, rfl⟩ := List.mem_map.1 he'
    show fk ∈ fetchKeys ps'
    rw [hp, fetchKeys_map hc (fun _ _ => rfl)]
    rcases (hH p hpm el hel).2.2 fk hfk with h | h
    · exact hI.fetchers p hpm el hel fk h
    · exact h
  · intro p hpm r hr
    exact hI.routes p hpm r hr

/-- the same for an update of one peer's element list -/
theorem Inv.updatePeer_elements {s : State} (hI : Inv s) (o : Nat) (h : Element → Element)
    (hH : ∀ q ∈ s.peers, q.conn = o → ∀ el ∈ q.elements, (h el).path = el.path ∧ (h el).owner = el.owner ∧
      ∀ fk, some fk ∈ (h el).fetchers → some fk ∈ el.fetchers ∨ fk ∈ fetchKeys s.peers) :
    Inv { s with peers := updatePeer s.peers o (fun q => { q with elements := q.elements.map h }) } := by
  apply hI.map_elements (fun q => if q.conn == o then h else id)
  · rw [updatePeer_eq_map]
    apply List.map_congr_left
    intro q _
    split <;> simp
  · intro q hq el hel
    by_cases hqo : q.conn = o
    · simp only [hqo, beq_self_eq_true, if_true]
      exact hH q hq hqo el hel
    · have : (q.conn == o) = false := by simpa using hqo
      simp only [this]
      exact ⟨rfl, rfl, fun fk hfk => Or.inl hfk⟩

end Cjet.Daemon.C05
