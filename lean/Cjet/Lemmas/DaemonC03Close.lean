/-
  DaemonC03Close — the outputs of `free_peer_resources` around one routing entry of the leaving
  peer's table: its timer is destroyed and the shutdown answer sent, exactly once.
-/
import Cjet.Lemmas.DaemonC03Final

namespace Cjet.Daemon.C03

open Cjet Cjet.Json Cjet.Daemon

/-- the outputs of `y` extend those of `x` -/
def OutExt (x y : Ctx) : Prop := ∃ news, y.out = news ++ x.out

theorem OutExt.refl (x : Ctx) : OutExt x x := ⟨[], rfl⟩

theorem OutExt.trans {x y z : Ctx} (h1 : OutExt x y) (h2 : OutExt y z) : OutExt x z := by
  obtain ⟨n1, e1⟩ := h1
  obtain ⟨n2, e2⟩ := h2
  exact ⟨n2 ++ n1, by rw [e2, e1, List.append_assoc]⟩

theorem outExt_send' (x : Ctx) (c : Nat) (j : Json) : OutExt x (send' x c j) := ⟨[_], send'_out x c j⟩

theorem outExt_emit (x : Ctx) (o : Obs) : OutExt x (emit x o) := ⟨[o], rfl⟩

theorem outExt_answer (x : Ctx) (c : Nat) (a : Option Json) : OutExt x (answer x c a) := ⟨_, answer_out x c a⟩

theorem outExt_notifyOne (x : Ctx) (e : Element) (fk : FetchKey) (ev : String) : OutExt x (notifyOne x e fk ev) := by
  unfold notifyOne
  split
  · exact outExt_send' ..
  · exact OutExt.refl x

theorem outExt_notifyFetchers (x : Ctx) (e : Element) (ev : String) : OutExt x (notifyFetchers x e ev) := by
  unfold notifyFetchers
  apply foldl_inv (fun (y : Ctx) => OutExt x y)
  · exact OutExt.refl x
  · intro y s _ hy
    cases s with
    | none => exact hy
    | some fk => exact hy.trans (outExt_notifyOne ..)

theorem outExt_removeElement (x : Ctx) (e : Element) : OutExt x (removeElement x e) := by
  obtain ⟨n, hn⟩ := outExt_notifyFetchers x e "remove"
  exact ⟨n, hn⟩

theorem outExt_clearRoute (x : Ctx) (r : Route) (c : Nat) : OutExt x (clearRoute x r c) := by
  rw [clearRoute_eq]
  exact (outExt_emit x _).trans (outExt_answer ..)

theorem outExt_clearAll (x : Ctx) (l : List Route) (c : Nat) : OutExt x (clearAll x l c) := by
  unfold clearAll
  apply foldl_inv (fun (y : Ctx) => OutExt x y)
  · exact OutExt.refl x
  · intro y r _ hy
    exact hy.trans (outExt_clearRoute ..)

theorem outExt_fprB (x : Ctx) (c : Nat) : OutExt x (fprB x c) := by
  obtain ⟨n, hn⟩ := outExt_clearAll x (mineOf x c) c
  exact ⟨n, hn⟩

theorem outExt_fprC (x : Ctx) (c : Nat) (p : Peer) : OutExt x (fprC x c p) := by
  unfold fprC
  dsimp only
  apply foldl_inv (fun (y : Ctx) => OutExt x y)
  · exact ⟨[], rfl⟩
  · intro y e0 _ hy
    split
    · exact hy.trans (outExt_removeElement ..)
    · exact hy

theorem clearAll_append (x : Ctx) (l₁ l₂ : List Route) (c : Nat) :
    clearAll x (l₁ ++ l₂) c = clearAll (clearAll x l₁ c) l₂ c := by
  simp [clearAll, List.foldl_append]

theorem clearAll_cons (x : Ctx) (r : Route) (l : List Route) (c : Nat) :
    clearAll x (r :: l) c = clearAll (clearRoute x r c) l c := rfl

theorem destroyed_tobs (l : List Obs) : destroyed (tobs l) = l.filterMap destroyedOf := by
  induction l with
  | nil => rfl
  | cons o t ih =>
    cases o <;> simp [tobs, isTimerObs, destroyed, destroyedOf, List.filter_cons] at ih ⊢ <;> exact ih

/-- The outputs of closing `c` (newest first): somewhere in them, adjacent, the destruction of the
    timer of entry `r` of `c`'s own table and the shutdown answer to `r`'s requester (if the caller
    had an id); the timer of `r` is destroyed nowhere else. -/
theorem closePeer_shutdown (x : Ctx) (c : Nat) (p : Peer) (r : Route) (hw : (rs x).Wf)
    (hp : findPeer x.st.peers c = some p) (hr : r ∈ p.routes) (hne : r.requester ≠ c) :
    ∃ pre post ok,
      (closePeer x c).out =
        post ++ answerSends r.requester (shutdownAnswer r) ok ++ .timerDestroy r.timer :: pre ++ x.out ∧
      r.timer ∉ (pre ++ post).filterMap destroyedOf := by
  obtain ⟨l₁, l₂, hl⟩ := List.append_of_mem hr
  -- the flush of c's own table, cut at r
  obtain ⟨pre, hpre⟩ := outExt_clearAll x l₁ c
  have hcr : (clearRoute (clearAll x l₁ c) r c).out =
      answerSends r.requester (shutdownAnswer r) (nextSend (emit (clearAll x l₁ c) (.timerDestroy r.timer)))
        ++ .timerDestroy r.timer :: pre ++ x.out := by
    rw [clearRoute_eq, answer_out, emit_out, hpre]
    have : (r.requester == c) = false := by simpa using hne
    simp [this]
  -- everything after it only prepends
  have hrest : OutExt (clearRoute (clearAll x l₁ c) r c) (closePeer x c) := by
    unfold closePeer
    rw [freePeerResources_eq x c p hp]
    have hA : OutExt (clearRoute (clearAll x l₁ c) r c) (fprA x c p) := by
      obtain ⟨n, hn⟩ := outExt_clearAll (clearRoute (clearAll x l₁ c) r c) l₂ c
      refine ⟨n, ?_⟩
      show (clearAll x p.routes c).out = _
      rw [hl, clearAll_append, clearAll_cons]
      exact hn
    refine hA.trans ((outExt_fprB _ c).trans ((outExt_fprC _ c p).trans ?_))
    exact ⟨[.closed c], rfl⟩
  obtain ⟨post, hpost⟩ := hrest
  refine ⟨pre, post, nextSend (emit (clearAll x l₁ c) (.timerDestroy r.timer)), ?_, ?_⟩
  · rw [hpost, hcr]; simp
  · -- the timer ids destroyed by this close are pairwise distinct
    have hrs := rs_closePeer x c p hp
    have hd : destroyed (tobs (closePeer x c).out) =
        ((vCloseRoutes (x.st.peers.map pview) c).map (·.timer)).reverse ++ destroyed (tobs x.out) := by
      have := congrArg RS.tl hrs
      simp only [rs, app] at this
      rw [this, destroyed_append, destroyed_map_reverse]
    have hnd : (((vCloseRoutes (x.st.peers.map pview) c).map (·.timer)).reverse).Nodup :=
      nodup_reverse' (vCloseRoutes_timers_nodup hw c)
    rw [destroyed_tobs, destroyed_tobs, hpost, hcr] at hd
    have hsplit : (post ++ (answerSends r.requester (shutdownAnswer r)
          (nextSend (emit (clearAll x l₁ c) (.timerDestroy r.timer))) ++ .timerDestroy r.timer :: pre ++ x.out)).filterMap
          destroyedOf
        = post.filterMap destroyedOf ++ r.timer :: pre.filterMap destroyedOf ++ x.out.filterMap destroyedOf := by
      have ha : (answerSends r.requester (shutdownAnswer r)
          (nextSend (emit (clearAll x l₁ c) (.timerDestroy r.timer)))).filterMap destroyedOf = [] := by
        cases shutdownAnswer r <;> rfl
      simp [List.filterMap_append, ha, destroyedOf]
    rw [hsplit] at hd
    have hcancel := List.append_cancel_right (by simpa [List.append_assoc] using hd :
      (post.filterMap destroyedOf ++ r.timer :: pre.filterMap destroyedOf) ++ x.out.filterMap destroyedOf =
      ((vCloseRoutes (x.st.peers.map pview) c).map (·.timer)).reverse ++ x.out.filterMap destroyedOf)
    rw [← hcancel] at hnd
    rw [List.nodup_append] at hnd
    obtain ⟨_, h2, h3⟩ := hnd
    rw [List.nodup_cons] at h2
    rw [List.filterMap_append, List.mem_append]
    rintro (h | h)
    · exact h2.1 h
    · exact h3 _ h _ (List.mem_cons_self ..) rfl

end Cjet.Daemon.C03
