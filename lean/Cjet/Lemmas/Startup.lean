import Cjet.Startup
set_option linter.unusedSimpArgs false
/-!
Helper lemmas for `Cjet.Props.Startup`: Hoare-style specifications of every model function in terms
of the ledger `K.led`, the descriptor counter `K.next` and `go_ahead`.
-/
namespace Cjet.Startup

/-! ## state plumbing -/

@[simp] theorem emit_led (k : K) (e : Ev) : (k.emit e).led = step k.led e := by
  simp [K.led, K.emit, ledOf, List.foldl_append]
@[simp] theorem emit_next (k : K) (e : Ev) : (k.emit e).next = k.next := rfl
@[simp] theorem emit_goAhead (k : K) (e : Ev) : (k.emit e).goAhead = k.goAhead := rfl
@[simp] theorem emit_script (k : K) (e : Ev) : (k.emit e).script = k.script := rfl
@[simp] theorem adv_tr (k : K) : k.adv.tr = k.tr := rfl
@[simp] theorem adv_led (k : K) : k.adv.led = k.led := rfl
@[simp] theorem adv_next (k : K) : k.adv.next = k.next := rfl
@[simp] theorem adv_goAhead (k : K) : k.adv.goAhead = k.goAhead := rfl
@[simp] theorem bump_led (k : K) : k.bump.led = k.led := rfl
@[simp] theorem bump_next (k : K) : k.bump.next = k.next + 1 := rfl
@[simp] theorem bump_goAhead (k : K) : k.bump.goAhead = k.goAhead := rfl
@[simp] theorem sys_led (k : K) (mk : Bool → Ev) : (k.sys mk).2.led = step k.led (mk (k.sys mk).1) := by
  simp [K.sys]
@[simp] theorem sys_next (k : K) (mk : Bool → Ev) : (k.sys mk).2.next = k.next := rfl
@[simp] theorem sys_goAhead (k : K) (mk : Bool → Ev) : (k.sys mk).2.goAhead = k.goAhead := rfl

/-- every descriptor the ledger knows is below `n` -/
structure Below (L : Led) (n : Nat) : Prop where
  opn : ∀ fd ∈ L.opn, fd < n
  bnd : ∀ p ∈ L.bnd, p.1 < n
  lis : ∀ fd ∈ L.lis, fd < n
  reg : ∀ p ∈ L.reg, p.1 < n
  peers : ∀ p ∈ L.peers, p.1 < n

theorem Below.mono {L : Led} {n m : Nat} (h : Below L n) (hm : n ≤ m) : Below L m :=
  ⟨fun x hx => Nat.lt_of_lt_of_le (h.opn x hx) hm, fun x hx => Nat.lt_of_lt_of_le (h.bnd x hx) hm,
   fun x hx => Nat.lt_of_lt_of_le (h.lis x hx) hm, fun x hx => Nat.lt_of_lt_of_le (h.reg x hx) hm,
   fun x hx => Nat.lt_of_lt_of_le (h.peers x hx) hm⟩

theorem filter_ne_self {l : List Nat} {fd : Nat} (h : ∀ x ∈ l, x ≠ fd) : l.filter (fun x => x ≠ fd) = l := by
  rw [List.filter_eq_self]; intro x hx; simpa using h x hx

theorem filter_fst_ne_self {α : Type} {l : List (Nat × α)} {fd : Nat} (h : ∀ p ∈ l, p.1 ≠ fd) :
    l.filter (fun p => p.1 ≠ fd) = l := by
  rw [List.filter_eq_self]; intro x hx; simpa using h x hx

theorem Below.not_opn {L : Led} {n fd : Nat} (h : Below L n) (hf : n ≤ fd) : fd ∉ L.opn :=
  fun hm => by have := h.opn fd hm; omega
theorem Below.not_reg {L : Led} {n fd : Nat} (h : Below L n) (hf : n ≤ fd) : fd ∉ L.reg.map (·.1) := by
  intro hm
  obtain ⟨p, hp, rfl⟩ := List.mem_map.1 hm
  have := h.reg p hp; omega
theorem Below.not_peers {L : Led} {n fd : Nat} (h : Below L n) (hf : n ≤ fd) : fd ∉ L.peers.map (·.1) := by
  intro hm
  obtain ⟨p, hp, rfl⟩ := List.mem_map.1 hm
  have := h.peers p hp; omega
theorem Below.f_opn {L : Led} {n fd : Nat} (h : Below L n) (hf : n ≤ fd) : L.opn.filter (fun x => x ≠ fd) = L.opn :=
  filter_ne_self fun x hx => by have := h.opn x hx; omega
theorem Below.f_lis {L : Led} {n fd : Nat} (h : Below L n) (hf : n ≤ fd) : L.lis.filter (fun x => x ≠ fd) = L.lis :=
  filter_ne_self fun x hx => by have := h.lis x hx; omega
theorem Below.f_bnd {L : Led} {n fd : Nat} (h : Below L n) (hf : n ≤ fd) : L.bnd.filter (fun p => p.1 ≠ fd) = L.bnd :=
  filter_fst_ne_self fun x hx => by have := h.bnd x hx; omega
theorem Below.f_reg {L : Led} {n fd : Nat} (h : Below L n) (hf : n ≤ fd) : L.reg.filter (fun p => p.1 ≠ fd) = L.reg :=
  filter_fst_ne_self fun x hx => by have := h.reg x hx; omega

/-- descriptor `fd` was handed out and is open; `B` / `S`: its successful bind / listen -/
def Led.own (L : Led) (fd : Nat) (B : List (Nat × Target)) (S : List Nat) : Led :=
  { L with opn := fd :: L.opn, bnd := B ++ L.bnd, lis := S ++ L.lis }

/-- a listener that is up: descriptor open, bound to `t`, listening -/
def Led.withSock (L : Led) (fd : Nat) (t : Target) : Led :=
  { L with opn := fd :: L.opn, bnd := (fd, t) :: L.bnd, lis := fd :: L.lis }

theorem withSock_eq_own (L : Led) (fd : Nat) (t : Target) : L.withSock fd t = L.own fd [(fd, t)] [fd] := rfl

theorem own_socket {L : Led} {fd : Nat} (f : Fam) (h : fd ∉ L.opn) :
    step L (.socket f (some fd)) = L.own fd [] [] := by
  simp [step, h, Led.own]
@[simp] theorem own_sockopt (L : Led) (fd B S o b) : step (L.own fd B S) (.sockopt fd o b) = L.own fd B S := by
  simp [step, Led.use, Led.own]
@[simp] theorem own_fcntl (L : Led) (fd B S c b) : step (L.own fd B S) (.fcntl fd c b) = L.own fd B S := by
  simp [step, Led.use, Led.own]
@[simp] theorem own_bind (L : Led) (fd B S t b) :
    step (L.own fd B S) (.bind fd t b) = L.own fd (if b then (fd, t) :: B else B) S := by
  cases b <;> simp [step, Led.own]
@[simp] theorem own_listen (L : Led) (fd B S b) :
    step (L.own fd B S) (.listen fd b) = L.own fd B (if b then fd :: S else S) := by
  cases b <;> simp [step, Led.own]

theorem own_close {L : Led} {n fd : Nat} (hB : Below L n) (h : n ≤ fd) (B : List (Nat × Target)) (S : List Nat)
    (hB' : ∀ p ∈ B, p.1 = fd) (hS : ∀ x ∈ S, x = fd) :
    step (L.own fd B S) (.close fd) = L := by
  have e1 : B.filter (fun p => p.1 ≠ fd) = [] := by
    rw [List.filter_eq_nil_iff]; intro p hp; simp [hB' p hp]
  have e2 : S.filter (fun x => x ≠ fd) = [] := by
    rw [List.filter_eq_nil_iff]; intro p hp; simp [hS p hp]
  have h2 : ¬ ∃ x, (fd, x) ∈ L.reg := by
    have := hB.not_reg h; simpa using this
  have f1 := hB.f_opn h
  have f2 := hB.f_lis h
  have f3 := hB.f_bnd h
  simp only [ne_eq, decide_not] at e1 e2 f1 f2 f3
  simp [step, Led.own, List.filter_append, e1, e2, f1, f2, f3, h2]

theorem sys_eq (k : K) (mk : Bool → Ev) :
    ∃ b k', k.sys mk = (b, k') ∧ k'.led = step k.led (mk b) ∧ k'.next = k.next ∧ k'.goAhead = k.goAhead :=
  ⟨_, _, rfl, sys_led k mk, rfl, rfl⟩

theorem openSocket_eq (f : Fam) (k : K) (hI : Below k.led k.next) :
    ((openSocket f k).1 = none ∧ (openSocket f k).2.led = k.led ∧ (openSocket f k).2.next = k.next ∧
      (openSocket f k).2.goAhead = k.goAhead) ∨
    ((openSocket f k).1 = some k.next ∧ (openSocket f k).2.led = k.led.own k.next [] [] ∧
      (openSocket f k).2.next = k.next + 1 ∧ (openSocket f k).2.goAhead = k.goAhead) := by
  unfold openSocket
  by_cases ha : k.ans = .ok
  · right; simp [ha, own_socket f (hI.not_opn (Nat.le_refl _))]
  · left; simp [ha, step]

theorem setNonBlocking_eq (fd : Nat) (k : K) (L : Led) (B S) (hl : k.led = L.own fd B S) :
    ∃ b k', setNonBlocking fd k = (b, k') ∧ k'.led = L.own fd B S ∧ k'.next = k.next ∧ k'.goAhead = k.goAhead := by
  refine ⟨(setNonBlocking fd k).1, (setNonBlocking fd k).2, rfl, ?_⟩
  unfold setNonBlocking
  split <;> simp [hl]

theorem createPlain_spec (f : Fam) (t : Target) (k : K) (hI : Below k.led k.next) :
    k.next ≤ (createPlain f t k).2.next ∧ (createPlain f t k).2.goAhead = k.goAhead ∧
    match (createPlain f t k).1 with
    | none => (createPlain f t k).2.led = k.led
    | some fd => k.next ≤ fd ∧ fd < (createPlain f t k).2.next ∧
        (createPlain f t k).2.led = k.led.withSock fd t := by
  unfold createPlain
  rcases openSocket_eq f k hI with ⟨h1, hl, hn, hg⟩ | ⟨h1, hl, hn, hg⟩
  · rw [h1]; simp [hl, hn, hg]
  · rw [h1]; dsimp only
    generalize (openSocket f k).2 = k1 at *
    have cl := fun B S hB hS => own_close (fd := k.next) hI (Nat.le_refl _) B S hB hS
    obtain ⟨b2, k2, e2, hl2, hn2, hg2⟩ := sys_eq k1 (.sockopt k.next .reuse)
    rw [e2]; dsimp only
    rw [hl, own_sockopt] at hl2
    cases b2
    · simp [hl2, hn2, hg2, hn, hg, cl]
    · obtain ⟨b3, k3, e3, hl3, hn3, hg3⟩ := setNonBlocking_eq k.next k2 _ _ _ hl2
      rw [e3]; dsimp only
      cases b3
      · simp [hl3, hn3, hg3, hn2, hg2, hn, hg, cl]
      · obtain ⟨b4, k4, e4, hl4, hn4, hg4⟩ := sys_eq k3 (.bind k.next t)
        rw [e4]; dsimp only
        rw [hl3, own_bind] at hl4
        cases b4
        · simp at hl4; simp [hl4, hn4, hg4, hn3, hg3, hn2, hg2, hn, hg, cl]
        · obtain ⟨b5, k5, e5, hl5, hn5, hg5⟩ := sys_eq k4 (.listen k.next)
          rw [e5]; dsimp only
          rw [hl4, own_listen] at hl5
          cases b5
          · simp at hl5; simp [hl5, hn5, hg5, hn4, hg4, hn3, hg3, hn2, hg2, hn, hg, cl]
          · simp at hl5; simp [hl5, hn5, hg5, hn4, hg4, hn3, hg3, hn2, hg2, hn, hg, withSock_eq_own]

/-- postcondition of the addrinfo loop -/
def BoundPost (t : Target) (L : Led) (n0 : Nat) (g : Bool) (r : Option Nat × Bool × K) : Prop :=
  n0 ≤ r.2.2.next ∧ r.2.2.goAhead = g ∧
  (if r.2.1 = true then ∃ fd, r.1 = some fd ∧ n0 ≤ fd ∧ fd < r.2.2.next ∧ r.2.2.led = L.own fd [(fd, t)] []
   else r.2.2.led = L)

theorem boundLoop_spec (v6 : Bool) (p : Port) (L : Led) (g : Bool) :
    ∀ (n : Nat) (last : Option Nat) (k : K), Below L k.next → k.led = L → k.goAhead = g →
      BoundPost (if v6 then .lo6 p else .lo4 p) L k.next g (boundLoop v6 p n last k) := by
  intro n
  induction n with
  | zero => intro last k _ hl hg; simp [boundLoop, BoundPost, hl, hg]
  | succ n ih =>
    intro last k hI hl hg
    have hI' : Below k.led k.next := hl ▸ hI
    -- the next iteration, from a state that differs from `k` only in the counter
    have next : ∀ (last' : Option Nat) (k' : K), k'.led = L → k'.next = k.next ∨ k'.next = k.next + 1 →
        k'.goAhead = g → BoundPost (if v6 then .lo6 p else .lo4 p) L k.next g (boundLoop v6 p n last' k') := by
      intro last' k' hl' hn' hg'
      have hle : k.next ≤ k'.next := by omega
      have := ih last' k' (hI.mono hle) hl' hg'
      unfold BoundPost at this ⊢
      refine ⟨by omega, this.2.1, ?_⟩
      split
      · rename_i h
        rw [if_pos h] at this
        obtain ⟨fd, h1, h2, h3, h4⟩ := this.2.2
        exact ⟨fd, h1, by omega, h3, h4⟩
      · rename_i h
        rw [if_neg h] at this
        exact this.2.2
    unfold boundLoop
    rcases openSocket_eq (if v6 then .inet6 else .inet) k hI' with ⟨h1, hl1, hn1, hg1⟩ | ⟨h1, hl1, hn1, hg1⟩
    · rw [h1]; dsimp only
      exact next _ _ (by rw [hl1, hl]) (Or.inl hn1) (by rw [hg1, hg])
    · rw [h1]; dsimp only
      generalize (openSocket (if v6 then Fam.inet6 else Fam.inet) k).2 = k1 at *
      rw [hl] at hl1
      have cl := fun B S hB hS => own_close (fd := k.next) hI (Nat.le_refl _) B S hB hS
      obtain ⟨b2, k2, e2, hl2, hn2, hg2⟩ := sys_eq k1 (.sockopt k.next .reuse)
      rw [e2]; dsimp only
      rw [hl1, own_sockopt] at hl2
      cases b2
      · simp only [if_true]
        exact next _ _ (by simp [hl2, cl]) (Or.inr (by simp [hn2, hn1])) (by simp [hg2, hg1, hg])
      · simp only [Bool.true_eq_false, if_false]
        -- IPV6_V6ONLY
        have h6 : ∃ b6 k6, (if v6 = true then k2.sys (.sockopt k.next .v6only) else (true, k2)) = (b6, k6) ∧
            k6.led = L.own k.next [] [] ∧ k6.next = k.next + 1 ∧ k6.goAhead = g := by
          cases v6
          · exact ⟨true, k2, by simp, hl2, by rw [hn2, hn1], by rw [hg2, hg1, hg]⟩
          · obtain ⟨b, k', e, hl', hn', hg'⟩ := sys_eq k2 (.sockopt k.next .v6only)
            refine ⟨b, k', by simp [e], ?_, by rw [hn', hn2, hn1], by rw [hg', hg2, hg1, hg]⟩
            rw [hl', hl2, own_sockopt]
        obtain ⟨b6, k6, e6, hl6, hn6, hg6⟩ := h6
        rw [e6]; dsimp only
        cases b6
        · simp only [if_true]
          exact next _ _ (by simp [hl6, cl]) (Or.inr (by simp [hn6])) (by simp [hg6])
        · simp only [Bool.true_eq_false, if_false]
          obtain ⟨b3, k3, e3, hl3, hn3, hg3⟩ := setNonBlocking_eq k.next k6 _ _ _ hl6
          rw [e3]; dsimp only
          cases b3
          · simp only [if_true]
            exact next _ _ (by simp [hl3, cl]) (Or.inr (by simp [hn3, hn6])) (by simp [hg3, hg6])
          · simp only [Bool.true_eq_false, if_false]
            obtain ⟨b4, k4, e4, hl4, hn4, hg4⟩ := sys_eq k3 (.bind k.next (if v6 then .lo6 p else .lo4 p))
            rw [e4]; dsimp only
            rw [hl3, own_bind] at hl4
            cases b4
            · simp only [Bool.false_eq_true, if_false]
              simp at hl4
              exact next _ _ (by simp [hl4, cl]) (Or.inr (by simp [hn4, hn3, hn6])) (by simp [hg4, hg3, hg6])
            · simp only [if_true]
              simp at hl4
              simp only [BoundPost, if_true]
              exact ⟨by omega, by rw [hg4, hg3, hg6], k.next, rfl, Nat.le_refl _, by omega, hl4⟩

def Led.aiUp (L : Led) : Led := { L with ai := L.ai + 1 }

theorem below_aiUp {L : Led} {n : Nat} (h : Below L n) : Below L.aiUp n := ⟨h.opn, h.bnd, h.lis, h.reg, h.peers⟩
theorem step_gai_some (L : Led) (n p c) : step L (.gai n p (some c)) = L.aiUp := by simp [step, Led.aiUp]
theorem step_gai_none (L : Led) (n p) : step L (.gai n p none) = L := by simp [step]
theorem aiUp_freeai (L : Led) : step L.aiUp .freeai = L := by simp [step, Led.aiUp]
theorem aiUp_own_freeai (L : Led) (fd B S) : step (L.aiUp.own fd B S) .freeai = L.own fd B S := by
  simp [step, Led.aiUp, Led.own]

def Node.target (n : Node) (p : Port) : Target := if n = .lo6 then .lo6 p else .lo4 p

theorem createBound_spec (n : Node) (p : Port) (k : K) (hI : Below k.led k.next) :
    k.next ≤ (createBound n p k).2.next ∧ (createBound n p k).2.goAhead = k.goAhead ∧
    match (createBound n p k).1 with
    | none => (createBound n p k).2.led = k.led
    | some fd => k.next ≤ fd ∧ fd < (createBound n p k).2.next ∧
        (createBound n p k).2.led = k.led.withSock fd (n.target p) := by
  unfold createBound
  cases hg : gaiEntries k.ans with
  | none => simp [step_gai_none]
  | some cnt =>
    dsimp only
    have hb := boundLoop_spec (decide (n = .lo6)) p k.led.aiUp k.goAhead cnt none
      (k.adv.emit (.gai n p (some cnt))) (below_aiUp hI) (by simp [step_gai_some]) rfl
    generalize boundLoop (decide (n = .lo6)) p cnt none (k.adv.emit (.gai n p (some cnt))) = r at hb
    obtain ⟨last, brk, k1⟩ := r
    simp only [BoundPost, emit_next, adv_next] at hb
    obtain ⟨hn, hga, hb⟩ := hb
    dsimp only
    cases brk
    · simp only [Bool.false_eq_true, if_false] at hb
      cases last <;> simp [hn, hga, hb, aiUp_freeai]
    · simp only [if_true] at hb
      obtain ⟨fd, rfl, h1, h2, hl⟩ := hb
      dsimp only
      have ht : (if decide (n = Node.lo6) = true then Target.lo6 p else Target.lo4 p) = n.target p := by
        simp [Node.target]
      rw [ht] at hl
      obtain ⟨b, k2, e, hl2, hn2, hg2⟩ := sys_eq (k1.emit .freeai) (.listen fd)
      rw [e]; dsimp only
      rw [emit_led, hl, aiUp_own_freeai, own_listen] at hl2
      simp only [emit_next, emit_goAhead] at hn2 hg2
      cases b
      · simp at hl2
        have cl := own_close (fd := fd) hI h1 [(fd, n.target p)] [] (by simp) (by simp)
        simp [hl2, cl, hn2, hg2, hn, hga]
      · simp at hl2
        simp [hl2, hn2, hg2, hn, hga, h1, h2, withSock_eq_own]

/-! ## start_server and the first accept pass -/

def Led.addPeers (L : Led) (ps : List (Nat × Kind)) : Led := { L with peers := ps ++ L.peers }

@[simp] theorem addPeers_nil (L : Led) : L.addPeers [] = L := rfl
theorem addPeers_addPeers (L : Led) (a b) : (L.addPeers a).addPeers b = L.addPeers (b ++ a) := by
  simp [Led.addPeers]

/-- `fd` is not known to the listener part of the ledger -/
structure Fresh (L : Led) (fd : Nat) : Prop where
  opn : fd ∉ L.opn
  bnd : ∀ p ∈ L.bnd, p.1 ≠ fd
  lis : fd ∉ L.lis
  reg : fd ∉ L.reg.map (·.1)

theorem Below.fresh {L : Led} {n fd : Nat} (h : Below L n) (hf : n ≤ fd) : Fresh L fd :=
  ⟨h.not_opn hf, fun p hp => by have := h.bnd p hp; omega, fun hm => by have := h.lis fd hm; omega, h.not_reg hf⟩

theorem Fresh.addPeers {L : Led} {fd : Nat} (h : Fresh L fd) (ps) : Fresh (L.addPeers ps) fd :=
  ⟨h.opn, h.bnd, h.lis, h.reg⟩

theorem own_close' {L : Led} {fd : Nat} (hF : Fresh L fd) (B : List (Nat × Target)) (S : List Nat)
    (hB' : ∀ p ∈ B, p.1 = fd) (hS : ∀ x ∈ S, x = fd) :
    step (L.own fd B S) (.close fd) = L := by
  have e1 : B.filter (fun p => p.1 ≠ fd) = [] := by
    rw [List.filter_eq_nil_iff]; intro p hp; simp [hB' p hp]
  have e2 : S.filter (fun x => x ≠ fd) = [] := by
    rw [List.filter_eq_nil_iff]; intro p hp; simp [hS p hp]
  have h2 : ¬ ∃ x, (fd, x) ∈ L.reg := by
    have := hF.reg; simpa using this
  have f1 : L.opn.filter (fun x => x ≠ fd) = L.opn := filter_ne_self fun x hx e => hF.opn (e ▸ hx)
  have f2 : L.lis.filter (fun x => x ≠ fd) = L.lis := filter_ne_self fun x hx e => hF.lis (e ▸ hx)
  have f3 : L.bnd.filter (fun p => p.1 ≠ fd) = L.bnd := filter_fst_ne_self hF.bnd
  simp only [ne_eq, decide_not] at e1 e2 f1 f2 f3
  simp [step, Led.own, List.filter_append, e1, e2, f1, f2, f3, h2]

theorem ledOf_snoc (tr : List Ev) (e : Ev) : ledOf (tr ++ [e]) = step (ledOf tr) e := by
  simp [ledOf, List.foldl_append]
theorem ledOf_snoc2 (tr : List Ev) (e1 e2 : Ev) : ledOf (tr ++ [e1, e2]) = step (step (ledOf tr) e1) e2 := by
  simp [ledOf, List.foldl_append]

theorem step_accept {L : Led} {fd : Nat} (h : fd ∈ L.opn) (r : Acc) : step L (.accept fd r) = L := by
  simp [step, Led.use, h]

theorem step_peer {L : Led} {n : Nat} (h : Below L n) (kind : Kind) :
    step L (.peer n kind) = L.addPeers [(n, kind)] := by
  have h1 := h.not_opn (Nat.le_refl n)
  have h2 : ¬ ∃ x, (n, x) ∈ L.peers := by
    have := h.not_peers (Nat.le_refl n); simpa using this
  simp [step, h1, h2, Led.addPeers]

theorem below_addPeers {L : Led} {n m : Nat} (h : Below L n) (hm : n ≤ m) (ps : List (Nat × Kind))
    (hp : ∀ p ∈ ps, p.1 < m) : Below (L.addPeers ps) m := by
  have h' := h.mono hm
  refine ⟨h'.opn, h'.bnd, h'.lis, h'.reg, ?_⟩
  intro p hp'
  simp only [Led.addPeers, List.mem_append] at hp'
  rcases hp' with hp' | hp'
  · exact hp p hp'
  · exact h'.peers p hp'

/-- postcondition shared by everything that may accept connections: the ledger is `L` plus fresh peers -/
def PeersAdded (L : Led) (n0 n1 : Nat) (L' : Led) : Prop :=
  ∃ ps : List (Nat × Kind), L' = L.addPeers ps ∧ ∀ p ∈ ps, n0 ≤ p.1 ∧ p.1 < n1

theorem PeersAdded.refl (L : Led) (n0 n1 : Nat) : PeersAdded L n0 n1 L := ⟨[], rfl, by simp⟩

theorem PeersAdded.below {L L' : Led} {n0 n1 : Nat} (h : PeersAdded L n0 n1 L') (hB : Below L n0) (hn : n0 ≤ n1) :
    Below L' n1 := by
  obtain ⟨ps, rfl, hp⟩ := h
  exact below_addPeers hB hn ps fun p hp' => (hp p hp').2

theorem acceptLoop_spec (fd : Nat) (kind : Kind) :
    ∀ (script : List Ans) (nx : Nat) (tr : List Ev), fd ∈ (ledOf tr).opn → Below (ledOf tr) nx →
      nx ≤ (acceptLoop fd kind script nx tr).2.2.1 ∧
      PeersAdded (ledOf tr) nx (acceptLoop fd kind script nx tr).2.2.1 (ledOf (acceptLoop fd kind script nx tr).2.2.2) := by
  intro script
  induction script with
  | nil => intro nx tr hfd _; simp [acceptLoop, ledOf_snoc, step_accept hfd, PeersAdded.refl]
  | cons a rest ih =>
    intro nx tr hfd hB
    cases a with
    | ok => simp [acceptLoop, ledOf_snoc, step_accept hfd, PeersAdded.refl]
    | addrs n => simp [acceptLoop, ledOf_snoc, step_accept hfd, PeersAdded.refl]
    | fail => simp [acceptLoop, ledOf_snoc, step_accept hfd, PeersAdded.refl]
    | retry =>
      have e : ledOf (tr ++ [Ev.accept fd Acc.retry]) = ledOf tr := by rw [ledOf_snoc, step_accept hfd]
      have := ih nx (tr ++ [Ev.accept fd Acc.retry]) (e ▸ hfd) (e ▸ hB)
      rw [e] at this
      simpa [acceptLoop] using this
    | conn =>
      have e : ledOf (tr ++ [Ev.accept fd (Acc.conn nx), Ev.peer nx kind]) = (ledOf tr).addPeers [(nx, kind)] := by
        rw [ledOf_snoc2, step_accept hfd, step_peer hB]
      have hB' : Below ((ledOf tr).addPeers [(nx, kind)]) (nx + 1) :=
        below_addPeers hB (Nat.le_succ _) _ (by simp)
      have := ih (nx + 1) (tr ++ [Ev.accept fd (Acc.conn nx), Ev.peer nx kind]) (e ▸ hfd) (e ▸ hB')
      rw [e] at this
      obtain ⟨h1, ps, h2, h3⟩ := this
      simp only [acceptLoop]
      refine ⟨by omega, ps ++ [(nx, kind)], ?_, ?_⟩
      · rw [h2, addPeers_addPeers]
      · intro p hp
        simp only [List.mem_append, List.mem_singleton] at hp
        rcases hp with hp | rfl
        · have := h3 p hp; omega
        · simp; omega

theorem acceptPass_spec (fd : Nat) (kind : Kind) (k : K) (hfd : fd ∈ k.led.opn) (hB : Below k.led k.next) :
    k.next ≤ (acceptPass fd kind k).2.next ∧ (acceptPass fd kind k).2.goAhead = k.goAhead ∧
    PeersAdded k.led k.next (acceptPass fd kind k).2.next (acceptPass fd kind k).2.led := by
  have := acceptLoop_spec fd kind k.script k.next k.tr hfd hB
  exact ⟨this.1, rfl, this.2⟩

def Led.withReg (L : Led) (fd : Nat) (kind : Kind) : Led := { L with reg := (fd, kind) :: L.reg }

theorem step_add {L : Led} {fd : Nat} (hfd : fd ∈ L.opn) (hreg : fd ∉ L.reg.map (·.1)) (hup : L.loopUp = true)
    (kind : Kind) (b : Bool) : step L (.add fd kind b) = if b then L.withReg fd kind else L := by
  have h2 : ¬ ∃ x, (fd, x) ∈ L.reg := by simpa using hreg
  cases b <;> simp [step, hfd, h2, hup, Led.withReg]

theorem step_remove_head {L : Led} {fd : Nat} (hreg : fd ∉ L.reg.map (·.1)) (kind : Kind) (ps) :
    step ((L.withReg fd kind).addPeers ps) (.remove fd) = L.addPeers ps := by
  have f : L.reg.filter (fun p => p.1 ≠ fd) = L.reg :=
    filter_fst_ne_self fun p hp e => hreg (List.mem_map.2 ⟨p, hp, e⟩)
  simp only [ne_eq, decide_not] at f
  simp [step, Led.withReg, Led.addPeers, f]

theorem startServer_spec (fd : Nat) (kind : Kind) (k : K) (hfd : fd ∈ k.led.opn)
    (hreg : fd ∉ k.led.reg.map (·.1)) (hup : k.led.loopUp = true) (hB : Below k.led k.next) :
    k.next ≤ (startServer fd kind k).2.next ∧ (startServer fd kind k).2.goAhead = k.goAhead ∧
    PeersAdded (if (startServer fd kind k).1 then k.led.withReg fd kind else k.led) k.next
      (startServer fd kind k).2.next (startServer fd kind k).2.led := by
  unfold startServer
  obtain ⟨b, k2, e, hl2, hn2, hg2⟩ := sys_eq k (.add fd kind)
  rw [e]; dsimp only
  rw [step_add hfd hreg hup] at hl2
  cases b
  · simp at hl2
    simp [hl2, hn2, hg2, PeersAdded.refl]
  · simp at hl2
    simp only [Bool.true_eq_false, if_false]
    have hfd2 : fd ∈ k2.led.opn := by rw [hl2]; exact hfd
    have hB2 : Below k2.led k2.next := by
      rw [hl2, hn2]
      exact ⟨hB.opn, hB.bnd, hB.lis, fun p hp => by
        simp only [Led.withReg, List.mem_cons] at hp
        rcases hp with rfl | hp
        · exact hB.opn _ hfd
        · exact hB.reg p hp, hB.peers⟩
    obtain ⟨h1, h2, ps, h3, h4⟩ := acceptPass_spec fd kind k2 hfd2 hB2
    cases hb : (acceptPass fd kind k2).1
    · simp only [Bool.false_eq_true, if_false, emit_next, emit_goAhead, emit_led]
      refine ⟨by omega, by rw [h2, hg2], ps, ?_, by rw [← hn2]; exact h4⟩
      rw [h3, hl2, step_remove_head hreg]
    · simp only [if_true]
      exact ⟨by omega, by rw [h2, hg2], ps, by rw [h3, hl2], by rw [← hn2]; exact h4⟩

/-! ## one listener -/

theorem create_spec (l : LSpec) (k : K) (hI : Below k.led k.next) :
    k.next ≤ (l.create k).2.next ∧ (l.create k).2.goAhead = k.goAhead ∧
    match (l.create k).1 with
    | none => (l.create k).2.led = k.led
    | some fd => k.next ≤ fd ∧ fd < (l.create k).2.next ∧ (l.create k).2.led = k.led.withSock fd l.target := by
  cases l with
  | bound n p kind =>
    have := createBound_spec n p k hI
    cases n <;> exact this
  | all p kind => exact createPlain_spec .inet6 (.any p) k hI
  | uds => exact createPlain_spec .unix .udsAbstract k hI

/-- listener `l` is up on descriptor `fd` -/
def Led.up (L : Led) (l : LSpec) (fd : Nat) : Led := (L.withSock fd l.target).withReg fd l.kind

theorem below_withSock {L : Led} {n m fd : Nat} (h : Below L n) (hm : n ≤ m) (hfd : fd < m) (t : Target) :
    Below (L.withSock fd t) m := by
  have h' := h.mono hm
  refine ⟨?_, ?_, ?_, h'.reg, h'.peers⟩
  · intro x hx; simp only [Led.withSock, List.mem_cons] at hx; rcases hx with rfl | hx; exact hfd; exact h'.opn x hx
  · intro x hx; simp only [Led.withSock, List.mem_cons] at hx; rcases hx with rfl | hx; exact hfd; exact h'.bnd x hx
  · intro x hx; simp only [Led.withSock, List.mem_cons] at hx; rcases hx with rfl | hx; exact hfd; exact h'.lis x hx

theorem startListener_spec (l : LSpec) (k : K) (hB : Below k.led k.next) (hup : k.led.loopUp = true) :
    k.next ≤ (startListener l k).2.next ∧ (startListener l k).2.goAhead = k.goAhead ∧
    match (startListener l k).1 with
    | none => PeersAdded k.led k.next (startListener l k).2.next (startListener l k).2.led
    | some fd => k.next ≤ fd ∧ fd < (startListener l k).2.next ∧
        PeersAdded (k.led.up l fd) k.next (startListener l k).2.next (startListener l k).2.led := by
  unfold startListener
  have hc := create_spec l k hB
  generalize l.create k = c at hc
  obtain ⟨r, k1⟩ := c
  dsimp only at hc ⊢
  obtain ⟨hn1, hg1, hc⟩ := hc
  cases r with
  | none =>
    dsimp only at hc ⊢
    exact ⟨hn1, hg1, by rw [hc]; exact PeersAdded.refl _ _ _⟩
  | some fd =>
    dsimp only at hc ⊢
    obtain ⟨hf1, hf2, hl1⟩ := hc
    have hfd : fd ∈ k1.led.opn := by rw [hl1]; simp [Led.withSock]
    have hreg : fd ∉ k1.led.reg.map (·.1) := by rw [hl1]; exact hB.not_reg hf1
    have hup1 : k1.led.loopUp = true := by rw [hl1]; exact hup
    have hB1 : Below k1.led k1.next := by rw [hl1]; exact below_withSock hB hn1 hf2 _
    obtain ⟨h1, h2, h3⟩ := startServer_spec fd l.kind k1 hfd hreg hup1 hB1
    cases hb : (startServer fd l.kind k1).1
    · rw [hb] at h3
      simp only [Bool.false_eq_true, if_false, emit_next, emit_goAhead, emit_led] at h3 ⊢
      obtain ⟨ps, h4, h5⟩ := h3
      refine ⟨by omega, by rw [h2, hg1], ps, ?_, fun p hp => by have := h5 p hp; omega⟩
      rw [h4, hl1]
      exact own_close' (L := k.led.addPeers ps) ((hB.fresh hf1).addPeers ps) [(fd, l.target)] [fd] (by simp) (by simp)
    · rw [hb] at h3
      simp only [if_true] at h3 ⊢
      obtain ⟨ps, h4, h5⟩ := h3
      refine ⟨by omega, by rw [h2, hg1], hf1, by omega, ps, ?_, fun p hp => by have := h5 p hp; omega⟩
      rw [h4, hl1]; rfl

/-! ## all listeners: start in order, stop in reverse order -/

/-- the listeners of `acc` (newest first) are up -/
def Led.ups (L : Led) : List (LSpec × Nat) → Led
  | [] => L
  | (l, fd) :: rest => (L.ups rest).up l fd

def Led.unl (L : Led) (n : Nat) : Led := { L with unlinks := L.unlinks + n }

theorem ups_addPeers (L : Led) (ps) : ∀ acc, (L.addPeers ps).ups acc = (L.ups acc).addPeers ps
  | [] => rfl
  | (l, fd) :: rest => by simp only [Led.ups, ups_addPeers L ps rest]; rfl

theorem ups_unl (L : Led) (n) : ∀ acc, (L.unl n).ups acc = (L.ups acc).unl n
  | [] => rfl
  | (l, fd) :: rest => by simp only [Led.ups, ups_unl L n rest]; rfl

theorem ups_opn (L : Led) : ∀ acc, (L.ups acc).opn = acc.map (·.2) ++ L.opn
  | [] => rfl
  | (l, fd) :: rest => by simp [Led.ups, Led.up, Led.withSock, Led.withReg, ups_opn L rest]
theorem ups_lis (L : Led) : ∀ acc, (L.ups acc).lis = acc.map (·.2) ++ L.lis
  | [] => rfl
  | (l, fd) :: rest => by simp [Led.ups, Led.up, Led.withSock, Led.withReg, ups_lis L rest]
theorem ups_bnd (L : Led) : ∀ acc, (L.ups acc).bnd = acc.map (fun x => (x.2, x.1.target)) ++ L.bnd
  | [] => rfl
  | (l, fd) :: rest => by simp [Led.ups, Led.up, Led.withSock, Led.withReg, ups_bnd L rest]
theorem ups_reg (L : Led) : ∀ acc, (L.ups acc).reg = acc.map (fun x => (x.2, x.1.kind)) ++ L.reg
  | [] => rfl
  | (l, fd) :: rest => by simp [Led.ups, Led.up, Led.withSock, Led.withReg, ups_reg L rest]
theorem ups_peers (L : Led) : ∀ acc, (L.ups acc).peers = L.peers
  | [] => rfl
  | (l, fd) :: rest => by simp [Led.ups, Led.up, Led.withSock, Led.withReg, ups_peers L rest]
theorem ups_loopUp (L : Led) : ∀ acc, (L.ups acc).loopUp = L.loopUp
  | [] => rfl
  | (l, fd) :: rest => by simp [Led.ups, Led.up, Led.withSock, Led.withReg, ups_loopUp L rest]

theorem fresh_ups {L : Led} {fd : Nat} (h : Fresh L fd) (acc : List (LSpec × Nat)) (hn : fd ∉ acc.map (·.2)) :
    Fresh (L.ups acc) fd := by
  have hn' : ∀ x ∈ acc, x.2 ≠ fd := fun x hx e => hn (List.mem_map.2 ⟨x, hx, e⟩)
  refine ⟨?_, ?_, ?_, ?_⟩
  · rw [ups_opn]; simp only [List.mem_append, not_or]; exact ⟨hn, h.opn⟩
  · rw [ups_bnd]; intro p hp
    simp only [List.mem_append, List.mem_map] at hp
    rcases hp with ⟨x, hx, rfl⟩ | hp
    · exact hn' x hx
    · exact h.bnd p hp
  · rw [ups_lis]; simp only [List.mem_append, not_or]; exact ⟨hn, h.lis⟩
  · rw [ups_reg]; intro hm
    simp only [List.map_append, List.map_map, List.mem_append, List.mem_map, Function.comp] at hm
    rcases hm with ⟨x, hx, e⟩ | hm
    · exact hn' x hx e
    · exact h.reg (List.mem_map.2 hm)

theorem below_ups {L : Led} {n : Nat} (h : Below L n) (acc : List (LSpec × Nat)) (ha : ∀ x ∈ acc, x.2 < n) :
    Below (L.ups acc) n := by
  refine ⟨?_, ?_, ?_, ?_, ?_⟩
  · rw [ups_opn]; intro fd hf; simp only [List.mem_append, List.mem_map] at hf
    rcases hf with ⟨x, hx, rfl⟩ | hf; exact ha x hx; exact h.opn fd hf
  · rw [ups_bnd]; intro p hp; simp only [List.mem_append, List.mem_map] at hp
    rcases hp with ⟨x, hx, rfl⟩ | hp; exact ha x hx; exact h.bnd p hp
  · rw [ups_lis]; intro fd hf; simp only [List.mem_append, List.mem_map] at hf
    rcases hf with ⟨x, hx, rfl⟩ | hf; exact ha x hx; exact h.lis fd hf
  · rw [ups_reg]; intro p hp; simp only [List.mem_append, List.mem_map] at hp
    rcases hp with ⟨x, hx, rfl⟩ | hp; exact ha x hx; exact h.reg p hp
  · rw [ups_peers]; exact h.peers

def countUds (acc : List (LSpec × Nat)) : Nat := (acc.filter (fun x => x.1 = .uds)).length

theorem stopListener_spec (l : LSpec) (fd : Nat) (k : K) (L : Led) (hF : Fresh L fd) (hl : k.led = L.up l fd) :
    (stopListener l fd k).led = L.unl (if l = .uds then 1 else 0) ∧ (stopListener l fd k).next = k.next ∧
    (stopListener l fd k).goAhead = k.goAhead := by
  have f : L.reg.filter (fun p => p.1 ≠ fd) = L.reg :=
    filter_fst_ne_self fun p hp e => hF.reg (List.mem_map.2 ⟨p, hp, e⟩)
  simp only [ne_eq, decide_not] at f
  have e1 : step (L.up l fd) (.remove fd) = L.withSock fd l.target := by
    simp [step, Led.up, Led.withReg, Led.withSock, f]
  have e2 : step (L.withSock fd l.target) (.close fd) = L := by
    rw [withSock_eq_own]; exact own_close' hF _ _ (by simp) (by simp)
  unfold stopListener
  split
  · rename_i hu
    refine ⟨?_, rfl, rfl⟩
    simp only [emit_led]; rw [hl, e1, e2]; simp [step, Led.unl, hu]
  · rename_i hu
    refine ⟨?_, rfl, rfl⟩
    simp only [emit_led]; rw [hl, e1, e2]; simp [Led.unl, hu]

theorem stopAll_spec : ∀ (acc : List (LSpec × Nat)) (k : K) (L : Led), (∀ x ∈ acc, Fresh L x.2) →
    (acc.map (·.2)).Nodup → k.led = L.ups acc →
    (stopAll acc k).led = L.unl (countUds acc) ∧ (stopAll acc k).next = k.next ∧
    (stopAll acc k).goAhead = k.goAhead := by
  intro acc
  induction acc with
  | nil => intro k L _ _ hl; simp [stopAll, hl, Led.ups, Led.unl, countUds]
  | cons x rest ih =>
    intro k L hF hN hl
    obtain ⟨l, fd⟩ := x
    simp only [List.map_cons, List.nodup_cons] at hN
    have hFx : Fresh (L.ups rest) fd := fresh_ups (hF _ (List.mem_cons_self)) rest hN.1
    obtain ⟨h1, h2, h3⟩ := stopListener_spec l fd k (L.ups rest) hFx hl
    have hF' : ∀ x ∈ rest, Fresh (L.unl (if l = .uds then 1 else 0)) x.2 := fun x hx =>
      let h := hF x (List.mem_cons_of_mem _ hx); ⟨h.opn, h.bnd, h.lis, h.reg⟩
    obtain ⟨i1, i2, i3⟩ := ih (stopListener l fd k) (L.unl (if l = .uds then 1 else 0)) hF' hN.2
      (by rw [h1, ups_unl])
    simp only [stopAll]
    refine ⟨?_, by rw [i2, h2], by rw [i3, h3]⟩
    rw [i1]
    by_cases hu : l = .uds
    · simp [hu, Led.unl, countUds, List.filter_cons]; omega
    · simp [hu, Led.unl, countUds, List.filter_cons]

theorem PeersAdded.below' {L L' : Led} {n0 n1 : Nat} (h : PeersAdded L n0 n1 L') (hB : Below L n1) : Below L' n1 := by
  obtain ⟨ps, rfl, hp⟩ := h
  exact below_addPeers hB (Nat.le_refl _) ps fun p hp' => (hp p hp').2

theorem PeersAdded.trans {A B C : Led} {a b c d : Nat} (h1 : PeersAdded A a b B) (h2 : PeersAdded B c d C)
    (hac : a ≤ c) (hbd : b ≤ d) : PeersAdded A a d C := by
  obtain ⟨p1, rfl, q1⟩ := h1
  obtain ⟨p2, rfl, q2⟩ := h2
  refine ⟨p2 ++ p1, by rw [addPeers_addPeers], ?_⟩
  intro p hp
  simp only [List.mem_append] at hp
  rcases hp with hp | hp
  · have := q2 p hp; omega
  · have := q1 p hp; omega

theorem PeersAdded.up {A B : Led} {a b : Nat} (h : PeersAdded A a b B) (l : LSpec) (fd : Nat) :
    PeersAdded (A.up l fd) a b (B.up l fd) := by
  obtain ⟨ps, rfl, q⟩ := h
  exact ⟨ps, rfl, q⟩

theorem PeersAdded.loopUp {A B : Led} {a b : Nat} (h : PeersAdded A a b B) : B.loopUp = A.loopUp := by
  obtain ⟨ps, rfl, _⟩ := h; rfl

/-- the descriptors of `acc` lie in `[n0, n)` and are strictly decreasing (newest first) -/
def AccOk (acc : List (LSpec × Nat)) (n0 n : Nat) : Prop :=
  (∀ x ∈ acc, n0 ≤ x.2 ∧ x.2 < n) ∧ (acc.map (·.2)).Pairwise (· > ·)

theorem AccOk.mono {acc n0 n m} (h : AccOk acc n0 n) (hm : n ≤ m) : AccOk acc n0 m :=
  ⟨fun x hx => by have := h.1 x hx; omega, h.2⟩

theorem AccOk.cons {acc n0 n m} (h : AccOk acc n0 n) (l : LSpec) (fd : Nat) (h0 : n0 ≤ n) (h1 : n ≤ fd) (h2 : fd < m) :
    AccOk ((l, fd) :: acc) n0 m := by
  refine ⟨?_, ?_⟩
  · intro x hx
    simp only [List.mem_cons] at hx
    rcases hx with rfl | hx
    · exact ⟨by dsimp only; omega, h2⟩
    · have := h.1 x hx; omega
  · simp only [List.map_cons, List.pairwise_cons]
    refine ⟨?_, h.2⟩
    intro y hy
    obtain ⟨x, hx, rfl⟩ := List.mem_map.1 hy
    have := h.1 x hx; omega

theorem AccOk.nodup {acc n0 n} (h : AccOk acc n0 n) : (acc.map (·.2)).Nodup :=
  h.2.imp (fun hab => by omega)

theorem startAll_spec (L0 : Led) (n0 : Nat) (hB0 : Below L0 n0) (hup : L0.loopUp = true) :
    ∀ (ls : List LSpec) (k : K) (acc : List (LSpec × Nat)), n0 ≤ k.next → AccOk acc n0 k.next →
      PeersAdded (L0.ups acc) n0 k.next k.led →
      k.next ≤ (startAll ls k acc).2.2.next ∧ (startAll ls k acc).2.2.goAhead = k.goAhead ∧
      AccOk (startAll ls k acc).1 n0 (startAll ls k acc).2.2.next ∧
      PeersAdded (L0.ups (startAll ls k acc).1) n0 (startAll ls k acc).2.2.next (startAll ls k acc).2.2.led ∧
      ∃ m, m ≤ ls.length ∧ (startAll ls k acc).1.map (·.1) = (ls.take m).reverse ++ acc.map (·.1) ∧
        ((startAll ls k acc).2.1 = true ↔ m = ls.length) := by
  intro ls
  induction ls with
  | nil =>
    intro k acc _ hA hP
    exact ⟨Nat.le_refl _, rfl, hA, hP, 0, Nat.le_refl _, by simp [startAll], by simp [startAll]⟩
  | cons l ls ih =>
    intro k acc hn hA hP
    have hBk : Below k.led k.next :=
      hP.below' (below_ups (hB0.mono hn) acc fun x hx => (hA.1 x hx).2)
    have hupk : k.led.loopUp = true := by rw [hP.loopUp, ups_loopUp]; exact hup
    have hs := startListener_spec l k hBk hupk
    unfold startAll
    generalize startListener l k = r at hs
    obtain ⟨o, k1⟩ := r
    dsimp only at hs ⊢
    obtain ⟨h1, h2, h3⟩ := hs
    cases o with
    | none =>
      dsimp only at h3 ⊢
      exact ⟨h1, h2, hA.mono h1, hP.trans h3 hn h1, 0, Nat.zero_le _, by simp, by simp⟩
    | some fd =>
      dsimp only at h3 ⊢
      obtain ⟨hf1, hf2, h3⟩ := h3
      have hA' : AccOk ((l, fd) :: acc) n0 k1.next := hA.cons l fd hn hf1 hf2
      have hP' : PeersAdded (L0.ups ((l, fd) :: acc)) n0 k1.next k1.led :=
        (hP.up l fd).trans h3 hn h1
      obtain ⟨i1, i2, i3, i4, m, i5, i6, i7⟩ := ih k1 ((l, fd) :: acc) (by omega) hA' hP'
      refine ⟨by omega, by rw [i2, h2], i3, i4, m + 1, by simp; omega, ?_, ?_⟩
      · rw [i6]; simp
      · rw [i7]; simp

/-! ## run_jet, the two run_io_* functions -/

def Led.setPeers (L : Led) (P : List (Nat × Kind)) : Led := { L with peers := P }

theorem ups_setPeers (L : Led) (P) : ∀ acc, (L.setPeers P).ups acc = (L.ups acc).setPeers P
  | [] => rfl
  | (l, fd) :: rest => by simp only [Led.ups, ups_setPeers L P rest]; rfl

theorem setPeers_self (L : Led) : L.setPeers L.peers = L := rfl

theorem filter_kinds (P : List (Nat × Kind)) :
    (P.filter (fun p => p.2 ≠ .jet)).filter (fun p => p.2 ≠ .http) = [] := by
  rw [List.filter_filter, List.filter_eq_nil_iff]
  intro p _
  cases h : p.2 <;> simp [h]

theorem dropPrivileges_spec (k : K) :
    (dropPrivileges k).2.led = k.led ∧ (dropPrivileges k).2.next = k.next ∧ (dropPrivileges k).2.goAhead = k.goAhead := by
  unfold dropPrivileges
  dsimp only
  split
  · simp [step]
  · split <;> simp [step]

theorem runJet_spec (c : Cfg) (k : K) :
    (runJet c k).2.next = k.next ∧ (runJet c k).2.goAhead = k.goAhead ∧
    (runJet c k).2.led = k.led.setPeers (match (runJet c k).1 with | .ran _ => [] | _ => k.led.peers) := by
  unfold runJet
  have hp : ∃ b kp, (if c.user = true then dropPrivileges k else (true, k)) = (b, kp) ∧ kp.led = k.led ∧
      kp.next = k.next ∧ kp.goAhead = k.goAhead := by
    cases c.user
    · exact ⟨true, k, by simp, rfl, rfl, rfl⟩
    · have := dropPrivileges_spec k
      exact ⟨(dropPrivileges k).1, (dropPrivileges k).2, by simp, this.1, this.2.1, this.2.2⟩
  obtain ⟨bp, kp, ep, hl, hn, hg⟩ := hp
  rw [ep]; dsimp only
  cases bp
  · simp [hl, hn, hg, setPeers_self]
  · simp only [Bool.true_eq_false, if_false]
    have hd : ∃ b kd, (if c.foreground = true then (true, kp) else kp.sys .daemon) = (b, kd) ∧ kd.led = k.led ∧
        kd.next = k.next ∧ kd.goAhead = k.goAhead := by
      cases c.foreground
      · exact ⟨(kp.sys .daemon).1, (kp.sys .daemon).2, by simp, by simp [step, hl], by simp [hn], by simp [hg]⟩
      · exact ⟨true, kp, by simp, hl, hn, hg⟩
    obtain ⟨bd, kd, ed, hl2, hn2, hg2⟩ := hd
    rw [ed]; dsimp only
    cases bd
    · simp [hl2, hn2, hg2, setPeers_self]
    · simp only [Bool.true_eq_false, if_false, emit_next, emit_goAhead, emit_led, sys_next, sys_goAhead, sys_led]
      refine ⟨hn2, hg2, ?_⟩
      rw [hl2]
      have fk := filter_kinds k.led.peers
      simp only [ne_eq, decide_not] at fk
      simp [step, Led.setPeers, fk]

theorem addPeers_ups_eq (L : Led) (acc) (ps) :
    (L.ups acc).addPeers ps = (L.setPeers (ps ++ L.peers)).ups acc := by
  rw [ups_setPeers]; simp [Led.addPeers, Led.setPeers, ups_peers]

theorem addPeers_setPeers (L : Led) (ps P) : (L.addPeers ps).setPeers P = L.setPeers P := rfl

def udsIn (ls : List LSpec) : Nat := (ls.filter (fun l => l = .uds)).length

theorem countUds_eq (acc : List (LSpec × Nat)) : countUds acc = udsIn (acc.map (·.1)) := by
  simp [countUds, udsIn, List.filter_map, Function.comp_def]

theorem udsIn_reverse (ls : List LSpec) : udsIn ls.reverse = udsIn ls := by
  simp [udsIn, List.filter_reverse]

/-- the ledger when run_io_only_local / run_io_all_interfaces returns -/
theorem runServers_spec (c : Cfg) (ls : List LSpec) (k : K) (hB : Below k.led k.next) (hup : k.led.loopUp = true) :
    k.next ≤ (runServers c ls k).2.next ∧ (runServers c ls k).2.goAhead = k.goAhead ∧
    match (runServers c ls k).1 with
    | .startFailed m => m < ls.length ∧
        PeersAdded (k.led.unl (udsIn (ls.take m))) k.next (runServers c ls k).2.next (runServers c ls k).2.led
    | .jet (.ran _) => (runServers c ls k).2.led = (k.led.unl (udsIn ls)).setPeers []
    | .jet _ => PeersAdded (k.led.unl (udsIn ls)) k.next (runServers c ls k).2.next (runServers c ls k).2.led := by
  unfold runServers startPhase
  have hs := startAll_spec k.led k.next hB hup ls k [] (Nat.le_refl _) ⟨by simp, by simp⟩ (PeersAdded.refl _ _ _)
  generalize startAll ls k [] = r at hs
  obtain ⟨acc, okk, k1⟩ := r
  dsimp only at hs ⊢
  obtain ⟨h1, h2, hA, ⟨ps, hl1, hps⟩, m, hm, hacc, hiff⟩ := hs
  simp only [List.map_nil, List.append_nil] at hacc
  have hF : ∀ (P : List (Nat × Kind)), ∀ x ∈ acc, Fresh (k.led.setPeers P) x.2 := fun P x hx =>
    let h := hB.fresh (hA.1 x hx).1; ⟨h.opn, h.bnd, h.lis, h.reg⟩
  have hcnt : countUds acc = udsIn (ls.take m) := by rw [countUds_eq, hacc, udsIn_reverse]
  have hlen : acc.length = m := by
    have := congrArg List.length hacc
    simp at this; omega
  cases okk
  · -- a listener failed
    have hm' : m < ls.length := by
      rcases Nat.lt_or_ge m ls.length with h | h
      · exact h
      · exact absurd (hiff.2 (by omega)) (by simp)
    simp only [Bool.false_eq_true, if_false]
    obtain ⟨s1, s2, s3⟩ := stopAll_spec acc k1 (k.led.setPeers (ps ++ k.led.peers)) (hF _) hA.nodup
      (by rw [hl1, addPeers_ups_eq])
    refine ⟨by rw [s2]; exact h1, by rw [s3, h2], by rw [hlen]; exact hm', ps, ?_, ?_⟩
    · rw [s1, hcnt, hlen]; rfl
    · rw [s2]; exact hps
  · have hm' : m = ls.length := hiff.1 rfl
    simp only [if_true]
    obtain ⟨j1, j2, j3⟩ := runJet_spec c k1
    have htake : ls.take m = ls := by rw [hm']; exact List.take_length
    rw [htake] at hcnt
    generalize runJet c k1 = rj at j1 j2 j3
    obtain ⟨e, k2⟩ := rj
    dsimp only at j1 j2 j3 ⊢
    have stop := fun P (h : k2.led = (k.led.setPeers P).ups acc) => stopAll_spec acc k2 (k.led.setPeers P) (hF P) hA.nodup h
    cases e with
    | ran b =>
      dsimp only at j3 ⊢
      obtain ⟨s1, s2, s3⟩ := stop [] (by rw [j3, hl1, addPeers_setPeers, ups_setPeers])
      exact ⟨by rw [s2, j1]; exact h1, by rw [s3, j2, h2], by rw [s1, hcnt]; rfl⟩
    | privFailed =>
      dsimp only at j3 ⊢
      obtain ⟨s1, s2, s3⟩ := stop (ps ++ k.led.peers) (by rw [j3, setPeers_self, hl1, addPeers_ups_eq])
      exact ⟨by rw [s2, j1]; exact h1, by rw [s3, j2, h2], ps, by rw [s1, hcnt]; rfl, by rw [s2, j1]; exact hps⟩
    | daemonFailed =>
      dsimp only at j3 ⊢
      obtain ⟨s1, s2, s3⟩ := stop (ps ++ k.led.peers) (by rw [j3, setPeers_self, hl1, addPeers_ups_eq])
      exact ⟨by rw [s2, j1]; exact h1, by rw [s3, j2, h2], ps, by rw [s1, hcnt]; rfl, by rw [s2, j1]; exact hps⟩

/-! ## run_io -/

theorem registerSignals_spec (restore : Bool) (k : K) (ht : k.led.term = .dfl) (hi : k.led.int = .dfl) :
    (registerSignals restore k).2.next = k.next ∧ (registerSignals restore k).2.goAhead = k.goAhead ∧
    if (registerSignals restore k).1 = true then
      (registerSignals restore k).2.led = { k.led with term := .handler, int := .handler, pipe := .ign }
    else (registerSignals restore k).2.led = k.led ∨
      (restore = false ∧ (registerSignals restore k).2.led = { k.led with term := .handler, int := .handler } ∧
        Ev.signal .pipe .ign false ∈ (registerSignals restore k).2.tr) := by
  unfold registerSignals
  obtain ⟨b1, k1, e1, hl1, hn1, hg1⟩ := sys_eq k (.signal .term .handler)
  rw [e1]; dsimp only
  cases b1
  · simp [hl1, hn1, hg1, step]
  · simp only [Bool.true_eq_false, if_false]
    obtain ⟨b2, k2, e2, hl2, hn2, hg2⟩ := sys_eq k1 (.signal .int .handler)
    rw [e2]; dsimp only
    cases b2
    · simp only [if_true, Bool.false_eq_true, if_false, emit_next, emit_goAhead, emit_led]
      refine ⟨by rw [hn2, hn1], by rw [hg2, hg1], Or.inl ?_⟩
      rw [hl2, hl1]
      simp only [step, Led.setSig, if_true, Bool.false_eq_true, if_false]
      rw [← ht]
    · simp only [Bool.true_eq_false, if_false]
      have e3 : (k2.sys (.signal .pipe .ign)).2.tr = k2.adv.tr ++ [Ev.signal .pipe .ign (k2.sys (.signal .pipe .ign)).1] := rfl
      obtain ⟨b3, k3, e3', hl3, hn3, hg3⟩ := sys_eq k2 (.signal .pipe .ign)
      rw [e3'] at e3 ⊢; dsimp only at e3 ⊢
      cases b3
      · simp only [if_true, Bool.false_eq_true, if_false]
        cases restore
        · simp only [Bool.false_eq_true, if_false]
          refine ⟨by rw [hn3, hn2, hn1], by rw [hg3, hg2, hg1], Or.inr ⟨trivial, ?_, by rw [e3]; simp⟩⟩
          rw [hl3, hl2, hl1]; simp [step, Led.setSig]
        · simp only [if_true, emit_next, emit_goAhead, emit_led]
          refine ⟨by rw [hn3, hn2, hn1], by rw [hg3, hg2, hg1], Or.inl ?_⟩
          rw [hl3, hl2, hl1]
          simp only [step, Led.setSig, if_true, Bool.false_eq_true, if_false]
          generalize k.led = L at ht hi ⊢
          cases L
          simp_all
      · simp only [Bool.true_eq_false, if_false, if_true]
        refine ⟨by rw [hn3, hn2, hn1], by rw [hg3, hg2, hg1], ?_⟩
        rw [hl3, hl2, hl1]; simp [step, Led.setSig]

/-- the ledger at return of run_io: only the SIGPIPE disposition, leaked peers and the unlink count differ
    from the initial one -/
def finalLed (ps : List (Nat × Kind)) (u : Nat) : Led := { pipe := .ign, peers := ps, unlinks := u }

theorem runIo_spec (c : Cfg) (k : K) (hl : k.led = {}) :
    match (runIo c k).1 with
    | .signalFailed => (runIo c k).2.goAhead = k.goAhead ∧
        ((runIo c k).2.led = {} ∨
          (c.code.restoreOnPipeFail = false ∧ (runIo c k).2.led = { term := .handler, int := .handler } ∧
            Ev.signal .pipe .ign false ∈ (runIo c k).2.tr))
    | .initFailed => (runIo c k).2.goAhead = false ∧ (runIo c k).2.led = finalLed [] 0
    | .servers (.startFailed m) => (runIo c k).2.goAhead = k.goAhead ∧ m < (listeners c).length ∧
        ∃ ps, (runIo c k).2.led = finalLed ps (udsIn ((listeners c).take m)) ∧ (c.code.destroyAtEnd = true → ps = [])
    | .servers (.jet (.ran _)) => (runIo c k).2.goAhead = k.goAhead ∧
        (runIo c k).2.led = finalLed [] (udsIn (listeners c))
    | .servers (.jet _) => (runIo c k).2.goAhead = k.goAhead ∧
        ∃ ps, (runIo c k).2.led = finalLed ps (udsIn (listeners c)) ∧ (c.code.destroyAtEnd = true → ps = []) := by
  unfold runIo
  have hs := registerSignals_spec c.code.restoreOnPipeFail k (by rw [hl]) (by rw [hl])
  generalize registerSignals c.code.restoreOnPipeFail k = r at hs
  obtain ⟨bs, ks⟩ := r
  dsimp only at hs ⊢
  obtain ⟨hn, hg, hs⟩ := hs
  cases bs
  · simp only [Bool.false_eq_true, if_false] at hs
    simp only [if_true]
    rw [hl] at hs
    exact ⟨hg, hs⟩
  · simp only [if_true] at hs
    simp only [Bool.true_eq_false, if_false]
    rw [hl] at hs
    obtain ⟨bi, ki, ei, hli, hni, hgi⟩ := sys_eq ks .init
    rw [ei]; dsimp only
    rw [hs] at hli
    cases bi
    · simp only [if_true]
      refine ⟨rfl, ?_⟩
      simp only [unregisterSignals, emit_led]
      show step (step ki.led _) _ = _
      rw [hli]; simp [step, Led.setSig, finalLed]
    · simp only [Bool.true_eq_false, if_false]
      have hBi : Below ki.led ki.next := by rw [hli]; constructor <;> simp [step]
      have hupi : ki.led.loopUp = true := by rw [hli]; simp [step]
      have hr := runServers_spec c (listeners c) ki hBi hupi
      generalize runServers c (listeners c) ki = rr at hr
      obtain ⟨e, kr⟩ := rr
      dsimp only at hr ⊢
      obtain ⟨_, hgr, hr⟩ := hr
      have hgo : (finish c kr).goAhead = k.goAhead := by
        have : (finish c kr).goAhead = kr.goAhead := by unfold finish; split <;> rfl
        rw [this, hgr, hgi, hg]
      have fin : ∀ (ps : List (Nat × Kind)) (u : Nat), kr.led = (ki.led.unl u).setPeers ps →
          (finish c kr).led = finalLed (if c.code.destroyAtEnd then [] else ps) u := by
        intro ps u h
        have fk := filter_kinds ps
        simp only [ne_eq, decide_not] at fk
        unfold finish
        split
        · simp only [unregisterSignals, emit_led]
          rw [h, hli]; simp [step, Led.setSig, finalLed, Led.unl, Led.setPeers, fk]
        · simp only [unregisterSignals, emit_led]
          rw [h, hli]; simp [step, Led.setSig, finalLed, Led.unl, Led.setPeers]
      have hp0 : ki.led.peers = [] := by rw [hli]; simp [step]
      have fin' : ∀ (u : Nat) (n0 n1 : Nat), PeersAdded (ki.led.unl u) n0 n1 kr.led →
          ∃ ps, (finish c kr).led = finalLed ps u ∧ (c.code.destroyAtEnd = true → ps = []) := by
        intro u n0 n1 ⟨ps, h, _⟩
        refine ⟨_, fin ps u ?_, fun hd => by simp [hd]⟩
        rw [h]; simp [Led.addPeers, Led.setPeers, Led.unl, hp0]
      cases e with
      | startFailed m =>
        dsimp only at hr ⊢
        exact ⟨hgo, hr.1, fin' _ _ _ hr.2⟩
      | jet j =>
        cases j with
        | ran b =>
          dsimp only at hr ⊢
          refine ⟨hgo, ?_⟩
          rw [fin [] _ hr]; simp
        | privFailed => dsimp only at hr ⊢; exact ⟨hgo, fin' _ _ _ hr⟩
        | daemonFailed => dsimp only at hr ⊢; exact ⟨hgo, fin' _ _ _ hr⟩

/-! ## the violation counters never decrease; descriptors opened = descriptors closed -/

theorem step_mono (L : Led) (e : Ev) :
    L.dbl ≤ (step L e).dbl ∧ L.early ≤ (step L e).early ∧ L.misuse ≤ (step L e).misuse ∧
    L.regbad ≤ (step L e).regbad := by
  cases e <;> simp only [step, Led.use, Led.setSig] <;> (repeat' split) <;> simp <;> (try omega)

theorem foldl_mono (tr : List Ev) : ∀ (L : Led),
    L.dbl ≤ (tr.foldl step L).dbl ∧ L.early ≤ (tr.foldl step L).early ∧ L.misuse ≤ (tr.foldl step L).misuse ∧
    L.regbad ≤ (tr.foldl step L).regbad := by
  induction tr with
  | nil => intro L; simp
  | cons e tr ih =>
    intro L
    have h1 := step_mono L e
    have h2 := ih (step L e)
    simp only [List.foldl_cons]
    omega

/-- violation counters of a prefix are bounded by those of the whole trace -/
theorem prefix_counters (pre post : List Ev) :
    (ledOf pre).dbl ≤ (ledOf (pre ++ post)).dbl ∧ (ledOf pre).early ≤ (ledOf (pre ++ post)).early ∧
    (ledOf pre).misuse ≤ (ledOf (pre ++ post)).misuse ∧ (ledOf pre).regbad ≤ (ledOf (pre ++ post)).regbad := by
  have := foldl_mono post (ledOf pre)
  simpa [ledOf, List.foldl_append] using this

def opens (fd : Nat) (tr : List Ev) : Nat := (tr.filter (fun e => match e with | .socket _ (some x) => x = fd | _ => false)).length
def closes (fd : Nat) (tr : List Ev) : Nat := (tr.filter (fun e => e = .close fd)).length

def ind (fd : Nat) (l : List Nat) : Nat := if fd ∈ l then 1 else 0

theorem counts_step (fd : Nat) (L : Led) (e : Ev) (hd : (step L e).dbl = L.dbl) (hm : (step L e).misuse = L.misuse) :
    opens fd [e] + ind fd L.opn = closes fd [e] + ind fd (step L e).opn ∧
    (L.opn.Nodup → (step L e).opn.Nodup) := by
  cases e with
  | socket f o =>
    cases o with
    | none => simp [opens, closes, step]
    | some x =>
      by_cases hx : x ∈ L.opn
      · simp [step, hx] at hm
      · by_cases hfd : x = fd
        · subst hfd; simp [opens, closes, step, hx, ind]
        · have : fd ≠ x := fun h => hfd h.symm
          simp [opens, closes, step, hx, hfd, this, ind]
  | close x =>
    by_cases hx : x ∈ L.opn
    · by_cases hfd : x = fd
      · subst hfd
        simp only [opens, closes, step, hx, ind, if_true]
        refine ⟨?_, fun h => h.filter _⟩
        simp
      · have h2 : fd ≠ x := fun h => hfd h.symm
        have h3 : Ev.close x ≠ Ev.close fd := by simp [hfd]
        simp only [opens, closes, step, hx, ind, if_true]
        refine ⟨?_, fun h => h.filter _⟩
        simp [h3, List.mem_filter, h2]
    · simp [step, hx] at hd
  | _ => simp only [step, Led.use, Led.setSig] <;> (repeat' split) <;> simp [opens, closes] <;> (try rfl)

theorem counts_foldl (fd : Nat) (tr : List Ev) : ∀ (L : Led), (tr.foldl step L).dbl = L.dbl →
    (tr.foldl step L).misuse = L.misuse → L.opn.Nodup →
    opens fd tr + ind fd L.opn = closes fd tr + ind fd (tr.foldl step L).opn ∧ (tr.foldl step L).opn.Nodup := by
  induction tr with
  | nil => intro L _ _ h; simp [opens, closes, h]
  | cons e tr ih =>
    intro L hd hm hN
    simp only [List.foldl_cons] at hd hm ⊢
    have m1 := step_mono L e
    have m2 := foldl_mono tr (step L e)
    have hd1 : (step L e).dbl = L.dbl := by omega
    have hm1 : (step L e).misuse = L.misuse := by omega
    obtain ⟨c1, c2⟩ := counts_step fd L e hd1 hm1
    obtain ⟨i1, i2⟩ := ih (step L e) (by omega) (by omega) (c2 hN)
    refine ⟨?_, i2⟩
    have o : opens fd (e :: tr) = opens fd [e] + opens fd tr := by
      show opens fd ([e] ++ tr) = _
      unfold opens; rw [List.filter_append, List.length_append]
    have c : closes fd (e :: tr) = closes fd [e] + closes fd tr := by
      show closes fd ([e] ++ tr) = _
      unfold closes; rw [List.filter_append, List.length_append]
    omega

/-- for a trace the ledger accepts (no double close, no misuse) that leaves nothing open:
    every descriptor number is closed exactly as often as it was handed out -/
theorem opens_eq_closes (tr : List Ev) (hd : (ledOf tr).dbl = 0) (hm : (ledOf tr).misuse = 0)
    (ho : (ledOf tr).opn = []) (fd : Nat) : opens fd tr = closes fd tr := by
  have := (counts_foldl fd tr {} (by simpa [ledOf] using hd) (by simpa [ledOf] using hm) (by simp)).1
  have ho' : (tr.foldl step {}).opn = [] := ho
  simp [ind, ho'] at this
  exact this

/-! ## the boot phase and the order of shutdown -/

/-- the ledger when signal handlers are installed and the loop is up -/
def bootLed : Led := { term := .handler, int := .handler, pipe := .ign, loopUp := true }

theorem bootPhase_spec (c : Cfg) (k : K) (hl : k.led = {}) (acc : List (LSpec × Nat)) (okk : Bool) (k1 : K)
    (hb : bootPhase c k = some (acc, okk, k1)) :
    k.next ≤ k1.next ∧ k1.goAhead = k.goAhead ∧ AccOk acc k.next k1.next ∧
    PeersAdded (bootLed.ups acc) k.next k1.next k1.led ∧
    ∃ m, m ≤ (listeners c).length ∧ acc.map (·.1) = ((listeners c).take m).reverse ∧
      (okk = true ↔ m = (listeners c).length) := by
  unfold bootPhase at hb
  have hs := registerSignals_spec c.code.restoreOnPipeFail k (by rw [hl]) (by rw [hl])
  generalize registerSignals c.code.restoreOnPipeFail k = r at hs hb
  obtain ⟨bs, ks⟩ := r
  dsimp only at hs hb
  obtain ⟨hn, hg, hs⟩ := hs
  cases bs
  · simp at hb
  · simp only [if_true] at hs
    simp only [Bool.true_eq_false, if_false] at hb
    obtain ⟨bi, ki, ei, hli, hni, hgi⟩ := sys_eq ks .init
    rw [ei] at hb; dsimp only at hb
    rw [hs, hl] at hli
    cases bi
    · simp at hb
    · simp only [Bool.true_eq_false, if_false, Option.some.injEq] at hb
      have hli' : ki.led = bootLed := by rw [hli]; simp [step, bootLed]
      have hB : Below ki.led ki.next := by rw [hli']; constructor <;> simp [bootLed]
      have := startAll_spec ki.led ki.next hB (by rw [hli']; rfl) (listeners c) ki [] (Nat.le_refl _)
        ⟨by simp, by simp⟩ (PeersAdded.refl _ _ _)
      unfold startPhase at hb
      rw [hb] at this
      dsimp only at this
      obtain ⟨t1, t2, t3, t4, m, t5, t6, t7⟩ := this
      rw [hli'] at t4
      rw [hni, hn] at t1 t3 t4
      exact ⟨t1, by rw [t2, hgi, hg], t3, t4, m, t5, by simpa using t6, t7⟩

theorem runIo_of_boot_none (c : Cfg) (k : K) (hb : bootPhase c k = none) :
    (runIo c k).1 = .signalFailed ∨ (runIo c k).1 = .initFailed := by
  unfold bootPhase at hb
  unfold runIo
  dsimp only
  split
  · exact Or.inl rfl
  · rename_i h1
    rw [if_neg h1] at hb
    split
    · exact Or.inr rfl
    · rename_i h2
      rw [if_neg h2] at hb
      simp at hb

theorem runIo_of_boot_some (c : Cfg) (k : K) (acc : List (LSpec × Nat)) (okk : Bool) (k1 : K)
    (hb : bootPhase c k = some (acc, okk, k1)) :
    runIo c k =
      if okk then (.servers (.jet (runJet c k1).1), finish c (stopAll acc (runJet c k1).2))
      else (.servers (.startFailed acc.length), finish c (stopAll acc k1)) := by
  unfold bootPhase at hb
  unfold runIo runServers
  dsimp only
  split
  · rename_i h1; rw [if_pos h1] at hb; simp at hb
  · rename_i h1
    rw [if_neg h1] at hb
    split
    · rename_i h2; rw [if_pos h2] at hb; simp at hb
    · rename_i h2
      rw [if_neg h2] at hb
      simp only [Option.some.injEq] at hb
      rw [hb]
      cases okk <;> simp

/-- what the fall-through chain of stop calls does, newest listener first -/
def stopEvents : List (LSpec × Nat) → List Ev
  | [] => []
  | (l, fd) :: rest => [.remove fd, .close fd] ++ (if l = .uds then [.unlinkUds] else []) ++ stopEvents rest

theorem stopAll_tr : ∀ (acc : List (LSpec × Nat)) (k : K), (stopAll acc k).tr = k.tr ++ stopEvents acc
  | [], k => by simp [stopAll, stopEvents]
  | (l, fd) :: rest, k => by
    rw [stopAll, stopAll_tr rest, stopEvents]
    unfold stopListener
    split <;> simp [K.emit, *]

theorem sys_eq_tr (k : K) (mk : Bool → Ev) : ∃ b k', k.sys mk = (b, k') ∧ k'.tr = k.tr ++ [mk b] :=
  ⟨_, _, rfl, rfl⟩

theorem dropPrivileges_tr (k : K) (h : (dropPrivileges k).1 = true) :
    (dropPrivileges k).2.tr = k.tr ++ [.getpwnam true, .setgid true, .setuid true] := by
  unfold dropPrivileges at h ⊢
  obtain ⟨b1, k1, e1, t1⟩ := sys_eq_tr k .getpwnam
  rw [e1] at h ⊢; dsimp only at h ⊢
  cases b1
  · simp at h
  · simp only [Bool.true_eq_false, if_false] at h ⊢
    obtain ⟨b2, k2, e2, t2⟩ := sys_eq_tr k1 .setgid
    rw [e2] at h ⊢; dsimp only at h ⊢
    cases b2
    · simp at h
    · simp only [Bool.true_eq_false, if_false] at h ⊢
      obtain ⟨b3, k3, e3, t3⟩ := sys_eq_tr k2 .setuid
      rw [e3] at h ⊢; dsimp only at h ⊢
      subst h
      rw [t3, t2, t1]; simp

theorem runJet_tr (c : Cfg) (k : K) (b : Bool) (h : (runJet c k).1 = .ran b) :
    ∃ mid : List Ev, (runJet c k).2.tr = k.tr ++ mid ++ [.run b, .destroyPeers, .destroyConns] ∧
      ∀ e ∈ mid, e = .getpwnam true ∨ e = .setgid true ∨ e = .setuid true ∨ e = .daemon true := by
  unfold runJet at h ⊢
  have hp : ∃ bp kp, (if c.user = true then dropPrivileges k else (true, k)) = (bp, kp) ∧
      (bp = true → ∃ m1, kp.tr = k.tr ++ m1 ∧ ∀ e ∈ m1, e = .getpwnam true ∨ e = .setgid true ∨ e = .setuid true) := by
    cases c.user
    · exact ⟨true, k, by simp, fun _ => ⟨[], by simp, by simp⟩⟩
    · refine ⟨(dropPrivileges k).1, (dropPrivileges k).2, by simp, fun hb => ⟨_, dropPrivileges_tr k hb, by simp⟩⟩
  obtain ⟨bp, kp, ep, hp⟩ := hp
  rw [ep] at h ⊢; dsimp only at h ⊢
  cases bp
  · simp at h
  · simp only [Bool.true_eq_false, if_false] at h ⊢
    obtain ⟨m1, t1, q1⟩ := hp rfl
    have hd : ∃ bd kd, (if c.foreground = true then (true, kp) else kp.sys .daemon) = (bd, kd) ∧
        (bd = true → ∃ m2, kd.tr = kp.tr ++ m2 ∧ ∀ e ∈ m2, e = .daemon true) := by
      cases c.foreground
      · obtain ⟨b, k', e, t⟩ := sys_eq_tr kp .daemon
        exact ⟨b, k', by simp [e], fun hb => ⟨_, t, by simp [hb]⟩⟩
      · exact ⟨true, kp, by simp, fun _ => ⟨[], by simp, by simp⟩⟩
    obtain ⟨bd, kd, ed, hd⟩ := hd
    rw [ed] at h ⊢; dsimp only at h ⊢
    cases bd
    · simp at h
    · simp only [Bool.true_eq_false, if_false] at h ⊢
      obtain ⟨m2, t2, q2⟩ := hd rfl
      obtain ⟨br, kr, er, tr⟩ := sys_eq_tr kd .run
      rw [er] at h ⊢; dsimp only at h ⊢
      simp only [JetEnd.ran.injEq] at h
      subst h
      refine ⟨m1 ++ m2, ?_, ?_⟩
      · simp [K.emit, tr, t2, t1]
      · intro e he
        simp only [List.mem_append] at he
        rcases he with he | he
        · rcases q1 e he with h | h | h <;> simp [h]
        · simp [q2 e he]

theorem udsIn_listeners (c : Cfg) : udsIn (listeners c) = 1 := by
  obtain ⟨l, u, f⟩ := c
  cases l <;> rfl

theorem udsIn_take (c : Cfg) (m : Nat) (h : m < (listeners c).length) : udsIn ((listeners c).take m) = 0 := by
  obtain ⟨l, u, f⟩ := c
  cases l
  · have h' : m < 3 := h
    have : m = 0 ∨ m = 1 ∨ m = 2 := by omega
    rcases this with rfl | rfl | rfl <;> rfl
  · have h' : m < 5 := h
    have : m = 0 ∨ m = 1 ∨ m = 2 ∨ m = 3 ∨ m = 4 := by omega
    rcases this with rfl | rfl | rfl | rfl | rfl <;> rfl

theorem step_peers_nil (L : Led) (e : Ev) (hp : L.peers = []) (he : ∀ p k, e ≠ .peer p k) :
    (step L e).peers = [] := by
  cases e with
  | peer p k => exact absurd rfl (he p k)
  | socket f o => cases o <;> simp only [step] <;> (repeat' split) <;> simp [hp]
  | _ => simp only [step, Led.use, Led.setSig] <;> (repeat' split) <;> simp [hp]

theorem foldl_peers_nil (tr : List Ev) : ∀ (L : Led), L.peers = [] → (∀ e ∈ tr, ∀ p k, e ≠ .peer p k) →
    (tr.foldl step L).peers = [] := by
  induction tr with
  | nil => intro L h _; exact h
  | cons e tr ih =>
    intro L h he
    exact ih _ (step_peers_nil L e h (he e (List.mem_cons_self))) fun e' h' => he e' (List.mem_cons_of_mem _ h')

theorem peers_nil_of_no_peer (tr : List Ev) (h : ∀ e ∈ tr, ∀ p k, e ≠ .peer p k) : (ledOf tr).peers = [] :=
  foldl_peers_nil tr {} rfl h

theorem peers_nil_of_noPeerAccepted (tr : List Ev) (h : noPeerAccepted tr = true) : (ledOf tr).peers = [] := by
  apply peers_nil_of_no_peer
  intro e he p k hek
  subst hek
  simp only [noPeerAccepted, List.all_eq_true] at h
  have := h _ he
  simp at this

theorem ups_rest (L : Led) : ∀ acc, (L.ups acc).term = L.term ∧ (L.ups acc).int = L.int ∧ (L.ups acc).pipe = L.pipe ∧
    (L.ups acc).ai = L.ai ∧ (L.ups acc).unlinks = L.unlinks ∧ (L.ups acc).dbl = L.dbl ∧
    (L.ups acc).early = L.early ∧ (L.ups acc).misuse = L.misuse ∧ (L.ups acc).regbad = L.regbad
  | [] => by simp [Led.ups]
  | (l, fd) :: rest => by
    have := ups_rest L rest
    simpa [Led.ups, Led.up, Led.withSock, Led.withReg] using this

/-! ## predicates used by the property statements -/

/-- signal dispositions at return: restored, or — the one path where the code does not restore them —
    `signal(SIGPIPE, SIG_IGN)` failed after both handlers were installed (linux_io.c:547-550) -/
def SignalsAsCoded (restore : Bool) (e : IoEnd) (tr : List Ev) (L : Led) : Prop :=
  (L.term = .dfl ∧ L.int = .dfl) ∨
  (restore = false ∧ e = .signalFailed ∧ Ev.signal .pipe .ign false ∈ tr ∧ L.term = .handler ∧ L.int = .handler)

/-- everything that belongs to listeners is released and the monitor saw no violation -/
def ListenersReleased (L : Led) : Prop :=
  L.opn = [] ∧ L.bnd = [] ∧ L.lis = [] ∧ L.reg = [] ∧ L.ai = 0 ∧ L.loopUp = false ∧
  L.dbl = 0 ∧ L.early = 0 ∧ L.misuse = 0 ∧ L.regbad = 0

theorem finalLed_released (ps : List (Nat × Kind)) (u : Nat) : ListenersReleased (finalLed ps u) := by
  simp [ListenersReleased, finalLed]

end Cjet.Startup
