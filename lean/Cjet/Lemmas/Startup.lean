import Cjet.Startup
/-!
Helper lemmas for `Cjet.Props.Startup`: Hoare-style specifications of every model function in terms
of the ledger `K.led`, the descriptor counter `K.next` and `go_ahead`.
-/
namespace Cjet.Startup

/-! ## state plumbing -/

@[simp] theorem emit_led (k : K) (e : Ev) : (k.emit e).led = step k.led e := by
  simp [K.led, K.emit, ledOf, List.foldl_append]
@[simp] theorem emit_next (k : K) (e : Ev) : (k.emit e).next = k.next := rfl
@[simp] theorem emit_goAhead (k : K) (e : Ev) : (k.emit e).goAhead = k.goAhead := rfl
@[simp] theorem emit_script (k : K) (e : Ev) : (k.emit e).script = k.script := rfl
@[simp] theorem adv_tr (k : K) : k.adv.tr = k.tr := rfl
@[simp] theorem adv_led (k : K) : k.adv.led = k.led := rfl
@[simp] theorem adv_next (k : K) : k.adv.next = k.next := rfl
@[simp] theorem adv_goAhead (k : K) : k.adv.goAhead = k.goAhead := rfl
@[simp] theorem bump_led (k : K) : k.bump.led = k.led := rfl
@[simp] theorem bump_next (k : K) : k.bump.next = k.next + 1 := rfl
@[simp] theorem bump_goAhead (k : K) : k.bump.goAhead = k.goAhead := rfl
@[simp] theorem sys_led (k : K) (mk : Bool → Ev) : (k.sys mk).2.led = step k.led (mk (k.sys mk).1) := by
  simp [K.sys]
@[simp] theorem sys_next (k : K) (mk : Bool → Ev) : (k.sys mk).2.next = k.next := rfl
@[simp] theorem sys_goAhead (k : K) (mk : Bool → Ev) : (k.sys mk).2.goAhead = k.goAhead := rfl

/-- every descriptor the ledger knows is below `n` -/
structure Below (L : Led) (n : Nat) : Prop where
  opn : ∀ fd ∈ L.opn, fd < n
  bnd : ∀ p ∈ L.bnd, p.1 < n
  lis : ∀ fd ∈ L.lis, fd < n
  reg : ∀ p ∈ L.reg, p.1 < n
  peers : ∀ p ∈ L.peers, p.1 < n

theorem Below.mono {L : Led} {n m : Nat} (h : Below L n) (hm : n ≤ m) : Below L m :=
  ⟨fun x hx => Nat.lt_of_lt_of_le (h.opn x hx) hm, fun x hx => Nat.lt_of_lt_of_le (h.bnd x hx) hm,
   fun x hx => Nat.lt_of_lt_of_le (h.lis x hx) hm, fun x hx => Nat.lt_of_lt_of_le (h.reg x hx) hm,
   fun x hx => Nat.lt_of_lt_of_le (h.peers x hx) hm⟩

theorem filter_ne_self {l : List Nat} {fd : Nat} (h : ∀ x ∈ l, x ≠ fd) : l.filter (fun x => x ≠ fd) = l := by
  rw [List.filter_eq_self]; intro x hx; simpa using h x hx

theorem filter_fst_ne_self {α : Type} {l : List (Nat × α)} {fd : Nat} (h : ∀ p ∈ l, p.1 ≠ fd) :
    l.filter (fun p => p.1 ≠ fd) = l := by
  rw [List.filter_eq_self]; intro x hx; simpa using h x hx

theorem Below.not_opn {L : Led} {n fd : Nat} (h : Below L n) (hf : n ≤ fd) : fd ∉ L.opn :=
  fun hm => by have := h.opn fd hm; omega
theorem Below.not_reg {L : Led} {n fd : Nat} (h : Below L n) (hf : n ≤ fd) : fd ∉ L.reg.map (·.1) := by
  intro hm
  obtain ⟨p, hp, rfl⟩ := List.mem_map.1 hm
  have := h.reg p hp; omega
theorem Below.not_peers {L : Led} {n fd : Nat} (h : Below L n) (hf : n ≤ fd) : fd ∉ L.peers.map (·.1) := by
  intro hm
  obtain ⟨p, hp, rfl⟩ := List.mem_map.1 hm
  have := h.peers p hp; omega
theorem Below.f_opn {L : Led} {n fd : Nat} (h : Below L n) (hf : n ≤ fd) : L.opn.filter (fun x => x ≠ fd) = L.opn :=
  filter_ne_self fun x hx => by have := h.opn x hx; omega
theorem Below.f_lis {L : Led} {n fd : Nat} (h : Below L n) (hf : n ≤ fd) : L.lis.filter (fun x => x ≠ fd) = L.lis :=
  filter_ne_self fun x hx => by have := h.lis x hx; omega
theorem Below.f_bnd {L : Led} {n fd : Nat} (h : Below L n) (hf : n ≤ fd) : L.bnd.filter (fun p => p.1 ≠ fd) = L.bnd :=
  filter_fst_ne_self fun x hx => by have := h.bnd x hx; omega
theorem Below.f_reg {L : Led} {n fd : Nat} (h : Below L n) (hf : n ≤ fd) : L.reg.filter (fun p => p.1 ≠ fd) = L.reg :=
  filter_fst_ne_self fun x hx => by have := h.reg x hx; omega

/-- descriptor `fd` was handed out and is open; `B` / `S`: its successful bind / listen -/
def Led.own (L : Led) (fd : Nat) (B : List (Nat × Target)) (S : List Nat) : Led :=
  { L with opn := fd :: L.opn, bnd := B ++ L.bnd, lis := S ++ L.lis }

/-- a listener that is up: descriptor open, bound to `t`, listening -/
def Led.withSock (L : Led) (fd : Nat) (t : Target) : Led :=
  { L with opn := fd :: L.opn, bnd := (fd, t) :: L.bnd, lis := fd :: L.lis }

theorem withSock_eq_own (L : Led) (fd : Nat) (t : Target) : L.withSock fd t = L.own fd [(fd, t)] [fd] := rfl

theorem own_socket {L : Led} {fd : Nat} (f : Fam) (h : fd ∉ L.opn) :
    step L (.socket f (some fd)) = L.own fd [] [] := by
  simp [step, h, Led.own]
@[simp] theorem own_sockopt (L : Led) (fd B S o b) : step (L.own fd B S) (.sockopt fd o b) = L.own fd B S := by
  simp [step, Led.use, Led.own]
@[simp] theorem own_fcntl (L : Led) (fd B S c b) : step (L.own fd B S) (.fcntl fd c b) = L.own fd B S := by
  simp [step, Led.use, Led.own]
@[simp] theorem own_bind (L : Led) (fd B S t b) :
    step (L.own fd B S) (.bind fd t b) = L.own fd (if b then (fd, t) :: B else B) S := by
  cases b <;> simp [step, Led.own]
@[simp] theorem own_listen (L : Led) (fd B S b) :
    step (L.own fd B S) (.listen fd b) = L.own fd B (if b then fd :: S else S) := by
  cases b <;> simp [step, Led.own]

theorem own_close {L : Led} {n fd : Nat} (hB : Below L n) (h : n ≤ fd) (B : List (Nat × Target)) (S : List Nat)
    (hB' : ∀ p ∈ B, p.1 = fd) (hS : ∀ x ∈ S, x = fd) :
    step (L.own fd B S) (.close fd) = L := by
  have e1 : B.filter (fun p => p.1 ≠ fd) = [] := by
    rw [List.filter_eq_nil_iff]; intro p hp; simp [hB' p hp]
  have e2 : S.filter (fun x => x ≠ fd) = [] := by
    rw [List.filter_eq_nil_iff]; intro p hp; simp [hS p hp]
  have h2 : ¬ ∃ x, (fd, x) ∈ L.reg := by
    have := hB.not_reg h; simpa using this
  have f1 := hB.f_opn h
  have f2 := hB.f_lis h
  have f3 := hB.f_bnd h
  simp only [ne_eq, decide_not] at e1 e2 f1 f2 f3
  simp [step, Led.own, List.filter_append, e1, e2, f1, f2, f3, h2]

theorem sys_eq (k : K) (mk : Bool → Ev) :
    ∃ b k', k.sys mk = (b, k') ∧ k'.led = step k.led (mk b) ∧ k'.next = k.next ∧ k'.goAhead = k.goAhead :=
  ⟨_, _, rfl, sys_led k mk, rfl, rfl⟩

theorem openSocket_eq (f : Fam) (k : K) (hI : Below k.led k.next) :
    ((openSocket f k).1 = none ∧ (openSocket f k).2.led = k.led ∧ (openSocket f k).2.next = k.next ∧
      (openSocket f k).2.goAhead = k.goAhead) ∨
    ((openSocket f k).1 = some k.next ∧ (openSocket f k).2.led = k.led.own k.next [] [] ∧
      (openSocket f k).2.next = k.next + 1 ∧ (openSocket f k).2.goAhead = k.goAhead) := by
  unfold openSocket
  by_cases ha : k.ans = .ok
  · right; simp [ha, own_socket f (hI.not_opn (Nat.le_refl _))]
  · left; simp [ha, step]

theorem setNonBlocking_eq (fd : Nat) (k : K) (L : Led) (B S) (hl : k.led = L.own fd B S) :
    ∃ b k', setNonBlocking fd k = (b, k') ∧ k'.led = L.own fd B S ∧ k'.next = k.next ∧ k'.goAhead = k.goAhead := by
  refine ⟨(setNonBlocking fd k).1, (setNonBlocking fd k).2, rfl, ?_⟩
  unfold setNonBlocking
  split <;> simp [hl]

theorem createPlain_spec (f : Fam) (t : Target) (k : K) (hI : Below k.led k.next) :
    k.next ≤ (createPlain f t k).2.next ∧ (createPlain f t k).2.goAhead = k.goAhead ∧
    match (createPlain f t k).1 with
    | none => (createPlain f t k).2.led = k.led
    | some fd => k.next ≤ fd ∧ fd < (createPlain f t k).2.next ∧
        (createPlain f t k).2.led = k.led.withSock fd t := by
  unfold createPlain
  rcases openSocket_eq f k hI with ⟨h1, hl, hn, hg⟩ | ⟨h1, hl, hn, hg⟩
  · rw [h1]; simp [hl, hn, hg]
  · rw [h1]; dsimp only
    generalize (openSocket f k).2 = k1 at *
    have cl := fun B S hB hS => own_close (fd := k.next) hI (Nat.le_refl _) B S hB hS
    obtain ⟨b2, k2, e2, hl2, hn2, hg2⟩ := sys_eq k1 (.sockopt k.next .reuse)
    rw [e2]; dsimp only
    rw [hl, own_sockopt] at hl2
    cases b2
    · simp [hl2, hn2, hg2, hn, hg, cl]
    · obtain ⟨b3, k3, e3, hl3, hn3, hg3⟩ := setNonBlocking_eq k.next k2 _ _ _ hl2
      rw [e3]; dsimp only
      cases b3
      · simp [hl3, hn3, hg3, hn2, hg2, hn, hg, cl]
      · obtain ⟨b4, k4, e4, hl4, hn4, hg4⟩ := sys_eq k3 (.bind k.next t)
        rw [e4]; dsimp only
        rw [hl3, own_bind] at hl4
        cases b4
        · simp at hl4; simp [hl4, hn4, hg4, hn3, hg3, hn2, hg2, hn, hg, cl]
        · obtain ⟨b5, k5, e5, hl5, hn5, hg5⟩ := sys_eq k4 (.listen k.next)
          rw [e5]; dsimp only
          rw [hl4, own_listen] at hl5
          cases b5
          · simp at hl5; simp [hl5, hn5, hg5, hn4, hg4, hn3, hg3, hn2, hg2, hn, hg, cl]
          · simp at hl5; simp [hl5, hn5, hg5, hn4, hg4, hn3, hg3, hn2, hg2, hn, hg, withSock_eq_own]

/-- postcondition of the addrinfo loop -/
def BoundPost (t : Target) (L : Led) (n0 : Nat) (g : Bool) (r : Option Nat × Bool × K) : Prop :=
  n0 ≤ r.2.2.next ∧ r.2.2.goAhead = g ∧
  (if r.2.1 = true then ∃ fd, r.1 = some fd ∧ n0 ≤ fd ∧ fd < r.2.2.next ∧ r.2.2.led = L.own fd [(fd, t)] []
   else r.2.2.led = L)

theorem boundLoop_spec (v6 : Bool) (p : Port) (L : Led) (g : Bool) :
    ∀ (n : Nat) (last : Option Nat) (k : K), Below L k.next → k.led = L → k.goAhead = g →
      BoundPost (if v6 then .lo6 p else .lo4 p) L k.next g (boundLoop v6 p n last k) := by
  intro n
  induction n with
  | zero => intro last k _ hl hg; simp [boundLoop, BoundPost, hl, hg]
  | succ n ih =>
    intro last k hI hl hg
    have hI' : Below k.led k.next := hl ▸ hI
    -- the next iteration, from a state that differs from `k` only in the counter
    have next : ∀ (last' : Option Nat) (k' : K), k'.led = L → k'.next = k.next ∨ k'.next = k.next + 1 →
        k'.goAhead = g → BoundPost (if v6 then .lo6 p else .lo4 p) L k.next g (boundLoop v6 p n last' k') := by
      intro last' k' hl' hn' hg'
      have hle : k.next ≤ k'.next := by omega
      have := ih last' k' (hI.mono hle) hl' hg'
      unfold BoundPost at this ⊢
      refine ⟨by omega, this.2.1, ?_⟩
      split
      · rename_i h
        rw [if_pos h] at this
        obtain ⟨fd, h1, h2, h3, h4⟩ := this.2.2
        exact ⟨fd, h1, by omega, h3, h4⟩
      · rename_i h
        rw [if_neg h] at this
        exact this.2.2
    unfold boundLoop
    rcases openSocket_eq (if v6 then .inet6 else .inet) k hI' with ⟨h1, hl1, hn1, hg1⟩ | ⟨h1, hl1, hn1, hg1⟩
    · rw [h1]; dsimp only
      exact next _ _ (by rw [hl1, hl]) (Or.inl hn1) (by rw [hg1, hg])
    · rw [h1]; dsimp only
      generalize (openSocket (if v6 then Fam.inet6 else Fam.inet) k).2 = k1 at *
      rw [hl] at hl1
      have cl := fun B S hB hS => own_close (fd := k.next) hI (Nat.le_refl _) B S hB hS
      obtain ⟨b2, k2, e2, hl2, hn2, hg2⟩ := sys_eq k1 (.sockopt k.next .reuse)
      rw [e2]; dsimp only
      rw [hl1, own_sockopt] at hl2
      cases b2
      · simp only [if_true]
        exact next _ _ (by simp [hl2, cl]) (Or.inr (by simp [hn2, hn1])) (by simp [hg2, hg1, hg])
      · simp only [Bool.true_eq_false, if_false]
        -- IPV6_V6ONLY
        have h6 : ∃ b6 k6, (if v6 = true then k2.sys (.sockopt k.next .v6only) else (true, k2)) = (b6, k6) ∧
            k6.led = L.own k.next [] [] ∧ k6.next = k.next + 1 ∧ k6.goAhead = g := by
          cases v6
          · exact ⟨true, k2, by simp, hl2, by rw [hn2, hn1], by rw [hg2, hg1, hg]⟩
          · obtain ⟨b, k', e, hl', hn', hg'⟩ := sys_eq k2 (.sockopt k.next .v6only)
            refine ⟨b, k', by simp [e], ?_, by rw [hn', hn2, hn1], by rw [hg', hg2, hg1, hg]⟩
            rw [hl', hl2, own_sockopt]
        obtain ⟨b6, k6, e6, hl6, hn6, hg6⟩ := h6
        rw [e6]; dsimp only
        cases b6
        · simp only [if_true]
          exact next _ _ (by simp [hl6, cl]) (Or.inr (by simp [hn6])) (by simp [hg6])
        · simp only [Bool.true_eq_false, if_false]
          obtain ⟨b3, k3, e3, hl3, hn3, hg3⟩ := setNonBlocking_eq k.next k6 _ _ _ hl6
          rw [e3]; dsimp only
          cases b3
          · simp only [if_true]
            exact next _ _ (by simp [hl3, cl]) (Or.inr (by simp [hn3, hn6])) (by simp [hg3, hg6])
          · simp only [Bool.true_eq_false, if_false]
            obtain ⟨b4, k4, e4, hl4, hn4, hg4⟩ := sys_eq k3 (.bind k.next (if v6 then .lo6 p else .lo4 p))
            rw [e4]; dsimp only
            rw [hl3, own_bind] at hl4
            cases b4
            · simp only [Bool.false_eq_true, if_false]
              simp at hl4
              exact next _ _ (by simp [hl4, cl]) (Or.inr (by simp [hn4, hn3, hn6])) (by simp [hg4, hg3, hg6])
            · simp only [if_true]
              simp at hl4
              simp only [BoundPost, if_true]
              exact ⟨by omega, by rw [hg4, hg3, hg6], k.next, rfl, Nat.le_refl _, by omega, hl4⟩

def Led.aiUp (L : Led) : Led := { L with ai := L.ai + 1 }

theorem below_aiUp {L : Led} {n : Nat} (h : Below L n) : Below L.aiUp n := ⟨h.opn, h.bnd, h.lis, h.reg, h.peers⟩
theorem step_gai_some (L : Led) (n p c) : step L (.gai n p (some c)) = L.aiUp := by simp [step, Led.aiUp]
theorem step_gai_none (L : Led) (n p) : step L (.gai n p none) = L := by simp [step]
theorem aiUp_freeai (L : Led) : step L.aiUp .freeai = L := by simp [step, Led.aiUp]
theorem aiUp_own_freeai (L : Led) (fd B S) : step (L.aiUp.own fd B S) .freeai = L.own fd B S := by
  simp [step, Led.aiUp, Led.own]

def Node.target (n : Node) (p : Port) : Target := if n = .lo6 then .lo6 p else .lo4 p

theorem createBound_spec (n : Node) (p : Port) (k : K) (hI : Below k.led k.next) :
    k.next ≤ (createBound n p k).2.next ∧ (createBound n p k).2.goAhead = k.goAhead ∧
    match (createBound n p k).1 with
    | none => (createBound n p k).2.led = k.led
    | some fd => k.next ≤ fd ∧ fd < (createBound n p k).2.next ∧
        (createBound n p k).2.led = k.led.withSock fd (n.target p) := by
  unfold createBound
  cases hg : gaiEntries k.ans with
  | none => simp [step_gai_none]
  | some cnt =>
    dsimp only
    have hb := boundLoop_spec (decide (n = .lo6)) p k.led.aiUp k.goAhead cnt none
      (k.adv.emit (.gai n p (some cnt))) (below_aiUp hI) (by simp [step_gai_some]) rfl
    generalize boundLoop (decide (n = .lo6)) p cnt none (k.adv.emit (.gai n p (some cnt))) = r at hb
    obtain ⟨last, brk, k1⟩ := r
    simp only [BoundPost, emit_next, adv_next] at hb
    obtain ⟨hn, hga, hb⟩ := hb
    dsimp only
    cases brk
    · simp only [Bool.false_eq_true, if_false] at hb
      cases last <;> simp [hn, hga, hb, aiUp_freeai]
    · simp only [if_true] at hb
      obtain ⟨fd, rfl, h1, h2, hl⟩ := hb
      dsimp only
      have ht : (if decide (n = Node.lo6) = true then Target.lo6 p else Target.lo4 p) = n.target p := by
        simp [Node.target]
      rw [ht] at hl
      obtain ⟨b, k2, e, hl2, hn2, hg2⟩ := sys_eq (k1.emit .freeai) (.listen fd)
      rw [e]; dsimp only
      rw [emit_led, hl, aiUp_own_freeai, own_listen] at hl2
      simp only [emit_next, emit_goAhead] at hn2 hg2
      cases b
      · simp at hl2
        have cl := own_close (fd := fd) hI h1 [(fd, n.target p)] [] (by simp) (by simp)
        simp [hl2, cl, hn2, hg2, hn, hga]
      · simp at hl2
        simp [hl2, hn2, hg2, hn, hga, h1, h2, withSock_eq_own]

/-! ## start_server and the first accept pass -/

def Led.addPeers (L : Led) (ps : List (Nat × Kind)) : Led := { L with peers := ps ++ L.peers }

@[simp] theorem addPeers_nil (L : Led) : L.addPeers [] = L := rfl
theorem addPeers_addPeers (L : Led) (a b) : (L.addPeers a).addPeers b = L.addPeers (b ++ a) := by
  simp [Led.addPeers]

/-- `fd` is not known to the listener part of the ledger -/
structure Fresh (L : Led) (fd : Nat) : Prop where
  opn : fd ∉ L.opn
  bnd : ∀ p ∈ L.bnd, p.1 ≠ fd
  lis : fd ∉ L.lis
  reg : fd ∉ L.reg.map (·.1)

theorem Below.fresh {L : Led} {n fd : Nat} (h : Below L n) (hf : n ≤ fd) : Fresh L fd :=
  ⟨h.not_opn hf, fun p hp => by have := h.bnd p hp; omega, fun hm => by have := h.lis fd hm; omega, h.not_reg hf⟩

theorem Fresh.addPeers {L : Led} {fd : Nat} (h : Fresh L fd) (ps) : Fresh (L.addPeers ps) fd :=
  ⟨h.opn, h.bnd, h.lis, h.reg⟩

theorem own_close' {L : Led} {fd : Nat} (hF : Fresh L fd) (B : List (Nat × Target)) (S : List Nat)
    (hB' : ∀ p ∈ B, p.1 = fd) (hS : ∀ x ∈ S, x = fd) :
    step (L.own fd B S) (.close fd) = L := by
  have e1 : B.filter (fun p => p.1 ≠ fd) = [] := by
    rw [List.filter_eq_nil_iff]; intro p hp; simp [hB' p hp]
  have e2 : S.filter (fun x => x ≠ fd) = [] := by
    rw [List.filter_eq_nil_iff]; intro p hp; simp [hS p hp]
  have h2 : ¬ ∃ x, (fd, x) ∈ L.reg := by
    have := hF.reg; simpa using this
  have f1 : L.opn.filter (fun x => x ≠ fd) = L.opn := filter_ne_self fun x hx e => hF.opn (e ▸ hx)
  have f2 : L.lis.filter (fun x => x ≠ fd) = L.lis := filter_ne_self fun x hx e => hF.lis (e ▸ hx)
  have f3 : L.bnd.filter (fun p => p.1 ≠ fd) = L.bnd := filter_fst_ne_self hF.bnd
  simp only [ne_eq, decide_not] at e1 e2 f1 f2 f3
  simp [step, Led.own, List.filter_append, e1, e2, f1, f2, f3, h2]

theorem ledOf_snoc (tr : List Ev) (e : Ev) : ledOf (tr ++ [e]) = step (ledOf tr) e := by
  simp [ledOf, List.foldl_append]
theorem ledOf_snoc2 (tr : List Ev) (e1 e2 : Ev) : ledOf (tr ++ [e1, e2]) = step (step (ledOf tr) e1) e2 := by
  simp [ledOf, List.foldl_append]

theorem step_accept {L : Led} {fd : Nat} (h : fd ∈ L.opn) (r : Acc) : step L (.accept fd r) = L := by
  simp [step, Led.use, h]

theorem step_peer {L : Led} {n : Nat} (h : Below L n) (kind : Kind) :
    step L (.peer n kind) = L.addPeers [(n, kind)] := by
  have h1 := h.not_opn (Nat.le_refl n)
  have h2 : ¬ ∃ x, (n, x) ∈ L.peers := by
    have := h.not_peers (Nat.le_refl n); simpa using this
  simp [step, h1, h2, Led.addPeers]

theorem below_addPeers {L : Led} {n m : Nat} (h : Below L n) (hm : n ≤ m) (ps : List (Nat × Kind))
    (hp : ∀ p ∈ ps, p.1 < m) : Below (L.addPeers ps) m := by
  have h' := h.mono hm
  refine ⟨h'.opn, h'.bnd, h'.lis, h'.reg, ?_⟩
  intro p hp'
  simp only [Led.addPeers, List.mem_append] at hp'
  rcases hp' with hp' | hp'
  · exact hp p hp'
  · exact h'.peers p hp'

/-- postcondition shared by everything that may accept connections: the ledger is `L` plus fresh peers -/
def PeersAdded (L : Led) (n0 n1 : Nat) (L' : Led) : Prop :=
  ∃ ps : List (Nat × Kind), L' = L.addPeers ps ∧ ∀ p ∈ ps, n0 ≤ p.1 ∧ p.1 < n1

theorem PeersAdded.refl (L : Led) (n0 n1 : Nat) : PeersAdded L n0 n1 L := ⟨[], rfl, by simp⟩

theorem PeersAdded.below {L L' : Led} {n0 n1 : Nat} (h : PeersAdded L n0 n1 L') (hB : Below L n0) (hn : n0 ≤ n1) :
    Below L' n1 := by
  obtain ⟨ps, rfl, hp⟩ := h
  exact below_addPeers hB hn ps fun p hp' => (hp p hp').2

theorem acceptLoop_spec (fd : Nat) (kind : Kind) :
    ∀ (script : List Ans) (nx : Nat) (tr : List Ev), fd ∈ (ledOf tr).opn → Below (ledOf tr) nx →
      nx ≤ (acceptLoop fd kind script nx tr).2.2.1 ∧
      PeersAdded (ledOf tr) nx (acceptLoop fd kind script nx tr).2.2.1 (ledOf (acceptLoop fd kind script nx tr).2.2.2) := by
  intro script
  induction script with
  | nil => intro nx tr hfd _; simp [acceptLoop, ledOf_snoc, step_accept hfd, PeersAdded.refl]
  | cons a rest ih =>
    intro nx tr hfd hB
    cases a with
    | ok => simp [acceptLoop, ledOf_snoc, step_accept hfd, PeersAdded.refl]
    | addrs n => simp [acceptLoop, ledOf_snoc, step_accept hfd, PeersAdded.refl]
    | fail => simp [acceptLoop, ledOf_snoc, step_accept hfd, PeersAdded.refl]
    | retry =>
      have e : ledOf (tr ++ [Ev.accept fd Acc.retry]) = ledOf tr := by rw [ledOf_snoc, step_accept hfd]
      have := ih nx (tr ++ [Ev.accept fd Acc.retry]) (e ▸ hfd) (e ▸ hB)
      rw [e] at this
      simpa [acceptLoop] using this
    | conn =>
      have e : ledOf (tr ++ [Ev.accept fd (Acc.conn nx), Ev.peer nx kind]) = (ledOf tr).addPeers [(nx, kind)] := by
        rw [ledOf_snoc2, step_accept hfd, step_peer hB]
      have hB' : Below ((ledOf tr).addPeers [(nx, kind)]) (nx + 1) :=
        below_addPeers hB (Nat.le_succ _) _ (by simp)
      have := ih (nx + 1) (tr ++ [Ev.accept fd (Acc.conn nx), Ev.peer nx kind]) (e ▸ hfd) (e ▸ hB')
      rw [e] at this
      obtain ⟨h1, ps, h2, h3⟩ := this
      simp only [acceptLoop]
      refine ⟨by omega, ps ++ [(nx, kind)], ?_, ?_⟩
      · rw [h2, addPeers_addPeers]
      · intro p hp
        simp only [List.mem_append, List.mem_singleton] at hp
        rcases hp with hp | rfl
        · have := h3 p hp; omega
        · simp; omega

theorem acceptPass_spec (fd : Nat) (kind : Kind) (k : K) (hfd : fd ∈ k.led.opn) (hB : Below k.led k.next) :
    k.next ≤ (acceptPass fd kind k).2.next ∧ (acceptPass fd kind k).2.goAhead = k.goAhead ∧
    PeersAdded k.led k.next (acceptPass fd kind k).2.next (acceptPass fd kind k).2.led := by
  have := acceptLoop_spec fd kind k.script k.next k.tr hfd hB
  exact ⟨this.1, rfl, this.2⟩

def Led.withReg (L : Led) (fd : Nat) (kind : Kind) : Led := { L with reg := (fd, kind) :: L.reg }

theorem step_add {L : Led} {fd : Nat} (hfd : fd ∈ L.opn) (hreg : fd ∉ L.reg.map (·.1)) (hup : L.loopUp = true)
    (kind : Kind) (b : Bool) : step L (.add fd kind b) = if b then L.withReg fd kind else L := by
  have h2 : ¬ ∃ x, (fd, x) ∈ L.reg := by simpa using hreg
  cases b <;> simp [step, hfd, h2, hup, Led.withReg]

theorem step_remove_head {L : Led} {fd : Nat} (hreg : fd ∉ L.reg.map (·.1)) (kind : Kind) (ps) :
    step ((L.withReg fd kind).addPeers ps) (.remove fd) = L.addPeers ps := by
  have f : L.reg.filter (fun p => p.1 ≠ fd) = L.reg :=
    filter_fst_ne_self fun p hp e => hreg (List.mem_map.2 ⟨p, hp, e⟩)
  simp only [ne_eq, decide_not] at f
  simp [step, Led.withReg, Led.addPeers, f]

theorem startServer_spec (fd : Nat) (kind : Kind) (k : K) (hfd : fd ∈ k.led.opn)
    (hreg : fd ∉ k.led.reg.map (·.1)) (hup : k.led.loopUp = true) (hB : Below k.led k.next) :
    k.next ≤ (startServer fd kind k).2.next ∧ (startServer fd kind k).2.goAhead = k.goAhead ∧
    PeersAdded (if (startServer fd kind k).1 then k.led.withReg fd kind else k.led) k.next
      (startServer fd kind k).2.next (startServer fd kind k).2.led := by
  unfold startServer
  obtain ⟨b, k2, e, hl2, hn2, hg2⟩ := sys_eq k (.add fd kind)
  rw [e]; dsimp only
  rw [step_add hfd hreg hup] at hl2
  cases b
  · simp at hl2
    simp [hl2, hn2, hg2, PeersAdded.refl]
  · simp at hl2
    simp only [Bool.true_eq_false, if_false]
    have hfd2 : fd ∈ k2.led.opn := by rw [hl2]; exact hfd
    have hB2 : Below k2.led k2.next := by
      rw [hl2, hn2]
      exact ⟨hB.opn, hB.bnd, hB.lis, fun p hp => by
        simp only [Led.withReg, List.mem_cons] at hp
        rcases hp with rfl | hp
        · exact hB.opn _ hfd
        · exact hB.reg p hp, hB.peers⟩
    obtain ⟨h1, h2, ps, h3, h4⟩ := acceptPass_spec fd kind k2 hfd2 hB2
    cases hb : (acceptPass fd kind k2).1
    · simp only [Bool.false_eq_true, if_false, emit_next, emit_goAhead, emit_led]
      refine ⟨by omega, by rw [h2, hg2], ps, ?_, by rw [← hn2]; exact h4⟩
      rw [h3, hl2, step_remove_head hreg]
    · simp only [if_true]
      exact ⟨by omega, by rw [h2, hg2], ps, by rw [h3, hl2], by rw [← hn2]; exact h4⟩

/-! ## one listener -/

theorem create_spec (l : LSpec) (k : K) (hI : Below k.led k.next) :
    k.next ≤ (l.create k).2.next ∧ (l.create k).2.goAhead = k.goAhead ∧
    match (l.create k).1 with
    | none => (l.create k).2.led = k.led
    | some fd => k.next ≤ fd ∧ fd < (l.create k).2.next ∧ (l.create k).2.led = k.led.withSock fd l.target := by
  cases l with
  | bound n p kind =>
    have := createBound_spec n p k hI
    cases n <;> exact this
  | all p kind => exact createPlain_spec .inet6 (.any p) k hI
  | uds => exact createPlain_spec .unix .udsAbstract k hI

/-- listener `l` is up on descriptor `fd` -/
def Led.up (L : Led) (l : LSpec) (fd : Nat) : Led := (L.withSock fd l.target).withReg fd l.kind

theorem below_withSock {L : Led} {n m fd : Nat} (h : Below L n) (hm : n ≤ m) (hfd : fd < m) (t : Target) :
    Below (L.withSock fd t) m := by
  have h' := h.mono hm
  refine ⟨?_, ?_, ?_, h'.reg, h'.peers⟩
  · intro x hx; simp only [Led.withSock, List.mem_cons] at hx; rcases hx with rfl | hx; exact hfd; exact h'.opn x hx
  · intro x hx; simp only [Led.withSock, List.mem_cons] at hx; rcases hx with rfl | hx; exact hfd; exact h'.bnd x hx
  · intro x hx; simp only [Led.withSock, List.mem_cons] at hx; rcases hx with rfl | hx; exact hfd; exact h'.lis x hx

theorem startListener_spec (l : LSpec) (k : K) (hB : Below k.led k.next) (hup : k.led.loopUp = true) :
    k.next ≤ (startListener l k).2.next ∧ (startListener l k).2.goAhead = k.goAhead ∧
    match (startListener l k).1 with
    | none => PeersAdded k.led k.next (startListener l k).2.next (startListener l k).2.led
    | some fd => k.next ≤ fd ∧ fd < (startListener l k).2.next ∧
        PeersAdded (k.led.up l fd) k.next (startListener l k).2.next (startListener l k).2.led := by
  unfold startListener
  have hc := create_spec l k hB
  generalize l.create k = c at hc
  obtain ⟨r, k1⟩ := c
  dsimp only at hc ⊢
  obtain ⟨hn1, hg1, hc⟩ := hc
  cases r with
  | none =>
    dsimp only at hc ⊢
    exact ⟨hn1, hg1, by rw [hc]; exact PeersAdded.refl _ _ _⟩
  | some fd =>
    dsimp only at hc ⊢
    obtain ⟨hf1, hf2, hl1⟩ := hc
    have hfd : fd ∈ k1.led.opn := by rw [hl1]; simp [Led.withSock]
    have hreg : fd ∉ k1.led.reg.map (·.1) := by rw [hl1]; exact hB.not_reg hf1
    have hup1 : k1.led.loopUp = true := by rw [hl1]; exact hup
    have hB1 : Below k1.led k1.next := by rw [hl1]; exact below_withSock hB hn1 hf2 _
    obtain ⟨h1, h2, h3⟩ := startServer_spec fd l.kind k1 hfd hreg hup1 hB1
    cases hb : (startServer fd l.kind k1).1
    · rw [hb] at h3
      simp only [Bool.false_eq_true, if_false, emit_next, emit_goAhead, emit_led] at h3 ⊢
      obtain ⟨ps, h4, h5⟩ := h3
      refine ⟨by omega, by rw [h2, hg1], ps, ?_, fun p hp => by have := h5 p hp; omega⟩
      rw [h4, hl1]
      exact own_close' (L := k.led.addPeers ps) ((hB.fresh hf1).addPeers ps) [(fd, l.target)] [fd] (by simp) (by simp)
    · rw [hb] at h3
      simp only [if_true] at h3 ⊢
      obtain ⟨ps, h4, h5⟩ := h3
      refine ⟨by omega, by rw [h2, hg1], hf1, by omega, ps, ?_, fun p hp => by have := h5 p hp; omega⟩
      rw [h4, hl1]; rfl

end Cjet.Startup
