/-
  C04 — every handler only appends to the output list: `parseJsonRpc`'s output is the old output
  with new observations in front.  (Makes the hypothesis `out = new ++ x.out` of
  `error_means_unchanged` always satisfiable.)
-/
import Cjet.Lemmas.DaemonC04Spec

namespace Cjet.Daemon.C04

open Cjet Cjet.Json Cjet.Daemon

def Ext (x x' : Ctx) : Prop := ∃ new, x'.out = new ++ x.out

theorem Ext.refl (x : Ctx) : Ext x x := ⟨[], rfl⟩
theorem Ext.trans {x y z : Ctx} (h1 : Ext x y) (h2 : Ext y z) : Ext x z := by
  obtain ⟨n1, e1⟩ := h1
  obtain ⟨n2, e2⟩ := h2
  exact ⟨n2 ++ n1, by rw [e2, e1, List.append_assoc]⟩
theorem Ext.of_eq {x y y' : Ctx} (h : Ext x y) (e : y'.out = y.out) : Ext x y' := by
  obtain ⟨n, hn⟩ := h; exact ⟨n, e.trans hn⟩
theorem Ext.emit {x y : Ctx} (h : Ext x y) (o : Obs) : Ext x (emit y o) := by
  obtain ⟨n, hn⟩ := h; exact ⟨o :: n, by simp only [Daemon.emit, hn, List.cons_append]⟩
theorem Ext.send {x y : Ctx} (h : Ext x y) (c : Nat) (j : Json) : Ext x (send y c j).1 := by
  obtain ⟨n, hn⟩ := h; exact ⟨_ :: n, by rw [send_out, hn, List.cons_append]⟩
theorem Ext.send' {x y : Ctx} (h : Ext x y) (c : Nat) (j : Json) : Ext x (send' y c j) := h.send c j
theorem Ext.of_quietOut {x y : Ctx} (h : QuietOut x y) : Ext x y := by
  obtain ⟨n, hn, _⟩ := h; exact ⟨n, hn⟩
theorem Ext.sendResponse {x y : Ctx} (h : Ext x y) (c : Nat) (resp : Option Json) :
    Ext x (sendResponse y c resp).1 := by
  cases resp with
  | none => exact h
  | some j => exact h.send c j

theorem routeTail_ext (cfg : Config) (x : Ctx) (p : Peer) (req : Json) (b : Bool) (params : Json)
    (path : Bytes) (e : Element) (oid : Option Json) :
    Ext x (routeTail cfg x p req b params path e oid).1 := by
  unfold routeTail
  dsimp only
  refine ite_cases (P := fun (r : Ctx × Option Json) => Ext x r.1) (fun _ => ⟨[], rfl⟩) (fun _ => ?_)
  cases getTimeout cfg (params.getItem (k "timeout")) e.timeoutNs with
  | err reason => exact ⟨[], rfl⟩
  | ns tns =>
    dsimp only
    refine ite_cases (P := fun (r : Ctx × Option Json) => Ext x r.1) (fun _ => ⟨[_], rfl⟩) (fun _ => ?_)
    have h1 : Ext x (send (emit { x with st := { x.st with
          uuid := (x.st.uuid + 1) % 4294967296, nextTimer := x.st.nextTimer + 1,
          peers := updatePeer x.st.peers e.owner (fun q => { q with routes := q.routes ++
            [{ rid := routedId oid x.st.uuid p.addrTok, requester := p.conn, owner := e.owner,
               originId := oid, timer := x.st.nextTimer }] }) } } (.timerArm x.st.nextTimer tns))
        e.owner (routedMessage (routedId oid x.st.uuid p.addrTok) path b
          (if b = true then params.getItem (k "value") else params.getItem (k "args")))).1 := by
      apply Ext.send; apply Ext.emit; exact ⟨[], rfl⟩
    refine ite_cases (P := fun (r : Ctx × Option Json) => Ext x r.1) (fun _ => h1) (fun _ => ?_)
    exact (Ext.of_eq h1 rfl).emit _

theorem setOrCall_ext (cfg : Config) (x : Ctx) (p : Peer) (req : Json) (b : Bool) :
    Ext x (setOrCall cfg x p req b).1 := by
  rw [setOrCall_eq]
  cases getParamsAndPath req with
  | err r => exact Ext.refl x
  | ok params path =>
    dsimp only
    cases findElement x.st path with
    | none => exact Ext.refl x
    | some e =>
      dsimp only
      refine ite_cases (P := fun (r : Ctx × Option Json) => Ext x r.1) (fun _ => Ext.refl x) (fun _ => ?_)
      refine ite_cases (P := fun (r : Ctx × Option Json) => Ext x r.1) (fun _ => Ext.refl x) (fun _ => ?_)
      refine ite_cases (P := fun (r : Ctx × Option Json) => Ext x r.1) (fun _ => Ext.refl x) (fun _ => ?_)
      refine ite_cases (P := fun (r : Ctx × Option Json) => Ext x r.1) (fun _ => ?_) (fun _ => Ext.refl x)
      exact routeTail_ext ..

theorem configReq_ext (x : Ctx) (p : Peer) (req : Json) : Ext x (configReq x p req).1 := by
  unfold configReq
  repeat' split
  all_goals exact ⟨[], rfl⟩

theorem getReq_ext (cfg : Config) (x : Ctx) (p : Peer) (req : Json) : Ext x (getReq cfg x p req).1 := by
  unfold getReq
  repeat' split
  all_goals exact ⟨[], rfl⟩

theorem authenticateReq_ext (cfg : Config) (x : Ctx) (p : Peer) (req : Json) :
    Ext x (authenticateReq cfg x p req).1 := by
  unfold authenticateReq
  repeat' split
  all_goals exact ⟨[], rfl⟩

theorem passwdReq_ext (x : Ctx) (p : Peer) (req : Json) : Ext x (passwdReq x p req).1 := by
  unfold passwdReq
  repeat' split
  all_goals first | exact ⟨[], rfl⟩ | (dsimp only; split <;> exact ⟨[], rfl⟩)

theorem unfetchReq_ext (x : Ctx) (p : Peer) (req : Json) : Ext x (unfetchReq x p req).1 := by
  unfold unfetchReq
  repeat' split
  all_goals exact ⟨[], rfl⟩

theorem routingResponse_ext (x : Ctx) (p : Peer) (msg payload : Json) (typ : String) :
    Ext x (routingResponse x p msg payload typ).1 := by
  unfold routingResponse
  repeat' split
  all_goals first | exact ⟨[], rfl⟩ | exact ⟨[_], rfl⟩ |
    (dsimp only; apply Ext.send'; apply Ext.emit; exact ⟨[], rfl⟩)

theorem offerStep_ext (cfg : Config) (fp : Peer) (f : Fetch) (owner : Peer) (x : Ctx) (e0 : Element) :
    Ext x (offerStep cfg fp f owner x e0) := by
  unfold offerStep
  exact Ext.of_eq (Ext.of_quietOut (offerElement_spec ..).1.out) rfl

theorem offerInner_ext (cfg : Config) (fp : Peer) (f : Fetch) (owner : Peer) (es : List Element) (x : Ctx) :
    Ext x (es.foldl (offerStep cfg fp f owner) x) := by
  induction es generalizing x with
  | nil => exact Ext.refl x
  | cons e0 rest ih => exact (offerStep_ext ..).trans (ih _)

theorem offerOuter_ext (cfg : Config) (fp : Peer) (f : Fetch) (ps : List Peer) (x : Ctx) :
    Ext x (ps.foldl (fun x owner => owner.elements.foldl (offerStep cfg fp f owner) x) x) := by
  induction ps generalizing x with
  | nil => exact Ext.refl x
  | cons owner rest ih => exact (offerInner_ext ..).trans (ih _)

theorem fetchReq_ext (cfg : Config) (x : Ctx) (p : Peer) (req : Json) : Ext x (fetchReq cfg x p req).1 := by
  unfold fetchReq
  cases getFetchId req true with
  | err r => exact Ext.refl x
  | ok params fid =>
    dsimp only
    refine ite_cases (P := fun (r : Ctx × Option Json) => Ext x r.1) (fun _ => Ext.refl x) (fun _ => ?_)
    cases createRule cfg params with
    | err code reason => exact Ext.refl x
    | ok rule =>
      dsimp only
      rw [offerAllElements_eq]
      exact (Ext.of_eq (Ext.refl x) rfl).trans (offerOuter_ext ..)

theorem addElement_ext (cfg : Config) (x : Ctx) (p : Peer) (req : Json) : Ext x (addElement cfg x p req).1 := by
  rw [addElement_eq]
  refine ite_cases (P := fun (r : Ctx × Option Json) => Ext x r.1) (fun _ => Ext.refl x) (fun _ => ?_)
  cases getParamsAndPath req with
  | err r => exact Ext.refl x
  | ok params path =>
    dsimp only
    refine ite_cases (P := fun (r : Ctx × Option Json) => Ext x r.1) (fun _ => ?_) (fun _ => Ext.refl x)
    cases getTimeout cfg (params.getItem (k "timeout")) cfg.defaultTimeoutNs with
    | err reason => exact Ext.refl x
    | ns tns =>
      dsimp only
      refine ite_cases (P := fun (r : Ctx × Option Json) => Ext x r.1) (fun _ => Ext.refl x) (fun _ => ?_)
      cases fillAccess cfg (params.getItem (k "value")).isSome (params.getItem (k "access")) with
      | error reason => exact Ext.refl x
      | ok g =>
        dsimp only
        cases hfull : x.indexFull with
        | true => exact Ext.of_quietOut (addTail_full hfull).2.2
        | false => exact Ext.of_quietOut (addTail_ok hfull rfl).2.2

theorem removeElementReq_ext (x : Ctx) (p : Peer) (req : Json) : Ext x (removeElementReq x p req).1 := by
  unfold removeElementReq
  repeat' split
  all_goals first | exact Ext.refl x | exact Ext.of_quietOut (removeElement_quietOut ..)

theorem changeState_ext (x : Ctx) (p : Peer) (req : Json) : Ext x (changeState x p req).1 := by
  rw [changeState_eq]
  repeat' split
  all_goals first | exact Ext.refl x |
    exact (Ext.of_eq (Ext.refl x) rfl).trans (Ext.of_quietOut (quiet_notifyFetchers _ _ _).out)

theorem handleMethod_ext (cfg : Config) (x : Ctx) (p : Peer) (req : Json) (m : Bytes) :
    Ext x (handleMethod cfg x p req m).1 := by
  unfold handleMethod
  refine ite_cases (P := fun (r : Ctx × Option Json) => Ext x r.1) (fun _ => changeState_ext ..) (fun _ => ?_)
  refine ite_cases (P := fun (r : Ctx × Option Json) => Ext x r.1) (fun _ => setOrCall_ext ..) (fun _ => ?_)
  refine ite_cases (P := fun (r : Ctx × Option Json) => Ext x r.1) (fun _ => setOrCall_ext ..) (fun _ => ?_)
  refine ite_cases (P := fun (r : Ctx × Option Json) => Ext x r.1) (fun _ => addElement_ext ..) (fun _ => ?_)
  refine ite_cases (P := fun (r : Ctx × Option Json) => Ext x r.1) (fun _ => removeElementReq_ext ..) (fun _ => ?_)
  refine ite_cases (P := fun (r : Ctx × Option Json) => Ext x r.1) (fun _ => fetchReq_ext ..) (fun _ => ?_)
  refine ite_cases (P := fun (r : Ctx × Option Json) => Ext x r.1) (fun _ => unfetchReq_ext ..) (fun _ => ?_)
  refine ite_cases (P := fun (r : Ctx × Option Json) => Ext x r.1) (fun _ => getReq_ext ..) (fun _ => ?_)
  refine ite_cases (P := fun (r : Ctx × Option Json) => Ext x r.1) (fun _ => configReq_ext ..) (fun _ => ?_)
  refine ite_cases (P := fun (r : Ctx × Option Json) => Ext x r.1) (fun _ => Ext.refl x) (fun _ => ?_)
  refine ite_cases (P := fun (r : Ctx × Option Json) => Ext x r.1) (fun _ => authenticateReq_ext ..) (fun _ => ?_)
  refine ite_cases (P := fun (r : Ctx × Option Json) => Ext x r.1) (fun _ => passwdReq_ext ..) (fun _ => ?_)
  exact Ext.refl x

theorem parseJsonRpc_ext (cfg : Config) (x : Ctx) (c : Nat) (req : Json) :
    Ext x (parseJsonRpc cfg x c req).1 := by
  rw [parseJsonRpc_eq]
  cases findPeer x.st.peers c with
  | none => exact Ext.refl x
  | some p =>
    dsimp only
    cases req.getItem (k "method") with
    | none =>
      dsimp only
      cases req.getItem (k "result") with
      | some res => exact routingResponse_ext ..
      | none =>
        dsimp only
        cases req.getItem (k "error") with
        | some err => exact routingResponse_ext ..
        | none => exact (Ext.refl x).sendResponse _ _
    | some j =>
      cases j with
      | str m => exact (handleMethod_ext ..).sendResponse _ _
      | _ => exact (Ext.refl x).sendResponse _ _

end Cjet.Daemon.C04
