/-
  DaemonC07Sim — every operation of the daemon model is a sequence of router steps in which every
  stored entry names a CONNECTED owner (`Steps7`).  This is C03's simulation (`DaemonC03Sim`,
  `sim_step`) re-proved with the element-ownership invariant `EO` threaded through, so that the
  "no timer is lost" half of the ledger can be proved on the transition system.
-/
import Cjet.Lemmas.DaemonC07Ledger

namespace Cjet.Daemon.C07

open Cjet Cjet.Json Cjet.Daemon Cjet.Daemon.C03

theorem noIssue_of_drop {l : Lbl} (h : ∃ o r, l = .drop o r) : NoIssue l := by
  obtain ⟨o, r, rfl⟩ := h; trivial

theorem sim7_routeCore (cfg : Config) (x : Ctx) (p : Peer) (req : Json) (isState : Bool)
    (params : Json) (path : Bytes) (e : Element) (hp : p ∈ x.st.peers)
    (hlive : e.owner ∈ (x.st.peers.map pview).map (·.conn)) :
    ∃ l, IssueLbl p.conn l ∧ Pre l (rs x) ∧ Live7 l (rs x) ∧
      rs (routeCore cfg x p req isState params path e).1 = app l (rs x) := by
  unfold routeCore
  simp only
  split
  · exact ⟨.tick, trivial, trivial, trivial, rfl⟩
  · split
    · exact ⟨.tick, trivial, trivial, trivial, rfl⟩
    · next tns _ =>
      split
      · exact ⟨.full, trivial, trivial, trivial, rfl⟩
      · split
        · exact ⟨.issue (newRoute x p req e) tns, rfl, newRoute_fresh x p req e hp, hlive,
            rs_stored_send _ _ _ _ _ rfl⟩
        · refine ⟨.issueFail (newRoute x p req e) tns, rfl, newRoute_fresh x p req e hp, trivial, ?_⟩
          have h := rs_stored_send x (newRoute x p req e) tns e.owner
            (routedMessage (newRoute x p req e).rid path isState (reqValue isState params)) rfl
          simp only [rs, app, RS.mk.injEq] at h ⊢
          simp only [emit_st, emit_out, map_pview_removeRoute, h.1, h.2.1, h.2.2.1]
          refine ⟨rfl, trivial, trivial, ?_⟩
          simp only [tobs_cons_destroy, h.2.2.2]

theorem sim7_setOrCall (cfg : Config) (x : Ctx) (p : Peer) (req : Json) (isState : Bool)
    (hp : p ∈ x.st.peers) (he : EO x.st) :
    ∃ ls, ls.length ≤ 1 ∧ (∀ l ∈ ls, IssueLbl p.conn l) ∧
      Steps7 ls (rs x) (rs (setOrCall cfg x p req isState).1) := by
  rcases setOrCall_cases cfg x p req isState with h | ⟨params, path, e, hc⟩
  · exact ⟨[], by simp, by simp, by rw [h]; rfl⟩
  · rw [setOrCall_of_checks hc]
    have hlive : e.owner ∈ (x.st.peers.map pview).map (·.conn) := by
      obtain ⟨q, hq⟩ := findElement_owner_live he hc.el
      rw [← findPeer_isSome_iff_conns, hq]; rfl
    obtain ⟨l, hl, hpre, hl7, heq⟩ := sim7_routeCore cfg x p req isState params path e hp hlive
    refine ⟨[l], by simp, by simpa using hl, ?_⟩
    rw [heq]
    exact Steps7.single hpre hl7

theorem sim7_handleMethod (cfg : Config) (x : Ctx) (p : Peer) (req : Json) (m : Bytes)
    (hp : p ∈ x.st.peers) (he : EO x.st) :
    ∃ ls, ls.length ≤ 1 ∧ (∀ l ∈ ls, IssueLbl p.conn l) ∧
      Steps7 ls (rs x) (rs (handleMethod cfg x p req m).1) := by
  have fr : ∀ y : Ctx, Frame x y → ∃ ls : List Lbl, ls.length ≤ 1 ∧ (∀ l ∈ ls, IssueLbl p.conn l) ∧
      Steps7 ls (rs x) (rs y) := fun y h => ⟨[], by simp, by simp, h.rs_eq⟩
  unfold handleMethod
  by_cases h1 : (m == k "change") = true
  · rw [if_pos h1]; exact fr _ (frame_changeState ..)
  rw [if_neg h1]
  by_cases h2 : (m == k "set") = true
  · rw [if_pos h2]; exact sim7_setOrCall cfg x p req true hp he
  rw [if_neg h2]
  by_cases h3 : (m == k "call") = true
  · rw [if_pos h3]; exact sim7_setOrCall cfg x p req false hp he
  rw [if_neg h3]
  by_cases h4 : (m == k "add") = true
  · rw [if_pos h4]; exact fr _ (frame_addElement ..)
  rw [if_neg h4]
  by_cases h5 : (m == k "remove") = true
  · rw [if_pos h5]; exact fr _ (frame_removeElementReq ..)
  rw [if_neg h5]
  by_cases h6 : (m == k "fetch") = true
  · rw [if_pos h6]; exact fr _ (frame_fetchReq ..)
  rw [if_neg h6]
  by_cases h7 : (m == k "unfetch") = true
  · rw [if_pos h7]; exact fr _ (frame_unfetchReq ..)
  rw [if_neg h7]
  by_cases h8 : (m == k "get") = true
  · rw [if_pos h8]; exact fr _ (frame_getReq ..)
  rw [if_neg h8]
  by_cases h9 : (m == k "config") = true
  · rw [if_pos h9]; exact fr _ (frame_configReq ..)
  rw [if_neg h9]
  by_cases h10 : (m == k "info") = true
  · rw [if_pos h10]; exact fr _ (frame_infoReq ..)
  rw [if_neg h10]
  by_cases h11 : (m == k "authenticate") = true
  · rw [if_pos h11]; exact fr _ (frame_authenticateReq ..)
  rw [if_neg h11]
  by_cases h12 : (m == k "passwd") = true
  · rw [if_pos h12]; exact fr _ (frame_passwdReq ..)
  rw [if_neg h12]
  exact fr _ (Frame.refl x)

theorem sim7_parseJsonRpc (cfg : Config) (x : Ctx) (c : Nat) (req : Json) (he : EO x.st) :
    ∃ ls, ls.length ≤ 1 ∧ (∀ l ∈ ls, LblFrom c (fun rid => replyTo rid req) l) ∧
      Steps7 ls (rs x) (rs (parseJsonRpc cfg x c req).1) := by
  have fr : ∀ y : Ctx, Frame x y → ∃ ls : List Lbl, ls.length ≤ 1 ∧
      (∀ l ∈ ls, LblFrom c (fun rid => replyTo rid req) l) ∧ Steps7 ls (rs x) (rs y) :=
    fun y h => ⟨[], by simp, by simp, h.rs_eq⟩
  unfold parseJsonRpc
  split
  · exact fr _ (Frame.refl x)
  · next p hp =>
    have hpm := findPeer_mem hp
    have hpc := findPeer_conn hp
    split
    · next m hm =>
      obtain ⟨ls, h1, h2, h3⟩ := sim7_handleMethod cfg x p req m hpm he
      refine ⟨ls, h1, fun l hl => LblFrom.of_issue (hpc ▸ h2 l hl), ?_⟩
      dsimp only
      rw [(frame_sendResponse _ c _).rs_eq]
      exact h3
    · exact fr _ (frame_sendResponse ..)
    · next hmeth =>
      have key : ∀ (payload : Json) (typ : String),
          ((req.getItem (k "result")).isSome || (req.getItem (k "error")).isSome) = true →
          ∃ ls : List Lbl, ls.length ≤ 1 ∧ (∀ l ∈ ls, LblFrom c (fun rid => replyTo rid req) l) ∧
            Steps7 ls (rs x) (rs (routingResponse x p req payload typ).1) := by
        intro payload typ hre
        obtain ⟨ls, h1, h2, h3⟩ := sim_routingResponse x p req payload typ (hpc ▸ hp)
        refine ⟨ls, h1, ?_, steps_to7 h3 (fun l hl => ?_)⟩
        · intro l hl
          obtain ⟨r, rfl, hid⟩ := h2 l hl
          refine ⟨hpc, ?_⟩
          simp only [replyTo, hmeth, hre, hid]
          simp
        · obtain ⟨r, rfl, _⟩ := h2 l hl
          trivial
      split
      · next res hres => exact key res "result" (by simp [hres])
      · split
        · next err herr => exact key err "error" (by simp [herr])
        · exact fr _ (frame_sendResponse ..)

theorem sim7_parseJsonArray (cfg : Config) (c : Nat) (l : List Json) (x : Ctx) (he : EO x.st) :
    ∃ ls, ls.length ≤ l.length ∧ (∀ lb ∈ ls, LblFrom c (fun rid => l.any (replyTo rid)) lb) ∧
      Steps7 ls (rs x) (rs (parseJsonArray cfg x c l).1) := by
  induction l generalizing x with
  | nil => exact ⟨[], by simp, by simp, rfl⟩
  | cons j rest ih =>
    have stop : ∃ ls : List Lbl, ls.length ≤ (j :: rest).length ∧
        (∀ lb ∈ ls, LblFrom c (fun rid => (j :: rest).any (replyTo rid)) lb) ∧ Steps7 ls (rs x) (rs x) :=
      ⟨[], by simp, by simp, rfl⟩
    cases j with
    | obj m =>
      unfold parseJsonArray
      obtain ⟨ls1, a1, a2, a3⟩ := sim7_parseJsonRpc cfg x c (.obj m) he
      dsimp only
      split
      · obtain ⟨ls2, b1, b2, b3⟩ := ih (parseJsonRpc cfg x c (.obj m)).1 (eo_parseJsonRpc cfg x c _ he)
        refine ⟨ls1 ++ ls2, by simp; omega, ?_, Steps7.append a3 b3⟩
        intro lb hlb
        rcases List.mem_append.mp hlb with h | h
        · exact (a2 lb h).mono (fun rid hr => by simp [hr])
        · exact (b2 lb h).mono (fun rid hr => by simp only [List.any_cons, hr, Bool.or_true])
      · refine ⟨ls1, by simp; omega, ?_, a3⟩
        intro lb h
        exact (a2 lb h).mono (fun rid hr => by simp [hr])
    | null => exact stop
    | bool _ => exact stop
    | num _ => exact stop
    | str _ => exact stop
    | arr _ => exact stop

theorem sim7_parseMessage (cfg : Config) (x : Ctx) (c : Nat) (msg : Option Json) (he : EO x.st) :
    ∃ ls, ls.length ≤ msgWeight msg ∧ (∀ lb ∈ ls, LblFrom c (msgReplies msg) lb) ∧
      Steps7 ls (rs x) (rs (parseMessage cfg x c msg).1) := by
  unfold parseMessage
  split
  · exact sim7_parseJsonArray cfg c _ x he
  · exact sim7_parseJsonRpc cfg x c _ he
  · exact ⟨[], by simp, by simp, rfl⟩

theorem sim7_closePeer (x : Ctx) (c : Nat) (h : (findPeer x.st.peers c).isSome = true) :
    Steps7 [.close c] (rs x) (rs (closePeer x c)) :=
  steps_to7 (sim_closePeer x c h) (fun l hl => by
    simp only [List.mem_singleton] at hl; subst hl; trivial)

/-- one operation: the labels of `sim_step`, with live owners -/
theorem sim7_step (cfg : Config) (s : State) (op : Op) (hw : (rsS s []).Wf) (he : EO s) :
    ∃ ls, OpLbls cfg s op ls ∧
      Steps7 ls (rsS s []) (rsS (step cfg s op).1 (tobs (step cfg s op).2.reverse)) := by
  cases op with
  | connect c ws isLocal addr =>
    rw [C03.step_connect]
    split
    · exact ⟨[], Or.inl rfl, rfl⟩
    · next h =>
      refine ⟨[.connect c addr], Or.inr rfl, ?_, trivial, ?_⟩
      · intro v hv e
        apply h
        rw [findPeer_isSome_iff_conns]
        exact mem_conns_iff.mpr ⟨v, hv, e⟩
      · show _ = _
        simp [rsS, app, pview]
  | message c msg o =>
    rw [C03.step_message]
    split
    · exact ⟨[], Or.inl rfl, rfl⟩
    · next hlive =>
      obtain ⟨ls1, h1, h2, h3⟩ := sim7_parseMessage cfg (mkCtx s o) c msg he
      refine ⟨ls1 ++ (if (parseMessage cfg (mkCtx s o) c msg).2 then [] else [.close c]),
        Or.inr ⟨ls1, h1, h2, rfl⟩, ?_⟩
      dsimp only
      cases hok : (parseMessage cfg (mkCtx s o) c msg).2 with
      | true =>
        simpa [rs_eq_rsS, List.reverse_reverse] using h3
      | false =>
        have hc : (findPeer (parseMessage cfg (mkCtx s o) c msg).1.st.peers c).isSome = true := by
          rw [findPeer_isSome_iff_conns]
          have := conns_steps_from h3.steps h2
          simp only [rs] at this
          rw [this, ← findPeer_isSome_iff_conns]
          exact isSome_of_not_isNone hlive
        have := Steps7.append h3 (sim7_closePeer _ c hc)
        simpa [rs_eq_rsS, List.reverse_reverse] using this
  | disconnect c o =>
    rw [C03.step_disconnect]
    split
    · exact ⟨[], Or.inl rfl, rfl⟩
    · next h =>
      refine ⟨[.close c], Or.inr rfl, ?_⟩
      have := sim7_closePeer (mkCtx s o) c (isSome_of_not_isNone h)
      simpa [rs_eq_rsS, List.reverse_reverse] using this
  | timerFire t o =>
    rw [C03.step_timerFire]
    obtain ⟨ls, h1, h2, h3⟩ := sim_timeoutFired (mkCtx s o) t hw
    refine ⟨ls, ⟨h1, h2⟩, ?_⟩
    have h7 := steps_to7 h3 (fun l hl => by obtain ⟨r, rfl, _⟩ := h2 l hl; trivial)
    simpa [rs_eq_rsS, List.reverse_reverse] using h7

end Cjet.Daemon.C07
