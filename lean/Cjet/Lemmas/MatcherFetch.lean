import Cjet.Lemmas.MatcherRule

/-! Helper lemmas for C16: `create_matcher`, the fill loop of `add_matchers`, `state_matches`. -/

namespace Cjet.Matcher

open List
open Cjet.Generated.Matcher (CFn Entry table optionKey optionKeyCmpLen)

/-! ### create_matcher -/

/-- Soundness of `create_matcher`: what it builds is the declared matcher. -/
theorem buildMatcher_ok {cfg : Cfg} (hs : cfg.Sane) {ci : Bool} {key : Bytes} {v : JVal} {pm : PathMatcher}
    (h : buildMatcher cfg ci key v = .ok pm) :
    ∃ k ops, specKind (cstr key) = some k ∧ operands k v = some ops ∧
      kindOfFn pm.fn = (k, ci) ∧ pm.elems = ops := by
  unfold buildMatcher at h
  split at h
  · simp at h
  · rename_i e he
    obtain ⟨k, hk, hcs, hci, hm⟩ := (lookupEntry_specKind (nulFree_cstr key)).1 e he
    have hfn : kindOfFn (if ci = true then e.caseInsensitive else e.caseSensitive) = (k, ci) := by
      cases ci <;> simp [hcs, hci]
    by_cases hmulti : e.multi = true
    · simp only [hmulti, ↓reduceIte] at h
      split at h
      · rename_i items
        by_cases hc : callocOk cfg (pathMatcherBytes items.length) = true
        · simp only [hc, Bool.not_true, Bool.false_eq_true, ↓reduceIte] at h
          split at h
          · simp at h
          · rename_i ops hops
            simp only [Except.ok.injEq] at h
            subst h
            refine ⟨k, ops, hk, ?_, hfn, rfl⟩
            have hne : items ≠ [] := by
              rintro rfl
              simp [callocOk_zero_false hs] at hc
            unfold operands
            rw [← hm, hmulti]
            cases items with
            | nil => exact absurd rfl hne
            | cons i is => simpa [fillPathElements_eq_allStrings] using hops
        · simp [hc] at h
      · simp at h
    · simp only [hmulti, Bool.false_eq_true, ↓reduceIte] at h
      split at h
      · rename_i s
        by_cases hc : callocOk cfg (pathMatcherBytes 1) = true
        · simp only [hc, Bool.not_true, Bool.false_eq_true, ↓reduceIte, Except.ok.injEq] at h
          subst h
          refine ⟨k, [cstr s], hk, ?_, hfn, rfl⟩
          unfold operands
          rw [← hm]
          simp [hmulti]
        · simp [hc] at h
      · simp at h

/-- Completeness of `create_matcher`: a declared, well-typed matcher that fits the heap is built. -/
theorem buildMatcher_complete {cfg : Cfg} {ci : Bool} {key : Bytes} {v : JVal} {k : Kind} {ops : List Bytes}
    (hk : specKind (cstr key) = some k) (ho : operands k v = some ops)
    (hfit1 : callocOk cfg (pathMatcherBytes 1) = true)
    (hfit : ∀ items, v = .arr items → items ≠ [] → callocOk cfg (pathMatcherBytes items.length) = true) :
    ∃ pm, buildMatcher cfg ci key v = .ok pm := by
  unfold buildMatcher
  have hl := lookupEntry_specKind (nulFree_cstr key)
  cases he : lookupEntry (cstr key) table with
  | none =>
    rw [hl.2 he] at hk
    simp at hk
  | some e =>
    obtain ⟨k', hk', _, _, hm⟩ := hl.1 e he
    rw [hk] at hk'
    simp only [Option.some.injEq] at hk'
    subst hk'
    simp only
    unfold operands at ho
    by_cases hmulti : e.multi = true
    · rw [hm] at hmulti
      simp only [hmulti, ↓reduceIte] at ho
      simp only [hm, hmulti, ↓reduceIte]
      split at ho
      · simp at ho
      · rename_i items hne
        have hne' : items ≠ [] := by
          rintro rfl
          exact hne rfl
        simp [hfit items rfl hne', fillPathElements_eq_allStrings, ho]
      · simp at ho
    · rw [hm] at hmulti
      simp only [hmulti, Bool.false_eq_true, ↓reduceIte] at ho
      simp only [hm, hmulti, Bool.false_eq_true, ↓reduceIte]
      split at ho
      · simp [hfit1]
      · simp at ho

/-- A key the option lookup of `create_fetch` would take for the option is never a matcher name:
    `create_matcher` fails on it. -/
theorem buildMatcher_loose_fails {cfg : Cfg} {ci : Bool} {key : Bytes} {v : JVal}
    (hl : cjsonKeyEq (Cjet.Generated.Matcher.optionLookupCaseSensitive ||
      Cjet.Generated.Matcher.cjsonGetObjectItemCaseSensitive) optionKey (cstr key) = true) :
    ∀ pm, buildMatcher cfg ci key v ≠ .ok pm := by
  intro pm h
  unfold buildMatcher at h
  split at h
  · simp at h
  · rename_i e he
    obtain ⟨hm, hname⟩ := lookupEntry_table (nulFree_cstr key) he
    have := table_not_option e hm
    rw [hname, hl] at this
    simp at this


/-! ### the fill loop of add_matchers -/

/-- What the fill loop builds, member by member (proof device: the loop without the slot array). -/
def builtList (cfg : Cfg) (ci : Bool) : Members → Except Why (List PathMatcher)
  | [] => .ok []
  | (k, v) :: rest =>
    if !isOptionKey k then
      match buildMatcher cfg ci k v with
      | .error w => .error w
      | .ok pm =>
        match builtList cfg ci rest with
        | .error w => .error w
        | .ok pms => .ok (pm :: pms)
    else builtList cfg ci rest

theorem set_filled (filled : List PathMatcher) (r : Nat) (pm : PathMatcher) :
    (filled.map some ++ List.replicate (r + 1) none).set filled.length (some pm) =
      (filled ++ [pm]).map some ++ List.replicate r none := by
  induction filled with
  | nil => simp [List.replicate_succ]
  | cons a t ih => simpa using ih

/-- Invariant of the fill loop: the slots are the matchers built so far followed by NULLs. -/
theorem addMatchers_ok {cfg : Cfg} {fc ci : Bool} {n : Nat} :
    ∀ (members : Members) (filled : List PathMatcher) (r : Nat) (slots' : Slots),
      addMatchers cfg fc ci n members filled.length (filled.map some ++ List.replicate r none) = .ok slots' →
      ∃ pms, builtList cfg ci members = .ok pms ∧ pms.length ≤ r ∧
        slots' = (filled ++ pms).map some ++ List.replicate (r - pms.length) none ∧
        (fc = true → filled.length + pms.length = n)
  | [], filled, r, slots', h => by
    unfold addMatchers at h
    split at h
    · simp at h
    · rename_i hc
      simp only [Except.ok.injEq] at h
      subst h
      refine ⟨[], rfl, by simp, by simp, ?_⟩
      intro hfc
      simpa [hfc] using hc
  | (k, v) :: rest, filled, r, slots', h => by
    unfold addMatchers at h
    unfold builtList
    by_cases hopt : isOptionKey k = true
    · simp only [hopt, Bool.not_true, Bool.false_eq_true, ↓reduceIte] at h ⊢
      exact addMatchers_ok rest filled r slots' h
    · simp only [hopt, Bool.not_false, ↓reduceIte] at h ⊢
      unfold createMatcher at h
      cases hb : buildMatcher cfg ci k v with
      | error w => simp [hb] at h
      | ok pm =>
        simp only [hb] at h ⊢
        cases r with
        | zero => simp at h
        | succ r' =>
          have hlt : filled.length < (filled.map some ++ List.replicate (r' + 1) none).length := by simp
          simp only [hlt, ↓reduceIte, set_filled] at h
          have hlen : filled.length + 1 = (filled ++ [pm]).length := by simp
          rw [hlen] at h
          obtain ⟨pms, hpms, hle, hslots, hn⟩ := addMatchers_ok rest (filled ++ [pm]) r' slots' h
          refine ⟨pm :: pms, by simp [hpms], by simp; omega, ?_, ?_⟩
          · rw [hslots]
            simp
          · intro hfc
            have := hn hfc
            simp at this ⊢
            omega

theorem builtList_length {cfg : Cfg} {ci : Bool} : ∀ {members : Members} {pms : List PathMatcher},
    builtList cfg ci members = .ok pms → pms.length = matcherCount members
  | [], pms, h => by
    simp only [builtList, Except.ok.injEq] at h
    subst h
    rfl
  | (k, v) :: rest, pms, h => by
    unfold builtList at h
    have hio := isOptionKey_eq (k, v)
    by_cases hopt : isOptionKey k = true
    · simp only [hopt, Bool.not_true, Bool.false_eq_true, ↓reduceIte] at h
      have := builtList_length h
      rw [this]
      simp [matcherCount, ← hio, hopt]
    · simp only [hopt, Bool.not_false, ↓reduceIte] at h
      cases hb : buildMatcher cfg ci k v with
      | error w => simp [hb] at h
      | ok pm =>
        cases hr : builtList cfg ci rest with
        | error w => simp [hb, hr] at h
        | ok pms' =>
          simp only [hb, hr, Except.ok.injEq] at h
          subst h
          have := builtList_length hr
          simp [matcherCount, ← hio, hopt, this]

/-! ### state_matches -/

theorem stateLoop_filled (path : Bytes) : ∀ (pms pre : List PathMatcher),
    stateLoop ((pre ++ pms).map some) path pre.length pms.length =
      .verdict (pms.all (fun pm => evalFn pm.fn pm path != 0))
  | [], pre => by simp [stateLoop]
  | pm :: t, pre => by
    have ih := stateLoop_filled path t (pre ++ [pm])
    simp only [List.length_cons]
    unfold stateLoop
    have hget : ((pre ++ pm :: t).map some)[pre.length]? = some (some pm) := by simp
    simp only [hget]
    by_cases h0 : (evalFn pm.fn pm path == 0) = true
    · have h1 : evalFn pm.fn pm path = 0 := by simpa using h0
      simp [h1]
    · have h1 : ¬ evalFn pm.fn pm path = 0 := by simpa using h0
      simp only [h0, Bool.false_eq_true, ↓reduceIte]
      have hl : pre.length + 1 = (pre ++ [pm]).length := by simp
      have hc : pre ++ pm :: t = (pre ++ [pm]) ++ t := by simp
      rw [hl, hc, ih]
      simp [h1]


/-! ### what the built matchers say -/

theorem builtList_members {cfg : Cfg} {ci : Bool} : ∀ {members : Members} {pms : List PathMatcher},
    builtList cfg ci members = .ok pms →
    ∀ m ∈ members, isOption m = true ∨ ∃ pm, buildMatcher cfg ci m.1 m.2 = .ok pm
  | [], _, _ => by simp
  | (k, v) :: rest, pms, h => by
    unfold builtList at h
    have hio := isOptionKey_eq (k, v)
    intro m hm
    by_cases hopt : isOptionKey k = true
    · simp only [hopt, Bool.not_true, Bool.false_eq_true, ↓reduceIte] at h
      rcases List.mem_cons.mp hm with rfl | hm
      · left
        rw [← hio, hopt]
      · exact builtList_members h m hm
    · simp only [hopt, Bool.not_false, ↓reduceIte] at h
      cases hb : buildMatcher cfg ci k v with
      | error w => simp [hb] at h
      | ok pm =>
        cases hr : builtList cfg ci rest with
        | error w => simp [hb, hr] at h
        | ok pms' =>
          rcases List.mem_cons.mp hm with rfl | hm
          · right
            exact ⟨pm, hb⟩
          · exact builtList_members hr m hm

/-- The conjunction over the built matchers is the conjunction over the declared matchers. -/
theorem builtList_spec {cfg : Cfg} (hs : cfg.Sane) {ci : Bool} (path : Bytes) (hp : NulFree path) :
    ∀ {members : Members} {pms : List PathMatcher}, builtList cfg ci members = .ok pms →
    ((∀ pm ∈ pms, evalFn pm.fn pm path ≠ 0) ↔
      ∀ m ∈ members, isOption m = false →
        ∃ k ops, specKind (cstr m.1) = some k ∧ operands k m.2 = some ops ∧ Spec k ci ops path)
  | [], pms, h => by
    simp only [builtList, Except.ok.injEq] at h
    subst h
    simp
  | (k, v) :: rest, pms, h => by
    unfold builtList at h
    have hio := isOptionKey_eq (k, v)
    by_cases hopt : isOptionKey k = true
    · simp only [hopt, Bool.not_true, Bool.false_eq_true, ↓reduceIte] at h
      rw [builtList_spec hs path hp h]
      have : isOption (k, v) = true := by rw [← hio, hopt]
      simp [this]
    · simp only [hopt, Bool.not_false, ↓reduceIte] at h
      cases hb : buildMatcher cfg ci k v with
      | error w => simp [hb] at h
      | ok pm =>
        cases hr : builtList cfg ci rest with
        | error w => simp [hb, hr] at h
        | ok pms' =>
          simp only [hb, hr, Except.ok.injEq] at h
          subst h
          have ih := builtList_spec hs path hp hr
          obtain ⟨k0, ops0, hk0, ho0, hfn, hel⟩ := buildMatcher_ok hs hb
          have hnf : ∀ e ∈ pm.elems, NulFree e := by
            rw [hel]
            exact operands_nulFree ho0
          have hev := evalFn_spec pm.fn pm path hp hnf
          rw [hfn, hel] at hev
          have hno : isOption (k, v) = false := by
            rw [← hio]
            simpa using hopt
          simp only [List.mem_cons, forall_eq_or_imp, ih, hev, hno, true_implies]
          constructor
          · rintro ⟨h1, h2⟩
            exact ⟨⟨k0, ops0, hk0, ho0, h1⟩, h2⟩
          · rintro ⟨⟨k1, ops1, hk1, ho1, h1⟩, h2⟩
            rw [hk0] at hk1
            simp only [Option.some.injEq] at hk1
            subst hk1
            rw [ho0] at ho1
            simp only [Option.some.injEq] at ho1
            subst ho1
            exact ⟨h1, h2⟩

/-! ### the option lookup of create_fetch against the fill loop's own test -/

theorem isOption_loose {m : Bytes × JVal} (h : isOption m = true) :
    cjsonKeyEq (Cjet.Generated.Matcher.optionLookupCaseSensitive ||
      Cjet.Generated.Matcher.cjsonGetObjectItemCaseSensitive) optionKey (cstr m.1) = true := by
  have : cstr m.1 = optionKey := by simpa [isOption] using h
  rw [this]
  decide

/-- When every member is either the option key or a matcher that builds, the cJSON lookup finds
    exactly the first member the fill loop skips. -/
theorem getCaseInsensitive_eq {cfg : Cfg} {ci : Bool} : ∀ {members : Members},
    (∀ m ∈ members, isOption m = true ∨ ∃ pm, buildMatcher cfg ci m.1 m.2 = .ok pm) →
    getCaseInsensitive members = (members.find? isOption).map (·.2)
  | [], _ => rfl
  | (k, v) :: rest, h => by
    have ih := getCaseInsensitive_eq (members := rest) (fun m hm => h m (List.mem_cons_of_mem _ hm))
    unfold getCaseInsensitive at ih ⊢
    unfold getObjectItem
    by_cases hl : cjsonKeyEq (Cjet.Generated.Matcher.optionLookupCaseSensitive ||
        Cjet.Generated.Matcher.cjsonGetObjectItemCaseSensitive) optionKey (cstr k) = true
    · have hopt : isOption (k, v) = true := by
        rcases h (k, v) (by simp) with ho | ⟨pm, hpm⟩
        · exact ho
        · exact absurd hpm (buildMatcher_loose_fails hl pm)
      simp [hl, hopt]
    · have hopt : isOption (k, v) = false := by
        cases ho : isOption (k, v)
        · rfl
        · exact absurd (isOption_loose ho) hl
      simp only [hl, Bool.false_eq_true, ↓reduceIte, ih, List.find?_cons, hopt]

theorem count_split : ∀ (members : Members), members.length = optionCount members + matcherCount members
  | [] => rfl
  | m :: rest => by
    have := count_split rest
    unfold optionCount matcherCount at this ⊢
    cases h : isOption m <;> simp [h] <;> omega

theorem optionCount_pos_iff (members : Members) : 0 < optionCount members ↔ (members.find? isOption).isSome = true := by
  unfold optionCount
  rw [List.length_pos_iff, List.find?_isSome]
  constructor
  · intro h
    obtain ⟨x, hx⟩ := List.exists_mem_of_ne_nil _ h
    exact ⟨x, (List.mem_filter.mp hx).1, (List.mem_filter.mp hx).2⟩
  · rintro ⟨x, hx, hp⟩
    exact List.ne_nil_of_mem (List.mem_filter.mpr ⟨hx, hp⟩)

/-! ### no write past the slots -/

/-- Number of stores the fill loop performs before it stops. -/
def writes (cfg : Cfg) (ci : Bool) : Members → Nat
  | [] => 0
  | (k, v) :: rest =>
    if !isOptionKey k then
      match buildMatcher cfg ci k v with
      | .error _ => 0
      | .ok _ => 1 + writes cfg ci rest
    else writes cfg ci rest

theorem buildMatcher_not_oob {cfg : Cfg} {ci : Bool} {k : Bytes} {v : JVal} :
    buildMatcher cfg ci k v ≠ .error .oobWrite := by
  unfold buildMatcher
  repeat' split
  all_goals first | (simp; done) | (intro h; simp only [] at h; split at h <;> simp at h)

theorem addMatchers_no_oob {cfg : Cfg} {fc ci : Bool} {n : Nat} :
    ∀ (members : Members) (idx : Nat) (slots : Slots),
      idx + writes cfg ci members ≤ slots.length →
      addMatchers cfg fc ci n members idx slots ≠ .error .oobWrite
  | [], idx, slots, _ => by
    unfold addMatchers
    split <;> simp
  | (k, v) :: rest, idx, slots, h => by
    unfold addMatchers
    unfold writes at h
    by_cases hopt : isOptionKey k = true
    · simp only [hopt, Bool.not_true, Bool.false_eq_true, ↓reduceIte] at h ⊢
      exact addMatchers_no_oob rest idx slots h
    · simp only [hopt, Bool.not_false, ↓reduceIte] at h ⊢
      unfold createMatcher
      cases hb : buildMatcher cfg ci k v with
      | error w =>
        simp only
        intro hc
        simp only [Except.error.injEq] at hc
        subst hc
        exact buildMatcher_not_oob hb
      | ok pm =>
        simp only [hb] at h
        have hlt : idx < slots.length := by omega
        simp only [hlt, ↓reduceIte]
        apply addMatchers_no_oob rest (idx + 1)
        simp only [List.length_set]
        omega

theorem writes_le_length {cfg : Cfg} {ci : Bool} : ∀ (members : Members), writes cfg ci members ≤ members.length
  | [] => by simp [writes]
  | (k, v) :: rest => by
    have := writes_le_length (cfg := cfg) (ci := ci) rest
    unfold writes
    split
    · split <;> simp <;> omega
    · simp; omega

/-- If the option lookup finds a member, the fill loop stores at most `members − 1` matchers:
    the found member is either skipped or makes `create_matcher` fail. -/
theorem writes_lt_of_found {cfg : Cfg} {ci : Bool} : ∀ (members : Members),
    (getCaseInsensitive members).isSome = true → writes cfg ci members + 1 ≤ members.length
  | [], h => by simp [getCaseInsensitive, getObjectItem] at h
  | (k, v) :: rest, h => by
    unfold getCaseInsensitive getObjectItem at h
    have hle := writes_le_length (cfg := cfg) (ci := ci) rest
    unfold writes
    by_cases hl : cjsonKeyEq (Cjet.Generated.Matcher.optionLookupCaseSensitive ||
        Cjet.Generated.Matcher.cjsonGetObjectItemCaseSensitive) optionKey (cstr k) = true
    · by_cases hopt : isOptionKey k = true
      · simp [hopt]; omega
      · simp only [hopt, Bool.not_false, ↓reduceIte]
        cases hb : buildMatcher cfg ci k v with
        | error w => simp
        | ok pm => exact absurd hb (buildMatcher_loose_fails hl pm)
    · simp only [hl, Bool.false_eq_true, ↓reduceIte] at h
      have ih := writes_lt_of_found (cfg := cfg) (ci := ci) rest h
      split
      · split <;> simp <;> omega
      · simp; omega


/-! ### create_fetch as a whole -/

theorem addMatchers_complete {cfg : Cfg} {fc ci : Bool} {n : Nat} :
    ∀ (members : Members) (filled : List PathMatcher) (r : Nat) (pms : List PathMatcher),
      builtList cfg ci members = .ok pms → pms.length ≤ r →
      (fc = true → filled.length + pms.length = n) →
      addMatchers cfg fc ci n members filled.length (filled.map some ++ List.replicate r none) =
        .ok ((filled ++ pms).map some ++ List.replicate (r - pms.length) none)
  | [], filled, r, pms, hb, _, hn => by
    simp only [builtList, Except.ok.injEq] at hb
    subst hb
    unfold addMatchers
    cases fc
    · simp
    · have := hn rfl
      simp at this
      simp [this]
  | (k, v) :: rest, filled, r, pms, hb, hle, hn => by
    unfold builtList at hb
    unfold addMatchers
    by_cases hopt : isOptionKey k = true
    · simp only [hopt, Bool.not_true, Bool.false_eq_true, ↓reduceIte] at hb ⊢
      exact addMatchers_complete rest filled r pms hb hle hn
    · simp only [hopt, Bool.not_false, ↓reduceIte] at hb ⊢
      cases hbm : buildMatcher cfg ci k v with
      | error w => simp [hbm] at hb
      | ok pm =>
        cases hr : builtList cfg ci rest with
        | error w => simp [hbm, hr] at hb
        | ok pms' =>
          simp only [hbm, hr, Except.ok.injEq] at hb
          subst hb
          simp only [List.length_cons] at hle hn
          obtain ⟨r', rfl⟩ : ∃ r', r = r' + 1 := ⟨r - 1, by omega⟩
          unfold createMatcher
          have hlt : filled.length < (filled.map some ++ List.replicate (r' + 1) none).length := by simp
          simp only [hbm, hlt, ↓reduceIte, set_filled]
          have hlen : filled.length + 1 = (filled ++ [pm]).length := by simp
          rw [hlen]
          have := addMatchers_complete (cfg := cfg) (fc := fc) (ci := ci) (n := n) rest (filled ++ [pm]) r' pms' hr
            (by omega) (by intro hfc; have := hn hfc; simp; omega)
          rw [this]
          simp

/-- Analysis of a successful `create_fetch` on a path object. -/
theorem createFetchWith_obj_ok {fc : Bool} {cfg : Cfg} {members : Members} {f : Fetch}
    (h : createFetchWith fc cfg (.obj members) = .ok f) :
    ∃ pms, builtList cfg (countAndCase members).2 members = .ok pms ∧
      pms.length ≤ (countAndCase members).1 ∧
      f = { numberOfMatchers := (countAndCase members).1,
            matcher := pms.map some ++ List.replicate ((countAndCase members).1 - pms.length) none } ∧
      (countAndCase members).1 ≠ 0 ∧ (countAndCase members).1 ≤ cfg.maxMatchers ∧
      (fc = true → pms.length = (countAndCase members).1) := by
  unfold createFetchWith at h
  simp only at h
  generalize (countAndCase members).1 = n at h ⊢
  generalize (countAndCase members).2 = ci at h ⊢
  by_cases h0 : (n == 0) = true
  · simp [h0] at h
  · simp only [h0, Bool.false_eq_true, ↓reduceIte] at h
    by_cases hmax : n > cfg.maxMatchers
    · simp [hmax] at h
    · simp only [hmax, ↓reduceIte] at h
      cases ha : addMatchers cfg fc ci n members 0 (allocFetch n).matcher with
      | error w => simp [ha] at h
      | ok slots =>
        simp only [ha, Except.ok.injEq] at h
        have ha' : addMatchers cfg fc ci n members ([] : List PathMatcher).length
            (([] : List PathMatcher).map some ++ List.replicate n none) = .ok slots := by
          simpa [allocFetch] using ha
        obtain ⟨pms, hb, hle, hs, hn⟩ := addMatchers_ok members [] n slots ha'
        refine ⟨pms, hb, hle, ?_, by simpa using h0, by omega, ?_⟩
        · rw [← h, hs]
          simp [allocFetch]
        · intro hfc
          simpa using hn hfc

/-- When the fill loop succeeds, the count and the case flag of `create_fetch` are what the
    property reads off the rule. -/
theorem countAndCase_of_built {cfg : Cfg} {ci : Bool} {members : Members} {pms : List PathMatcher}
    (hb : builtList cfg ci members = .ok pms) :
    countAndCase members =
      (members.length - (if (members.find? isOption).isSome then 1 else 0), optionCI members) := by
  unfold countAndCase optionCI
  rw [getCaseInsensitive_eq (builtList_members hb)]
  cases members.find? isOption with
  | none => simp
  | some kv => simp

/-- When the fill loop succeeds and fills as many slots as were counted, the option key occurs at
    most once and the count is the number of matchers. -/
theorem counts_of_built {cfg : Cfg} {ci : Bool} {members : Members} {pms : List PathMatcher}
    (hb : builtList cfg ci members = .ok pms) (hlen : pms.length = (countAndCase members).1) :
    optionCount members ≤ 1 ∧ (countAndCase members).1 = matcherCount members := by
  have hcc := countAndCase_of_built hb
  have hl := builtList_length hb
  have hsplit := count_split members
  have hpos := optionCount_pos_iff members
  rw [hcc] at hlen ⊢
  simp only at hlen ⊢
  cases hf : (members.find? isOption).isSome
  · simp only [hf, Bool.false_eq_true, ↓reduceIte, Nat.sub_zero] at hlen ⊢
    constructor <;> omega
  · simp only [hf, ↓reduceIte] at hlen ⊢
    have : 0 < optionCount members := hpos.mpr hf
    constructor <;> omega

end Cjet.Matcher
