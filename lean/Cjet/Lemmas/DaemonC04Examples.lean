/-
  C04 — concrete reachable states and requests used by the non-vacuity examples of
  `Cjet.Props.C04`, with the reflection lemmas that let the kernel check them (`decide +kernel`
  on Bool-valued views; `Json` has no decidable equality).
-/
import Cjet.Lemmas.DaemonC04Out

namespace Cjet.Daemon.C04

open Cjet Cjet.Json Cjet.Daemon

theorem getItem_cons_self (key : Bytes) (v : Json) (rest : List (Bytes × Json)) :
    (Json.obj ((key, v) :: rest)).getItem key = some v := by
  simp [getItem, findItem, keyEq]

theorem getItem_cons_ne {a b : Bytes} (h : keyEq a b = false) (v : Json) (rest : List (Bytes × Json)) :
    (Json.obj ((a, v) :: rest)).getItem b = (Json.obj rest).getItem b := by
  simp [getItem, findItem, h]

theorem getItem_nil (b : Bytes) : (Json.obj []).getItem b = none := rfl

theorem keyEq_method_params : keyEq (k "method") (k "params") = false := by decide +kernel
theorem keyEq_path_value : keyEq (k "path") (k "value") = false := by decide +kernel
theorem keyEq_path_fetchOnly : keyEq (k "path") (k "fetchOnly") = false := by decide +kernel
theorem keyEq_value_fetchOnly : keyEq (k "value") (k "fetchOnly") = false := by decide +kernel
theorem keyEq_path_timeout : keyEq (k "path") (k "timeout") = false := by decide +kernel
theorem keyEq_value_timeout : keyEq (k "value") (k "timeout") = false := by decide +kernel
theorem keyEq_path_access : keyEq (k "path") (k "access") = false := by decide +kernel
theorem keyEq_value_access : keyEq (k "value") (k "access") = false := by decide +kernel

/-- some output is the sending of an object with an "error" member -/
def anyErrSend (l : List Obs) : Bool :=
  l.any (fun o => match o with | .send _ j _ => (j.getItem (k "error")).isSome | _ => false)

theorem exists_errSend_of_any {l : List Obs} (h : anyErrSend l = true) :
    ∃ c j b, Obs.send c j b ∈ l ∧ (j.getItem (k "error")).isSome = true := by
  simp only [anyErrSend, List.any_eq_true] at h
  obtain ⟨o, ho, h2⟩ := h
  cases o with
  | send c j b => exact ⟨c, j, b, ho, h2⟩
  | _ => cases h2

/-- `{"method": m, "params": {"path": path, "value": null}, "id": "1"}` -/
def mkReq (m : String) (path : Bytes) : Json :=
  .obj [(k "method", .str (k m)), (k "params", .obj [(k "path", .str path), (k "value", .null)]),
        (k "id", .str [0x31])]

def mkParams (path : Bytes) : Json := .obj [(k "path", .str path), (k "value", .null)]

theorem mkReq_method (m : String) (path : Bytes) : (mkReq m path).getItem (k "method") = some (.str (k m)) :=
  getItem_cons_self ..

theorem mkReq_params (m : String) (path : Bytes) : (mkReq m path).getItem (k "params") = some (mkParams path) :=
  (getItem_cons_ne keyEq_method_params _ _).trans (getItem_cons_self ..)

theorem mkParams_path (path : Bytes) : (mkParams path).getItem (k "path") = some (.str path) :=
  getItem_cons_self ..

theorem mkParams_value (path : Bytes) : (mkParams path).getItem (k "value") = some .null :=
  (getItem_cons_ne keyEq_path_value _ _).trans (getItem_cons_self ..)

theorem mkParams_fetchOnly (path : Bytes) : (mkParams path).getItem (k "fetchOnly") = none :=
  (getItem_cons_ne keyEq_path_fetchOnly _ _).trans ((getItem_cons_ne keyEq_value_fetchOnly _ _).trans rfl)

theorem mkParams_timeout (path : Bytes) : (mkParams path).getItem (k "timeout") = none :=
  (getItem_cons_ne keyEq_path_timeout _ _).trans ((getItem_cons_ne keyEq_value_timeout _ _).trans rfl)

theorem mkParams_access (path : Bytes) : (mkParams path).getItem (k "access") = none :=
  (getItem_cons_ne keyEq_path_access _ _).trans ((getItem_cons_ne keyEq_value_access _ _).trans rfl)

theorem mkReq_answerable (m : String) (path : Bytes) : answerable (mkReq m path) := by
  refine Or.inl ⟨[0x31], ?_⟩
  have h1 : keyEq (k "method") (k "id") = false := by decide +kernel
  have h2 : keyEq (k "params") (k "id") = false := by decide +kernel
  exact (getItem_cons_ne h1 _ _).trans ((getItem_cons_ne h2 _ _).trans (getItem_cons_self ..))

/-- `{"method": "add", "params": {"path": "m"}, "id": "1"}` — a method -/
def addMethodReq : Json :=
  .obj [(k "method", .str (k "add")), (k "params", .obj [(k "path", .str [0x6d])]), (k "id", .str [0x31])]

/-- A reachable state: peers 1, 2, 3; peer 1 owns the state "s" (value null) and the method "m";
    peer 2 owns the fetch-only state "f". -/
def exOps : List Op :=
  [.connect 1 false true [], .connect 2 false true [], .connect 3 false true [],
   .message 1 (some (mkReq "add" [0x73])) {},
   .message 1 (some addMethodReq) {},
   .message 2 (some (.obj [(k "method", .str (k "add")),
      (k "params", .obj [(k "path", .str [0x66]), (k "value", .null), (k "fetchOnly", .bool true)])])) {}]

def exS : State := (run {} {} exOps).1

theorem exS_wf : WF exS := (wf_iff_wfs _).2 (wfs_run {} exOps {} (wfs_init []))

theorem exists_of_isSome {α} {o : Option α} (h : o.isSome = true) : ∃ a, o = some a :=
  Option.isSome_iff_exists.1 h

theorem eq_none_of_isNone {α} {o : Option α} (h : o.isNone = true) : o = none := by
  cases o with
  | none => rfl
  | some _ => cases h

end Cjet.Daemon.C04
