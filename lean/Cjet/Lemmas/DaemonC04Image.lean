/-
  C04 — list-level lemmas on images: the pointwise form of well-formedness and its preservation
  by the four shapes of update the daemon performs (append an element to one peer's list and to
  the index; filter a path out of one peer's list and of the index; replace the info stored under
  a path; add / delete a peer).
-/
import Cjet.Lemmas.DaemonC04Defs

namespace Cjet.Daemon.C04

open Cjet Cjet.Json Cjet.Daemon

/-! ## generic list facts -/

theorem nodup_map_inj {α β} {f : α → β} {l : List α} (h : (l.map f).Nodup) {a b : α}
    (ha : a ∈ l) (hb : b ∈ l) (hab : f a = f b) : a = b := by
  induction l with
  | nil => cases ha
  | cons x xs ih =>
    simp only [List.map_cons, List.nodup_cons, List.mem_map, not_exists, not_and] at h
    simp only [List.mem_cons] at ha hb
    rcases ha with rfl | ha <;> rcases hb with rfl | hb
    · rfl
    · exact absurd hab.symm (h.1 b hb)
    · exact absurd hab (h.1 a ha)
    · exact ih h.2 ha hb

theorem nodup_keys_unique {l : List Entry} (h : (l.map (·.1)).Nodup) {q : Bytes} {i i' : ElemInfo}
    (hi : (q, i) ∈ l) (hi' : (q, i') ∈ l) : i = i' := by
  have := nodup_map_inj h hi hi' rfl
  exact (Prod.mk.inj this).2

theorem find_key_some {β} {l : List (Bytes × β)} (h : (l.map (·.1)).Nodup) {q : Bytes} {x : Bytes × β} :
    l.find? (·.1 == q) = some x ↔ x ∈ l ∧ x.1 = q := by
  constructor
  · intro hf
    have h1 := List.find?_some hf
    have h2 := List.mem_of_find?_eq_some hf
    exact ⟨h2, by simpa using h1⟩
  · rintro ⟨hx, rfl⟩
    cases hf : l.find? (·.1 == x.1) with
    | none =>
      rw [List.find?_eq_none] at hf
      exact absurd (by simp) (hf x hx)
    | some y =>
      have h1 := List.find?_some hf
      have h2 := List.mem_of_find?_eq_some hf
      have : y = x := nodup_map_inj h h2 hx (by simpa using h1)
      rw [this]

theorem find_key_none {β} {l : List (Bytes × β)} {q : Bytes} :
    l.find? (·.1 == q) = none ↔ ∀ x ∈ l, x.1 ≠ q := by
  rw [List.find?_eq_none]
  constructor
  · intro h x hx; simpa using h x hx
  · intro h x hx; simpa using h x hx

/-! ## updates of an image -/

def updImage (im : Image) (c : Nat) (g : List Entry → List Entry) : Image :=
  im.map (fun ol => if ol.1 == c then (ol.1, g ol.2) else ol)

theorem mem_updImage {im : Image} {c : Nat} {g} {o : Nat} {l' : List Entry} :
    (o, l') ∈ updImage im c g ↔ ∃ l, (o, l) ∈ im ∧ l' = if o = c then g l else l := by
  simp only [updImage, List.mem_map]
  constructor
  · rintro ⟨⟨o1, l1⟩, hm, he⟩
    by_cases hc : o1 = c
    · subst hc
      simp only [beq_self_eq_true, ↓reduceIte, Prod.mk.injEq] at he
      obtain ⟨rfl, rfl⟩ := he
      exact ⟨l1, hm, by simp⟩
    · have : (o1 == c) = false := by simpa using hc
      simp only [this, Bool.false_eq_true, ↓reduceIte, Prod.mk.injEq] at he
      obtain ⟨rfl, rfl⟩ := he
      exact ⟨l1, hm, by simp [hc]⟩
  · rintro ⟨l, hm, rfl⟩
    refine ⟨(o, l), hm, ?_⟩
    by_cases hc : o = c
    · subst hc; simp
    · have : (o == c) = false := by simpa using hc
      simp [this, hc]

theorem updImage_conns (im : Image) (c : Nat) (g) : (updImage im c g).map (·.1) = im.map (·.1) := by
  simp only [updImage, List.map_map]
  apply List.map_congr_left
  intro ol _
  simp only [Function.comp]
  split <;> rfl

theorem updImage_id_of {im : Image} {c : Nat} {g} (h : ∀ l, (c, l) ∈ im → g l = l) :
    updImage im c g = im := by
  simp only [updImage]
  conv => rhs; rw [← List.map_id im]
  apply List.map_congr_left
  rintro ⟨o, l⟩ hm
  by_cases hc : o = c
  · subst hc; simp [h l hm]
  · have : (o == c) = false := by simpa using hc
    simp [this]

/-! ## images of peer lists -/

theorem image_map {ps : List Peer} {g : Peer → Peer}
    (h : ∀ p ∈ ps, (g p).conn = p.conn ∧ peerAbs (g p) = peerAbs p) : image (ps.map g) = image ps := by
  simp only [image, List.map_map]
  apply List.map_congr_left
  intro p hp
  simp only [Function.comp, (h p hp).1, (h p hp).2]

theorem image_updatePeer {ps : List Peer} {c : Nat} {f : Peer → Peer} {g : List Entry → List Entry}
    (h : ∀ p ∈ ps, p.conn = c → (f p).conn = p.conn ∧ peerAbs (f p) = g (peerAbs p)) :
    image (updatePeer ps c f) = updImage (image ps) c g := by
  simp only [image, updatePeer, updImage, List.map_map]
  apply List.map_congr_left
  intro p hp
  simp only [Function.comp]
  by_cases hc : p.conn = c
  · have h1 : (p.conn == c) = true := by simpa using hc
    simp only [h1, ↓reduceIte, (h p hp hc).1, (h p hp hc).2]
  · have h1 : (p.conn == c) = false := by simpa using hc
    simp only [h1, Bool.false_eq_true, ↓reduceIte]

theorem image_updatePeer_same {ps : List Peer} {c : Nat} {f : Peer → Peer}
    (h : ∀ p ∈ ps, p.conn = c → (f p).conn = p.conn ∧ peerAbs (f p) = peerAbs p) :
    image (updatePeer ps c f) = image ps := by
  rw [image_updatePeer (g := id) h]
  exact updImage_id_of (fun _ _ => rfl)

theorem image_mapElements {ps : List Peer} {f : Element → Element} (h : ∀ e, entry (f e) = entry e) :
    image (mapElements ps f) = image ps := by
  simp only [mapElements]
  apply image_map
  intro p _
  refine ⟨rfl, ?_⟩
  simp only [peerAbs, List.map_map]
  apply List.map_congr_left
  intro e _
  exact h e

theorem image_filter (ps : List Peer) (c : Nat) :
    image (ps.filter (·.conn != c)) = (image ps).filter (·.1 != c) := by
  simp only [image, List.filter_map]
  rfl

theorem image_append (ps qs : List Peer) : image (ps ++ qs) = image ps ++ image qs := by
  simp only [image, List.map_append]

theorem mem_image_of_findPeer {ps : List Peer} {c : Nat} {p : Peer} (h : findPeer ps c = some p) :
    (c, peerAbs p) ∈ image ps ∧ p ∈ ps ∧ p.conn = c := by
  have h1 := List.find?_some h
  have h2 := List.mem_of_find?_eq_some h
  have hc : p.conn = c := by simpa using h1
  exact ⟨List.mem_map.2 ⟨p, h2, by rw [hc]⟩, h2, hc⟩

theorem findPeer_of_mem {ps : List Peer} (hn : (ps.map (·.conn)).Nodup) {p : Peer} (hp : p ∈ ps) :
    findPeer ps p.conn = some p := by
  cases hf : findPeer ps p.conn with
  | none =>
    simp only [findPeer, List.find?_eq_none] at hf
    exact absurd (by simp) (hf p hp)
  | some q =>
    have h1 := List.find?_some hf
    have h2 := List.mem_of_find?_eq_some hf
    have : q = p := nodup_map_inj hn h2 hp (by simpa using h1)
    rw [this]

theorem findPeer_none_iff {ps : List Peer} {c : Nat} : findPeer ps c = none ↔ c ∉ ps.map (·.conn) := by
  simp only [findPeer, List.find?_eq_none, List.mem_map, not_exists, not_and]
  constructor
  · intro h p hp hc; exact h p hp (by simpa using hc)
  · intro h p hp hc; exact h p hp (by simpa using hc)

theorem image_conns (ps : List Peer) : (image ps).map (·.1) = ps.map (·.conn) := by
  simp only [image, List.map_map]; rfl

/-! ## pointwise form of WFI -/

structure WFP (im : Image) (idx : List (Bytes × Nat)) : Prop where
  conns : (im.map (·.1)).Nodup
  owner : ∀ c l, (c, l) ∈ im → ∀ q i, (q, i) ∈ l → i.owner = c
  loc : ∀ c l, (c, l) ∈ im → (l.map (·.1)).Nodup
  glob : ∀ c l c' l' q i i', (c, l) ∈ im → (c', l') ∈ im → (q, i) ∈ l → (q, i') ∈ l' → c = c'
  idxNodup : (idx.map (·.1)).Nodup
  sync : ∀ q o, (q, o) ∈ idx ↔ ∃ l, (o, l) ∈ im ∧ ∃ i, (q, i) ∈ l

theorem mem_imElems {im : Image} {x : Entry} : x ∈ imElems im ↔ ∃ c l, (c, l) ∈ im ∧ x ∈ l := by
  simp only [imElems, List.mem_flatMap]
  constructor
  · rintro ⟨⟨c, l⟩, h1, h2⟩; exact ⟨c, l, h1, h2⟩
  · rintro ⟨c, l, h1, h2⟩; exact ⟨(c, l), h1, h2⟩

theorem paths_iff {im : Image} (hc : (im.map (·.1)).Nodup) :
    ((imElems im).map (·.1)).Nodup ↔
      (∀ c l, (c, l) ∈ im → (l.map (·.1)).Nodup) ∧
      (∀ c l c' l' q i i', (c, l) ∈ im → (c', l') ∈ im → (q, i) ∈ l → (q, i') ∈ l' → c = c') := by
  induction im with
  | nil => simp [imElems]
  | cons hd tl ih =>
    obtain ⟨c0, l0⟩ := hd
    simp only [List.map_cons, List.nodup_cons] at hc
    have ih := ih hc.2
    have hcons : imElems ((c0, l0) :: tl) = l0 ++ imElems tl := by simp [imElems]
    rw [hcons, List.map_append, List.nodup_append, ih]
    constructor
    · rintro ⟨h0, ⟨hl, hg⟩, hd⟩
      refine ⟨?_, ?_⟩
      · intro c l hm
        rcases List.mem_cons.1 hm with he | hm
        · cases he; exact h0
        · exact hl c l hm
      · intro c l c' l' q i i' hm hm' hq hq'
        rcases List.mem_cons.1 hm with he | hm <;> rcases List.mem_cons.1 hm' with he' | hm'
        · cases he; cases he'; rfl
        · cases he
          exfalso
          exact hd q (List.mem_map.2 ⟨(q, i), hq, rfl⟩) q
            (List.mem_map.2 ⟨(q, i'), mem_imElems.2 ⟨c', l', hm', hq'⟩, rfl⟩) rfl
        · cases he'
          exfalso
          exact hd q (List.mem_map.2 ⟨(q, i'), hq', rfl⟩) q
            (List.mem_map.2 ⟨(q, i), mem_imElems.2 ⟨c, l, hm, hq⟩, rfl⟩) rfl
        · exact hg c l c' l' q i i' hm hm' hq hq'
    · rintro ⟨hl, hg⟩
      refine ⟨hl c0 l0 (List.mem_cons_self ..), ⟨?_, ?_⟩, ?_⟩
      · intro c l hm; exact hl c l (List.mem_cons_of_mem _ hm)
      · intro c l c' l' q i i' hm hm'
        exact hg c l c' l' q i i' (List.mem_cons_of_mem _ hm) (List.mem_cons_of_mem _ hm')
      · intro a ha b hb hab
        subst hab
        obtain ⟨⟨q, i⟩, hq, rfl⟩ := List.mem_map.1 ha
        obtain ⟨⟨q', i'⟩, hq', hqq⟩ := List.mem_map.1 hb
        simp only at hqq
        subst hqq
        obtain ⟨c', l', hm', hx⟩ := mem_imElems.1 hq'
        have := hg c0 l0 c' l' q' i i' (List.mem_cons_self ..) (List.mem_cons_of_mem _ hm') hq hx
        subst this
        exact hc.1 (List.mem_map.2 ⟨(c0, l'), hm', rfl⟩)

theorem wfi_iff_wfp {im : Image} {idx} : WFI im idx ↔ WFP im idx := by
  constructor
  · intro h
    have := (paths_iff h.conns).1 h.paths
    exact ⟨h.conns, h.owner, this.1, this.2, h.idxNodup, h.sync⟩
  · intro h
    exact ⟨h.conns, h.owner, (paths_iff h.conns).2 ⟨h.loc, h.glob⟩, h.idxNodup, h.sync⟩

theorem WFP.list_unique {im : Image} {idx} (h : WFP im idx) {c : Nat} {l l' : List Entry}
    (hl : (c, l) ∈ im) (hl' : (c, l') ∈ im) : l = l' := by
  have := nodup_map_inj h.conns hl hl' rfl
  exact (Prod.mk.inj this).2

end Cjet.Daemon.C04
