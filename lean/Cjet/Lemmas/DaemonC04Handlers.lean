/-
  C04 — the three mutating handlers: add, remove, change.
  For each: a decomposition of the model function (proved equal to it), the exact new state on the
  success path, and the summary `Eff` used by the invariant and by `error_means_unchanged`.
-/
import Cjet.Lemmas.DaemonC04Mut

namespace Cjet.Daemon.C04

open Cjet Cjet.Json Cjet.Daemon

/-- the output of `x'` extends that of `x` by observations that are not error responses -/
def QuietOut (x x' : Ctx) : Prop := ∃ new, x'.out = new ++ x.out ∧ ∀ o ∈ new, NoErr o

theorem Quiet.quietOut {x x' : Ctx} (h : Quiet x x') : QuietOut x x' := h.out

/-- Summary of a handler call by peer `c`: the store is untouched, or it changed in one of the three
    ways, and then the handler's answer is the success response and everything it emitted on the way is
    free of error objects. -/
def Eff (c : Nat) (x : Ctx) (req : Json) (r : Ctx × Option Json) : Prop :=
  store r.1.st = store x.st ∨
    (Mut c (store x.st) (store r.1.st) ∧ r.2 = successFromRequest req ∧ QuietOut x r.1)

theorem Eff.frame {c : Nat} {x : Ctx} {req : Json} {r : Ctx × Option Json} (h : store r.1.st = store x.st) :
    Eff c x req r := Or.inl h

/-! ## add -/

def fetchOnlyOk : Option Json → Bool
  | some (.bool _) | none => true
  | some _ => false

def fetchOnlyFlag (params : Json) : Bool :=
  match params.getItem (k "fetchOnly") with | some (.bool true) => true | _ => false

/-- the element `add` creates, before subscribers are entered -/
def newElement (cfg : Config) (p : Peer) (params : Json) (path : Bytes) (tns : Nat) (g : Nat × Nat × Nat) : Element :=
  { path := path, owner := p.conn, value := params.getItem (k "value"), fetchOnly := fetchOnlyFlag params,
    timeoutNs := tns, fetchGroups := g.1, setGroups := g.2.1, callGroups := g.2.2,
    fetchers := List.replicate cfg.initFetchTable none }

/-- `add` after all parameter checks -/
def addTail (cfg : Config) (x : Ctx) (p : Peer) (req : Json) (path : Bytes) (e0 : Element) : Ctx × Option Json :=
  let r := findFetchersForElement cfg x e0
  if r.1.indexFull then
    ({ notifyFetchers r.1 r.2 "remove" with indexFull := false },
     errorFromRequest req INTERNAL_ERROR "reason" (k "element table full"))
  else
    ({ r.1 with st := { r.1.st with
        index := r.1.st.index ++ [(path, p.conn)],
        peers := updatePeer r.1.st.peers p.conn (fun q => { q with elements := q.elements ++ [r.2] }) } },
     successFromRequest req)

theorem addElement_eq (cfg : Config) (x : Ctx) (p : Peer) (req : Json) :
    addElement cfg x p req =
    if cfg.localOnlyAdd && !p.isLocal then
      (x, errorFromRequest req INVALID_REQUEST "reason" (k "add only allowed from localhost"))
    else
    match getParamsAndPath req with
    | .err r => (x, r)
    | .ok params path =>
      if fetchOnlyOk (params.getItem (k "fetchOnly")) then
        match getTimeout cfg (params.getItem (k "timeout")) cfg.defaultTimeoutNs with
        | .err reason => (x, errorFromRequest req INVALID_PARAMS "reason" (k reason))
        | .ns tns =>
          if (lookupIndex x.st.index path).isSome then
            (x, errorFromRequest req INVALID_PARAMS "exists" path)
          else
            match fillAccess cfg (params.getItem (k "value")).isSome (params.getItem (k "access")) with
            | .error reason => (x, errorFromRequest req INVALID_PARAMS "reason" (k reason))
            | .ok g => addTail cfg x p req path (newElement cfg p params path tns g)
      else (x, errorFromRequest req INVALID_PARAMS "reason" (k "fetchOnly is not a bool")) := by
  unfold addElement
  by_cases h1 : (cfg.localOnlyAdd && !p.isLocal) = true
  · rw [if_pos h1, if_pos h1]
  · rw [if_neg h1, if_neg h1]
    cases getParamsAndPath req with
    | err r => rfl
    | ok params path =>
      dsimp only
      cases hfo : params.getItem (k "fetchOnly") with
      | none =>
        simp only [fetchOnlyOk, ↓reduceIte]
        cases getTimeout cfg (params.getItem (k "timeout")) cfg.defaultTimeoutNs with
        | err reason => rfl
        | ns tns =>
          dsimp only
          by_cases h2 : (lookupIndex x.st.index path).isSome = true
          · rw [if_pos h2, if_pos h2]
          · rw [if_neg h2, if_neg h2]
            cases fillAccess cfg (params.getItem (k "value")).isSome (params.getItem (k "access")) with
            | error reason => rfl
            | ok g =>
              obtain ⟨fg, sg, cg⟩ := g
              simp only [newElement, fetchOnlyFlag, hfo]; rfl
      | some j =>
        cases j with
        | bool b =>
          simp only [fetchOnlyOk, ↓reduceIte]
          cases getTimeout cfg (params.getItem (k "timeout")) cfg.defaultTimeoutNs with
          | err reason => rfl
          | ns tns =>
            dsimp only
            by_cases h2 : (lookupIndex x.st.index path).isSome = true
            · rw [if_pos h2, if_pos h2]
            · rw [if_neg h2, if_neg h2]
              cases fillAccess cfg (params.getItem (k "value")).isSome (params.getItem (k "access")) with
              | error reason => rfl
              | ok g =>
                obtain ⟨fg, sg, cg⟩ := g
                simp only [newElement, fetchOnlyFlag, hfo]; rfl
        | _ => rfl

theorem lookupIndex_none {idx : List (Bytes × Nat)} {path : Bytes} :
    (lookupIndex idx path).isSome = false ↔ ∀ o, (path, o) ∉ idx := by
  simp only [lookupIndex, Option.isSome_map]
  constructor
  · intro h o ho
    have : idx.find? (·.1 == path) = none := by
      cases hf : idx.find? (·.1 == path) with
      | none => rfl
      | some y => rw [hf] at h; cases h
    rw [List.find?_eq_none] at this
    exact absurd (by simp) (this (path, o) ho)
  · intro h
    cases hf : idx.find? (·.1 == path) with
    | none => rfl
    | some y =>
      exfalso
      have h1 := List.find?_some hf
      have h2 := List.mem_of_find?_eq_some hf
      obtain ⟨q, o⟩ := y
      have : q = path := by simpa using h1
      subst this
      exact h o h2

theorem image_append_element (ps : List Peer) (c : Nat) (e : Element) :
    image (updatePeer ps c (fun q => { q with elements := q.elements ++ [e] })) =
      updImage (image ps) c (addG e.path (info e)) := by
  apply image_updatePeer
  intro q _ _
  exact ⟨rfl, by simp only [peerAbs, List.map_append, List.map_cons, List.map_nil, addG, entry]⟩

theorem addTail_full {cfg : Config} {x : Ctx} {p : Peer} {req : Json} {path : Bytes} {e0 : Element}
    (h : x.indexFull = true) :
    (addTail cfg x p req path e0).2 = errorFromRequest req INTERNAL_ERROR "reason" (k "element table full") ∧
    (addTail cfg x p req path e0).1.st = x.st ∧ QuietOut x (addTail cfg x p req path e0).1 := by
  have hq := (findFetchersForElement_spec cfg x e0).1
  have hif : (findFetchersForElement cfg x e0).1.indexFull = true := by rw [hq.indexFull, h]
  simp only [addTail, hif, ↓reduceIte, true_and]
  have hn := quiet_notifyFetchers (findFetchersForElement cfg x e0).1 (findFetchersForElement cfg x e0).2 "remove"
  exact ⟨hn.st.trans hq.st, (hq.trans hn).out⟩

theorem addTail_ok {cfg : Config} {x : Ctx} {p : Peer} {req : Json} {path : Bytes} {e0 : Element}
    (h : x.indexFull = false) (hpath : e0.path = path) :
    (addTail cfg x p req path e0).2 = successFromRequest req ∧
    store (addTail cfg x p req path e0).1.st =
      (updImage (image x.st.peers) p.conn (addG path (info e0)), x.st.index ++ [(path, p.conn)]) ∧
    QuietOut x (addTail cfg x p req path e0).1 := by
  have hq := (findFetchersForElement_spec cfg x e0).1
  have he := (findFetchersForElement_spec cfg x e0).2
  have hif : (findFetchersForElement cfg x e0).1.indexFull = false := by rw [hq.indexFull, h]
  simp only [addTail, hif, Bool.false_eq_true, ↓reduceIte, true_and, store_def, hq.st, image_append_element]
  simp only [entry, Prod.mk.injEq] at he
  rw [he.1, he.2, hpath]
  exact ⟨rfl, hq.out⟩

theorem addElement_eff {cfg : Config} {x : Ctx} {p : Peer} {c : Nat} {req : Json}
    (hp : findPeer x.st.peers c = some p) : Eff c x req (addElement cfg x p req) := by
  rw [addElement_eq]
  refine ite_cases (P := Eff c x req) (fun _ => Eff.frame rfl) (fun _ => ?_)
  cases getParamsAndPath req with
  | err r => exact Eff.frame rfl
  | ok params path =>
    dsimp only
    refine ite_cases (P := Eff c x req) (fun _ => ?_) (fun _ => Eff.frame rfl)
    cases getTimeout cfg (params.getItem (k "timeout")) cfg.defaultTimeoutNs with
    | err reason => exact Eff.frame rfl
    | ns tns =>
      dsimp only
      refine ite_cases (P := Eff c x req) (fun _ => Eff.frame rfl) (fun hfree => ?_)
      cases fillAccess cfg (params.getItem (k "value")).isSome (params.getItem (k "access")) with
      | error reason => exact Eff.frame rfl
      | ok g =>
        dsimp only
        obtain ⟨hm, _, hc⟩ := mem_image_of_findPeer hp
        cases hfull : x.indexFull with
        | true =>
          have := addTail_full (cfg := cfg) (p := p) (req := req) (path := path)
            (e0 := newElement cfg p params path tns g) hfull
          exact Eff.frame (by rw [this.2.1])
        | false =>
          have := addTail_ok (cfg := cfg) (p := p) (req := req) (path := path)
            (e0 := newElement cfg p params path tns g) hfull rfl
          refine Or.inr ⟨?_, this.1, this.2.2⟩
          rw [this.2.1, hc]
          refine Mut.add _ _ _ _ ?_ ?_ ?_
          · exact lookupIndex_none.1 (by simpa using hfree)
          · rw [image_conns]; exact List.mem_map.2 ⟨p, (mem_image_of_findPeer hp).2.1, hc⟩
          · simp only [info, newElement, hc]

/-! ## remove -/

theorem removeElement_store (x : Ctx) (e : Element) :
    store (removeElement x e).st =
      (updImage (image x.st.peers) e.owner (removeG e.path), removeIndex x.st.index e.path) := by
  simp only [removeElement, store_def, notifyFetchers_st, Prod.mk.injEq, and_true]
  apply image_updatePeer
  intro q _ _
  refine ⟨rfl, ?_⟩
  simp only [peerAbs, removeG, List.filter_map]
  rfl

theorem removeElement_quietOut (x : Ctx) (e : Element) : QuietOut x (removeElement x e) :=
  (quiet_notifyFetchers x e "remove").out

theorem removeElementReq_found {x : Ctx} {p : Peer} {req params : Json} {path : Bytes} {e : Element}
    (hpp : getParamsAndPath req = .ok params path) (hf : p.elements.find? (·.path == path) = some e) :
    removeElementReq x p req = (removeElement x e, successFromRequest req) := by
  simp only [removeElementReq, hpp, hf]

theorem removeElementReq_missing {x : Ctx} {p : Peer} {req params : Json} {path : Bytes}
    (hpp : getParamsAndPath req = .ok params path) (hf : p.elements.find? (·.path == path) = none) :
    removeElementReq x p req = (x, errorFromRequest req INVALID_PARAMS "not exists" path) := by
  simp only [removeElementReq, hpp, hf]

theorem removeElementReq_eff {x : Ctx} {p : Peer} {c : Nat} {req : Json}
    (hp : findPeer x.st.peers c = some p) (hwf : WFS x.st) : Eff c x req (removeElementReq x p req) := by
  cases hpp : getParamsAndPath req with
  | err r => simp only [removeElementReq, hpp]; exact Eff.frame rfl
  | ok params path =>
    cases hf : p.elements.find? (·.path == path) with
    | none => rw [removeElementReq_missing hpp hf]; exact Eff.frame rfl
    | some e =>
      rw [removeElementReq_found hpp hf]
      obtain ⟨hm, hmem, hc⟩ := mem_image_of_findPeer hp
      have h1 := List.find?_some hf
      have h2 := List.mem_of_find?_eq_some hf
      have hown : e.owner = c := by
        have := hwf.owner c (peerAbs p) hm e.path (info e) (List.mem_map.2 ⟨e, h2, rfl⟩)
        exact this
      refine Or.inr ⟨?_, rfl, removeElement_quietOut x e⟩
      rw [removeElement_store, hown]
      exact Mut.remove _ _ _ (peerAbs p) (info e) hm (List.mem_map.2 ⟨e, h2, rfl⟩)

/-! ## change -/

theorem findElement_some {s : State} {path : Bytes} {e : Element} (h : findElement s path = some e) :
    ∃ o q, lookupIndex s.index path = some o ∧ findPeer s.peers o = some q ∧ e ∈ q.elements ∧ e.path = path := by
  unfold findElement at h
  split at h
  · cases h
  · rename_i o ho
    split at h
    · cases h
    · rename_i q hq
      have h1 := List.find?_some h
      have h2 := List.mem_of_find?_eq_some h
      exact ⟨o, q, ho, hq, h2, by simpa using h1⟩

theorem image_change_element (ps : List Peer) (c : Nat) (path : Bytes) (e' : Element) (he' : e'.path = path) :
    image (updatePeer ps c (fun q =>
      { q with elements := q.elements.map (fun el => if el.path == path then e' else el) })) =
      updImage (image ps) c (changeG path (info e')) := by
  apply image_updatePeer
  intro q _ _
  refine ⟨rfl, ?_⟩
  simp only [peerAbs, changeG, List.map_map]
  apply List.map_congr_left
  intro el _
  simp only [Function.comp, entry]
  by_cases h : el.path = path
  · simp only [h, beq_self_eq_true, ↓reduceIte, he']
  · have h' : (el.path == path) = false := by simpa using h
    simp only [h', Bool.false_eq_true, ↓reduceIte]

/-- the state `change` produces on its success path -/
def changedState (s : State) (c : Nat) (path : Bytes) (e : Element) (v : Json) : State :=
  { s with peers := updatePeer s.peers c (fun q =>
      { q with elements := q.elements.map (fun el => if el.path == path then { e with value := some v } else el) }) }

theorem changeState_eq (x : Ctx) (p : Peer) (req : Json) :
    changeState x p req =
    match getParamsAndPath req with
    | .err r => (x, r)
    | .ok params path =>
      match params.getItem (k "value") with
      | none => (x, errorFromRequest req INVALID_PARAMS "reason" (k "no value found"))
      | some v =>
        match findElement x.st path with
        | none => (x, errorFromRequest req INVALID_PARAMS "not exists" path)
        | some e =>
          if e.owner != p.conn then (x, errorFromRequest req INVALID_PARAMS "not owner of state" path)
          else if e.value.isNone then (x, errorFromRequest req INVALID_PARAMS "change on method not possible" path)
          else
            (notifyFetchers { x with st := changedState x.st p.conn path e v } { e with value := some v } "change",
             successFromRequest req) := rfl

theorem changeState_eff {x : Ctx} {p : Peer} {c : Nat} {req : Json}
    (hp : findPeer x.st.peers c = some p) (hwf : WFS x.st) : Eff c x req (changeState x p req) := by
  rw [changeState_eq]
  cases getParamsAndPath req with
  | err r => exact Eff.frame rfl
  | ok params path =>
    dsimp only
    cases params.getItem (k "value") with
    | none => exact Eff.frame rfl
    | some v =>
      dsimp only
      cases hfe : findElement x.st path with
      | none => exact Eff.frame rfl
      | some e =>
        dsimp only
        refine ite_cases (P := Eff c x req) (fun _ => Eff.frame rfl) (fun hown => ?_)
        refine ite_cases (P := Eff c x req) (fun _ => Eff.frame rfl) (fun _ => ?_)
        obtain ⟨hm, hmem, hc⟩ := mem_image_of_findPeer hp
        have hown : e.owner = c := by rw [← hc]; simpa using hown
        obtain ⟨o, q, ho, hq, heq, hpath⟩ := findElement_some hfe
        obtain ⟨hmq, hmemq, hcq⟩ := mem_image_of_findPeer hq
        have hoc : o = c := by
          have := hwf.owner o (peerAbs q) hmq e.path (info e) (List.mem_map.2 ⟨e, heq, rfl⟩)
          simp only [info] at this
          rw [← this, hown]
        subst hoc
        have hqp : q = p := by rw [hp] at hq; exact (Option.some.inj hq).symm
        subst hqp
        refine Or.inr ⟨?_, rfl, ?_⟩
        · simp only [store_def, notifyFetchers_st, changedState, hc]
          rw [image_change_element _ _ _ { e with value := some v } hpath]
          have : info { e with value := some v } = setValue (info e) v := rfl
          rw [this]
          exact Mut.change _ _ _ (peerAbs q) (info e) v hm (by rw [← hpath]; exact List.mem_map.2 ⟨e, heq, rfl⟩)
        · exact (quiet_notifyFetchers _ _ "change").out

end Cjet.Daemon.C04
