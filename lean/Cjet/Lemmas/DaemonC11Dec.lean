/-
  Cjet.Lemmas.DaemonC11Dec — decidable equality of JSON values and observations (by structural
  recursion, so that the kernel can evaluate it): used only by the concrete examples
  (`decide +kernel`).
-/
import Cjet.Daemon.Model

namespace Cjet.Daemon.C11

open Cjet Cjet.Json Cjet.Daemon

mutual
def decJ : (a b : Json) → Decidable (a = b)
  | .null, .null => isTrue rfl
  | .bool x, .bool y => if h : x = y then isTrue (h ▸ rfl) else isFalse (fun e => h (by cases e; rfl))
  | .num x, .num y => if h : x = y then isTrue (h ▸ rfl) else isFalse (fun e => h (by cases e; rfl))
  | .str x, .str y => if h : x = y then isTrue (h ▸ rfl) else isFalse (fun e => h (by cases e; rfl))
  | .arr x, .arr y => match decL x y with
    | isTrue h => isTrue (h ▸ rfl)
    | isFalse h => isFalse (fun e => h (by cases e; rfl))
  | .obj x, .obj y => match decM x y with
    | isTrue h => isTrue (h ▸ rfl)
    | isFalse h => isFalse (fun e => h (by cases e; rfl))
  | .null, .bool _ => isFalse (fun e => nomatch e)
  | .null, .num _ => isFalse (fun e => nomatch e)
  | .null, .str _ => isFalse (fun e => nomatch e)
  | .null, .arr _ => isFalse (fun e => nomatch e)
  | .null, .obj _ => isFalse (fun e => nomatch e)
  | .bool _, .null => isFalse (fun e => nomatch e)
  | .bool _, .num _ => isFalse (fun e => nomatch e)
  | .bool _, .str _ => isFalse (fun e => nomatch e)
  | .bool _, .arr _ => isFalse (fun e => nomatch e)
  | .bool _, .obj _ => isFalse (fun e => nomatch e)
  | .num _, .null => isFalse (fun e => nomatch e)
  | .num _, .bool _ => isFalse (fun e => nomatch e)
  | .num _, .str _ => isFalse (fun e => nomatch e)
  | .num _, .arr _ => isFalse (fun e => nomatch e)
  | .num _, .obj _ => isFalse (fun e => nomatch e)
  | .str _, .null => isFalse (fun e => nomatch e)
  | .str _, .bool _ => isFalse (fun e => nomatch e)
  | .str _, .num _ => isFalse (fun e => nomatch e)
  | .str _, .arr _ => isFalse (fun e => nomatch e)
  | .str _, .obj _ => isFalse (fun e => nomatch e)
  | .arr _, .null => isFalse (fun e => nomatch e)
  | .arr _, .bool _ => isFalse (fun e => nomatch e)
  | .arr _, .num _ => isFalse (fun e => nomatch e)
  | .arr _, .str _ => isFalse (fun e => nomatch e)
  | .arr _, .obj _ => isFalse (fun e => nomatch e)
  | .obj _, .null => isFalse (fun e => nomatch e)
  | .obj _, .bool _ => isFalse (fun e => nomatch e)
  | .obj _, .num _ => isFalse (fun e => nomatch e)
  | .obj _, .str _ => isFalse (fun e => nomatch e)
  | .obj _, .arr _ => isFalse (fun e => nomatch e)
def decL : (a b : List Json) → Decidable (a = b)
  | [], [] => isTrue rfl
  | [], _ :: _ => isFalse (fun e => nomatch e)
  | _ :: _, [] => isFalse (fun e => nomatch e)
  | x :: xs, y :: ys => match decJ x y, decL xs ys with
    | isTrue h1, isTrue h2 => isTrue (by rw [h1, h2])
    | isFalse h1, _ => isFalse (fun e => h1 (by cases e; rfl))
    | _, isFalse h2 => isFalse (fun e => h2 (by cases e; rfl))
def decM : (a b : List (Bytes × Json)) → Decidable (a = b)
  | [], [] => isTrue rfl
  | [], _ :: _ => isFalse (fun e => nomatch e)
  | _ :: _, [] => isFalse (fun e => nomatch e)
  | (k1, x) :: xs, (k2, y) :: ys =>
    if hk : k1 = k2 then
      match decJ x y, decM xs ys with
      | isTrue h1, isTrue h2 => isTrue (by rw [hk, h1, h2])
      | isFalse h1, _ => isFalse (fun e => h1 (by cases e; rfl))
      | _, isFalse h2 => isFalse (fun e => h2 (by cases e; rfl))
    else isFalse (fun e => hk (by cases e; rfl))
end

instance instDecEqJson : DecidableEq Json := decJ

instance instDecEqObs : DecidableEq Obs := fun a b =>
  match a, b with
  | .send c j ok, .send c' j' ok' =>
    if h : c = c' ∧ j = j' ∧ ok = ok' then isTrue (by obtain ⟨rfl, rfl, rfl⟩ := h; rfl)
    else isFalse (fun e => h (by cases e; exact ⟨rfl, rfl, rfl⟩))
  | .closed c, .closed c' =>
    if h : c = c' then isTrue (h ▸ rfl) else isFalse (fun e => h (by cases e; rfl))
  | .timerArm t n, .timerArm t' n' =>
    if h : t = t' ∧ n = n' then isTrue (by obtain ⟨rfl, rfl⟩ := h; rfl)
    else isFalse (fun e => h (by cases e; exact ⟨rfl, rfl⟩))
  | .timerDestroy t, .timerDestroy t' =>
    if h : t = t' then isTrue (h ▸ rfl) else isFalse (fun e => h (by cases e; rfl))
  | .send _ _ _, .closed _ => isFalse (fun e => nomatch e)
  | .send _ _ _, .timerArm _ _ => isFalse (fun e => nomatch e)
  | .send _ _ _, .timerDestroy _ => isFalse (fun e => nomatch e)
  | .closed _, .send _ _ _ => isFalse (fun e => nomatch e)
  | .closed _, .timerArm _ _ => isFalse (fun e => nomatch e)
  | .closed _, .timerDestroy _ => isFalse (fun e => nomatch e)
  | .timerArm _ _, .send _ _ _ => isFalse (fun e => nomatch e)
  | .timerArm _ _, .closed _ => isFalse (fun e => nomatch e)
  | .timerArm _ _, .timerDestroy _ => isFalse (fun e => nomatch e)
  | .timerDestroy _, .send _ _ _ => isFalse (fun e => nomatch e)
  | .timerDestroy _, .closed _ => isFalse (fun e => nomatch e)
  | .timerDestroy _, .timerArm _ _ => isFalse (fun e => nomatch e)

end Cjet.Daemon.C11
