import Cjet.Ws.Unmask
/-! Helper lemmas: the fast path of `unmask_payload` equals the byte-wise XOR. -/
namespace Cjet.Ws

theorem maskByte_congr (key : Bytes) {i j : Nat} (h : i % 4 = j % 4) : maskByte key i = maskByte key j := by
  simp [maskByte, h]

theorem xorFrom_length (key : Bytes) (s : Nat) (bs : Bytes) : (xorFrom key s bs).length = bs.length := by
  induction bs generalizing s with
  | nil => simp [xorFrom]
  | cons b bs ih => simp [xorFrom, ih]

theorem xorFrom_append (key : Bytes) (s : Nat) (a b : Bytes) :
    xorFrom key s (a ++ b) = xorFrom key s a ++ xorFrom key (s + a.length) b := by
  induction a generalizing s with
  | nil => simp [xorFrom]
  | cons x xs ih =>
    simp only [List.cons_append, xorFrom, List.length_cons, ih]
    congr 3
    omega

theorem xorFrom_congr (key : Bytes) {s t : Nat} (h : s % 4 = t % 4) (bs : Bytes) :
    xorFrom key s bs = xorFrom key t bs := by
  induction bs generalizing s t with
  | nil => simp [xorFrom]
  | cons b bs ih =>
    simp only [xorFrom]
    rw [maskByte_congr key h, ih (s := s + 1) (t := t + 1) (by omega)]

/-- one word: XOR with the pre-rotated mask is the byte loop -/
theorem xorWord_maskSeq (key : Bytes) (s n : Nat) (w : Bytes) (h : w.length ≤ n) :
    xorWord (maskSeq key s n) w = xorFrom key s w := by
  induction w generalizing s n with
  | nil => simp [xorWord, xorFrom]
  | cons b bs ih =>
    cases n with
    | zero => simp at h
    | succ n =>
      simp only [xorWord, maskSeq, List.zipWith_cons_cons, xorFrom]
      congr 1
      exact ih (s + 1) n (by simpa using h)

theorem wordLoop_eq (key : Bytes) (word : Nat) (hw : word % 4 = 0) (pre : Nat) (n : Nat) (s : Nat)
    (hs : s % 4 = pre % 4) (bs : Bytes) (hl : bs.length = n * word) :
    wordLoop word (maskSeq key pre word) n bs = xorFrom key s bs := by
  induction n generalizing s bs with
  | zero =>
    have : bs = [] := by simpa using hl
    subst this
    simp [wordLoop, xorFrom]
  | succ n ih =>
    simp only [wordLoop]
    have hsplit : bs = bs.take word ++ bs.drop word := (List.take_append_drop word bs).symm
    have htl : (bs.take word).length = word := by
      rw [List.length_take, hl]
      have : word ≤ (n + 1) * word := by
        rw [Nat.succ_mul]; omega
      omega
    have hdl : (bs.drop word).length = n * word := by
      rw [List.length_drop, hl, Nat.succ_mul]; omega
    rw [xorWord_maskSeq key pre word _ (by omega)]
    rw [ih (s + word) (by omega) (bs.drop word) hdl]
    conv => rhs; rw [hsplit, xorFrom_append, htl]
    rw [xorFrom_congr key (s := pre) (t := s) hs.symm]

/-- The fast path computes exactly the byte-wise XOR, for every word size that is a multiple of 4,
    every alignment, every key and every buffer. -/
theorem unmaskPayload_eq_xorMask (word : Nat) (hw0 : 0 < word) (hw : word % 4 = 0) (align : Nat)
    (key : Bytes) (buf : Bytes) : unmaskPayload word align key buf = xorMask key buf := by
  unfold unmaskPayload xorMask
  simp only
  split
  · rfl
  · rename_i hlen
    have hlen : word ≤ buf.length := by omega
    generalize hpre : (word - align % word) % word = pre
    have hprelt : pre < word := by rw [← hpre]; exact Nat.mod_lt _ hw0
    generalize hmain : (buf.length - pre) / word = main
    have hdiv : main * word ≤ buf.length - pre := by
      rw [← hmain]; exact Nat.div_mul_le_self _ _
    have hpost : buf.length - (buf.length - pre - main * word) = pre + main * word := by omega
    rw [hpost]
    have h1 : buf = buf.take pre ++ ((buf.drop pre).take (main * word) ++ buf.drop (pre + main * word)) := by
      rw [← List.drop_drop, List.take_append_drop, List.take_append_drop]
    have hl1 : (buf.take pre).length = pre := by rw [List.length_take]; omega
    have hl2 : ((buf.drop pre).take (main * word)).length = main * word := by
      rw [List.length_take, List.length_drop]; omega
    rw [wordLoop_eq key word hw pre main pre rfl _ hl2]
    conv => rhs; rw [h1, xorFrom_append, xorFrom_append, hl1, hl2]
    simp [List.append_assoc]

theorem xorFrom_involutive (key : Bytes) (s : Nat) (bs : Bytes) :
    xorFrom key s (xorFrom key s bs) = bs := by
  induction bs generalizing s with
  | nil => simp [xorFrom]
  | cons b bs ih =>
    simp only [xorFrom, ih]
    congr 1
    rw [UInt8.xor_assoc, UInt8.xor_self, UInt8.xor_zero]

theorem xorMask_length (key buf : Bytes) : (xorMask key buf).length = buf.length :=
  xorFrom_length key 0 buf

theorem unmaskPayload_length (word : Nat) (hw0 : 0 < word) (hw : word % 4 = 0) (align : Nat)
    (key buf : Bytes) : (unmaskPayload word align key buf).length = buf.length := by
  rw [unmaskPayload_eq_xorMask word hw0 hw, xorMask_length]

end Cjet.Ws
