/-
  Cjet.Lemmas.DaemonC11Answer — a set/call request whose delivery to the owner fails: the exact
  step (outputs and post-state).
-/
import Cjet.Lemmas.DaemonC11Run

namespace Cjet.Daemon.C11

open Cjet Cjet.Json Cjet.Daemon Cjet.Daemon.C05

/-- `req`, sent by `c` (record `p`) in state `s`, is a `set` (`isState`) or `call` request that
    passes every check of set_or_call and is therefore routed to the owner of the element `e`
    addressed by `path`, with request id `id`, payload `value` and timeout `tns`. -/
def RoutedBy (cfg : Config) (s : State) (c : Nat) (req : Json) (p : Peer) (isState : Bool) (path : Bytes)
    (e : Element) (id : Json) (value : Option Json) (tns : Nat) : Prop :=
  findPeer s.peers c = some p ∧
  (∃ m, req.getItem (k "method") = some (.str m) ∧ (m == k "change") = false ∧
    (if isState then (m == k "set") = true else ((m == k "set") = false ∧ (m == k "call") = true))) ∧
  (∃ params, setOrCallPlan cfg s p req isState = .inr (params, path, e, some id, value) ∧
    getTimeout cfg (params.getItem (k "timeout")) e.timeoutNs = .ns tns) ∧
  (isState && value.isNone) = false

theorem plan_id {cfg : Config} {s : State} {p : Peer} {req : Json} {isState : Bool} {params : Json}
    {path : Bytes} {e : Element} {oid value : Option Json}
    (h : setOrCallPlan cfg s p req isState = .inr (params, path, e, oid, value)) :
    req.getItem (k "id") = oid ∧ (∀ id, oid = some id → id.isString = true ∨ id.isNumber = true) ∧
    findElement s path = some e := by
  unfold setOrCallPlan at h
  cases h1 : getParamsAndPath req with
  | err r => rw [h1] at h; cases h
  | ok params' path' =>
    rw [h1] at h
    dsimp only at h
    cases h2 : findElement s path' with
    | none => rw [h2] at h; cases h
    | some e' =>
      rw [h2] at h
      dsimp only at h
      by_cases h3 : e'.fetchOnly = true
      · rw [if_pos h3] at h; cases h
      · rw [if_neg h3] at h
        by_cases h4 : (isState != e'.value.isSome) = true
        · rw [if_pos h4] at h; cases h
        · rw [if_neg h4] at h
          by_cases h5 : (!(if isState then hasAccess cfg e'.setGroups p.setGroups else hasAccess cfg e'.callGroups p.callGroups)) = true
          · rw [if_pos h5] at h; cases h
          · rw [if_neg h5] at h
            cases h6 : req.getItem (k "id") with
            | none =>
              rw [h6] at h
              simp only [Sum.inr.injEq, Prod.mk.injEq] at h
              obtain ⟨_, rfl, rfl, rfl, _⟩ := h
              exact ⟨rfl, (by intro id hh; cases hh), h2⟩
            | some v =>
              rw [h6] at h
              cases v with
              | str sid =>
                simp only [Sum.inr.injEq, Prod.mk.injEq] at h
                obtain ⟨_, rfl, rfl, rfl, _⟩ := h
                exact ⟨rfl, (by intro id hh; cases hh; exact Or.inl rfl), h2⟩
              | num n =>
                simp only [Sum.inr.injEq, Prod.mk.injEq] at h
                obtain ⟨_, rfl, rfl, rfl, _⟩ := h
                exact ⟨rfl, (by intro id hh; cases hh; exact Or.inr rfl), h2⟩
              | null => cases h
              | bool _ => cases h
              | arr _ => cases h
              | obj _ => cases h

theorem parseJsonRpc_method (cfg : Config) (x : Ctx) (c : Nat) (req : Json) {p : Peer} {m : Bytes}
    (hp : findPeer x.st.peers c = some p) (hm : req.getItem (k "method") = some (.str m)) :
    parseJsonRpc cfg x c req =
      sendResponse (handleMethod cfg x p req m).1 c (handleMethod cfg x p req m).2 := by
  unfold parseJsonRpc
  simp only [hp, hm]

theorem handleMethod_routed (cfg : Config) (x : Ctx) (p : Peer) (req : Json) {m : Bytes} {isState : Bool}
    (h1 : (m == k "change") = false)
    (h2 : if isState then (m == k "set") = true else ((m == k "set") = false ∧ (m == k "call") = true)) :
    handleMethod cfg x p req m = setOrCall cfg x p req isState := by
  rw [handleMethod_eq]
  cases isState with
  | true =>
    simp only [if_true] at h2
    simp [h1, h2]
  | false =>
    simp only [Bool.false_eq_true, if_false] at h2
    simp [h1, h2.1, h2.2]

theorem errorFromRequest_some {req id : Json} (hid : req.getItem (k "id") = some id)
    (hty : id.isString = true ∨ id.isNumber = true) (code : Int) (tag : String) (reason : Bytes) :
    errorFromRequest req code tag reason = some (.obj [(k "id", id), (k "error", errorObject code tag reason)]) := by
  unfold errorFromRequest
  rw [hid]
  cases id <;> simp [Json.isString, Json.isNumber] at hty <;> rfl

theorem routeMain_failed (cfg : Config) (st : State) (out : List Obs) (tl : List Bool) (iF : Bool) (p : Peer)
    (req params : Json) (path : Bytes) (isState : Bool) (e : Element) (oid value : Option Json) (tns : Nat)
    (hval : (isState && value.isNone) = false)
    (htn : getTimeout cfg (params.getItem (k "timeout")) e.timeoutNs = .ns tns) :
    routeMain cfg ⟨st, out, false :: tl, iF, false⟩ p req params path isState e oid value =
      (⟨{ st with
            uuid := (st.uuid + 1) % 4294967296, nextTimer := st.nextTimer + 1,
            peers := removeRoute (updatePeer st.peers e.owner (fun q => { q with routes := q.routes ++
              [⟨routedId oid st.uuid p.addrTok, p.conn, e.owner, oid, st.nextTimer⟩] })) e.owner
              (routedId oid st.uuid p.addrTok) },
         .timerDestroy st.nextTimer ::
           .send e.owner (routedMessage (routedId oid st.uuid p.addrTok) path isState value) false ::
           .timerArm st.nextTimer tns :: out,
         tl, iF, false⟩,
       errorFromRequest req INTERNAL_ERROR "reason" (k "could not send routing information")) := by
  unfold routeMain
  simp only [hval, Bool.false_eq_true, if_false, htn]
  unfold send
  simp only [emit]
  simp

/-- The delivery of a routed request to the owner fails, the requester is healthy: the step arms
    the timer, attempts the delivery, destroys the timer again, removes the routing entry and
    sends the requester exactly one response: INTERNAL_ERROR "could not send routing information". -/
theorem routed_failed_delivery (cfg : Config) {s : State} {c : Nat} {l : List (Bytes × Json)} {p : Peer}
    {isState : Bool} {path : Bytes} {e : Element} {id : Json} {value : Option Json} {tns : Nat}
    (h : RoutedBy cfg s c (.obj l) p isState path e id value tns) (o : Oracle) (hrf : o.routeFull = false)
    (rest : List Bool) (hs : o.sends = false :: true :: rest) :
    step cfg s (.message c (some (.obj l)) o) =
      ({ s with
          uuid := (s.uuid + 1) % 4294967296, nextTimer := s.nextTimer + 1,
          peers := removeRoute (updatePeer s.peers e.owner (fun q => { q with routes := q.routes ++
            [⟨routedId (some id) s.uuid p.addrTok, c, e.owner, some id, s.nextTimer⟩] })) e.owner
            (routedId (some id) s.uuid p.addrTok) },
       [.timerArm s.nextTimer tns,
        .send e.owner (routedMessage (routedId (some id) s.uuid p.addrTok) path isState value) false,
        .timerDestroy s.nextTimer,
        .send c (.obj [(k "id", id), (k "error",
          errorObject INTERNAL_ERROR "reason" (k "could not send routing information"))]) true]) := by
  obtain ⟨hp, ⟨m, hm, hm1, hm2⟩, ⟨params, hplan, htn⟩, hval⟩ := h
  obtain ⟨hid, hty, _⟩ := plan_id hplan
  have hpc := (findPeer_some hp).2
  have hx : mkCtx s o = ⟨s, [], false :: true :: rest, o.indexFull, false⟩ := by
    unfold mkCtx; rw [hs, hrf]
  have hplan' : setOrCallPlan cfg (mkCtx s o).st p (.obj l) isState = .inr (params, path, e, some id, value) := hplan
  have hpj : parseMessage cfg (mkCtx s o) c (some (.obj l)) =
      (⟨{ s with
            uuid := (s.uuid + 1) % 4294967296, nextTimer := s.nextTimer + 1,
            peers := removeRoute (updatePeer s.peers e.owner (fun q => { q with routes := q.routes ++
              [⟨routedId (some id) s.uuid p.addrTok, c, e.owner, some id, s.nextTimer⟩] })) e.owner
              (routedId (some id) s.uuid p.addrTok) },
         [.send c (.obj [(k "id", id), (k "error",
            errorObject INTERNAL_ERROR "reason" (k "could not send routing information"))]) true,
          .timerDestroy s.nextTimer,
          .send e.owner (routedMessage (routedId (some id) s.uuid p.addrTok) path isState value) false,
          .timerArm s.nextTimer tns],
         rest, o.indexFull, false⟩, true) := by
    show parseJsonRpc cfg (mkCtx s o) c (.obj l) = _
    rw [parseJsonRpc_method cfg (mkCtx s o) c (.obj l) (p := p) (m := m) hp hm,
      handleMethod_routed cfg (mkCtx s o) p (.obj l) hm1 hm2, setOrCall_plan, hplan']
    dsimp only
    rw [hx, routeMain_failed cfg s [] (true :: rest) o.indexFull p (.obj l) params path isState e (some id) value tns hval htn]
    dsimp only
    rw [errorFromRequest_some hid (hty id rfl)]
    unfold sendResponse send
    simp [hpc]
  rw [step_message]
  have hn : ¬ (findPeer s.peers c).isNone = true := by rw [hp]; simp
  rw [if_neg hn, hpj]
  simp

theorem routeMain_delivered (cfg : Config) (st : State) (out : List Obs) (tl : List Bool) (iF : Bool) (p : Peer)
    (req params : Json) (path : Bytes) (isState : Bool) (e : Element) (oid value : Option Json) (tns : Nat)
    (hval : (isState && value.isNone) = false)
    (htn : getTimeout cfg (params.getItem (k "timeout")) e.timeoutNs = .ns tns) :
    routeMain cfg ⟨st, out, true :: tl, iF, false⟩ p req params path isState e oid value =
      (⟨{ st with
            uuid := (st.uuid + 1) % 4294967296, nextTimer := st.nextTimer + 1,
            peers := updatePeer st.peers e.owner (fun q => { q with routes := q.routes ++
              [⟨routedId oid st.uuid p.addrTok, p.conn, e.owner, oid, st.nextTimer⟩] }) },
         .send e.owner (routedMessage (routedId oid st.uuid p.addrTok) path isState value) true ::
           .timerArm st.nextTimer tns :: out,
         tl, iF, false⟩, none) := by
  unfold routeMain
  simp only [hval, Bool.false_eq_true, if_false, htn]
  unfold send
  simp only [emit]
  simp

/-- the same request when the delivery succeeds: the request is routed, a routing entry with an
    armed timer records it, nothing is answered yet -/
theorem routed_delivered (cfg : Config) {s : State} {c : Nat} {l : List (Bytes × Json)} {p : Peer}
    {isState : Bool} {path : Bytes} {e : Element} {id : Json} {value : Option Json} {tns : Nat}
    (h : RoutedBy cfg s c (.obj l) p isState path e id value tns) (o : Oracle) (hrf : o.routeFull = false)
    (rest : List Bool) (hs : o.sends = true :: rest) :
    step cfg s (.message c (some (.obj l)) o) =
      ({ s with
          uuid := (s.uuid + 1) % 4294967296, nextTimer := s.nextTimer + 1,
          peers := updatePeer s.peers e.owner (fun q => { q with routes := q.routes ++
            [⟨routedId (some id) s.uuid p.addrTok, c, e.owner, some id, s.nextTimer⟩] }) },
       [.timerArm s.nextTimer tns,
        .send e.owner (routedMessage (routedId (some id) s.uuid p.addrTok) path isState value) true]) := by
  obtain ⟨hp, ⟨m, hm, hm1, hm2⟩, ⟨params, hplan, htn⟩, hval⟩ := h
  have hpc := (findPeer_some hp).2
  have hx : mkCtx s o = ⟨s, [], true :: rest, o.indexFull, false⟩ := by
    unfold mkCtx; rw [hs, hrf]
  have hplan' : setOrCallPlan cfg (mkCtx s o).st p (.obj l) isState = .inr (params, path, e, some id, value) := hplan
  have hpj : parseMessage cfg (mkCtx s o) c (some (.obj l)) =
      (⟨{ s with
            uuid := (s.uuid + 1) % 4294967296, nextTimer := s.nextTimer + 1,
            peers := updatePeer s.peers e.owner (fun q => { q with routes := q.routes ++
              [⟨routedId (some id) s.uuid p.addrTok, c, e.owner, some id, s.nextTimer⟩] }) },
         [.send e.owner (routedMessage (routedId (some id) s.uuid p.addrTok) path isState value) true,
          .timerArm s.nextTimer tns],
         rest, o.indexFull, false⟩, true) := by
    show parseJsonRpc cfg (mkCtx s o) c (.obj l) = _
    rw [parseJsonRpc_method cfg (mkCtx s o) c (.obj l) (p := p) (m := m) hp hm,
      handleMethod_routed cfg (mkCtx s o) p (.obj l) hm1 hm2, setOrCall_plan, hplan']
    dsimp only
    rw [hx, routeMain_delivered cfg s [] rest o.indexFull p (.obj l) params path isState e (some id) value tns hval htn]
    unfold sendResponse
    simp [hpc]
  rw [step_message]
  have hn : ¬ (findPeer s.peers c).isNone = true := by rw [hp]; simp
  rw [if_neg hn, hpj]
  simp

/-- removing the routing entry that was just appended leaves the table as it was (minus older
    entries that carry the same routed id) -/
theorem removeRoute_added (ps : List Peer) (o : Nat) (r : Route) :
    removeRoute (updatePeer ps o (fun q => { q with routes := q.routes ++ [r] })) o r.rid =
      removeRoute ps o r.rid := by
  unfold removeRoute
  rw [updatePeer_updatePeer _ _ _ _ (by intro _; rfl)]
  apply updatePeer_congr
  intro p _
  simp [List.filter_append]

end Cjet.Daemon.C11
