import Cjet.Ws.Wire
import Cjet.Lemmas.WsUnmask
/-! Helper lemmas: symbolic execution of the header machine on a frame in RFC 6455 wire layout. -/
namespace Cjet.Ws
open Cjet.Generated.Ws

theorem forall_uint8 (P : UInt8 → Prop) (h : ∀ n : Fin 256, P (UInt8.ofNat n)) : ∀ b, P b := by
  intro b
  simpa using h ⟨b.toNat, b.toNat_lt⟩

theorem decode_b0 : ∀ b : UInt8,
    ((b &&& UInt8.ofNat wsHeaderFin) == UInt8.ofNat wsHeaderFin) = decide (128 ≤ b.toNat) ∧
    ((b &&& UInt8.ofNat rsvMask) >>> UInt8.ofNat rsvShift).toNat = b.toNat / 16 % 8 ∧
    (b &&& UInt8.ofNat opcodeMask).toNat = b.toNat % 16 := by
  apply forall_uint8
  decide +kernel

theorem decode_b1 : ∀ b : UInt8,
    ((b &&& UInt8.ofNat wsMaskSet) == UInt8.ofNat wsMaskSet) = decide (128 ≤ b.toNat) ∧
    (b &&& ~~~(UInt8.ofNat wsMaskSet)).toNat = b.toNat % 128 := by
  apply forall_uint8
  decide +kernel

theorem beVal_be16 (n : Nat) (h : n < 65536) : beVal (be16 n) = n := by
  simp [beVal, be16]
  omega

theorem beVal_be64 (n : Nat) (h : n < 18446744073709551616) : beVal (be64 n) = n := by
  simp [beVal, be64]
  omega

@[simp] theorem seqRun_nil (s : St) (t : St × Bytes × List Action) : seqRun (s, []) t = t := by
  simp [seqRun]

theorem run_closed (c : Conf) (a : Nat) (s : St) (input : Bytes) (h : s.phase = .closed) :
    run c a s input = (s, input, []) := by
  rw [run]; simp [h]

theorem run_toomuch (c : Conf) (a : Nat) (s : St) (input : Bytes) (h : s.phase ≠ .closed)
    (hb : c.bufSize < s.want) : run c a s input = ({ s with phase := .closed }, input, errorHandler c) := by
  rw [run]; simp [h, hb]

theorem run_block (c : Conf) (a : Nat) (s : St) (input : Bytes) (h : s.phase ≠ .closed)
    (hb : s.want ≤ c.bufSize) (hl : input.length < s.want) : run c a s input = (s, input, []) := by
  rw [run]
  have : ¬ (c.bufSize < s.want) := by omega
  simp [h, this, hl]

/-- a satisfied request: exactly `want` bytes are delivered, the run goes on with the rest -/
theorem run_exact (c : Conf) (a : Nat) (s : St) (chunk rest : Bytes) (h : s.phase ≠ .closed)
    (hb : s.want ≤ c.bufSize) (h0 : 0 < s.want) (hl : chunk.length = s.want) :
    run c a s (chunk ++ rest) = seqRun (feed c a s chunk) (run c a (feed c a s chunk).1 rest) := by
  rw [run]
  have h1 : ¬ (c.bufSize < s.want) := by omega
  have h2 : ¬ (s.want = 0 ∨ (chunk ++ rest).length < s.want) := by
    simp only [List.length_append]; omega
  simp only [h, h1, h2, if_false]
  simp only [seqRun, ← hl, List.take_left', List.drop_left']


theorem readMaskOrPayload_phase (c : Conf) (a : Nat) (s : St) (p : Phase) :
    readMaskOrPayload c a { s with phase := p } = readMaskOrPayload c a s := rfl

theorem b0_toNat (fin : Bool) (rsv opcode : Nat) (hr : rsv < 8) (ho : opcode < 16) :
    (UInt8.ofNat (bit fin + rsv * 16 + opcode)).toNat = bit fin + rsv * 16 + opcode := by
  simp only [UInt8.toNat_ofNat']
  cases fin <;> simp [bit] <;> omega

theorem feed_header (c : Conf) (a : Nat) (s : St) (hs : s.phase = .header) (fin : Bool) (rsv opcode : Nat)
    (hr : rsv < 8) (ho : opcode < 16) :
    feed c a s [UInt8.ofNat (bit fin + rsv * 16 + opcode)] =
      ({ s with flags := { s.flags with fin := fin, rsv := rsv, opcode := opcode }, phase := .firstLen }, []) := by
  have h := decode_b0 (UInt8.ofNat (bit fin + rsv * 16 + opcode))
  rw [b0_toNat fin rsv opcode hr ho] at h
  obtain ⟨h1, h2, h3⟩ := h
  simp only [feed, hs, List.headD_cons, h1, h2, h3]
  have e1 : decide (128 ≤ bit fin + rsv * 16 + opcode) = fin := by
    cases fin <;> simp [bit] <;> omega
  have e2 : (bit fin + rsv * 16 + opcode) / 16 % 8 = rsv := by
    cases fin <;> simp [bit] <;> omega
  have e3 : (bit fin + rsv * 16 + opcode) % 16 = opcode := by
    cases fin <;> simp [bit] <;> omega
  rw [e1, e2, e3]


theorem b1_toNat (masked : Bool) (v : Nat) (hv : v < 128) :
    (UInt8.ofNat (bit masked + v)).toNat = bit masked + v := by
  simp only [UInt8.toNat_ofNat']
  cases masked <;> simp [bit] <;> omega

theorem feed_firstLen (c : Conf) (a : Nat) (s : St) (hs : s.phase = .firstLen) (masked : Bool) (v : Nat)
    (hv : v < 128) :
    feed c a s [UInt8.ofNat (bit masked + v)] =
      if v < 126 then readMaskOrPayload c a { s with flags := { s.flags with mask := masked }, length := v }
      else if v = 126 then ({ s with flags := { s.flags with mask := masked }, phase := .len16 }, [])
      else ({ s with flags := { s.flags with mask := masked }, phase := .len64 }, []) := by
  have h := decode_b1 (UInt8.ofNat (bit masked + v))
  rw [b1_toNat masked v hv] at h
  obtain ⟨h1, h2⟩ := h
  have e1 : decide (128 ≤ bit masked + v) = masked := by
    cases masked <;> simp [bit] <;> omega
  have e2 : (bit masked + v) % 128 = v := by
    cases masked <;> simp [bit] <;> omega
  simp only [feed, hs, List.headD_cons, h1, h2, e1, e2]


theorem run_header (c : Conf) (a : Nat) (s : St) (hs : s.phase = .header) (hbuf : 8 ≤ c.bufSize)
    (fin : Bool) (rsv opcode : Nat) (masked : Bool) (form : LenForm) (len : Nat)
    (hr : rsv < 8) (ho : opcode < 16) (hfit : form.fits len) (rest : Bytes) :
    run c a s (wireHeader fin rsv opcode masked form len ++ rest) =
      seqRun (readMaskOrPayload c a (s.withHeader fin rsv opcode masked len))
        (run c a (readMaskOrPayload c a (s.withHeader fin rsv opcode masked len)).1 rest) := by
  unfold wireHeader
  rw [List.cons_append]
  have hstep1 := run_exact c a s [UInt8.ofNat (bit fin + rsv * 16 + opcode)]
  simp only [List.singleton_append] at hstep1
  rw [hstep1 _ (by simp [hs]) (by simp [St.want, hs]; omega) (by simp [St.want, hs]) (by simp [St.want, hs])]
  rw [feed_header c a s hs fin rsv opcode hr ho, seqRun_nil]
  generalize hs1 : ({ s with flags := { s.flags with fin := fin, rsv := rsv, opcode := opcode }, phase := Phase.firstLen } : St) = s1
  have hp1 : s1.phase = .firstLen := by rw [← hs1]
  cases form with
  | short =>
    simp only [LenForm.fits] at hfit
    have hstep2 := run_exact c a s1 [UInt8.ofNat (bit masked + len)] rest (by simp [hp1])
      (by simp [St.want, hp1]; omega) (by simp [St.want, hp1]) (by simp [St.want, hp1])
    simp only [List.singleton_append] at hstep2
    simp only [List.cons_append, List.nil_append]
    rw [hstep2, feed_firstLen c a s1 hp1 masked len (by omega), if_pos hfit]
    rw [← hs1]
    rfl
  | ext16 =>
    simp only [LenForm.fits] at hfit
    have hstep2 := run_exact c a s1 [UInt8.ofNat (bit masked + 126)] (be16 len ++ rest) (by simp [hp1])
      (by simp [St.want, hp1]; omega) (by simp [St.want, hp1]) (by simp [St.want, hp1])
    simp only [List.singleton_append] at hstep2
    simp only [List.cons_append]
    rw [hstep2, feed_firstLen c a s1 hp1 masked 126 (by omega)]
    simp only [show ¬ (126 < 126) by omega, if_false, if_true, seqRun_nil]
    generalize hs2 : ({ s1 with flags := { s1.flags with mask := masked }, phase := Phase.len16 } : St) = s2
    have hp2 : s2.phase = .len16 := by rw [← hs2]
    rw [run_exact c a s2 (be16 len) rest (by simp [hp2]) (by simp [St.want, hp2, len16Bytes, len64Bytes]; omega) (by simp [St.want, hp2, len16Bytes, len64Bytes])
      (by simp [St.want, hp2, be16, len16Bytes])]
    simp only [feed, hp2, beVal_be16 len hfit]
    rw [← hs2, ← hs1]
    rfl
  | ext64 =>
    simp only [LenForm.fits] at hfit
    have hstep2 := run_exact c a s1 [UInt8.ofNat (bit masked + 127)] (be64 len ++ rest) (by simp [hp1])
      (by simp [St.want, hp1]; omega) (by simp [St.want, hp1]) (by simp [St.want, hp1])
    simp only [List.singleton_append] at hstep2
    simp only [List.cons_append]
    rw [hstep2, feed_firstLen c a s1 hp1 masked 127 (by omega)]
    simp only [show ¬ (127 < 126) by omega, show ¬ (127 = 126) by omega, if_false, seqRun_nil]
    generalize hs2 : ({ s1 with flags := { s1.flags with mask := masked }, phase := Phase.len64 } : St) = s2
    have hp2 : s2.phase = .len64 := by rw [← hs2]
    rw [run_exact c a s2 (be64 len) rest (by simp [hp2]) (by simp [St.want, hp2, len16Bytes, len64Bytes]; omega) (by simp [St.want, hp2, len16Bytes, len64Bytes])
      (by simp [St.want, hp2, be64, len64Bytes])]
    simp only [feed, hp2, beVal_be64 len hfit]
    rw [← hs2, ← hs1]
    rfl



theorem afterPayload_phase (s : St) (p : Phase) (r : PayloadResult) :
    afterPayload { s with phase := p } r = afterPayload s r := rfl

theorem readMaskOrPayload_invalid (c : Conf) (a : Nat) (s : St) (h1 : headerInvalid c s.flags s.length = true) :
    readMaskOrPayload c a s = ({ s with phase := .closed }, handleError c closeProtocolError) := by
  simp only [readMaskOrPayload, h1, if_true]

theorem readMaskOrPayload_masked (c : Conf) (a : Nat) (s : St)
    (h1 : headerInvalid c s.flags s.length = false) (hm : s.flags.mask = true) :
    readMaskOrPayload c a s = ({ s with phase := .mask }, []) := by
  simp only [readMaskOrPayload, h1, hm]
  simp

theorem readMaskOrPayload_unmasked_pos (c : Conf) (a : Nat) (s : St)
    (h1 : headerInvalid c s.flags s.length = false) (hm : s.flags.mask = false)
    (hl : s.length > 0) :
    readMaskOrPayload c a s = ({ s with phase := .payload }, []) := by
  simp only [readMaskOrPayload, h1, hm, hl]
  simp

theorem readMaskOrPayload_unmasked_zero (c : Conf) (a : Nat) (s : St)
    (h1 : headerInvalid c s.flags s.length = false) (hm : s.flags.mask = false)
    (hl : s.length = 0) :
    readMaskOrPayload c a s = afterPayload s (wsGetPayload c s.flags s.key a []) := by
  simp only [readMaskOrPayload, h1, hm]
  simp [hl]

theorem run_body (c : Conf) (a : Nat) (s : St) (hs : s.phase = .header) (hbuf : 8 ≤ c.bufSize)
    (fin : Bool) (rsv opcode : Nat) (key : Option Bytes) (hk : ∀ k, key = some k → k.length = 4)
    (payload : Bytes) (hlen : payload.length ≤ c.bufSize)
    (hctl : headerInvalid c { s.flags with fin := fin, rsv := rsv, opcode := opcode, mask := key.isSome }
      payload.length = false) (rest : Bytes) :
    let r := readMaskOrPayload c a (s.withHeader fin rsv opcode key.isSome payload.length)
    seqRun r (run c a r.1 (key.getD [] ++ wirePayload key payload ++ rest)) =
      seqRun (s.deliver c a fin rsv opcode key payload) (run c a (s.deliver c a fin rsv opcode key payload).1 rest) := by
  intro r
  cases key with
  | some k =>
    have hk4 : k.length = 4 := hk k rfl
    have hr : r = ({ s.withHeader fin rsv opcode true payload.length with phase := .mask }, []) :=
      readMaskOrPayload_masked c a _ hctl rfl
    rw [hr, seqRun_nil]
    simp only [Option.getD_some, wirePayload, List.append_assoc]
    generalize hs1 : ({ s.withHeader fin rsv opcode true payload.length with phase := Phase.mask } : St) = s1
    have hp1 : s1.phase = .mask := by rw [← hs1]
    rw [run_exact c a s1 k _ (by simp [hp1]) (by simp [St.want, hp1, maskBytes]; omega) (by simp [St.want, hp1, maskBytes])
      (by simp [St.want, hp1, maskBytes, hk4])]
    cases payload with
    | nil =>
      have hl0 : s1.length = 0 := by rw [← hs1]; simp [St.withHeader]
      simp only [feed, hp1, hl0, Nat.lt_irrefl, if_false, xorMask, xorFrom, List.nil_append]
      simp only [St.deliver, wirePayload, xorMask, xorFrom, Option.getD_some, Option.isSome_some]
      rw [← hs1]
      rfl
    | cons p ps =>
      have hlpos : s1.length = (p :: ps).length := by rw [← hs1]; simp [St.withHeader]
      have hl0 : s1.length > 0 := by rw [hlpos]; simp
      simp only [feed, hp1, hl0, if_true, seqRun_nil]
      generalize hs2 : ({ s1 with key := k, phase := Phase.payload } : St) = s2
      have hp2 : s2.phase = .payload := by rw [← hs2]
      have hl2 : s2.length = (p :: ps).length := by rw [← hs2]; exact hlpos
      rw [run_exact c a s2 (xorMask k (p :: ps)) rest (by simp [hp2]) (by simp only [St.want, hp2, hl2]; exact hlen)
        (by simp [St.want, hp2, hl2]) (by simp only [St.want, hp2, hl2, xorMask_length])]
      simp only [feed, hp2]
      simp only [St.deliver, wirePayload, Option.getD_some, Option.isSome_some]
      rw [← hs2, ← hs1]
      rfl
  | none =>
    simp only [Option.getD_none, wirePayload, List.nil_append, Option.isSome_none]
    cases payload with
    | nil =>
      have hr : r = afterPayload (s.withHeader fin rsv opcode false 0)
          (wsGetPayload c (s.withHeader fin rsv opcode false 0).flags (s.withHeader fin rsv opcode false 0).key a []) := by
        exact readMaskOrPayload_unmasked_zero c a _ hctl rfl rfl
      rw [hr]
      simp only [St.deliver, wirePayload, Option.getD_none, Option.isSome_none, List.length_nil, List.nil_append]
      rfl
    | cons p ps =>
      have hr : r = ({ s.withHeader fin rsv opcode false (p :: ps).length with phase := .payload }, []) :=
        readMaskOrPayload_unmasked_pos c a _ hctl rfl (by simp [St.withHeader])
      rw [hr, seqRun_nil]
      generalize hs2 : ({ s.withHeader fin rsv opcode false (p :: ps).length with phase := Phase.payload } : St) = s2
      have hp2 : s2.phase = .payload := by rw [← hs2]
      have hl2 : s2.length = (p :: ps).length := by rw [← hs2]; simp [St.withHeader]
      rw [run_exact c a s2 (p :: ps) rest (by simp [hp2]) (by simp only [St.want, hp2, hl2]; exact hlen)
        (by simp [St.want, hp2, hl2]) (by simp only [St.want, hp2, hl2])]
      simp only [feed, hp2]
      simp only [St.deliver, wirePayload, Option.getD_none, Option.isSome_none]
      rw [← hs2]
      rfl


/-- **The header machine on a frame in wire layout.**  From the header phase, for every FIN/RSV/opcode,
    every key (or none), each of the three length forms the length fits in, and every payload that the
    read buffer can hold (and that is not an oversized control frame, which is refused after the length),
    the run over the frame's bytes followed by `rest` is: deliver `(fin, rsv, opcode, key, payload)` to
    `ws_get_payload`, then run on `rest`. -/
theorem run_wire (c : Conf) (a : Nat) (s : St) (hs : s.phase = .header) (hbuf : 8 ≤ c.bufSize)
    (fin : Bool) (rsv opcode : Nat) (key : Option Bytes) (hk : ∀ k, key = some k → k.length = 4)
    (form : LenForm) (payload : Bytes) (hr : rsv < 8) (ho : opcode < 16) (hfit : form.fits payload.length)
    (hlen : payload.length ≤ c.bufSize)
    (hctl : headerInvalid c { s.flags with fin := fin, rsv := rsv, opcode := opcode, mask := key.isSome }
      payload.length = false) (rest : Bytes) :
    run c a s (wire fin rsv opcode key form payload ++ rest) =
      seqRun (s.deliver c a fin rsv opcode key payload) (run c a (s.deliver c a fin rsv opcode key payload).1 rest) := by
  unfold wire
  rw [List.append_assoc, List.append_assoc, run_header c a s hs hbuf fin rsv opcode key.isSome form payload.length hr ho hfit]
  have := run_body c a s hs hbuf fin rsv opcode key hk payload hlen hctl rest
  simpa [List.append_assoc] using this


theorem run_append (c : Conf) (a : Nat) (s : St) (x y : Bytes) :
    run c a s (x ++ y) =
      ((run c a (run c a s x).1 ((run c a s x).2.1 ++ y)).1,
       (run c a (run c a s x).1 ((run c a s x).2.1 ++ y)).2.1,
       (run c a s x).2.2 ++ (run c a (run c a s x).1 ((run c a s x).2.1 ++ y)).2.2) := by
  fun_induction run c a s x with
  | case1 s x h =>
    simp [run_closed c a s _ h]
  | case2 s x h hb =>
    rw [run_toomuch c a s _ h (by omega)]
    simp [run_closed]
  | case3 s x h hb hl =>
    simp
  | case4 s x h hb hl r t ih =>
    have hw : s.want ≤ x.length := by omega
    have h0 : 0 < s.want := by omega
    have hsplit : x ++ y = x.take s.want ++ (x.drop s.want ++ y) := by
      rw [← List.append_assoc, List.take_append_drop]
    rw [hsplit, run_exact c a s (x.take s.want) _ h (by omega) h0 (by rw [List.length_take]; omega)]
    simp only [seqRun]
    rw [ih]
    simp [r, t, List.append_assoc]


/-- after a run the machine is quiescent: running again on what is left does nothing -/
theorem run_idem (c : Conf) (a : Nat) (s : St) (x : Bytes) :
    run c a (run c a s x).1 (run c a s x).2.1 = ((run c a s x).1, (run c a s x).2.1, []) := by
  fun_induction run c a s x with
  | case1 s x h => simp [run_closed c a s _ h]
  | case2 s x h hb => simp [run_closed]
  | case3 s x h hb hl =>
    rw [run]
    simp [h, hb, hl]
  | case4 s x h hb hl r t ih => simpa [t] using ih

theorem runChunks_eq_run (c : Conf) (a : Nat) (s : St) (pending : Bytes) (chunks : List Bytes)
    (hq : run c a s pending = (s, pending, [])) :
    runChunks c a s pending chunks = run c a s (pending ++ chunks.flatten) := by
  induction chunks generalizing s pending with
  | nil => simp [runChunks, hq]
  | cons ch chs ih =>
    simp only [runChunks, List.flatten_cons]
    rw [ih _ _ (run_idem c a s (pending ++ ch)), ← List.append_assoc, run_append c a s (pending ++ ch)]


end Cjet.Ws
