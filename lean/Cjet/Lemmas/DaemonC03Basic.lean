/-
  DaemonC03Basic — vocabulary for the routing proofs (C03, C14):
  the routing view of a state, timer observations, and the small lemmas about
  `findPeer`, `updatePeer`, `send`, `send'`, `emit` that everything else reuses.
-/
import Cjet.Daemon.Model

namespace Cjet.Daemon.C03

open Cjet Cjet.Json Cjet.Daemon

/-! ## the routing view -/

/-- what the router knows of a peer -/
structure PV where
  conn : Nat
  addr : Bytes
  routes : List Route

def pview (p : Peer) : PV := ⟨p.conn, p.addrTok, p.routes⟩

@[simp] theorem pview_conn (p : Peer) : (pview p).conn = p.conn := rfl
@[simp] theorem pview_addr (p : Peer) : (pview p).addr = p.addrTok := rfl
@[simp] theorem pview_routes (p : Peer) : (pview p).routes = p.routes := rfl

theorem pview_eq {p q : Peer} (h1 : p.conn = q.conn) (h2 : p.addrTok = q.addrTok) (h3 : p.routes = q.routes) :
    pview p = pview q := by
  simp [pview, h1, h2, h3]

/-- every routing entry of the daemon, owner table by owner table -/
def allRoutes (s : State) : List Route := s.peers.flatMap (·.routes)

def isTimerObs : Obs → Bool
  | .timerArm _ _ => true
  | .timerDestroy _ => true
  | _ => false

/-- the timer observations of an output list -/
def tobs (l : List Obs) : List Obs := l.filter isTimerObs

@[simp] theorem tobs_nil : tobs [] = [] := rfl
@[simp] theorem tobs_cons_arm (t ns : Nat) (l : List Obs) : tobs (.timerArm t ns :: l) = .timerArm t ns :: tobs l := rfl
@[simp] theorem tobs_cons_destroy (t : Nat) (l : List Obs) : tobs (.timerDestroy t :: l) = .timerDestroy t :: tobs l := rfl
@[simp] theorem tobs_cons_send (c : Nat) (j : Json) (b : Bool) (l : List Obs) : tobs (.send c j b :: l) = tobs l := rfl
@[simp] theorem tobs_cons_closed (c : Nat) (l : List Obs) : tobs (.closed c :: l) = tobs l := rfl
theorem tobs_append (l₁ l₂ : List Obs) : tobs (l₁ ++ l₂) = tobs l₁ ++ tobs l₂ := by simp [tobs]

/-- Two contexts agree on everything the router looks at, and on the timer observations. -/
structure Frame (x y : Ctx) : Prop where
  peers : y.st.peers.map pview = x.st.peers.map pview
  uuid : y.st.uuid = x.st.uuid
  nextTimer : y.st.nextTimer = x.st.nextTimer
  tobs : tobs y.out = tobs x.out
  routeFull : y.routeFull = x.routeFull

theorem Frame.refl (x : Ctx) : Frame x x := ⟨rfl, rfl, rfl, rfl, rfl⟩

theorem Frame.trans {x y z : Ctx} (h1 : Frame x y) (h2 : Frame y z) : Frame x z :=
  ⟨h2.peers.trans h1.peers, h2.uuid.trans h1.uuid, h2.nextTimer.trans h1.nextTimer,
   h2.tobs.trans h1.tobs, h2.routeFull.trans h1.routeFull⟩

/-! ## send, send', emit -/

@[simp] theorem send_st (x : Ctx) (c : Nat) (j : Json) : (send x c j).1.st = x.st := by
  unfold send; split <;> rfl

@[simp] theorem send'_st (x : Ctx) (c : Nat) (j : Json) : (send' x c j).st = x.st := send_st x c j

@[simp] theorem emit_st (x : Ctx) (o : Obs) : (emit x o).st = x.st := rfl
@[simp] theorem emit_out (x : Ctx) (o : Obs) : (emit x o).out = o :: x.out := rfl
@[simp] theorem emit_sends (x : Ctx) (o : Obs) : (emit x o).sends = x.sends := rfl
@[simp] theorem emit_routeFull (x : Ctx) (o : Obs) : (emit x o).routeFull = x.routeFull := rfl

@[simp] theorem send_routeFull (x : Ctx) (c : Nat) (j : Json) : (send x c j).1.routeFull = x.routeFull := by
  unfold send; split <;> rfl

@[simp] theorem send'_routeFull (x : Ctx) (c : Nat) (j : Json) : (send' x c j).routeFull = x.routeFull :=
  send_routeFull x c j

/-- the result of the next send: the head of the oracle list, success when it is exhausted -/
def nextSend (x : Ctx) : Bool := x.sends.headD true

theorem send_out (x : Ctx) (c : Nat) (j : Json) : (send x c j).1.out = Obs.send c j (nextSend x) :: x.out := by
  unfold send nextSend; split <;> simp_all

theorem send_snd (x : Ctx) (c : Nat) (j : Json) : (send x c j).2 = nextSend x := by
  unfold send nextSend; split <;> simp_all

theorem send'_out (x : Ctx) (c : Nat) (j : Json) : (send' x c j).out = Obs.send c j (nextSend x) :: x.out :=
  send_out x c j

@[simp] theorem tobs_send (x : Ctx) (c : Nat) (j : Json) : tobs (send x c j).1.out = tobs x.out := by
  rw [send_out]; rfl

@[simp] theorem tobs_send' (x : Ctx) (c : Nat) (j : Json) : tobs (send' x c j).out = tobs x.out := tobs_send x c j

theorem frame_send (x : Ctx) (c : Nat) (j : Json) : Frame x (send x c j).1 :=
  ⟨by simp, by simp, by simp, by simp, by simp⟩

theorem frame_send' (x : Ctx) (c : Nat) (j : Json) : Frame x (send' x c j) := frame_send x c j

/-- changing only the oracle flag `indexFull` -/
theorem frame_of_eq {x y : Ctx} (hst : y.st = x.st) (hout : y.out = x.out) (hrf : y.routeFull = x.routeFull) :
    Frame x y := by
  refine ⟨by rw [hst], by rw [hst], by rw [hst], by rw [hout], hrf⟩

/-- a state change that touches nothing the router looks at -/
theorem frame_of_peers {x y : Ctx} (hp : y.st.peers.map pview = x.st.peers.map pview)
    (hu : y.st.uuid = x.st.uuid) (ht : y.st.nextTimer = x.st.nextTimer) (hout : y.out = x.out)
    (hrf : y.routeFull = x.routeFull) : Frame x y :=
  ⟨hp, hu, ht, by rw [hout], hrf⟩

/-! ## findPeer, updatePeer, mapElements -/

theorem findPeer_mem {ps : List Peer} {c : Nat} {p : Peer} (h : findPeer ps c = some p) : p ∈ ps :=
  List.mem_of_find?_eq_some h

theorem findPeer_conn {ps : List Peer} {c : Nat} {p : Peer} (h : findPeer ps c = some p) : p.conn = c := by
  have := List.find?_some h
  simpa using this

theorem findPeer_isSome {ps : List Peer} {c : Nat} : (findPeer ps c).isSome = true ↔ ∃ p ∈ ps, p.conn = c := by
  unfold findPeer
  rw [List.find?_isSome]
  simp

theorem findPeer_eq_none {ps : List Peer} {c : Nat} : findPeer ps c = none ↔ ∀ p ∈ ps, p.conn ≠ c := by
  unfold findPeer
  rw [List.find?_eq_none]
  simp

/-- `findPeer` only looks at the connection numbers -/
theorem findPeer_isSome_congr {ps qs : List Peer} (h : qs.map pview = ps.map pview) (c : Nat) :
    (findPeer qs c).isSome = (findPeer ps c).isSome := by
  have hc : qs.map (·.conn) = ps.map (·.conn) := by
    have := congrArg (List.map PV.conn) h
    simpa [List.map_map, Function.comp_def] using this
  have key : ∀ l : List Peer, (findPeer l c).isSome = (l.map (·.conn)).contains c := by
    intro l
    induction l with
    | nil => rfl
    | cons a t ih =>
      simp only [findPeer, List.find?_cons, List.map_cons, List.contains_cons] at ih ⊢
      cases hac : a.conn == c
      · simp only [] at ih ⊢
        rw [ih]
        have : (c == a.conn) = false := by
          simp only [beq_eq_false_iff_ne, ne_eq] at hac ⊢; exact fun e => hac e.symm
        simp [this]
      · have : (c == a.conn) = true := by
          simp only [beq_iff_eq] at hac ⊢; exact hac.symm
        simp [this]
  rw [key, key, hc]

theorem map_pview_updatePeer (ps : List Peer) (c : Nat) (f : Peer → Peer) (hf : ∀ p, pview (f p) = pview p) :
    (updatePeer ps c f).map pview = ps.map pview := by
  unfold updatePeer
  rw [List.map_map]
  apply List.map_congr_left
  intro p _
  simp only [Function.comp]
  split
  · exact hf p
  · rfl

theorem map_pview_mapElements (ps : List Peer) (f : Element → Element) :
    (mapElements ps f).map pview = ps.map pview := by
  unfold mapElements
  rw [List.map_map]
  apply List.map_congr_left
  intro p _
  rfl

theorem mem_updatePeer {ps : List Peer} {c : Nat} {f : Peer → Peer} {q : Peer} :
    q ∈ updatePeer ps c f ↔ ∃ p ∈ ps, q = if p.conn == c then f p else p := by
  unfold updatePeer
  rw [List.mem_map]
  constructor
  · rintro ⟨p, hp, rfl⟩; exact ⟨p, hp, rfl⟩
  · rintro ⟨p, hp, rfl⟩; exact ⟨p, hp, rfl⟩

/-- generic fold invariant -/
theorem foldl_inv {α β : Type} (Q : β → Prop) (f : β → α → β) (l : List α) (b : β)
    (hb : Q b) (hf : ∀ b a, a ∈ l → Q b → Q (f b a)) : Q (l.foldl f b) := by
  induction l generalizing b with
  | nil => exact hb
  | cons a t ih =>
    simp only [List.foldl_cons]
    apply ih
    · exact hf b a (List.mem_cons_self ..) hb
    · intro b' a' ha' hq
      exact hf b' a' (List.mem_cons_of_mem _ ha') hq

end Cjet.Daemon.C03
