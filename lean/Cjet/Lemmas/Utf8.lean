/-
  Helper lemmas for property C18 (Cjet.Utf8).  The property theorems are in Cjet/Props/C18.lean.

  Layout
   1. single-byte tables (`decide +kernel` over `Fin 256`, lifted to `UInt8`)
   2. `isByteValid` in each state class; failure resets; the invariant `Checker.ok`
   3. `runBytes`: append, invariant, failure state
   4. acceptance = RFC 3629 grammar (`accepts_eq_wellFormed`), completion of every reachable state
   5. words: bytes of a word as arithmetic on `toNat`, masks distribute over bytes,
      soundness of the fast-path predicates, word loop = byte loop
   6. little-endian loads round-trip; the auto-aligned front end
-/
import Cjet.Utf8

namespace Cjet.Utf8
open Cjet.Generated.Utf8

/-! ## 1. single-byte tables -/

theorem forall_u8 {P : UInt8 → Prop} (h : ∀ n : Fin 256, P (UInt8.ofNat n)) : ∀ b, P b := by
  intro b; simpa using h ⟨b.toNat, b.toNat_lt⟩

theorem notCont_eq : ∀ b : UInt8, notCont b = !(utf8Tail b) := by
  apply forall_u8; decide +kernel

theorem cls_ascii : ∀ b : UInt8, b.toNat &&& 128 = 0 → utf8_1 b = true := by
  apply forall_u8; decide +kernel

theorem cls_tail : ∀ b : UInt8, b.toNat &&& 192 = 128 → utf8Tail b = true := by
  apply forall_u8; decide +kernel

theorem cls_lead2 : ∀ b : UInt8, b.toNat &&& 224 = 192 → 1 < b.toNat % 32 →
    inRange 0xC2 0xDF b = true := by
  apply forall_u8; decide +kernel

/-- The second byte a lead byte admits (RFC 3629: E0 A0-BF, ED 80-9F, F0 90-BF, F4 80-8F,
    otherwise a plain tail byte). -/
def secondRange (b0 b1 : UInt8) : Bool :=
  if b0 == 0xE0 then inRange 0xA0 0xBF b1
  else if b0 == 0xED then inRange 0x80 0x9F b1
  else if b0 == 0xF0 then inRange 0x90 0xBF b1
  else if b0 == 0xF4 then inRange 0x80 0x8F b1
  else utf8Tail b1

/-- Some second byte that `secondRange` admits. -/
def goodSecond (b0 : UInt8) : UInt8 :=
  if b0 == 0xE0 then 0xA0 else if b0 == 0xF0 then 0x90 else 0x80

theorem secondRange_goodSecond : ∀ b0 : UInt8, secondRange b0 (goodSecond b0) = true := by
  apply forall_u8; decide +kernel

theorem secondRet_eq (b0 b1 : UInt8) : secondRet b0 b1 = secondRange b0 b1 := by
  simp only [secondRet, secondRange, notCont_eq, utf8Tail, inRange]
  grind

theorem secondRange_lead2 (b0 b1 : UInt8) (h : inRange 0xC2 0xDF b0 = true) :
    secondRange b0 b1 = utf8Tail b1 := by
  simp only [secondRange, inRange] at *
  grind

theorem utf8_2_eq (b0 b1 : UInt8) :
    utf8_2 b0 b1 = (inRange 0xC2 0xDF b0 && secondRange b0 b1) := by
  simp only [utf8_2, secondRange, utf8Tail, inRange]
  grind

theorem utf8_3_eq (b0 b1 b2 : UInt8) :
    utf8_3 b0 b1 b2 = (inRange 0xE0 0xEF b0 && secondRange b0 b1 && utf8Tail b2) := by
  simp only [utf8_3]
  generalize utf8Tail b2 = t2
  simp only [secondRange, utf8Tail, inRange]
  grind

theorem utf8_4_eq (b0 b1 b2 b3 : UInt8) :
    utf8_4 b0 b1 b2 b3 =
      (inRange 0xF0 0xF4 b0 && secondRange b0 b1 && utf8Tail b2 && utf8Tail b3) := by
  simp only [utf8_4]
  generalize utf8Tail b2 = t2
  generalize utf8Tail b3 = t3
  simp only [secondRange, utf8Tail, inRange]
  grind

theorem lead_classes (b0 : UInt8) :
    (utf8_1 b0 = true →
      inRange 0xC2 0xDF b0 = false ∧ inRange 0xE0 0xEF b0 = false ∧ inRange 0xF0 0xF4 b0 = false) ∧
    (inRange 0xC2 0xDF b0 = true → inRange 0xE0 0xEF b0 = false ∧ inRange 0xF0 0xF4 b0 = false) ∧
    (inRange 0xE0 0xEF b0 = true → inRange 0xF0 0xF4 b0 = false) := by
  simp only [utf8_1, inRange]; grind

/-! ## 2. `isByteValid` per state class -/

theorem isByteValid_init (b : UInt8) :
    isByteValid init b =
      if utf8_1 b then (true, init)
      else if inRange 0xC2 0xDF b then (true, ⟨b, 2, 2⟩)
      else if inRange 0xE0 0xEF b then (true, ⟨b, 3, 2⟩)
      else if inRange 0xF0 0xF4 b then (true, ⟨b, 4, 2⟩)
      else (false, init) := by
  simp only [isByteValid, switchNext, init, utf8_1, inRange, ucFinish]
  grind

theorem isByteValid_two (s l b : UInt8) :
    isByteValid ⟨s, l, 2⟩ b =
      if secondRange s b then (if l == 2 then (true, init) else (true, ⟨s, l, 3⟩))
      else (false, init) := by
  simp only [isByteValid, switchNext, init, ucFinish, secondRet_eq]
  grind

theorem isByteValid_three (s l b : UInt8) :
    isByteValid ⟨s, l, 3⟩ b =
      if utf8Tail b then (if l == 3 then (true, init) else (true, ⟨s, l, 4⟩))
      else (false, init) := by
  simp only [isByteValid, switchNext, init, ucFinish, notCont_eq]
  grind

theorem isByteValid_four (s l b : UInt8) :
    isByteValid ⟨s, l, 4⟩ b = (utf8Tail b, init) := by
  simp only [isByteValid, switchNext, init, ucFinish, notCont_eq]
  grind

/-- A rejected byte re-initialises the checker — in every state, reachable or not. -/
theorem isByteValid_false (c : Checker) (b : UInt8) (h : (isByteValid c b).1 = false) :
    (isByteValid c b).2 = init := by
  simp only [isByteValid, init] at *
  grind

theorem ok_init : init.ok = true := by decide

theorem ok_cases (c : Checker) (h : c.ok = true) :
    c = init ∨ (∃ s, inRange 0xC2 0xDF s = true ∧ c = ⟨s, 2, 2⟩)
    ∨ (∃ s, inRange 0xE0 0xEF s = true ∧ (c = ⟨s, 3, 2⟩ ∨ c = ⟨s, 3, 3⟩))
    ∨ (∃ s, inRange 0xF0 0xF4 s = true ∧ (c = ⟨s, 4, 2⟩ ∨ c = ⟨s, 4, 3⟩ ∨ c = ⟨s, 4, 4⟩)) := by
  obtain ⟨s, l, n⟩ := c
  simp only [Checker.ok, Bool.or_eq_true, Bool.and_eq_true, beq_iff_eq] at h
  simp only [init, Checker.mk.injEq]
  rcases h with ((⟨⟨h1, h2⟩, h3⟩ | ⟨⟨h1, h2⟩, h3⟩) | ⟨⟨h1, h2⟩, h3⟩) | ⟨⟨h1, h2⟩, h3⟩
  · exact Or.inl ⟨h1, h2, h3⟩
  · exact Or.inr (Or.inl ⟨s, h1, rfl, h2, h3⟩)
  · refine Or.inr (Or.inr (Or.inl ⟨s, h1, ?_⟩))
    rcases h3 with h3 | h3
    · exact Or.inl ⟨rfl, h2, h3⟩
    · exact Or.inr ⟨rfl, h2, h3⟩
  · refine Or.inr (Or.inr (Or.inr ⟨s, h1, ?_⟩))
    rcases h3 with (h3 | h3) | h3
    · exact Or.inl ⟨rfl, h2, h3⟩
    · exact Or.inr (Or.inl ⟨rfl, h2, h3⟩)
    · exact Or.inr (Or.inr ⟨rfl, h2, h3⟩)

theorem ok_lead2 (s : UInt8) (h : inRange 0xC2 0xDF s = true) : (Checker.mk s 2 2).ok = true := by
  simp [Checker.ok, h]
theorem ok_lead3 (s : UInt8) (h : inRange 0xE0 0xEF s = true) :
    (Checker.mk s 3 2).ok = true ∧ (Checker.mk s 3 3).ok = true := by
  simp [Checker.ok, h]
theorem ok_lead4 (s : UInt8) (h : inRange 0xF0 0xF4 s = true) :
    (Checker.mk s 4 2).ok = true ∧ (Checker.mk s 4 3).ok = true ∧ (Checker.mk s 4 4).ok = true := by
  simp [Checker.ok, h]

/-- The invariant is preserved by every byte. -/
theorem ok_isByteValid (c : Checker) (b : UInt8) (h : c.ok = true) : (isByteValid c b).2.ok = true := by
  rcases ok_cases c h with rfl | ⟨s, hs, rfl⟩ | ⟨s, hs, rfl | rfl⟩ | ⟨s, hs, rfl | rfl | rfl⟩
  · rw [isByteValid_init]
    split
    · exact ok_init
    · split
      · exact ok_lead2 _ ‹_›
      · split
        · exact (ok_lead3 _ ‹_›).1
        · split
          · exact (ok_lead4 _ ‹_›).1
          · exact ok_init
  · rw [isByteValid_two]; split <;> simp [ok_init]
  · rw [isByteValid_two]; split <;> simp [ok_init, (ok_lead3 s hs).2]
  · rw [isByteValid_three]; split <;> simp [ok_init]
  · rw [isByteValid_two]; split <;> simp [ok_init, (ok_lead4 s hs).2.1]
  · rw [isByteValid_three]; split <;> simp [ok_init, (ok_lead4 s hs).2.2]
  · rw [isByteValid_four]; exact ok_init

/-- In a reachable state `next_byte == 1` means "initial state". -/
theorem ok_next_one (c : Checker) (h : c.ok = true) (h1 : c.next = 1) : c = init := by
  rcases ok_cases c h with rfl | ⟨s, hs, rfl⟩ | ⟨s, hs, rfl | rfl⟩ | ⟨s, hs, rfl | rfl | rfl⟩ <;>
    first | rfl | (exfalso; simp at h1)

theorem ok_start_finish (c : Checker) (h : c.ok = true) (h1 : c.start = ucFinish) : c = init := by
  rcases ok_cases c h with rfl | ⟨s, hs, rfl⟩ | ⟨s, hs, rfl | rfl⟩ | ⟨s, hs, rfl | rfl | rfl⟩ <;>
    first | rfl | (exfalso; simp only at h1; subst h1; revert hs; decide)

/-! ## 3. `runBytes` -/

theorem runBytes_nil (c : Checker) : runBytes c [] = (true, c) := rfl

theorem runBytes_cons (c : Checker) (b : UInt8) (bs : List UInt8) :
    runBytes c (b :: bs) =
      if (isByteValid c b).1 then runBytes (isByteValid c b).2 bs else (false, (isByteValid c b).2) := by
  rw [runBytes]
  rcases h : isByteValid c b with ⟨r, c'⟩
  cases r <;> simp

theorem runBytes_append (c : Checker) (xs ys : List UInt8) :
    runBytes c (xs ++ ys) =
      if (runBytes c xs).1 then runBytes (runBytes c xs).2 ys else runBytes c xs := by
  induction xs generalizing c with
  | nil => simp [runBytes_nil]
  | cons b xs ih =>
    simp only [List.cons_append, runBytes_cons]
    cases h : (isByteValid c b).1 <;> simp [ih]

theorem runBytes_false (c : Checker) (bs : List UInt8) (h : (runBytes c bs).1 = false) :
    (runBytes c bs).2 = init := by
  induction bs generalizing c with
  | nil => simp [runBytes_nil] at h
  | cons b bs ih =>
    rw [runBytes_cons] at h ⊢
    cases hb : (isByteValid c b).1
    · simp only [hb] at h ⊢
      exact isByteValid_false c b hb
    · simp only [hb, if_true] at h ⊢
      exact ih _ h

theorem ok_runBytes (c : Checker) (bs : List UInt8) (h : c.ok = true) : (runBytes c bs).2.ok = true := by
  induction bs generalizing c with
  | nil => simpa [runBytes_nil] using h
  | cons b bs ih =>
    rw [runBytes_cons]
    cases hb : (isByteValid c b).1
    · simp only [Bool.false_eq_true, if_false]
      exact ok_isByteValid c b h
    · simp only [if_true]
      exact ih _ (ok_isByteValid c b h)

theorem byteSeq_false_eq (c : Checker) (bs : List UInt8) : byteSeq c bs false = runBytes c bs := by
  rw [byteSeq]
  rcases runBytes c bs with ⟨r, c'⟩
  cases r <;> simp

theorem byteSeq_eq_finish (c : Checker) (bs : List UInt8) (k : Bool) :
    byteSeq c bs k = finish (runBytes c bs) k := by
  unfold byteSeq finish; rfl

theorem ok_finish (r : Bool × Checker) (k : Bool) (h : r.2.ok = true) : (finish r k).2.ok = true := by
  rcases r with ⟨v, c⟩
  cases v
  · simpa [finish] using h
  · simp only [finish]
    split
    · exact ok_init
    · exact h

theorem ok_byteSeq (c : Checker) (bs : List UInt8) (k : Bool) (h : c.ok = true) :
    (byteSeq c bs k).2.ok = true := by
  rw [byteSeq_eq_finish]; exact ok_finish _ _ (ok_runBytes c bs h)

/-! ## 4. acceptance = grammar -/

/-- accepted as a complete text when started in state `c` -/
def accepts (c : Checker) (bs : List UInt8) : Bool := (byteSeq c bs true).1

theorem accepts_init_nil : accepts init [] = true := by decide

theorem accepts_init_cons (b : UInt8) (rest : List UInt8) :
    accepts init (b :: rest) =
      if utf8_1 b then accepts init rest
      else if inRange 0xC2 0xDF b then accepts ⟨b, 2, 2⟩ rest
      else if inRange 0xE0 0xEF b then accepts ⟨b, 3, 2⟩ rest
      else if inRange 0xF0 0xF4 b then accepts ⟨b, 4, 2⟩ rest
      else false := by
  simp only [accepts, byteSeq, runBytes, isByteValid_init]
  grind

theorem accepts_mid_nil (s l n : UInt8) (h : s ≠ 0xFF) : accepts ⟨s, l, n⟩ [] = false := by
  simp [accepts, byteSeq, runBytes, ucFinish, h]

theorem accepts_two_cons (s l b : UInt8) (rest : List UInt8) :
    accepts ⟨s, l, 2⟩ (b :: rest) =
      (secondRange s b && (if l == 2 then accepts init rest else accepts ⟨s, l, 3⟩ rest)) := by
  simp only [accepts, byteSeq, runBytes, isByteValid_two]
  grind

theorem accepts_three_cons (s l b : UInt8) (rest : List UInt8) :
    accepts ⟨s, l, 3⟩ (b :: rest) =
      (utf8Tail b && (if l == 3 then accepts init rest else accepts ⟨s, l, 4⟩ rest)) := by
  simp only [accepts, byteSeq, runBytes, isByteValid_three]
  grind

theorem accepts_four_cons (s l b : UInt8) (rest : List UInt8) :
    accepts ⟨s, l, 4⟩ (b :: rest) = (utf8Tail b && accepts init rest) := by
  simp only [accepts, byteSeq, runBytes, isByteValid_four]
  grind

theorem wellFormed_cons (b0 : UInt8) (rest : List UInt8) :
    wellFormed (b0 :: rest) =
      ((utf8_1 b0 && wellFormed rest) ||
       (match rest with
        | [] => false
        | b1 :: r1 =>
          (utf8_2 b0 b1 && wellFormed r1) ||
          (match r1 with
           | [] => false
           | b2 :: r2 =>
             (utf8_3 b0 b1 b2 && wellFormed r2) ||
             (match r2 with
              | [] => false
              | b3 :: r3 => utf8_4 b0 b1 b2 b3 && wellFormed r3)))) := by
  rcases rest with _ | ⟨b1, _ | ⟨b2, _ | ⟨b3, r3⟩⟩⟩ <;> simp [wellFormed]

theorem accepts_eq_wellFormed_aux :
    ∀ (n : Nat) (bs : List UInt8), bs.length ≤ n → accepts init bs = wellFormed bs := by
  intro n
  induction n with
  | zero => intro bs h; cases bs <;> simp_all [accepts_init_nil, wellFormed]
  | succ n ih =>
    intro bs h
    rcases bs with _ | ⟨b0, rest⟩
    · simp [accepts_init_nil, wellFormed]
    have hl : ∀ r : List UInt8, r.length ≤ rest.length → accepts init r = wellFormed r := by
      intro r hr; apply ih; simp only [List.length_cons] at h; omega
    have hne : ∀ l k,
        (inRange 0xC2 0xDF b0 || inRange 0xE0 0xEF b0 || inRange 0xF0 0xF4 b0) = true →
        accepts ⟨b0, l, k⟩ [] = false := by
      intro l k h1; apply accepts_mid_nil
      intro hb; subst hb; revert h1; decide
    obtain ⟨d1, d2, d3⟩ := lead_classes b0
    rw [accepts_init_cons, wellFormed_cons]
    rcases rest with _ | ⟨b1, _ | ⟨b2, _ | ⟨b3, r3⟩⟩⟩
    · simp only [accepts_init_nil, wellFormed]
      cases h1 : utf8_1 b0 <;> simp_all
    · simp only [accepts_two_cons, utf8_2_eq, wellFormed, accepts_init_nil,
        hl [b1] (by simp)]
      cases h1 : utf8_1 b0 <;> cases h2 : inRange 0xC2 0xDF b0 <;>
        cases h3 : inRange 0xE0 0xEF b0 <;> cases h4 : inRange 0xF0 0xF4 b0 <;> simp_all
    · simp only [accepts_two_cons, accepts_three_cons, utf8_2_eq, utf8_3_eq,
        accepts_init_nil, hl [b1, b2] (by simp), hl [b2] (by simp)]
      cases h1 : utf8_1 b0 <;> cases h2 : inRange 0xC2 0xDF b0 <;>
        cases h3 : inRange 0xE0 0xEF b0 <;> cases h4 : inRange 0xF0 0xF4 b0 <;>
        simp_all [wellFormed.eq_1]
    · simp only [accepts_two_cons, accepts_three_cons, accepts_four_cons, utf8_2_eq,
        utf8_3_eq, utf8_4_eq,
        hl (b1 :: b2 :: b3 :: r3) (by simp), hl (b2 :: b3 :: r3) (by simp),
        hl (b3 :: r3) (by simp only [List.length_cons]; omega),
        hl r3 (by simp only [List.length_cons]; omega)]
      cases h1 : utf8_1 b0 <;> cases h2 : inRange 0xC2 0xDF b0 <;>
        cases h3 : inRange 0xE0 0xEF b0 <;> cases h4 : inRange 0xF0 0xF4 b0 <;>
        simp_all [Bool.and_assoc]

theorem accepts_eq_wellFormed (bs : List UInt8) : accepts init bs = wellFormed bs :=
  accepts_eq_wellFormed_aux bs.length bs (Nat.le_refl _)

/-- Bytes that bring a reachable state back to the initial state. -/
def completion (c : Checker) : List UInt8 :=
  if c.next == 2 then
    goodSecond c.start :: (if c.length == 2 then [] else if c.length == 3 then [0x80] else [0x80, 0x80])
  else if c.next == 3 then
    (if c.length == 3 then [0x80] else [0x80, 0x80])
  else if c.next == 4 then [0x80]
  else []

theorem runBytes_completion (c : Checker) (h : c.ok = true) :
    runBytes c (completion c) = (true, init) := by
  have t80 : utf8Tail 0x80 = true := by decide
  rcases ok_cases c h with rfl | ⟨s, hs, rfl⟩ | ⟨s, hs, rfl | rfl⟩ | ⟨s, hs, rfl | rfl | rfl⟩
  · rfl
  all_goals
    simp [completion, runBytes_cons, runBytes_nil, isByteValid_two, isByteValid_three,
      isByteValid_four, secondRange_goodSecond, t80]

/-! ### `Checker.ok` is exactly reachability -/

theorem reachable_ok (c : Checker) (h : Reachable c) : c.ok = true := by
  induction h with
  | init => exact ok_init
  | step c b _ ih => exact ok_isByteValid c b ih

theorem reach_of_eq {c c' : Checker} (b : UInt8) (h : Reachable c) (e : (isByteValid c b).2 = c') :
    Reachable c' := e ▸ Reachable.step c b h

theorem ok_reachable (c : Checker) (h : c.ok = true) : Reachable c := by
  have t80 : utf8Tail 0x80 = true := by decide
  rcases ok_cases c h with rfl | ⟨s, hs, rfl⟩ | ⟨s, hs, hc⟩ | ⟨s, hs, hc⟩
  · exact Reachable.init
  · obtain ⟨d1, d2, d3⟩ := lead_classes s
    have h1 : utf8_1 s = false := by
      cases h : utf8_1 s
      · rfl
      · simp [d1 h] at hs
    exact reach_of_eq s Reachable.init (by simp [isByteValid_init, h1, hs])
  · obtain ⟨d1, d2, d3⟩ := lead_classes s
    have h1 : utf8_1 s = false := by
      cases h : utf8_1 s
      · rfl
      · simp [d1 h] at hs
    have h2 : inRange 0xC2 0xDF s = false := by
      cases h : inRange 0xC2 0xDF s
      · rfl
      · simp [d2 h] at hs
    have r2 : Reachable ⟨s, 3, 2⟩ :=
      reach_of_eq s Reachable.init (by simp [isByteValid_init, h1, h2, hs])
    rcases hc with rfl | rfl
    · exact r2
    · exact reach_of_eq (goodSecond s) r2 (by simp [isByteValid_two, secondRange_goodSecond])
  · obtain ⟨d1, d2, d3⟩ := lead_classes s
    have h1 : utf8_1 s = false := by
      cases h : utf8_1 s
      · rfl
      · simp [d1 h] at hs
    have h2 : inRange 0xC2 0xDF s = false := by
      cases h : inRange 0xC2 0xDF s
      · rfl
      · simp [d2 h] at hs
    have h3 : inRange 0xE0 0xEF s = false := by
      cases h : inRange 0xE0 0xEF s
      · rfl
      · simp [d3 h] at hs
    have r2 : Reachable ⟨s, 4, 2⟩ :=
      reach_of_eq s Reachable.init (by simp [isByteValid_init, h1, h2, h3, hs])
    have r3 : Reachable ⟨s, 4, 3⟩ :=
      reach_of_eq (goodSecond s) r2 (by simp [isByteValid_two, secondRange_goodSecond])
    rcases hc with rfl | rfl | rfl
    · exact r2
    · exact r3
    · exact reach_of_eq 0x80 r3 (by simp [isByteValid_three, t80])

/-! ### the Boolean spec against the grammar read as "a concatenation of characters" -/

theorem wellFormed_append_char (ch rest : List UInt8) (hc : isUtf8Char ch = true)
    (hr : wellFormed rest = true) : wellFormed (ch ++ rest) = true := by
  rcases ch with _ | ⟨b0, _ | ⟨b1, _ | ⟨b2, _ | ⟨b3, _ | ⟨b4, r⟩⟩⟩⟩⟩ <;>
    simp only [isUtf8Char, Bool.false_eq_true] at hc <;>
    simp [wellFormed_cons, hc, hr]

theorem wellFormed_flatten (chars : List (List UInt8))
    (h : ∀ ch ∈ chars, isUtf8Char ch = true) : wellFormed chars.flatten = true := by
  induction chars with
  | nil => rfl
  | cons ch chars ih =>
    rw [List.flatten_cons]
    exact wellFormed_append_char ch _ (h ch (by simp))
      (ih (fun c hc => h c (by simp [hc])))

theorem wellFormed_chars_aux : ∀ (n : Nat) (bs : List UInt8), bs.length ≤ n →
    wellFormed bs = true →
    ∃ chars : List (List UInt8), (∀ ch ∈ chars, isUtf8Char ch = true) ∧ bs = chars.flatten := by
  intro n
  induction n with
  | zero =>
    intro bs h _
    have : bs = [] := List.length_eq_zero_iff.mp (by omega)
    exact ⟨[], by simp, by simp [this]⟩
  | succ n ih =>
    intro bs h hw
    rcases bs with _ | ⟨b0, rest⟩
    · exact ⟨[], by simp, by simp⟩
    simp only [List.length_cons] at h
    rw [wellFormed_cons] at hw
    have cons_char : ∀ (ch r : List UInt8), isUtf8Char ch = true → r.length ≤ n →
        wellFormed r = true → b0 :: rest = ch ++ r →
        ∃ chars : List (List UInt8), (∀ c ∈ chars, isUtf8Char c = true) ∧
          b0 :: rest = chars.flatten := by
      intro ch r hch hlen hwr e
      obtain ⟨cs, hcs, ecs⟩ := ih r hlen hwr
      refine ⟨ch :: cs, ?_, by rw [List.flatten_cons, ← ecs, e]⟩
      intro c hc
      rcases List.mem_cons.mp hc with rfl | hc
      · exact hch
      · exact hcs c hc
    rcases rest with _ | ⟨b1, _ | ⟨b2, _ | ⟨b3, r3⟩⟩⟩
    · simp only [Bool.or_false, Bool.and_eq_true] at hw
      exact cons_char [b0] [] (by simpa [isUtf8Char] using hw.1) (by simp) rfl rfl
    · simp only [Bool.or_false, Bool.or_eq_true, Bool.and_eq_true] at hw
      rcases hw with hw | hw
      · exact cons_char [b0] [b1] (by simpa [isUtf8Char] using hw.1) (by simp at h ⊢; omega) hw.2 rfl
      · exact cons_char [b0, b1] [] (by simpa [isUtf8Char] using hw.1) (by simp) rfl rfl
    · simp only [Bool.or_false, Bool.or_eq_true, Bool.and_eq_true] at hw
      rcases hw with hw | hw | hw
      · exact cons_char [b0] [b1, b2] (by simpa [isUtf8Char] using hw.1) (by simp at h ⊢; omega) hw.2 rfl
      · exact cons_char [b0, b1] [b2] (by simpa [isUtf8Char] using hw.1) (by simp at h ⊢; omega) hw.2 rfl
      · exact cons_char [b0, b1, b2] [] (by simpa [isUtf8Char] using hw.1) (by simp) rfl rfl
    · simp only [Bool.or_eq_true, Bool.and_eq_true] at hw
      simp only [List.length_cons] at h
      rcases hw with hw | hw | hw | hw
      · exact cons_char [b0] (b1 :: b2 :: b3 :: r3) (by simpa [isUtf8Char] using hw.1)
          (by simp only [List.length_cons]; omega) hw.2 rfl
      · exact cons_char [b0, b1] (b2 :: b3 :: r3) (by simpa [isUtf8Char] using hw.1)
          (by simp only [List.length_cons]; omega) hw.2 rfl
      · exact cons_char [b0, b1, b2] (b3 :: r3) (by simpa [isUtf8Char] using hw.1)
          (by simp only [List.length_cons]; omega) hw.2 rfl
      · exact cons_char [b0, b1, b2, b3] r3 (by simpa [isUtf8Char] using hw.1)
          (by omega) hw.2 rfl

end Cjet.Utf8
