/-
  C02 helper lemmas, part 1: vocabulary (responses, notifications, `outsTo`), the key table,
  the shape of the values built by response.c, and the `Frame` predicate with its closure
  lemmas for send / send' / emit / notifyOne / notifyFetchers and folds.
-/
import Cjet.Daemon.Model

namespace Cjet.Daemon.C02

open Cjet Cjet.Json Cjet.Daemon

/-! ## vocabulary -/

/-- the object has a member named `key` (cJSON lookup: first match, ASCII case folded) -/
def has (j : Json) (key : String) : Bool := (j.getItem (k key)).isSome

/-- notification or (routed) request: an object with a "method" member -/
def hasMethod (j : Json) : Bool := has j "method"

/-- a response object: a "result" or an "error" member, and no "method" member -/
def isResponse (j : Json) : Bool := (has j "result" || has j "error") && !has j "method"

/-- the id a response carries -/
def respId (j : Json) : Option Json := j.getItem (k "id")

/-- a request the daemon forwards to an element's owner: "method" and "id" -/
def isRoutedReq (j : Json) : Bool := has j "method" && has j "id"

/-- a fetch notification: "method" and no "id" -/
def isNotification (j : Json) : Bool := has j "method" && !has j "id"

/-- ids that `create_common_response` can echo -/
def idOk (id : Json) : Bool := id.isString || id.isNumber

/-- the request carries a string or number id -/
def Answerable (req : Json) : Prop := ∃ id, req.getItem (k "id") = some id ∧ idOk id = true

/-- the JSON values written to connection `c`, in list order -/
def outsTo (c : Nat) : List Obs → List Json
  | [] => []
  | .send d j _ :: rest => if d = c then j :: outsTo c rest else outsTo c rest
  | _ :: rest => outsTo c rest

/-- every value sent, with its destination -/
def sendsOf : List Obs → List (Nat × Json)
  | [] => []
  | .send d j _ :: rest => (d, j) :: sendsOf rest
  | _ :: rest => sendsOf rest

theorem outsTo_append (c : Nat) (a b : List Obs) : outsTo c (a ++ b) = outsTo c a ++ outsTo c b := by
  induction a with
  | nil => rfl
  | cons o t ih =>
    cases o <;> simp [outsTo, ih]
    split <;> simp

theorem mem_outsTo {c : Nat} {j : Json} {l : List Obs} :
    j ∈ outsTo c l ↔ ∃ b, Obs.send c j b ∈ l := by
  induction l with
  | nil => simp [outsTo]
  | cons o t ih =>
    cases o with
    | send d j' b' =>
      simp only [outsTo]
      split
      · subst_vars
        simp only [List.mem_cons, ih]
        constructor
        · rintro (rfl | ⟨b, hb⟩)
          · exact ⟨b', Or.inl rfl⟩
          · exact ⟨b, Or.inr hb⟩
        · rintro ⟨b, hb | hb⟩
          · injection hb with _ h2 _; exact Or.inl h2
          · exact Or.inr ⟨b, hb⟩
      · rename_i hne
        rw [ih]
        constructor
        · rintro ⟨b, hb⟩; exact ⟨b, List.mem_cons_of_mem _ hb⟩
        · rintro ⟨b, hb⟩
          rcases List.mem_cons.1 hb with hb | hb
          · injection hb with h1 _ _; exact absurd h1.symm hne
          · exact ⟨b, hb⟩
    | closed _ | timerArm _ _ | timerDestroy _ =>
      simp only [outsTo, ih, List.mem_cons]
      constructor
      · rintro ⟨b, hb⟩; exact ⟨b, Or.inr hb⟩
      · rintro ⟨b, hb | hb⟩
        · cases hb
        · exact ⟨b, hb⟩

/-! ## the key table -/

section keys
theorem keyEq_id_id : keyEq (k "id") (k "id") = true := by decide +kernel
theorem keyEq_id_method : keyEq (k "id") (k "method") = false := by decide +kernel
theorem keyEq_id_result : keyEq (k "id") (k "result") = false := by decide +kernel
theorem keyEq_id_error : keyEq (k "id") (k "error") = false := by decide +kernel
theorem keyEq_result_id : keyEq (k "result") (k "id") = false := by decide +kernel
theorem keyEq_result_method : keyEq (k "result") (k "method") = false := by decide +kernel
theorem keyEq_result_result : keyEq (k "result") (k "result") = true := by decide +kernel
theorem keyEq_result_error : keyEq (k "result") (k "error") = false := by decide +kernel
theorem keyEq_error_id : keyEq (k "error") (k "id") = false := by decide +kernel
theorem keyEq_error_method : keyEq (k "error") (k "method") = false := by decide +kernel
theorem keyEq_error_result : keyEq (k "error") (k "result") = false := by decide +kernel
theorem keyEq_error_error : keyEq (k "error") (k "error") = true := by decide +kernel
theorem keyEq_method_id : keyEq (k "method") (k "id") = false := by decide +kernel
theorem keyEq_method_method : keyEq (k "method") (k "method") = true := by decide +kernel
theorem keyEq_method_result : keyEq (k "method") (k "result") = false := by decide +kernel
theorem keyEq_method_error : keyEq (k "method") (k "error") = false := by decide +kernel
theorem keyEq_params_id : keyEq (k "params") (k "id") = false := by decide +kernel
theorem keyEq_params_method : keyEq (k "params") (k "method") = false := by decide +kernel
theorem keyEq_params_result : keyEq (k "params") (k "result") = false := by decide +kernel
theorem keyEq_params_error : keyEq (k "params") (k "error") = false := by decide +kernel
end keys

attribute [local simp] keyEq_id_id keyEq_id_method keyEq_id_result keyEq_id_error
  keyEq_result_id keyEq_result_method keyEq_result_result keyEq_result_error
  keyEq_error_id keyEq_error_method keyEq_error_result keyEq_error_error
  keyEq_method_id keyEq_method_method keyEq_method_result keyEq_method_error
  keyEq_params_id keyEq_params_method keyEq_params_result keyEq_params_error

/-! ## response.c: what is built -/

theorem commonResponse_eq {id : Json} {l : List (Bytes × Json)} (h : commonResponse id = some l) :
    l = [(k "id", id)] ∧ idOk id = true := by
  cases id with
  | str s => simp [commonResponse] at h; subst h; exact ⟨rfl, rfl⟩
  | num n => simp [commonResponse] at h; subst h; exact ⟨rfl, rfl⟩
  | null | bool _ | arr _ | obj _ => simp [commonResponse] at h

theorem commonResponse_of_idOk {id : Json} (h : idOk id = true) :
    commonResponse id = some [(k "id", id)] := by
  cases id <;> simp [idOk, isString, isNumber] at h <;> rfl

theorem commonResponse_none {id : Json} (h : idOk id = false) : commonResponse id = none := by
  cases id <;> simp [idOk, isString, isNumber] at h <;> rfl

theorem errorResponse_eq {id : Json} {code : Int} {tag : String} {reason : Bytes} {r : Json}
    (h : errorResponse id code tag reason = some r) :
    r = .obj [(k "id", id), (k "error", errorObject code tag reason)] ∧ idOk id = true := by
  unfold errorResponse at h
  cases hc : commonResponse id with
  | none => simp [hc] at h
  | some l =>
    obtain ⟨rfl, hid⟩ := commonResponse_eq hc
    simp [hc] at h
    exact ⟨h.symm, hid⟩

theorem resultResponse_eq {id result : Json} {typ : String} {r : Json}
    (h : resultResponse id result typ = some r) :
    r = .obj [(k "id", id), (k typ, result)] ∧ idOk id = true := by
  unfold resultResponse at h
  cases hc : commonResponse id with
  | none => simp [hc] at h
  | some l =>
    obtain ⟨rfl, hid⟩ := commonResponse_eq hc
    simp [hc] at h
    exact ⟨h.symm, hid⟩

theorem errorResponse_of_idOk {id : Json} (h : idOk id = true) (code : Int) (tag : String) (reason : Bytes) :
    errorResponse id code tag reason = some (.obj [(k "id", id), (k "error", errorObject code tag reason)]) := by
  simp [errorResponse, commonResponse_of_idOk h]

theorem resultResponse_of_idOk {id : Json} (h : idOk id = true) (result : Json) (typ : String) :
    resultResponse id result typ = some (.obj [(k "id", id), (k typ, result)]) := by
  simp [resultResponse, commonResponse_of_idOk h]

theorem errorResponse_none {id : Json} (h : idOk id = false) (code : Int) (tag : String) (reason : Bytes) :
    errorResponse id code tag reason = none := by
  simp [errorResponse, commonResponse_none h]

theorem resultResponse_none {id : Json} (h : idOk id = false) (result : Json) (typ : String) :
    resultResponse id result typ = none := by
  simp [resultResponse, commonResponse_none h]

/-- A well-formed response for id `id`: exactly the members "id" and one of "result"/"error". -/
def WellFormed (id : Json) (j : Json) : Prop :=
  ∃ v, j = .obj [(k "id", id), (k "result", v)] ∨ j = .obj [(k "id", id), (k "error", v)]

theorem WellFormed.isResponse {id j : Json} (h : WellFormed id j) : isResponse j = true := by
  obtain ⟨v, rfl | rfl⟩ := h <;> simp [C02.isResponse, has, getItem, findItem]

theorem WellFormed.respId {id j : Json} (h : WellFormed id j) : respId j = some id := by
  obtain ⟨v, rfl | rfl⟩ := h <;> simp [C02.respId, getItem, findItem]

theorem WellFormed.hasMethod {id j : Json} (h : WellFormed id j) : hasMethod j = false := by
  obtain ⟨v, rfl | rfl⟩ := h <;> simp [C02.hasMethod, has, getItem, findItem]

/-- exactly one of "result" / "error" -/
theorem WellFormed.one_of {id j : Json} (h : WellFormed id j) : (has j "result" != has j "error") = true := by
  obtain ⟨v, rfl | rfl⟩ := h <;> simp [has, getItem, findItem]

/-- what handlers return: nothing, or a well-formed response carrying the request's id -/
def RespFor (req : Json) (r : Option Json) : Prop :=
  r = none ∨ ∃ id j, req.getItem (k "id") = some id ∧ idOk id = true ∧ r = some j ∧ WellFormed id j

/-- the handler result is built by one of the `…FromRequest` constructors -/
def FromReq (req : Json) (r : Option Json) : Prop :=
  (∃ code tag reason, r = errorFromRequest req code tag reason) ∨ (∃ v, r = resultFromRequest req v)

theorem FromReq.error (req : Json) (code : Int) (tag : String) (reason : Bytes) :
    FromReq req (errorFromRequest req code tag reason) := Or.inl ⟨code, tag, reason, rfl⟩

theorem FromReq.result (req : Json) (v : Json) : FromReq req (resultFromRequest req v) := Or.inr ⟨v, rfl⟩

theorem FromReq.success (req : Json) : FromReq req (successFromRequest req) := Or.inr ⟨_, rfl⟩

theorem not_answerable_iff {req : Json} :
    ¬ Answerable req ↔ req.getItem (k "id") = none ∨ ∃ id, req.getItem (k "id") = some id ∧ idOk id = false := by
  unfold Answerable
  cases h : req.getItem (k "id") with
  | none => simp
  | some id => cases hi : idOk id <;> simp [hi]

theorem FromReq.respFor {req : Json} {r : Option Json} (h : FromReq req r) : RespFor req r := by
  rcases h with ⟨code, tag, reason, rfl⟩ | ⟨v, rfl⟩
  · unfold errorFromRequest
    cases hid : req.getItem (k "id") with
    | none => exact Or.inl rfl
    | some id =>
      cases hok : idOk id with
      | false => exact Or.inl (errorResponse_none hok ..)
      | true => exact Or.inr ⟨id, _, hid, hok, errorResponse_of_idOk hok .., _, Or.inr rfl⟩
  · unfold resultFromRequest
    cases hid : req.getItem (k "id") with
    | none => exact Or.inl rfl
    | some id =>
      cases hok : idOk id with
      | false => exact Or.inl (resultResponse_none hok ..)
      | true => exact Or.inr ⟨id, _, hid, hok, resultResponse_of_idOk hok .., _, Or.inl rfl⟩

theorem FromReq.isSome {req : Json} {r : Option Json} (h : FromReq req r) (ha : Answerable req) :
    r.isSome = true := by
  obtain ⟨id, hid, hok⟩ := ha
  rcases h with ⟨code, tag, reason, rfl⟩ | ⟨v, rfl⟩
  · simp [errorFromRequest, hid, errorResponse_of_idOk hok]
  · simp [resultFromRequest, hid, resultResponse_of_idOk hok]

theorem RespFor.none_of_not_answerable {req : Json} {r : Option Json} (h : RespFor req r)
    (ha : ¬ Answerable req) : r = none := by
  rcases h with h | ⟨id, j, hid, hok, _, _⟩
  · exact h
  · exact absurd ⟨id, hid, hok⟩ ha

/-! ## the values the daemon sends that are not responses -/

theorem notification_isNotification (e : Element) (fid : Json) (event : String) :
    isNotification (notification e fid event) = true := by
  simp [isNotification, has, notification, getItem, findItem]

theorem routedMessage_isRoutedReq (rid path : Bytes) (isState : Bool) (value : Option Json) :
    isRoutedReq (routedMessage rid path isState value) = true := by
  simp [isRoutedReq, has, routedMessage, getItem, findItem]

theorem isNotification_hasMethod {j : Json} (h : isNotification j = true) : hasMethod j = true := by
  simp [isNotification, hasMethod] at *; exact h.1

theorem isRoutedReq_hasMethod {j : Json} (h : isRoutedReq j = true) : hasMethod j = true := by
  simp [isRoutedReq, hasMethod] at *; exact h.1

theorem isResponse_not_hasMethod {j : Json} (h : isResponse j = true) : hasMethod j = false := by
  simp [isResponse, hasMethod] at *; exact h.2

theorem isNotification_not_routed {j : Json} (h : isNotification j = true) : isRoutedReq j = false := by
  simp [isNotification, isRoutedReq] at *
  intro _; exact h.2

/-! ## observation predicates -/

/-- the observation is not a send, or sends a fetch notification -/
def obsNotif : Obs → Bool
  | .send _ j _ => isNotification j
  | _ => true

/-- the observation is not a send, or sends a value with a "method" member -/
def obsMethod : Obs → Bool
  | .send _ j _ => hasMethod j
  | _ => true

theorem obsNotif_obsMethod {o : Obs} (h : obsNotif o = true) : obsMethod o = true := by
  cases o <;> simp [obsNotif, obsMethod] at * ; exact isNotification_hasMethod h

/-! ## route tables seen from outside -/

def routesMap (ps : List Peer) : List (Nat × List Route) := ps.map (fun p => (p.conn, p.routes))

def conns (ps : List Peer) : List Nat := ps.map (·.conn)

theorem conns_of_routesMap {ps ps' : List Peer} (h : routesMap ps' = routesMap ps) : conns ps' = conns ps := by
  have := congrArg (List.map Prod.fst) h
  simpa [routesMap, conns, List.map_map, Function.comp_def] using this

theorem routesMap_updatePeer (ps : List Peer) (c : Nat) (f : Peer → Peer)
    (hf : ∀ q, (f q).conn = q.conn ∧ (f q).routes = q.routes) :
    routesMap (updatePeer ps c f) = routesMap ps := by
  simp only [routesMap, updatePeer, List.map_map]
  apply List.map_congr_left
  intro p _
  simp only [Function.comp]
  split
  · rw [(hf p).1, (hf p).2]
  · rfl

theorem routesMap_mapElements (ps : List Peer) (f : Element → Element) :
    routesMap (mapElements ps f) = routesMap ps := by
  simp [routesMap, mapElements, List.map_map, Function.comp_def]

theorem conns_updatePeer (ps : List Peer) (c : Nat) (f : Peer → Peer) (hf : ∀ q, (f q).conn = q.conn) :
    conns (updatePeer ps c f) = conns ps := by
  simp only [conns, updatePeer, List.map_map]
  apply List.map_congr_left
  intro p _
  simp only [Function.comp]
  split
  · rw [hf p]
  · rfl

theorem findPeer_conn {ps : List Peer} {c : Nat} {p : Peer} (h : findPeer ps c = some p) : p.conn = c := by
  have := List.find?_some h
  simpa using this

theorem findPeer_mem {ps : List Peer} {c : Nat} {p : Peer} (h : findPeer ps c = some p) : p ∈ ps :=
  List.mem_of_find?_eq_some h

theorem findPeer_isSome_iff {ps : List Peer} {c : Nat} : (findPeer ps c).isSome = true ↔ c ∈ conns ps := by
  simp [findPeer, conns, List.find?_isSome]

theorem findPeer_isSome_congr {ps ps' : List Peer} (h : conns ps' = conns ps) (c : Nat) :
    (findPeer ps' c).isSome = (findPeer ps c).isSome := by
  rw [Bool.eq_iff_iff, findPeer_isSome_iff, findPeer_isSome_iff, h]

/-! ## OutExt / Frame: what a piece of handler code may do -/

/-- `x'` extends the output of `x` by observations satisfying `P` -/
def OutExt (P : Obs → Prop) (x x' : Ctx) : Prop := ∃ new, x'.out = new ++ x.out ∧ ∀ o ∈ new, P o

namespace OutExt

theorem refl {P : Obs → Prop} (x : Ctx) : OutExt P x x := ⟨[], rfl, by simp⟩

theorem trans {P : Obs → Prop} {x y z : Ctx} (h1 : OutExt P x y) (h2 : OutExt P y z) : OutExt P x z := by
  obtain ⟨n1, e1, p1⟩ := h1
  obtain ⟨n2, e2, p2⟩ := h2
  refine ⟨n2 ++ n1, by rw [e2, e1, List.append_assoc], ?_⟩
  intro o ho
  rcases List.mem_append.1 ho with h | h
  · exact p2 o h
  · exact p1 o h

theorem mono {P Q : Obs → Prop} {x y : Ctx} (hPQ : ∀ o, P o → Q o) (h : OutExt P x y) : OutExt Q x y := by
  obtain ⟨n, e, p⟩ := h
  exact ⟨n, e, fun o ho => hPQ o (p o ho)⟩

theorem send {P : Obs → Prop} (x : Ctx) (c : Nat) (j : Json) (h : ∀ b, P (.send c j b)) :
    OutExt P x (Daemon.send x c j).1 := by
  unfold Daemon.send
  split
  · exact ⟨[.send c j true], rfl, by simpa using h true⟩
  · rename_i b rest _
    exact ⟨[.send c j b], rfl, by simpa using h b⟩

theorem send' {P : Obs → Prop} (x : Ctx) (c : Nat) (j : Json) (h : ∀ b, P (.send c j b)) :
    OutExt P x (Daemon.send' x c j) := OutExt.send x c j h

theorem emit {P : Obs → Prop} (x : Ctx) (o : Obs) (h : P o) : OutExt P x (Daemon.emit x o) :=
  ⟨[o], rfl, by simpa using h⟩

theorem foldl {P : Obs → Prop} {α : Type} (f : Ctx → α → Ctx) (l : List α)
    (hf : ∀ x a, a ∈ l → OutExt P x (f x a)) (x : Ctx) : OutExt P x (l.foldl f x) := by
  induction l generalizing x with
  | nil => exact refl x
  | cons a t ih =>
    simp only [List.foldl_cons]
    exact (hf x a (List.mem_cons_self ..)).trans (ih (fun x b hb => hf x b (List.mem_cons_of_mem _ hb)) _)

end OutExt

/-- `x'` extends the output of `x` by observations satisfying `P` and leaves every routing table
    (and the set of peers) alone. -/
structure Frame (P : Obs → Prop) (x x' : Ctx) : Prop where
  out : OutExt P x x'
  routes : routesMap x'.st.peers = routesMap x.st.peers

namespace Frame

theorem refl {P : Obs → Prop} (x : Ctx) : Frame P x x := ⟨OutExt.refl x, rfl⟩

theorem trans {P : Obs → Prop} {x y z : Ctx} (h1 : Frame P x y) (h2 : Frame P y z) : Frame P x z :=
  ⟨h1.out.trans h2.out, h2.routes.trans h1.routes⟩

theorem mono {P Q : Obs → Prop} {x y : Ctx} (hPQ : ∀ o, P o → Q o) (h : Frame P x y) :
    Frame Q x y := ⟨h.out.mono hPQ, h.routes⟩

theorem send {P : Obs → Prop} (x : Ctx) (c : Nat) (j : Json) (h : ∀ b, P (.send c j b)) :
    Frame P x (Daemon.send x c j).1 := by
  refine ⟨OutExt.send x c j h, ?_⟩
  unfold Daemon.send
  split <;> rfl

theorem send' {P : Obs → Prop} (x : Ctx) (c : Nat) (j : Json) (h : ∀ b, P (.send c j b)) :
    Frame P x (Daemon.send' x c j) := Frame.send x c j h

theorem emit {P : Obs → Prop} (x : Ctx) (o : Obs) (h : P o) : Frame P x (Daemon.emit x o) :=
  ⟨OutExt.emit x o h, rfl⟩

/-- replacing the state by one with the same routing tables -/
theorem setSt {P : Obs → Prop} (x : Ctx) (st : State) (h : routesMap st.peers = routesMap x.st.peers) :
    Frame P x { x with st := st } := ⟨OutExt.refl x, h⟩

theorem foldl {P : Obs → Prop} {α : Type} (f : Ctx → α → Ctx) (l : List α)
    (hf : ∀ x a, a ∈ l → Frame P x (f x a)) (x : Ctx) : Frame P x (l.foldl f x) := by
  induction l generalizing x with
  | nil => exact refl x
  | cons a t ih =>
    simp only [List.foldl_cons]
    exact (hf x a (List.mem_cons_self ..)).trans (ih (fun x b hb => hf x b (List.mem_cons_of_mem _ hb)) _)

/-- folds that thread an extra value -/
theorem foldl₂ {P : Obs → Prop} {α β : Type} (f : Ctx × β → α → Ctx × β) (l : List α)
    (hf : ∀ acc a, a ∈ l → Frame P acc.1 (f acc a).1) (acc : Ctx × β) : Frame P acc.1 (l.foldl f acc).1 := by
  induction l generalizing acc with
  | nil => exact refl _
  | cons a t ih =>
    simp only [List.foldl_cons]
    exact (hf acc a (List.mem_cons_self ..)).trans (ih (fun acc b hb => hf acc b (List.mem_cons_of_mem _ hb)) _)

end Frame

/-- the observation is not a send, or sends a fetch notification -/
abbrev IsNotif (o : Obs) : Prop := obsNotif o = true

/-! ## notifications -/

theorem notif_send (c : Nat) (e : Element) (fid : Json) (event : String) (b : Bool) :
    obsNotif (.send c (notification e fid event) b) = true := notification_isNotification e fid event

theorem notifyOne_frame (x : Ctx) (e : Element) (fk : FetchKey) (event : String) :
    Frame IsNotif x (notifyOne x e fk event) := by
  unfold notifyOne
  split
  · exact Frame.send' _ _ _ (notif_send _ _ _ _)
  · exact Frame.refl x

theorem notifyFetchers_frame (x : Ctx) (e : Element) (event : String) :
    Frame IsNotif x (notifyFetchers x e event) := by
  unfold notifyFetchers
  apply Frame.foldl
  intro x s _
  split
  · exact notifyOne_frame ..
  · exact Frame.refl x

theorem offerElement_frame (cfg : Config) (x : Ctx) (e : Element) (fp : Peer) (f : Fetch) :
    Frame IsNotif x (offerElement cfg x e fp f).1 := by
  unfold offerElement
  split
  · exact Frame.refl x
  · split
    · exact Frame.send' _ _ _ (notif_send _ _ _ _)
    · exact Frame.refl x

theorem findFetchersForElement_frame (cfg : Config) (x : Ctx) (e : Element) :
    Frame IsNotif x (findFetchersForElement cfg x e).1 := by
  unfold findFetchersForElement
  apply Frame.foldl₂ (acc := (x, e))
  intro acc fp _
  apply Frame.foldl₂
  intro acc f _
  exact offerElement_frame ..

end Cjet.Daemon.C02
