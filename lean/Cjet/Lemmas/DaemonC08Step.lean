/-
  DaemonC08Step — one operation of the daemon as a chain of units (one JSON-RPC object, one
  close, one timer expiry); invariants and output justification lifted to `step` and `run`.
-/
import Cjet.Lemmas.DaemonC08Close

namespace Cjet.Daemon.C08

open Cjet Cjet.Json Cjet.Daemon

/-! ## dispatch -/

/-- path and fetch groups declared by the request if it is an `add` request -/
def declOf (cfg : Config) (req : Json) : Option (Bytes × Nat) :=
  match req.getItem (k "method") with
  | some (.str m) => if m == k "add" then addDecl cfg req else none
  | _ => none

theorem Good.weaken {cfg : Config} {d : Option (Bytes × Nat)} {c : Nat} {req : Json} {x : Ctx} {r : Ctx × Option Json}
    (h : Good cfg none c req x r) : Good cfg d c req x r :=
  ⟨h.inv, h.out.mono (fun _ ho => J.weaken ho), h.resp, h.auth⟩

theorem handleMethod_good {cfg : Config} {x : Ctx} {p : Peer} {req : Json} {m : Bytes} {d : Option (Bytes × Nat)}
    (h : FInv cfg x.st) (hp : findPeer x.st.peers p.conn = some p) (hd : m = k "add" → d = addDecl cfg req) :
    Good cfg d p.conn req x (handleMethod cfg x p req m) := by
  unfold handleMethod
  by_cases h1 : (m == k "change") = true
  · rw [if_pos h1]; exact changeState_good h
  rw [if_neg h1]
  by_cases h2 : (m == k "set") = true
  · rw [if_pos h2]; exact setOrCall_good h
  rw [if_neg h2]
  by_cases h3 : (m == k "call") = true
  · rw [if_pos h3]; exact setOrCall_good h
  rw [if_neg h3]
  by_cases h4 : (m == k "add") = true
  · rw [if_pos h4, hd (eq_of_beq h4)]; exact addElement_good h
  rw [if_neg h4]
  by_cases h5 : (m == k "remove") = true
  · rw [if_pos h5]; exact removeElementReq_good h hp
  rw [if_neg h5]
  by_cases h6 : (m == k "fetch") = true
  · rw [if_pos h6]; exact fetchReq_good h hp
  rw [if_neg h6]
  by_cases h7 : (m == k "unfetch") = true
  · rw [if_pos h7]; exact unfetchReq_good h
  rw [if_neg h7]
  by_cases h8 : (m == k "get") = true
  · rw [if_pos h8]; exact getReq_good h
  rw [if_neg h8]
  by_cases h9 : (m == k "config") = true
  · rw [if_pos h9]; exact configReq_good h
  rw [if_neg h9]
  by_cases h10 : (m == k "info") = true
  · rw [if_pos h10]; exact infoReq_good h
  rw [if_neg h10]
  by_cases h11 : (m == k "authenticate") = true
  · rw [if_pos h11]; exact authenticateReq_good h hp
  rw [if_neg h11]
  by_cases h12 : (m == k "passwd") = true
  · rw [if_pos h12]; exact passwdReq_good h
  rw [if_neg h12]
  exact Good.err h _ _ _

/-- what a unit guarantees -/
structure UGood (cfg : Config) (d : Option (Bytes × Nat)) (c : Nat) (req : Json) (x x' : Ctx) : Prop where
  inv : FInv cfg x'.st
  out : OutExt (J cfg x.st d) x x'
  auth : AuthEff cfg x.st c req x'.st

theorem UGood.refl {cfg : Config} {d : Option (Bytes × Nat)} {c : Nat} {req : Json} {x : Ctx} (h : FInv cfg x.st) :
    UGood cfg d c req x x := ⟨h, OutExt.refl _ _, Or.inl (AuthSame.refl _)⟩

theorem UGood.of_good' {cfg : Config} {d : Option (Bytes × Nat)} {c : Nat} {req : Json} {x x' : Ctx}
    (h : Good' cfg d x x') : UGood cfg d c req x x' := ⟨h.inv, h.out, Or.inl h.auth⟩

theorem sendResponse_good {cfg : Config} {d : Option (Bytes × Nat)} {c : Nat} {req : Json} {x : Ctx} {r : Ctx × Option Json}
    (h : Good cfg d c req x r) : UGood cfg d c req x (sendResponse r.1 c r.2).1 := by
  unfold sendResponse
  cases hr : r.2 with
  | none => exact ⟨h.inv, h.out, h.auth⟩
  | some j =>
    simp only
    refine ⟨by simpa using h.inv, h.out.trans (OutExt.send _ _ _ (fun ok => Or.inl (h.resp j hr))), ?_⟩
    simpa using h.auth

theorem parseJsonRpc_good {cfg : Config} {x : Ctx} {c : Nat} {req : Json} (h : FInv cfg x.st) :
    UGood cfg (declOf cfg req) c req x (parseJsonRpc cfg x c req).1 := by
  unfold parseJsonRpc
  cases hp : findPeer x.st.peers c with
  | none => exact UGood.refl h
  | some p =>
    have hc : p.conn = c := findPeer_conn hp
    subst hc
    simp only
    cases hm : req.getItem (k "method") with
    | none =>
      simp only
      cases hres : req.getItem (k "result") with
      | some res => exact UGood.of_good' (routingResponse_good h)
      | none =>
        simp only
        cases herr : req.getItem (k "error") with
        | some err => exact UGood.of_good' (routingResponse_good h)
        | none => exact sendResponse_good (r := (x, _)) (Good.err h _ _ _)
    | some mj =>
      cases mj with
      | str m =>
        simp only
        have hd : m = k "add" → declOf cfg req = addDecl cfg req := by
          intro hm'
          unfold declOf
          rw [hm]
          simp only
          rw [if_pos (by rw [hm']; exact beq_self_eq_true _)]
        exact sendResponse_good (handleMethod_good h hp hd)
      | _ => exact sendResponse_good (r := (x, _)) (Good.err h _ _ _)

/-! ## units -/

inductive Unit where
  | req (x : Ctx) (c : Nat) (j : Json)
  | close (x : Ctx) (c : Nat)
  | timeout (x : Ctx) (t : Nat)

/-- the context in which the unit starts -/
def Unit.pre : Unit → Ctx
  | .req x _ _ => x
  | .close x _ => x
  | .timeout x _ => x

def Unit.post (cfg : Config) : Unit → Ctx
  | .req x c j => (parseJsonRpc cfg x c j).1
  | .close x c => closePeer x c
  | .timeout x t => timeoutFired x t

def Unit.decl (cfg : Config) : Unit → Option (Bytes × Nat)
  | .req _ _ j => declOf cfg j
  | _ => none

/-- effect of the unit on the authentication data -/
def Unit.authEff (cfg : Config) : Unit → Prop
  | .req x c j => AuthEff cfg x.st c j (parseJsonRpc cfg x c j).1.st
  | u => AuthSame u.pre.st (u.post cfg).st

def arrayUnits (cfg : Config) (x : Ctx) (c : Nat) : List Json → List Unit
  | [] => []
  | .obj l :: rest =>
    .req x c (.obj l) ::
      (if (parseJsonRpc cfg x c (.obj l)).2 then arrayUnits cfg (parseJsonRpc cfg x c (.obj l)).1 c rest else [])
  | _ :: _ => []

def msgUnits (cfg : Config) (x : Ctx) (c : Nat) : Option Json → List Unit
  | some (.arr l) => arrayUnits cfg x c l
  | some (.obj l) => [.req x c (.obj l)]
  | _ => []

/-- the units of one operation, in the order in which they run -/
def unitsOf (cfg : Config) (s : State) : Op → List Unit
  | .connect _ _ _ _ => []
  | .message c msg o =>
    if (findPeer s.peers c).isNone then []
    else msgUnits cfg (mkCtx s o) c msg ++
      (if (parseMessage cfg (mkCtx s o) c msg).2 then [] else [.close (parseMessage cfg (mkCtx s o) c msg).1 c])
  | .disconnect c o => if (findPeer s.peers c).isNone then [] else [.close (mkCtx s o) c]
  | .timerFire t o => [.timeout (mkCtx s o) t]

/-- `us` run one after the other lead from `x` to `x'` -/
inductive Chain (cfg : Config) : Ctx → List Unit → Ctx → Prop
  | nil (x : Ctx) : Chain cfg x [] x
  | cons {u : Unit} {us : List Unit} {x' : Ctx} : Chain cfg (u.post cfg) us x' → Chain cfg u.pre (u :: us) x'

theorem Chain.append {cfg : Config} {x y z : Ctx} {us vs : List Unit} (h1 : Chain cfg x us y) (h2 : Chain cfg y vs z) :
    Chain cfg x (us ++ vs) z := by
  induction h1 with
  | nil => exact h2
  | cons _ ih => exact Chain.cons (ih h2)

theorem Chain.single (cfg : Config) (u : Unit) : Chain cfg u.pre [u] (u.post cfg) := Chain.cons (Chain.nil _)

theorem arrayUnits_chain (cfg : Config) (c : Nat) (l : List Json) (x : Ctx) :
    Chain cfg x (arrayUnits cfg x c l) (parseJsonArray cfg x c l).1 := by
  induction l generalizing x with
  | nil => exact Chain.nil _
  | cons j rest ih =>
    cases j with
    | obj m =>
      unfold arrayUnits parseJsonArray
      simp only
      cases hok : (parseJsonRpc cfg x c (.obj m)).2 with
      | true =>
        simp only [if_true]
        exact Chain.cons (u := .req x c (.obj m)) (ih _)
      | false =>
        simp only [Bool.false_eq_true, if_false]
        exact Chain.cons (u := .req x c (.obj m)) (Chain.nil _)
    | _ => exact Chain.nil _

theorem msgUnits_chain (cfg : Config) (c : Nat) (msg : Option Json) (x : Ctx) :
    Chain cfg x (msgUnits cfg x c msg) (parseMessage cfg x c msg).1 := by
  cases msg with
  | none => exact Chain.nil _
  | some j =>
    cases j with
    | arr l => exact arrayUnits_chain cfg c l x
    | obj l => exact Chain.single cfg (.req x c (.obj l))
    | _ => exact Chain.nil _

/-- the context an operation starts in (none: the operation does not touch a context) -/
def opCtx (s : State) : Op → Option Ctx
  | .connect _ _ _ _ => none
  | .message c _ o => if (findPeer s.peers c).isNone then none else some (mkCtx s o)
  | .disconnect c o => if (findPeer s.peers c).isNone then none else some (mkCtx s o)
  | .timerFire _ o => some (mkCtx s o)

theorem step_chain (cfg : Config) (s : State) (op : Op) (x : Ctx) (hx : opCtx s op = some x) :
    ∃ x', Chain cfg x (unitsOf cfg s op) x' ∧ step cfg s op = (x'.st, x'.out.reverse) := by
  cases op with
  | connect c ws il a => cases hx
  | message c msg o =>
    simp only [opCtx] at hx
    simp only [unitsOf, step]
    by_cases hnone : (findPeer s.peers c).isNone = true
    · rw [if_pos hnone] at hx; cases hx
    · rw [if_neg hnone] at hx
      cases hx
      rw [if_neg hnone, if_neg hnone]
      have hch := msgUnits_chain cfg c msg (mkCtx s o)
      cases hok : (parseMessage cfg (mkCtx s o) c msg).2 with
      | true =>
        refine ⟨(parseMessage cfg (mkCtx s o) c msg).1, by simpa using hch, ?_⟩
        simp [hok]
      | false =>
        refine ⟨closePeer (parseMessage cfg (mkCtx s o) c msg).1 c, ?_, ?_⟩
        · simp only [Bool.false_eq_true, if_false]
          exact hch.append (Chain.single cfg (.close _ c))
        · simp [hok]
  | disconnect c o =>
    simp only [opCtx] at hx
    simp only [unitsOf, step]
    by_cases hnone : (findPeer s.peers c).isNone = true
    · rw [if_pos hnone] at hx; cases hx
    · rw [if_neg hnone] at hx
      cases hx
      rw [if_neg hnone, if_neg hnone]
      exact ⟨_, Chain.single cfg (.close (mkCtx s o) c), rfl⟩
  | timerFire t o =>
    cases hx
    exact ⟨_, Chain.single cfg (.timeout (mkCtx s o) t), rfl⟩

theorem step_noctx (cfg : Config) (s : State) (op : Op) (hx : opCtx s op = none) :
    (step cfg s op).2 = [] ∧ unitsOf cfg s op = [] ∧
      ((step cfg s op).1 = s ∨ ∃ c ws il a, op = .connect c ws il a ∧ findPeer s.peers c = none ∧
        (step cfg s op).1 = { s with peers := s.peers ++ [{ conn := c, ws := ws, isLocal := il, addrTok := a }] }) := by
  cases op with
  | connect c ws il a =>
    simp only [step, unitsOf]
    cases hf : findPeer s.peers c with
    | some p => simp
    | none => exact ⟨by simp, trivial, Or.inr ⟨c, ws, il, a, rfl, hf, by simp⟩⟩
  | message c msg o =>
    simp only [opCtx] at hx
    simp only [step, unitsOf]
    by_cases hnone : (findPeer s.peers c).isNone = true
    · rw [if_pos hnone, if_pos hnone]; exact ⟨rfl, rfl, Or.inl rfl⟩
    · rw [if_neg hnone] at hx; cases hx
  | disconnect c o =>
    simp only [opCtx] at hx
    simp only [step, unitsOf]
    by_cases hnone : (findPeer s.peers c).isNone = true
    · rw [if_pos hnone, if_pos hnone]; exact ⟨rfl, rfl, Or.inl rfl⟩
    · rw [if_neg hnone] at hx; cases hx
  | timerFire t o => cases hx

/-! ## lifting along a chain -/

theorem chain_lift {cfg : Config} (I : State → Prop) (Q : Unit → Obs → Prop)
    (hstep : ∀ u : Unit, I u.pre.st → I (u.post cfg).st ∧ OutExt (Q u) u.pre (u.post cfg))
    {x x' : Ctx} {us : List Unit} (hc : Chain cfg x us x') (hI : I x.st) :
    I x'.st ∧ (∀ u ∈ us, I u.pre.st) ∧ ∃ new, x'.out = new ++ x.out ∧ ∀ o ∈ new, ∃ u ∈ us, Q u o := by
  induction hc with
  | nil x => exact ⟨hI, by simp, [], rfl, by simp⟩
  | cons hrest ih =>
    rename_i u us x'
    obtain ⟨i1, n1, e1, q1⟩ := hstep u hI
    obtain ⟨i2, a2, n2, e2, q2⟩ := ih i1
    refine ⟨i2, ?_, n2 ++ n1, by rw [e2, e1, List.append_assoc], ?_⟩
    · intro v hv
      rcases List.mem_cons.mp hv with rfl | hv
      · exact hI
      · exact a2 v hv
    · intro o ho
      rcases List.mem_append.mp ho with h | h
      · obtain ⟨v, hv, hq⟩ := q2 o h
        exact ⟨v, List.mem_cons_of_mem _ hv, hq⟩
      · exact ⟨u, List.mem_cons_self .., q1 o h⟩

/-! ## the invariant of the access-control proofs -/

structure Inv (cfg : Config) (s : State) : Prop where
  f : FInv cfg s
  a : AuthInv cfg s

theorem unit_good (cfg : Config) (u : Unit) (h : FInv cfg u.pre.st) :
    FInv cfg (u.post cfg).st ∧ OutExt (J cfg u.pre.st (u.decl cfg)) u.pre (u.post cfg) ∧ u.authEff cfg := by
  cases u with
  | req x c j =>
    obtain ⟨a, b, c⟩ := parseJsonRpc_good (cfg := cfg) (c := c) (req := j) h
    exact ⟨a, b, c⟩
  | close x c =>
    obtain ⟨a, b, c⟩ := closePeer_good (cfg := cfg) (d := none) (c := c) h
    exact ⟨a, b, c⟩
  | timeout x t =>
    obtain ⟨a, b, c⟩ := timeoutFired_good (cfg := cfg) (d := none) (t := t) h
    exact ⟨a, b, c⟩

theorem AuthInv.of_unit {cfg : Config} {u : Unit} (h : AuthInv cfg u.pre.st) (he : u.authEff cfg) :
    AuthInv cfg (u.post cfg).st := by
  cases u with
  | req x c j => exact h.of_eff he
  | close x c => exact h.of_same he
  | timeout x t => exact h.of_same he

theorem unit_inv (cfg : Config) (u : Unit) (h : Inv cfg u.pre.st) :
    Inv cfg (u.post cfg).st ∧ OutExt (J cfg u.pre.st (u.decl cfg)) u.pre (u.post cfg) := by
  obtain ⟨a, b, c⟩ := unit_good cfg u h.f
  exact ⟨⟨a, h.a.of_unit c⟩, b⟩

theorem Inv.init (cfg : Config) (us : List User) : Inv cfg { users := us } :=
  ⟨⟨List.nodup_nil, fun _ ho => by cases ho⟩, fun _ hp => by cases hp⟩

theorem Inv.connect {cfg : Config} {s : State} (h : Inv cfg s) (c : Nat) (ws il : Bool) (a : Bytes)
    (hf : findPeer s.peers c = none) :
    Inv cfg { s with peers := s.peers ++ [{ conn := c, ws := ws, isLocal := il, addrTok := a }] } := by
  have hnot : c ∉ s.peers.map (·.conn) := by
    intro hc
    have := (findPeer_isSome_iff s.peers c).mpr hc
    rw [hf] at this; cases this
  refine ⟨⟨?_, ?_⟩, ?_⟩
  · show ((s.peers ++ [_]).map (fun q : Peer => q.conn)).Nodup
    rw [List.map_append, List.nodup_append]
    refine ⟨h.f.nodup, by simp, ?_⟩
    intro a ha b hb
    simp only [List.map_cons, List.map_nil, List.mem_singleton] at hb
    subst hb
    intro hab; subst hab; exact hnot ha
  · intro o ho e he fk hfk
    show PeerOK cfg (s.peers ++ [_]) e.fetchGroups fk
    rcases List.mem_append.mp ho with ho | ho
    · refine (h.f.fetchers o ho e he fk hfk).transfer ?_
      intro q hq hu
      exact ⟨q, by rw [findPeer_append, hq]; rfl, hu, rfl⟩
    · rw [List.mem_singleton] at ho; subst ho; cases he
  · intro p hp
    change p ∈ s.peers ++ [_] at hp
    rcases List.mem_append.mp hp with hp | hp
    · exact h.a p hp
    · rw [List.mem_singleton] at hp; subst hp
      exact Or.inl ⟨rfl, rfl, rfl, rfl⟩

/-- every output of an operation was sent by one of its units and is justified there; all units
    start in states satisfying the invariant -/
theorem step_inv (cfg : Config) (s : State) (op : Op) (h : Inv cfg s) :
    Inv cfg (step cfg s op).1 ∧ (∀ u ∈ unitsOf cfg s op, Inv cfg u.pre.st) ∧
      ∀ o ∈ (step cfg s op).2, ∃ u ∈ unitsOf cfg s op, J cfg u.pre.st (u.decl cfg) o := by
  cases hx : opCtx s op with
  | none =>
    obtain ⟨h1, h2, h3⟩ := step_noctx cfg s op hx
    refine ⟨?_, by rw [h2]; simp, by rw [h1]; simp⟩
    rcases h3 with h3 | ⟨c, ws, il, a, _, hf, h3⟩
    · rw [h3]; exact h
    · rw [h3]; exact h.connect c ws il a hf
  | some x =>
    obtain ⟨x', hch, hs⟩ := step_chain cfg s op x hx
    have hxs : x.st = s ∧ x.out = [] := by
      cases op with
      | connect c ws il a => cases hx
      | message c msg o =>
        simp only [opCtx] at hx
        split at hx
        · cases hx
        · cases hx; exact ⟨rfl, rfl⟩
      | disconnect c o =>
        simp only [opCtx] at hx
        split at hx
        · cases hx
        · cases hx; exact ⟨rfl, rfl⟩
      | timerFire t o => cases hx; exact ⟨rfl, rfl⟩
    obtain ⟨i1, i2, new, e, q⟩ := chain_lift (cfg := cfg) (Inv cfg) (fun u => J cfg u.pre.st (u.decl cfg))
      (fun u hu => unit_inv cfg u hu) hch (hxs.1 ▸ h)
    rw [hs]
    refine ⟨i1, i2, ?_⟩
    intro o ho
    simp only [List.mem_reverse] at ho
    rw [e, hxs.2, List.append_nil] at ho
    exact q o ho

/-- states reachable from an initial state with credential table `us` -/
def Reach (cfg : Config) (us : List User) (s : State) : Prop := ∃ ops, s = (run cfg { users := us } ops).1

theorem run_inv (cfg : Config) (ops : List Op) (s : State) (h : Inv cfg s) : Inv cfg (run cfg s ops).1 := by
  induction ops generalizing s with
  | nil => exact h
  | cons op rest ih =>
    unfold run
    exact ih _ (step_inv cfg s op h).1

theorem Reach.inv {cfg : Config} {us : List User} {s : State} (h : Reach cfg us s) : Inv cfg s := by
  obtain ⟨ops, rfl⟩ := h
  exact run_inv cfg ops _ (Inv.init cfg us)

theorem Reach.step {cfg : Config} {us : List User} {s : State} (h : Reach cfg us s) (op : Op) :
    Reach cfg us (step cfg s op).1 := by
  obtain ⟨ops, rfl⟩ := h
  refine ⟨ops ++ [op], ?_⟩
  generalize ({ users := us } : State) = s0
  induction ops generalizing s0 with
  | nil => simp [run]
  | cons o rest ih =>
    simp only [List.cons_append, run]
    exact ih _

end Cjet.Daemon.C08
