/-
  DaemonC03Stable — what a router step can do to ONE routing entry, and to the timer log:

  * `stable_app`: an entry stays in its owner's table unless the step is the resolution of that
    very entry (`drop` with its id in its owner's table) or the release of its owner or requester;
  * `DInv`: a timer id is destroyed at most once over the whole history and never while an entry
    with that timer is stored; `dinv_app`;
  * `RidDead`: an id that was generated in the past and is not stored now is never stored again
    (while the counter does not wrap).
-/
import Cjet.Lemmas.DaemonC03Inv

namespace Cjet.Daemon.C03

open Cjet Cjet.Json Cjet.Daemon

/-! ## one entry -/

/-- `r` is stored in the table of the peer it names as owner -/
def InTable (V : List PV) (r : Route) : Prop := r ∈ vTable V r.owner

theorem inTable_iff {V : List PV} (hn : (V.map (·.conn)).Nodup) {r : Route} :
    InTable V r ↔ ∃ v ∈ V, v.conn = r.owner ∧ r ∈ v.routes := by
  constructor
  · exact vTable_mem
  · rintro ⟨v, hv, hc, hr⟩
    unfold InTable
    rw [← hc, vTable_of_mem hn hv]
    exact hr

/-- the steps that may remove the entry `r` -/
def Kills (r : Route) : Lbl → Prop
  | .drop o r' => o = r.owner ∧ r'.rid = r.rid
  | .close c => c = r.owner ∨ c = r.requester
  | _ => False

theorem inTable_vAdd {V : List PV} (hn : (V.map (·.conn)).Nodup) {r : Route} (o : Nat) (r' : Route)
    (h : InTable V r) : InTable (vAdd V o r') r := by
  obtain ⟨v, hv, hc, hr⟩ := (inTable_iff hn).mp h
  refine (inTable_iff (by rw [vAdd_conns]; exact hn)).mpr ⟨_, mem_vAdd.mpr ⟨v, hv, rfl⟩, ?_, ?_⟩
  · split <;> exact hc
  · split
    · simp [hr]
    · exact hr

theorem inTable_vRemove {V : List PV} (hn : (V.map (·.conn)).Nodup) {r : Route} (o : Nat) (rid : Bytes)
    (h : InTable V r) (hk : ¬ (o = r.owner ∧ rid = r.rid)) : InTable (vRemove V o rid) r := by
  obtain ⟨v, hv, hc, hr⟩ := (inTable_iff hn).mp h
  refine (inTable_iff (by rw [vRemove_conns]; exact hn)).mpr ⟨_, mem_vRemove.mpr ⟨v, hv, rfl⟩, ?_, ?_⟩
  · split <;> exact hc
  · split
    · next hvo =>
      have hvo' : v.conn = o := by simpa using hvo
      refine List.mem_filter.mpr ⟨hr, ?_⟩
      simp only [bne_iff_ne, ne_eq]
      intro e
      exact hk ⟨by rw [← hvo', hc], e.symm⟩
    · exact hr

theorem stable_app {l : Lbl} {a : RS} {r : Route} (hp : Pre l a) (hw : a.Wf) (hr : a.Rids)
    (hin : InTable a.V r) (hk : ¬ Kills r l) : InTable (app l a).V r := by
  have hn := hw.conns
  cases l with
  | tick => exact hin
  | full => exact hin
  | issue r' tns => exact inTable_vAdd hn _ _ hin
  | issueFail r' tns =>
    refine inTable_vRemove (by rw [vAdd_conns]; exact hn) _ _ (inTable_vAdd hn _ _ hin) ?_
    rintro ⟨_, e⟩
    exact Fresh.rid_new hp hr r (vTable_subset_vRoutes hin) e.symm
  | drop o r' =>
    exact inTable_vRemove hn _ _ hin (fun ⟨h1, h2⟩ => hk ⟨h1, h2⟩)
  | close c =>
    have hk' : c ≠ r.owner ∧ c ≠ r.requester := by
      constructor
      · exact fun e => hk (Or.inl e)
      · exact fun e => hk (Or.inr e)
    obtain ⟨v, hv, hc, hrv⟩ := (inTable_iff hn).mp hin
    refine (inTable_iff (List.Nodup.sublist (vClose_conns_sublist _ _) hn)).mpr
      ⟨_, mem_vClose.mpr ⟨v, hv, by rw [hc]; exact fun e => hk'.1 e.symm, rfl⟩, hc, ?_⟩
    refine List.mem_filter.mpr ⟨hrv, ?_⟩
    simp only [bne_iff_ne, ne_eq]
    exact fun e => hk'.2 e.symm
  | connect c addr =>
    obtain ⟨v, hv, hc, hrv⟩ := (inTable_iff hn).mp hin
    exact (inTable_iff (WfV.connect hw c addr hp).conns).mpr ⟨v, List.mem_append_left _ hv, hc, hrv⟩

/-! ## the timer log -/

def destroyedOf : Obs → Option Nat
  | .timerDestroy t => some t
  | _ => none

/-- timer ids destroyed so far -/
def destroyed (tl : List Obs) : List Nat := tl.filterMap destroyedOf

@[simp] theorem destroyed_nil : destroyed [] = [] := rfl
@[simp] theorem destroyed_cons_destroy (t : Nat) (l : List Obs) : destroyed (.timerDestroy t :: l) = t :: destroyed l := rfl
@[simp] theorem destroyed_cons_arm (t n : Nat) (l : List Obs) : destroyed (.timerArm t n :: l) = destroyed l := rfl
theorem destroyed_append (l₁ l₂ : List Obs) : destroyed (l₁ ++ l₂) = destroyed l₁ ++ destroyed l₂ := by
  simp [destroyed]

theorem destroyed_map_reverse (l : List Route) :
    destroyed ((l.map (fun r => Obs.timerDestroy r.timer)).reverse) = (l.map (·.timer)).reverse := by
  simp only [destroyed, ← List.map_reverse, List.filterMap_map]
  induction l.reverse with
  | nil => rfl
  | cons a t ih => simp [destroyedOf, ih]

/-- A destroyed timer id is below the counter and no stored entry carries it; no id is destroyed twice. -/
structure DInv (a : RS) : Prop where
  dead : ∀ t ∈ destroyed a.tl, t < a.nt ∧ ∀ r ∈ vRoutes a.V, r.timer ≠ t
  once : (destroyed a.tl).Nodup

theorem mem_vRoutes_vRemove_vAdd {V : List PV} {o : Nat} {r r' : Route}
    (h : r' ∈ vRoutes (vRemove (vAdd V o r) o r.rid)) : r' ∈ vRoutes V := by
  obtain ⟨w', hw', hr'⟩ := mem_vRoutes.mp h
  obtain ⟨w, hw, rfl⟩ := mem_vRemove.mp hw'
  obtain ⟨v, hv, rfl⟩ := mem_vAdd.mp hw
  refine mem_vRoutes.mpr ⟨v, hv, ?_⟩
  by_cases hvo : (v.conn == o) = true
  · simp only [hvo, ↓reduceIte, List.mem_filter, List.mem_append, List.mem_singleton, bne_iff_ne, ne_eq] at hr'
    rcases hr'.1 with h1 | h1
    · exact h1
    · exact absurd (h1 ▸ rfl) hr'.2
  · simp only [hvo, Bool.false_eq_true, ↓reduceIte] at hr'
    exact hr'

/-- after `drop o r` no stored entry carries `r`'s timer -/
theorem no_timer_after_drop {a : RS} (hw : a.Wf) {o : Nat} {r : Route} (hr : r ∈ vTable a.V o) :
    ∀ r' ∈ vRoutes (vRemove a.V o r.rid), r'.timer ≠ r.timer := by
  intro r' hr' e
  have hsub := (vRoutes_vRemove_sublist a.V o r.rid).subset hr'
  have : r' = r := eq_of_nodup_map _ hw.timers hsub (vTable_subset_vRoutes hr) e
  subst this
  obtain ⟨w, hw', hrw⟩ := mem_vRoutes.mp hr'
  obtain ⟨v, hv, rfl⟩ := mem_vRemove.mp hw'
  have hown := hw.table_owner hr
  by_cases hvo : (v.conn == o) = true
  · simp only [hvo, ↓reduceIte, List.mem_filter, bne_iff_ne, ne_eq, not_true_eq_false, and_false] at hrw
  · simp only [hvo, Bool.false_eq_true, ↓reduceIte] at hrw
    have := hw.owner v hv r' hrw
    exact hvo (by simp [← this, hown])

theorem table_sublist_vRoutes {V : List PV} {v : PV} (hv : v ∈ V) : v.routes.Sublist (vRoutes V) := by
  induction V with
  | nil => cases hv
  | cons w t ih =>
    rw [vRoutes_cons]
    rcases List.mem_cons.mp hv with rfl | hv
    · exact List.sublist_append_left _ _
    · exact (ih hv).trans (List.sublist_append_right _ _)

theorem vTable_sublist_vRoutes (V : List PV) (c : Nat) : (vTable V c).Sublist (vRoutes V) := by
  unfold vTable
  split
  · next v hv => exact table_sublist_vRoutes (List.mem_of_find?_eq_some hv)
  · exact List.nil_sublist _

theorem vMine_sublist_vRoutes (V : List PV) (c : Nat) : (vMine V c).Sublist (vRoutes V) := by
  unfold vMine
  induction V with
  | nil => simp [vRoutes]
  | cons v t ih =>
    rw [List.map_cons, List.flatMap_cons, vRoutes_cons]
    refine List.Sublist.append ?_ ih
    split
    · exact List.nil_sublist _
    · exact List.filter_sublist

theorem mem_vMine {V : List PV} {c : Nat} {r : Route} (h : r ∈ vMine V c) :
    ∃ v ∈ V, v.conn ≠ c ∧ r ∈ v.routes ∧ r.requester = c := by
  unfold vMine at h
  obtain ⟨w, hw, hr⟩ := List.mem_flatMap.mp h
  obtain ⟨v, hv, rfl⟩ := List.mem_map.mp hw
  by_cases hvc : (v.conn == c) = true
  · simp [hvc] at hr
  · simp only [hvc, Bool.false_eq_true, ↓reduceIte, List.mem_filter, beq_iff_eq] at hr
    exact ⟨v, hv, by simpa using hvc, hr.1, hr.2⟩

theorem vCloseRoutes_subset {V : List PV} {c : Nat} {r : Route} (h : r ∈ vCloseRoutes V c) : r ∈ vRoutes V := by
  rcases List.mem_append.mp h with h | h
  · exact (vTable_sublist_vRoutes V c).subset h
  · exact (vMine_sublist_vRoutes V c).subset h

/-- the entries released by a close have pairwise different timers -/
theorem vCloseRoutes_timers_nodup {V : List PV} {nt : Nat} (hw : WfV V nt) (c : Nat) :
    ((vCloseRoutes V c).map (·.timer)).Nodup := by
  unfold vCloseRoutes
  rw [List.map_append, List.nodup_append]
  refine ⟨List.Nodup.sublist ((vTable_sublist_vRoutes V c).map _) hw.timers,
    List.Nodup.sublist ((vMine_sublist_vRoutes V c).map _) hw.timers, ?_⟩
  intro t ht t' ht' e
  obtain ⟨r1, hr1, rfl⟩ := List.mem_map.mp ht
  obtain ⟨r2, hr2, rfl⟩ := List.mem_map.mp ht'
  have : r1 = r2 := eq_of_nodup_map _ hw.timers ((vTable_sublist_vRoutes V c).subset hr1)
    ((vMine_sublist_vRoutes V c).subset hr2) e
  subst this
  obtain ⟨v, hv, hvc, hrv, _⟩ := mem_vMine hr2
  have h1 := hw.table_owner hr1
  have h2 := hw.owner v hv r1 hrv
  exact hvc (by rw [← h2, h1])

/-- after closing `c` no stored entry carries the timer of a released entry -/
theorem no_timer_after_close {V : List PV} {nt : Nat} (hw : WfV V nt) {c : Nat} {r : Route}
    (hr : r ∈ vCloseRoutes V c) : ∀ r' ∈ vRoutes (vClose V c), r'.timer ≠ r.timer := by
  intro r' hr' e
  have hsub := (vRoutes_vClose_sublist V c).subset hr'
  have : r' = r := eq_of_nodup_map _ hw.timers hsub (vCloseRoutes_subset hr) e
  subst this
  obtain ⟨v, hv, hvc, hrv, hreq⟩ := mem_vRoutes_vClose hr'
  rcases List.mem_append.mp hr with h | h
  · have h1 := hw.table_owner h
    have h2 := hw.owner v hv r' hrv
    exact hvc (by rw [← h2, h1])
  · obtain ⟨_, _, _, _, h3⟩ := mem_vMine h
    exact hreq h3

theorem nodup_reverse' {l : List Nat} (h : l.Nodup) : l.reverse.Nodup := by
  unfold List.Nodup at *
  rw [List.pairwise_reverse]
  exact h.imp (fun h => h.symm)

theorem dinv_app {l : Lbl} {a : RS} (hp : Pre l a) (hw : a.Wf) (h : DInv a) : DInv (app l a) := by
  cases l with
  | tick => exact ⟨h.dead, h.once⟩
  | full =>
    refine ⟨?_, ?_⟩
    · intro t ht
      simp only [app, destroyed_cons_destroy, List.mem_cons] at ht ⊢
      rcases ht with rfl | ht
      · exact ⟨Nat.lt_succ_self _, fun r hr => Nat.ne_of_lt (hw.timerLt r hr)⟩
      · exact ⟨Nat.lt_succ_of_lt (h.dead t ht).1, (h.dead t ht).2⟩
    · simp only [app, destroyed_cons_destroy, List.nodup_cons]
      exact ⟨fun hm => Nat.lt_irrefl _ (h.dead _ hm).1, h.once⟩
  | issue r tns =>
    refine ⟨?_, h.once⟩
    intro t ht
    have ht' : t ∈ destroyed a.tl := ht
    refine ⟨Nat.lt_succ_of_lt (h.dead t ht').1, ?_⟩
    intro r' hr'
    rcases mem_vRoutes_vAdd hr' with hr' | rfl
    · exact (h.dead t ht').2 r' hr'
    · rw [hp.timer]; exact Nat.ne_of_gt (h.dead t ht').1
  | issueFail r tns =>
    refine ⟨?_, ?_⟩
    · intro t ht
      simp only [app, destroyed_cons_destroy, destroyed_cons_arm, List.mem_cons] at ht ⊢
      rcases ht with rfl | ht
      · exact ⟨Nat.lt_succ_self _, fun r' hr' => Nat.ne_of_lt (hw.timerLt r' (mem_vRoutes_vRemove_vAdd hr'))⟩
      · exact ⟨Nat.lt_succ_of_lt (h.dead t ht).1, fun r' hr' => (h.dead t ht).2 r' (mem_vRoutes_vRemove_vAdd hr')⟩
    · simp only [app, destroyed_cons_destroy, destroyed_cons_arm, List.nodup_cons]
      exact ⟨fun hm => Nat.lt_irrefl _ (h.dead _ hm).1, h.once⟩
  | drop o r =>
    have hr : r ∈ vTable a.V o := hp
    have hlive := vTable_subset_vRoutes hr
    refine ⟨?_, ?_⟩
    · intro t ht
      simp only [app, destroyed_cons_destroy, List.mem_cons] at ht ⊢
      rcases ht with rfl | ht
      · exact ⟨hw.timerLt r hlive, no_timer_after_drop hw hr⟩
      · exact ⟨(h.dead t ht).1, fun r' hr' => (h.dead t ht).2 r' ((vRoutes_vRemove_sublist _ _ _).subset hr')⟩
    · simp only [app, destroyed_cons_destroy, List.nodup_cons]
      exact ⟨fun hm => (h.dead _ hm).2 r hlive rfl, h.once⟩
  | close c =>
    refine ⟨?_, ?_⟩
    · intro t ht
      simp only [app, destroyed_append, destroyed_map_reverse, List.mem_append, List.mem_reverse, List.mem_map] at ht ⊢
      rcases ht with ⟨r, hr, rfl⟩ | ht
      · exact ⟨hw.timerLt r (vCloseRoutes_subset hr), no_timer_after_close hw hr⟩
      · exact ⟨(h.dead t ht).1, fun r' hr' => (h.dead t ht).2 r' ((vRoutes_vClose_sublist _ _).subset hr')⟩
    · simp only [app, destroyed_append, destroyed_map_reverse]
      rw [List.nodup_append]
      refine ⟨nodup_reverse' (vCloseRoutes_timers_nodup hw c), h.once, ?_⟩
      intro t ht t' ht' e
      subst e
      obtain ⟨r, hr, rfl⟩ := List.mem_map.mp (List.mem_reverse.mp ht)
      exact (h.dead _ ht').2 r (vCloseRoutes_subset hr) rfl
  | connect c addr =>
    have : vRoutes (a.V ++ [⟨c, addr, []⟩]) = vRoutes a.V := by rw [vRoutes_append]; simp [vRoutes]
    refine ⟨?_, h.once⟩
    intro t ht
    refine ⟨(h.dead t ht).1, ?_⟩
    intro r hr
    rw [show (app (.connect c addr) a).V = a.V ++ [⟨c, addr, []⟩] from rfl, this] at hr
    exact (h.dead t ht).2 r hr

theorem dinv_steps {ls : List Lbl} {a b : RS} (hs : Steps ls a b) (hw : a.Wf) (h : DInv a) : DInv b := by
  induction ls generalizing a with
  | nil => cases hs; exact h
  | cons l t ih => exact ih hs.2 (wf_app hs.1 hw) (dinv_app hs.1 hw h)

/-! ## ids of the past -/

/-- `rid` carries a counter value of the past and is not stored -/
def RidDead (a : RS) (rid : Bytes) : Prop :=
  (∃ u, u < a.uuid ∧ uuidSeg rid = hexDigits u) ∧ ∀ r ∈ vRoutes a.V, r.rid ≠ rid

theorem ridDead_app {l : Lbl} {a : RS} {rid : Bytes} (hp : Pre l a) (hr : a.Rids)
    (hb : a.uuid + l.ticks < 4294967296) (h : RidDead a rid) : RidDead (app l a) rid := by
  obtain ⟨⟨u, hu, hseg⟩, hdead⟩ := h
  have fresh_ne : ∀ r, Fresh a r → r.rid ≠ rid := by
    intro r hf e
    have := hf.uuidSeg hr
    rw [e, hseg] at this
    have := hexDigits_inj this
    omega
  cases l with
  | tick => exact ⟨⟨u, by simp only [app]; rw [tickU_eq hb]; omega, hseg⟩, hdead⟩
  | full => exact ⟨⟨u, by simp only [app]; rw [tickU_eq hb]; omega, hseg⟩, hdead⟩
  | issue r tns =>
    refine ⟨⟨u, by simp only [app]; rw [tickU_eq hb]; omega, hseg⟩, ?_⟩
    intro r' hr'
    rcases mem_vRoutes_vAdd hr' with hr' | rfl
    · exact hdead r' hr'
    · exact fresh_ne _ hp
  | issueFail r tns =>
    refine ⟨⟨u, by simp only [app]; rw [tickU_eq hb]; omega, hseg⟩, ?_⟩
    intro r' hr'
    exact hdead r' (mem_vRoutes_vRemove_vAdd hr')
  | drop o r => exact ⟨⟨u, hu, hseg⟩, fun r' hr' => hdead r' ((vRoutes_vRemove_sublist _ _ _).subset hr')⟩
  | close c => exact ⟨⟨u, hu, hseg⟩, fun r' hr' => hdead r' ((vRoutes_vClose_sublist _ _).subset hr')⟩
  | connect c addr =>
    have : vRoutes (a.V ++ [⟨c, addr, []⟩]) = vRoutes a.V := by rw [vRoutes_append]; simp [vRoutes]
    refine ⟨⟨u, hu, hseg⟩, ?_⟩
    intro r hr'
    rw [show (app (.connect c addr) a).V = a.V ++ [⟨c, addr, []⟩] from rfl, this] at hr'
    exact hdead r hr'

end Cjet.Daemon.C03
