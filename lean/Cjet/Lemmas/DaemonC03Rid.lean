/-
  DaemonC03Rid — the generated routed-request id determines the counter value it was built from.

  `routedId oid u addr = (⟨idstring⟩_)?⟨hex u⟩_⟨addr⟩` minus its last character.  The origin id
  string is arbitrary (it may contain `_`), so the id is parsed FROM THE END: under the hypothesis
  `AddrOk addr` (the `%p` token is non-empty and contains no `_`) the text after the last `_` is
  `addr.dropLast`, and the `_`-free segment before it is `hex u`.  `hexDigits` is injective, hence
  two generated ids built from different counter values differ, whatever the origin ids and
  addresses are.
-/
import Cjet.Daemon.Model

namespace Cjet.Daemon.C03

open Cjet Cjet.Json Cjet.Daemon

/-- the byte `_` -/
def US : UInt8 := 95

/-- what is assumed about the `%p` rendering of a peer address: non-empty, no `_` -/
def AddrOk (a : Bytes) : Prop := a ≠ [] ∧ US ∉ a

instance (a : Bytes) : Decidable (AddrOk a) := by unfold AddrOk; infer_instance

/-- text after the last `_` (everything if there is none) -/
def lastSeg (l : Bytes) : Bytes := (l.reverse.takeWhile (· != US)).reverse

/-- text before the last `_` -/
def beforeLast (l : Bytes) : Bytes := ((l.reverse.dropWhile (· != US)).drop 1).reverse

/-- the `_`-free segment in front of the last `_` -/
def uuidSeg (rid : Bytes) : Bytes := lastSeg (beforeLast rid)

theorem k_us : k "_" = [US] := by decide +kernel

private theorem all_ne {b : Bytes} (hb : US ∉ b) : ∀ a, a ∈ b.reverse → (a != US) = true := by
  intro a ha
  have : a ∈ b := List.mem_reverse.mp ha
  simp only [bne_iff_ne, ne_eq]
  intro h; subst h; exact hb this

theorem lastSeg_append (a b : Bytes) (hb : US ∉ b) : lastSeg (a ++ US :: b) = b := by
  unfold lastSeg
  have : (a ++ US :: b).reverse = b.reverse ++ (US :: a.reverse) := by simp
  rw [this, List.takeWhile_append_of_pos (all_ne hb)]
  simp [List.takeWhile]

theorem lastSeg_noUS (b : Bytes) (hb : US ∉ b) : lastSeg b = b := by
  unfold lastSeg
  have : b.reverse = b.reverse ++ [] := by simp
  rw [this, List.takeWhile_append_of_pos (all_ne hb)]
  simp

theorem beforeLast_append (a b : Bytes) (hb : US ∉ b) : beforeLast (a ++ US :: b) = a := by
  unfold beforeLast
  have : (a ++ US :: b).reverse = b.reverse ++ (US :: a.reverse) := by simp
  rw [this, List.dropWhile_append_of_pos (all_ne hb)]
  simp [List.dropWhile]

/-! ### hexadecimal digits -/

def hexByte (d : Nat) : UInt8 := UInt8.ofNat (Nat.digitChar d).toNat

theorem hexDigits_eq_if (n : Nat) :
    hexDigits n = if n < 16 then [hexByte n] else hexDigits (n / 16) ++ [hexByte (n % 16)] := by
  unfold hexDigits
  rw [Nat.toDigits_eq_if (by decide)]
  split <;> simp [hexByte]

/-- value of a hex digit byte as printed by `%x` -/
def hexVal1 (b : UInt8) : Nat := if b.toNat < 58 then b.toNat - 48 else b.toNat - 87

def hexVal (l : Bytes) : Nat := l.foldl (fun acc b => acc * 16 + hexVal1 b) 0

theorem hexVal1_hexByte : ∀ d, d < 16 → hexVal1 (hexByte d) = d := by decide

theorem hexByte_ne_us : ∀ d, d < 16 → hexByte d ≠ US := by decide

theorem hexVal_append (l : Bytes) (b : UInt8) : hexVal (l ++ [b]) = hexVal l * 16 + hexVal1 b := by
  simp [hexVal, List.foldl_append]

theorem hexVal_hexDigits (n : Nat) : hexVal (hexDigits n) = n := by
  induction n using Nat.strongRecOn with
  | _ n ih =>
    rw [hexDigits_eq_if]
    split
    · next h => simp [hexVal, hexVal1_hexByte n h]
    · next h =>
      rw [hexVal_append, ih (n / 16) (by omega), hexVal1_hexByte _ (Nat.mod_lt n (by decide))]
      omega

theorem hexDigits_inj {a b : Nat} (h : hexDigits a = hexDigits b) : a = b := by
  have := congrArg hexVal h
  simpa [hexVal_hexDigits] using this

theorem hexDigits_noUS (n : Nat) : US ∉ hexDigits n := by
  induction n using Nat.strongRecOn with
  | _ n ih =>
    rw [hexDigits_eq_if]
    split
    · next h =>
      simp only [List.mem_singleton]
      exact fun e => hexByte_ne_us n h e.symm
    · next h =>
      simp only [List.mem_append, List.mem_singleton, not_or]
      exact ⟨ih (n / 16) (by omega), fun e => hexByte_ne_us _ (Nat.mod_lt n (by decide)) e.symm⟩

/-! ### the generated id -/

theorem routedId_shape (oid : Option Json) (u : Nat) (addr : Bytes) (ha : AddrOk addr) :
    ∃ pre : Bytes, (pre = [] ∨ ∃ s, pre = s ++ [US]) ∧
      routedId oid u addr = pre ++ hexDigits u ++ US :: addr.dropLast := by
  unfold routedId
  simp only [k_us]
  cases idString oid with
  | none =>
    refine ⟨[], Or.inl rfl, ?_⟩
    simp only [List.nil_append]
    rw [List.dropLast_append_of_ne_nil ha.1]
    simp
  | some s =>
    refine ⟨s ++ [US], Or.inr ⟨s, rfl⟩, ?_⟩
    simp only
    rw [show s ++ [US] ++ (hexDigits u ++ [US] ++ addr) = (s ++ [US] ++ (hexDigits u ++ [US])) ++ addr by simp,
      List.dropLast_append_of_ne_nil ha.1]
    simp

theorem uuidSeg_routedId (oid : Option Json) (u : Nat) (addr : Bytes) (ha : AddrOk addr) :
    uuidSeg (routedId oid u addr) = hexDigits u := by
  obtain ⟨pre, hpre, heq⟩ := routedId_shape oid u addr ha
  have hdl : US ∉ addr.dropLast := fun h => ha.2 (List.dropLast_subset _ h)
  rw [heq, uuidSeg, beforeLast_append _ _ hdl]
  rcases hpre with rfl | ⟨s, rfl⟩
  · simpa using lastSeg_noUS _ (hexDigits_noUS u)
  · rw [show s ++ [US] ++ hexDigits u = s ++ US :: hexDigits u by simp]
    exact lastSeg_append _ _ (hexDigits_noUS u)

/-- Ids generated from different counter values differ — for arbitrary origin ids (strings with
    `_` included, numbers, none) and arbitrary well-formed address tokens of the two requesters. -/
theorem routedId_ne (oid₁ oid₂ : Option Json) (u₁ u₂ : Nat) (a₁ a₂ : Bytes)
    (h₁ : AddrOk a₁) (h₂ : AddrOk a₂) (hu : u₁ ≠ u₂) :
    routedId oid₁ u₁ a₁ ≠ routedId oid₂ u₂ a₂ := by
  intro h
  have := congrArg uuidSeg h
  rw [uuidSeg_routedId _ _ _ h₁, uuidSeg_routedId _ _ _ h₂] at this
  exact hu (hexDigits_inj this)

end Cjet.Daemon.C03
