/-
  C02 helper lemmas, part 9: from the internal specifications (newest-first output lists) to the
  statements of Props/C02 (chronological `outsTo`), and the routing-table invariant `RoutesOwned`.
-/
import Cjet.Lemmas.DaemonC02Batch

namespace Cjet.Daemon.C02

open Cjet Cjet.Json Cjet.Daemon

/-- some request was successfully handed to an element's owner -/
def AcceptedRouted (new : List Obs) : Prop := ∃ o ∈ new, obsAccepted o = true

theorem WellFormed.not_routed {id j : Json} (h : WellFormed id j) : isRoutedReq j = false := by
  have h1 : has j "method" = false := h.hasMethod
  simp [isRoutedReq, h1]

theorem outsTo_all_method {c : Nat} {l : List Obs} (h : ∀ o ∈ l, obsMethod o = true) :
    ∀ j ∈ outsTo c l, hasMethod j = true := by
  intro j hj
  obtain ⟨b, hb⟩ := mem_outsTo.1 hj
  exact h _ hb

/-- `RequestSpec` in chronological, per-connection form. -/
theorem RequestSpec.discipline {c : Nat} {req : Json} {x : Ctx} {res : Ctx × Bool} (h : RequestSpec c req x res) :
    ∃ new, res.1.out = new ++ x.out ∧
      (∀ d, d ≠ c → ∀ j ∈ outsTo d new.reverse, hasMethod j = true) ∧
      ∃ others fin, outsTo c new.reverse = others ++ fin ∧ (∀ j ∈ others, hasMethod j = true) ∧
        ((fin = [] ∧ (Answerable req → AcceptedRouted new)) ∨
         (∃ id resp, fin = [resp] ∧ req.getItem (k "id") = some id ∧ idOk id = true ∧ WellFormed id resp ∧
            ¬ AcceptedRouted new)) := by
  obtain ⟨⟨pre, fin, hout, hpre, hfin⟩, _⟩ := h
  have hpre' : ∀ o ∈ pre.reverse, obsMethod o = true := fun o ho => hpre o (List.mem_reverse.1 ho)
  refine ⟨fin ++ pre, hout, ?_, outsTo c pre.reverse, outsTo c fin.reverse, ?_, outsTo_all_method hpre', ?_⟩
  · intro d hd j hj
    rw [List.reverse_append, outsTo_append] at hj
    rcases List.mem_append.1 hj with hj | hj
    · exact outsTo_all_method hpre' j hj
    · rcases hfin with ⟨rfl, _⟩ | ⟨id, resp, b, rfl, _⟩
      · simp [outsTo] at hj
      · simp [outsTo, Ne.symm hd] at hj
  · rw [List.reverse_append, outsTo_append]
  · rcases hfin with ⟨rfl, _, hacc⟩ | ⟨id, resp, b, rfl, _, hid, hok, hwf, hna⟩
    · refine Or.inl ⟨rfl, fun ha => ?_⟩
      obtain ⟨o, ho, hoa⟩ := hacc ha
      exact ⟨o, by simpa using ho, hoa⟩
    · refine Or.inr ⟨id, resp, by simp [outsTo], hid, hok, hwf, ?_⟩
      rintro ⟨o, ho, hoa⟩
      rcases List.mem_append.1 ho with ho | ho
      · simp only [List.mem_singleton] at ho
        subst ho
        cases b
        · simp [obsAccepted] at hoa
        · simp [obsAccepted, hwf.not_routed] at hoa
      · rw [hna o ho] at hoa; cases hoa

/-! ## the invariant: a routing record sits in its owner's table -/

def RoutesOwned (ps : List Peer) : Prop := ∀ p ∈ ps, ∀ r ∈ p.routes, r.owner = p.conn

theorem RoutesOwned.routeStep {c : Nat} {ps ps' : List Peer} (h : RoutesOwned ps) (hs : RouteStep c ps ps') :
    RoutesOwned ps' := by
  induction hs with
  | nil => intro p hp; cases hp
  | @cons p p' t t' hab _ ih =>
    intro q hq r hr
    rcases List.mem_cons.1 hq with rfl | hq
    · rcases hab.2 r hr with h1 | h1
      · rw [hab.1]; exact h p (List.mem_cons_self ..) r h1
      · rw [hab.1]; exact h1.2
    · exact ih (fun q hq => h q (List.mem_cons_of_mem _ hq)) q hq r hr

theorem routesOwned_iff (ps : List Peer) :
    RoutesOwned ps ↔ ∀ e ∈ routesMap ps, ∀ r ∈ e.2, r.owner = e.1 := by
  unfold RoutesOwned routesMap
  constructor
  · intro h e he r hr
    obtain ⟨p, hp, rfl⟩ := List.mem_map.1 he
    exact h p hp r hr
  · intro h p hp r hr
    exact h (p.conn, p.routes) (List.mem_map.2 ⟨p, hp, rfl⟩) r hr

theorem RoutesOwned.dropConn {c : Nat} {ps ps' : List Peer} (h : RoutesOwned ps)
    (hd : routesMap ps' = dropConn c (routesMap ps)) : RoutesOwned ps' := by
  rw [routesOwned_iff] at h ⊢
  rw [hd]
  intro e he r hr
  unfold C02.dropConn at he
  obtain ⟨e0, he0, rfl⟩ := List.mem_map.1 he
  exact h e0 (List.mem_filter.1 he0).1 r (List.mem_filter.1 hr).1

theorem closePeer_routesOwned (x : Ctx) (c : Nat) (h : RoutesOwned x.st.peers) :
    RoutesOwned (closePeer x c).st.peers := by
  show RoutesOwned (freePeerResources x c).st.peers
  cases hp : findPeer x.st.peers c with
  | none => rw [freePeerResources_none hp]; exact h
  | some p => exact h.dropConn (freePeerResources_spec hp).2

/-- `RoutesOwned` is preserved by every operation. -/
theorem step_routesOwned (cfg : Config) (s : State) (op : Op) (h : RoutesOwned s.peers) :
    RoutesOwned (step cfg s op).1.peers := by
  cases op with
  | connect c ws isLocal addr =>
    unfold step
    dsimp only
    split
    · exact h
    · intro p hp r hr
      rcases List.mem_append.1 hp with hp | hp
      · exact h p hp r hr
      · simp at hp; subst hp; cases hr
  | message c msg o =>
    unfold step
    dsimp only
    split
    · exact h
    · obtain ⟨_, _, hrt, _⟩ := parseMessage_class cfg s.peers c msg (mkCtx s o) (RouteStep.refl ..)
      have h1 := h.routeStep hrt
      split
      · exact h1
      · exact closePeer_routesOwned _ _ h1
  | disconnect c o =>
    unfold step
    dsimp only
    split
    · exact h
    · exact closePeer_routesOwned _ _ h
  | timerFire t o =>
    unfold step
    dsimp only
    rcases timeoutFired_spec (mkCtx s o) t with ⟨heq, _⟩ | ⟨r, _, hst, _⟩
    · rw [heq]; exact h
    · rw [hst]; exact h.routeStep (routeStep_removeRoute (c := 0) ..)

theorem run_routesOwned (cfg : Config) (ops : List Op) (s : State) (h : RoutesOwned s.peers) :
    RoutesOwned (run cfg s ops).1.peers := by
  induction ops generalizing s with
  | nil => exact h
  | cons op rest ih =>
    simp only [run]
    exact ih _ (step_routesOwned cfg s op h)

/-- a record of its owner's table with a given rid is gone after `removeRoute` -/
theorem removeRoute_gone {ps : List Peer} (h : RoutesOwned ps) (owner : Nat) (rid : Bytes) :
    ∀ q ∈ removeRoute ps owner rid, ∀ r' ∈ q.routes, ¬ (r'.owner = owner ∧ r'.rid = rid) := by
  intro q hq r' hr' ⟨ho, hrid⟩
  unfold removeRoute updatePeer at hq
  obtain ⟨p, hp, rfl⟩ := List.mem_map.1 hq
  split at hr'
  · have := (List.mem_filter.1 hr').2
    simp [hrid] at this
  · rename_i hne
    have := h p hp r' hr'
    rw [ho] at this
    simp [this] at hne

/-! ## processing a response object -/

/-- Processing a response object of connection `c`: at most one value is sent, the relay for the
    matching record of `c`'s own table, and that record leaves the table. -/
theorem parseJsonRpc_response_spec (cfg : Config) (x : Ctx) (c : Nat) (p : Peer) (req : Json)
    (hp : findPeer x.st.peers c = some p) (hm : req.getItem (k "method") = none)
    (hre : (req.getItem (k "result")).isSome = true ∨ (req.getItem (k "error")).isSome = true) :
    ∃ new, (parseJsonRpc cfg x c req).1.out = new ++ x.out ∧ (sendsOf new).length ≤ 1 ∧
      ∀ d j b, Obs.send d j b ∈ new →
        ∃ r ∈ p.routes, IsRelayOf r req d j ∧
          (parseJsonRpc cfg x c req).1.st.peers = removeRoute x.st.peers c r.rid := by
  have hc : p.conn = c := findPeer_conn hp
  obtain ⟨typ, payload, htyp, hpay, heq⟩ := parseJsonRpc_response cfg x c p req hp hm hre
  rw [heq]
  have hspec := routingResponse_spec x p req payload typ
  dsimp only at hspec
  rcases hspec with ⟨hres, _⟩ | ⟨_, rid, hid, ⟨hres, _⟩ | ⟨r, hf, hst, hcase⟩⟩
  · rw [hres]; exact ⟨[], rfl, by simp [sendsOf], by simp⟩
  · rw [hres]; exact ⟨[], rfl, by simp [sendsOf], by simp⟩
  · have hrid : r.rid = rid := by simpa using List.find?_some hf
    have hmem : r ∈ p.routes := List.mem_of_find?_eq_some hf
    rcases hcase with ⟨hout, _⟩ | ⟨oid, ho, hok, hout⟩
    · refine ⟨[.timerDestroy r.timer], hout, by simp [sendsOf], ?_⟩
      intro d j b h
      simp at h
    · refine ⟨[.send r.requester (.obj [(k "id", oid), (k typ, payload)]) (x.sends.headD true),
        .timerDestroy r.timer], by simpa using hout, by simp [sendsOf], ?_⟩
      intro d j b h
      simp only [List.mem_cons, Obs.send.injEq, List.mem_nil_iff, or_false] at h
      rcases h with ⟨rfl, rfl, rfl⟩ | h
      · refine ⟨r, hmem, ⟨hm, by rw [hid, hrid], rfl, oid, typ, payload, ho, hok, htyp, hpay, rfl⟩, ?_⟩
        rw [hst, hrid, hc]
      · cases h

/-- the responses among the values sent to `c` -/
theorem filter_isResponse_of_method {l : List Json} (h : ∀ j ∈ l, hasMethod j = true) :
    l.filter isResponse = [] := by
  apply List.filter_eq_nil_iff.2
  intro j hj hr
  have h1 := h j hj
  rw [isResponse_not_hasMethod hr] at h1
  cases h1

theorem sendsOf_nil_of_no_send {l : List Obs} (h : ∀ o ∈ l, ∀ d j b, o ≠ Obs.send d j b) : sendsOf l = [] := by
  induction l with
  | nil => rfl
  | cons o t ih =>
    cases o with
    | send d j b => exact absurd rfl (h _ (List.mem_cons_self ..) d j b)
    | _ => simpa [sendsOf] using ih (fun o ho => h o (List.mem_cons_of_mem _ ho))

/-! ## only set and call are routed -/

theorem handleMethod_ok_of_not_routed (cfg : Config) (x : Ctx) (p : Peer) (req : Json) (m : Bytes)
    (hs : (m == k "set") = false) (hc : (m == k "call") = false) :
    HandlerOK req x (handleMethod cfg x p req m) := by
  unfold handleMethod
  by_cases h1 : (m == k "change") = true
  · rw [if_pos h1]; exact changeState_ok ..
  rw [if_neg h1, if_neg (by simp [hs]), if_neg (by simp [hc])]
  by_cases h4 : (m == k "add") = true
  · rw [if_pos h4]; exact addElement_ok ..
  rw [if_neg h4]
  by_cases h5 : (m == k "remove") = true
  · rw [if_pos h5]; exact removeElementReq_ok ..
  rw [if_neg h5]
  by_cases h6 : (m == k "fetch") = true
  · rw [if_pos h6]; exact fetchReq_ok ..
  rw [if_neg h6]
  by_cases h7 : (m == k "unfetch") = true
  · rw [if_pos h7]; exact unfetchReq_ok ..
  rw [if_neg h7]
  by_cases h8 : (m == k "get") = true
  · rw [if_pos h8]; exact getReq_ok ..
  rw [if_neg h8]
  by_cases h9 : (m == k "config") = true
  · rw [if_pos h9]; exact configReq_ok ..
  rw [if_neg h9]
  by_cases h10 : (m == k "info") = true
  · rw [if_pos h10]; exact infoReq_ok ..
  rw [if_neg h10]
  by_cases h11 : (m == k "authenticate") = true
  · rw [if_pos h11]; exact authenticateReq_ok ..
  rw [if_neg h11]
  by_cases h12 : (m == k "passwd") = true
  · rw [if_pos h12]; exact passwdReq_ok ..
  rw [if_neg h12]
  exact ⟨Frame.refl _, FromReq.error ..⟩

/-- a request whose method is neither "set" nor "call" is never handed to another peer -/
theorem not_routed_of_other_method (cfg : Config) (x : Ctx) (c : Nat) (req : Json) (m : Bytes)
    (hm : req.getItem (k "method") = some (.str m))
    (hs : (m == k "set") = false) (hc : (m == k "call") = false)
    (new : List Obs) (hnew : (parseJsonRpc cfg x c req).1.out = new ++ x.out) : ¬ AcceptedRouted new := by
  cases hp : findPeer x.st.peers c with
  | none =>
    have : (parseJsonRpc cfg x c req).1.out = [] ++ x.out := by simp [parseJsonRpc, hp]
    rw [hnew] at this
    have := List.append_cancel_right this
    subst this
    rintro ⟨o, ho, _⟩; cases ho
  | some p =>
    have hok := handleMethod_ok_of_not_routed cfg x p req m hs hc
    obtain ⟨⟨⟨pre, hpre, hnot⟩, _⟩, hfrom⟩ := hok
    have heq : parseJsonRpc cfg x c req = sendResponse (handleMethod cfg x p req m).1 c (handleMethod cfg x p req m).2 := by
      simp only [parseJsonRpc, hp, hm]
    rw [heq] at hnew
    cases hr : (handleMethod cfg x p req m).2 with
    | none =>
      rw [hr] at hnew
      simp only [sendResponse] at hnew
      rw [hpre] at hnew
      have := List.append_cancel_right hnew
      subst this
      rintro ⟨o, ho, hoa⟩
      rw [obsNotif_not_accepted (hnot o ho)] at hoa; cases hoa
    | some j =>
      rw [hr] at hnew hfrom
      simp only [sendResponse, send_eq] at hnew
      rw [hpre] at hnew
      have : new = .send c j ((handleMethod cfg x p req m).1.sends.headD true) :: pre :=
        (List.append_cancel_right (by simpa using hnew)).symm
      subst this
      rintro ⟨o, ho, hoa⟩
      rcases List.mem_cons.1 ho with rfl | ho
      · rcases hfrom.respFor with hn | ⟨id, j', _, _, hj, hwf⟩
        · cases hn
        · cases hj
          revert hoa
          generalize (handleMethod cfg x p req m).1.sends.headD true = b
          cases b <;> simp [obsAccepted, hwf.not_routed]
      · rw [obsNotif_not_accepted (hnot o ho)] at hoa; cases hoa

end Cjet.Daemon.C02
