import Cjet.Lemmas.HoptableRun

/-! Helper lemmas for C17: why `put` refuses (`full_reason`, `full_iff_small`), that a refused
`put` does not lose capacity (with fix F25), and the router's sweep loop. -/

set_option linter.unusedSectionVars false
set_option linter.unusedVariables false

namespace Cjet.Hoptable

open Cjet.Generated.Hoptable

/-! ### counting -/

/-- flipping one position from `true` to `false` lowers the count over `range N` by one -/
theorem countP_range_flip (f g : Nat → Bool) :
    ∀ (N a : Nat), a < N → (∀ j, j ≠ a → g j = f j) → f a = true → g a = false →
      (List.range N).countP g + 1 = (List.range N).countP f := by
  intro N
  induction N with
  | zero => intro a h; omega
  | succ n ih =>
    intro a ha hag hfa hga
    rw [List.range_succ, List.countP_append, List.countP_append, List.countP_singleton,
      List.countP_singleton]
    by_cases e : a = n
    · subst e
      have : (List.range a).countP g = (List.range a).countP f := by
        apply List.countP_congr
        intro x hx
        rw [List.mem_range] at hx
        rw [hag x (by omega)]
      rw [this, hfa, hga]; simp
    · have := ih a (by omega) hag hfa hga
      rw [hag n (fun x => e x.symm)]
      omega

/-- moving a `true` from position `a` to position `b` keeps the count -/
theorem countP_range_swap (f g : Nat → Bool) (N a b : Nat) (ha : a < N) (hb : b < N) (hab : a ≠ b)
    (hfa : f a = true) (hfb : f b = false) (hga : g a = false) (hgb : g b = true)
    (hag : ∀ j, j ≠ a → j ≠ b → g j = f j) :
    (List.range N).countP g = (List.range N).countP f := by
  let m : Nat → Bool := fun j => if j = a then false else f j
  have h1 := countP_range_flip f m N a ha (by intro j hj; simp [m, hj]) hfa (by simp [m])
  have h2 := countP_range_flip g m N b hb
    (by
      intro j hj
      by_cases e : j = a
      · subst e; simp [m, hga]
      · simp [m, e, hag j e hj])
    hgb (by simp [m, Ne.symm hab, hfb])
  omega

section
variable {K V : Type} [DecidableEq K] [Inhabited V]
variable {N : Nat} {hash : K → Nat} {t t' : Table K V}

theorem emptyCount_eq_countP (N : Nat) (t : Table K V) :
    emptyCount N t = (List.range N).countP (fun i => (slot t i).key.isNone) := by
  unfold emptyCount; rw [List.countP_eq_length_filter]

/-! ### slot-level description of `remove` -/

theorem remove_slots (hN : 0 < N) (wf : WF N hash t) {k : K} (hk : hash k < N) :
    let r := remove N hash t k
    (r.1 = none → r.2 = t) ∧
    (∀ v, r.1 = some v → ∃ p, p < N ∧ Live N t p ∧ (slot t p).key = some k ∧
      ∀ j, (slot r.2 j).key = if j = p then none else (slot t j).key) := by
  intro r
  have hsz := wf.size
  cases hl : lookup N hash t k with
  | none =>
    have hr : r = (none, t) := by
      unfold lookup at hl
      simp only [r, remove, hl]
    rw [hr]
    exact ⟨fun _ => rfl, fun v e => (by cases e)⟩
  | some pos =>
    obtain ⟨hlive, hkey, hposN⟩ := lookup_some_live hN hk hl
    have hr : r = (some (slot t pos).val,
        setHop (setVal (setKey t pos none) pos default) (hash k)
          ((slot t (hash k)).hop &&& ~~~(1#W <<< subWrap N pos (hash k)))) := by
      unfold lookup at hl
      simp only [r, remove, hl]
    rw [hr]
    refine ⟨fun e => (by cases e), fun v _ => ⟨pos, hposN, hlive, hkey, ?_⟩⟩
    intro j
    simp only [key_setHop, key_setKey, key_setVal, hsz, hposN, and_true]
    by_cases e : pos = j
    · subst e; simp
    · have e' : ¬ j = pos := fun x => e x.symm
      simp [e, e']

/-! ### why `put` refuses -/

theorem put_of_lookup_none {A : Nat} (clr : Bool) {k : K} (v : V) (hl : lookup N hash t k = none) :
    put N A hash clr t k v =
      if (probe N t A 0 (hash k)).1 < A then
        ⟨(displace N clr (hash k) k v N t (probe N t A 0 (hash k)).2 (probe N t A 0 (hash k)).1).1, default,
         (displace N clr (hash k) k v N t (probe N t A 0 (hash k)).2 (probe N t A 0 (hash k)).1).2⟩
      else ⟨.full, default, t⟩ := by
  simp only [put, hl]

theorem closerStartSub_eq : closerStartSub = 1 := by decide

/-- invariant of the displacement loop of the fixed code, for the refusal analysis -/
structure FullInv (N A : Nat) (hash : K → Nat) (t : Table K V) (h fp fd : Nat) : Prop where
  wf : WF N hash t
  ns : NoStale N t
  pos : (h + fd) % N = fp
  fdA : fd < A
  keynone : (slot t fp).key = none
  before : ∀ d, d < fd → Live N t ((h + d) % N)

theorem displace_full (hN : 0 < N) {A : Nat} (hAN : A ≤ N) {h : Nat} (hh : h < N) (k : K) (v : V) :
    ∀ (f : Nat) (t : Table K V) (fp fd : Nat), fd < f → FullInv N A hash t h fp fd →
      let r := displace N true h k v f t fp fd
      r.1 = .full → Stuck N A r.2 h ∧ emptyCount N r.2 = emptyCount N t := by
  intro f
  induction f with
  | zero => intro t fp fd hlt; omega
  | succ f ih =>
    intro t fp fd hlt inv
    have hfpN : fp < N := by rw [← inv.pos]; exact Nat.mod_lt _ hN
    have hfdN : fd < N := by have := inv.fdA; omega
    simp only [displace]
    split
    · intro e; cases e
    · rename_i hfd
      split
      · rename_i hfc
        intro _
        refine ⟨⟨fd, by omega, inv.fdA, by rw [inv.pos]; exact inv.keynone, inv.before, ?_⟩, rfl⟩
        rw [inv.pos]
        intro cd h1 h2 i hi
        have hcs := closerStartSub_eq
        exact findCloser_none true t fp _ hfc cd h1 (by omega) i hi
      · rename_i fp' t' hfc
        have hcs := closerStartSub_eq
        have hcd0 : W - closerStartSub ≠ 0 := by
          intro e; rw [e] at hfc; simp [findCloser] at hfc
        have hcdW : W - closerStartSub < W := by omega
        have hcdN : W - closerStartSub < N := by omega
        have hnl : ¬ Live N t fp := inv.wf.not_live_of_none inv.keynone
        have mr := findCloser_some hN true inv.wf hfpN hnl _ fp' t' hcdW hcdN hfc
        obtain ⟨cd', i, hc1, hc2, hc3, hc4⟩ := mr.dist
        -- the new free position is strictly closer to the home bucket
        have hcdle : cd' ≤ fd := by omega
        have hcdN' : cd' < N := by omega
        have hfp' : fp' = (h + (fd - cd' + i)) % N := by
          rw [hc4, ← inv.pos, subWrap_add_le hcdle hcdN', Nat.mod_add_mod, Nat.add_assoc]
        have hfd' : subWrap N fp' h = fd - cd' + i := by
          rw [hfp']; exact subWrap_add hh (by omega)
        rw [hfd']
        have inv' : FullInv N A hash t' h fp' (fd - cd' + i) :=
          { wf := mr.wf'
            ns := mr.nostale rfl inv.ns
            pos := hfp'.symm
            fdA := by have := inv.fdA; omega
            keynone := mr.keyvac rfl
            before := by
              intro d hd
              rw [mr.live]
              refine Or.inl ⟨inv.before d (by omega), ?_⟩
              rw [hfp']
              intro e
              have := add_mod_inj hh (by omega) (by omega) e
              omega }
        intro hfull
        obtain ⟨s1, s2⟩ := ih t' fp' (fd - cd' + i) (by omega) inv' hfull
        refine ⟨s1, s2.trans ?_⟩
        -- one displacement keeps the number of empty slots
        rw [emptyCount_eq_countP, emptyCount_eq_countP]
        obtain ⟨kk, hkk⟩ := inv.wf.live_key mr.wasLive
        have hne : fp' ≠ fp := by
          intro e; rw [e] at hkk; rw [inv.keynone] at hkk; cases hkk
        apply countP_range_swap _ _ N fp fp' hfpN mr.lt (Ne.symm hne)
        · simp [inv.keynone]
        · simp [hkk]
        · simp [mr.keyfp, hkk]
        · simp [mr.keyvac rfl]
        · intro j h1 h2; simp [mr.keyother j h1 h2]

/-- `full_reason` for abstract sizes -/
theorem put_full_reason (hN : 0 < N) {A : Nat} (hAN : A ≤ N) (wfs : WFS N hash t) {k : K}
    (hk : hash k < N) (v : V) (hrc : (put N A hash true t k v).rc = .full) :
    (¬ ∃ v, Maps N t k v) ∧
      (WindowOccupied N A t (hash k) ∨ Stuck N A (put N A hash true t k v).tab (hash k)) ∧
      emptyCount N (put N A hash true t k v).tab = emptyCount N t := by
  have wf := wfs.toWF
  obtain ⟨_, _, _, h4, _⟩ := put_spec hN hAN true wf hk v
  obtain ⟨_, habs⟩ := h4 hrc
  refine ⟨fun ⟨v, m⟩ => habs v m, ?_⟩
  have hl : lookup N hash t k = none := by
    cases hl : lookup N hash t k with
    | none => rfl
    | some p =>
      obtain ⟨hlive, hkey, _⟩ := lookup_some_live hN hk hl
      exact absurd (maps_of_live hlive hkey) (habs _)
  have hprobe := probe_spec hN t A 0 (hash k) hk
  simp only [Nat.zero_add, Nat.sub_zero] at hprobe
  obtain ⟨_, hp2, hp3, hp4, hp5⟩ := hprobe
  rw [put_of_lookup_none true v hl] at hrc ⊢
  by_cases hlt : (probe N t A 0 (hash k)).1 < A
  · simp only [hlt, if_true] at hrc ⊢
    have inv : FullInv N A hash t (hash k) (probe N t A 0 (hash k)).2 (probe N t A 0 (hash k)).1 :=
      { wf := wf, ns := wfs.nostale, pos := hp3.symm, fdA := hlt, keynone := hp5 hlt
        before := fun d hd => wfs.nostale _ (Nat.mod_lt _ hN) (hp4 d hd) }
    obtain ⟨s1, s2⟩ := displace_full hN hAN hk k v N t _ _ (by omega) inv hrc
    exact ⟨Or.inr s1, s2⟩
  · simp only [hlt, if_false]
    refine ⟨Or.inl ?_, trivial⟩
    intro d hd
    exact wfs.nostale _ (Nat.mod_lt _ hN) (hp4 d (by omega))

/-- when the add range does not exceed the hop range, `put` refuses exactly when the key is
absent and every slot of the probe window is occupied (no displacement is ever attempted) -/
theorem put_full_iff_small (hN : 0 < N) {A : Nat} (hAN : A ≤ N) (hAW : A ≤ W) (clr : Bool)
    (wfs : WFS N hash t) {k : K} (hk : hash k < N) (v : V) :
    (put N A hash clr t k v).rc = .full ↔
      (¬ ∃ v, Maps N t k v) ∧ WindowOccupied N A t (hash k) := by
  have wf := wfs.toWF
  have hprobe := probe_spec hN t A 0 (hash k) hk
  simp only [Nat.zero_add, Nat.sub_zero] at hprobe
  obtain ⟨_, hp2, hp3, hp4, hp5⟩ := hprobe
  constructor
  · intro hrc
    obtain ⟨_, _, _, h4, _⟩ := put_spec hN hAN clr wf hk v
    obtain ⟨_, habs⟩ := h4 hrc
    refine ⟨fun ⟨v, m⟩ => habs v m, ?_⟩
    have hl : lookup N hash t k = none := by
      cases hl : lookup N hash t k with
      | none => rfl
      | some p =>
        obtain ⟨hlive, hkey, _⟩ := lookup_some_live hN hk hl
        exact absurd (maps_of_live hlive hkey) (habs _)
    rw [put_of_lookup_none clr v hl] at hrc
    by_cases hlt : (probe N t A 0 (hash k)).1 < A
    · simp only [hlt, if_true] at hrc
      obtain ⟨n, hn⟩ : ∃ n, N = n + 1 := ⟨N - 1, by omega⟩
      rw [hn] at hrc
      have hW : (probe (n + 1) t A 0 (hash k)).1 < W := by rw [← hn]; omega
      simp [displace, hW] at hrc
    · intro d hd
      exact wfs.nostale _ (Nat.mod_lt _ hN) (hp4 d (by omega))
  · rintro ⟨habs, hwin⟩
    have hl : lookup N hash t k = none := by
      cases hl : lookup N hash t k with
      | none => rfl
      | some p =>
        obtain ⟨hlive, hkey, _⟩ := lookup_some_live hN hk hl
        exact absurd ⟨_, maps_of_live hlive hkey⟩ habs
    rw [put_of_lookup_none clr v hl]
    have hge : ¬ (probe N t A 0 (hash k)).1 < A := by
      intro hlt
      have hnone := hp5 hlt
      have hlive := hwin _ hlt
      rw [← hp3] at hlive
      exact wf.not_live_of_none hnone hlive
    simp [hge]

end
end Cjet.Hoptable
