/-
  Cjet.Lemmas.DaemonC11Example — the concrete history used by the non-vacuity examples of
  `Cjet.Props.C11`.
-/
import Cjet.Lemmas.DaemonC11Answer
import Cjet.Lemmas.DaemonC11Dec

namespace Cjet.Props.C11

open Cjet Cjet.Json Cjet.Daemon Cjet.Daemon.C05 Cjet.Daemon.C11

/-! peer 1 owns state "a"; peers 2 and 3 fetch everything -/

def exNum (i : Int) : Json := .num ⟨0, i⟩
def exReq (method : String) (id : Int) (params : List (Bytes × Json)) : Json :=
  .obj [(k "method", mkStr method), (k "id", exNum id), (k "params", .obj params)]
def exOps : List Op :=
  [.connect 1 false true [49], .connect 2 false true [50], .connect 3 true false [51],
   .message 1 (some (exReq "add" 1 [(k "path", mkStr "a"), (k "value", exNum 1)])) {},
   .message 2 (some (exReq "fetch" 2 [(k "id", mkStr "f2")])) {},
   .message 3 (some (exReq "fetch" 3 [(k "id", exNum 7)])) {}]
def exS : State := (run {} {} exOps).1
theorem exS_reachable : Reachable {} exS := ⟨[], exOps, rfl⟩

/-- peer 1 changes "a": notification to 2 (fails / succeeds), to 3, then the response to 1 -/
def exChange : Option Json := some (exReq "change" 4 [(k "path", mkStr "a"), (k "value", exNum 5)])
/-- peer 3 sets "a" (owned by 1) -/
def exSet : Json := exReq "set" 9 [(k "path", mkStr "a"), (k "value", exNum 2)]


theorem ex_h3 : (findPeer exS.peers 3).isSome = true := by decide +kernel
def exP : Peer := (findPeer exS.peers 3).get ex_h3
theorem ex_hpl : ((setOrCallPlan {} exS exP exSet true).getRight?).isSome = true := by decide +kernel
def exPlan : Json × Bytes × Element × Option Json × Option Json :=
  ((setOrCallPlan {} exS exP exSet true).getRight?).get ex_hpl

theorem ex_routedBy : RoutedBy {} exS 3 exSet exP true exPlan.2.1 exPlan.2.2.1 (exNum 9) exPlan.2.2.2.2 5000000000 := by
  refine ⟨(Option.some_get ex_h3).symm, ⟨k "set", by decide +kernel, by decide +kernel, by decide +kernel⟩,
    ⟨exPlan.1, ?_, ?_⟩, by decide +kernel⟩
  · have hplan : setOrCallPlan {} exS exP exSet true = .inr exPlan :=
      Sum.getRight?_eq_some_iff.1 (Option.some_get ex_hpl).symm
    have hid : exPlan.2.2.2.1 = some (exNum 9) := by decide +kernel
    rw [← hid]
    exact hplan
  · have h1 : exPlan.1.getItem (k "timeout") = none := by decide +kernel
    have h2 : exPlan.2.2.1.timeoutNs = 5000000000 := by decide +kernel
    rw [h1, h2]
    rfl

end Cjet.Props.C11
