import Cjet.Lemmas.Bufread
/-!
The two concrete framings against their direct statements: `Spec.run (rawPeer ok)` is `Raw.frames`,
`Spec.run (lineClient d ok)` is `Lines.split`; `be32`/`be` round trip; whole frames in front of a stream.
-/
namespace Cjet.Bufread

/-! ## raw framing -/

theorem raw_len_short {ok : Bytes → Bool} {cap : Nat} {str : Bytes} {t : Terminal} (hcap : 4 ≤ cap)
    (h : str.length < 4) : Spec.run (rawPeer ok) cap .len str t = ([], .ofTerminal t) := by
  apply Spec.run_needMore
  simp only [rawPeer, Spec.next]
  rw [if_neg (by omega), if_neg (by omega)]

theorem raw_len_next {ok : Bytes → Bool} {cap : Nat} {str : Bytes} (hcap : 4 ≤ cap) (h : ¬ str.length < 4) :
    Spec.next cap ((rawPeer ok).want .len) str = .take 4 := by
  simp only [rawPeer, Spec.next]
  rw [if_neg (by omega), if_pos (by omega)]

theorem raw_len_zero {ok : Bytes → Bool} {cap : Nat} {str : Bytes} {t : Terminal} (hcap : 4 ≤ cap)
    (h : ¬ str.length < 4) (hz : be (str.take 4) = 0) :
    Spec.run (rawPeer ok) cap .len str t =
      prepend [(.len, str.take 4)] (Spec.run (rawPeer ok) cap .len (str.drop 4) t) := by
  rw [Spec.run_take (raw_len_next hcap h) (by omega)]
  simp [rawPeer, hz]

theorem raw_len_some {ok : Bytes → Bool} {cap : Nat} {str : Bytes} {t : Terminal} (hcap : 4 ≤ cap)
    (h : ¬ str.length < 4) (hz : ¬ be (str.take 4) = 0) :
    Spec.run (rawPeer ok) cap .len str t =
      prepend [(.len, str.take 4)] (Spec.run (rawPeer ok) cap (.msg (be (str.take 4))) (str.drop 4) t) := by
  rw [Spec.run_take (raw_len_next hcap h) (by omega)]
  simp [rawPeer, hz]

theorem raw_msg_tooMuch {ok : Bytes → Bool} {cap n : Nat} {body : Bytes} {t : Terminal} (h : cap < n) :
    Spec.run (rawPeer ok) cap (.msg n) body t = ([], .tooMuch) := by
  apply Spec.run_tooMuch
  simp only [rawPeer, Spec.next]
  rw [if_pos h]

theorem raw_msg_short {ok : Bytes → Bool} {cap n : Nat} {body : Bytes} {t : Terminal} (h : ¬ cap < n)
    (hs : body.length < n) : Spec.run (rawPeer ok) cap (.msg n) body t = ([], .ofTerminal t) := by
  apply Spec.run_needMore
  simp only [rawPeer, Spec.next]
  rw [if_neg h, if_neg (by omega)]

theorem raw_msg_next {ok : Bytes → Bool} {cap n : Nat} {body : Bytes} (h : ¬ cap < n) (hs : ¬ body.length < n) :
    Spec.next cap ((rawPeer ok).want (.msg n)) body = .take n := by
  simp only [rawPeer, Spec.next]
  rw [if_neg h, if_pos (by omega)]

theorem raw_msg_ok {ok : Bytes → Bool} {cap n : Nat} {body : Bytes} {t : Terminal} (h0 : ¬ n = 0) (h : ¬ cap < n)
    (hs : ¬ body.length < n) (hok : ok (body.take n) = true) :
    Spec.run (rawPeer ok) cap (.msg n) body t =
      prepend [(.msg n, body.take n)] (Spec.run (rawPeer ok) cap .len (body.drop n) t) := by
  rw [Spec.run_take (raw_msg_next h hs) h0]
  simp [rawPeer, hok]

theorem raw_msg_refused {ok : Bytes → Bool} {cap n : Nat} {body : Bytes} {t : Terminal} (h0 : ¬ n = 0)
    (h : ¬ cap < n) (hs : ¬ body.length < n) (hok : ¬ ok (body.take n) = true) :
    Spec.run (rawPeer ok) cap (.msg n) body t = ([(.msg n, body.take n)], .clientClosed) := by
  rw [Spec.run_take (raw_msg_next h hs) h0]
  simp [rawPeer, hok]

theorem raw_spec_frames {ok : Bytes → Bool} {cap : Nat} (hcap : 4 ≤ cap) (str : Bytes) (t : Terminal) :
    (rawMessages (Spec.run (rawPeer ok) cap .len str t).1, (Spec.run (rawPeer ok) cap .len str t).2) =
      Raw.frames cap ok str t := by
  fun_induction Raw.frames cap ok str t with
  | case1 str h4 =>
    rw [raw_len_short hcap h4]; rfl
  | case2 str h4 n body hz ih =>
    rw [raw_len_zero hcap h4 hz]
    simpa [prepend, rawMessages] using ih
  | case3 str h4 n hz hbig =>
    rw [raw_len_some hcap h4 hz, raw_msg_tooMuch hbig]
    rfl
  | case4 str h4 n body hz hbig hshort =>
    rw [raw_len_some hcap h4 hz, raw_msg_short hbig hshort]
    rfl
  | case5 str h4 n body hz hbig hshort hok r ih =>
    rw [raw_len_some hcap h4 hz, raw_msg_ok hz hbig hshort hok]
    simp only [prepend, List.cons_append, List.nil_append, rawMessages]
    show _ = (_ :: (Raw.frames cap ok (List.drop n body) t).1, (Raw.frames cap ok (List.drop n body) t).2)
    rw [← ih]
  | case6 str h4 n body hz hbig hshort hok =>
    rw [raw_len_some hcap h4 hz, raw_msg_refused hz hbig hshort hok]
    rfl

/-! ## be32 / be -/

theorem be_be32 {n : Nat} (h : n < 4294967296) : be (be32 n) = n := by
  simp only [be, be32, List.foldl_cons, List.foldl_nil, UInt8.toNat_ofNat']
  omega

theorem be32_length (n : Nat) : (be32 n).length = 4 := rfl

theorem Raw.frames_zero {ok : Bytes → Bool} {cap : Nat} (post : Bytes) (t : Terminal) :
    Raw.frames cap ok (be32 0 ++ post) t = Raw.frames cap ok post t := by
  rw [Raw.frames]
  have h4 : ¬ (be32 0 ++ post).length < 4 := by simp [be32_length]
  have ht : (be32 0 ++ post).take 4 = be32 0 := by simp [be32]
  have hd : (be32 0 ++ post).drop 4 = post := by simp [be32]
  simp only [h4, dite_false, ht, hd, be_be32 (by omega : 0 < 4294967296), if_true]

theorem Raw.frames_tooLong {ok : Bytes → Bool} {cap n : Nat} (hn : cap < n) (h32 : n < 4294967296)
    (post : Bytes) (t : Terminal) : Raw.frames cap ok (be32 n ++ post) t = ([], .tooMuch) := by
  rw [Raw.frames]
  have h4 : ¬ (be32 n ++ post).length < 4 := by simp [be32_length]
  have ht : (be32 n ++ post).take 4 = be32 n := by simp [be32]
  have h0 : ¬ n = 0 := by omega
  simp only [h4, dite_false, ht, be_be32 h32, h0, if_false, hn, if_true]

theorem Raw.frames_frame {ok : Bytes → Bool} {cap : Nat} {m : Bytes} (hm : m ≠ []) (hc : m.length ≤ cap)
    (h32 : m.length < 4294967296) (post : Bytes) (t : Terminal) :
    Raw.frames cap ok (be32 m.length ++ m ++ post) t =
      if ok m then (m :: (Raw.frames cap ok post t).1, (Raw.frames cap ok post t).2)
      else ([m], .clientClosed) := by
  rw [Raw.frames]
  have h4 : ¬ (be32 m.length ++ m ++ post).length < 4 := by simp [be32_length]
  have ht : (be32 m.length ++ m ++ post).take 4 = be32 m.length := by simp [be32]
  have hd : (be32 m.length ++ m ++ post).drop 4 = m ++ post := by simp [be32]
  have h0 : ¬ m.length = 0 := by
    intro h; apply hm; exact List.eq_nil_of_length_eq_zero h
  have hbig : ¬ cap < m.length := by omega
  have hshort : ¬ (m ++ post).length < m.length := by simp
  have htk : (m ++ post).take m.length = m := by simp
  have hdr : (m ++ post).drop m.length = post := by simp
  simp only [h4, dite_false, ht, hd, be_be32 h32, h0, if_false, hbig, hshort, htk, hdr]

theorem Raw.frames_whole {ok : Bytes → Bool} {cap : Nat} {pre : Bytes} {ms : List Bytes}
    (hw : Raw.Whole cap ok pre ms) (x : Bytes) (t : Terminal) :
    Raw.frames cap ok (pre ++ x) t = (ms ++ (Raw.frames cap ok x t).1, (Raw.frames cap ok x t).2) := by
  induction hw with
  | nil => simp
  | zero _ ih => rw [List.append_assoc, Raw.frames_zero, ih]
  | frame m hm hc h32 hok _ ih =>
    rw [List.append_assoc, Raw.frames_frame hm hc h32, hok, if_pos rfl, ih]
    simp

/-! ## lines -/

theorem line_spec_split {d : Bytes} {ok : Bytes → Bool} {cap : Nat} (str : Bytes) (t : Terminal) :
    ((Spec.run (lineClient d ok) cap () str t).1.map (·.2), (Spec.run (lineClient d ok) cap () str t).2) =
      Lines.split cap d ok str t := by
  fun_induction Lines.split cap d ok str t with
  | case1 str i hf h0 =>
    have hn : Spec.next cap ((lineClient d ok).want ()) str = .take 0 := by
      simp only [lineClient, Spec.next, hf, h0]
    rw [Spec.run_take_zero hn]; rfl
  | case2 str i hf h0 hok r ih =>
    have hn : Spec.next cap ((lineClient d ok).want ()) str = .take (i + d.length) := by
      simp only [lineClient, Spec.next, hf]
    rw [Spec.run_take hn h0]
    have hd : ((lineClient d ok).deliver () (List.take (i + d.length) str)) = ((), false) := by
      simp [lineClient, hok]
    rw [hd]
    simp only [Bool.false_eq_true, if_false, prepend, List.cons_append, List.nil_append, List.map_cons]
    show _ = (_ :: (Lines.split cap d ok (List.drop (i + d.length) str) t).1,
      (Lines.split cap d ok (List.drop (i + d.length) str) t).2)
    rw [← ih]
  | case3 str i hf h0 hok =>
    have hn : Spec.next cap ((lineClient d ok).want ()) str = .take (i + d.length) := by
      simp only [lineClient, Spec.next, hf]
    rw [Spec.run_take hn h0]
    have : ok (List.take (i + d.length) str) = false := by simpa using hok
    simp [lineClient, this]
  | case4 str hf hfull =>
    have hn : Spec.next cap ((lineClient d ok).want ()) str = .tooMuch := by
      simp only [lineClient, Spec.next, hf, hfull, if_true]
    rw [Spec.run_tooMuch hn]; rfl
  | case5 str hf hfull =>
    have hn : Spec.next cap ((lineClient d ok).want ()) str = .needMore := by
      simp only [lineClient, Spec.next, hf, hfull, if_false]
    rw [Spec.run_needMore hn]; rfl

end Cjet.Bufread
