import Cjet.Bufwrite
/-! Helper lemmas for `Cjet.Props.C10` (write side of buffered_socket.c). -/
namespace Cjet.Bufwrite

variable {α : Type}

theorem sendLoop_spec (orig : List α) (ks : List KW) (rem : List α) :
    ((sendLoop orig ks rem).w.failed = false →
        (sendLoop orig ks rem).rc = 0 ∧ (sendLoop orig ks rem).out ++ (sendLoop orig ks rem).w.pending = rem) ∧
    ((sendLoop orig ks rem).w.failed = true →
        (sendLoop orig ks rem).rc = -1 ∧ ∃ t, (sendLoop orig ks rem).out ++ t = rem) ∧
    (sendLoop orig ks rem).w.pending.length ≤ rem.length := by
  fun_induction sendLoop orig ks rem with
  | case1 ks => simp
  | case2 a rem => simp
  | case3 k ks a rem n hk r ih =>
    obtain ⟨h1, h2, h3⟩ := ih
    refine ⟨fun hf => ?_, fun hf => ?_, ?_⟩
    · obtain ⟨e1, e2⟩ := h1 hf
      exact ⟨e1, by show (List.take n (a :: rem) ++ r.out) ++ r.w.pending = a :: rem
                    rw [List.append_assoc, e2, List.take_append_drop]⟩
    · obtain ⟨e1, t, e2⟩ := h2 hf
      exact ⟨e1, t, by show (List.take n (a :: rem) ++ r.out) ++ t = a :: rem
                       rw [List.append_assoc, e2, List.take_append_drop]⟩
    · show r.w.pending.length ≤ (a :: rem).length
      have : (List.drop n (a :: rem)).length ≤ (a :: rem).length := by
        rw [List.length_drop]; omega
      exact Nat.le_trans h3 this
  | case4 k ks a rem hk => simp
  | case5 k ks a rem hk =>
    refine ⟨by simp, by simp, ?_⟩
    show (List.take (a :: rem).length orig).length ≤ (a :: rem).length
    rw [List.length_take]; omega

theorem res_took_pos {k : KW} {m n : Nat} (hk : k.ok = true) (hm : 0 < m) (h : k.res m = .took n) :
    1 ≤ n ∧ n ≤ m := by
  cases k with
  | all => simp [KW.res] at h; omega
  | part j => simp [KW.res] at h; simp [KW.ok] at hk; omega
  | block => simp [KW.res] at h
  | err => simp [KW.res] at h

theorem res_took_le {k : KW} {m n : Nat} (h : k.res m = .took n) : n ≤ m := by
  cases k with
  | all => simp [KW.res] at h; omega
  | part j => simp [KW.res] at h; omega
  | block => simp [KW.res] at h
  | err => simp [KW.res] at h

/-- Under the kernel contract the loop of `send_buffer` makes at most one kernel call per
    pending byte, however long the answer script is. -/
theorem sendLoop_calls (orig : List α) (ks : List KW) (rem : List α) (hks : ∀ k ∈ ks, k.ok = true) :
    (sendLoop orig ks rem).calls ≤ rem.length := by
  fun_induction sendLoop orig ks rem with
  | case1 ks => simp
  | case2 a rem => simp
  | case3 k ks a rem n hk r ih =>
    have hk' := res_took_pos (hks k (by simp)) (by simp) hk
    have ih' : r.calls ≤ (List.drop n (a :: rem)).length := ih (fun k' hk'' => hks k' (by simp [hk'']))
    show r.calls + 1 ≤ (a :: rem).length
    have : (List.drop n (a :: rem)).length = (a :: rem).length - n := List.length_drop
    have h0 : 0 < (a :: rem).length := by simp
    omega
  | case4 k ks a rem hk => simp
  | case5 k ks a rem hk => simp

/-- Every kernel call consumes one answer (or the implicit would-block after the script ended). -/
theorem sendLoop_consumes (orig : List α) (ks : List KW) (rem : List α) :
    (sendLoop orig ks rem).rest.length + (sendLoop orig ks rem).calls ≤ ks.length + 1 := by
  fun_induction sendLoop orig ks rem with
  | case1 ks => simp
  | case2 a rem => simp
  | case3 k ks a rem n hk r ih =>
    have ih' : r.rest.length + r.calls ≤ ks.length + 1 := ih
    show r.rest.length + (r.calls + 1) ≤ (k :: ks).length + 1
    simp only [List.length_cons]; omega
  | case4 k ks a rem hk => simp
  | case5 k ks a rem hk => simp

/-- After the size check the element-wise copy cannot refuse and queues exactly the unsent
    tail of the frame. -/
theorem copyIovec_spec (cap : Nat) (buf : List α) (cs : List (List α)) (ivw : Nat)
    (h : buf.length + (cs.flatten.length - ivw) ≤ cap) :
    copyIovec cap buf cs ivw = (buf ++ cs.flatten.drop ivw, true) := by
  induction cs generalizing buf ivw with
  | nil => simp [copyIovec]
  | cons c cs ih =>
    simp only [List.flatten_cons, List.length_append] at h
    unfold copyIovec
    by_cases hlt : ivw < c.length
    · have h1 : ¬ ((c.drop ivw).length > cap - buf.length) := by
        rw [List.length_drop]; omega
      simp only [hlt, if_true, h1, if_false]
      rw [ih]
      · simp only [List.flatten_cons, List.drop_zero, List.append_assoc]
        rw [List.drop_append_of_le_length (Nat.le_of_lt hlt)]
      · simp only [List.length_append, List.length_drop]; omega
    · simp only [hlt, if_false]
      rw [ih]
      · simp only [List.flatten_cons]
        rw [List.drop_append]
        have : c.drop ivw = [] := List.drop_eq_nil_of_le (Nat.le_of_not_lt hlt)
        rw [this]; simp
      · omega

/-- The per-element free-space check keeps the buffer within its capacity in every case. -/
theorem copyIovec_le (cap : Nat) (buf : List α) (cs : List (List α)) (ivw : Nat) (h : buf.length ≤ cap) :
    (copyIovec cap buf cs ivw).1.length ≤ cap := by
  induction cs generalizing buf ivw with
  | nil => simpa [copyIovec] using h
  | cons c cs ih =>
    unfold copyIovec
    by_cases hlt : ivw < c.length
    · simp only [hlt, if_true]
      by_cases h1 : (c.drop ivw).length > cap - buf.length
      · simp only [h1, if_true]; exact h
      · simp only [h1, if_false]
        apply ih
        simp only [List.length_append]; omega
    · simp only [hlt, if_false]
      exact ih _ _ h

/-- What one operation guarantees when it was asked to send `extra` behind `w.pending`. -/
structure Post (cap : Nat) (w : Writer α) (extra : List α) (r : Res α) : Prop where
  /-- success: everything is either at the kernel or queued, in order -/
  ok : r.rc = 0 → r.w.failed = false ∧ r.out ++ r.w.pending = w.pending ++ extra
  /-- failure on a live connection: nothing of `extra` was sent or queued -/
  refused : r.rc ≠ 0 → r.w.failed = false → r.out ++ r.w.pending = w.pending
  /-- the connection was marked failed: failure is reported, what the kernel got is a prefix -/
  dead : r.w.failed = true → r.rc ≠ 0 ∧ ∃ t, r.out ++ t = w.pending ++ extra
  /-- the write buffer never holds more than its capacity -/
  le : w.pending.length ≤ cap → r.w.pending.length ≤ cap

theorem sendBuffer_post (cap : Nat) (w : Writer α) (ks : List KW) (hw : w.failed = false) :
    Post cap w [] (sendBuffer w ks) := by
  unfold sendBuffer
  simp only [hw, Bool.false_eq_true, if_false]
  obtain ⟨h1, h2, h3⟩ := sendLoop_spec w.pending ks w.pending
  refine ⟨fun h0 => ?_, fun h0 hf => ?_, fun hf => ?_, fun hc => Nat.le_trans h3 hc⟩
  · cases hf : (sendLoop w.pending ks w.pending).w.failed with
    | false => exact ⟨rfl, by simpa using (h1 hf).2⟩
    | true => have := (h2 hf).1; omega
  · have := (h1 hf).1; omega
  · obtain ⟨e, t, ht⟩ := h2 hf
    exact ⟨by omega, t, by simpa using ht⟩

/-- `send_buffer` on a live connection reports failure only by marking it failed. -/
theorem sendBuffer_rc_of_live (w : Writer α) (ks : List KW) (hf : (sendBuffer w ks).w.failed = false) :
    (sendBuffer w ks).rc = 0 := by
  unfold sendBuffer at hf ⊢
  by_cases hw : w.failed = true
  · simp [hw] at hf
  · simp only [hw] at hf ⊢
    exact ((sendLoop_spec w.pending ks w.pending).1 hf).1

theorem writev_post (cap : Nat) (w : Writer α) (f : List (List α)) (ks : List KW) (hw : w.failed = false) :
    Post cap w f.flatten (writev cap w f ks) := by
  unfold writev
  simp only [hw, Bool.false_eq_true, if_false]
  generalize nextAnswer ks = p
  obtain ⟨k, ks'⟩ := p
  simp only []
  by_cases ht : (w.pending ++ f.flatten).length = 0
  · simp only [ht, if_true]
    have hnil : w.pending ++ f.flatten = [] := List.eq_nil_of_length_eq_zero ht
    exact ⟨fun _ => ⟨rfl, by simp [hnil]⟩, fun h => absurd rfl h, fun h => by simp at h, by simp⟩
  · simp only [ht, if_false]
    cases hk : k.res (w.pending ++ f.flatten).length with
    | fail =>
      exact ⟨fun h => by simp at h, fun _ _ => by simp, fun h => by simp [hw] at h, fun hc => hc⟩
    | took n =>
      have hn := res_took_le hk
      simp only []
      by_cases hfull : n = (w.pending ++ f.flatten).length
      · simp only [hfull, if_true]
        exact ⟨fun _ => ⟨rfl, by simp⟩, fun h => absurd rfl h, fun h => by simp at h, by simp⟩
      · simp only [hfull, if_false]
        by_cases hbig : (w.pending ++ f.flatten).length - n > cap
        · simp only [hbig, if_true]
          refine ⟨fun h => by simp at h, fun _ hf => ?_, fun _ => ⟨by simp, (w.pending ++ f.flatten).drop n, ?_⟩, ?_⟩
          · have hle : n ≤ w.pending.length := by
              simp only [decide_eq_false_iff_not] at hf; omega
            show List.take n (w.pending ++ f.flatten) ++ List.drop n w.pending = w.pending
            rw [List.take_append_of_le_length hle, List.take_append_drop]
          · exact List.take_append_drop _ _
          · intro hc
            show (List.drop n w.pending).length ≤ cap
            rw [List.length_drop]; omega
        · simp only [hbig, if_false]
          have hlen : (w.pending ++ f.flatten).length = w.pending.length + f.flatten.length := List.length_append
          rw [copyIovec_spec cap (w.pending.drop n) f (n - w.pending.length)
            (by rw [List.length_drop]; omega)]
          simp only []
          have hsplit : List.take n (w.pending ++ f.flatten) ++
              (List.drop n w.pending ++ List.drop (n - w.pending.length) f.flatten) = w.pending ++ f.flatten := by
            rw [← List.drop_append, List.take_append_drop]
          have hb := sendBuffer_post cap ⟨List.drop n w.pending ++ List.drop (n - w.pending.length) f.flatten, false⟩
            ks' rfl
          refine ⟨fun h0 => ?_, fun h0 hf => ?_, fun hf => ?_,
            fun _ => hb.le (by simp only [List.length_append, List.length_drop]; omega)⟩
          · obtain ⟨e1, e2⟩ := hb.ok h0
            refine ⟨e1, ?_⟩
            simp only [List.append_nil] at e2
            simp only [List.append_assoc]
            rw [e2]; exact hsplit
          ·             exact absurd (sendBuffer_rc_of_live _ _ hf) h0
          · obtain ⟨e1, t, e2⟩ := hb.dead hf
            refine ⟨e1, t, ?_⟩
            simp only [List.append_nil] at e2
            simp only [List.append_assoc]
            rw [e2]; exact hsplit
    | again =>
      simp only []
      by_cases hbig : (w.pending ++ f.flatten).length > cap
      · simp only [hbig, if_true]
        exact ⟨fun h => by simp at h, fun _ _ => by simp, fun h => by simp [hw] at h, fun hc => hc⟩
      · simp only [hbig, if_false]
        have hlen : (w.pending ++ f.flatten).length = w.pending.length + f.flatten.length := List.length_append
        rw [copyIovec_spec cap w.pending f 0 (by omega)]
        simp only [List.drop_zero]
        exact ⟨fun _ => ⟨rfl, by simp⟩, fun h => absurd rfl h, fun h => by simp at h,
          fun _ => by show (w.pending ++ f.flatten).length ≤ cap; omega⟩

theorem writev_of_failed (cap : Nat) (w : Writer α) (f : List (List α)) (ks : List KW) (hw : w.failed = true) :
    writev cap w f ks = ⟨w, -1, [], ks, 0⟩ := by
  unfold writev; simp [hw]

theorem sendBuffer_of_failed (w : Writer α) (ks : List KW) (hw : w.failed = true) :
    sendBuffer w ks = ⟨w, -1, [], ks, 0⟩ := by
  unfold sendBuffer; simp [hw]

theorem nextAnswer_ok (ks : List KW) (h : ∀ k ∈ ks, k.ok = true) :
    (nextAnswer ks).1.ok = true ∧ ∀ k ∈ (nextAnswer ks).2, k.ok = true := by
  cases ks with
  | nil => simp [nextAnswer, KW.ok]
  | cons k ks => exact ⟨h k (by simp), fun k' hk' => h k' (List.mem_cons_of_mem _ hk')⟩

theorem sendBuffer_calls (w : Writer α) (ks : List KW) (hks : ∀ k ∈ ks, k.ok = true) :
    (sendBuffer w ks).calls ≤ w.pending.length := by
  unfold sendBuffer
  by_cases hw : w.failed = true
  · simp [hw]
  · simp only [hw]
    exact sendLoop_calls _ _ _ hks

/-- Under the kernel contract `buffered_socket_writev` makes at most one kernel call per byte it
    was asked to move (pending + frame). -/
theorem writev_calls (cap : Nat) (w : Writer α) (f : List (List α)) (ks : List KW) (hks : ∀ k ∈ ks, k.ok = true) :
    (writev cap w f ks).calls ≤ (w.pending ++ f.flatten).length := by
  cases hw : w.failed with
  | true => rw [writev_of_failed cap w f ks hw]; exact Nat.zero_le _
  | false =>
    unfold writev
    simp only [hw, Bool.false_eq_true, if_false]
    obtain ⟨hk1, hk2⟩ := nextAnswer_ok ks hks
    generalize nextAnswer ks = p at hk1 hk2
    obtain ⟨k, ks'⟩ := p
    simp only [] at hk1 hk2 ⊢
    by_cases ht : (w.pending ++ f.flatten).length = 0
    · simp [ht]
    · simp only [ht, if_false]
      have hpos : 1 ≤ (w.pending ++ f.flatten).length := Nat.pos_of_ne_zero ht
      have hlen : (w.pending ++ f.flatten).length = w.pending.length + f.flatten.length := List.length_append
      cases hk : k.res (w.pending ++ f.flatten).length with
      | fail => exact hpos
      | again =>
        simp only []
        by_cases hbig : (w.pending ++ f.flatten).length > cap
        · simp only [hbig, if_true]; exact hpos
        · simp only [hbig, if_false]
          rw [copyIovec_spec cap w.pending f 0 (by omega)]
          exact hpos
      | took n =>
        obtain ⟨hn1, hn2⟩ := res_took_pos hk1 hpos hk
        simp only []
        by_cases hfull : n = (w.pending ++ f.flatten).length
        · simp only [hfull, if_true]; exact hpos
        · simp only [hfull, if_false]
          by_cases hbig : (w.pending ++ f.flatten).length - n > cap
          · simp only [hbig, if_true]; exact hpos
          · simp only [hbig, if_false]
            rw [copyIovec_spec cap (w.pending.drop n) f (n - w.pending.length)
              (by rw [List.length_drop]; omega)]
            simp only []
            have := sendBuffer_calls ⟨List.drop n w.pending ++ List.drop (n - w.pending.length) f.flatten, false⟩ ks' hk2
            simp only [List.length_append, List.length_drop] at this
            omega

theorem streamOf_append (cs : List (List (List α))) (f : List (List α)) :
    streamOf (cs ++ [f]) = streamOf cs ++ f.flatten := by
  simp [streamOf]

/-- Invariant of a whole history. -/
structure Inv (cap : Nat) (r : Run α) : Prop where
  le : r.w.pending.length ≤ cap
  live : r.w.failed = false → r.accepted ++ r.w.pending = streamOf r.completed
  dead : r.w.failed = true → ∃ t, r.accepted ++ t = streamOf r.completed ++ r.torn.flatten

theorem inv_init (cap : Nat) : Inv cap ({} : Run α) :=
  ⟨by simp, fun _ => by simp [streamOf], fun h => by simp at h⟩

theorem inv_step (cap : Nat) (r : Run α) (op : Op α) (h : Inv cap r) : Inv cap (step cap r op) := by
  cases op with
  | writev f ks =>
    cases hw : r.w.failed with
    | true =>
      simp only [step, writev_of_failed cap r.w f ks hw, hw]
      exact ⟨h.le, fun hf => by simp [hw] at hf, fun _ => by simpa using h.dead hw⟩
    | false =>
      have post := writev_post cap r.w f ks hw
      have hlive := h.live hw
      simp only [step, hw]
      refine ⟨post.le h.le, fun hf => ?_, fun hf => ?_⟩
      · by_cases h0 : (writev cap r.w f ks).rc = 0
        · simp only [h0, if_true]
          rw [streamOf_append, ← hlive, List.append_assoc, (post.ok h0).2, List.append_assoc]
        · simp only [h0, if_false]
          rw [List.append_assoc, post.refused h0 hf, hlive]
      · have hf' : (writev cap r.w f ks).w.failed = true := hf
        obtain ⟨h0, t, ht⟩ := post.dead hf'
        simp only [h0, if_false, hf', Bool.not_false, Bool.and_self, if_true]
        exact ⟨t, by
          show r.accepted ++ (writev cap r.w f ks).out ++ t = streamOf r.completed ++ f.flatten
          rw [List.append_assoc, ht, ← List.append_assoc, hlive]⟩
  | writable ks =>
    cases hw : r.w.failed with
    | true =>
      simp only [step, writable, sendBuffer_of_failed r.w ks hw]
      exact ⟨h.le, fun hf => by simp [hw] at hf, fun _ => by simpa using h.dead hw⟩
    | false =>
      have post := sendBuffer_post cap r.w ks hw
      have hlive := h.live hw
      simp only [step, writable]
      refine ⟨post.le h.le, fun hf => ?_, fun hf => ?_⟩
      · have h0 := sendBuffer_rc_of_live _ _ hf
        have := (post.ok h0).2
        simp only [List.append_nil] at this
        show r.accepted ++ (sendBuffer r.w ks).out ++ (sendBuffer r.w ks).w.pending = streamOf r.completed
        rw [List.append_assoc, this, hlive]
      · obtain ⟨_, t, ht⟩ := post.dead hf
        simp only [List.append_nil] at ht
        exact ⟨t ++ r.torn.flatten, by
          show r.accepted ++ (sendBuffer r.w ks).out ++ (t ++ r.torn.flatten) = streamOf r.completed ++ r.torn.flatten
          rw [List.append_assoc, ← List.append_assoc (sendBuffer r.w ks).out, ht, ← List.append_assoc, hlive]⟩

theorem inv_foldl (cap : Nat) (ops : List (Op α)) (r : Run α) (h : Inv cap r) :
    Inv cap (ops.foldl (step cap) r) := by
  induction ops generalizing r with
  | nil => exact h
  | cons op ops ih => exact ih _ (inv_step cap r op h)

theorem inv_run (cap : Nat) (ops : List (Op α)) : Inv cap (run cap ops) :=
  inv_foldl cap ops _ (inv_init cap)

theorem completed_sublist (cap : Nat) (ops : List (Op α)) (r : Run α) :
    ∃ x, x.Sublist (offered ops) ∧ (ops.foldl (step cap) r).completed = r.completed ++ x := by
  induction ops generalizing r with
  | nil => exact ⟨[], List.Sublist.refl _, by simp⟩
  | cons op ops ih =>
    obtain ⟨x, hx, he⟩ := ih (step cap r op)
    cases op with
    | writable ks =>
      exact ⟨x, hx, by simpa [step, writable] using he⟩
    | writev f ks =>
      by_cases h0 : (writev cap r.w f ks).rc = 0
      · refine ⟨f :: x, List.Sublist.cons_cons f hx, ?_⟩
        rw [List.foldl_cons, he]; simp [step, h0]
      · refine ⟨x, List.Sublist.cons f hx, ?_⟩
        rw [List.foldl_cons, he]; simp [step, h0]

theorem length_streamOf (cs : List (List (List α))) : (streamOf cs).length = (cs.map frameLen).sum := by
  induction cs with
  | nil => simp [streamOf]
  | cons c cs ih =>
    simp only [streamOf, List.map_cons, List.flatten_cons, List.length_append, List.sum_cons] at ih ⊢
    rw [ih]; rfl

theorem step_of_failed (cap : Nat) (r : Run α) (op : Op α) (h : r.w.failed = true) :
    (step cap r op).w = r.w ∧ (step cap r op).accepted = r.accepted ∧ (step cap r op).completed = r.completed := by
  cases op with
  | writev f ks => simp [step, writev_of_failed cap r.w f ks h]
  | writable ks => simp [step, writable, sendBuffer_of_failed r.w ks h]

end Cjet.Bufwrite
