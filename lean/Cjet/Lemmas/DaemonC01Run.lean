/-
  C01 — executions: life time of a fetch, the replica along an execution, silence,
  single-object messages, refused add, unfetch.
-/
import Cjet.Lemmas.DaemonC01Exec

namespace Cjet.Daemon.C01

open Cjet Cjet.Json Cjet.Daemon

/-! ## along an execution -/

theorem Exec.uidMono {cfg : Config} {s s' : State} {tr : List (List Obs × State)} (h : Exec cfg s tr s')
    (inv : Inv cfg s) : s.nextUid ≤ s'.nextUid := by
  induction h with
  | nil => exact Nat.le_refl _
  | cons ha _ ih =>
    have ok := atom_ok inv ha
    exact Nat.le_trans ok.uidMono (ih ok.inv)

/-- a fetch with an old uid that exists at the end existed all the time -/
theorem Exec.fetch_back {cfg : Config} {s s' : State} {tr : List (List Obs × State)} (h : Exec cfg s tr s')
    (inv : Inv cfg s) {c : Nat} {f : Fetch} (hl : HasFetch s' c f) (hu : f.uid < s.nextUid) : HasFetch s c f := by
  induction h with
  | nil => exact hl
  | cons ha _ ih =>
    have ok := atom_ok inv ha
    have h1 := ih ok.inv hl (Nat.lt_of_lt_of_le hu ok.uidMono)
    rcases ok.fresh c f h1 with h2 | ⟨h2, _⟩
    · exact h2
    · omega

theorem Alive.uidLt {cfg : Config} {s : State} (inv : Inv cfg s) {c pg : Nat} {f : Fetch}
    (h : Alive s c pg f) : f.uid < s.nextUid := by
  obtain ⟨p, hp, _, _, hf⟩ := h
  exact inv.fetches.uidLt p hp f hf

/-- the replica of a fetch that lives through an execution -/
theorem Exec.replica {cfg : Config} {s s' : State} {tr : List (List Obs × State)} (h : Exec cfg s tr s')
    (inv : Inv cfg s) {c pg : Nat} {f : Fetch} (ha : Alive s c pg f) (hl : HasFetch s' c f) :
    Alive s' c pg f ∧ RStep cfg s s' (notifs (obsOf tr)) c f.fid pg f.rule := by
  induction h with
  | nil =>
    refine ⟨ha, ?_⟩
    intro r hr
    exact ⟨r, rfl, hr⟩
  | @cons s s1 s2 o tr hat hex ih =>
    have ok := atom_ok inv hat
    have hu := ha.uidLt inv
    have h1 : HasFetch s1 c f := hex.fetch_back ok.inv hl (Nat.lt_of_lt_of_le hu ok.uidMono)
    have ha1 : Alive s1 c pg f := ok.stable c pg f ha h1
    obtain ⟨ha2, r2⟩ := ih ok.inv ha1 hl
    refine ⟨ha2, ?_⟩
    have : notifs (obsOf ((o, s1) :: tr)) = notifs o ++ notifs (obsOf tr) := by
      simp [obsOf, notifs_append]
    rw [this]
    exact (ok.rstep c pg f ha ha1).trans r2

theorem pick_nil_of_origin {s s' : State} {ns : List (Nat × Notif)} {c : Nat} {fid : Json}
    (ho : ∀ cn ∈ ns, HasFid s cn.1 cn.2.fid ∨ HasFid s' cn.1 cn.2.fid)
    (h1 : ¬ HasFid s c fid) (h2 : ¬ HasFid s' c fid) : pick c fid ns = [] := by
  unfold pick
  rw [List.filterMap_eq_nil_iff]
  intro cn hcn
  split
  · next hc =>
    simp only [Bool.and_eq_true, beq_iff_eq] at hc
    exfalso
    rcases ho cn hcn with ⟨p, hp, hpc, g, hg, hi⟩ | ⟨p, hp, hpc, g, hg, hi⟩
    · exact h1 ⟨p, hp, hpc.trans hc.1, g, hg, idsEqual_trans hi hc.2⟩
    · exact h2 ⟨p, hp, hpc.trans hc.1, g, hg, idsEqual_trans hi hc.2⟩
  · rfl

/-- nothing is emitted for `(c, fid)` while `c` has no fetch with that id -/
theorem Exec.silent {cfg : Config} {s s' : State} {tr : List (List Obs × State)} (h : Exec cfg s tr s')
    (inv : Inv cfg s) {c : Nat} {fid : Json} (h0 : ¬ HasFid s c fid)
    (hall : ∀ t ∈ tr.map (·.2), ¬ HasFid t c fid) : notifsFor c fid (obsOf tr) = [] := by
  induction h with
  | nil => rfl
  | @cons s s1 s2 o tr hat _ ih =>
    have ok := atom_ok inv hat
    have h1 : ¬ HasFid s1 c fid := hall s1 (by simp)
    have hrest := ih ok.inv h1 (fun t ht => hall t (by simp only [List.map_cons, List.mem_cons]; exact Or.inr ht))
    have : obsOf ((o, s1) :: tr) = o ++ obsOf tr := by simp [obsOf]
    rw [this, notifsFor_append, hrest, List.append_nil]
    exact pick_nil_of_origin ok.origin h0 h1

/-! ## closing a connection removes the peer -/

theorem closePeer_gone (x : Ctx) (c : Nat) : ∀ q ∈ (closePeer x c).st.peers, q.conn ≠ c := by
  unfold closePeer
  rw [emit_st, freePeerResources_eq]
  split
  · next hnone =>
    intro q hq hc
    exact findPeer_none_iff.1 hnone (hc ▸ List.mem_map_of_mem (f := (·.conn)) hq)
  · intro q hq
    dsimp only at hq
    have := (List.mem_filter.1 hq).2
    simpa using this

/-! ## a message that is one JSON object -/

/-- a `.message` carrying a single object is one request atom, followed by a close atom exactly
    when the connection is dropped -/
theorem step_single {cfg : Config} {s : State} (inv : Inv cfg s) (c : Nat) (l : List (Bytes × Json)) (o : Oracle)
    (hlive : (findPeer s.peers c).isSome = true) :
    ∃ o1 s1, Atom cfg s o1 s1 ∧
      ((step cfg s (.message c (some (.obj l)) o) = (s1, o1)) ∨
       (∃ o2, Atom cfg s1 o2 (step cfg s (.message c (some (.obj l)) o)).1 ∧
          (step cfg s (.message c (some (.obj l)) o)).2 = o1 ++ o2 ∧
          ∀ q ∈ (step cfg s (.message c (some (.obj l)) o)).1.peers, q.conn ≠ c)) := by
  obtain ⟨new, resp, hout, _, _, _⟩ := (parseJsonRpc_ok (x := mkCtx s o) inv c (.obj l)).shape
  have hout' : (parseJsonRpc cfg (mkCtx s o) c (.obj l)).1.out = (resp ++ new) ++ (mkCtx s o).out := hout
  refine ⟨(resp ++ new).reverse, _, Atom.request (mkCtx s o) c (.obj l) (resp ++ new) hout', ?_⟩
  have hnn : ¬ (findPeer s.peers c).isNone = true := by
    cases h : findPeer s.peers c with
    | none => simp [h] at hlive
    | some p => simp
  unfold step
  dsimp only
  rw [if_neg hnn]
  unfold parseMessage
  dsimp only
  cases hok : (parseJsonRpc cfg (mkCtx s o) c (.obj l)).2
  · right
    have inv1 : Inv cfg (parseJsonRpc cfg (mkCtx s o) c (.obj l)).1.st :=
      (atom_ok inv (Atom.request (mkCtx s o) c (.obj l) (resp ++ new) hout')).inv
    obtain ⟨ns, ⟨new2, hout2, _⟩, _⟩ := closePeer_ok inv1 c
    refine ⟨new2.reverse, ?_, ?_, ?_⟩
    · simp only [Bool.false_eq_true, if_false]
      exact Atom.close _ c new2 hout2
    · simp only [Bool.false_eq_true, if_false]
      rw [hout2, hout']
      simp [mkCtx]
    · simp only [Bool.false_eq_true, if_false]
      exact closePeer_gone _ c
  · left
    simp only [if_true]
    rw [hout']
    simp [mkCtx]

/-! ## refused add -/

/-- the conclusion of `no_spurious_on_rollback` for a handler result -/
def Rollback (_cfg : Config) (x : Ctx) (r : Ctx × Option Json) : Prop :=
  r.1.st = x.st ∧ ∃ ns, Emits x r.1 ns ∧
    ∀ c pg f, Alive x.st c pg f →
      (pick c f.fid ns = [] ∨
       ∃ path v, (∀ e' ∈ allElems x.st, e'.path ≠ path) ∧ pick c f.fid ns =
         [{ fid := f.fid, path := path, event := .add, value := v },
          { fid := f.fid, path := path, event := .remove, value := v }])

theorem Rollback.same (cfg : Config) (x : Ctx) (resp : Option Json) : Rollback cfg x (x, resp) :=
  ⟨rfl, [], Emits.refl x, fun _ _ _ _ => Or.inl rfl⟩

theorem addCore_rollback {cfg : Config} {x : Ctx} (inv : Inv cfg x.st) (p : Peer)
    (req : Json) (path : Bytes) (e : Element) (hkeys : keys e.fetchers = [])
    (hfresh : lookupIndex x.st.index e.path = none) (hfull : x.indexFull = true) :
    Rollback cfg x (addCore cfg x p req path e) := by
  obtain ⟨h1, h2, h3, h4⟩ := findFetchersForElement_spec cfg x e
  have hfull1 : (findFetchersForElement cfg x e).1.indexFull = true := by
    obtain ⟨new, hnew, _⟩ := h4
    rw [findFetchersForElement_eq]
    have : ∀ (l : List (Peer × Fetch)) (acc : Ctx × Element),
        (l.foldl (fun acc pf => offerElement cfg acc.1 acc.2 pf.1 pf.2) acc).1.indexFull = acc.1.indexFull := by
      intro l
      induction l with
      | nil => intro acc; rfl
      | cons pf t ih =>
        intro acc
        rw [List.foldl_cons, ih]
        unfold offerElement
        split
        · rfl
        · split
          · exact send_indexFull _ _ _
          · rfl
    rw [this]
    exact hfull
  unfold addCore
  split
  next x1 e1 heq =>
  rw [heq] at h1 h2 h3 h4 hfull1
  simp only at h1 h2 h3 h4 hfull1
  rw [hkeys, List.append_nil] at h3
  rw [if_pos hfull1]
  obtain ⟨s1, s2⟩ := notifyFetchers_spec x1 e1 .remove
  rw [h1] at s1 s2
  have hvis : ∀ pg r, visible cfg pg r e1 = visible cfg pg r e := by
    intro pg r; rw [h2]; rfl
  have hk' : (keys e1.fetchers).Perm (newKeys cfg x.st.peers e1) := by
    rw [newKeys_congr h2]; exact h3
  have hnew := tblOK_new inv hk'
  refine ⟨s1, _, (h4.trans s2).of_out_eq rfl, ?_⟩
  intro c pg f ha
  obtain ⟨p1, hp1, rfl, rfl, hf, hu, hd, hok⟩ := ha.unpack inv
  rw [pick_append, pick_addNotifs inv.fetches.connNodup hp1 hu hd hf hok e,
    pick_evNotifs inv.fetches.connNodup hp1 hu hd hf hok e1 .remove hnew.nodup]
  by_cases hv : visible cfg p1.fetchGroups f.rule e = true
  · right
    rw [if_pos hv, if_pos ((hnew.char p1 hp1 f hf).2 ((hvis _ _).trans hv))]
    refine ⟨e.path, e.value, no_elem_of_fresh inv hfresh, ?_⟩
    have hp' : e1.path = e.path := by rw [h2]
    have hv' : e1.value = e.value := by rw [h2]
    rw [hp', hv']
    rfl
  · left
    rw [if_neg hv, if_neg (fun h => hv ((hvis _ _).symm.trans ((hnew.char p1 hp1 f hf).1 h)))]
    rfl

theorem addBody_rollback {cfg : Config} {x : Ctx} (inv : Inv cfg x.st) (p : Peer)
    (req params : Json) (path : Bytes) (hfull : x.indexFull = true) :
    Rollback cfg x (addBody cfg x p req params path) := by
  unfold addBody
  dsimp only
  split
  · exact Rollback.same ..
  · split
    · exact Rollback.same ..
    · next hidx =>
      split
      · exact Rollback.same ..
      · refine addCore_rollback inv p req path _ (by simp) ?_ hfull
        cases h : lookupIndex x.st.index path with
        | none => rfl
        | some o => simp [h] at hidx

theorem addElement_rollback {cfg : Config} {x : Ctx} (inv : Inv cfg x.st) (p : Peer) (req : Json)
    (hfull : x.indexFull = true) : Rollback cfg x (addElement cfg x p req) := by
  rw [addElement_eq]
  split
  · exact Rollback.same ..
  · split
    · exact Rollback.same ..
    · split
      · exact addBody_rollback inv p req _ _ hfull
      · exact addBody_rollback inv p req _ _ hfull
      · exact Rollback.same ..

/-! ## unfetch -/

/-- a successful unfetch: the fetch is gone, no fetch of the peer has that id any more, and the
    handler emits nothing -/
theorem unfetchReq_removes {cfg : Config} {x : Ctx} (inv : Inv cfg x.st) {p : Peer} (hp : p ∈ x.st.peers)
    (req : Json) {params fid : Json} (hid : getFetchId req false = .ok params fid)
    (hhas : HasFid x.st p.conn fid) :
    (unfetchReq x p req).2 = successFromRequest req ∧ (unfetchReq x p req).1.out = x.out ∧
    ¬ HasFid (unfetchReq x p req).1.st p.conn fid := by
  obtain ⟨p', hp', hc', g, hg, hi⟩ := hhas
  have : p' = p := eq_of_conn_eq inv.fetches.connNodup hp' hp hc'
  subst this
  unfold unfetchReq
  simp only [hid]
  cases hfind : p'.fetches.find? (fun f => idsEqual f.fid fid) with
  | none =>
    rw [List.find?_eq_none] at hfind
    exact absurd hi (by simpa using hfind g hg)
  | some f =>
    have hfm : f ∈ p'.fetches := List.mem_of_find?_eq_some hfind
    have hfi : idsEqual f.fid fid = true := by simpa using List.find?_some hfind
    refine ⟨rfl, rfl, ?_⟩
    rintro ⟨q', hq', hqc, g', hg', hi'⟩
    simp only at hq'
    rw [dropFetch_eq] at hq'
    obtain ⟨q, hq, rfl⟩ := List.mem_map.1 hq'
    have hqc' : q.conn = p'.conn := by
      unfold dropPeer at hqc
      split at hqc <;> exact hqc
    have : q = p' := eq_of_conn_eq inv.fetches.connNodup hq hp hqc'
    subst this
    unfold dropPeer at hg'
    simp only [beq_self_eq_true, if_true, List.mem_filter] at hg'
    obtain ⟨hg'm, hne⟩ := hg'
    have hsame : idsEqual g'.fid f.fid = true := by
      have h2 : idsEqual fid f.fid = true := by rw [idsEqual_symm]; exact hfi
      exact idsEqual_trans hi' h2
    have := fetch_unique (inv.fetches.fidDistinct q hp) hfm hg'm hsame
    subst this
    simp at hne

/-! ## what a subscriber received -/

/-- the observations without the sends to `c` that failed -/
def recvd (c : Nat) (obs : List Obs) : List Obs :=
  obs.filter (fun o => match o with | .send c' _ ok => c' != c || ok | _ => true)

theorem recvd_eq_of_healthy {c : Nat} {obs : List Obs}
    (h : ∀ j b, Obs.send c j b ∈ obs → b = true) : recvd c obs = obs := by
  unfold recvd
  rw [List.filter_eq_self]
  intro o ho
  cases o with
  | send c' j b =>
    by_cases hc : c' = c
    · subst hc
      simp [h j b ho]
    · simp [hc]
  | _ => rfl

end Cjet.Daemon.C01
