/-
  DaemonC08Dispatch — what the dispatcher does with the requests that matter for access
  control (set, call, get, add, authenticate, passwd), stated as equations.
-/
import Cjet.Lemmas.DaemonC08Step
import Cjet.Lemmas.DaemonC08Groups

namespace Cjet.Daemon.C08

open Cjet Cjet.Json Cjet.Daemon

/-- the method name of a request object -/
def methodOf (req : Json) : Option Bytes :=
  match req.getItem (k "method") with
  | some (.str m) => some m
  | _ => none

theorem parseJsonRpc_method {cfg : Config} {x : Ctx} {c : Nat} {req : Json} {p : Peer} {m : Bytes}
    (hp : findPeer x.st.peers c = some p) (hm : methodOf req = some m) :
    parseJsonRpc cfg x c req = sendResponse (handleMethod cfg x p req m).1 c (handleMethod cfg x p req m).2 := by
  unfold methodOf at hm
  unfold parseJsonRpc
  rw [hp]
  simp only
  cases hg : req.getItem (k "method") with
  | none => rw [hg] at hm; cases hm
  | some v =>
    rw [hg] at hm
    cases v with
    | str m' => simp only at hm; cases hm; rfl
    | null | bool _ | num _ | arr _ | obj _ => cases hm

theorem handleMethod_set (cfg : Config) (x : Ctx) (p : Peer) (req : Json) :
    handleMethod cfg x p req (k "set") = setOrCall cfg x p req true := by
  unfold handleMethod
  rw [if_neg (by decide +kernel), if_pos (by decide +kernel)]

theorem handleMethod_call (cfg : Config) (x : Ctx) (p : Peer) (req : Json) :
    handleMethod cfg x p req (k "call") = setOrCall cfg x p req false := by
  unfold handleMethod
  rw [if_neg (by decide +kernel), if_neg (by decide +kernel), if_pos (by decide +kernel)]

theorem handleMethod_add (cfg : Config) (x : Ctx) (p : Peer) (req : Json) :
    handleMethod cfg x p req (k "add") = addElement cfg x p req := by
  unfold handleMethod
  rw [if_neg (by decide +kernel), if_neg (by decide +kernel), if_neg (by decide +kernel), if_pos (by decide +kernel)]

theorem handleMethod_get (cfg : Config) (x : Ctx) (p : Peer) (req : Json) :
    handleMethod cfg x p req (k "get") = getReq cfg x p req := by
  unfold handleMethod
  rw [if_neg (by decide +kernel), if_neg (by decide +kernel), if_neg (by decide +kernel), if_neg (by decide +kernel),
    if_neg (by decide +kernel), if_neg (by decide +kernel), if_neg (by decide +kernel), if_pos (by decide +kernel)]

theorem handleMethod_authenticate (cfg : Config) (x : Ctx) (p : Peer) (req : Json) :
    handleMethod cfg x p req (k "authenticate") = authenticateReq cfg x p req := by
  unfold handleMethod
  rw [if_neg (by decide +kernel), if_neg (by decide +kernel), if_neg (by decide +kernel), if_neg (by decide +kernel),
    if_neg (by decide +kernel), if_neg (by decide +kernel), if_neg (by decide +kernel), if_neg (by decide +kernel),
    if_neg (by decide +kernel), if_neg (by decide +kernel), if_pos (by decide +kernel)]

theorem handleMethod_passwd (cfg : Config) (x : Ctx) (p : Peer) (req : Json) :
    handleMethod cfg x p req (k "passwd") = passwdReq x p req := by
  unfold handleMethod
  rw [if_neg (by decide +kernel), if_neg (by decide +kernel), if_neg (by decide +kernel), if_neg (by decide +kernel),
    if_neg (by decide +kernel), if_neg (by decide +kernel), if_neg (by decide +kernel), if_neg (by decide +kernel),
    if_neg (by decide +kernel), if_neg (by decide +kernel), if_neg (by decide +kernel), if_pos (by decide +kernel)]

/-! ## set / call -/

/-- the access test of set_or_call -/
def routeAccess (cfg : Config) (e : Element) (p : Peer) (isState : Bool) : Bool :=
  if isState then hasAccess cfg e.setGroups p.setGroups else hasAccess cfg e.callGroups p.callGroups

/-- without access nothing happens but an INVALID_PARAMS answer -/
theorem setOrCall_denied {cfg : Config} {x : Ctx} {p : Peer} {req params : Json} {path : Bytes} {e : Element} {isState : Bool}
    (hgp : getParamsAndPath req = .ok params path) (he : findElement x.st path = some e)
    (hacc : routeAccess cfg e p isState = false) :
    ∃ tag, setOrCall cfg x p req isState = (x, errorFromRequest req INVALID_PARAMS tag path) := by
  unfold setOrCall
  rw [hgp]
  simp only
  rw [he]
  simp only
  by_cases h1 : e.fetchOnly = true
  · rw [if_pos h1]; exact ⟨_, rfl⟩
  · rw [if_neg h1]
    by_cases h2 : (isState != e.value.isSome) = true
    · rw [if_pos h2]; exact ⟨_, rfl⟩
    · rw [if_neg h2]
      unfold routeAccess at hacc
      rw [hacc]
      exact ⟨_, rfl⟩

/-- whenever set_or_call does anything beyond answering, the access test has passed -/
theorem setOrCall_effect (cfg : Config) (x : Ctx) (p : Peer) (req : Json) (isState : Bool) :
    (setOrCall cfg x p req isState).1 = x ∨
    ∃ params path e, getParamsAndPath req = .ok params path ∧ findElement x.st path = some e ∧
      routeAccess cfg e p isState = true := by
  unfold setOrCall
  cases hgp : getParamsAndPath req with
  | err r => exact Or.inl rfl
  | ok params path =>
    simp only
    cases he : findElement x.st path with
    | none => exact Or.inl rfl
    | some e =>
      simp only
      by_cases h1 : e.fetchOnly = true
      · rw [if_pos h1]; exact Or.inl rfl
      · rw [if_neg h1]
        by_cases h2 : (isState != e.value.isSome) = true
        · rw [if_pos h2]; exact Or.inl rfl
        · rw [if_neg h2]
          cases hacc : routeAccess cfg e p isState with
          | false =>
            unfold routeAccess at hacc
            rw [hacc]
            exact Or.inl rfl
          | true => exact Or.inr ⟨params, path, e, rfl, he, hacc⟩

/-! ## get -/

/-- the entries of a `get` result -/
def getEntries (cfg : Config) (s : State) (p : Peer) (rule : Rule) : List Json :=
  s.peers.flatMap (fun owner => owner.elements.filterMap (fun e =>
    if hasAccess cfg e.fetchGroups p.fetchGroups && ruleMatches rule e.path then
      match e.value with
      | some v => some (Json.obj [(k "path", .str e.path), (k "value", v)])
      | none => none
    else none))

theorem getReq_spec (cfg : Config) (x : Ctx) (p : Peer) (req : Json) :
    (getReq cfg x p req).1 = x ∧
    ((∃ tag reason code, (getReq cfg x p req).2 = errorFromRequest req code tag reason) ∨
     (∃ rule, (getReq cfg x p req).2 = resultFromRequest req (.arr (getEntries cfg x.st p rule)))) := by
  unfold getReq
  split
  · exact ⟨rfl, Or.inl ⟨_, _, _, rfl⟩⟩
  · split
    · exact ⟨rfl, Or.inl ⟨_, _, _, rfl⟩⟩
    · rename_i rule _
      exact ⟨rfl, Or.inr ⟨rule, rfl⟩⟩

theorem getEntries_mem {cfg : Config} {s : State} {p : Peer} {rule : Rule} {entry : Json}
    (h : entry ∈ getEntries cfg s p rule) :
    ∃ owner ∈ s.peers, ∃ e ∈ owner.elements, ∃ v, e.value = some v ∧
      entry = Json.obj [(k "path", .str e.path), (k "value", v)] ∧
      hasAccess cfg e.fetchGroups p.fetchGroups = true ∧ ruleMatches rule e.path = true := by
  unfold getEntries at h
  obtain ⟨owner, ho, h⟩ := List.mem_flatMap.mp h
  obtain ⟨e, he, h⟩ := List.mem_filterMap.mp h
  split at h
  · rename_i hc
    simp only [Bool.and_eq_true] at hc
    cases hv : e.value with
    | none => simp [hv] at h
    | some v =>
      simp only [hv, Option.some.injEq] at h
      exact ⟨owner, ho, e, he, v, hv, h.symm, hc.1, hc.2⟩
  · cases h

/-! ## add -/

theorem addElement_remote {cfg : Config} (x : Ctx) {p : Peer} (req : Json) (hl : cfg.localOnlyAdd = true) (hp : p.isLocal = false) :
    addElement cfg x p req = (x, errorFromRequest req INVALID_REQUEST "reason" (k "add only allowed from localhost")) := by
  unfold addElement
  rw [if_pos (by simp [hl, hp])]

/-! ## authenticate -/

/-- the verdict of credentials_ok -/
def credentialsOk (us : List User) (u pw : Bytes) : Option Json :=
  (findUser us u).bind (fun usr => if usr.password == pw then usr.auth else none)

/-- an authenticate request either leaves everything as it is and answers with an error (or not
    at all), or the credentials were verified, the three group words and the user name are
    assigned and the answer is `true` -/
theorem authenticateReq_cases (cfg : Config) (x : Ctx) (p : Peer) (req : Json) :
    ((authenticateReq cfg x p req).1 = x ∧
      (∀ j, (authenticateReq cfg x p req).2 = some j → (j.getItem (k "error")).isSome = true)) ∨
    (∃ u pw auth, getCredentials req = .ok u pw ∧ p.fetches = [] ∧ credentialsOk x.st.users u pw = some auth ∧
      authenticateReq cfg x p req =
        ({ x with st := { x.st with peers := updatePeer x.st.peers p.conn (authUpd cfg auth u) } },
         successFromRequest req)) := by
  have herr : ∀ (code : Int) (tag : String) (reason : Bytes) (j : Json),
      errorFromRequest req code tag reason = some j → (j.getItem (k "error")).isSome = true := by
    intro code tag reason j hj
    unfold errorFromRequest at hj
    split at hj
    · unfold errorResponse commonResponse at hj
      split at hj
      · simp only [Option.map_some, Option.some.injEq] at hj
        subst hj
        have : keyEq (k "id") (k "error") = false := by decide +kernel
        have h2 : keyEq (k "error") (k "error") = true := by decide +kernel
        simp [Json.getItem, findItem, this, h2]
      · simp only [Option.map_some, Option.some.injEq] at hj
        subst hj
        have : keyEq (k "id") (k "error") = false := by decide +kernel
        have h2 : keyEq (k "error") (k "error") = true := by decide +kernel
        simp [Json.getItem, findItem, this, h2]
      · cases hj
    · cases hj
  have hcred : ∀ r, getCredentials req = .err r → ∀ j, r = some j → (j.getItem (k "error")).isSome = true := by
    intro r h j hj
    subst hj
    unfold getCredentials at h
    split at h
    · injection h with h; exact herr _ _ _ _ h
    · split at h
      · injection h with h; exact herr _ _ _ _ h
      · split at h
        · injection h with h; exact herr _ _ _ _ h
        · cases h
        · injection h with h; exact herr _ _ _ _ h
      · injection h with h; exact herr _ _ _ _ h
  unfold authenticateReq
  cases hc : getCredentials req with
  | err r => exact Or.inl ⟨rfl, hcred r hc⟩
  | ok u pw =>
    simp only
    by_cases hf : (!p.fetches.isEmpty) = true
    · rw [if_pos hf]; exact Or.inl ⟨rfl, herr _ _ _⟩
    · rw [if_neg hf]
      cases hb : (findUser x.st.users u).bind (fun usr => if usr.password == pw then usr.auth else none) with
      | none => exact Or.inl ⟨rfl, herr _ _ _⟩
      | some auth =>
        refine Or.inr ⟨u, pw, auth, rfl, by simpa using hf, hb, rfl⟩

theorem success_has_no_error {req j : Json} (h : successFromRequest req = some j) : j.getItem (k "error") = none := by
  unfold successFromRequest resultFromRequest at h
  split at h
  · unfold resultResponse commonResponse at h
    have h1 : keyEq (k "id") (k "error") = false := by decide +kernel
    have h2 : keyEq (k "result") (k "error") = false := by decide +kernel
    split at h
    · simp only [Option.map_some, Option.some.injEq] at h
      subst h
      simp [Json.getItem, findItem, h1, h2]
    · simp only [Option.map_some, Option.some.injEq] at h
      subst h
      simp [Json.getItem, findItem, h1, h2]
    · cases h
  · cases h


end Cjet.Daemon.C08
