/-
  C01 — definitions: decoded notifications, the replica fold, the image of a fetch,
  the fetcher-table invariant, atomic pieces of daemon work and executions.
-/
import Cjet.Daemon.Model

namespace Cjet.Daemon.C01

open Cjet Cjet.Json Cjet.Daemon

/-! ## decoded notifications -/

inductive Event | add | change | remove
  deriving DecidableEq, Repr

/-- A fetch notification as a client decodes it. -/
structure Notif where
  fid : Json
  path : Bytes
  event : Event
  value : Option Json

def eventOf (b : Bytes) : Option Event :=
  if b == k "add" then some .add
  else if b == k "change" then some .change
  else if b == k "remove" then some .remove
  else none

/-- Decoder for the JSON built by `notification`.  A JSON-RPC notification has no "id" member
    (that is what tells it from a routed request, which also carries "method"); its "method" is
    the fetch id, its "params" carry "path", "event" and possibly "value". -/
def decodeNotif (j : Json) : Option Notif :=
  match j.getItem (k "id"), j.getItem (k "method"), j.getItem (k "params") with
  | none, some fid, some ps =>
    match ps.getItem (k "path"), ps.getItem (k "event") with
    | some (.str path), some (.str ev) =>
      (eventOf ev).map (fun e => { fid := fid, path := path, event := e, value := ps.getItem (k "value") })
    | _, _ => none
  | _, _, _ => none

/-- All decoded notifications of an observation list (oldest first), each with the connection
    it was handed to.  The result of the send is ignored: this is what the daemon emitted. -/
def notifs (obs : List Obs) : List (Nat × Notif) :=
  obs.filterMap (fun o => match o with
    | .send c j _ => (decodeNotif j).map (fun n => (c, n))
    | _ => none)

/-- selection of the notifications for connection `c` whose fetch id equals `fid` (as the daemon
    compares fetch ids: `idsEqual`) -/
def pick (c : Nat) (fid : Json) (l : List (Nat × Notif)) : List Notif :=
  l.filterMap (fun cn => if cn.1 == c && idsEqual cn.2.fid fid then some cn.2 else none)

/-- the notifications among the sends to `c` whose "method" equals `fid`, in order -/
def notifsFor (c : Nat) (fid : Json) (obs : List Obs) : List Notif := pick c fid (notifs obs)

/-! ## the replica a subscriber builds -/

abbrev Replica := List (Bytes × Option Json)

def hasPath (r : Replica) (p : Bytes) : Bool := r.any (·.1 == p)

/-- one event; `none` = the event is spurious -/
def applyNotif (r : Replica) (n : Notif) : Option Replica :=
  match n.event with
  | .add => if hasPath r n.path then none else some (r ++ [(n.path, n.value)])
  | .change =>
    if hasPath r n.path then some (r.map (fun a => if a.1 == n.path then (n.path, n.value) else a)) else none
  | .remove => if hasPath r n.path then some (r.filter (·.1 != n.path)) else none

def replayFrom (r : Replica) : List Notif → Option Replica
  | [] => some r
  | n :: ns => (applyNotif r n).bind (fun r' => replayFrom r' ns)

def replay (ns : List Notif) : Option Replica := replayFrom [] ns

/-- `r` and `img` are the same finite map path ↦ value: no path twice in `r`, same entries. -/
def SameMap (r img : Replica) : Prop :=
  (r.map (·.1)).Nodup ∧ ∀ a, a ∈ r ↔ a ∈ img

/-! ## the image of a fetch -/

def allElems (s : State) : List Element := s.peers.flatMap (·.elements)

/-- element `e` is visible to a peer with fetch groups `pg` and matches `rule` -/
def visible (cfg : Config) (pg : Nat) (rule : Rule) (e : Element) : Bool :=
  hasAccess cfg e.fetchGroups pg && ruleMatches rule e.path

/-- the elements of all peers (peer-list order, element-list order) that are visible to `p` and
    match `f`'s rule, each with its current value -/
def imageFor (cfg : Config) (s : State) (p : Peer) (f : Fetch) : Replica :=
  ((allElems s).filter (visible cfg p.fetchGroups f.rule)).map (fun e => (e.path, e.value))

/-! ## invariant -/

/-- occupied slots of a fetcher table, in slot order -/
def keys (tbl : List (Option FetchKey)) : List FetchKey := tbl.filterMap id

/-- the element side: owners, unique paths, every element is in the path index -/
structure ElemsOK (s : State) : Prop where
  owner : ∀ p ∈ s.peers, ∀ e ∈ p.elements, e.owner = p.conn
  pathNodup : ∀ p ∈ s.peers, (p.elements.map (·.path)).Nodup
  idxNodup : (s.index.map (·.1)).Nodup
  indexed : ∀ p ∈ s.peers, ∀ e ∈ p.elements, (e.path, p.conn) ∈ s.index

/-- the fetch side: connections are distinct, fetch uids are unique and below the counter, fetch
    ids are strings or numbers and pairwise different (as `idsEqual` compares) inside one peer -/
structure FetchesOK (s : State) : Prop where
  connNodup : (s.peers.map (·.conn)).Nodup
  uidLt : ∀ p ∈ s.peers, ∀ f ∈ p.fetches, f.uid < s.nextUid
  uidNodup : ∀ p ∈ s.peers, (p.fetches.map (·.uid)).Nodup
  uidGlobal : ∀ p ∈ s.peers, ∀ q ∈ s.peers, ∀ f ∈ p.fetches, ∀ g ∈ q.fetches, f.uid = g.uid → p.conn = q.conn
  fidOk : ∀ p ∈ s.peers, ∀ f ∈ p.fetches, idsEqual f.fid f.fid = true
  fidDistinct : ∀ p ∈ s.peers, p.fetches.Pairwise (fun a b => idsEqual a.fid b.fid = false)

/-- the fetcher table of element `e` is right with respect to the peers `ps`: no key twice, every
    key is a live peer's existing fetch, and a live fetch is in the table exactly when the element
    is visible to its peer and matches its rule -/
structure TblOK (cfg : Config) (ps : List Peer) (e : Element) : Prop where
  nodup : (keys e.fetchers).Nodup
  live : ∀ fk ∈ keys e.fetchers, ∃ p ∈ ps, p.conn = fk.peer ∧ ∃ f ∈ p.fetches, f.uid = fk.uid
  char : ∀ p ∈ ps, ∀ f ∈ p.fetches,
    ((⟨p.conn, f.uid⟩ : FetchKey) ∈ keys e.fetchers ↔ visible cfg p.fetchGroups f.rule e = true)

structure Inv (cfg : Config) (s : State) : Prop where
  elems : ElemsOK s
  fetches : FetchesOK s
  tbl : ∀ e ∈ allElems s, TblOK cfg s.peers e

/-! ## atomic pieces of daemon work

A `message` operation may carry a batch (a JSON array): several requests are processed one after
the other inside one `step`.  A fetch can therefore be installed, used and removed inside a single
`step`, so the life time of a fetch has to be delimited at request granularity.  `Atom` is that
unit: one JSON-RPC object handled by `parseJsonRpc`, one `closePeer`, one timer expiry, one
connect.  It quantifies over EVERY working context (`x.out`, every oracle value). -/

inductive Atom (cfg : Config) : State → List Obs → State → Prop
  | connect (s : State) (c : Nat) (ws isLocal : Bool) (addr : Bytes) :
      (findPeer s.peers c).isNone = true →
      Atom cfg s [] { s with peers := s.peers ++ [{ conn := c, ws := ws, isLocal := isLocal, addrTok := addr }] }
  | request (x : Ctx) (c : Nat) (req : Json) (new : List Obs) :
      (parseJsonRpc cfg x c req).1.out = new ++ x.out →
      Atom cfg x.st new.reverse (parseJsonRpc cfg x c req).1.st
  | close (x : Ctx) (c : Nat) (new : List Obs) :
      (closePeer x c).out = new ++ x.out →
      Atom cfg x.st new.reverse (closePeer x c).st
  | timer (x : Ctx) (t : Nat) (new : List Obs) :
      (timeoutFired x t).out = new ++ x.out →
      Atom cfg x.st new.reverse (timeoutFired x t).st

/-- a sequence of atoms; the trace records, for each atom, its observations and the state it
    leads to -/
inductive Exec (cfg : Config) : State → List (List Obs × State) → State → Prop
  | nil (s : State) : Exec cfg s [] s
  | cons {s s1 s2 : State} {o : List Obs} {tr : List (List Obs × State)} :
      Atom cfg s o s1 → Exec cfg s1 tr s2 → Exec cfg s ((o, s1) :: tr) s2

/-- all observations of a trace, oldest first -/
def obsOf (tr : List (List Obs × State)) : List Obs := (tr.map (·.1)).flatten

/-- peer `c` of state `s` has the fetch `f` -/
def HasFetch (s : State) (c : Nat) (f : Fetch) : Prop :=
  ∃ p ∈ s.peers, p.conn = c ∧ f ∈ p.fetches

/-- peer `c` of state `s` has fetch groups `pg` and the fetch `f` -/
def Alive (s : State) (c pg : Nat) (f : Fetch) : Prop :=
  ∃ p ∈ s.peers, p.conn = c ∧ p.fetchGroups = pg ∧ f ∈ p.fetches

/-- peer `c` of state `s` has some fetch whose id equals `fid` -/
def HasFid (s : State) (c : Nat) (fid : Json) : Prop :=
  ∃ p ∈ s.peers, p.conn = c ∧ ∃ g ∈ p.fetches, idsEqual g.fid fid = true

end Cjet.Daemon.C01
