/-
  C04 — the output-only helpers of the model (`send`, `emit`, the notification loops) leave the
  state alone; what they append to the output carries no "error" member.
-/
import Cjet.Lemmas.DaemonC04ImageWF

namespace Cjet.Daemon.C04

open Cjet Cjet.Json Cjet.Daemon

/-! ## key literals -/

theorem keyEq_id_error : keyEq (k "id") (k "error") = false := by decide +kernel
theorem keyEq_error_error : keyEq (k "error") (k "error") = true := by decide +kernel
theorem keyEq_result_error : keyEq (k "result") (k "error") = false := by decide +kernel
theorem keyEq_method_error : keyEq (k "method") (k "error") = false := by decide +kernel
theorem keyEq_params_error : keyEq (k "params") (k "error") = false := by decide +kernel

/-- a JSON value with an "error" member (what a client recognises as an error response) -/
def hasError (j : Json) : Prop := (j.getItem (k "error")).isSome = true

/-- an observation that is not the sending of an error object -/
def NoErr (o : Obs) : Prop := ∀ c j b, o = Obs.send c j b → j.getItem (k "error") = none

theorem notification_noError (e : Element) (fid : Json) (ev : String) :
    (notification e fid ev).getItem (k "error") = none := by
  simp only [notification, getItem, findItem, keyEq_method_error, keyEq_params_error, Bool.false_eq_true,
    ↓reduceIte]

theorem resultResponse_noError {id res : Json} {j : Json} (h : resultResponse id res "result" = some j) :
    j.getItem (k "error") = none := by
  simp only [resultResponse, commonResponse] at h
  cases id <;> simp only [Option.map_none, Option.map_some, reduceCtorEq, Option.some.injEq] at h
  all_goals subst h
  all_goals simp only [getItem, List.cons_append, List.nil_append, findItem, keyEq_id_error,
    keyEq_result_error, Bool.false_eq_true, ↓reduceIte]

theorem successFromRequest_noError {req j : Json} (h : successFromRequest req = some j) :
    j.getItem (k "error") = none := by
  simp only [successFromRequest, resultFromRequest] at h
  split at h
  · exact resultResponse_noError h
  · cases h

theorem errorResponse_hasError {id : Json} {code tag reason} {j : Json}
    (h : errorResponse id code tag reason = some j) : hasError j := by
  simp only [errorResponse, commonResponse] at h
  cases id <;> simp only [Option.map_none, Option.map_some, reduceCtorEq, Option.some.injEq] at h
  all_goals subst h
  all_goals simp only [hasError, getItem, List.cons_append, List.nil_append, findItem, keyEq_id_error,
    keyEq_error_error, Bool.false_eq_true, ↓reduceIte, Option.isSome_some]

theorem errorFromRequest_hasError {req : Json} {code tag reason} {j : Json}
    (h : errorFromRequest req code tag reason = some j) : hasError j := by
  simp only [errorFromRequest] at h
  split at h
  · exact errorResponse_hasError h
  · cases h

/-! ## state is untouched -/

@[simp] theorem send_st (x : Ctx) (c : Nat) (j : Json) : (send x c j).1.st = x.st := by
  unfold send; split <;> rfl
@[simp] theorem send'_st (x : Ctx) (c : Nat) (j : Json) : (send' x c j).st = x.st := send_st x c j
@[simp] theorem emit_st (x : Ctx) (o : Obs) : (emit x o).st = x.st := rfl
@[simp] theorem send_indexFull (x : Ctx) (c : Nat) (j : Json) : (send x c j).1.indexFull = x.indexFull := by
  unfold send; split <;> rfl
@[simp] theorem send'_indexFull (x : Ctx) (c : Nat) (j : Json) : (send' x c j).indexFull = x.indexFull :=
  send_indexFull x c j
@[simp] theorem send_routeFull (x : Ctx) (c : Nat) (j : Json) : (send x c j).1.routeFull = x.routeFull := by
  unfold send; split <;> rfl
@[simp] theorem send'_routeFull (x : Ctx) (c : Nat) (j : Json) : (send' x c j).routeFull = x.routeFull :=
  send_routeFull x c j

theorem send_out (x : Ctx) (c : Nat) (j : Json) : (send x c j).1.out = Obs.send c j (send x c j).2 :: x.out := by
  unfold send; split <;> rfl

/-- same state, same oracle flags, output extended by non-error observations -/
structure Quiet (x x' : Ctx) : Prop where
  st : x'.st = x.st
  indexFull : x'.indexFull = x.indexFull
  routeFull : x'.routeFull = x.routeFull
  out : ∃ new, x'.out = new ++ x.out ∧ ∀ o ∈ new, NoErr o

theorem Quiet.refl (x : Ctx) : Quiet x x := ⟨rfl, rfl, rfl, [], rfl, by simp⟩

theorem Quiet.trans {x y z : Ctx} (h1 : Quiet x y) (h2 : Quiet y z) : Quiet x z := by
  obtain ⟨n1, e1, p1⟩ := h1.out
  obtain ⟨n2, e2, p2⟩ := h2.out
  refine ⟨h2.st.trans h1.st, h2.indexFull.trans h1.indexFull, h2.routeFull.trans h1.routeFull,
    n2 ++ n1, by rw [e2, e1, List.append_assoc], ?_⟩
  intro o ho
  rcases List.mem_append.1 ho with ho | ho
  · exact p2 o ho
  · exact p1 o ho

theorem quiet_send' (x : Ctx) (c : Nat) (j : Json) (hj : j.getItem (k "error") = none) :
    Quiet x (send' x c j) := by
  refine ⟨send'_st x c j, send'_indexFull x c j, send'_routeFull x c j, [Obs.send c j (send x c j).2], ?_, ?_⟩
  · exact send_out x c j
  · intro o ho
    simp only [List.mem_singleton] at ho
    subst ho
    intro c' j' b' he
    cases he
    exact hj

theorem quiet_notifyOne (x : Ctx) (e : Element) (fk : FetchKey) (ev : String) :
    Quiet x (notifyOne x e fk ev) := by
  unfold notifyOne
  split
  · exact quiet_send' _ _ _ (notification_noError ..)
  · exact Quiet.refl x

theorem quiet_notifyFetchers_aux (e : Element) (ev : String) (l : List (Option FetchKey)) (x : Ctx) :
    Quiet x (l.foldl (fun x s => match s with | some fk => notifyOne x e fk ev | none => x) x) := by
  induction l generalizing x with
  | nil => exact Quiet.refl x
  | cons s rest ih =>
    simp only [List.foldl_cons]
    cases s with
    | none => exact ih x
    | some fk => exact (quiet_notifyOne x e fk ev).trans (ih _)

theorem quiet_notifyFetchers (x : Ctx) (e : Element) (ev : String) : Quiet x (notifyFetchers x e ev) :=
  quiet_notifyFetchers_aux e ev e.fetchers x

@[simp] theorem notifyFetchers_st (x : Ctx) (e : Element) (ev : String) : (notifyFetchers x e ev).st = x.st :=
  (quiet_notifyFetchers x e ev).st

theorem offerElement_spec (cfg : Config) (x : Ctx) (e : Element) (fp : Peer) (f : Fetch) :
    Quiet x (offerElement cfg x e fp f).1 ∧ entry (offerElement cfg x e fp f).2 = entry e := by
  unfold offerElement
  split
  · exact ⟨Quiet.refl x, rfl⟩
  · split
    · exact ⟨quiet_send' _ _ _ (notification_noError ..), rfl⟩
    · exact ⟨Quiet.refl x, rfl⟩

@[simp] theorem offerElement_st (cfg : Config) (x : Ctx) (e : Element) (fp : Peer) (f : Fetch) :
    (offerElement cfg x e fp f).1.st = x.st := (offerElement_spec cfg x e fp f).1.st

theorem offerElement_path (cfg : Config) (x : Ctx) (e : Element) (fp : Peer) (f : Fetch) :
    (offerElement cfg x e fp f).2.path = e.path :=
  congrArg Prod.fst (offerElement_spec cfg x e fp f).2

theorem findFetchers_inner (cfg : Config) (fp : Peer) (fs : List Fetch) (acc : Ctx × Element) :
    Quiet acc.1 (fs.foldl (fun (acc : Ctx × Element) f => offerElement cfg acc.1 acc.2 fp f) acc).1 ∧
    entry (fs.foldl (fun (acc : Ctx × Element) f => offerElement cfg acc.1 acc.2 fp f) acc).2 = entry acc.2 := by
  induction fs generalizing acc with
  | nil => exact ⟨Quiet.refl _, rfl⟩
  | cons f rest ih =>
    simp only [List.foldl_cons]
    have h1 := offerElement_spec cfg acc.1 acc.2 fp f
    have h2 := ih (offerElement cfg acc.1 acc.2 fp f)
    exact ⟨h1.1.trans h2.1, h2.2.trans h1.2⟩

theorem findFetchers_outer (cfg : Config) (ps : List Peer) (acc : Ctx × Element) :
    Quiet acc.1 (ps.foldl (fun (acc : Ctx × Element) fp =>
      fp.fetches.foldl (fun (acc : Ctx × Element) f => offerElement cfg acc.1 acc.2 fp f) acc) acc).1 ∧
    entry (ps.foldl (fun (acc : Ctx × Element) fp =>
      fp.fetches.foldl (fun (acc : Ctx × Element) f => offerElement cfg acc.1 acc.2 fp f) acc) acc).2 = entry acc.2 := by
  induction ps generalizing acc with
  | nil => exact ⟨Quiet.refl _, rfl⟩
  | cons fp rest ih =>
    simp only [List.foldl_cons]
    have h1 := findFetchers_inner cfg fp fp.fetches acc
    have h2 := ih (fp.fetches.foldl (fun (acc : Ctx × Element) f => offerElement cfg acc.1 acc.2 fp f) acc)
    exact ⟨h1.1.trans h2.1, h2.2.trans h1.2⟩

theorem findFetchersForElement_spec (cfg : Config) (x : Ctx) (e : Element) :
    Quiet x (findFetchersForElement cfg x e).1 ∧ entry (findFetchersForElement cfg x e).2 = entry e :=
  findFetchers_outer cfg x.st.peers (x, e)

@[simp] theorem clearRoute_st (x : Ctx) (r : Route) (c : Nat) : (clearRoute x r c).st = x.st := by
  unfold clearRoute
  simp only
  split
  · rfl
  · split
    · rfl
    · split
      · simp
      · rfl

theorem foldl_clearRoute_st (rs : List Route) (c : Nat) (x : Ctx) :
    (rs.foldl (fun x r => clearRoute x r c) x).st = x.st := by
  induction rs generalizing x with
  | nil => rfl
  | cons r rest ih => simp only [List.foldl_cons, ih, clearRoute_st]

end Cjet.Daemon.C04
