/-
  Cjet.Lemmas.DaemonC05Struct — `Inv` is preserved by the structural state updates of the model:
  adding / removing an element, adding / dropping a fetch, adding a route, a new connection.
-/
import Cjet.Lemmas.DaemonC05Step

namespace Cjet.Daemon.C05

open Cjet Cjet.Json Cjet.Daemon

theorem lookupIndex_none {idx : List (Bytes × Nat)} {path : Bytes} (h : lookupIndex idx path = none) (o : Nat) :
    (path, o) ∉ idx := by
  intro hm
  unfold lookupIndex at h
  simp only [Option.map_eq_none_iff] at h
  have := List.find?_eq_none.1 h (path, o) hm
  simp at this

theorem lookupIndex_some {idx : List (Bytes × Nat)} {path : Bytes} {o : Nat} (h : lookupIndex idx path = some o) :
    (path, o) ∈ idx := by
  unfold lookupIndex at h
  simp only [Option.map_eq_some_iff] at h
  obtain ⟨en, hen, rfl⟩ := h
  have h1 := List.mem_of_find?_eq_some hen
  have h2 := List.find?_some hen
  simp only [beq_iff_eq] at h2
  rw [← h2]; exact h1

/-- the element found through the index: its peer, and its path -/
theorem findElement_mem {s : State} {path : Bytes} {e : Element} (h : findElement s path = some e) :
    ∃ p ∈ s.peers, e ∈ p.elements ∧ e.path = path := by
  unfold findElement at h
  split at h
  · cases h
  · split at h
    · cases h
    · next p hp =>
      exact ⟨p, (findPeer_some hp).1, List.mem_of_find?_eq_some h, by simpa using List.find?_some h⟩

theorem Inv.addElement {s : State} (hI : Inv s) {c : Nat} (hc : c ∈ conns s.peers) (e : Element)
    (ho : e.owner = c) (hnew : lookupIndex s.index e.path = none)
    (hfk : ∀ fk, some fk ∈ e.fetchers → fk ∈ fetchKeys s.peers) :
    Inv { s with index := s.index ++ [(e.path, c)],
                 peers := updatePeer s.peers c (fun q => { q with elements := q.elements ++ [e] }) } := by
  have hg : ∀ p : Peer, (if p.conn == c then { p with elements := p.elements ++ [e] } else p).conn = p.conn := by
    intro p; split <;> rfl
  have hfresh : ∀ p ∈ s.peers, ∀ e' ∈ p.elements, e'.path ≠ e.path := by
    intro p hp e' he' heq
    have := hI.inIdx p hp e' he'
    rw [heq] at this
    exact lookupIndex_none hnew _ this
  have hcu : conns (updatePeer s.peers c (fun q => { q with elements := q.elements ++ [e] })) = conns s.peers :=
    conns_updatePeer (fun _ => rfl)
  have hfks : fetchKeys (updatePeer s.peers c (fun q => { q with elements := q.elements ++ [e] })) = fetchKeys s.peers := by
    rw [updatePeer_eq_map]
    apply fetchKeys_map hg
    intro p _; split <;> rfl
  constructor
  · show (conns (updatePeer _ _ _)).Nodup
    rw [hcu]; exact hI.nodup
  · intro q hq e' he'
    obtain ⟨p, hp, rfl⟩ := mem_updatePeer.1 hq
    split at he' <;> rename_i hpc
    · simp only [List.mem_append, List.mem_singleton] at he'
      rcases he' with h | rfl
      · simp only [hpc, if_true]; exact hI.owner p hp e' h
      · simp only [hpc, if_true]; rw [ho]; exact (by simpa using hpc : p.conn = c).symm
    · simp only [hpc]; exact hI.owner p hp e' he'
  · intro q hq e' he'
    obtain ⟨p, hp, rfl⟩ := mem_updatePeer.1 hq
    rw [hg]
    show (e'.path, p.conn) ∈ s.index ++ [(e.path, c)]
    split at he' <;> rename_i hpc
    · simp only [List.mem_append, List.mem_singleton] at he'
      rcases he' with h | rfl
      · exact List.mem_append_left _ (hI.inIdx p hp e' h)
      · have : p.conn = c := by simpa using hpc
        rw [this]; simp
    · exact List.mem_append_left _ (hI.inIdx p hp e' he')
  · intro q hq
    obtain ⟨p, hp, rfl⟩ := mem_updatePeer.1 hq
    split
    · simp only [List.map_append, List.map_cons, List.map_nil]
      rw [List.nodup_append]
      refine ⟨hI.paths p hp, by simp, ?_⟩
      intro a ha b hb
      simp only [List.mem_singleton] at hb
      subst hb
      obtain ⟨e', he', rfl⟩ := List.mem_map.1 ha
      exact hfresh p hp e' he'
    · exact hI.paths p hp
  · show ((s.index ++ [(e.path, c)]).map (·.1)).Nodup
    simp only [List.map_append, List.map_cons, List.map_nil]
    rw [List.nodup_append]
    refine ⟨hI.idxNodup, by simp, ?_⟩
    intro a ha b hb
    simp only [List.mem_singleton] at hb
    subst hb
    obtain ⟨en, hen, rfl⟩ := List.mem_map.1 ha
    intro heq
    apply lookupIndex_none hnew en.2
    rw [← heq]; exact hen
  · intro pa o hm
    have hm : (pa, o) ∈ s.index ++ [(e.path, c)] := hm
    simp only [List.mem_append, List.mem_singleton] at hm
    rcases hm with hm | hm
    · obtain ⟨p, hp, hpc, e', he', hpa⟩ := hI.idxElem pa o hm
      refine ⟨_, mem_updatePeer.2 ⟨p, hp, rfl⟩, by rw [hg]; exact hpc, e', ?_, hpa⟩
      split
      · exact List.mem_append_left _ he'
      · exact he'
    · obtain ⟨rfl, rfl⟩ := Prod.mk.inj hm
      obtain ⟨p, hp, hpc⟩ := mem_conns.1 hc
      refine ⟨_, mem_updatePeer.2 ⟨p, hp, rfl⟩, by rw [hg]; exact hpc, e, ?_, rfl⟩
      simp [hpc]
  · intro q hq e' he' fk hfkm
    show fk ∈ fetchKeys (updatePeer _ _ _)
    rw [hfks]
    obtain ⟨p, hp, rfl⟩ := mem_updatePeer.1 hq
    split at he'
    · simp only [List.mem_append, List.mem_singleton] at he'
      rcases he' with h | rfl
      · exact hI.fetchers p hp e' h fk hfkm
      · exact hfk fk hfkm
    · exact hI.fetchers p hp e' he' fk hfkm
  · intro q hq r hr
    obtain ⟨p, hp, rfl⟩ := mem_updatePeer.1 hq
    rw [hg]
    show r.owner = p.conn ∧ r.requester ∈ conns (updatePeer _ _ _) ∧ r.timer < s.nextTimer
    rw [hcu]
    apply hI.routes p hp r
    split at hr
    · exact hr
    · exact hr

/-- remove_element's state update for an element `e` of peer `p` -/
theorem Inv.removeElement {s : State} (hI : Inv s) {p : Peer} (hp : p ∈ s.peers) {e : Element}
    (he : e ∈ p.elements) :
    Inv { s with index := removeIndex s.index e.path,
                 peers := updatePeer s.peers e.owner (fun q => { q with elements := q.elements.filter (·.path != e.path) }) } := by
  have hown := hI.owner p hp e he
  have hg : ∀ q : Peer, (if q.conn == e.owner then { q with elements := q.elements.filter (·.path != e.path) } else q).conn = q.conn := by
    intro q; split <;> rfl
  have hcu : conns (updatePeer s.peers e.owner (fun q => { q with elements := q.elements.filter (·.path != e.path) })) = conns s.peers :=
    conns_updatePeer (fun _ => rfl)
  have hfks : fetchKeys (updatePeer s.peers e.owner (fun q => { q with elements := q.elements.filter (·.path != e.path) })) = fetchKeys s.peers := by
    rw [updatePeer_eq_map]
    apply fetchKeys_map hg
    intro q _; split <;> rfl
  -- an element of the new state is an element of the old one with a different path
  have hold : ∀ q ∈ s.peers, ∀ e' ∈ (if q.conn == e.owner then { q with elements := q.elements.filter (·.path != e.path) } else q).elements,
      e' ∈ q.elements ∧ e'.path ≠ e.path := by
    intro q hq e' he'
    split at he' <;> rename_i hqc
    · have := List.mem_filter.1 he'
      exact ⟨this.1, by simpa using this.2⟩
    · refine ⟨he', ?_⟩
      intro heq
      have : q = p := hI.path_owner hq hp he' he heq
      subst this
      exact hqc (by simp [hown])
  constructor
  · show (conns (updatePeer _ _ _)).Nodup
    rw [hcu]; exact hI.nodup
  · intro q hq e' he'
    obtain ⟨q0, hq0, rfl⟩ := mem_updatePeer.1 hq
    rw [hg]; exact hI.owner q0 hq0 e' (hold q0 hq0 e' he').1
  · intro q hq e' he'
    obtain ⟨q0, hq0, rfl⟩ := mem_updatePeer.1 hq
    rw [hg]
    obtain ⟨h1, h2⟩ := hold q0 hq0 e' he'
    show (e'.path, q0.conn) ∈ removeIndex s.index e.path
    unfold removeIndex
    exact List.mem_filter.2 ⟨hI.inIdx q0 hq0 e' h1, by simpa using h2⟩
  · intro q hq
    obtain ⟨q0, hq0, rfl⟩ := mem_updatePeer.1 hq
    split
    · exact (hI.paths q0 hq0).sublist (List.Sublist.map _ List.filter_sublist)
    · exact hI.paths q0 hq0
  · show ((removeIndex s.index e.path).map (·.1)).Nodup
    unfold removeIndex
    exact hI.idxNodup.sublist (List.Sublist.map _ List.filter_sublist)
  · intro pa o hm
    have hm : (pa, o) ∈ removeIndex s.index e.path := hm
    unfold removeIndex at hm
    obtain ⟨hm1, hm2⟩ := List.mem_filter.1 hm
    have hne : pa ≠ e.path := by simpa using hm2
    obtain ⟨q0, hq0, hqc, e', he', hpa⟩ := hI.idxElem pa o hm1
    refine ⟨_, mem_updatePeer.2 ⟨q0, hq0, rfl⟩, by rw [hg]; exact hqc, e', ?_, hpa⟩
    split
    · exact List.mem_filter.2 ⟨he', by simpa [hpa] using hne⟩
    · exact he'
  · intro q hq e' he' fk hfkm
    show fk ∈ fetchKeys (updatePeer _ _ _)
    rw [hfks]
    obtain ⟨q0, hq0, rfl⟩ := mem_updatePeer.1 hq
    exact hI.fetchers q0 hq0 e' (hold q0 hq0 e' he').1 fk hfkm
  · intro q hq r hr
    obtain ⟨q0, hq0, rfl⟩ := mem_updatePeer.1 hq
    rw [hg]
    show r.owner = q0.conn ∧ r.requester ∈ conns (updatePeer _ _ _) ∧ r.timer < s.nextTimer
    rw [hcu]
    apply hI.routes q0 hq0 r
    split at hr
    · exact hr
    · exact hr

theorem Inv.addFetch {s : State} (hI : Inv s) (c : Nat) (f : Fetch) (n : Nat) :
    Inv { s with nextUid := n,
                 peers := updatePeer s.peers c (fun q => { q with fetches := q.fetches ++ [f] }) } := by
  have hg : ∀ p : Peer, (if p.conn == c then { p with fetches := p.fetches ++ [f] } else p).conn = p.conn := by
    intro p; split <;> rfl
  apply hI.map_peers (s' := { s with nextUid := n, peers := updatePeer s.peers c (fun q => { q with fetches := q.fetches ++ [f] }) })
    (fun p => if p.conn == c then { p with fetches := p.fetches ++ [f] } else p) rfl rfl hg
  · intro p _; split <;> rfl
  · intro p hp e' he' fk hfk
    have he : e' ∈ p.elements := by
      split at he'
      · exact he'
      · exact he'
    show fk ∈ fetchKeys (updatePeer _ _ _)
    rw [updatePeer_eq_map]
    apply fetchKeys_map_subset hg _ (hI.fetchers p hp e' he fk hfk)
    intro q _ g hgm
    split
    · exact List.mem_append_left _ hgm
    · exact hgm
  · intro p hp r hr
    apply hI.routes p hp r
    split at hr
    · exact hr
    · exact hr

theorem Inv.dropFetch {s : State} (hI : Inv s) (fk : FetchKey) :
    Inv { s with peers := Daemon.dropFetch s.peers fk } := by
  let g : Peer → Peer := fun p =>
    let p1 : Peer := { p with elements := p.elements.map (fun e => { e with fetchers := removeFetcher e.fetchers fk }) }
    if p1.conn == fk.peer then { p1 with fetches := p1.fetches.filter (·.uid != fk.uid) } else p1
  have hgc : ∀ p, (g p).conn = p.conn := by
    intro p; simp only [g]; split <;> rfl
  have hge : ∀ p, (g p).elements = p.elements.map (fun e => { e with fetchers := removeFetcher e.fetchers fk }) := by
    intro p; simp only [g]; split <;> rfl
  have hgr : ∀ p, (g p).routes = p.routes := by
    intro p; simp only [g]; split <;> rfl
  have hps : Daemon.dropFetch s.peers fk = s.peers.map g := by
    unfold Daemon.dropFetch mapElements
    rw [updatePeer_eq_map, List.map_map]
    rfl
  apply hI.map_peers (s' := { s with peers := Daemon.dropFetch s.peers fk }) g hps rfl hgc
  · intro p _
    rw [hge, List.map_map]
    rfl
  · intro p hp e' he' fk' hfk'
    rw [hge] at he'
    obtain ⟨e, he, rfl⟩ := List.mem_map.1 he'
    obtain ⟨h1, h2⟩ := mem_removeFetcher hfk'
    have := hI.fetchers p hp e he fk' h1
    show fk' ∈ fetchKeys (Daemon.dropFetch s.peers fk)
    rw [hps]
    rw [mem_fetchKeys] at this ⊢
    obtain ⟨q, hq, hqc, f, hf, hu⟩ := this
    refine ⟨g q, List.mem_map.2 ⟨q, hq, rfl⟩, by rw [hgc]; exact hqc, f, ?_, hu⟩
    simp only [g]
    split <;> rename_i hcond
    · apply List.mem_filter.2 ⟨hf, ?_⟩
      simp only [bne_iff_ne, ne_eq]
      intro hu2
      apply h2
      have hc2 : q.conn = fk.peer := by simpa using hcond
      cases fk; cases fk'
      simp_all
    · exact hf
  · intro p hp r hr
    rw [hgr] at hr
    exact hI.routes p hp r hr

theorem Inv.connect {s : State} (hI : Inv s) {c : Nat} (hc : c ∉ conns s.peers) (ws isLocal : Bool) (addr : Bytes) :
    Inv { s with peers := s.peers ++ [{ conn := c, ws := ws, isLocal := isLocal, addrTok := addr }] } := by
  have hsub : ∀ fk, fk ∈ fetchKeys s.peers →
      fk ∈ fetchKeys (s.peers ++ [{ conn := c, ws := ws, isLocal := isLocal, addrTok := addr }]) := by
    intro fk h
    unfold fetchKeys at h ⊢
    rw [List.flatMap_append]
    exact List.mem_append_left _ h
  constructor
  · show (conns (s.peers ++ _)).Nodup
    rw [conns_append, List.nodup_append]
    refine ⟨hI.nodup, by simp, ?_⟩
    intro a ha b hb
    simp only [conns_cons, conns_nil, List.mem_singleton] at hb
    subst hb
    intro h; exact hc (h ▸ ha)
  · intro p hp e he
    rcases List.mem_append.1 hp with h | h
    · exact hI.owner p h e he
    · simp only [List.mem_singleton] at h; subst h; cases he
  · intro p hp e he
    rcases List.mem_append.1 hp with h | h
    · exact hI.inIdx p h e he
    · simp only [List.mem_singleton] at h; subst h; cases he
  · intro p hp
    rcases List.mem_append.1 hp with h | h
    · exact hI.paths p h
    · simp only [List.mem_singleton] at h; subst h; simp
  · exact hI.idxNodup
  · intro pa o hm
    obtain ⟨p, hp, h⟩ := hI.idxElem pa o hm
    exact ⟨p, List.mem_append_left _ hp, h⟩
  · intro p hp e he fk hfk
    rcases List.mem_append.1 hp with h | h
    · exact hsub fk (hI.fetchers p h e he fk hfk)
    · simp only [List.mem_singleton] at h; subst h; cases he
  · intro p hp r hr
    rcases List.mem_append.1 hp with h | h
    · obtain ⟨h1, h2, h3⟩ := hI.routes p h r hr
      refine ⟨h1, ?_, h3⟩
      show r.requester ∈ conns (s.peers ++ _)
      rw [conns_append]; exact List.mem_append_left _ h2
    · simp only [List.mem_singleton] at h; subst h; cases hr

theorem Inv.addRoute {s : State} (hI : Inv s) (o : Nat) (r : Route) (hro : r.owner = o)
    (hrq : r.requester ∈ conns s.peers) (ht : r.timer < s.nextTimer) :
    Inv { s with peers := updatePeer s.peers o (fun q => { q with routes := q.routes ++ [r] }) } := by
  apply hI.map_routes (s' := { s with peers := updatePeer s.peers o (fun q => { q with routes := q.routes ++ [r] }) })
    (fun p => if p.conn == o then { p with routes := p.routes ++ [r] } else p) rfl rfl (Nat.le_refl _)
  · intro p; split <;> rfl
  · intro p; split <;> rfl
  · intro p; split <;> rfl
  · intro p _ r' hr'
    split at hr' <;> rename_i hpc
    · simp only [List.mem_append, List.mem_singleton] at hr'
      rcases hr' with h | rfl
      · exact Or.inl h
      · right
        exact ⟨by rw [hro]; exact (by simpa using hpc : p.conn = o).symm, hrq, ht⟩
    · exact Or.inl hr'

end Cjet.Daemon.C05
