/-
  DaemonC08Inv — the invariants of the access-control proofs and the specifications of the
  sending primitives.

  * `FInv`  : connection numbers are unique and every occupied fetcher-table slot `⟨c, uid⟩` of
              every element `e` refers to a live peer `c` that owns a fetch `uid` and has
              `hasAccess e.fetchGroups p.fetchGroups`.
  * `AuthInv`: the authentication fields of every peer are either all unset or derived from a
              record of the credential table.
  * `J`     : what may be sent while one request / close / timer expiry is processed in a state
              `s0`: values that start with "id" (answers, routed requests), and notifications for
              an element the receiver has access to.
-/
import Cjet.Lemmas.DaemonC08Basic

namespace Cjet.Daemon.C08

open Cjet Cjet.Json Cjet.Daemon

/-! ## fetcher tables -/

def fuids (p : Peer) : List Nat := p.fetches.map (·.uid)

/-- slot `fk` of an element with fetch groups `fg` is legitimate in the peer list `ps` -/
def PeerOK (cfg : Config) (ps : List Peer) (fg : Nat) (fk : FetchKey) : Prop :=
  ∃ p, findPeer ps fk.peer = some p ∧ fk.uid ∈ fuids p ∧ hasAccess cfg fg p.fetchGroups = true

def ElemOK (cfg : Config) (ps : List Peer) (e : Element) : Prop :=
  ∀ fk, some fk ∈ e.fetchers → PeerOK cfg ps e.fetchGroups fk

structure FInv (cfg : Config) (s : State) : Prop where
  nodup : (s.peers.map (·.conn)).Nodup
  fetchers : ∀ o ∈ s.peers, ∀ e ∈ o.elements, ElemOK cfg s.peers e

theorem PeerOK.map {cfg : Config} {g : Peer → Peer} (hg : Keeps g) {ps : List Peer} {fg : Nat} {fk : FetchKey}
    (h : PeerOK cfg ps fg fk) : PeerOK cfg (ps.map g) fg fk := by
  obtain ⟨p, hf, hu, ha⟩ := h
  refine ⟨g p, ?_, ?_, ?_⟩
  · rw [findPeer_map hg.conn, hf]; rfl
  · simpa [fuids, hg.2 p] using hu
  · rw [(hg.1 p).2.2.1]; exact ha

theorem PeerOK.of_map {cfg : Config} {g : Peer → Peer} (hg : Keeps g) {ps : List Peer} {fg : Nat} {fk : FetchKey}
    (h : PeerOK cfg (ps.map g) fg fk) : PeerOK cfg ps fg fk := by
  obtain ⟨p', hf, hu, ha⟩ := h
  rw [findPeer_map hg.conn] at hf
  cases hp : findPeer ps fk.peer with
  | none => simp [hp] at hf
  | some p =>
    simp only [hp, Option.map_some, Option.some.injEq] at hf
    subst hf
    refine ⟨p, hp, ?_, ?_⟩
    · simpa [fuids, hg.2 p] using hu
    · rw [(hg.1 p).2.2.1] at ha; exact ha

theorem ElemOK.map {cfg : Config} {g : Peer → Peer} (hg : Keeps g) {ps : List Peer} {e : Element}
    (h : ElemOK cfg ps e) : ElemOK cfg (ps.map g) e := fun fk hfk => (h fk hfk).map hg

/-- an element that differs in value / fetcher subset only -/
theorem ElemOK.sub {cfg : Config} {ps : List Peer} {e e' : Element} (h : ElemOK cfg ps e)
    (hg : e'.fetchGroups = e.fetchGroups) (hs : ∀ fk, some fk ∈ e'.fetchers → some fk ∈ e.fetchers) :
    ElemOK cfg ps e' := by
  intro fk hfk
  rw [hg]
  exact h fk (hs fk hfk)

/-- the workhorse: a `Keeps` map of the peer list whose new element lists contain only
    elements that were fine before -/
theorem FInv.map {cfg : Config} {s : State} (h : FInv cfg s) {g : Peer → Peer} (hg : Keeps g)
    (hel : ∀ q ∈ s.peers, ∀ e ∈ (g q).elements, ElemOK cfg s.peers e) {s' : State}
    (hs : s'.peers = s.peers.map g) : FInv cfg s' := by
  constructor
  · rw [hs, map_conn_of_keepsA hg.1]; exact h.nodup
  · intro o ho e he
    rw [hs] at ho ⊢
    obtain ⟨q, hq, rfl⟩ := List.mem_map.mp ho
    exact (hel q hq e he).map hg

theorem FInv.of_peers_eq {cfg : Config} {s s' : State} (h : FInv cfg s) (hs : s'.peers = s.peers) : FInv cfg s' := by
  constructor
  · rw [hs]; exact h.nodup
  · rw [hs]; exact h.fetchers

theorem addFetcher_mem {cfg : Config} {tbl : List (Option FetchKey)} {f fk : FetchKey}
    (h : some fk ∈ addFetcher cfg tbl f) : some fk ∈ tbl ∨ fk = f := by
  unfold addFetcher at h
  split at h
  · rcases List.mem_or_eq_of_mem_set h with h | h
    · exact Or.inl h
    · exact Or.inr (Option.some.inj h)
  · rcases List.mem_append.mp h with h | h
    · rcases List.mem_append.mp h with h | h
      · exact Or.inl h
      · rw [List.mem_singleton] at h
        exact Or.inr (Option.some.inj h)
    · have := (List.mem_replicate.mp h).2
      cases this

/-! ## what may be sent -/

/-- an element with this path and these fetch groups is registered in `s` -/
def ElemIn (s : State) (path : Bytes) (fg : Nat) : Prop :=
  ∃ o ∈ s.peers, ∃ e ∈ o.elements, e.path = path ∧ e.fetchGroups = fg

/-- provenance of the element of a notification: registered in `s0`, or the element declared
    by the `add` request being processed (`d` = its path and fetch groups) -/
def Prov (s0 : State) (d : Option (Bytes × Nat)) (e : Element) : Prop :=
  ElemIn s0 e.path e.fetchGroups ∨ d = some (e.path, e.fetchGroups)

def NotifOK (cfg : Config) (s0 : State) (d : Option (Bytes × Nat)) (c : Nat) (j : Json) : Prop :=
  ∃ e fid ev p, j = notification e fid ev ∧ findPeer s0.peers c = some p ∧
    hasAccess cfg e.fetchGroups p.fetchGroups = true ∧ Prov s0 d e

def J (cfg : Config) (s0 : State) (d : Option (Bytes × Nat)) : Obs → Prop
  | .send c j _ => idFirst j = true ∨ NotifOK cfg s0 d c j
  | _ => True

theorem J.weaken {cfg : Config} {s0 : State} {d : Option (Bytes × Nat)} {o : Obs} (h : J cfg s0 none o) : J cfg s0 d o := by
  cases o with
  | send c j ok =>
    rcases h with h | ⟨e, fid, ev, p, h1, h2, h3, h4⟩
    · exact Or.inl h
    · refine Or.inr ⟨e, fid, ev, p, h1, h2, h3, ?_⟩
      rcases h4 with h4 | h4
      · exact Or.inl h4
      · cases h4
  | _ => trivial

theorem J_idFirst {cfg : Config} {s0 : State} {d : Option (Bytes × Nat)} {c : Nat} {j : Json} (h : idFirst j = true) (ok : Bool) :
    J cfg s0 d (Obs.send c j ok) := Or.inl h

/-! ## notifyOne, notifyFetchers, offerElement -/

theorem notifyOne_spec {cfg : Config} {s0 : State} {d : Option (Bytes × Nat)} (x : Ctx) (e : Element) (fk : FetchKey)
    (ev : String) (hok : PeerOK cfg s0.peers e.fetchGroups fk) (hprov : Prov s0 d e) :
    (notifyOne x e fk ev).st = x.st ∧ (notifyOne x e fk ev).indexFull = x.indexFull ∧
      (notifyOne x e fk ev).routeFull = x.routeFull ∧ OutExt (J cfg s0 d) x (notifyOne x e fk ev) := by
  unfold notifyOne
  split
  · rename_i f _
    refine ⟨by simp, by simp, by simp, OutExt.send' _ _ _ ?_⟩
    intro ok
    obtain ⟨p, hp, _, ha⟩ := hok
    exact Or.inr ⟨e, f.fid, ev, p, rfl, hp, ha, hprov⟩
  · exact ⟨rfl, rfl, rfl, OutExt.refl _ _⟩

theorem notifyFetchers_aux {cfg : Config} {s0 : State} {d : Option (Bytes × Nat)} (e : Element) (ev : String)
    (hprov : Prov s0 d e) (l : List (Option FetchKey))
    (hl : ∀ fk, some fk ∈ l → PeerOK cfg s0.peers e.fetchGroups fk) (x : Ctx) :
    let x' := l.foldl (fun x s => match s with | some fk => notifyOne x e fk ev | none => x) x
    x'.st = x.st ∧ x'.indexFull = x.indexFull ∧ x'.routeFull = x.routeFull ∧ OutExt (J cfg s0 d) x x' := by
  induction l generalizing x with
  | nil => exact ⟨rfl, rfl, rfl, OutExt.refl _ _⟩
  | cons a rest ih =>
    simp only [List.foldl_cons]
    have hrest : ∀ fk, some fk ∈ rest → PeerOK cfg s0.peers e.fetchGroups fk :=
      fun fk h => hl fk (List.mem_cons_of_mem _ h)
    cases a with
    | none => exact ih hrest x
    | some fk =>
      obtain ⟨h1, h2, h3, h4⟩ := notifyOne_spec x e fk ev (hl fk (List.mem_cons_self ..)) hprov
      obtain ⟨i1, i2, i3, i4⟩ := ih hrest (notifyOne x e fk ev)
      exact ⟨i1.trans h1, i2.trans h2, i3.trans h3, h4.trans i4⟩

theorem notifyFetchers_spec {cfg : Config} {s0 : State} {d : Option (Bytes × Nat)} (x : Ctx) (e : Element) (ev : String)
    (hok : ElemOK cfg s0.peers e) (hprov : Prov s0 d e) :
    (notifyFetchers x e ev).st = x.st ∧ (notifyFetchers x e ev).indexFull = x.indexFull ∧
      (notifyFetchers x e ev).routeFull = x.routeFull ∧ OutExt (J cfg s0 d) x (notifyFetchers x e ev) :=
  notifyFetchers_aux e ev hprov e.fetchers hok x

theorem offerElement_spec {cfg : Config} {s0 : State} {d : Option (Bytes × Nat)} (x : Ctx) (e : Element) (fp : Peer) (f : Fetch)
    (hfp : ∃ p0, findPeer s0.peers fp.conn = some p0 ∧ p0.fetchGroups = fp.fetchGroups) (hprov : Prov s0 d e) :
    (offerElement cfg x e fp f).1.st = x.st ∧ (offerElement cfg x e fp f).1.indexFull = x.indexFull ∧
    (offerElement cfg x e fp f).1.routeFull = x.routeFull ∧
    OutExt (J cfg s0 d) x (offerElement cfg x e fp f).1 ∧
    (∃ t, (offerElement cfg x e fp f).2 = { e with fetchers := t } ∧
      ∀ fk, some fk ∈ t → some fk ∈ e.fetchers ∨
        (fk = ⟨fp.conn, f.uid⟩ ∧ hasAccess cfg e.fetchGroups fp.fetchGroups = true)) := by
  unfold offerElement
  split
  · exact ⟨rfl, rfl, rfl, OutExt.refl _ _, e.fetchers, rfl, fun fk h => Or.inl h⟩
  · rename_i hacc
    split
    · refine ⟨by simp, by simp, by simp, OutExt.send' _ _ _ ?_, _, rfl, ?_⟩
      · intro ok
        obtain ⟨p0, hp0, hg⟩ := hfp
        refine Or.inr ⟨_, f.fid, "add", p0, rfl, hp0, ?_, hprov⟩
        simp only [hg]
        simpa using hacc
      · intro fk hfk
        rcases addFetcher_mem hfk with h | h
        · exact Or.inl h
        · exact Or.inr ⟨h, by simpa using hacc⟩
    · exact ⟨rfl, rfl, rfl, OutExt.refl _ _, e.fetchers, rfl, fun fk h => Or.inl h⟩

/-! ## authentication fields -/

/-- identity and authentication fields of a peer -/
def AV (p : Peer) : Nat × Option Bytes × Nat × Nat × Nat :=
  (p.conn, p.user, p.fetchGroups, p.setGroups, p.callGroups)

theorem AV_of_keepsA {g : Peer → Peer} (hg : KeepsA g) (q : Peer) : AV (g q) = AV q := by
  obtain ⟨a, b, c, d, e⟩ := hg q
  simp [AV, a, b, c, d, e]

/-- the credential table is untouched and every peer of `s'` is a peer of `s` as far as its
    authentication fields go -/
def AuthSame (s s' : State) : Prop :=
  s'.users = s.users ∧ ∀ p' ∈ s'.peers, ∃ p ∈ s.peers, AV p' = AV p

theorem AuthSame.refl (s : State) : AuthSame s s := ⟨rfl, fun p hp => ⟨p, hp, rfl⟩⟩

theorem AuthSame.trans {s t u : State} (h1 : AuthSame s t) (h2 : AuthSame t u) : AuthSame s u := by
  refine ⟨h2.1.trans h1.1, fun p hp => ?_⟩
  obtain ⟨q, hq, e1⟩ := h2.2 p hp
  obtain ⟨r, hr, e2⟩ := h1.2 q hq
  exact ⟨r, hr, e1.trans e2⟩

theorem AuthSame.of_map {s s' : State} {g : Peer → Peer} (hg : KeepsA g) (hu : s'.users = s.users)
    (hp : s'.peers = s.peers.map g) : AuthSame s s' := by
  refine ⟨hu, fun p' hp' => ?_⟩
  rw [hp] at hp'
  obtain ⟨q, hq, rfl⟩ := List.mem_map.mp hp'
  exact ⟨q, hq, AV_of_keepsA hg q⟩

theorem AuthSame.of_eq {s s' : State} (hu : s'.users = s.users) (hp : s'.peers = s.peers) : AuthSame s s' := by
  refine ⟨hu, fun p' hp' => ⟨p', hp ▸ hp', rfl⟩⟩

/-- the authentication fields of `p` are unset, or those of a credential record -/
def PeerAuth (cfg : Config) (us : List User) (p : Peer) : Prop :=
  (p.user = none ∧ p.fetchGroups = 0 ∧ p.setGroups = 0 ∧ p.callGroups = 0) ∨
  (∃ u usr auth, p.user = some u ∧ findUser us u = some usr ∧ usr.auth = some auth ∧
    p.fetchGroups = getGroups cfg (auth.getItem (k "fetchGroups")) ∧
    p.setGroups = getGroups cfg (auth.getItem (k "setGroups")) ∧
    p.callGroups = getGroups cfg (auth.getItem (k "callGroups")))

def AuthInv (cfg : Config) (s : State) : Prop := ∀ p ∈ s.peers, PeerAuth cfg s.users p

theorem PeerAuth.of_AV {cfg : Config} {us : List User} {p p' : Peer} (h : PeerAuth cfg us p) (e : AV p' = AV p) :
    PeerAuth cfg us p' := by
  simp only [AV, Prod.mk.injEq] at e
  obtain ⟨_, e2, e3, e4, e5⟩ := e
  unfold PeerAuth
  rw [e2, e3, e4, e5]
  exact h

theorem AuthInv.of_same {cfg : Config} {s s' : State} (h : AuthInv cfg s) (hs : AuthSame s s') : AuthInv cfg s' := by
  intro p' hp'
  obtain ⟨p, hp, e⟩ := hs.2 p' hp'
  rw [hs.1]
  exact (h p hp).of_AV e

/-- a password change: names, auth objects and the order of the records stay -/
def setPassword (us : List User) (name pw : Bytes) : List User :=
  us.map (fun usr => if usr.name == name then { usr with password := pw } else usr)

theorem findUser_setPassword (us : List User) (name pw u : Bytes) :
    findUser (setPassword us name pw) u =
      (findUser us u).map (fun usr => if usr.name == name then { usr with password := pw } else usr) := by
  unfold findUser setPassword
  induction us with
  | nil => rfl
  | cons a rest ih =>
    simp only [List.map_cons, List.find?_cons]
    have : (if a.name == name then { a with password := pw } else a).name = a.name := by
      split <;> rfl
    rw [this]
    split
    · rfl
    · exact ih

theorem PeerAuth.setPassword {cfg : Config} {us : List User} {p : Peer} (h : PeerAuth cfg us p) (name pw : Bytes) :
    PeerAuth cfg (setPassword us name pw) p := by
  rcases h with h | ⟨u, usr, auth, h1, h2, h3, h4⟩
  · exact Or.inl h
  · refine Or.inr ⟨u, (if usr.name == name then { usr with password := pw } else usr), auth, h1, ?_, ?_, h4⟩
    · rw [findUser_setPassword, h2]; rfl
    · split <;> exact h3

/-- the assignment a successful `authenticate` makes to the peer -/
def authUpd (cfg : Config) (auth : Json) (u : Bytes) (q : Peer) : Peer :=
  { q with fetchGroups := getGroups cfg (auth.getItem (k "fetchGroups")),
           setGroups := getGroups cfg (auth.getItem (k "setGroups")),
           callGroups := getGroups cfg (auth.getItem (k "callGroups")), user := some u }

/-- what one request does to the authentication data -/
def AuthEff (cfg : Config) (s : State) (c : Nat) (req : Json) (s' : State) : Prop :=
  AuthSame s s' ∨
  (∃ u pw usr auth, getCredentials req = .ok u pw ∧ findUser s.users u = some usr ∧ usr.password = pw ∧
      usr.auth = some auth ∧ s'.users = s.users ∧
      s'.peers = updatePeer s.peers c (authUpd cfg auth u)) ∨
  (∃ name pw, s'.peers = s.peers ∧ s'.users = setPassword s.users name pw)

theorem AuthInv.of_eff {cfg : Config} {s s' : State} {c : Nat} {req : Json} (h : AuthInv cfg s)
    (he : AuthEff cfg s c req s') : AuthInv cfg s' := by
  rcases he with he | ⟨u, pw, usr, auth, _, hf, _, ha, hu, hp⟩ | ⟨name, pw, hp, hu⟩
  · exact h.of_same he
  · intro p' hp'
    rw [hp, updatePeer_eq_map] at hp'
    obtain ⟨q, hq, rfl⟩ := List.mem_map.mp hp'
    rw [hu]
    split
    · exact Or.inr ⟨u, usr, auth, rfl, hf, ha, rfl, rfl, rfl⟩
    · exact h q hq
  · intro p' hp'
    rw [hp] at hp'
    rw [hu]
    exact (h p' hp').setPassword name pw

end Cjet.Daemon.C08
