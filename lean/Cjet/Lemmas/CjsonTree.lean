/-
  Helper lemmas for Cjet.Props.CjsonTree: the allocation ledger of cJSON_Duplicate.
-/
import Cjet.Cjson.TreeOps

namespace Cjet.Cjson.TreeOps

/-- the `n` allocation calls from number `lo` on all succeed -/
def AllOk (s : Nat → Bool) (lo n : Nat) : Prop := ∀ j, j < n → s (lo + j) = false

/-- among the `n` calls from `lo` on one fails, the first such is the last call made (`nx` = calls so far) -/
def FirstFail (s : Nat → Bool) (lo n nx : Nat) : Prop :=
  ∃ j, j < n ∧ s (lo + j) = true ∧ nx = lo + j + 1 ∧ AllOk s lo j

theorem AllOk.zero (s : Nat → Bool) (lo : Nat) : AllOk s lo 0 := fun _ h => absurd h (Nat.not_lt_zero _)

theorem AllOk.append {s : Nat → Bool} {lo n m : Nat} (h1 : AllOk s lo n) (h2 : AllOk s (lo + n) m) :
    AllOk s lo (n + m) := by
  intro j hj
  by_cases h : j < n
  · exact h1 j h
  · have := h2 (j - n) (by omega)
    rwa [show lo + n + (j - n) = lo + j by omega] at this

theorem FirstFail.mono {s : Nat → Bool} {lo n nx : Nat} (m : Nat) (h : FirstFail s lo n nx) :
    FirstFail s lo (n + m) nx := by
  obtain ⟨j, hj, hs, hn, ha⟩ := h
  exact ⟨j, by omega, hs, hn, ha⟩

theorem FirstFail.after {s : Nat → Bool} {lo n m nx : Nat} (h1 : AllOk s lo n) (h2 : FirstFail s (lo + n) m nx) :
    FirstFail s lo (n + m) nx := by
  obtain ⟨j, hj, hs, hn, ha⟩ := h2
  refine ⟨n + j, by omega, ?_, by omega, AllOk.append h1 ha⟩
  rwa [show lo + (n + j) = lo + n + j by omega]

@[simp] theorem b2n_true : b2n true = 1 := rfl

theorem b2n_le (b : Bool) : b2n b ≤ 1 := by cases b <;> simp [b2n]

theorem optAlloc_true {s : Nat → Bool} {need : Bool} {a a' : A} (h : optAlloc s need a = (true, a')) :
    AllOk s a.next (b2n need) ∧ a'.next = a.next + b2n need ∧ a'.live = a.live + b2n need := by
  unfold optAlloc at h
  cases need with
  | false =>
    simp only [Bool.false_eq_true, if_false, Prod.mk.injEq, true_and] at h
    subst h; simp [b2n, AllOk.zero]
  | true =>
    simp only [if_true] at h
    by_cases hs : s a.next = true
    · simp [hs] at h
    · simp only [hs, Bool.false_eq_true, if_false, Prod.mk.injEq, true_and] at h
      subst h
      refine ⟨?_, by simp [b2n], by simp [b2n]⟩
      intro j hj
      have : j = 0 := by simp [b2n] at hj; omega
      subst this; simpa using hs

theorem optAlloc_false {s : Nat → Bool} {need : Bool} {a a' : A} (h : optAlloc s need a = (false, a')) :
    FirstFail s a.next (b2n need) a'.next ∧ a'.live = a.live := by
  unfold optAlloc at h
  cases need with
  | false => simp at h
  | true =>
    simp only [if_true] at h
    by_cases hs : s a.next = true
    · simp only [hs, if_true, Prod.mk.injEq, true_and] at h
      subst h
      exact ⟨⟨0, by simp [b2n], by simpa using hs, rfl, AllOk.zero _ _⟩, rfl⟩
    · simp [hs] at h

mutual
theorem delFrees_norm : ∀ i : Item, delFrees (norm i) = allocs i
  | .mk k r c vi vd vs nm kids => by
    simp only [norm, delFrees, allocs, Bool.false_eq_true, if_false, delFreesL_norm kids]
    cases c <;> cases nm <;> simp [b2n] <;> omega
theorem delFreesL_norm : ∀ l : List Item, delFreesL (normL l) = allocsL l
  | [] => rfl
  | k :: ks => by simp only [normL, delFreesL, allocsL, delFrees_norm k, delFreesL_norm ks]
end

/-- what `dup`/`dupL` promise, for a request that makes `n` allocation calls when nothing fails -/
def Spec {α : Type} (s : Nat → Bool) (n : Nat) (expect : α) (a : A) : Option α × A → Prop
  | (some c, a') => c = expect ∧ a'.next = a.next + n ∧ a'.live = a.live + n ∧ AllOk s a.next n
  | (none, a') => a'.live = a.live ∧ FirstFail s a.next n a'.next

mutual
theorem dup_spec (s : Nat → Bool) : ∀ (i : Item) (a : A), Spec s (allocs i) (norm i) a (dup s i a)
  | .mk k r c vi vd vs nm kids, a => by
    unfold dup
    cases h1 : optAlloc s true a with
    | mk b1 a1 =>
    cases b1 with
    | false =>
      obtain ⟨hf, hl⟩ := optAlloc_false h1
      exact ⟨hl, by simpa [allocs, Nat.add_assoc] using hf.mono (b2n vs.isSome + b2n (nm.isSome && !c) + allocsL kids)⟩
    | true =>
      obtain ⟨ok1, n1, l1⟩ := optAlloc_true h1
      simp only [b2n_true] at ok1 n1 l1
      dsimp only
      cases h2 : optAlloc s vs.isSome a1 with
      | mk b2 a2 =>
      cases b2 with
      | false =>
        obtain ⟨hf, hl⟩ := optAlloc_false h2
        refine ⟨by dsimp only; omega, ?_⟩
        rw [n1] at hf
        have := (FirstFail.after ok1 hf).mono (b2n (nm.isSome && !c) + allocsL kids)
        simpa [allocs, Nat.add_assoc] using this
      | true =>
        obtain ⟨ok2, n2, l2⟩ := optAlloc_true h2
        dsimp only
        rw [n1] at ok2
        have ok12 := AllOk.append ok1 ok2
        cases h3 : optAlloc s (nm.isSome && !c) a2 with
        | mk b3 a3 =>
        cases b3 with
        | false =>
          obtain ⟨hf, hl⟩ := optAlloc_false h3
          refine ⟨by dsimp only; omega, ?_⟩
          rw [n2, n1, Nat.add_assoc] at hf
          have := (FirstFail.after ok12 hf).mono (allocsL kids)
          simpa [allocs, Nat.add_assoc] using this
        | true =>
          obtain ⟨ok3, n3, l3⟩ := optAlloc_true h3
          dsimp only
          rw [n2, n1, Nat.add_assoc] at ok3
          have ok123 := AllOk.append ok12 ok3
          have ih := dupL_spec s kids a3
          cases h4 : dupL s kids a3 with
          | mk r4 a4 =>
          rw [h4] at ih
          cases r4 with
          | none =>
            obtain ⟨hl, hf⟩ := ih
            refine ⟨by dsimp only; omega, ?_⟩
            rw [n3, n2, n1, show a.next + 1 + b2n vs.isSome + b2n (nm.isSome && !c) = a.next + (1 + b2n vs.isSome + b2n (nm.isSome && !c)) by omega] at hf
            have := FirstFail.after ok123 hf
            simpa [allocs, Nat.add_assoc] using this
          | some cs =>
            obtain ⟨hc, hn, hl, hok⟩ := ih
            rw [n3, n2, n1, show a.next + 1 + b2n vs.isSome + b2n (nm.isSome && !c) = a.next + (1 + b2n vs.isSome + b2n (nm.isSome && !c)) by omega] at hok
            have := AllOk.append ok123 hok
            refine ⟨by simp only [norm, hc], ?_, ?_, by simpa [allocs, Nat.add_assoc] using this⟩
            · simp only [allocs]; omega
            · simp only [allocs]; omega
theorem dupL_spec (s : Nat → Bool) : ∀ (l : List Item) (a : A), Spec s (allocsL l) (normL l) a (dupL s l a)
  | [], a => by simp [dupL, Spec, allocsL, normL, AllOk.zero]
  | k :: ks, a => by
    unfold dupL
    have ih1 := dup_spec s k a
    cases h1 : dup s k a with
    | mk r1 a1 =>
    rw [h1] at ih1
    cases r1 with
    | none =>
      obtain ⟨hl, hf⟩ := ih1
      exact ⟨hl, by simpa [allocsL] using hf.mono (allocsL ks)⟩
    | some c =>
      obtain ⟨hc, hn, hl, hok⟩ := ih1
      dsimp only
      have ih2 := dupL_spec s ks a1
      cases h2 : dupL s ks a1 with
      | mk r2 a2 =>
      rw [h2] at ih2
      cases r2 with
      | none =>
        obtain ⟨hl2, hf2⟩ := ih2
        rw [hn] at hf2
        refine ⟨?_, by simpa [allocsL] using FirstFail.after hok hf2⟩
        dsimp only
        rw [hc, delFrees_norm]; omega
      | some cs =>
        obtain ⟨hc2, hn2, hl2, hok2⟩ := ih2
        rw [hn] at hok2
        refine ⟨by simp only [normL, hc, hc2], ?_, ?_, by simpa [allocsL] using AllOk.append hok hok2⟩
        · simp only [allocsL]; omega
        · simp only [allocsL]; omega
end

mutual
/-- a tree without reference items is its own normal form -/
def noRef : Item → Bool
  | .mk _ r _ _ _ _ _ kids => !r && noRefL kids
def noRefL : List Item → Bool
  | [] => true
  | k :: ks => noRef k && noRefL ks
end

mutual
theorem norm_of_noRef : ∀ i : Item, noRef i = true → norm i = i
  | .mk k r c vi vd vs nm kids, h => by
    simp only [noRef, Bool.and_eq_true, Bool.not_eq_true'] at h
    simp only [norm, normL_of_noRef kids h.2, h.1]
theorem normL_of_noRef : ∀ l : List Item, noRefL l = true → normL l = l
  | [], _ => rfl
  | k :: ks, h => by
    simp only [noRefL, Bool.and_eq_true] at h
    simp only [normL, norm_of_noRef k h.1, normL_of_noRef ks h.2]
end

mutual
theorem norm_idem : ∀ i : Item, norm (norm i) = norm i
  | .mk k r c vi vd vs nm kids => by simp only [norm, normL_idem kids]
theorem normL_idem : ∀ l : List Item, normL (normL l) = normL l
  | [] => rfl
  | k :: ks => by simp only [normL, norm_idem k, normL_idem ks]
end

/-! ### member lookup -/

theorem getItem_some_lt {cs : Bool} {key : Bytes} : ∀ {l : List Item} {j : Nat}, getItem cs key l = some j → j < l.length
  | [], _, h => by simp [getItem] at h
  | k :: ks, j, h => by
    unfold getItem at h
    split at h
    · simp at h; subst h; simp
    · split at h
      · simp at h
      · simp only [Option.map_eq_some_iff] at h
        obtain ⟨j', hj', rfl⟩ := h
        have := getItem_some_lt hj'
        simp; omega

end Cjet.Cjson.TreeOps
