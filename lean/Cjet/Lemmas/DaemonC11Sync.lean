/-
  Cjet.Lemmas.DaemonC11Sync — two runs of the same message from contexts that differ only in send
  results stay in lockstep as long as the results of the *decisive* sends agree: the response sent
  to the requester, and a routed request sent to the owner of the addressed element.
-/
import Cjet.Lemmas.DaemonC11Handlers

namespace Cjet.Daemon.C11

open Cjet Cjet.Json Cjet.Daemon Cjet.Daemon.C05

/-- the shape of a routed request (`routedMessage`): `{"id": <string>, "method": <string>, "params": …}`;
    notifications have no "id", responses no "method" -/
def isRouted : Json → Bool
  | .obj [(a, .str _), (b, .str _), (c, _)] => a == k "id" && b == k "method" && c == k "params"
  | _ => false

theorem isRouted_routedMessage (rid path : Bytes) (isState : Bool) (value : Option Json) :
    isRouted (routedMessage rid path isState value) = true := by
  unfold routedMessage isRouted
  simp

/-- the sends whose result the daemon looks at while it serves a message of `c` -/
def Crit (c : Nat) (d : Nat) (j : Json) : Prop := d = c ∨ isRouted j = true

/-- wherever both output lists have a send to the same peer at the same position and that send is
    decisive, its result is the same in both -/
def AgreeOn (K : Nat → Json → Prop) (o1 o2 : List Obs) : Prop :=
  ∀ (i d : Nat) (j1 j2 : Json) (b1 b2 : Bool),
    o1[i]? = some (Obs.send d j1 b1) → o2[i]? = some (Obs.send d j2 b2) → K d j1 → b1 = b2

/-- `o` (oldest first) begins with the outputs of `z` -/
def Ext (z : Ctx) (o : List Obs) : Prop := ∃ t, o = z.out.reverse ++ t

theorem Ext.refl (z : Ctx) : Ext z z.out.reverse := ⟨[], by simp⟩

theorem Ext.of_grows {z z' : Ctx} {o : List Obs} (hg : ∃ D, z'.out = D ++ z.out) (h : Ext z' o) : Ext z o := by
  obtain ⟨D, hD⟩ := hg
  obtain ⟨t, ht⟩ := h
  exact ⟨D.reverse ++ t, by rw [ht, hD]; simp⟩

theorem AgreeOn.prefix {K : Nat → Json → Prop} {a b a' b' : List Obs} (h : AgreeOn K (a ++ a') (b ++ b')) :
    AgreeOn K a b := by
  intro i d j1 j2 b1 b2 h1 h2 hk
  apply h i d j1 j2 b1 b2 _ _ hk
  · have hi : i < a.length := by
      rcases Nat.lt_or_ge i a.length with hlt | hge
      · exact hlt
      · rw [List.getElem?_eq_none hge] at h1; cases h1
    rw [List.getElem?_append_left hi]; exact h1
  · have hi : i < b.length := by
      rcases Nat.lt_or_ge i b.length with hlt | hge
      · exact hlt
      · rw [List.getElem?_eq_none hge] at h2; cases h2
    rw [List.getElem?_append_left hi]; exact h2

/-- a decisive send has the same result in both runs -/
theorem send_sync {K : Nat → Json → Prop} {x y : Ctx} (h : Sim x y) (d : Nat) (j : Json) (hK : K d j)
    {o1 o2 : List Obs} (e1 : Ext (send x d j).1 o1) (e2 : Ext (send y d j).1 o2) (ha : AgreeOn K o1 o2) :
    (send x d j).2 = (send y d j).2 := by
  obtain ⟨t1, ht1⟩ := e1
  obtain ⟨t2, ht2⟩ := e2
  rw [send_out] at ht1 ht2
  have hl := h.out_length
  have g1 : o1[x.out.length]? = some (Obs.send d j (send x d j).2) := by
    rw [ht1]
    simp only [List.reverse_cons, List.append_assoc, List.singleton_append]
    rw [List.getElem?_append_right (by simp)]
    simp
  have g2 : o2[x.out.length]? = some (Obs.send d j (send y d j).2) := by
    rw [ht2, hl]
    simp only [List.reverse_cons, List.append_assoc, List.singleton_append]
    rw [List.getElem?_append_right (by simp)]
    simp
  exact ha _ d j j _ _ g1 g2 hK

theorem send_grows (z : Ctx) (d : Nat) (j : Json) : ∃ D, (send z d j).1.out = D ++ z.out :=
  ⟨[_], by rw [send_out]; rfl⟩

theorem sendResponse_grows (z : Ctx) (c : Nat) (r : Option Json) : ∃ D, (sendResponse z c r).1.out = D ++ z.out := by
  unfold sendResponse
  split
  · exact ⟨[], rfl⟩
  · exact send_grows _ _ _

theorem sendResponse_sync {K : Nat → Json → Prop} {x y : Ctx} (h : Sim x y) (c : Nat) (r : Option Json)
    (hK : ∀ j, K c j) {o1 o2 : List Obs} (e1 : Ext (sendResponse x c r).1 o1)
    (e2 : Ext (sendResponse y c r).1 o2) (ha : AgreeOn K o1 o2) :
    SimR (sendResponse x c r) (sendResponse y c r) := by
  unfold sendResponse at e1 e2 ⊢
  cases r with
  | none => exact ⟨h, rfl⟩
  | some j => exact ⟨h.send c j, send_sync h c j (hK j) e1 e2 ha⟩

/-! ## set / call -/

/-- what set_or_call does once the routed request has been handed to the owner's connection -/
def routeTail (z : Ctx × Bool) (owner : Nat) (rid : Bytes) (t : Nat) (req : Json) : Ctx × Option Json :=
  if z.2 then (z.1, none)
  else
    (emit { z.1 with st := { z.1.st with peers := removeRoute z.1.st.peers owner rid } } (.timerDestroy t),
     errorFromRequest req INTERNAL_ERROR "reason" (k "could not send routing information"))

theorem routeTail_grows (z : Ctx × Bool) (owner : Nat) (rid : Bytes) (t : Nat) (req : Json) :
    ∃ D, (routeTail z owner rid t req).1.out = D ++ z.1.out := by
  unfold routeTail
  split
  · exact ⟨[], rfl⟩
  · exact ⟨[_], rfl⟩

theorem routeTail_sim {z z' : Ctx × Bool} (h : SimR z z') (owner : Nat) (rid : Bytes) (t : Nat) (req : Json) :
    SimR (routeTail z owner rid t req) (routeTail z' owner rid t req) := by
  unfold routeTail
  rw [← h.2]
  split
  · exact ⟨h.1, rfl⟩
  · exact ⟨(h.1.setSt (fun st => { st with peers := removeRoute st.peers owner rid })).emit _, rfl⟩

theorem routeMain_sync (cfg : Config) {K : Nat → Json → Prop} {x y : Ctx} (h : Sim x y) (p : Peer)
    (req params : Json) (path : Bytes) (isState : Bool) (e : Element) (originId value : Option Json)
    (hK : ∀ j, isRouted j = true → K e.owner j) {o1 o2 : List Obs}
    (e1 : Ext (routeMain cfg x p req params path isState e originId value).1 o1)
    (e2 : Ext (routeMain cfg y p req params path isState e originId value).1 o2) (ha : AgreeOn K o1 o2) :
    SimR (routeMain cfg x p req params path isState e originId value)
      (routeMain cfg y p req params path isState e originId value) := by
  obtain ⟨st, out, sends, iF, rF⟩ := x
  obtain ⟨st', out', sends', iF', rF'⟩ := y
  obtain ⟨h1, h2, h3, h4⟩ := h
  simp only at h1 h2 h3 h4
  subst h1 h2 h3
  unfold routeMain at e1 e2 ⊢
  dsimp only at e1 e2 ⊢
  split
  · exact ⟨⟨rfl, rfl, rfl, h4⟩, rfl⟩
  · next hv =>
    rw [if_neg hv] at e1 e2
    split
    · exact ⟨⟨rfl, rfl, rfl, h4⟩, rfl⟩
    · next tns htn =>
      simp only [htn] at e1 e2
      split
      · exact ⟨⟨rfl, rfl, rfl, by simp [h4]⟩, rfl⟩
      · next hrf =>
        rw [if_neg hrf] at e1 e2
        -- the contexts in which the routed request is sent
        have hs1 : ∀ (S : State), Sim (emit ⟨S, out, sends, iF, rF⟩ (.timerArm st.nextTimer tns))
            (emit ⟨S, out', sends', iF, rF⟩ (.timerArm st.nextTimer tns)) :=
          fun S => Sim.emit (x := ⟨S, out, sends, iF, rF⟩) (y := ⟨S, out', sends', iF, rF⟩) ⟨rfl, rfl, rfl, h4⟩ _
        have hs1 := hs1 { st with
          uuid := (st.uuid + 1) % 4294967296, nextTimer := st.nextTimer + 1,
          peers := updatePeer st.peers e.owner (fun q => { q with routes := q.routes ++ [
            ⟨routedId originId st.uuid p.addrTok, p.conn, e.owner, originId, st.nextTimer⟩] }) }
        have hb := send_sync hs1 e.owner (routedMessage (routedId originId st.uuid p.addrTok) path isState value)
          (hK _ (isRouted_routedMessage _ _ _ _))
          (Ext.of_grows (routeTail_grows _ e.owner (routedId originId st.uuid p.addrTok) st.nextTimer req) e1)
          (Ext.of_grows (routeTail_grows _ e.owner (routedId originId st.uuid p.addrTok) st.nextTimer req) e2) ha
        exact routeTail_sim ⟨hs1.send _ _, hb⟩ e.owner (routedId originId st.uuid p.addrTok) st.nextTimer req

/-- the checks of set_or_call: either the error response, or the arguments of the routing part -/
def setOrCallPlan (cfg : Config) (st : State) (p : Peer) (req : Json) (isState : Bool) :
    Sum (Option Json) (Json × Bytes × Element × Option Json × Option Json) :=
  match getParamsAndPath req with
  | .err r => .inl r
  | .ok params path =>
    match findElement st path with
    | none => .inl (errorFromRequest req INVALID_PARAMS "not exists" path)
    | some e =>
      if e.fetchOnly then .inl (errorFromRequest req INVALID_PARAMS "fetchOnly" path)
      else if isState != e.value.isSome then
        .inl (errorFromRequest req INVALID_PARAMS "set/call on element not possible" path)
      else if !(if isState then hasAccess cfg e.setGroups p.setGroups else hasAccess cfg e.callGroups p.callGroups) then
        .inl (errorFromRequest req INVALID_PARAMS "request not authorized" path)
      else
        match req.getItem (k "id") with
        | some (.str s) => .inr (params, path, e, some (.str s),
            if isState then params.getItem (k "value") else params.getItem (k "args"))
        | some (.num n) => .inr (params, path, e, some (.num n),
            if isState then params.getItem (k "value") else params.getItem (k "args"))
        | none => .inr (params, path, e, none,
            if isState then params.getItem (k "value") else params.getItem (k "args"))
        | some _ => .inl (errorFromRequest req INVALID_PARAMS "request id is neither string nor number" path)

theorem setOrCall_plan (cfg : Config) (x : Ctx) (p : Peer) (req : Json) (isState : Bool) :
    setOrCall cfg x p req isState =
      match setOrCallPlan cfg x.st p req isState with
      | .inl r => (x, r)
      | .inr (params, path, e, oid, value) => routeMain cfg x p req params path isState e oid value := by
  unfold setOrCall setOrCallPlan
  cases h1 : getParamsAndPath req with
  | err r => rfl
  | ok params path =>
    dsimp only
    cases h2 : findElement x.st path with
    | none => rfl
    | some e =>
      dsimp only
      by_cases h3 : e.fetchOnly = true
      · simp only [if_pos h3]
      · simp only [if_neg h3]
        by_cases h4 : (isState != e.value.isSome) = true
        · simp only [if_pos h4]
        · simp only [if_neg h4]
          by_cases h5 : (!(if isState then hasAccess cfg e.setGroups p.setGroups else hasAccess cfg e.callGroups p.callGroups)) = true
          · simp only [if_pos h5]
          · simp only [if_neg h5]
            cases h6 : req.getItem (k "id") with
            | none => rfl
            | some v => cases v <;> rfl

theorem setOrCall_cases (cfg : Config) (x y : Ctx) (hst : x.st = y.st) (p : Peer) (req : Json) (isState : Bool) :
    (∃ r, setOrCall cfg x p req isState = (x, r) ∧ setOrCall cfg y p req isState = (y, r)) ∨
    (∃ params path e oid value,
      setOrCall cfg x p req isState = routeMain cfg x p req params path isState e oid value ∧
      setOrCall cfg y p req isState = routeMain cfg y p req params path isState e oid value) := by
  rw [setOrCall_plan cfg x, setOrCall_plan cfg y, ← hst]
  cases setOrCallPlan cfg x.st p req isState with
  | inl r => exact Or.inl ⟨r, rfl, rfl⟩
  | inr a =>
    obtain ⟨params, path, e, oid, value⟩ := a
    exact Or.inr ⟨params, path, e, oid, value, rfl, rfl⟩

theorem setOrCall_sync (cfg : Config) {K : Nat → Json → Prop} {x y : Ctx} (h : Sim x y) (p : Peer)
    (req : Json) (isState : Bool) (hK : ∀ d j, isRouted j = true → K d j) {o1 o2 : List Obs}
    (e1 : Ext (setOrCall cfg x p req isState).1 o1) (e2 : Ext (setOrCall cfg y p req isState).1 o2)
    (ha : AgreeOn K o1 o2) :
    SimR (setOrCall cfg x p req isState) (setOrCall cfg y p req isState) := by
  rcases setOrCall_cases cfg x y h.1 p req isState with ⟨r, h1, h2⟩ | ⟨params, path, e, oid, value, h1, h2⟩
  · rw [h1, h2]; exact ⟨h, rfl⟩
  · rw [h1] at e1 ⊢
    rw [h2] at e2 ⊢
    exact routeMain_sync cfg h p req params path isState e oid value (fun j hj => hK _ j hj) e1 e2 ha

/-! ## handle_method -/

/-- the methods after change / set / call -/
def restMethod (cfg : Config) (x : Ctx) (p : Peer) (req : Json) (method : Bytes) : Ctx × Option Json :=
  if method == k "add" then addElement cfg x p req
  else if method == k "remove" then removeElementReq x p req
  else if method == k "fetch" then fetchReq cfg x p req
  else if method == k "unfetch" then unfetchReq x p req
  else if method == k "get" then getReq cfg x p req
  else if method == k "config" then configReq x p req
  else if method == k "info" then infoReq cfg x req
  else if method == k "authenticate" then authenticateReq cfg x p req
  else if method == k "passwd" then passwdReq x p req
  else (x, errorFromRequest req METHOD_NOT_FOUND "reason" method)

theorem handleMethod_eq (cfg : Config) (x : Ctx) (p : Peer) (req : Json) (m : Bytes) :
    handleMethod cfg x p req m =
      if m == k "change" then changeState x p req
      else if m == k "set" then setOrCall cfg x p req true
      else if m == k "call" then setOrCall cfg x p req false
      else restMethod cfg x p req m := rfl

theorem ite_ind2 {α : Type} {P : α → α → Prop} (c : Bool) {a b a' b' : α} (ha : P a a') (hb : P b b') :
    P (if c then a else b) (if c then a' else b') := by
  cases c
  · simpa using hb
  · simpa using ha

theorem restMethod_sim (cfg : Config) {x y : Ctx} (h : Sim x y) (p : Peer) (req : Json) (m : Bytes) :
    SimR (restMethod cfg x p req m) (restMethod cfg y p req m) := by
  unfold restMethod
  apply ite_ind2 (P := fun (a b : Ctx × Option Json) => SimR a b) _ (addElement_sim cfg h p req)
  apply ite_ind2 (P := fun (a b : Ctx × Option Json) => SimR a b) _ (removeElementReq_sim h p req)
  apply ite_ind2 (P := fun (a b : Ctx × Option Json) => SimR a b) _ (fetchReq_sim cfg h p req)
  apply ite_ind2 (P := fun (a b : Ctx × Option Json) => SimR a b) _ (unfetchReq_sim h p req)
  apply ite_ind2 (P := fun (a b : Ctx × Option Json) => SimR a b) _ (getReq_sim cfg h p req)
  apply ite_ind2 (P := fun (a b : Ctx × Option Json) => SimR a b) _ (configReq_sim h p req)
  apply ite_ind2 (P := fun (a b : Ctx × Option Json) => SimR a b) _ (infoReq_sim cfg h req)
  apply ite_ind2 (P := fun (a b : Ctx × Option Json) => SimR a b) _ (authenticateReq_sim cfg h p req)
  apply ite_ind2 (P := fun (a b : Ctx × Option Json) => SimR a b) _ (passwdReq_sim h p req)
  exact ⟨h, rfl⟩

theorem handleMethod_sync (cfg : Config) {K : Nat → Json → Prop} {x y : Ctx} (h : Sim x y) (p : Peer)
    (req : Json) (m : Bytes) (hK : ∀ d j, isRouted j = true → K d j) {o1 o2 : List Obs}
    (e1 : Ext (handleMethod cfg x p req m).1 o1) (e2 : Ext (handleMethod cfg y p req m).1 o2)
    (ha : AgreeOn K o1 o2) :
    SimR (handleMethod cfg x p req m) (handleMethod cfg y p req m) := by
  rw [handleMethod_eq cfg x] at e1 ⊢
  rw [handleMethod_eq cfg y] at e2 ⊢
  by_cases h1 : (m == k "change") = true
  · simp only [if_pos h1]; exact changeState_sim h p req
  · simp only [if_neg h1] at e1 e2 ⊢
    by_cases h2 : (m == k "set") = true
    · simp only [if_pos h2] at e1 e2 ⊢
      exact setOrCall_sync cfg h p req true hK e1 e2 ha
    · simp only [if_neg h2] at e1 e2 ⊢
      by_cases h3 : (m == k "call") = true
      · simp only [if_pos h3] at e1 e2 ⊢
        exact setOrCall_sync cfg h p req false hK e1 e2 ha
      · simp only [if_neg h3]
        exact restMethod_sim cfg h p req m

/-! ## parse_json_rpc -/

theorem parseJsonRpc_cases (cfg : Config) (x y : Ctx) (hst : x.st = y.st) (c : Nat) (req : Json) :
    (parseJsonRpc cfg x c req = (x, false) ∧ parseJsonRpc cfg y c req = (y, false)) ∨
    (∃ p m, findPeer x.st.peers c = some p ∧
      parseJsonRpc cfg x c req = sendResponse (handleMethod cfg x p req m).1 c (handleMethod cfg x p req m).2 ∧
      parseJsonRpc cfg y c req = sendResponse (handleMethod cfg y p req m).1 c (handleMethod cfg y p req m).2) ∨
    (∃ r, parseJsonRpc cfg x c req = sendResponse x c r ∧ parseJsonRpc cfg y c req = sendResponse y c r) ∨
    (∃ p payload typ, parseJsonRpc cfg x c req = routingResponse x p req payload typ ∧
      parseJsonRpc cfg y c req = routingResponse y p req payload typ) := by
  obtain ⟨st, out, sends, iF, rF⟩ := x
  obtain ⟨st', out', sends', iF', rF'⟩ := y
  simp only at hst
  subst hst
  unfold parseJsonRpc
  dsimp -zeta only
  split
  · exact Or.inl ⟨rfl, rfl⟩
  · next p hp =>
    split
    · exact Or.inr (Or.inl ⟨p, _, hp, rfl, rfl⟩)
    · exact Or.inr (Or.inr (Or.inl ⟨_, rfl, rfl⟩))
    · split
      · exact Or.inr (Or.inr (Or.inr ⟨p, _, _, rfl, rfl⟩))
      · split
        · exact Or.inr (Or.inr (Or.inr ⟨p, _, _, rfl, rfl⟩))
        · exact Or.inr (Or.inr (Or.inl ⟨_, rfl, rfl⟩))

/-- One JSON-RPC object of connection `c`, processed from two contexts that differ only in send
    results: if the two runs agree on the results of the sends to `c` and of routed requests
    (`Crit c`), they end in contexts that again differ only in send results, with the same
    verdict (keep / drop the connection). -/
theorem parseJsonRpc_sync (cfg : Config) {x y : Ctx} (h : Sim x y) (c : Nat) (req : Json) {o1 o2 : List Obs}
    (e1 : Ext (parseJsonRpc cfg x c req).1 o1) (e2 : Ext (parseJsonRpc cfg y c req).1 o2)
    (ha : AgreeOn (Crit c) o1 o2) :
    SimR (parseJsonRpc cfg x c req) (parseJsonRpc cfg y c req) := by
  rcases parseJsonRpc_cases cfg x y h.1 c req with ⟨h1, h2⟩ | ⟨p, m, _, h1, h2⟩ | ⟨r, h1, h2⟩ | ⟨p, pl, typ, h1, h2⟩
  · rw [h1, h2]; exact ⟨h, rfl⟩
  · rw [h1] at e1 ⊢
    rw [h2] at e2 ⊢
    have hm := handleMethod_sync cfg (K := Crit c) h p req m (fun d j hj => Or.inr hj)
      (Ext.of_grows (sendResponse_grows _ _ _) e1) (Ext.of_grows (sendResponse_grows _ _ _) e2) ha
    rw [← hm.2] at e2 ⊢
    exact sendResponse_sync hm.1 c _ (fun j => Or.inl rfl) e1 e2 ha
  · rw [h1] at e1 ⊢
    rw [h2] at e2 ⊢
    exact sendResponse_sync h c r (fun j => Or.inl rfl) e1 e2 ha
  · rw [h1, h2]
    exact routingResponse_sim h p req pl typ

end Cjet.Daemon.C11
