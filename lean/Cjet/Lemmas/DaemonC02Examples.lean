/-
  C02: a small concrete scenario used by the non-vacuity examples of Props/C02.
  Peer 1 owns state "a"; peer 2 has an accepted, still unanswered `set` (id 5) routed to peer 1.
-/
import Cjet.Lemmas.DaemonC02Ledger

namespace Cjet.Daemon.C02.Ex

open Cjet Cjet.Json Cjet.Daemon

def n (i : Int) : Json := .num ⟨0, i⟩

def addA : Json :=
  .obj [(k "method", .str (k "add")), (k "params", .obj [(k "path", .str [0x61]), (k "value", n 1)]), (k "id", n 1)]

def setA : Json :=
  .obj [(k "method", .str (k "set")), (k "params", .obj [(k "path", .str [0x61]), (k "value", n 2)]), (k "id", n 5)]

def infoReq : Json := .obj [(k "method", .str (k "info")), (k "id", n 7)]

/-- the id the daemon generated for the routed `set`: "(null)_0_" (number origin id, uuid 0, one
    character cut) -/
def rid : Bytes := [40, 110, 117, 108, 108, 41, 95, 48, 95]

def replyA : Json := .obj [(k "id", .str rid), (k "result", .bool true)]

def junk : Json := .obj [(k "id", n 9), (k "foo", .null)]

def setup : List Op :=
  [.connect 1 false true [0x41], .connect 2 false true [0x42], .message 1 (some addA) {}, .message 2 (some setA) {}]

/-- reachable: the state after `setup` from the initial state -/
def sRouted : State := (run {} {} setup).1

/-- `true` iff some observation sends a response object to a connection other than `c` -/
def respToOther (c : Nat) (obs : List Obs) : Bool :=
  obs.any (fun o => match o with | .send d j _ => d != c && isResponse j | _ => false)

theorem respToOther_exists {c : Nat} {obs : List Obs} (h : respToOther c obs = true) :
    ∃ d j b, Obs.send d j b ∈ obs ∧ isResponse j = true ∧ d ≠ c := by
  obtain ⟨o, ho, hf⟩ := List.any_eq_true.1 h
  cases o with
  | send d j b =>
    simp only [Bool.and_eq_true, bne_iff_ne, ne_eq] at hf
    exact ⟨d, j, b, ho, hf.2, hf.1⟩
  | _ => simp at hf

theorem answerable_of_bool {req : Json} (h : answerableB req = true) : Answerable req :=
  answerableB_iff.1 h

deriving instance DecidableEq for Oracle

end Cjet.Daemon.C02.Ex
