/-
  Cjet.Lemmas.DaemonC11Sim — "same but for the send results": two working contexts with the same
  state, the same refusal flags and the same outputs up to the result flags of the sends (the
  oracle lists may be anything).  Every function of the model that ignores the result of its sends
  maps related contexts to related contexts.
-/
import Cjet.Lemmas.DaemonC05Run

namespace Cjet.Daemon.C11

open Cjet Cjet.Json Cjet.Daemon Cjet.Daemon.C05

/-- same state, same table-refusal flags, same outputs up to send results; oracles arbitrary -/
def Sim (x y : Ctx) : Prop :=
  x.st = y.st ∧ x.indexFull = y.indexFull ∧ x.routeFull = y.routeFull ∧ x.out.map strip = y.out.map strip

/-- related contexts and equal second components -/
def SimR {α : Type} (a b : Ctx × α) : Prop := Sim a.1 b.1 ∧ a.2 = b.2

theorem Sim.refl (x : Ctx) : Sim x x := ⟨rfl, rfl, rfl, rfl⟩
theorem Sim.symm {x y : Ctx} (h : Sim x y) : Sim y x := ⟨h.1.symm, h.2.1.symm, h.2.2.1.symm, h.2.2.2.symm⟩
theorem Sim.trans {x y z : Ctx} (h1 : Sim x y) (h2 : Sim y z) : Sim x z :=
  ⟨h1.1.trans h2.1, h1.2.1.trans h2.2.1, h1.2.2.1.trans h2.2.2.1, h1.2.2.2.trans h2.2.2.2⟩

/-- replacing the oracle list does not leave the relation -/
theorem Sim.of_sends (x : Ctx) (l : List Bool) : Sim x { x with sends := l } := ⟨rfl, rfl, rfl, rfl⟩

theorem Sim.out_length {x y : Ctx} (h : Sim x y) : x.out.length = y.out.length := by
  have := congrArg List.length h.2.2.2
  simpa using this

theorem Sim.send' {x y : Ctx} (h : Sim x y) (c : Nat) (j : Json) : Sim (send' x c j) (send' y c j) := by
  obtain ⟨h1, h2, h3, h4⟩ := h
  refine ⟨by simpa using h1, by simpa using h2, by simpa using h3, ?_⟩
  obtain ⟨b1, hb1⟩ := send'_out x c j
  obtain ⟨b2, hb2⟩ := send'_out y c j
  rw [hb1, hb2]; simp [strip, h4]

theorem Sim.send {x y : Ctx} (h : Sim x y) (c : Nat) (j : Json) : Sim (send x c j).1 (send y c j).1 :=
  h.send' c j

theorem Sim.emit {x y : Ctx} (h : Sim x y) (o : Obs) : Sim (emit x o) (emit y o) := by
  obtain ⟨h1, h2, h3, h4⟩ := h
  exact ⟨h1, h2, h3, by simp [h4]⟩

/-- the same state update on both sides -/
theorem Sim.setSt {x y : Ctx} (h : Sim x y) (f : State → State) :
    Sim { x with st := f x.st } { y with st := f y.st } := by
  obtain ⟨h1, h2, h3, h4⟩ := h
  exact ⟨by simp [h1], h2, h3, h4⟩

theorem Sim.setIndexFull {x y : Ctx} (h : Sim x y) (b : Bool) :
    Sim { x with indexFull := b } { y with indexFull := b } := by
  obtain ⟨h1, h2, h3, h4⟩ := h
  exact ⟨h1, rfl, h3, h4⟩

theorem Sim.setRouteFull {x y : Ctx} (h : Sim x y) (b : Bool) :
    Sim { x with routeFull := b } { y with routeFull := b } := by
  obtain ⟨h1, h2, h3, h4⟩ := h
  exact ⟨h1, h2, rfl, h4⟩

theorem foldl_sim {α : Type} (f : Ctx → α → Ctx) (l : List α) {x y : Ctx} (h : Sim x y)
    (hf : ∀ a x y, Sim x y → Sim (f x a) (f y a)) : Sim (l.foldl f x) (l.foldl f y) := by
  induction l generalizing x y with
  | nil => exact h
  | cons a l ih => exact ih (hf a x y h)

theorem foldl_simR {α β : Type} (f : Ctx × β → α → Ctx × β) (l : List α) {a b : Ctx × β} (h : SimR a b)
    (hf : ∀ e a b, SimR a b → SimR (f a e) (f b e)) : SimR (l.foldl f a) (l.foldl f b) := by
  induction l generalizing a b with
  | nil => exact h
  | cons e l ih => exact ih (hf e a b h)

/-! ## notifications -/

theorem notifyOne_sim {x y : Ctx} (h : Sim x y) (e : Element) (fk : FetchKey) (ev : String) :
    Sim (notifyOne x e fk ev) (notifyOne y e fk ev) := by
  unfold notifyOne
  rw [← h.1]
  split
  · exact h.send' _ _
  · exact h

theorem notifyFetchers_sim {x y : Ctx} (h : Sim x y) (e : Element) (ev : String) :
    Sim (notifyFetchers x e ev) (notifyFetchers y e ev) := by
  unfold notifyFetchers
  apply foldl_sim _ _ h
  intro a x y hxy
  split
  · exact notifyOne_sim hxy _ _ _
  · exact hxy

theorem offerElement_sim (cfg : Config) {x y : Ctx} (h : Sim x y) (e : Element) (fp : Peer) (f : Fetch) :
    SimR (offerElement cfg x e fp f) (offerElement cfg y e fp f) := by
  unfold offerElement
  split
  · exact ⟨h, rfl⟩
  · split
    · exact ⟨h.send' _ _, rfl⟩
    · exact ⟨h, rfl⟩

theorem findFetchersForElement_sim (cfg : Config) {x y : Ctx} (h : Sim x y) (e : Element) :
    SimR (findFetchersForElement cfg x e) (findFetchersForElement cfg y e) := by
  unfold findFetchersForElement
  rw [← h.1]
  apply foldl_simR _ _ (a := (x, e)) (b := (y, e)) ⟨h, rfl⟩
  intro fp a b hab
  apply foldl_simR _ _ hab
  intro f a b hab
  obtain ⟨h1, h2⟩ := hab
  rw [h2]
  exact offerElement_sim cfg h1 _ _ _

/-- the same state update, depending on the (equal) second components, on both sides -/
theorem SimR.setSt {α : Type} {a b : Ctx × α} (h : SimR a b) (F : State → α → State) :
    Sim { a.1 with st := F a.1.st a.2 } { b.1 with st := F b.1.st b.2 } := by
  obtain ⟨⟨h1, h2, h3, h4⟩, h5⟩ := h
  exact ⟨by simp [h1, h5], h2, h3, h4⟩

theorem offerStep_sim (cfg : Config) (fp : Peer) (f : Fetch) (owner : Peer) {x y : Ctx} (h : Sim x y)
    (e0 : Element) : Sim (offerStep cfg fp f owner x e0) (offerStep cfg fp f owner y e0) := by
  obtain ⟨st, out, sends, iF, rF⟩ := x
  obtain ⟨st', out', sends', iF', rF'⟩ := y
  obtain ⟨h1, h2, h3, h4⟩ := h
  simp only at h1 h2 h3 h4
  subst h1 h2 h3
  have h : Sim ⟨st, out, sends, iF, rF⟩ ⟨st, out', sends', iF, rF⟩ := ⟨rfl, rfl, rfl, h4⟩
  unfold offerStep
  dsimp only
  exact SimR.setSt (offerElement_sim cfg h _ fp f) (fun st e' => { st with peers := updatePeer st.peers owner.conn (fun q =>
      { q with elements := q.elements.map (fun el => if el.path == e'.path then e' else el) }) })

theorem offerAllElements_sim (cfg : Config) {x y : Ctx} (h : Sim x y) (fp : Peer) (f : Fetch) :
    Sim (offerAllElements cfg x fp f) (offerAllElements cfg y fp f) := by
  have hx : offerAllElements cfg x fp f =
      x.st.peers.foldl (fun x owner => owner.elements.foldl (offerStep cfg fp f owner) x) x := rfl
  have hy : offerAllElements cfg y fp f =
      y.st.peers.foldl (fun x owner => owner.elements.foldl (offerStep cfg fp f owner) x) y := rfl
  rw [hx, hy, ← h.1]
  apply foldl_sim _ _ h
  intro owner x y hxy
  apply foldl_sim _ _ hxy
  intro e0 x y hxy
  exact offerStep_sim cfg fp f owner hxy e0

theorem removeElement_sim {x y : Ctx} (h : Sim x y) (e : Element) :
    Sim (removeElement x e) (removeElement y e) := by
  unfold removeElement
  exact (notifyFetchers_sim h e "remove").setSt (fun st => { st with
    index := removeIndex st.index e.path,
    peers := updatePeer st.peers e.owner (fun q => { q with elements := q.elements.filter (·.path != e.path) }) })

/-! ## teardown -/

theorem clearRoute_sim {x y : Ctx} (h : Sim x y) (r : Route) (c : Nat) :
    Sim (clearRoute x r c) (clearRoute y r c) := by
  unfold clearRoute
  dsimp only
  split
  · exact h.emit _
  · split
    · exact h.emit _
    · split
      · exact (h.emit _).send' _ _
      · exact h.emit _

theorem freePeerResources_sim {x y : Ctx} (h : Sim x y) (c : Nat) :
    Sim (freePeerResources x c) (freePeerResources y c) := by
  rw [freePeerResources_phases, freePeerResources_phases, ← h.1]
  split
  · exact h
  · next p _ =>
    have h1 : Sim (phase1 x c p) (phase1 y c p) := by
      unfold phase1
      exact (foldl_sim _ _ h (fun r x y hxy => clearRoute_sim hxy r c)).setSt
        (fun st => { st with peers := updatePeer st.peers c (fun q => { q with routes := [] }) })
    have h2 : Sim (phase2 (phase1 x c p) c) (phase2 (phase1 y c p) c) := by
      unfold phase2
      dsimp only
      rw [← h1.1]
      exact (foldl_sim _ _ h1 (fun r x y hxy => clearRoute_sim hxy r c)).setSt
        (fun st => { st with peers := st.peers.map (fun (q : Peer) =>
          { q with routes := q.routes.filter (·.requester != c) }) })
    have h3 : Sim (phase3 (phase2 (phase1 x c p) c) c) (phase3 (phase2 (phase1 y c p) c) c) := by
      unfold phase3
      exact h2.setSt (fun st => { st with
        peers := updatePeer (mapElements st.peers (unsub c)) c (fun q => { q with fetches := [] }) })
    have h4 : Sim (phase4 (phase3 (phase2 (phase1 x c p) c) c) c p) (phase4 (phase3 (phase2 (phase1 y c p) c) c) c p) := by
      unfold phase4
      apply foldl_sim _ _ h3
      intro e0 x y hxy
      rw [← hxy.1]
      split
      · exact removeElement_sim hxy _
      · exact hxy
    unfold phase5
    exact h4.setSt (fun st => { st with peers := st.peers.filter (·.conn != c) })

theorem closePeer_sim {x y : Ctx} (h : Sim x y) (c : Nat) : Sim (closePeer x c) (closePeer y c) := by
  unfold closePeer
  exact (freePeerResources_sim h c).emit _

/-! ## routed replies and expiry -/

theorem timeoutFired_sim {x y : Ctx} (h : Sim x y) (t : Nat) : Sim (timeoutFired x t) (timeoutFired y t) := by
  obtain ⟨st, out, sends, iF, rF⟩ := x
  obtain ⟨st', out', sends', iF', rF'⟩ := y
  obtain ⟨h1, h2, h3, h4⟩ := h
  simp only at h1 h2 h3 h4
  subst h1 h2 h3
  have h : Sim ⟨st, out, sends, iF, rF⟩ ⟨st, out', sends', iF, rF⟩ := ⟨rfl, rfl, rfl, h4⟩
  unfold timeoutFired
  dsimp only
  split
  · exact h
  · next r _ =>
    have h1 : Sim ⟨{ st with peers := removeRoute st.peers r.owner r.rid }, out, sends, iF, rF⟩
        ⟨{ st with peers := removeRoute st.peers r.owner r.rid }, out', sends', iF, rF⟩ := ⟨rfl, rfl, rfl, h4⟩
    split
    · exact h1.emit _
    · split
      · exact (h1.send' _ _).emit _
      · exact h1.emit _

theorem routingResponse_sim {x y : Ctx} (h : Sim x y) (p : Peer) (msg payload : Json) (typ : String) :
    SimR (routingResponse x p msg payload typ) (routingResponse y p msg payload typ) := by
  unfold routingResponse
  split
  · next rid _ =>
    split
    · exact ⟨h, rfl⟩
    · next r _ =>
      dsimp only
      have h1 := (h.setSt (fun st => { st with peers := removeRoute st.peers p.conn rid })).emit (.timerDestroy r.timer)
      split
      · exact ⟨h1, rfl⟩
      · split
        · exact ⟨h1.send' _ _, rfl⟩
        · exact ⟨h1, rfl⟩
  · exact ⟨h, rfl⟩

end Cjet.Daemon.C11
