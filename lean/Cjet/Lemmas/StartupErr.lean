import Cjet.Startup
import Cjet.Lemmas.Startup
set_option linter.unusedSimpArgs false
/-!
Success paths of the start-up functions: the exact shape of the trace they emit when they report success,
and the consequence for the monitor of hard failures (`hfStep`): a run_io that returns 0 saw no step fail
for good.
-/
namespace Cjet.Startup

def hfOf (tr : List Ev) : HF := tr.foldl hfStep {}

theorem hfOf_append (tr seg : List Ev) : hfOf (tr ++ seg) = seg.foldl hfStep (hfOf tr) := by
  simp [hfOf, List.foldl_append]

/-- events that leave the monitor alone outside a getaddrinfo window -/
def Ev.quiet (e : Ev) : Bool :=
  !e.failedHard && !e.perAddress && (match e with | .gai _ _ (some _) => false | .freeai => false | _ => true)

theorem hfStep_quiet (s : HF) (e : Ev) (hw : s.win = none) (hq : e.quiet = true) : hfStep s e = s := by
  obtain ⟨w, h⟩ := s
  simp only at hw
  subst hw
  cases e <;> simp_all [Ev.quiet, hfStep, Ev.failedHard, Ev.perAddress]
  all_goals (first | (rename_i o; cases o <;> simp_all [hfStep, Ev.failedHard, Ev.perAddress]) | skip)
  all_goals (first | (rename_i b; cases b <;> simp_all [hfStep, Ev.failedHard, Ev.perAddress]) | skip)

theorem foldl_quiet (seg : List Ev) : ∀ (s : HF), s.win = none → (∀ e ∈ seg, e.quiet = true) → seg.foldl hfStep s = s := by
  induction seg with
  | nil => intro s _ _; rfl
  | cons e seg ih =>
    intro s hw hq
    simp only [List.foldl_cons]
    rw [hfStep_quiet s e hw (hq e List.mem_cons_self)]
    exact ih s hw fun e' h' => hq e' (List.mem_cons_of_mem _ h')

/-- `k'` extends `k` by events that are all quiet -/
def QuietExt (k k' : K) : Prop := ∃ seg, k'.tr = k.tr ++ seg ∧ ∀ e ∈ seg, e.quiet = true

/-- the monitor is outside a window and unchanged -/
def HFSame (k k' : K) : Prop := (hfOf k.tr).win = none → hfOf k'.tr = hfOf k.tr

theorem QuietExt.hfSame {k k' : K} (h : QuietExt k k') : HFSame k k' := by
  intro hw
  obtain ⟨seg, ht, hq⟩ := h
  rw [ht, hfOf_append, foldl_quiet seg _ hw hq]

theorem HFSame.trans {a b c : K} (h1 : HFSame a b) (h2 : HFSame b c) : HFSame a c := by
  intro hw
  have e1 := h1 hw
  rw [h2 (by rw [e1]; exact hw), e1]

theorem HFSame.refl (k : K) : HFSame k k := fun _ => rfl

theorem sys_tr_true (k : K) (mk : Bool → Ev) (h : (k.sys mk).1 = true) : (k.sys mk).2.tr = k.tr ++ [mk true] := by
  have : (k.sys mk).2.tr = k.tr ++ [mk (k.sys mk).1] := rfl
  rw [this, h]

theorem QuietExt.refl (k : K) : QuietExt k k := ⟨[], by simp, by simp⟩

theorem QuietExt.trans {a b c : K} (h1 : QuietExt a b) (h2 : QuietExt b c) : QuietExt a c := by
  obtain ⟨s1, t1, q1⟩ := h1
  obtain ⟨s2, t2, q2⟩ := h2
  refine ⟨s1 ++ s2, by rw [t2, t1, List.append_assoc], ?_⟩
  intro e he
  simp only [List.mem_append] at he
  rcases he with he | he
  · exact q1 e he
  · exact q2 e he

theorem QuietExt.emit (k : K) (e : Ev) (h : e.quiet = true) : QuietExt k (k.emit e) :=
  ⟨[e], rfl, by simpa using h⟩

theorem QuietExt.sys (k : K) (mk : Bool → Ev) (h : (k.sys mk).1 = true) (hq : (mk true).quiet = true) :
    QuietExt k (k.sys mk).2 :=
  ⟨[mk true], sys_tr_true k mk h, by simpa using hq⟩

theorem setNonBlocking_quiet (fd : Nat) (k : K) (h : (setNonBlocking fd k).1 = true) :
    QuietExt k (setNonBlocking fd k).2 := by
  unfold setNonBlocking at h ⊢
  cases h1 : (k.sys (.fcntl fd .getfl)).1
  · simp [h1] at h
  · simp only [h1, if_true] at h ⊢
    exact (QuietExt.sys k _ h1 rfl).trans (QuietExt.sys _ _ h rfl)

theorem openSocket_quiet (f : Fam) (k : K) (fd : Nat) (h : (openSocket f k).1 = some fd) :
    QuietExt k (openSocket f k).2 ∧ (openSocket f k).2.tr = k.tr ++ [.socket f (some fd)] := by
  unfold openSocket at h ⊢
  by_cases ha : k.ans = .ok
  · simp only [ha, if_true, Option.some.injEq] at h ⊢
    subst h
    exact ⟨⟨[_], rfl, by simp [Ev.quiet, Ev.failedHard, Ev.perAddress]⟩, rfl⟩
  · simp [ha] at h

theorem createPlain_quiet (f : Fam) (t : Target) (k : K) (fd : Nat) (h : (createPlain f t k).1 = some fd) :
    QuietExt k (createPlain f t k).2 := by
  unfold createPlain at h ⊢
  cases ho : (openSocket f k).1 with
  | none => rw [ho] at h; simp at h
  | some x =>
    rw [ho] at h
    dsimp only at h ⊢
    have q1 := (openSocket_quiet f k x ho).1
    generalize (openSocket f k).2 = k1 at *
    cases h2 : (k1.sys (.sockopt x .reuse)).1
    · simp [h2] at h
    · simp only [h2, Bool.true_eq_false, if_false] at h ⊢
      have q2 := QuietExt.sys k1 _ h2 rfl
      generalize (k1.sys (.sockopt x .reuse)).2 = k2 at *
      cases h3 : (setNonBlocking x k2).1
      · simp [h3] at h
      · simp only [h3, Bool.true_eq_false, if_false] at h ⊢
        have q3 := setNonBlocking_quiet x k2 h3
        generalize (setNonBlocking x k2).2 = k3 at *
        cases h4 : (k3.sys (.bind x t)).1
        · simp [h4] at h
        · simp only [h4, Bool.true_eq_false, if_false] at h ⊢
          have q4 := QuietExt.sys k3 _ h4 rfl
          generalize (k3.sys (.bind x t)).2 = k4 at *
          cases h5 : (k4.sys (.listen x)).1
          · simp [h5] at h
          · simp only [h5, Bool.true_eq_false, if_false] at h ⊢
            exact (((q1.trans q2).trans q3).trans q4).trans (QuietExt.sys k4 _ h5 rfl)

/-! ## inside the getaddrinfo window -/

def WinEv : Ev → Prop
  | .socket _ _ => True
  | .sockopt _ _ _ => True
  | .fcntl _ _ _ => True
  | .bind _ _ _ => True
  | .close _ => True
  | _ => False

theorem hfStep_win (s : HF) (e : Ev) (bd : Bool) (hw : s.win = some bd) (he : WinEv e) :
    (hfStep s e).hard = s.hard ∧ ∃ bd', (hfStep s e).win = some bd' := by
  obtain ⟨w, h⟩ := s
  simp only at hw
  subst hw
  cases e <;> simp only [WinEv] at he
  · rename_i f o; cases o <;> simp [hfStep, Ev.failedHard, Ev.perAddress]
  · rename_i fd o b; cases b <;> simp [hfStep, Ev.failedHard, Ev.perAddress]
  · rename_i fd o b; cases b <;> simp [hfStep, Ev.failedHard, Ev.perAddress]
  · rename_i fd o b; cases b <;> simp [hfStep, Ev.failedHard, Ev.perAddress]
  · simp [hfStep, Ev.failedHard, Ev.perAddress]

theorem foldl_win (seg : List Ev) : ∀ (s : HF) (bd : Bool), s.win = some bd → (∀ e ∈ seg, WinEv e) →
    (seg.foldl hfStep s).hard = s.hard ∧ ∃ bd', (seg.foldl hfStep s).win = some bd' := by
  induction seg with
  | nil => intro s bd hw _; exact ⟨rfl, bd, hw⟩
  | cons e seg ih =>
    intro s bd hw hq
    simp only [List.foldl_cons]
    obtain ⟨h1, bd', h2⟩ := hfStep_win s e bd hw (hq e List.mem_cons_self)
    obtain ⟨i1, i2⟩ := ih (hfStep s e) bd' h2 fun e' h' => hq e' (List.mem_cons_of_mem _ h')
    exact ⟨by rw [i1, h1], i2⟩

/-- `k'` extends `k` by per-address events -/
def WinExt (k k' : K) : Prop := ∃ seg, k'.tr = k.tr ++ seg ∧ ∀ e ∈ seg, WinEv e

theorem WinExt.refl (k : K) : WinExt k k := ⟨[], by simp, by simp⟩
theorem WinExt.trans {a b c : K} (h1 : WinExt a b) (h2 : WinExt b c) : WinExt a c := by
  obtain ⟨s1, t1, q1⟩ := h1
  obtain ⟨s2, t2, q2⟩ := h2
  refine ⟨s1 ++ s2, by rw [t2, t1, List.append_assoc], ?_⟩
  intro e he
  simp only [List.mem_append] at he
  rcases he with he | he
  · exact q1 e he
  · exact q2 e he
theorem WinExt.emit (k : K) (e : Ev) (h : WinEv e) : WinExt k (k.emit e) := ⟨[e], rfl, by simpa using h⟩
theorem WinExt.sys (k : K) (mk : Bool → Ev) (h : ∀ b, WinEv (mk b)) : WinExt k (k.sys mk).2 :=
  ⟨[mk (k.sys mk).1], rfl, by simpa using h _⟩

theorem openSocket_win (f : Fam) (k : K) : WinExt k (openSocket f k).2 := by
  unfold openSocket
  split
  · exact ⟨[_], rfl, by simp [WinEv]⟩
  · exact ⟨[_], rfl, by simp [WinEv]⟩

theorem setNonBlocking_win (fd : Nat) (k : K) : WinExt k (setNonBlocking fd k).2 := by
  unfold setNonBlocking
  split
  · exact (WinExt.sys k (.fcntl fd .getfl) fun _ => trivial).trans (WinExt.sys _ (.fcntl fd .setfl) fun _ => trivial)
  · exact WinExt.sys k (.fcntl fd .getfl) fun _ => trivial

/-- when the loop over the addresses ends with a bound socket, its trace is per-address events followed by
    the successful bind -/
theorem boundLoop_win (v6 : Bool) (p : Port) : ∀ (n : Nat) (last : Option Nat) (k : K),
    (boundLoop v6 p n last k).2.1 = true →
    ∃ kb fd t, WinExt k kb ∧ (boundLoop v6 p n last k).2.2.tr = kb.tr ++ [.bind fd t true] := by
  intro n
  induction n with
  | zero => intro last k h; simp [boundLoop] at h
  | succ n ih =>
    intro last k h
    have next : ∀ (last' : Option Nat) (k' : K), WinExt k k' → (boundLoop v6 p n last' k').2.1 = true →
        ∃ kb fd t, WinExt k kb ∧ (boundLoop v6 p n last' k').2.2.tr = kb.tr ++ [.bind fd t true] := by
      intro last' k' hw hb
      obtain ⟨kb, fd, t, w, e⟩ := ih last' k' hb
      exact ⟨kb, fd, t, hw.trans w, e⟩
    unfold boundLoop at h ⊢
    have w1 := openSocket_win (if v6 then Fam.inet6 else Fam.inet) k
    cases ho : (openSocket (if v6 then Fam.inet6 else Fam.inet) k).1 with
    | none => rw [ho] at h; dsimp only at h ⊢; exact next _ _ w1 h
    | some x =>
      rw [ho] at h
      dsimp only at h ⊢
      generalize (openSocket (if v6 then Fam.inet6 else Fam.inet) k).2 = k1 at *
      have w2 : WinExt k (k1.sys (.sockopt x .reuse)).2 := w1.trans (WinExt.sys _ (.sockopt x .reuse) fun _ => trivial)
      cases h2 : (k1.sys (.sockopt x .reuse)).1
      · simp only [h2, if_true] at h ⊢
        exact next _ _ (w2.trans (WinExt.emit _ _ trivial)) h
      · simp only [h2, Bool.true_eq_false, if_false] at h ⊢
        generalize (k1.sys (.sockopt x .reuse)).2 = k2 at *
        have w6 : WinExt k (if v6 = true then k2.sys (.sockopt x .v6only) else (true, k2)).2 := by
          cases v6
          · exact w2
          · exact w2.trans (WinExt.sys _ (.sockopt x .v6only) fun _ => trivial)
        generalize (if v6 = true then k2.sys (.sockopt x .v6only) else (true, k2)) = r6 at *
        obtain ⟨b6, k6⟩ := r6
        dsimp only at h w6 ⊢
        cases b6
        · simp only [if_true] at h ⊢
          exact next _ _ (w6.trans (WinExt.emit _ _ trivial)) h
        · simp only [Bool.true_eq_false, if_false] at h ⊢
          have w3 : WinExt k (setNonBlocking x k6).2 := w6.trans (setNonBlocking_win x k6)
          cases h3 : (setNonBlocking x k6).1
          · simp only [h3, if_true] at h ⊢
            exact next _ _ (w3.trans (WinExt.emit _ _ trivial)) h
          · simp only [h3, Bool.true_eq_false, if_false] at h ⊢
            generalize (setNonBlocking x k6).2 = k3 at *
            cases h4 : (k3.sys (.bind x (if v6 then .lo6 p else .lo4 p))).1
            · simp only [h4, Bool.false_eq_true, if_false] at h ⊢
              exact next _ _ ((w3.trans (WinExt.sys _ (.bind x (if v6 then .lo6 p else .lo4 p)) fun _ => trivial)).trans (WinExt.emit _ _ trivial)) h
            · simp only [h4, if_true] at h ⊢
              exact ⟨k3, x, _, w3, sys_tr_true k3 _ h4⟩

theorem createBound_hf (n : Node) (p : Port) (k : K) (fd : Nat) (h : (createBound n p k).1 = some fd) :
    HFSame k (createBound n p k).2 := by
  intro hw
  unfold createBound at h ⊢
  cases hg : gaiEntries k.ans with
  | none => rw [hg] at h; simp at h
  | some cnt =>
    rw [hg] at h
    dsimp only at h ⊢
    have hb := boundLoop_win (decide (n = .lo6)) p cnt none (k.adv.emit (.gai n p (some cnt)))
    generalize boundLoop (decide (n = .lo6)) p cnt none (k.adv.emit (.gai n p (some cnt))) = r at hb h ⊢
    obtain ⟨last, brk, k1⟩ := r
    dsimp only at hb h ⊢
    cases brk
    · cases last <;> simp at h
    · cases last with
      | none => simp at h
      | some x =>
        dsimp only at h ⊢
        obtain ⟨kb, bfd, bt, ⟨seg, hseg, hwin⟩, htr⟩ := hb rfl
        cases hl : ((k1.emit .freeai).sys (.listen x)).1
        · simp [hl] at h
        · simp only [hl, Bool.true_eq_false, if_false]
          rw [sys_tr_true _ _ hl]
          have e : (k1.emit Ev.freeai).tr = k.tr ++ ([.gai n p (some cnt)] ++ seg ++ [.bind bfd bt true, .freeai]) := by
            simp [K.emit, htr, hseg, K.adv]
          rw [e]
          simp only [hfOf_append, List.foldl_append, List.foldl_cons, List.foldl_nil]
          generalize hfOf k.tr = s0 at hw ⊢
          obtain ⟨w0, h0⟩ := s0
          simp only at hw
          subst hw
          have s1 : hfStep { win := none, hard := h0 } (.gai n p (some cnt)) = { win := some false, hard := h0 } := rfl
          rw [s1]
          obtain ⟨f1, bd', f2⟩ := foldl_win seg { win := some false, hard := h0 } false rfl hwin
          generalize List.foldl hfStep { win := some false, hard := h0 } seg = s2 at f1 f2
          obtain ⟨w2, h2⟩ := s2
          simp only at f1 f2
          subst f1 f2
          simp [hfStep, Ev.failedHard, Ev.perAddress]

theorem create_hf (l : LSpec) (k : K) (fd : Nat) (h : (l.create k).1 = some fd) : HFSame k (l.create k).2 := by
  cases l with
  | bound n p kind => exact createBound_hf n p k fd h
  | all p kind => exact (createPlain_quiet .inet6 (.any p) k fd h).hfSame
  | uds => exact (createPlain_quiet .unix .udsAbstract k fd h).hfSame

theorem acceptLoop_quiet (fd : Nat) (kind : Kind) : ∀ (script : List Ans) (nx : Nat) (tr : List Ev),
    (acceptLoop fd kind script nx tr).1 = true →
    ∃ seg, (acceptLoop fd kind script nx tr).2.2.2 = tr ++ seg ∧ ∀ e ∈ seg, e.quiet = true := by
  intro script
  induction script with
  | nil => intro nx tr _; exact ⟨[_], rfl, by simp [Ev.quiet, Ev.failedHard, Ev.perAddress]⟩
  | cons a rest ih =>
    intro nx tr h
    cases a with
    | ok => exact ⟨[_], rfl, by simp [Ev.quiet, Ev.failedHard, Ev.perAddress]⟩
    | addrs n => exact ⟨[_], rfl, by simp [Ev.quiet, Ev.failedHard, Ev.perAddress]⟩
    | fail => simp [acceptLoop] at h
    | retry =>
      simp only [acceptLoop] at h ⊢
      obtain ⟨seg, e, q⟩ := ih nx _ h
      refine ⟨[.accept fd .retry] ++ seg, by rw [e]; simp, ?_⟩
      intro x hx
      simp only [List.mem_append, List.mem_singleton] at hx
      rcases hx with rfl | hx
      · simp [Ev.quiet, Ev.failedHard, Ev.perAddress]
      · exact q x hx
    | conn =>
      simp only [acceptLoop] at h ⊢
      obtain ⟨seg, e, q⟩ := ih (nx + 1) _ h
      refine ⟨[.accept fd (.conn nx), .peer nx kind] ++ seg, by rw [e]; simp, ?_⟩
      intro x hx
      simp only [List.mem_append, List.mem_cons, List.not_mem_nil, or_false] at hx
      rcases hx with (rfl | rfl) | hx
      · simp [Ev.quiet, Ev.failedHard, Ev.perAddress]
      · simp [Ev.quiet, Ev.failedHard, Ev.perAddress]
      · exact q x hx

theorem startServer_quiet (fd : Nat) (kind : Kind) (k : K) (h : (startServer fd kind k).1 = true) :
    QuietExt k (startServer fd kind k).2 := by
  unfold startServer at h ⊢
  cases ha : (k.sys (.add fd kind)).1
  · simp [ha] at h
  · simp only [ha, Bool.true_eq_false, if_false] at h ⊢
    have q1 := QuietExt.sys k (.add fd kind) ha rfl
    generalize (k.sys (.add fd kind)).2 = k1 at *
    cases hp : (acceptPass fd kind k1).1
    · simp [hp] at h
    · simp only [hp, if_true]
      obtain ⟨seg, e, q⟩ := acceptLoop_quiet fd kind k1.script k1.next k1.tr hp
      exact q1.trans ⟨seg, e, q⟩

theorem startListener_hf (l : LSpec) (k : K) (fd : Nat) (h : (startListener l k).1 = some fd) :
    HFSame k (startListener l k).2 := by
  unfold startListener at h ⊢
  cases hc : (l.create k).1 with
  | none => rw [hc] at h; simp at h
  | some x =>
    rw [hc] at h
    dsimp only at h ⊢
    have h1 := create_hf l k x hc
    cases hs : (startServer x l.kind (l.create k).2).1
    · simp [hs] at h
    · simp only [hs, if_true]
      exact h1.trans (startServer_quiet x l.kind _ hs).hfSame

theorem startAll_hf : ∀ (ls : List LSpec) (k : K) (acc : List (LSpec × Nat)), (startAll ls k acc).2.1 = true →
    HFSame k (startAll ls k acc).2.2
  | [], k, acc, _ => HFSame.refl k
  | l :: ls, k, acc, h => by
    unfold startAll at h ⊢
    cases hs : (startListener l k).1 with
    | none => rw [hs] at h; simp at h
    | some fd =>
      rw [hs] at h
      dsimp only at h ⊢
      exact (startListener_hf l k fd hs).trans (startAll_hf ls _ _ h)

theorem registerSignals_quiet (restore : Bool) (k : K) (h : (registerSignals restore k).1 = true) :
    QuietExt k (registerSignals restore k).2 := by
  unfold registerSignals at h ⊢
  dsimp only at h ⊢
  cases h1 : (k.sys (.signal .term .handler)).1
  · simp [h1] at h
  · simp only [h1, Bool.true_eq_false, if_false] at h ⊢
    have q1 := QuietExt.sys k (.signal .term .handler) h1 rfl
    generalize (k.sys (.signal .term .handler)).2 = k1 at *
    cases h2 : (k1.sys (.signal .int .handler)).1
    · simp [h2] at h
    · simp only [h2, Bool.true_eq_false, if_false] at h ⊢
      have q2 := QuietExt.sys k1 (.signal .int .handler) h2 rfl
      generalize (k1.sys (.signal .int .handler)).2 = k2 at *
      cases h3 : (k2.sys (.signal .pipe .ign)).1
      · simp [h3] at h
      · simp only [h3, Bool.true_eq_false, if_false]
        exact (q1.trans q2).trans (QuietExt.sys k2 (.signal .pipe .ign) h3 rfl)

theorem stopEvents_quiet : ∀ (acc : List (LSpec × Nat)), ∀ e ∈ stopEvents acc, e.quiet = true
  | [] => by simp [stopEvents]
  | (l, fd) :: rest => by
    intro e he
    simp only [stopEvents, List.mem_append, List.mem_cons, List.not_mem_nil, or_false] at he
    rcases he with ((rfl | rfl) | he) | he
    · rfl
    · rfl
    · split at he
      · simp only [List.mem_singleton] at he; subst he; rfl
      · simp at he
    · exact stopEvents_quiet rest e he

theorem finish_quiet (c : Cfg) (k : K) : QuietExt k (finish c k) := by
  unfold finish unregisterSignals
  split
  · exact ⟨[.destroyPeers, .destroyConns, .destroy, .signal .int .dfl true, .signal .term .dfl true],
      by simp [K.emit], by simp [Ev.quiet, Ev.failedHard, Ev.perAddress]⟩
  · exact ⟨[.destroy, .signal .int .dfl true, .signal .term .dfl true],
      by simp [K.emit], by simp [Ev.quiet, Ev.failedHard, Ev.perAddress]⟩

/-- a run_io that returns 0 saw no step fail for good -/
theorem run_ok_no_hard_failure (c : Cfg) (script : List Ans) (h : (run c script).1.ret = 0) :
    hardFailures (run c script).2.tr = 0 := by
  show (hfOf (run c script).2.tr).hard = 0
  cases hb : bootPhase c (K.start script) with
  | none =>
    rcases runIo_of_boot_none c _ hb with h' | h' <;> (unfold run at h; rw [h'] at h; simp [IoEnd.ret] at h)
  | some r =>
    obtain ⟨acc, okk, k1⟩ := r
    have he := runIo_of_boot_some c _ acc okk k1 hb
    cases okk
    · unfold run at h; rw [he] at h; simp [IoEnd.ret, StackEnd.ret] at h
    · simp only [if_true] at he
      have hj : (runJet c k1).1 = .ran true := by
        unfold run at h; rw [he] at h
        simp only [IoEnd.ret, StackEnd.ret] at h
        cases hj : (runJet c k1).1 with
        | ran b => cases b <;> simp_all [JetEnd.ret]
        | privFailed => rw [hj] at h; simp [JetEnd.ret] at h
        | daemonFailed => rw [hj] at h; simp [JetEnd.ret] at h
      -- boot phase
      have hboot : HFSame (K.start script) k1 := by
        unfold bootPhase at hb
        cases hs : (registerSignals c.code.restoreOnPipeFail (K.start script)).1
        · simp [hs] at hb
        · simp only [hs, Bool.true_eq_false, if_false] at hb
          have q1 := registerSignals_quiet _ _ hs
          generalize (registerSignals c.code.restoreOnPipeFail (K.start script)).2 = ks at *
          cases hi : (ks.sys .init).1
          · simp [hi] at hb
          · simp only [hi, Bool.true_eq_false, if_false, Option.some.injEq] at hb
            have q2 := QuietExt.sys ks .init hi rfl
            unfold startPhase at hb
            have := startAll_hf (listeners c) (ks.sys .init).2 [] (by rw [hb])
            rw [hb] at this
            exact (q1.trans q2).hfSame.trans this
      obtain ⟨mid, ht, hmid⟩ := runJet_tr c k1 true hj
      have qj : QuietExt k1 (runJet c k1).2 := by
        refine ⟨mid ++ [.run true, .destroyPeers, .destroyConns], by rw [ht, List.append_assoc], ?_⟩
        intro e he
        simp only [List.mem_append, List.mem_cons, List.not_mem_nil, or_false] at he
        rcases he with he | rfl | rfl | rfl
        · rcases hmid e he with rfl | rfl | rfl | rfl <;> rfl
        · rfl
        · rfl
        · rfl
      have qs : QuietExt (runJet c k1).2 (stopAll acc (runJet c k1).2) := ⟨_, stopAll_tr acc _, stopEvents_quiet acc⟩
      have all := hboot.trans ((qj.trans (qs.trans (finish_quiet c _))).hfSame)
      unfold run
      rw [he]
      dsimp only
      rw [all rfl]
      rfl

end Cjet.Startup
