/-
  DaemonC08Fetch — `fetch`: the new subscription is offered every element; only elements the
  subscriber has access to are announced and entered into fetcher tables.
-/
import Cjet.Lemmas.DaemonC08Handlers2

namespace Cjet.Daemon.C08

open Cjet Cjet.Json Cjet.Daemon

/-- the body of the inner loop of `offerAllElements` -/
def offerBody (cfg : Config) (fp : Peer) (f : Fetch) (oc : Nat) (x : Ctx) (e0 : Element) : Ctx :=
  let e := match (findPeer x.st.peers oc).bind (·.elements.find? (·.path == e0.path)) with
    | some e => e | none => e0
  let (x, e') := offerElement cfg x e fp f
  { x with st := { x.st with peers := updatePeer x.st.peers oc (fun q =>
      { q with elements := q.elements.map (fun el => if el.path == e'.path then e' else el) }) } }

theorem offerAllElements_eq (cfg : Config) (x : Ctx) (fp : Peer) (f : Fetch) :
    offerAllElements cfg x fp f =
      x.st.peers.foldl (fun x owner => owner.elements.foldl (offerBody cfg fp f owner.conn) x) x := rfl

theorem update_noop {ps : List Peer} (hn : (ps.map (·.conn)).Nodup) (oc : Nat) (pth : Bytes) (e' : Element)
    (hnone : (findPeer ps oc).bind (·.elements.find? (·.path == pth)) = none) :
    updatePeer ps oc (fun q => { q with elements := q.elements.map (fun el => if el.path == pth then e' else el) }) = ps := by
  rw [updatePeer_eq_map]
  refine (List.map_congr_left (g := fun q => q) ?_).trans (List.map_id' ps)
  intro q hq
  split
  · rename_i hc
    have hc' : q.conn = oc := by simpa using hc
    have hf : findPeer ps oc = some q := hc' ▸ findPeer_of_mem hn hq
    rw [hf] at hnone
    simp only [Option.bind_some] at hnone
    have hall := List.find?_eq_none.mp hnone
    have : q.elements.map (fun el => if el.path == pth then e' else el) = q.elements := by
      refine (List.map_congr_left (g := fun el => el) ?_).trans (List.map_id' _)
      intro el hel
      have := hall el hel
      simp only [this]
      rfl
    rw [this]
  · rfl

structure OInv (cfg : Config) (s0 : State) (d : Option (Bytes × Nat)) (fp : Peer) (f : Fetch) (x0 x : Ctx) : Prop where
  inv : FInv cfg x.st
  fp : ∃ q, findPeer x.st.peers fp.conn = some q ∧ q.fetchGroups = fp.fetchGroups ∧ f.uid ∈ fuids q
  prov : ∀ o ∈ x.st.peers, ∀ e ∈ o.elements, ElemIn s0 e.path e.fetchGroups
  auth : AuthSame x0.st x.st
  out : OutExt (J cfg s0 d) x0 x

def replG (oc : Nat) (pth : Bytes) (e' : Element) (q : Peer) : Peer :=
  if q.conn == oc then { q with elements := q.elements.map (fun el => if el.path == pth then e' else el) } else q

theorem replace_keeps (oc : Nat) (pth : Bytes) (e' : Element) : Keeps (replG oc pth e') :=
  Keeps.ite _ (keeps_elements _)

theorem updatePeer_replG (ps : List Peer) (oc : Nat) (pth : Bytes) (e' : Element) :
    updatePeer ps oc (fun q => { q with elements := q.elements.map (fun el => if el.path == pth then e' else el) }) =
      ps.map (replG oc pth e') := rfl

theorem replace_mem {oc : Nat} {pth : Bytes} {e' : Element} {q : Peer} {el : Element}
    (h : el ∈ (replG oc pth e' q).elements) :
    el = e' ∨ el ∈ q.elements := by
  unfold replG at h
  split at h
  · obtain ⟨el0, h0, rfl⟩ := List.mem_map.mp h
    split
    · exact Or.inl rfl
    · exact Or.inr h0
  · exact Or.inr h

theorem offerBody_step {cfg : Config} {s0 : State} {d : Option (Bytes × Nat)} {fp : Peer} {f : Fetch} {x0 x : Ctx}
    (hfp0 : ∃ p0, findPeer s0.peers fp.conn = some p0 ∧ p0.fetchGroups = fp.fetchGroups)
    (hI : OInv cfg s0 d fp f x0 x) (oc : Nat) (e0 : Element) (he0 : ElemIn s0 e0.path e0.fetchGroups) :
    OInv cfg s0 d fp f x0 (offerBody cfg fp f oc x e0) := by
  unfold offerBody
  cases hrb : (findPeer x.st.peers oc).bind (·.elements.find? (·.path == e0.path)) with
  | none =>
    simp only
    obtain ⟨o1, _, _, o4, t, ht, _⟩ := offerElement_spec (cfg := cfg) (s0 := s0) (d := d) x e0 fp f hfp0 (Or.inl he0)
    generalize offerElement cfg x e0 fp f = r at o1 o4 ht
    obtain ⟨x1, e1⟩ := r
    simp only at o1 o4 ht ⊢
    have hpath : e1.path = e0.path := by rw [ht]
    have hnoop := update_noop hI.inv.nodup oc e1.path e1 (by rw [hpath]; exact hrb)
    rw [o1, hnoop]
    exact ⟨hI.inv.of_peers_eq rfl, hI.fp, hI.prov, hI.auth.trans (AuthSame.of_eq rfl rfl),
      hI.out.trans (o4.congr_right rfl)⟩
  | some e =>
    simp only
    obtain ⟨q, hq, hfind⟩ := Option.bind_eq_some_iff.mp hrb
    have hqm : q ∈ x.st.peers := findPeer_mem hq
    have hem : e ∈ q.elements := List.mem_of_find?_eq_some hfind
    have hprov : ElemIn s0 e.path e.fetchGroups := hI.prov q hqm e hem
    obtain ⟨o1, _, _, o4, t, ht, hmem⟩ := offerElement_spec (cfg := cfg) (s0 := s0) (d := d) x e fp f hfp0 (Or.inl hprov)
    generalize offerElement cfg x e fp f = r at o1 o4 ht
    obtain ⟨x1, e1⟩ := r
    simp only at o1 o4 ht ⊢
    have hok1 : ElemOK cfg x.st.peers e1 := by
      intro fk hfk
      rw [ht] at hfk ⊢
      rcases hmem fk hfk with h | ⟨rfl, ha⟩
      · exact hI.inv.fetchers q hqm e hem fk h
      · obtain ⟨q', h1, h2, h3⟩ := hI.fp
        exact ⟨q', h1, h3, h2 ▸ ha⟩
    have hk := replace_keeps oc e1.path e1
    rw [o1, updatePeer_replG]
    refine ⟨hI.inv.map hk ?_ rfl, ?_, ?_, hI.auth.trans (AuthSame.of_map hk.1 rfl rfl),
      hI.out.trans (o4.congr_right rfl)⟩
    · intro q' hq' el hel
      rcases replace_mem hel with rfl | h
      · exact hok1
      · exact hI.inv.fetchers q' hq' el h
    · obtain ⟨q', h1, h2, h3⟩ := hI.fp
      refine ⟨replG oc e1.path e1 q', ?_, ?_, ?_⟩
      · show findPeer (x.st.peers.map (replG oc e1.path e1)) fp.conn = _
        rw [findPeer_map hk.conn, h1]; rfl
      · rw [(hk.1 q').2.2.1]; exact h2
      · simpa [fuids, hk.2 q'] using h3
    · intro o ho el hel
      change o ∈ x.st.peers.map (replG oc e1.path e1) at ho
      obtain ⟨o0, ho0, rfl⟩ := List.mem_map.mp ho
      rcases replace_mem hel with rfl | h
      · rw [ht]; exact hprov
      · exact hI.prov o0 ho0 el h

theorem offer_inner {cfg : Config} {s0 : State} {d : Option (Bytes × Nat)} {fp : Peer} {f : Fetch} {x0 : Ctx}
    (hfp0 : ∃ p0, findPeer s0.peers fp.conn = some p0 ∧ p0.fetchGroups = fp.fetchGroups) (oc : Nat)
    (es : List Element) (hes : ∀ e0 ∈ es, ElemIn s0 e0.path e0.fetchGroups) (x : Ctx) (hI : OInv cfg s0 d fp f x0 x) :
    OInv cfg s0 d fp f x0 (es.foldl (offerBody cfg fp f oc) x) := by
  induction es generalizing x with
  | nil => exact hI
  | cons e0 rest ih =>
    simp only [List.foldl_cons]
    exact ih (fun e he => hes e (List.mem_cons_of_mem _ he)) _
      (offerBody_step hfp0 hI oc e0 (hes e0 (List.mem_cons_self ..)))

theorem offer_outer {cfg : Config} {s0 : State} {d : Option (Bytes × Nat)} {fp : Peer} {f : Fetch} {x0 : Ctx}
    (hfp0 : ∃ p0, findPeer s0.peers fp.conn = some p0 ∧ p0.fetchGroups = fp.fetchGroups)
    (ps : List Peer) (hps : ∀ o ∈ ps, ∀ e0 ∈ o.elements, ElemIn s0 e0.path e0.fetchGroups) (x : Ctx)
    (hI : OInv cfg s0 d fp f x0 x) :
    OInv cfg s0 d fp f x0 (ps.foldl (fun x owner => owner.elements.foldl (offerBody cfg fp f owner.conn) x) x) := by
  induction ps generalizing x with
  | nil => exact hI
  | cons o rest ih =>
    simp only [List.foldl_cons]
    exact ih (fun o' ho' => hps o' (List.mem_cons_of_mem _ ho')) _
      (offer_inner hfp0 o.conn o.elements (hps o (List.mem_cons_self ..)) x hI)

theorem getFetchId_err {req : Json} {b : Bool} {r : Option Json} (hg : getFetchId req b = .err r) :
    ∀ j, r = some j → idFirst j = true := by
  unfold getFetchId at hg
  split at hg
  · injection hg with hg; subst hg; exact fun j hj => idFirst_errorFromRequest hj
  · split at hg
    · injection hg with hg; subst hg; exact fun j hj => idFirst_errorFromRequest hj
    · split at hg
      · injection hg with hg; subst hg; exact fun j hj => idFirst_errorFromRequest hj
      · cases hg
      · cases hg
      · injection hg with hg; subst hg; exact fun j hj => idFirst_errorFromRequest hj

def addFetchG (c : Nat) (f : Fetch) (q : Peer) : Peer :=
  if q.conn == c then { q with fetches := q.fetches ++ [f] } else q

theorem addFetchG_keepsA (c : Nat) (f : Fetch) : KeepsA (addFetchG c f) := by
  intro q; unfold addFetchG; split <;> exact ⟨rfl, rfl, rfl, rfl, rfl⟩

theorem addFetchG_elements (c : Nat) (f : Fetch) (q : Peer) : (addFetchG c f q).elements = q.elements := by
  unfold addFetchG; split <;> rfl

theorem addFetchG_fuids (c : Nat) (f : Fetch) (q : Peer) (u : Nat) (hu : u ∈ fuids q) : u ∈ fuids (addFetchG c f q) := by
  unfold addFetchG; split
  · simp only [fuids, List.map_append, List.mem_append]; exact Or.inl hu
  · exact hu

theorem fetchReq_good {cfg : Config} {d : Option (Bytes × Nat)} {x : Ctx} {p : Peer} {req : Json}
    (h : FInv cfg x.st) (hp : findPeer x.st.peers p.conn = some p) :
    Good cfg d p.conn req x (fetchReq cfg x p req) := by
  unfold fetchReq
  cases hg : getFetchId req true with
  | err r => exact Good.same h (getFetchId_err hg)
  | ok params fid =>
    simp only
    split
    · exact Good.err h _ _ _
    · cases hr : createRule cfg params with
      | err code reason => exact Good.err h _ _ _
      | ok rule =>
        simp only
        generalize hf : ({ uid := x.st.nextUid, fid := fid, rule := rule } : Fetch) = f
        -- the state with the new subscription
        have hs1 : updatePeer x.st.peers p.conn (fun q => { q with fetches := q.fetches ++ [f] }) =
            x.st.peers.map (addFetchG p.conn f) := rfl
        rw [hs1]
        have hfind1 : findPeer (x.st.peers.map (addFetchG p.conn f)) p.conn = some (addFetchG p.conn f p) := by
          rw [findPeer_map (addFetchG_keepsA p.conn f).conn, hp]; rfl
        rw [hfind1]
        simp only
        have hfpval : addFetchG p.conn f p = { p with fetches := p.fetches ++ [f] } := by
          simp [addFetchG]
        generalize hfp : addFetchG p.conn f p = fp at hfpval
        have hfpc : fp.conn = p.conn := by rw [hfpval]
        have hfpg : fp.fetchGroups = p.fetchGroups := by rw [hfpval]
        have hfpu : f.uid ∈ fuids fp := by rw [hfpval]; simp [fuids]
        generalize hx1 : ({ st := _, out := x.out, sends := x.sends, indexFull := x.indexFull, routeFull := x.routeFull } : Ctx) = x1
        have hx1p : x1.st.peers = x.st.peers.map (addFetchG p.conn f) := by rw [← hx1]
        have hx1u : x1.st.users = x.st.users := by rw [← hx1]
        have hx1o : x1.out = x.out := by rw [← hx1]
        have hinv1 : FInv cfg x1.st := by
          constructor
          · rw [hx1p, map_conn_of_keepsA (addFetchG_keepsA p.conn f)]; exact h.nodup
          · intro o ho e he fk hfk
            rw [hx1p] at ho ⊢
            obtain ⟨o0, ho0, rfl⟩ := List.mem_map.mp ho
            rw [addFetchG_elements] at he
            refine (h.fetchers o0 ho0 e he fk hfk).transfer ?_
            intro q hq hu
            refine ⟨addFetchG p.conn f q, ?_, addFetchG_fuids _ _ _ _ hu, (addFetchG_keepsA p.conn f q).2.2.1⟩
            rw [findPeer_map (addFetchG_keepsA p.conn f).conn, hq]; rfl
        have hprov1 : ∀ o ∈ x1.st.peers, ∀ e ∈ o.elements, ElemIn x.st e.path e.fetchGroups := by
          intro o ho e he
          rw [hx1p] at ho
          obtain ⟨o0, ho0, rfl⟩ := List.mem_map.mp ho
          rw [addFetchG_elements] at he
          exact ⟨o0, ho0, e, he, rfl, rfl⟩
        have hI : OInv cfg x.st d fp f x1 x1 :=
          ⟨hinv1, ⟨fp, by rw [hx1p, hfpc, ← hfp]; exact hfind1, rfl, hfpu⟩, hprov1, AuthSame.refl _, OutExt.refl _ _⟩
        have hfp0 : ∃ p0, findPeer x.st.peers fp.conn = some p0 ∧ p0.fetchGroups = fp.fetchGroups :=
          ⟨p, by rw [hfpc]; exact hp, hfpg.symm⟩
        have hfin := offer_outer (cfg := cfg) (d := d) hfp0 x1.st.peers hprov1 x1 hI
        rw [← offerAllElements_eq] at hfin
        refine ⟨hfin.inv, hfin.out.congr_left hx1o.symm, fun _ hj => idFirst_successFromRequest hj, Or.inl ?_⟩
        exact (AuthSame.of_map (addFetchG_keepsA p.conn f) hx1u hx1p).trans hfin.auth

end Cjet.Daemon.C08
