/-
  C04 — `step` and `run`: the invariant, and who can change what.
-/
import Cjet.Lemmas.DaemonC04Step

namespace Cjet.Daemon.C04

open Cjet Cjet.Json Cjet.Daemon

theorem wfs_init (us : List User) : WFS ({ users := us } : State) := wfp_nil

theorem closePeer_spec {x : Ctx} {c : Nat} (hwf : WFS x.st) :
    WFS (closePeer x c).st ∧ image (closePeer x c).st.peers = (image x.st.peers).filter (·.1 != c) :=
  freePeerResources_spec hwf

/-- a message of `c`: well-formedness is kept and no list but `c`'s changes -/
theorem step_message {cfg : Config} {s : State} {c : Nat} {msg : Option Json} {o : Oracle} (hwf : WFS s) :
    WFS (step cfg s (.message c msg o)).1 ∧
    (image (step cfg s (.message c msg o)).1.peers).filter (·.1 != c) = (image s.peers).filter (·.1 != c) := by
  simp only [step]
  split
  · exact ⟨hwf, rfl⟩
  · have h1 := parseMessage_own cfg (mkCtx s o) c msg hwf
    cases hok : (parseMessage cfg (mkCtx s o) c msg).2 with
    | true =>
      simp only [↓reduceIte]
      exact ⟨h1.wfs, h1.others⟩
    | false =>
      simp only [Bool.false_eq_true, ↓reduceIte]
      have h2 := closePeer_spec (c := c) h1.wfs
      refine ⟨h2.1, ?_⟩
      rw [h2.2, List.filter_filter]
      simp only [Bool.and_self]
      exact h1.others

theorem step_disconnect {cfg : Config} {s : State} {c : Nat} {o : Oracle} (hwf : WFS s) :
    WFS (step cfg s (.disconnect c o)).1 ∧
    image (step cfg s (.disconnect c o)).1.peers = (image s.peers).filter (·.1 != c) := by
  simp only [step]
  split
  · rename_i hnone
    refine ⟨hwf, ?_⟩
    have : findPeer s.peers c = none := by
      cases hf : findPeer s.peers c with
      | none => rfl
      | some p => rw [hf] at hnone; cases hnone
    have := findPeer_none_iff.1 this
    rw [← image_conns] at this
    symm
    rw [List.filter_eq_self]
    rintro ⟨o', l⟩ hm
    have : o' ≠ c := by
      rintro rfl
      exact this (List.mem_map.2 ⟨(o', l), hm, rfl⟩)
    simpa using this
  · exact closePeer_spec (x := mkCtx s o) hwf

theorem step_timerFire {cfg : Config} {s : State} {t : Nat} {o : Oracle} :
    store (step cfg s (.timerFire t o)).1 = store s := by
  simp only [step]
  exact timeoutFired_frame (mkCtx s o) t

theorem step_connect {cfg : Config} {s : State} {c : Nat} {ws isLocal : Bool} {addr : Bytes} (hwf : WFS s) :
    WFS (step cfg s (.connect c ws isLocal addr)).1 ∧
    absElems (step cfg s (.connect c ws isLocal addr)).1 = absElems s := by
  simp only [step]
  split
  · exact ⟨hwf, rfl⟩
  · rename_i hnone
    have hnone : findPeer s.peers c = none := by
      cases hf : findPeer s.peers c with
      | none => rfl
      | some p => rw [hf] at hnone; simp at hnone
    have := findPeer_none_iff.1 hnone
    rw [← image_conns] at this
    constructor
    · show WFP _ _
      simp only [image_append]
      exact wfp_connect hwf this
    · simp only [absElems_eq_imElems, image_append, imElems, List.flatMap_append]
      simp [image, peerAbs]

theorem wfs_step (cfg : Config) (s : State) (op : Op) (hwf : WFS s) : WFS (step cfg s op).1 := by
  cases op with
  | connect c ws isLocal addr => exact (step_connect hwf).1
  | message c msg o => exact (step_message hwf).1
  | disconnect c o => exact (step_disconnect hwf).1
  | timerFire t o => exact wfs_of_store_eq step_timerFire hwf

theorem wfs_run (cfg : Config) (ops : List Op) (s : State) (hwf : WFS s) : WFS (run cfg s ops).1 := by
  induction ops generalizing s with
  | nil => exact hwf
  | cons op rest ih =>
    simp only [run]
    exact ih _ (wfs_step cfg s op hwf)

/-! ## transfer to the abstraction -/

theorem absElems_filter_owner {s : State} (hwf : WFS s) (c : Nat) :
    (absElems s).filter (fun x => x.2.owner != c) = imElems ((image s.peers).filter (·.1 != c)) := by
  rw [absElems_eq_imElems]
  exact imElems_filter_owner hwf.owner c

theorem absElems_others {s s' : State} {c : Nat} (hwf : WFS s) (hwf' : WFS s')
    (h : (image s'.peers).filter (·.1 != c) = (image s.peers).filter (·.1 != c)) :
    (absElems s').filter (fun x => x.2.owner != c) = (absElems s).filter (fun x => x.2.owner != c) := by
  rw [absElems_filter_owner hwf, absElems_filter_owner hwf', h]

theorem absElems_closed {s s' : State} {c : Nat} (hwf : WFS s)
    (h : image s'.peers = (image s.peers).filter (·.1 != c)) :
    absElems s' = (absElems s).filter (fun x => x.2.owner != c) := by
  rw [absElems_filter_owner hwf, absElems_eq_imElems, h]

/-- if `c` is not (or no longer) a peer, nothing is filtered -/
theorem filter_conn_of_gone {ps : List Peer} {c : Nat} (h : findPeer ps c = none) :
    (image ps).filter (·.1 != c) = image ps := by
  have := findPeer_none_iff.1 h
  rw [← image_conns] at this
  rw [List.filter_eq_self]
  rintro ⟨o', l⟩ hm
  have : o' ≠ c := by
    rintro rfl
    exact this (List.mem_map.2 ⟨(o', l), hm, rfl⟩)
  simpa using this

end Cjet.Daemon.C04
