/-
  C01 — the element-side primitives (remove, add, refused add, change) as transitions:
  invariant, replica step, origin of the notifications.
-/
import Cjet.Lemmas.DaemonC01Inv

namespace Cjet.Daemon.C01

open Cjet Cjet.Json Cjet.Daemon

/-! ## helpers -/

theorem allElems_path_unique {cfg : Config} {s : State} (inv : Inv cfg s) {e e' : Element}
    (he : e ∈ allElems s) (he' : e' ∈ allElems s) (hp : e.path = e'.path) : e = e' := by
  obtain ⟨q, hq, hqe⟩ := mem_allElems.1 he
  obtain ⟨q', hq', hqe'⟩ := mem_allElems.1 he'
  exact (path_unique inv.elems inv.fetches hq hqe hq' hqe' hp).2

theorem TblOK.congr_elem' {cfg : Config} {ps : List Peer} {e e' : Element}
    (hk : (keys e'.fetchers).Perm (keys e.fetchers))
    (hv : ∀ pg r, visible cfg pg r e' = visible cfg pg r e) (ok : TblOK cfg ps e) : TblOK cfg ps e' := by
  refine ⟨hk.nodup_iff.2 ok.nodup, ?_, ?_⟩
  · intro fk hfk
    exact ok.live fk (hk.mem_iff.1 hfk)
  · intro p hp f hf
    rw [hk.mem_iff, hv]
    exact ok.char p hp f hf

theorem hasFid_of_origin {cfg : Config} {s : State} (inv : Inv cfg s) {cn : Nat × Notif}
    (h : ∃ p ∈ s.peers, p.conn = cn.1 ∧ ∃ g ∈ p.fetches, g.fid = cn.2.fid) : HasFid s cn.1 cn.2.fid := by
  obtain ⟨p, hp, hc, g, hg, hfid⟩ := h
  exact ⟨p, hp, hc, g, hg, hfid ▸ inv.fetches.fidOk p hp g hg⟩

theorem evNotif_congr {ps ps' : List Peer} (h : ps'.map fcore = ps.map fcore) (e : Element) (ev : Event) :
    evNotif e ev ps' = evNotif e ev ps := by
  funext fk
  unfold evNotif
  rw [findFetch_congr h]

/-- the table built by `find_fetchers_for_element` is right -/
theorem tblOK_new {cfg : Config} {s : State} (inv : Inv cfg s) {e : Element}
    (hk : (keys e.fetchers).Perm (newKeys cfg s.peers e)) : TblOK cfg s.peers e := by
  refine ⟨hk.nodup_iff.2 (newKeys_nodup inv.fetches.connNodup inv.fetches.uidNodup e), ?_, ?_⟩
  · intro fk hfk
    obtain ⟨p, hp, f, hf, _, rfl⟩ := mem_newKeys.1 (hk.mem_iff.1 hfk)
    exact ⟨p, hp, rfl, f, hf, rfl⟩
  · intro p hp f hf
    rw [hk.mem_iff, mem_newKeys]
    constructor
    · rintro ⟨p2, hp2, f2, hf2, hv, heq⟩
      simp only [FetchKey.mk.injEq] at heq
      have : p2 = p := eq_of_conn_eq inv.fetches.connNodup hp2 hp heq.1.symm
      subst this
      have : f2 = f := nodup_map_inj (inv.fetches.uidNodup p2 hp) hf2 hf heq.2.symm
      subst this
      exact hv
    · intro hv
      exact ⟨p, hp, f, hf, hv, rfl⟩

/-- what `Alive` gives -/
theorem Alive.unpack {cfg : Config} {s : State} (inv : Inv cfg s) {c pg : Nat} {f : Fetch}
    (h : Alive s c pg f) : ∃ p ∈ s.peers, p.conn = c ∧ p.fetchGroups = pg ∧ f ∈ p.fetches ∧
      (p.fetches.map (·.uid)).Nodup ∧ p.fetches.Pairwise (fun a b => idsEqual a.fid b.fid = false) ∧
      idsEqual f.fid f.fid = true := by
  obtain ⟨p, hp, h1, h2, h3⟩ := h
  exact ⟨p, hp, h1, h2, h3, inv.fetches.uidNodup p hp, inv.fetches.fidDistinct p hp,
    inv.fetches.fidOk p hp f h3⟩

/-! ## remove -/

theorem mem_updatePeer_elems {ps : List Peer} {c : Nat} {F : List Element → List Element} {p' : Peer}
    (h : p' ∈ updatePeer ps c (fun q => { q with elements := F q.elements })) :
    ∃ p ∈ ps, p'.conn = p.conn ∧ p'.fetches = p.fetches ∧
      ((p.conn = c ∧ p'.elements = F p.elements) ∨ (p.conn ≠ c ∧ p'.elements = p.elements)) := by
  obtain ⟨p, hp, rfl⟩ := mem_updatePeer.1 h
  refine ⟨p, hp, ?_⟩
  by_cases hc : p.conn = c
  · simp [hc]
  · have : (p.conn == c) = false := by simp [hc]
    simp [this, hc]

def rmState (s : State) (e : Element) : State :=
  { s with
    index := removeIndex s.index e.path,
    peers := updatePeer s.peers e.owner (fun q => { q with elements := q.elements.filter (·.path != e.path) }) }

theorem removeElement_spec (x : Ctx) (e : Element) :
    (removeElement x e).st = rmState x.st e ∧
    Emits x (removeElement x e) ((keys e.fetchers).filterMap (evNotif e .remove x.st.peers)) := by
  obtain ⟨h1, h2⟩ := notifyFetchers_spec x e .remove
  unfold removeElement rmState
  refine ⟨?_, h2.of_out_eq rfl⟩
  have h1' : (notifyFetchers x e "remove").st = x.st := h1
  simp only [h1']

theorem mem_allElems_rmState {cfg : Config} {s : State} (inv : Inv cfg s) {q : Peer} (hq : q ∈ s.peers)
    {e : Element} (he : e ∈ q.elements) {e' : Element} :
    e' ∈ allElems (rmState s e) ↔ e' ∈ allElems s ∧ e'.path ≠ e.path := by
  have ho : e.owner = q.conn := inv.elems.owner q hq e he
  unfold allElems rmState
  simp only
  rw [ho, mem_allElems_updatePeer inv.fetches.connNodup hq (fun l => l.filter (·.path != e.path))]
  simp only [List.mem_filter, List.mem_flatMap]
  constructor
  · rintro (⟨h1, h2⟩ | ⟨q', hq', hc, h2⟩)
    · exact ⟨⟨q, hq, h1⟩, by simpa using h2⟩
    · refine ⟨⟨q', hq', h2⟩, ?_⟩
      intro hp
      exact hc (congrArg (·.conn) (path_unique inv.elems inv.fetches hq' h2 hq he hp).1)
  · rintro ⟨⟨q', hq', h2⟩, hne⟩
    by_cases hc : q'.conn = q.conn
    · have : q' = q := eq_of_conn_eq inv.fetches.connNodup hq' hq hc
      subst this
      left; exact ⟨h2, by simpa using hne⟩
    · right; exact ⟨q', hq', hc, h2⟩

theorem trans_remove {cfg : Config} {s : State} (inv : Inv cfg s) {q : Peer} (hq : q ∈ s.peers)
    {e : Element} (he : e ∈ q.elements) :
    TransN cfg s (rmState s e) ((keys e.fetchers).filterMap (evNotif e .remove s.peers)) := by
  have ho : e.owner = q.conn := inv.elems.owner q hq e he
  have heall : e ∈ allElems s := mem_allElems.2 ⟨q, hq, he⟩
  have hfc : (rmState s e).peers.map fcore = s.peers.map fcore :=
    map_updatePeer_congr fcore _ _ _ (fun _ => rfl)
  have hmem := @mem_allElems_rmState cfg s inv q hq e he
  have hinv : Inv cfg (rmState s e) := by
    refine ⟨⟨?_, ?_, ?_, ?_⟩, inv.fetches.congr hfc (Nat.le_refl _), ?_⟩
    · intro p' hp' e' he'
      obtain ⟨p, hp, hc, _, hel⟩ := mem_updatePeer_elems hp'
      rw [hc]
      rcases hel with ⟨_, hel⟩ | ⟨_, hel⟩
      · rw [hel] at he'; exact inv.elems.owner p hp e' ((List.mem_filter.1 he').1)
      · rw [hel] at he'; exact inv.elems.owner p hp e' he'
    · intro p' hp'
      obtain ⟨p, hp, _, _, hel⟩ := mem_updatePeer_elems hp'
      rcases hel with ⟨_, hel⟩ | ⟨_, hel⟩
      · rw [hel]; exact List.Nodup.sublist (List.filter_sublist.map _) (inv.elems.pathNodup p hp)
      · rw [hel]; exact inv.elems.pathNodup p hp
    · show ((removeIndex s.index e.path).map (·.1)).Nodup
      unfold removeIndex
      exact List.Nodup.sublist (List.filter_sublist.map _) inv.elems.idxNodup
    · intro p' hp' e' he'
      have hall : e' ∈ allElems (rmState s e) := mem_allElems.2 ⟨p', hp', he'⟩
      have hne := (hmem.1 hall).2
      obtain ⟨p, hp, hc, _, hel⟩ := mem_updatePeer_elems hp'
      show (e'.path, _) ∈ removeIndex s.index e.path
      unfold removeIndex
      rw [List.mem_filter, hc]
      refine ⟨?_, by simpa using hne⟩
      rcases hel with ⟨_, hel⟩ | ⟨_, hel⟩
      · rw [hel] at he'; exact inv.elems.indexed p hp e' ((List.mem_filter.1 he').1)
      · rw [hel] at he'; exact inv.elems.indexed p hp e' he'
    · intro e' he'
      exact (inv.tbl e' (hmem.1 he').1).congr_peers hfc
  refine ⟨hinv, rfl, ?_, ?_, ?_, ?_⟩
  · intro c f h; exact (hasFetch_congr hfc).1 h
  · intro c pg f ha _; exact (alive_congr hfc).2 ha
  · intro c pg f ha _
    obtain ⟨p, hp, rfl, rfl, hf, hu, hd, hok⟩ := ha.unpack inv
    have htb := inv.tbl e heall
    intro r hr
    rw [pick_evNotifs inv.fetches.connNodup hp hu hd hf hok e .remove htb.nodup]
    by_cases hv : visible cfg p.fetchGroups f.rule e = true
    · rw [if_pos ((htb.char p hp f hf).2 hv), replayFrom_single]
      apply sameMap_remove hr
      · exact List.mem_map.2 ⟨(e.path, e.value), mem_imageOf.2 ⟨e, heall, hv, rfl⟩, rfl⟩
      · intro a
        rw [mem_imageOf, mem_imageOf]
        constructor
        · rintro ⟨e', he', hv', rfl⟩
          exact ⟨⟨e', (hmem.1 he').1, hv', rfl⟩, (hmem.1 he').2⟩
        · rintro ⟨⟨e', he', hv', rfl⟩, hne⟩
          exact ⟨e', hmem.2 ⟨he', hne⟩, hv', rfl⟩
    · rw [if_neg (fun h => hv ((htb.char p hp f hf).1 h))]
      refine ⟨r, rfl, hr.congr ?_⟩
      intro a
      rw [mem_imageOf, mem_imageOf]
      constructor
      · rintro ⟨e', he', hv', rfl⟩
        exact ⟨e', (hmem.1 he').1, hv', rfl⟩
      · rintro ⟨e', he', hv', rfl⟩
        refine ⟨e', hmem.2 ⟨he', ?_⟩, hv', rfl⟩
        intro hp'
        have := allElems_path_unique inv he' heall hp'
        subst this
        exact hv hv'
  · intro cn hcn
    exact hasFid_of_origin inv (evNotifs_origin e .remove _ cn hcn)

/-! ## add -/

def addState (s : State) (c : Nat) (e : Element) : State :=
  { s with
    index := s.index ++ [(e.path, c)],
    peers := updatePeer s.peers c (fun q => { q with elements := q.elements ++ [e] }) }

theorem lookupIndex_none {idx : List (Bytes × Nat)} {path : Bytes} (h : lookupIndex idx path = none) :
    path ∉ idx.map (·.1) := by
  unfold lookupIndex at h
  simp only [Option.map_eq_none_iff, List.find?_eq_none] at h
  intro hm
  obtain ⟨a, ha, rfl⟩ := List.mem_map.1 hm
  exact h a ha (by simp)

theorem no_elem_of_fresh {cfg : Config} {s : State} (inv : Inv cfg s) {path : Bytes}
    (h : lookupIndex s.index path = none) : ∀ e' ∈ allElems s, e'.path ≠ path := by
  intro e' he' hp
  obtain ⟨q, hq, hqe⟩ := mem_allElems.1 he'
  exact lookupIndex_none h (List.mem_map.2 ⟨_, inv.elems.indexed q hq e' hqe, hp⟩)

theorem mem_allElems_addState {cfg : Config} {s : State} (inv : Inv cfg s) {p : Peer} (hp : p ∈ s.peers)
    {e e' : Element} : e' ∈ allElems (addState s p.conn e) ↔ e' ∈ allElems s ∨ e' = e := by
  unfold allElems addState
  simp only
  rw [mem_allElems_updatePeer inv.fetches.connNodup hp (fun l => l ++ [e])]
  simp only [List.mem_append, List.mem_singleton, List.mem_flatMap]
  constructor
  · rintro ((h | h) | ⟨q, hq, _, h⟩)
    · exact Or.inl ⟨p, hp, h⟩
    · exact Or.inr h
    · exact Or.inl ⟨q, hq, h⟩
  · rintro (⟨q, hq, h⟩ | h)
    · by_cases hc : q.conn = p.conn
      · have : q = p := eq_of_conn_eq inv.fetches.connNodup hq hp hc
        subst this
        exact Or.inl (Or.inl h)
      · exact Or.inr ⟨q, hq, hc, h⟩
    · exact Or.inl (Or.inr h)

theorem trans_add {cfg : Config} {s : State} (inv : Inv cfg s) {p : Peer} (hp : p ∈ s.peers) {e : Element}
    (hfresh : lookupIndex s.index e.path = none) (howner : e.owner = p.conn)
    (hk : (keys e.fetchers).Perm (newKeys cfg s.peers e)) :
    TransN cfg s (addState s p.conn e) (addNotifs cfg s.peers e) := by
  have hfc : (addState s p.conn e).peers.map fcore = s.peers.map fcore :=
    map_updatePeer_congr fcore _ _ _ (fun _ => rfl)
  have hno := no_elem_of_fresh inv hfresh
  have hmem := @mem_allElems_addState cfg s inv p hp e
  have hnew := tblOK_new inv hk
  have hinv : Inv cfg (addState s p.conn e) := by
    refine ⟨⟨?_, ?_, ?_, ?_⟩, inv.fetches.congr hfc (Nat.le_refl _), ?_⟩
    · intro p' hp' e' he'
      obtain ⟨q, hq, rfl⟩ := mem_updatePeer.1 hp'
      by_cases hc : q.conn = p.conn
      · have : q = p := eq_of_conn_eq inv.fetches.connNodup hq hp hc
        subst this
        simp only [beq_self_eq_true, if_true, List.mem_append, List.mem_singleton] at he' ⊢
        rcases he' with h | rfl
        · exact inv.elems.owner q hq e' h
        · exact howner
      · have : (q.conn == p.conn) = false := by simp [hc]
        simp only [this] at he' ⊢
        exact inv.elems.owner q hq e' he'
    · intro p' hp'
      obtain ⟨q, hq, rfl⟩ := mem_updatePeer.1 hp'
      by_cases hc : q.conn = p.conn
      · have : q = p := eq_of_conn_eq inv.fetches.connNodup hq hp hc
        subst this
        simp only [beq_self_eq_true, if_true, List.map_append, List.map_cons, List.map_nil]
        rw [List.nodup_append]
        refine ⟨inv.elems.pathNodup q hq, by simp, ?_⟩
        intro a ha b hb
        simp only [List.mem_singleton] at hb
        subst hb
        obtain ⟨e0, he0, rfl⟩ := List.mem_map.1 ha
        exact hno e0 (mem_allElems.2 ⟨q, hq, he0⟩)
      · have : (q.conn == p.conn) = false := by simp [hc]
        simp only [this]
        exact inv.elems.pathNodup q hq
    · show ((s.index ++ [(e.path, p.conn)]).map (·.1)).Nodup
      rw [List.map_append, List.nodup_append]
      refine ⟨inv.elems.idxNodup, by simp, ?_⟩
      intro a ha b hb
      simp only [List.map_cons, List.map_nil, List.mem_singleton] at hb
      subst hb
      intro hab
      subst hab
      exact lookupIndex_none hfresh ha
    · intro p' hp' e' he'
      show (e'.path, p'.conn) ∈ s.index ++ [(e.path, p.conn)]
      obtain ⟨q, hq, rfl⟩ := mem_updatePeer.1 hp'
      by_cases hc : q.conn = p.conn
      · have : q = p := eq_of_conn_eq inv.fetches.connNodup hq hp hc
        subst this
        simp only [beq_self_eq_true, if_true, List.mem_append, List.mem_singleton] at he' ⊢
        rcases he' with h | rfl
        · exact Or.inl (inv.elems.indexed q hq e' h)
        · exact Or.inr rfl
      · have : (q.conn == p.conn) = false := by simp [hc]
        simp only [this] at he' ⊢
        exact List.mem_append_left _ (inv.elems.indexed q hq e' he')
    · intro e' he'
      rcases hmem.1 he' with h | rfl
      · exact (inv.tbl e' h).congr_peers hfc
      · exact hnew.congr_peers hfc
  refine ⟨hinv, rfl, ?_, ?_, ?_, ?_⟩
  · intro c f h; exact (hasFetch_congr hfc).1 h
  · intro c pg f ha _; exact (alive_congr hfc).2 ha
  · intro c pg f ha _
    obtain ⟨p1, hp1, rfl, rfl, hf, hu, hd, hok⟩ := ha.unpack inv
    intro r hr
    rw [pick_addNotifs inv.fetches.connNodup hp1 hu hd hf hok e]
    by_cases hv : visible cfg p1.fetchGroups f.rule e = true
    · rw [if_pos hv, replayFrom_single]
      apply sameMap_add hr
      · intro hm
        obtain ⟨a, ha, hap⟩ := List.mem_map.1 hm
        obtain ⟨e0, he0, _, rfl⟩ := mem_imageOf.1 ha
        exact hno e0 he0 hap
      · intro a
        rw [mem_imageOf, mem_imageOf]
        constructor
        · rintro ⟨e', he', hv', rfl⟩
          rcases hmem.1 he' with h | rfl
          · exact Or.inl ⟨e', h, hv', rfl⟩
          · exact Or.inr rfl
        · rintro (⟨e', he', hv', rfl⟩ | rfl)
          · exact ⟨e', hmem.2 (Or.inl he'), hv', rfl⟩
          · exact ⟨e, hmem.2 (Or.inr rfl), hv, rfl⟩
    · rw [if_neg hv]
      refine ⟨r, rfl, hr.congr ?_⟩
      intro a
      rw [mem_imageOf, mem_imageOf]
      constructor
      · rintro ⟨e', he', hv', rfl⟩
        rcases hmem.1 he' with h | rfl
        · exact ⟨e', h, hv', rfl⟩
        · exact absurd hv' hv
      · rintro ⟨e', he', hv', rfl⟩
        exact ⟨e', hmem.2 (Or.inl he'), hv', rfl⟩
  · intro cn hcn
    exact hasFid_of_origin inv (addNotifs_origin e cn hcn)

/-! ## refused add: "add" then "remove" to the same subscribers, state unchanged -/

theorem trans_addFail {cfg : Config} {s : State} (inv : Inv cfg s) {e e' : Element}
    (hfresh : lookupIndex s.index e.path = none)
    (hsame : e' = { e with fetchers := e'.fetchers })
    (hk : (keys e'.fetchers).Perm (newKeys cfg s.peers e)) :
    TransN cfg s s (addNotifs cfg s.peers e ++ (keys e'.fetchers).filterMap (evNotif e' .remove s.peers)) := by
  have hno := no_elem_of_fresh inv hfresh
  have hpath : e'.path = e.path := by rw [hsame]
  have hvis : ∀ pg r, visible cfg pg r e' = visible cfg pg r e := by
    intro pg r; rw [hsame]; rfl
  have hk' : (keys e'.fetchers).Perm (newKeys cfg s.peers e') := by
    have : newKeys cfg s.peers e' = newKeys cfg s.peers e := by
      unfold newKeys
      simp only [hvis]
    rw [this]; exact hk
  have hnew := tblOK_new inv hk'
  refine ⟨inv, rfl, fun _ _ h => h, fun _ _ _ h _ => h, ?_, ?_⟩
  · intro c pg f ha _
    obtain ⟨p1, hp1, rfl, rfl, hf, hu, hd, hok⟩ := ha.unpack inv
    intro r hr
    rw [pick_append, pick_addNotifs inv.fetches.connNodup hp1 hu hd hf hok e,
      pick_evNotifs inv.fetches.connNodup hp1 hu hd hf hok e' .remove hnew.nodup]
    by_cases hv : visible cfg p1.fetchGroups f.rule e = true
    · rw [if_pos hv, if_pos ((hnew.char p1 hp1 f hf).2 ((hvis _ _).trans hv)), hpath]
      apply sameMap_add_remove hr
      intro hm
      obtain ⟨a, ha, hap⟩ := List.mem_map.1 hm
      obtain ⟨e0, he0, _, rfl⟩ := mem_imageOf.1 ha
      exact hno e0 he0 hap
    · rw [if_neg hv, if_neg (fun h => hv ((hvis _ _).symm.trans ((hnew.char p1 hp1 f hf).1 h)))]
      exact ⟨r, rfl, hr⟩
  · intro cn hcn
    rcases List.mem_append.1 hcn with h | h
    · exact hasFid_of_origin inv (addNotifs_origin e cn h)
    · exact hasFid_of_origin inv (evNotifs_origin e' .remove _ cn h)

/-! ## change -/

def chState (s : State) (c : Nat) (path : Bytes) (e' : Element) : State :=
  { s with peers := updatePeer s.peers c (fun q =>
      { q with elements := q.elements.map (fun el => if el.path == path then e' else el) }) }

theorem mem_allElems_chState {cfg : Config} {s : State} (inv : Inv cfg s) {p : Peer} (hp : p ∈ s.peers)
    {e : Element} (he : e ∈ p.elements) {e' : Element} (hpath : e'.path = e.path) {e'' : Element} :
    e'' ∈ allElems (chState s p.conn e.path e') ↔ e'' = e' ∨ (e'' ∈ allElems s ∧ e''.path ≠ e.path) := by
  unfold allElems chState
  simp only
  rw [mem_allElems_updatePeer inv.fetches.connNodup hp
    (fun l => l.map (fun el => if el.path == e.path then e' else el))]
  simp only [List.mem_map, List.mem_flatMap]
  constructor
  · rintro (⟨el, hel, rfl⟩ | ⟨q, hq, hc, h⟩)
    · by_cases hpe : el.path = e.path
      · left; simp [hpe]
      · right
        have : (el.path == e.path) = false := by simp [hpe]
        simp only [this]
        exact ⟨⟨p, hp, hel⟩, hpe⟩
    · right
      refine ⟨⟨q, hq, h⟩, ?_⟩
      intro hpe
      exact hc (congrArg (·.conn) (path_unique inv.elems inv.fetches hq h hp he hpe).1)
  · rintro (rfl | ⟨⟨q, hq, h⟩, hne⟩)
    · left; exact ⟨e, he, by simp⟩
    · by_cases hc : q.conn = p.conn
      · have : q = p := eq_of_conn_eq inv.fetches.connNodup hq hp hc
        subst this
        left
        refine ⟨e'', h, ?_⟩
        have : (e''.path == e.path) = false := by simp [hne]
        simp [this]
      · right; exact ⟨q, hq, hc, h⟩

theorem trans_change {cfg : Config} {s : State} (inv : Inv cfg s) {p : Peer} (hp : p ∈ s.peers)
    {e : Element} (he : e ∈ p.elements) (v : Json) :
    TransN cfg s (chState s p.conn e.path { e with value := some v })
      ((keys e.fetchers).filterMap (evNotif { e with value := some v } .change s.peers)) := by
  have heall : e ∈ allElems s := mem_allElems.2 ⟨p, hp, he⟩
  have hfc : (chState s p.conn e.path { e with value := some v }).peers.map fcore = s.peers.map fcore :=
    map_updatePeer_congr fcore _ _ _ (fun _ => rfl)
  have hmem := @mem_allElems_chState cfg s inv p hp e he { e with value := some v } rfl
  have hsk : (chState s p.conn e.path { e with value := some v }).peers.map eskel = s.peers.map eskel := by
    show (updatePeer s.peers p.conn _).map eskel = _
    unfold updatePeer
    rw [List.map_map]
    apply List.map_congr_left
    intro q hq
    simp only [Function.comp]
    by_cases hc : q.conn = p.conn
    · have : q = p := eq_of_conn_eq inv.fetches.connNodup hq hp hc
      subst this
      simp only [beq_self_eq_true, if_true, eskel, List.map_map, Prod.mk.injEq, true_and]
      apply List.map_congr_left
      intro el hel
      simp only [Function.comp]
      by_cases hpe : el.path = e.path
      · have := nodup_map_inj (inv.elems.pathNodup q hq) hel he hpe
        subst this
        simp
      · have : (el.path == e.path) = false := by simp [hpe]
        simp [this]
    · have : (q.conn == p.conn) = false := by simp [hc]
      simp [this]
  have hinv : Inv cfg (chState s p.conn e.path { e with value := some v }) := by
    refine ⟨inv.elems.congr hsk rfl, inv.fetches.congr hfc (Nat.le_refl _), ?_⟩
    intro e'' he''
    rcases hmem.1 he'' with rfl | ⟨h, _⟩
    · exact (TblOK.congr_elem' (e := e) (e' := { e with value := some v }) (List.Perm.refl _)
        (fun _ _ => rfl) (inv.tbl e heall)).congr_peers hfc
    · exact (inv.tbl e'' h).congr_peers hfc
  refine ⟨hinv, rfl, ?_, ?_, ?_, ?_⟩
  · intro c f h; exact (hasFetch_congr hfc).1 h
  · intro c pg f ha _; exact (alive_congr hfc).2 ha
  · intro c pg f ha _
    obtain ⟨p1, hp1, rfl, rfl, hf, hu, hd, hok⟩ := ha.unpack inv
    have htb := inv.tbl e heall
    intro r hr
    rw [pick_evNotifs inv.fetches.connNodup hp1 hu hd hf hok { e with value := some v } .change htb.nodup]
    by_cases hv : visible cfg p1.fetchGroups f.rule e = true
    · rw [if_pos ((htb.char p1 hp1 f hf).2 hv), replayFrom_single]
      apply sameMap_change hr
      · exact List.mem_map.2 ⟨(e.path, e.value), mem_imageOf.2 ⟨e, heall, hv, rfl⟩, rfl⟩
      · intro a
        rw [mem_imageOf, mem_imageOf]
        constructor
        · rintro ⟨e'', he'', hv', rfl⟩
          rcases hmem.1 he'' with rfl | ⟨h, hne⟩
          · exact Or.inr rfl
          · exact Or.inl ⟨⟨e'', h, hv', rfl⟩, hne⟩
        · rintro (⟨⟨e'', h, hv', rfl⟩, hne⟩ | rfl)
          · exact ⟨e'', hmem.2 (Or.inr ⟨h, hne⟩), hv', rfl⟩
          · exact ⟨{ e with value := some v }, hmem.2 (Or.inl rfl), hv, rfl⟩
    · rw [if_neg (fun h => hv ((htb.char p1 hp1 f hf).1 h))]
      refine ⟨r, rfl, hr.congr ?_⟩
      intro a
      rw [mem_imageOf, mem_imageOf]
      constructor
      · rintro ⟨e'', he'', hv', rfl⟩
        rcases hmem.1 he'' with rfl | ⟨h, _⟩
        · exact absurd hv' hv
        · exact ⟨e'', h, hv', rfl⟩
      · rintro ⟨e'', he'', hv', rfl⟩
        refine ⟨e'', hmem.2 (Or.inr ⟨he'', ?_⟩), hv', rfl⟩
        intro hp'
        have := allElems_path_unique inv he'' heall hp'
        subst this
        exact hv hv'
  · intro cn hcn
    exact hasFid_of_origin inv (evNotifs_origin _ .change _ cn hcn)

end Cjet.Daemon.C01
