/-
  DaemonC07Base — the idle baseline: a state without peers holds nothing, and disconnecting every
  live peer (in any order, with any send results) reaches it.  Built on C05's closed form of
  `free_peer_resources` (`afterClose`).
-/
import Cjet.Lemmas.DaemonC05Run
import Cjet.Lemmas.DaemonC07Run

namespace Cjet.Daemon.C07

open Cjet Cjet.Json Cjet.Daemon

/-- the path index of a state without peers is empty -/
theorem index_nil_of_no_peers {s : State} (hI : C05.Inv s) (h : s.peers = []) : s.index = [] := by
  apply List.eq_nil_iff_forall_not_mem.mpr
  intro en hen
  obtain ⟨pa, o⟩ := en
  obtain ⟨p, hp, _⟩ := hI.idxElem pa o hen
  rw [h] at hp
  cases hp

theorem peers_nil_of_conns {ps : List Peer} (h : C05.conns ps = []) : ps = [] := by
  cases ps with
  | nil => rfl
  | cons p t => cases h

/-- the state after `disconnect c` of a connected peer is C05's `afterClose` -/
theorem step_disconnect_st (cfg : Config) {s : State} (hI : C05.Inv s) {c : Nat} (hc : c ∈ C05.conns s.peers)
    (o : Oracle) : (step cfg s (.disconnect c o)).1 = C05.afterClose s c := by
  have hcl : C05.Closes cfg s (.disconnect c o) c (mkCtx s o) := ⟨hc, Or.inl ⟨o, rfl, rfl⟩⟩
  rw [hcl.step_eq]
  obtain ⟨p, hp⟩ := hcl.findPeer hI
  rw [C05.closePeer_eq (C05.mkCtx_ok hI o) hp]
  rfl

theorem step_disconnect_dead (cfg : Config) {s : State} {c : Nat} (hc : c ∉ C05.conns s.peers)
    (o : Oracle) : step cfg s (.disconnect c o) = (s, []) := by
  rw [C05.step_disconnect]
  have : (findPeer s.peers c).isNone = true := C05.findPeer_isNone.2 hc
  simp [this]

/-- a `disconnect` removes exactly that connection from the peer list -/
theorem step_disconnect_conns (cfg : Config) {s : State} (hI : C05.Inv s) (c : Nat) (o : Oracle) :
    C05.conns (step cfg s (.disconnect c o)).1.peers = (C05.conns s.peers).filter (· != c) := by
  by_cases hc : c ∈ C05.conns s.peers
  · rw [step_disconnect_st cfg hI hc, C05.conns_afterClose]
  · rw [step_disconnect_dead cfg hc]
    symm
    apply List.filter_eq_self.mpr
    intro d hd
    simp only [bne_iff_ne, ne_eq]
    intro e
    exact hc (e ▸ hd)

/-- disconnecting a list of connections that covers every live one empties the peer list -/
theorem disconnect_all (cfg : Config) (ds : List (Nat × Oracle)) {s : State} (hI : C05.Inv s)
    (hcov : ∀ c ∈ C05.conns s.peers, c ∈ ds.map (·.1)) :
    (run cfg s (ds.map (fun d => Op.disconnect d.1 d.2))).1.peers = [] := by
  induction ds generalizing s with
  | nil =>
    apply peers_nil_of_conns
    apply List.eq_nil_iff_forall_not_mem.mpr
    intro c hc
    have := hcov c hc
    simp at this
  | cons d rest ih =>
    rw [List.map_cons, C05.run_cons]
    apply ih (C05.step_inv hI _)
    intro c hc
    rw [step_disconnect_conns cfg hI, List.mem_filter] at hc
    have := hcov c hc.1
    simp only [List.map_cons, List.mem_cons] at this
    rcases this with e | h
    · exact absurd e (by simpa using hc.2)
    · exact h

/-- SIGTERM: `destroy_all_peers` walks the peer list in order -/
def termOps (s : State) (orc : Nat → Oracle) : List Op :=
  s.peers.map (fun p => Op.disconnect p.conn (orc p.conn))

theorem termOps_eq (s : State) (orc : Nat → Oracle) :
    termOps s orc = (s.peers.map (fun p => (p.conn, orc p.conn))).map (fun d => Op.disconnect d.1 d.2) := by
  simp [termOps, List.map_map, Function.comp_def]

theorem term_peers_nil (cfg : Config) {s : State} (hI : C05.Inv s) (orc : Nat → Oracle) :
    (run cfg s (termOps s orc)).1.peers = [] := by
  rw [termOps_eq]
  apply disconnect_all cfg _ hI
  intro c hc
  simpa [C05.conns, List.map_map, Function.comp_def] using hc

/-- a state without peers holds no timer -/
theorem heldTimers_nil_of_no_peers {s : State} (h : s.peers = []) : heldTimers s = [] := by
  simp [heldTimers, h]

end Cjet.Daemon.C07
