/-
  C02 helper lemmas: counting — routing records that still owe an answer (`pendingA`), response
  objects in an output list (`respCount`), answerable requests.
-/
import Cjet.Lemmas.DaemonC02Handlers

namespace Cjet.Daemon.C02

open Cjet Cjet.Json Cjet.Daemon

/-- the record has an origin id that can be answered (string or number) -/
def routeAnswerable (r : Route) : Bool :=
  match r.originId with
  | some oid => idOk oid
  | none => false

/-- number of routing records, over all tables, that still owe their requester an answer -/
def pendingA (ps : List Peer) : Nat := (ps.map (fun p => p.routes.countP routeAnswerable)).sum

/-- decidable form of `Answerable` -/
def answerableB (req : Json) : Bool :=
  match req.getItem (k "id") with
  | some id => idOk id
  | none => false

theorem answerableB_iff {req : Json} : answerableB req = true ↔ Answerable req := by
  unfold answerableB Answerable
  cases h : req.getItem (k "id") with
  | none => simp
  | some id => simp

/-- 1 if the request carries a string/number id, else 0 -/
def ansN (req : Json) : Nat := if answerableB req then 1 else 0

/-- number of response objects among the values sent -/
def respCount : List Obs → Nat
  | [] => 0
  | .send _ j _ :: rest => (if isResponse j then 1 else 0) + respCount rest
  | _ :: rest => respCount rest

theorem respCount_append (a b : List Obs) : respCount (a ++ b) = respCount a + respCount b := by
  induction a with
  | nil => simp [respCount]
  | cons o t ih => cases o <;> simp [respCount, ih, Nat.add_assoc]

theorem respCount_reverse (a : List Obs) : respCount a.reverse = respCount a := by
  induction a with
  | nil => rfl
  | cons o t ih =>
    rw [List.reverse_cons, respCount_append, ih]
    cases o <;> simp [respCount, Nat.add_comm]

theorem respCount_of_method {l : List Obs} (h : ∀ o ∈ l, obsMethod o = true) : respCount l = 0 := by
  induction l with
  | nil => rfl
  | cons o t ih =>
    have ht := ih (fun o ho => h o (List.mem_cons_of_mem _ ho))
    have ho := h o (List.mem_cons_self ..)
    cases o with
    | send d j b =>
      have hm : hasMethod j = true := ho
      have : isResponse j = false := by
        cases hr : isResponse j with
        | false => rfl
        | true => rw [isResponse_not_hasMethod hr] at hm; cases hm
      simp [respCount, this, ht]
    | _ => simpa [respCount] using ht

theorem pendingA_of_routesMap {ps ps' : List Peer} (h : routesMap ps' = routesMap ps) : pendingA ps' = pendingA ps := by
  have e : ∀ qs : List Peer, pendingA qs = ((routesMap qs).map (fun e => e.2.countP routeAnswerable)).sum := by
    intro qs; simp [pendingA, routesMap, List.map_map, Function.comp_def]
  rw [e, e, h]

/-- changing the tables of the peers with connection `o` without adding answerable records -/
theorem pendingA_updatePeer_le (ps : List Peer) (o : Nat) (f : Peer → Peer)
    (hf : ∀ q, (f q).routes.countP routeAnswerable ≤ q.routes.countP routeAnswerable) :
    pendingA (updatePeer ps o f) ≤ pendingA ps := by
  induction ps with
  | nil => exact Nat.le_refl _
  | cons p t ih =>
    simp only [pendingA, updatePeer, List.map_cons, List.sum_cons] at ih ⊢
    split
    · exact Nat.add_le_add (hf p) ih
    · exact Nat.add_le_add (Nat.le_refl _) ih

theorem updatePeer_of_not_mem (ps : List Peer) (o : Nat) (f : Peer → Peer) (h : o ∉ conns ps) :
    updatePeer ps o f = ps := by
  induction ps with
  | nil => rfl
  | cons p t ih =>
    simp only [conns, List.map_cons, List.mem_cons, not_or] at h
    simp only [updatePeer, List.map_cons]
    have : (p.conn == o) = false := by simpa using fun e => h.1 e.symm
    rw [this]
    simp only [Bool.false_eq_true, if_false, List.cons.injEq, true_and]
    exact ih (by simpa [conns] using h.2)

/-- with distinct connection numbers at most one table is touched -/
theorem pendingA_updatePeer_add (ps : List Peer) (o : Nat) (f : Peer → Peer) (n : Nat)
    (hn : (conns ps).Nodup)
    (hf : ∀ q, (f q).routes.countP routeAnswerable ≤ q.routes.countP routeAnswerable + n) :
    pendingA (updatePeer ps o f) ≤ pendingA ps + n := by
  induction ps with
  | nil => exact Nat.le_add_right _ _
  | cons p t ih =>
    simp only [conns, List.map_cons, List.nodup_cons] at hn
    by_cases hc : (p.conn == o) = true
    · have ho : o ∉ conns t := by
        have : p.conn = o := by simpa using hc
        rw [← this]; exact hn.1
      simp only [updatePeer, List.map_cons, hc, if_true]
      have := updatePeer_of_not_mem t o f ho
      simp only [updatePeer] at this
      rw [this]
      simp only [pendingA, List.map_cons, List.sum_cons]
      have := hf p
      omega
    · simp only [updatePeer, List.map_cons, hc, Bool.false_eq_true, if_false]
      have := ih hn.2
      simp only [pendingA, updatePeer, List.map_cons, List.sum_cons] at this ⊢
      omega

theorem countP_filter_le {α : Type} (p q : α → Bool) (l : List α) : (l.filter q).countP p ≤ l.countP p :=
  List.Sublist.countP_le List.filter_sublist

theorem countP_filter_lt {α : Type} (p q : α → Bool) (l : List α) (r : α) (hr : r ∈ l) (hp : p r = true)
    (hq : q r = false) : (l.filter q).countP p + 1 ≤ l.countP p := by
  induction l with
  | nil => cases hr
  | cons a t ih =>
    rcases List.mem_cons.1 hr with rfl | hr
    · simp only [List.filter_cons, hq, Bool.false_eq_true, if_false, List.countP_cons, hp, if_true]
      have := countP_filter_le p q t
      omega
    · have := ih hr
      simp only [List.filter_cons, List.countP_cons]
      split
      · simp only [List.countP_cons]; omega
      · omega

/-- removing by rid from `o`'s table never adds; it removes at least the record found there -/
theorem pendingA_removeRoute_le (ps : List Peer) (o : Nat) (rid : Bytes) :
    pendingA (removeRoute ps o rid) ≤ pendingA ps :=
  pendingA_updatePeer_le ps o _ (fun _ => countP_filter_le _ _ _)

theorem pendingA_removeRoute_lt (ps : List Peer) (o : Nat) (rid : Bytes) (p : Peer) (r : Route)
    (hp : p ∈ ps) (hc : p.conn = o) (hr : r ∈ p.routes) (hrid : r.rid = rid) (ha : routeAnswerable r = true) :
    pendingA (removeRoute ps o rid) + 1 ≤ pendingA ps := by
  induction ps with
  | nil => cases hp
  | cons a t ih =>
    simp only [removeRoute, updatePeer, List.map_cons, pendingA, List.sum_cons]
    have htail : pendingA (removeRoute t o rid) ≤ pendingA t := pendingA_removeRoute_le t o rid
    simp only [removeRoute, updatePeer, pendingA] at htail
    rcases List.mem_cons.1 hp with rfl | hp
    · have : (p.conn == o) = true := by simp [hc]
      simp only [this, if_true]
      have := countP_filter_lt routeAnswerable (fun x => x.rid != rid) p.routes r hr ha (by simp [hrid])
      omega
    · have := ih hp
      simp only [removeRoute, updatePeer, pendingA] at this
      split
      · have := countP_filter_le routeAnswerable (fun x => x.rid != rid) a.routes
        dsimp only
        omega
      · omega

end Cjet.Daemon.C02
