/-
  C01 — basic lemmas: lists, fetcher tables, JSON keys and the notification decoder,
  the context primitives (`send`, `send'`, `emit`), `findPeer` / `updatePeer`.
-/
import Cjet.Lemmas.DaemonC01Defs

namespace Cjet.Daemon.C01

open Cjet Cjet.Json Cjet.Daemon

/-! ## lists -/

theorem nodup_map_inj {α β : Type} {f : α → β} : ∀ {l : List α}, (l.map f).Nodup →
    ∀ {a b : α}, a ∈ l → b ∈ l → f a = f b → a = b
  | [], _, _, _, ha, _, _ => by cases ha
  | x :: xs, h, a, b, ha, hb, hab => by
    rw [List.map_cons, List.nodup_cons] at h
    rcases List.mem_cons.1 ha with rfl | ha'
    · rcases List.mem_cons.1 hb with rfl | hb'
      · rfl
      · exact absurd (hab ▸ List.mem_map_of_mem (f := f) hb') h.1
    · rcases List.mem_cons.1 hb with rfl | hb'
      · exact absurd (hab ▸ List.mem_map_of_mem (f := f) ha') h.1
      · exact nodup_map_inj h.2 ha' hb' hab

theorem pairwise_of_mem {α : Type} {R : α → α → Prop} (hs : ∀ a b, R a b → R b a) :
    ∀ {l : List α}, l.Pairwise R → ∀ {a b : α}, a ∈ l → b ∈ l → a ≠ b → R a b
  | [], _, _, _, ha, _, _ => by cases ha
  | x :: xs, h, a, b, ha, hb, hne => by
    rw [List.pairwise_cons] at h
    rcases List.mem_cons.1 ha with rfl | ha'
    · rcases List.mem_cons.1 hb with rfl | hb'
      · exact absurd rfl hne
      · exact h.1 _ hb'
    · rcases List.mem_cons.1 hb with rfl | hb'
      · exact hs _ _ (h.1 _ ha')
      · exact pairwise_of_mem hs h.2 ha' hb' hne

theorem filterMap_unique_mem {α β : Type} {φ : α → Option β} {a₀ : α} :
    ∀ {l : List α}, l.Nodup → (∀ a ∈ l, (φ a).isSome = true → a = a₀) → a₀ ∈ l →
      l.filterMap φ = (φ a₀).toList
  | [], _, _, h => by cases h
  | x :: xs, hn, hu, hm => by
    rw [List.nodup_cons] at hn
    have hrest : ∀ a ∈ xs, (φ a).isSome = true → a = a₀ :=
      fun a ha => hu a (List.mem_cons_of_mem _ ha)
    rcases List.mem_cons.1 hm with rfl | hm'
    · have : xs.filterMap φ = [] := by
        rw [List.filterMap_eq_nil_iff]
        intro a ha
        cases h : φ a with
        | none => rfl
        | some b =>
          have := hrest a ha (by simp [h])
          subst this
          exact absurd ha hn.1
      rw [List.filterMap_cons]
      cases h : φ a₀ <;> simp [this]
    · have hx : φ x = none := by
        cases h : φ x with
        | none => rfl
        | some b =>
          have := hu x (List.mem_cons_self) (by simp [h])
          subst this
          exact absurd hm' hn.1
      rw [List.filterMap_cons, hx]
      exact filterMap_unique_mem hn.2 hrest hm'

theorem filterMap_unique_not_mem {α β : Type} {φ : α → Option β} {a₀ : α} {l : List α}
    (hu : ∀ a ∈ l, (φ a).isSome = true → a = a₀) (hm : a₀ ∉ l) : l.filterMap φ = [] := by
  rw [List.filterMap_eq_nil_iff]
  intro a ha
  cases h : φ a with
  | none => rfl
  | some b =>
    have := hu a ha (by simp [h])
    subst this
    exact absurd ha hm

/-! ## fetcher tables -/

theorem mem_keys {tbl : List (Option FetchKey)} {fk : FetchKey} : fk ∈ keys tbl ↔ some fk ∈ tbl := by
  simp [keys, List.mem_filterMap]

@[simp] theorem keys_nil : keys [] = [] := rfl
@[simp] theorem keys_cons_none (t : List (Option FetchKey)) : keys (none :: t) = keys t := rfl
@[simp] theorem keys_cons_some (g : FetchKey) (t : List (Option FetchKey)) :
    keys (some g :: t) = g :: keys t := rfl

theorem keys_append (a b : List (Option FetchKey)) : keys (a ++ b) = keys a ++ keys b := by
  simp [keys, List.filterMap_append]

@[simp] theorem keys_replicate_none (n : Nat) : keys (List.replicate n none) = [] := by
  simp [keys]

theorem keys_set_perm (fk : FetchKey) : ∀ (tbl : List (Option FetchKey)) (i : Nat),
    tbl.findIdx? (·.isNone) = some i → (keys (tbl.set i (some fk))).Perm (fk :: keys tbl)
  | [], i, h => by simp at h
  | none :: t, i, h => by
    simp [List.findIdx?_cons] at h
    subst h
    simp
  | some g :: t, i, h => by
    simp [List.findIdx?_cons] at h
    obtain ⟨j, hj, rfl⟩ := h
    simp only [List.set_cons_succ, keys_cons_some]
    exact ((keys_set_perm fk t j hj).cons g).trans (List.Perm.swap _ _ _)

theorem keys_addFetcher_perm (cfg : Config) (tbl : List (Option FetchKey)) (fk : FetchKey) :
    (keys (addFetcher cfg tbl fk)).Perm (fk :: keys tbl) := by
  unfold addFetcher
  cases h : tbl.findIdx? (·.isNone) with
  | some i => exact keys_set_perm fk tbl i h
  | none =>
    simp only [keys_append, keys_replicate_none, List.append_nil]
    exact List.perm_append_comm

theorem mem_keys_addFetcher {cfg : Config} {tbl : List (Option FetchKey)} {fk g : FetchKey} :
    g ∈ keys (addFetcher cfg tbl fk) ↔ g = fk ∨ g ∈ keys tbl := by
  rw [(keys_addFetcher_perm cfg tbl fk).mem_iff, List.mem_cons]

theorem nodup_keys_addFetcher {cfg : Config} {tbl : List (Option FetchKey)} {fk : FetchKey}
    (h : (keys tbl).Nodup) (hn : fk ∉ keys tbl) : (keys (addFetcher cfg tbl fk)).Nodup := by
  rw [(keys_addFetcher_perm cfg tbl fk).nodup_iff, List.nodup_cons]
  exact ⟨hn, h⟩

theorem keys_removeFetcher (tbl : List (Option FetchKey)) (fk : FetchKey) :
    keys (removeFetcher tbl fk) = (keys tbl).filter (· != fk) := by
  induction tbl with
  | nil => rfl
  | cons s t ih =>
    cases s with
    | none => simpa [removeFetcher] using ih
    | some g =>
      simp only [removeFetcher, List.map_cons] at ih ⊢
      by_cases hg : g = fk
      · subst hg; simpa using ih
      · have h1 : (some g == some fk) = false := by simp [hg]
        have h2 : (g != fk) = true := by simp [hg]
        simp only [h1, h2, List.filter_cons, keys_cons_some]
        simp only [Bool.false_eq_true, if_false, if_true, keys_cons_some, ih]

/-- the table transformation of `remove_all_fetchers_from_peer` -/
def unsubTbl (c : Nat) (tbl : List (Option FetchKey)) : List (Option FetchKey) :=
  tbl.map (fun s => match s with | some fk => if fk.peer == c then none else some fk | none => none)

theorem keys_unsubTbl (c : Nat) (tbl : List (Option FetchKey)) :
    keys (unsubTbl c tbl) = (keys tbl).filter (fun fk => fk.peer != c) := by
  induction tbl with
  | nil => rfl
  | cons s t ih =>
    cases s with
    | none => simpa [unsubTbl] using ih
    | some g =>
      simp only [unsubTbl, List.map_cons] at ih ⊢
      by_cases hg : g.peer = c
      · have h1 : (g.peer == c) = true := by simp [hg]
        have h2 : (g.peer != c) = false := by simp [hg]
        simp only [h1, if_true, keys_cons_none, ih, keys_cons_some]
        rw [List.filter_cons]; simp [h2]
      · have h1 : (g.peer == c) = false := by simp [hg]
        have h2 : (g.peer != c) = true := by simp [hg]
        simp only [h1, h2, List.filter_cons, Bool.false_eq_true, if_false, if_true, keys_cons_some, ih]

/-! ## ids -/

theorem idsEqual_symm (a b : Json) : idsEqual a b = idsEqual b a := by
  cases a <;> cases b <;> simp only [idsEqual] <;> exact BEq.comm

theorem idsEqual_trans {a b c : Json} (h1 : idsEqual a b = true) (h2 : idsEqual b c = true) :
    idsEqual a c = true := by
  cases a <;> cases b <;> cases c <;> simp_all [idsEqual]

theorem idsEqual_self_of_left {a b : Json} (h : idsEqual a b = true) : idsEqual a a = true := by
  cases a <;> cases b <;> simp_all [idsEqual]

/-! ## JSON keys -/

theorem keyEq_method_id : keyEq (k "method") (k "id") = false := by decide +kernel
theorem keyEq_params_id : keyEq (k "params") (k "id") = false := by decide +kernel
theorem keyEq_id_id : keyEq (k "id") (k "id") = true := by decide +kernel
theorem keyEq_method_method : keyEq (k "method") (k "method") = true := by decide +kernel
theorem keyEq_method_params : keyEq (k "method") (k "params") = false := by decide +kernel
theorem keyEq_params_params : keyEq (k "params") (k "params") = true := by decide +kernel
theorem keyEq_fetchOnly_path : keyEq (k "fetchOnly") (k "path") = false := by decide +kernel
theorem keyEq_fetchOnly_event : keyEq (k "fetchOnly") (k "event") = false := by decide +kernel
theorem keyEq_fetchOnly_value : keyEq (k "fetchOnly") (k "value") = false := by decide +kernel
theorem keyEq_path_path : keyEq (k "path") (k "path") = true := by decide +kernel
theorem keyEq_path_event : keyEq (k "path") (k "event") = false := by decide +kernel
theorem keyEq_path_value : keyEq (k "path") (k "value") = false := by decide +kernel
theorem keyEq_event_event : keyEq (k "event") (k "event") = true := by decide +kernel
theorem keyEq_event_value : keyEq (k "event") (k "value") = false := by decide +kernel
theorem keyEq_value_value : keyEq (k "value") (k "value") = true := by decide +kernel

theorem eventOf_add : eventOf (Json.key "add") = some .add := by decide +kernel
theorem eventOf_change : eventOf (Json.key "change") = some .change := by decide +kernel
theorem eventOf_remove : eventOf (Json.key "remove") = some .remove := by decide +kernel

/-- the event names the daemon uses -/
def evName : Event → String
  | .add => "add"
  | .change => "change"
  | .remove => "remove"

theorem eventOf_evName (ev : Event) : eventOf (Json.key (evName ev)) = some ev := by
  cases ev
  · exact eventOf_add
  · exact eventOf_change
  · exact eventOf_remove

/-- the decoder inverts `notification` -/
theorem decodeNotif_notification (e : Element) (fid : Json) (ev : Event) :
    decodeNotif (notification e fid (evName ev)) =
      some { fid := fid, path := e.path, event := ev, value := e.value } := by
  have hev := eventOf_evName ev
  cases hfo : e.fetchOnly <;> cases hv : e.value <;>
    simp [decodeNotif, notification, getItem, findItem, hfo, hv, mkStr, hev,
      keyEq_method_id, keyEq_params_id, keyEq_method_method, keyEq_method_params,
      keyEq_params_params, keyEq_fetchOnly_path, keyEq_fetchOnly_event, keyEq_fetchOnly_value,
      keyEq_path_path, keyEq_path_event, keyEq_path_value, keyEq_event_event, keyEq_event_value,
      keyEq_value_value]

/-- a message that carries an "id" member is not a notification -/
def IsResp (j : Json) : Prop := (j.getItem (k "id")).isSome = true

theorem decodeNotif_of_isResp {j : Json} (h : IsResp j) : decodeNotif j = none := by
  unfold IsResp at h
  unfold decodeNotif
  cases hid : j.getItem (k "id") with
  | none => simp [hid] at h
  | some v => rfl

theorem commonResponse_getItem {id : Json} {l : List (Bytes × Json)} (h : commonResponse id = some l)
    (rest : List (Bytes × Json)) : IsResp (.obj (l ++ rest)) := by
  cases id <;> simp [commonResponse] at h <;> subst h <;>
    simp [IsResp, getItem, findItem, keyEq_id_id]

theorem isResp_errorResponse {id : Json} {code : Int} {tag : String} {reason : Bytes} {j : Json}
    (h : errorResponse id code tag reason = some j) : IsResp j := by
  unfold errorResponse at h
  cases hc : commonResponse id with
  | none => simp [hc] at h
  | some l =>
    simp [hc] at h
    subst h
    exact commonResponse_getItem hc _

theorem isResp_resultResponse {id result : Json} {typ : String} {j : Json}
    (h : resultResponse id result typ = some j) : IsResp j := by
  unfold resultResponse at h
  cases hc : commonResponse id with
  | none => simp [hc] at h
  | some l =>
    simp [hc] at h
    subst h
    exact commonResponse_getItem hc _

theorem isResp_errorFromRequest {req : Json} {code : Int} {tag : String} {reason : Bytes} {j : Json}
    (h : errorFromRequest req code tag reason = some j) : IsResp j := by
  unfold errorFromRequest at h
  cases hid : req.getItem (k "id") with
  | none => simp [hid] at h
  | some id => rw [hid] at h; exact isResp_errorResponse h

theorem isResp_resultFromRequest {req result : Json} {j : Json}
    (h : resultFromRequest req result = some j) : IsResp j := by
  unfold resultFromRequest at h
  cases hid : req.getItem (k "id") with
  | none => simp [hid] at h
  | some id => rw [hid] at h; exact isResp_resultResponse h

theorem isResp_successFromRequest {req : Json} {j : Json}
    (h : successFromRequest req = some j) : IsResp j := isResp_resultFromRequest h

theorem isResp_routedMessage (rid path : Bytes) (isState : Bool) (value : Option Json) :
    IsResp (routedMessage rid path isState value) := by
  simp [IsResp, routedMessage, getItem, findItem, keyEq_id_id]

/-! ## notification lists -/

@[simp] theorem notifs_nil : notifs [] = [] := rfl

theorem notifs_append (a b : List Obs) : notifs (a ++ b) = notifs a ++ notifs b := by
  simp [notifs, List.filterMap_append]

theorem notifs_send (c : Nat) (j : Json) (b : Bool) :
    notifs [Obs.send c j b] = ((decodeNotif j).map (fun n => (c, n))).toList := by
  simp only [notifs, List.filterMap_cons, List.filterMap_nil]
  cases decodeNotif j <;> rfl

@[simp] theorem notifs_closed (c : Nat) : notifs [Obs.closed c] = [] := rfl
@[simp] theorem notifs_timerArm (t n : Nat) : notifs [Obs.timerArm t n] = [] := rfl
@[simp] theorem notifs_timerDestroy (t : Nat) : notifs [Obs.timerDestroy t] = [] := rfl

theorem notifs_cons (o : Obs) (l : List Obs) : notifs (o :: l) = notifs [o] ++ notifs l := by
  rw [← notifs_append]; rfl

@[simp] theorem pick_nil (c : Nat) (fid : Json) : pick c fid [] = [] := rfl

theorem pick_append (c : Nat) (fid : Json) (a b : List (Nat × Notif)) :
    pick c fid (a ++ b) = pick c fid a ++ pick c fid b := by
  simp [pick, List.filterMap_append]

theorem notifsFor_append (c : Nat) (fid : Json) (a b : List Obs) :
    notifsFor c fid (a ++ b) = notifsFor c fid a ++ notifsFor c fid b := by
  simp [notifsFor, notifs_append, pick_append]

@[simp] theorem notifsFor_nil (c : Nat) (fid : Json) : notifsFor c fid [] = [] := rfl

theorem notifsFor_of_notifs_nil {c : Nat} {fid : Json} {obs : List Obs} (h : notifs obs = []) :
    notifsFor c fid obs = [] := by simp [notifsFor, h]

/-! ## contexts -/

/-- `x'` extends the output of `x` by `new` (newest first) and `new` decodes to the
    notifications `ns` (oldest first) -/
def Emits (x x' : Ctx) (ns : List (Nat × Notif)) : Prop :=
  ∃ new, x'.out = new ++ x.out ∧ notifs new.reverse = ns

theorem Emits.refl (x : Ctx) : Emits x x [] := ⟨[], rfl, rfl⟩

theorem Emits.trans {x y z : Ctx} {a b : List (Nat × Notif)} (h1 : Emits x y a) (h2 : Emits y z b) :
    Emits x z (a ++ b) := by
  obtain ⟨n1, e1, r1⟩ := h1
  obtain ⟨n2, e2, r2⟩ := h2
  refine ⟨n2 ++ n1, by rw [e2, e1, List.append_assoc], ?_⟩
  rw [List.reverse_append, notifs_append, r1, r2]

theorem Emits.of_out_eq {x y z : Ctx} {a : List (Nat × Notif)} (h : Emits x y a) (ho : z.out = y.out) :
    Emits x z a := by
  obtain ⟨n, e, r⟩ := h
  exact ⟨n, by rw [ho, e], r⟩

theorem Emits.of_out_eq_left {x y z : Ctx} {a : List (Nat × Notif)} (h : Emits x y a) (ho : z.out = x.out) :
    Emits z y a := by
  obtain ⟨n, e, r⟩ := h
  exact ⟨n, by rw [ho, e], r⟩

@[simp] theorem send_st (x : Ctx) (c : Nat) (j : Json) : (send x c j).1.st = x.st := by
  unfold send; cases x.sends <;> rfl

@[simp] theorem send'_st (x : Ctx) (c : Nat) (j : Json) : (send' x c j).st = x.st := send_st x c j

@[simp] theorem send_indexFull (x : Ctx) (c : Nat) (j : Json) : (send x c j).1.indexFull = x.indexFull := by
  unfold send; cases x.sends <;> rfl

@[simp] theorem send_routeFull (x : Ctx) (c : Nat) (j : Json) : (send x c j).1.routeFull = x.routeFull := by
  unfold send; cases x.sends <;> rfl

theorem send_out (x : Ctx) (c : Nat) (j : Json) : ∃ b, (send x c j).1.out = Obs.send c j b :: x.out := by
  unfold send; cases x.sends
  · exact ⟨true, rfl⟩
  · exact ⟨_, rfl⟩

theorem send'_out (x : Ctx) (c : Nat) (j : Json) : ∃ b, (send' x c j).out = Obs.send c j b :: x.out :=
  send_out x c j

theorem emits_send (x : Ctx) (c : Nat) (j : Json) :
    Emits x (send x c j).1 ((decodeNotif j).map (fun n => (c, n))).toList := by
  obtain ⟨b, hb⟩ := send_out x c j
  exact ⟨[Obs.send c j b], by simpa using hb, by simpa using notifs_send c j b⟩

theorem emits_send' (x : Ctx) (c : Nat) (j : Json) :
    Emits x (send' x c j) ((decodeNotif j).map (fun n => (c, n))).toList := emits_send x c j

theorem emits_send_resp (x : Ctx) (c : Nat) {j : Json} (h : IsResp j) : Emits x (send x c j).1 [] := by
  have := emits_send x c j
  rwa [decodeNotif_of_isResp h] at this

theorem emits_send'_notification (x : Ctx) (c : Nat) (e : Element) (fid : Json) (ev : Event) :
    Emits x (send' x c (notification e fid (evName ev)))
      [(c, { fid := fid, path := e.path, event := ev, value := e.value })] := by
  have := emits_send' x c (notification e fid (evName ev))
  rwa [decodeNotif_notification] at this

@[simp] theorem emit_st (x : Ctx) (o : Obs) : (emit x o).st = x.st := rfl

theorem emits_emit_closed (x : Ctx) (c : Nat) : Emits x (emit x (.closed c)) [] :=
  ⟨[.closed c], rfl, rfl⟩
theorem emits_emit_timerArm (x : Ctx) (t n : Nat) : Emits x (emit x (.timerArm t n)) [] :=
  ⟨[.timerArm t n], rfl, rfl⟩
theorem emits_emit_timerDestroy (x : Ctx) (t : Nat) : Emits x (emit x (.timerDestroy t)) [] :=
  ⟨[.timerDestroy t], rfl, rfl⟩

/-! ## findPeer / updatePeer -/

theorem mem_updatePeer {ps : List Peer} {c : Nat} {g : Peer → Peer} {q' : Peer} :
    q' ∈ updatePeer ps c g ↔ ∃ q ∈ ps, (if q.conn == c then g q else q) = q' := by
  simp only [updatePeer, List.mem_map]

theorem findPeer_some {ps : List Peer} {c : Nat} {p : Peer} (h : findPeer ps c = some p) :
    p ∈ ps ∧ p.conn = c := by
  unfold findPeer at h
  exact ⟨List.mem_of_find?_eq_some h, by simpa using List.find?_some h⟩

theorem findPeer_of_mem {ps : List Peer} (hn : (ps.map (·.conn)).Nodup) {p : Peer} (hp : p ∈ ps) :
    findPeer ps p.conn = some p := by
  induction ps with
  | nil => cases hp
  | cons q qs ih =>
    rw [List.map_cons, List.nodup_cons] at hn
    unfold findPeer
    rw [List.find?_cons]
    rcases List.mem_cons.1 hp with rfl | hp'
    · simp
    · have : q.conn ≠ p.conn := fun h => hn.1 (h ▸ List.mem_map_of_mem (f := (·.conn)) hp')
      have h2 : (q.conn == p.conn) = false := by simp [this]
      simp only [h2]
      exact ih hn.2 hp'

theorem findPeer_none_iff {ps : List Peer} {c : Nat} : findPeer ps c = none ↔ c ∉ ps.map (·.conn) := by
  unfold findPeer
  rw [List.find?_eq_none]
  simp [List.mem_map]

theorem updatePeer_conns (ps : List Peer) (c : Nat) (g : Peer → Peer) (hg : ∀ q, (g q).conn = q.conn) :
    (updatePeer ps c g).map (·.conn) = ps.map (·.conn) := by
  unfold updatePeer
  rw [List.map_map]
  apply List.map_congr_left
  intro q _
  simp only [Function.comp]
  split <;> simp [hg]

theorem eq_of_conn_eq {ps : List Peer} (hn : (ps.map (·.conn)).Nodup) {p q : Peer}
    (hp : p ∈ ps) (hq : q ∈ ps) (h : p.conn = q.conn) : p = q :=
  nodup_map_inj hn hp hq h

end Cjet.Daemon.C01
