import Cjet.Matcher

/-!
# Declarative side of property C16

What the property text says, independent of how fetch.c computes it: the six matcher kinds and
their names, what each means for a path (`Spec`, over `List` prefix / suffix / infix and ASCII
case folding), how the property reads a rule object (`specKind`, `operands`, `optionCI`) and when
a rule object is well formed (`WellFormed`).
-/

namespace Cjet.Matcher

open Cjet.Generated.Matcher (CFn Entry table optionKey optionKeyCmpLen)

/-- The matcher kinds the property names. -/
inductive Kind where
  | equals | equalsNot | startsWith | endsWith | contains | containsAllOf
  deriving DecidableEq, Repr

def Kind.all : List Kind := [.equals, .equalsNot, .startsWith, .endsWith, .contains, .containsAllOf]

/-- The JSON key of each kind (ASCII). -/
def Kind.name : Kind → Bytes
  | .equals => [101, 113, 117, 97, 108, 115]                                        -- "equals"
  | .equalsNot => [101, 113, 117, 97, 108, 115, 78, 111, 116]                       -- "equalsNot"
  | .startsWith => [115, 116, 97, 114, 116, 115, 87, 105, 116, 104]                 -- "startsWith"
  | .endsWith => [101, 110, 100, 115, 87, 105, 116, 104]                            -- "endsWith"
  | .contains => [99, 111, 110, 116, 97, 105, 110, 115]                             -- "contains"
  | .containsAllOf => [99, 111, 110, 116, 97, 105, 110, 115, 65, 108, 108, 79, 102] -- "containsAllOf"

/-- The option key of the property: "caseInsensitive". -/
def Kind.optionName : Bytes := [99, 97, 115, 101, 73, 110, 115, 101, 110, 115, 105, 116, 105, 118, 101]

/-- Only `containsAllOf` takes an array of operands. -/
def Kind.multi : Kind → Bool
  | .containsAllOf => true
  | _ => false

/-- ASCII case folding when the rule is case insensitive, identity otherwise. -/
def foldCase (ci : Bool) (s : Bytes) : Bytes := if ci then lower s else s

/-- What a matcher of kind `k` with operands `ops` says about `path`
    (single-operand kinds have exactly one operand). -/
def Spec (k : Kind) (ci : Bool) (ops : List Bytes) (path : Bytes) : Prop :=
  match k with
  | .equals => foldCase ci (ops.headD []) = foldCase ci path
  | .equalsNot => foldCase ci (ops.headD []) ≠ foldCase ci path
  | .startsWith => foldCase ci (ops.headD []) <+: foldCase ci path
  | .endsWith => foldCase ci (ops.headD []) <:+ foldCase ci path
  | .contains => foldCase ci (ops.headD []) <:+: foldCase ci path
  | .containsAllOf => ∀ op ∈ ops, foldCase ci op <:+: foldCase ci path

/-- Which kind, with which case handling, each C match function is meant to implement. -/
def kindOfFn : CFn → Kind × Bool
  | .equals_match => (.equals, false)
  | .equals_match_ignore_case => (.equals, true)
  | .contains_match => (.contains, false)
  | .contains_match_ignore_case => (.contains, true)
  | .startswith_match => (.startsWith, false)
  | .startswith_match_ignore_case => (.startsWith, true)
  | .endswith_match => (.endsWith, false)
  | .endswith_match_ignore_case => (.endsWith, true)
  | .equalsnot_match => (.equalsNot, false)
  | .equalsnot_match_ignore_case => (.equalsNot, true)
  | .containsallof_match => (.containsAllOf, false)
  | .containsallof_match_ignore_case => (.containsAllOf, true)

/-- The kind a key names (keys are compared exactly, as C strings). -/
def specKind (name : Bytes) : Option Kind := Kind.all.find? (fun k => k.name == name)

/-- All members of an array are strings: their C views. -/
def allStrings : List JItem → Option (List Bytes)
  | [] => some []
  | .str b :: rest => (allStrings rest).map (cstr b :: ·)
  | .other :: _ => none

/-- The operands a correctly typed value gives to a matcher of kind `k`: one string for the
    single-operand kinds, a non-empty array of strings for `containsAllOf`. -/
def operands (k : Kind) (v : JVal) : Option (List Bytes) :=
  if k.multi then
    match v with
    | .arr [] => none
    | .arr items => allStrings items
    | _ => none
  else
    match v with
    | .str s => some [cstr s]
    | _ => none

/-- Is this member the option key (exactly)? -/
def isOption (m : Bytes × JVal) : Bool := cstr m.1 == optionKey

/-- The option as the property reads it: the (first) member whose key is the option key has the
    JSON value `true`.  Anything else — absent, `false`, a non-boolean — is "not set".
    (An accepted rule has at most one such member: `repeated_option_key`.) -/
def optionCI (members : Members) : Bool :=
  match members.find? isOption with
  | some (_, v) => v == .tru
  | none => false

def optionCount (members : Members) : Nat := (members.filter isOption).length
def matcherCount (members : Members) : Nat := (members.filter (fun m => !isOption m)).length

/-- A member is the option key, or names a kind and carries correctly typed operands. -/
def MemberOk (m : Bytes × JVal) : Prop :=
  isOption m = true ∨ ∃ k ops, specKind (cstr m.1) = some k ∧ operands k m.2 = some ops

/-- A rule object the property does not ask to refuse. -/
structure WellFormed (maxMatchers : Nat) (members : Members) : Prop where
  members_ok : ∀ m ∈ members, MemberOk m
  option_once : optionCount members ≤ 1
  some_matcher : 1 ≤ matcherCount members
  not_too_many : matcherCount members ≤ maxMatchers

/-- Every `create_path_matcher` the rule needs stays under the heap cap. -/
def FitsHeap (cfg : Cfg) (members : Members) : Prop :=
  callocOk cfg (pathMatcherBytes 1) = true ∧
  ∀ m ∈ members, ∀ items, m.2 = .arr items → items ≠ [] → callocOk cfg (pathMatcherBytes items.length) = true

/-- The declared matchers hold on a path: every member that is not the option key names a kind,
    has well-typed operands, and that matcher's `Spec` holds. -/
def RuleHolds (members : Members) (path : Bytes) : Prop :=
  ∀ m ∈ members, isOption m = false →
    ∃ k ops, specKind (cstr m.1) = some k ∧ operands k m.2 = some ops ∧ Spec k (optionCI members) ops path

end Cjet.Matcher
