import Cjet.Basic
import Cjet.Generated.Authfile
/-!
# Model of `src/posix/auth_file.c` (+ the two request handlers of `src/authenticate.c`)  — C20

What is transcribed, function by function:

* the credential database as the code reads it: an ordered list of user entries; every lookup is
  `cJSON_GetObjectItem`, i.e. the FIRST entry whose name matches under ASCII case folding
  (`lookup`); per entry the four members the code looks at (`password`, `readonly`, `admin`,
  `auth`), each read the way the code reads it (`readonly`/`admin` are true exactly for JSON `true`);
* `credentials_ok` with `crypt` as a PARAMETER (`credentialsOk`);
* `handle_authentication`: the peer's user name becomes the name *as sent in the request*
  (`authenticate`);
* `change_password`: the checks in the order of the code and one error kind per error path
  (`precheck`, `changePassword`), `get_salt_from_passwd` + `fill_salt` (`deriveSetting`) over the
  method table regenerated from the source (`Cjet.Generated.Authfile`);
* `write_user_data` as the exact list of file-system calls it makes on the descriptor it keeps
  open — `ftruncate(fd,0)`, `lseek(fd,0,SEEK_SET)` (result ignored), then the `write` loop — against
  a small file-system model (`Fs`: file content + offset of that descriptor).  The outcome of every
  call is an input (`Outcome`: ok / error / short write of k bytes); a crash may happen between any
  two calls or inside a write after j bytes (`CrashPoint`, `diskAt`).

Parameters, not modelled: `crypt`, cJSON's printer and parser (`Codec`: `ser`, `parse` with the
stated assumptions `Codec.Sound`), the random source (the bytes handed out are an input).

The write loop is the one of commit c5f7d0d ("fix: write_user_data restarted from the beginning …");
the loop as it was before is kept in `Legacy` only to state what the defect was.
-/

namespace Cjet.Authfile

open Cjet

/-! ## The database -/

/-- The `password` member of a user entry as `credentials_ok`/`change_password` see it. -/
inductive PwField where
  | absent                 -- cJSON_GetObjectItem(user, "password") == NULL
  | notString              -- present, type != cJSON_String
  | str (hash : Bytes)     -- valuestring
  deriving DecidableEq, Repr

structure User where
  name : Bytes
  password : PwField
  /-- `is_readonly`: member `readonly` present and of type `cJSON_True` -/
  readonly : Bool
  /-- `is_admin` (for this entry): member `admin` present and of type `cJSON_True` -/
  admin : Bool
  /-- the `auth` member (fetch/set/call groups), as an opaque canonical rendering -/
  auth : Option Bytes
  deriving DecidableEq, Repr

/-- Entries in file order; names may repeat (then only the first is ever found). -/
abbrev Db := List User

/-- `tolower` in the "C" locale. -/
def lower (b : UInt8) : UInt8 := if 65 ≤ b.toNat ∧ b.toNat ≤ 90 then b + 32 else b

/-- `case_insensitive_strcmp(a, b) == 0` of cJSON (names are C strings without NUL). -/
def caseEq (a b : Bytes) : Bool := a.map lower == b.map lower

/-- `cJSON_GetObjectItem(users, name)`. -/
def lookup (db : Db) (name : Bytes) : Option User := db.find? (fun u => caseEq name u.name)

/-- `is_admin(current_user)`. -/
def isAdmin (db : Db) (caller : Bytes) : Bool :=
  match lookup db caller with
  | some u => u.admin
  | none => false

/-- `cJSON_ReplaceItemInObject(user, "password", cJSON_CreateString(h))` on the entry that
    `lookup db target` returns: the first matching entry gets the new hash, nothing else moves. -/
def replacePassword : Db → Bytes → Bytes → Db
  | [], _, _ => []
  | u :: rest, target, h =>
    if caseEq target u.name then { u with password := .str h } :: rest
    else u :: replacePassword rest target h

/-! ## `credentials_ok` and `handle_authentication` -/

/-- `crypt(key, setting)`: `none` is a NULL result. -/
abbrev Crypt := Bytes → Bytes → Option Bytes

/-- `credentials_ok(user, pw)`: the `auth` object, `none` for NULL. -/
def credentialsOk (crypt : Crypt) (db : Db) (user pw : Bytes) : Option Bytes :=
  match lookup db user with
  | none => none
  | some u =>
    match u.password with
    | .str h =>
      match crypt pw h with
      | none => none
      | some e => if e = h then u.auth else none
    | _ => none

/-- `handle_authentication` (with an empty fetch list — the "fetched before authenticate" refusal
    belongs to C08): returns the peer's new user name and whether the request succeeded.
    On failure the previous name stays. -/
def authenticate (crypt : Crypt) (db : Db) (peerName : Option Bytes) (user pw : Bytes) : Option Bytes × Bool :=
  match credentialsOk crypt db user pw with
  | some _ => (some user, true)
  | none => (peerName, false)

/-! ## Salt / method re-derivation (`get_salt_from_passwd`, `fill_salt`) -/

/-- `strncmp(a, b, n) == 0` for NUL-free strings; `n = none` stands for an unbounded `n`. -/
def strncmpEq (a b : Bytes) : Option Nat → Bool
  | some n => a.take n == b.take n
  | none => a == b

/-- index of the first `$` at or after position 1, plus one (`found - passwd` in the code);
    `none` when there is no second `$` (the code then computes `NULL + 1 - passwd`, a huge count). -/
def prefixLen (stored : Bytes) : Option Nat :=
  match (stored.drop 1).findIdx? (· == 36) with
  | some i => some (i + 2)
  | none => none

/-- the method row selected for a stored hash: `(prefix, minlen, maxlen)`. -/
def findMethod (methods : List (Bytes × Nat × Nat)) (stored : Bytes) : Option (Bytes × Nat × Nat) :=
  match stored with
  | 36 :: _ => methods.find? (fun m => strncmpEq stored m.1 (prefixLen stored))
  | _ => methods.head?

/-- `cjet_get_random_bytes(buf, n)` from a script: the next `n` bytes, zeros when exhausted. -/
def takeRnd (n : Nat) (rnd : Bytes) : Bytes × Bytes :=
  (rnd.take n ++ List.replicate (n - rnd.length) 0, rnd.drop n)

/-- a native (little-endian) `unsigned int` -/
def le32 (bs : Bytes) : Nat := bs.foldr (fun b acc => b.toNat + 256 * acc) 0

/-- `fill_salt`: `valid_salts[random_byte % (sizeof valid_salts - 1)]` per byte. -/
def saltChar (alphabet : Bytes) (b : UInt8) : UInt8 := alphabet.getD (b.toNat % alphabet.length) 0

/-- `get_salt_from_passwd`: the `setting` string handed to `crypt`, `none` for "method not supported". -/
def deriveSettingWith (methods : List (Bytes × Nat × Nat)) (alphabet : Bytes) (stored rnd : Bytes) : Option Bytes :=
  match findMethod methods stored with
  | none => none
  | some (pfx, minlen, maxlen) =>
    let (saltLen, rnd1) :=
      if minlen ≠ maxlen then
        let (r, rest) := takeRnd 4 rnd
        ((le32 r) % (maxlen - minlen + 1) + minlen, rest)
      else (maxlen, rnd)
    let (raw, _) := takeRnd saltLen rnd1
    some (pfx ++ raw.map (saltChar alphabet) ++ [36])

def deriveSetting (stored rnd : Bytes) : Option Bytes :=
  deriveSettingWith Generated.Authfile.methods Generated.Authfile.validSalts stored rnd

/-! ## The file system as `write_user_data` sees it -/

/-- The credential file and the offset of the descriptor the daemon keeps open on it. -/
structure Fs where
  data : Bytes
  off : Nat
  deriving DecidableEq, Repr

/-- `write(fd, b, |b|)` transferring all of `b` at the current offset (a gap is zero-filled;
    a zero-length write changes nothing). -/
def Fs.pwrite (fs : Fs) (b : Bytes) : Fs :=
  if b.isEmpty then fs else
  let padded := fs.data ++ List.replicate (fs.off - fs.data.length) 0
  { data := padded.take fs.off ++ b ++ padded.drop (fs.off + b.length), off := fs.off + b.length }

inductive Call where
  | ftruncate (len : Nat)
  | lseek (pos : Nat)
  | write (buf : Bytes)
  deriving DecidableEq, Repr

/-- What the environment decides for one call.  `short k` only means something for `write`
    (the call accepts `min k n` bytes; `short 0` is a write that returns 0); for the other calls it
    counts as `ok`. -/
inductive Outcome where
  | ok
  | err
  | short (k : Nat)
  deriving DecidableEq, Repr

inductive Ret where
  | ok
  | err
  | count (k : Nat)
  deriving DecidableEq, Repr

/-- One executed call: what was called, what it returned, the file system right after it. -/
structure Step where
  call : Call
  ret : Ret
  after : Fs
  deriving DecidableEq, Repr

/-- The `while (to_write > 0)` loop: one outcome is consumed per `write`; when the script is
    exhausted the remaining writes are complete. -/
def writeLoop (fs : Fs) (buf : Bytes) : List Outcome → List Step × Bool
  | [] => if buf.isEmpty then ([], true) else ([⟨.write buf, .count buf.length, fs.pwrite buf⟩], true)
  | o :: rest =>
    if buf.isEmpty then ([], true) else
    match o with
    | .err => ([⟨.write buf, .err, fs⟩], false)
    | .ok => ([⟨.write buf, .count buf.length, fs.pwrite buf⟩], true)
    | .short k =>
      if k ≥ buf.length then ([⟨.write buf, .count buf.length, fs.pwrite buf⟩], true)
      else
        let fs' := fs.pwrite (buf.take k)
        let r := writeLoop fs' (buf.drop k) rest
        (⟨.write buf, .count k, fs'⟩ :: r.1, r.2)

/-- `write_user_data()`: the calls it makes, in order, and whether it returns 0. -/
def writeUserData (fs : Fs) (data : Bytes) (outs : List Outcome) : List Step × Bool :=
  match outs.headD .ok with
  | .err => ([⟨.ftruncate 0, .err, fs⟩], false)
  | _ =>
    let fs1 : Fs := { fs with data := [] }
    let outs1 := outs.drop 1
    let (fs2, r2) : Fs × Ret :=
      match outs1.headD .ok with
      | .err => (fs1, .err)                      -- result ignored by the code; the offset stays
      | _ => ({ fs1 with off := 0 }, .count 0)
    let w := writeLoop fs2 data (outs1.drop 1)
    (⟨.ftruncate 0, .ok, fs1⟩ :: ⟨.lseek 0, r2, fs2⟩ :: w.1, w.2)

/-! ### Crash points -/

/-- Where the machine stops: after `i` complete calls, or inside call `i` (0-based; a `write`)
    after `j` of its bytes reached the file. -/
inductive CrashPoint where
  | between (i : Nat)
  | inside (i : Nat) (j : Nat)
  deriving DecidableEq, Repr

/-- file system state after `i` complete calls -/
def fsAfter (fs0 : Fs) (trace : List Step) (i : Nat) : Fs :=
  match i with
  | 0 => fs0
  | i + 1 => match trace[i]? with
    | some s => s.after
    | none => (trace.getLast?.map (·.after)).getD fs0

/-- file system after the whole trace -/
def lastFs (fs0 : Fs) (trace : List Step) : Fs := (trace.getLast?.map (·.after)).getD fs0

/-- number of bytes call `s` transferred -/
def Step.transferred (s : Step) : Nat :=
  match s.ret with
  | .count k => k
  | _ => 0

/-- Content of the credential file that a restart finds. -/
def diskAt (fs0 : Fs) (trace : List Step) : CrashPoint → Bytes
  | .between i => (fsAfter fs0 trace i).data
  | .inside i j =>
    match trace[i]? with
    | some ⟨.write buf, ret, after⟩ =>
      ((fsAfter fs0 trace i).pwrite (buf.take (min j (Step.transferred ⟨.write buf, ret, after⟩)))).data
    | _ => (fsAfter fs0 trace i).data

/-! ## cJSON printer / parser as parameters -/

structure Codec where
  /-- `cJSON_Print(user_data)` for a database -/
  ser : Db → Bytes
  /-- what a fresh `load_passwd_data` makes of a file content (`none`: refuses to load) -/
  parse : Bytes → Option Db

def Codec.loadable (c : Codec) (b : Bytes) : Bool := (c.parse b).isSome

/-- ASSUMPTIONS about printer and loader for a database `d` (checked by the tie against the real
    `cJSON_Print` + `load_passwd_data` on every run):
    * the serialisation is loadable and parses back to `d`;
    * no strict prefix of the serialisation — in particular the empty file — is loadable. -/
structure Codec.Sound (c : Codec) (d : Db) : Prop where
  roundtrip : c.parse (c.ser d) = some d
  prefixes : ∀ k, k < (c.ser d).length → c.parse ((c.ser d).take k) = none

/-! ## `change_password` -/

inductive ErrKind where
  | notAuthenticated     -- "non-authenticated peer can't change any passwords"
  | userNotInDb          -- "user not in password database"
  | notAllowed           -- "user not allowed to change password"
  | noPassword           -- "no password for user in password database"
  | passwordNotString    -- "password for user in password database is not a string"
  | noSalt               -- "can't create salt for new password"
  | cryptFailed          -- "could not encrypt password"
  | writeFailed          -- INTERNAL_ERROR "Could not write password file"
  deriving DecidableEq, Repr

/-- The checks of `change_password` before anything is computed, in the order of the code; on
    success the entry that will be changed and its stored hash.
    (`user_data == NULL` cannot hold once the lookup succeeded, that error path is dead.) -/
def precheck (db : Db) (caller : Option Bytes) (target : Bytes) : Except ErrKind (User × Bytes) :=
  match caller with
  | none => .error .notAuthenticated
  | some c =>
    match lookup db target with
    | none => .error .userNotInDb
    | some u =>
      if !u.readonly && (c == target || isAdmin db c) then
        match u.password with
        | .absent => .error .noPassword
        | .notString => .error .passwordNotString
        | .str h => .ok (u, h)
      else .error .notAllowed

structure ChangeResult where
  /-- in-memory database afterwards -/
  db : Db
  /-- the file-system calls made -/
  trace : List Step
  /-- file system afterwards -/
  fs : Fs
  /-- `none` = success response, `some e` = error response -/
  err : Option ErrKind
  /-- the `crypt` call made, if any: (setting, result) -/
  hashed : Option (Bytes × Option Bytes)
  deriving Repr

/-- `change_password(p, request, user_name, passwd)` with `p->user_name = caller`. -/
def changePassword (crypt : Crypt) (c : Codec) (db : Db) (fs : Fs) (caller : Option Bytes)
    (target newpw rnd : Bytes) (outs : List Outcome) : ChangeResult :=
  match precheck db caller target with
  | .error e => ⟨db, [], fs, some e, none⟩
  | .ok (_, stored) =>
    match deriveSetting stored rnd with
    | none => ⟨db, [], fs, some .noSalt, none⟩
    | some setting =>
      match crypt newpw setting with
      | none => ⟨db, [], fs, some .cryptFailed, some (setting, none)⟩
      | some e =>
        -- the in-memory database is changed BEFORE the file is written, and stays changed
        -- when writing fails
        let db' := replacePassword db target e
        let w := writeUserData fs (c.ser db') outs
        ⟨db', w.1, lastFs fs w.1, if w.2 then none else some .writeFailed, some (setting, some e)⟩

/-- The condition of the property: who may change whose password. -/
def Authorised (db : Db) (caller : Option Bytes) (target : Bytes) : Prop :=
  ∃ cname u, caller = some cname ∧ lookup db target = some u ∧ u.readonly = false ∧
    (cname = target ∨ isAdmin db cname = true)

instance (db : Db) (caller : Option Bytes) (target : Bytes) : Decidable (Authorised db caller target) :=
  match caller, h : lookup db target with
  | none, _ => isFalse (by intro ⟨_, _, hc, _⟩; cases hc)
  | some _, none => isFalse (by intro ⟨_, _, _, hl, _⟩; rw [h] at hl; cases hl)
  | some cn, some u =>
    if h2 : u.readonly = false ∧ (cn = target ∨ isAdmin db cn = true) then
      isTrue ⟨cn, u, rfl, h, h2.1, h2.2⟩
    else isFalse (by
      intro ⟨cn', u', hc, hl, hr, ha⟩
      cases hc; rw [h] at hl; cases hl
      exact h2 ⟨hr, ha⟩)

/-! ## Sessions: sequences of authenticate / passwd requests over several peers -/

inductive Op where
  | fresh (peer : Nat)                                    -- a new connection takes this slot
  | auth (peer : Nat) (user pw : Bytes)
  | passwd (peer : Nat) (target newpw rnd : Bytes) (outs : List Outcome)
  deriving Repr

structure State where
  db : Db
  fs : Fs
  /-- `p->user_name` per peer slot -/
  names : Nat → Option Bytes

def setName (names : Nat → Option Bytes) (i : Nat) (v : Option Bytes) : Nat → Option Bytes :=
  fun j => if j = i then v else names j

def step (crypt : Crypt) (c : Codec) (st : State) : Op → State
  | .fresh i => { st with names := setName st.names i none }
  | .auth i user pw =>
    { st with names := setName st.names i (authenticate crypt st.db (st.names i) user pw).1 }
  | .passwd i target newpw rnd outs =>
    let r := changePassword crypt c st.db st.fs (st.names i) target newpw rnd outs
    { st with db := r.db, fs := r.fs }

def run (crypt : Crypt) (c : Codec) (st : State) (ops : List Op) : State :=
  ops.foldl (step crypt c) st

/-! ## The write loop before commit c5f7d0d (kept only to state the corrected defect, F24b) -/

namespace Legacy

/-- `written = 0; to_write = n; while (written < to_write) { written = write(fd, data, to_write);
    if (written < 0) return -1; to_write -= written; }` — `data` is never advanced, and the loop
    condition compares the LAST return value with what is left. -/
def writeLoop (fs : Fs) (data : Bytes) (toWrite : Nat) : List Outcome → List Step × Bool
  | [] => ([⟨.write (data.take toWrite), .count (data.take toWrite).length, fs.pwrite (data.take toWrite)⟩], true)
  | o :: rest =>
    let buf := data.take toWrite
    match o with
    | .err => ([⟨.write buf, .err, fs⟩], false)
    | .ok => ([⟨.write buf, .count buf.length, fs.pwrite buf⟩], true)
    | .short k =>
      if k ≥ buf.length then ([⟨.write buf, .count buf.length, fs.pwrite buf⟩], true)
      else
        let fs' := fs.pwrite (buf.take k)
        let left := toWrite - k
        -- loop condition `written < to_write` with written = k, to_write = left
        if k < left then
          let r := writeLoop fs' data left rest
          (⟨.write buf, .count k, fs'⟩ :: r.1, r.2)
        else ([⟨.write buf, .count k, fs'⟩], true)

def writeUserData (fs : Fs) (data : Bytes) (outs : List Outcome) : List Step × Bool :=
  match outs.headD .ok with
  | .err => ([⟨.ftruncate 0, .err, fs⟩], false)
  | _ =>
    let fs1 : Fs := { fs with data := [] }
    let outs1 := outs.drop 1
    let (fs2, r2) : Fs × Ret :=
      match outs1.headD .ok with
      | .err => (fs1, .err)
      | _ => ({ fs1 with off := 0 }, .count 0)
    let w := writeLoop fs2 data data.length (outs1.drop 1)
    (⟨.ftruncate 0, .ok, fs1⟩ :: ⟨.lseek 0, r2, fs2⟩ :: w.1, w.2)

end Legacy

end Cjet.Authfile
