/-
  Cjet.Alloc — model of src/alloc.c: the capped, accounting allocator.

  State of the C file: `static size_t allocated_memory`; every block handed out starts with a
  `size_t size` header holding what was accounted for it.  The model keeps the counter and the
  list of live blocks `(id, header value)`; ids number the successful allocations.

  All arithmetic is `size_t` arithmetic: modulo `2 ^ sizeBits`, exactly as the C expressions
  `size + sizeof(size_t)`, `nmemb * size + sizeof(size_t)`, `allocated_memory + alloc_size`,
  `CONFIG_MAX_HEAPSIZE_IN_KBYTE * 1024`, `allocated_memory -= mem->size` evaluate.
  Whether the underlying `malloc`/`calloc` succeeds is an ORACLE input of the operation.

  `cjet_free` has a precondition in C (the pointer comes from `cjet_malloc`/`cjet_calloc` and was
  not freed before); the model's `free` of an id that is not live is a no-op answering `nofree`,
  and the harness does not call the C function in that case.
-/
import Cjet.Generated.Alloc

namespace Cjet.Alloc

open Cjet.Generated.Alloc

/-- size_t values are taken modulo `W` -/
def W : Nat := 2 ^ sizeBits

structure Params where
  capKByte : Nat      -- CONFIG_MAX_HEAPSIZE_IN_KBYTE
  factor : Nat        -- 1024
  hdr : Nat           -- sizeof(size_t)
  deriving Repr

/-- the configuration of the unchanged tree -/
def defaultParams : Params := ⟨capKByte, capFactor, headerSize⟩

/-- `CONFIG_MAX_HEAPSIZE_IN_KBYTE * 1024` -/
def Params.capBytes (P : Params) : Nat := (P.capKByte * P.factor) % W

structure St where
  allocated : Nat := 0
  live : List (Nat × Nat) := []       -- (id, header value), oldest first
  next : Nat := 0
  deriving Repr, DecidableEq

inductive Op where
  | malloc (size : Nat) (osOk : Bool)
  | calloc (nmemb size : Nat) (osOk : Bool)
  | free (id : Nat)
  deriving Repr

inductive Res where
  | ptr (id : Nat)
  | null
  | freed
  | nofree
  deriving Repr, DecidableEq

/-- `alloc_size`: the request plus the header, as a size_t -/
def allocSize (P : Params) (bytes : Nat) : Nat := (bytes % W + P.hdr) % W

/-- the request of an allocating operation, as the C expression computes it -/
def Op.bytes : Op → Nat
  | .malloc size _ => size % W
  | .calloc nmemb size _ => ((nmemb % W) * (size % W)) % W
  | .free _ => 0

def Op.osOk : Op → Bool
  | .malloc _ b => b
  | .calloc _ _ b => b
  | .free _ => false

/-- cjet_malloc / cjet_calloc from the cap test on -/
def alloc (P : Params) (s : St) (bytes : Nat) (osOk : Bool) : St × Res :=
  let a := allocSize P bytes
  if (s.allocated + a) % W > P.capBytes then (s, .null)          -- "Maximum allowed heap size exceeded"
  else if !osOk then (s, .null)                                   -- "Can't get requested memory from OS"
  else ({ allocated := (s.allocated + a) % W, live := s.live ++ [(s.next, a)], next := s.next + 1 },
        .ptr s.next)

/-- remove the block `id` from the list; its header value and the remaining blocks -/
def take (id : Nat) : List (Nat × Nat) → Option (Nat × List (Nat × Nat))
  | [] => none
  | (i, sz) :: t =>
    if i == id then some (sz, t)
    else match take id t with
      | some (z, t') => some (z, (i, sz) :: t')
      | none => none

/-- cjet_free -/
def free (s : St) (id : Nat) : St × Res :=
  match take id s.live with
  | none => (s, .nofree)
  | some (sz, rest) => ({ s with allocated := (s.allocated + W - sz % W) % W, live := rest }, .freed)

def step (P : Params) (s : St) : Op → St × Res
  | .malloc size osOk => alloc P s (size % W) osOk
  | .calloc nmemb size osOk => alloc P s (((nmemb % W) * (size % W)) % W) osOk
  | .free id => free s id

/-- final state and, per operation, the result and `cjet_get_alloc_size()` after it -/
def run (P : Params) (s : St) : List Op → St × List (Res × Nat)
  | [] => (s, [])
  | op :: rest =>
    let r := step P s op
    let q := run P r.1 rest
    (q.1, (r.2, r.1.allocated) :: q.2)

def init : St := {}

end Cjet.Alloc
