import Cjet.Basic
import Cjet.Generated.Consts
/-!
# Cjet.Bufread — the READ side of `src/buffered_socket.c` and its three clients

Transcribed from `/repo/src/buffered_socket.c` (`free_space`, `unread_bytes`,
`reorganize_read_buffer`, `fill_buffer`, `get_read_ptr`, `internal_read_until`, `go_reading`,
`read_function`, `buffered_socket_read_exactly/_until`) and from the reader clients
`socket_peer.c` (`read_msg_length`/`read_msg`), `http_connection.c` (`read_start_line`) and
`websocket.c` (`ws_get_header` … `ws_get_payload`).

* The read buffer is a byte list of length `cap` (= `CONFIG_MAX_MESSAGE_SIZE`; the model is generic
  in `cap`), `r`/`w` are the offsets of `read_ptr`/`write_ptr`.
* The kernel is an input: the list of answers it gives to the successive `socket_read` calls of one
  `go_reading` invocation (one readiness event).  `chunk b` = "bytes `b` have arrived": a read that
  asks for fewer bytes gets a prefix and the rest stays in the socket for the next call; the empty
  chunk is `read() = 0`, i.e. end of stream.  A script that runs out answers would-block.
* A client is a pure state machine that decides, from inside the read callback, what to read next.
-/

set_option linter.unusedVariables false  -- `match h :` hypotheses are used by `decreasing_by` only

namespace Cjet.Bufread

/-! ## Requests, clients, kernel answers -/

/-- What the client armed: `buffered_socket_read_exactly(n)` or `buffered_socket_read_until(delim)`. -/
inductive Req where
  | exactly (n : Nat)
  | until (delim : Bytes)
  deriving Repr, DecidableEq

/-- A reader client: `want` is the reader armed in state `s`; `deliver` is the read callback invoked with
    a non-empty slice; it returns the next state (re-arming a reader from inside the callback is the
    change of `want`) and whether the callback returned `BS_CLOSED`. -/
structure Client (σ : Type) where
  want : σ → Req
  deliver : σ → Bytes → σ × Bool

/-- One scripted kernel answer. -/
inductive KRes where
  | chunk (b : Bytes)
  | wouldBlock
  | eof
  | err
  deriving Repr, DecidableEq

/-- What one `socket_read` call returned. -/
inductive Got where
  | data (b : Bytes)
  | wouldBlock
  | eof
  | err
  deriving Repr, DecidableEq

/-- How `go_reading` came back (and what `read_function` does with it). -/
inductive Outcome where
  | wouldBlock     -- BS_IO_WOULD_BLOCK: stay registered, wait for the next readiness event
  | peerClosed     -- reader returned 0: callback(buf, 0) was called, event removed
  | clientClosed   -- a callback returned BS_CLOSED, event removed
  | ioError        -- BS_IO_ERROR: the error handler was called
  | tooMuch        -- BS_IO_TOOMUCHDATA: the error handler was called
  deriving Repr, DecidableEq

/-! ## The reader -/

structure Reader where
  buf : Bytes
  r : Nat
  w : Nat
  deriving Repr, DecidableEq

/-- `buf[r, w)` for a byte list. -/
def slice (buf : Bytes) (r w : Nat) : Bytes := (buf.drop r).take (w - r)

/-- bytes `b` stored at offset `at` (what the kernel does with the pointer handed to `read`). -/
def splice (buf : Bytes) (pos : Nat) (b : Bytes) : Bytes :=
  buf.take pos ++ b ++ buf.drop (pos + b.length)

/-- `buffered_socket_init`: both pointers at the buffer start; the buffer content is whatever the
    allocation held (`fill`). -/
def Reader.init (cap : Nat) (fill : UInt8) : Reader := ⟨List.replicate cap fill, 0, 0⟩

/-- the unread region `[read_ptr, write_ptr)`. -/
def Reader.unread (rd : Reader) : Bytes := slice rd.buf rd.r rd.w

/-- representation invariant: `read_buffer ≤ read_ptr ≤ write_ptr ≤ read_buffer + cap`. -/
structure Inv (cap : Nat) (rd : Reader) : Prop where
  rw : rd.r ≤ rd.w
  wc : rd.w ≤ cap
  len : rd.buf.length = cap

/-- `reorganize_read_buffer`: `memmove(read_buffer, read_ptr, unread)`; `read_ptr = read_buffer`,
    `write_ptr = read_buffer + unread` (for `unread = 0` the C code skips the zero-length move). -/
def reorganize (rd : Reader) : Reader :=
  let u := rd.w - rd.r
  { buf := slice rd.buf rd.r rd.w ++ rd.buf.drop u, r := 0, w := u }

/-- `jet_memmem` (glibc `memmem`): offset of the first occurrence of `d` in `h`; the empty needle is
    found at offset 0. -/
def findSub (d : Bytes) : Bytes → Option Nat
  | [] => if d.isEmpty then some 0 else none
  | x :: t => if d.isPrefixOf (x :: t) then some 0 else (findSub d t).map (· + 1)

/-- Can the armed reader be served from the buffer?  `some len` = the reader returns `len` and a pointer
    to `read_ptr` (`get_read_ptr`: `unread ≥ num`; `internal_read_until`: delimiter found in the unread
    region, `len` includes the delimiter). -/
def avail (req : Req) (rd : Reader) : Option Nat :=
  match req with
  | .exactly n => if n ≤ rd.w - rd.r then some n else none
  | .until d => (findSub d rd.unread).map (· + d.length)

/-- The `count` passed to `fill_buffer` when the request cannot be served. -/
def need (req : Req) (rd : Reader) : Nat :=
  match req with
  | .exactly n => n - (rd.w - rd.r)
  | .until _ => 1

def KRes.size : KRes → Nat
  | .chunk b => 1 + b.length
  | _ => 1

def scriptSize (ks : List KRes) : Nat := (ks.map KRes.size).sum

/-- One `socket_read(fd, write_ptr, asked)` against the script. -/
def kread (asked : Nat) : List KRes → Got × List KRes
  | [] => (.wouldBlock, [])
  | .chunk b :: ks =>
    if b.length = 0 ∨ asked = 0 then (.eof, ks)
    else if b.length ≤ asked then (.data b, ks)
    else (.data (b.take asked), .chunk (b.drop asked) :: ks)
  | .wouldBlock :: ks => (.wouldBlock, ks)
  | .eof :: ks => (.eof, ks)
  | .err :: ks => (.err, ks)

/-- first half of `fill_buffer(count)`: compact when the free space behind `write_ptr` is too small. -/
def prep (cap : Nat) (rd : Reader) (count : Nat) : Reader :=
  if cap - rd.w < count then reorganize rd else rd

theorem prep_unreadBytes (cap : Nat) (rd : Reader) (count : Nat) :
    (prep cap rd count).w - (prep cap rd count).r = rd.w - rd.r := by
  unfold prep; split
  · simp only [reorganize]; omega
  · rfl

/-- Observations of one `go_reading`, in order.  `read`/`deliver` carry the pointer offsets at that
    moment (`deliver`: `r` is where the slice starts, i.e. `read_ptr` before it is advanced). -/
inductive Obs (σ : Type) where
  | read (r w asked : Nat) (got : Got)
  | deliver (r w : Nat) (s : σ) (b : Bytes)
  | cb0        -- callback invoked with len = 0
  | closed     -- callback returned BS_CLOSED
  | error      -- error handler invoked

/-- One iteration of the (flattened) loops of `go_reading` / `get_read_ptr` / `internal_read_until`:
    `get_read_ptr`'s and `internal_read_until`'s `while (1)` re-evaluate, after a successful
    `fill_buffer`, exactly the condition a fresh reader call evaluates. -/
inductive Step (σ : Type) where
  | done (obs : List (Obs σ)) (rd : Reader) (s : σ) (out : Outcome) (ks : List KRes)
  | more (obs : List (Obs σ)) (rd : Reader) (s : σ) (ks : List KRes)

def step (c : Client σ) (cap : Nat) (rd : Reader) (s : σ) (ks : List KRes) : Step σ :=
  match avail (c.want s) rd with
  | some len =>
    -- reader returns len; go_reading calls the callback
    if len = 0 then .done [.cb0] rd s .peerClosed ks
    else
      let b := slice rd.buf rd.r (rd.r + len)
      let rd' := { rd with r := rd.r + len }
      let res := c.deliver s b
      if res.2 then .done [.deliver rd.r rd.w s b, .closed] rd' res.1 .clientClosed ks
      else .more [.deliver rd.r rd.w s b] rd' res.1 ks
  | none =>
    -- fill_buffer(count)
    let count := need (c.want s) rd
    let rd1 := prep cap rd count
    if cap - rd1.w < count then .done [.error] rd1 s .tooMuch ks
    else
      let asked := cap - rd1.w
      match kread asked ks with
      | (.data b, ks') =>
        .more [.read rd1.r rd1.w asked (.data b)]
          { rd1 with buf := splice rd1.buf rd1.w b, w := rd1.w + b.length } s ks'
      | (.wouldBlock, ks') => .done [.read rd1.r rd1.w asked .wouldBlock] rd1 s .wouldBlock ks'
      | (.eof, ks') => .done [.read rd1.r rd1.w asked .eof, .cb0] rd1 s .peerClosed ks'
      | (.err, ks') => .done [.read rd1.r rd1.w asked .err, .error] rd1 s .ioError ks'

/-- termination measure of `goReading`. -/
def measure (rd : Reader) (ks : List KRes) : Nat := 2 * scriptSize ks + (rd.w - rd.r)

theorem slice_length_le (buf : Bytes) (r w : Nat) : (slice buf r w).length ≤ w - r := by
  simp only [slice, List.length_take]; omega

theorem findSub_le (d : Bytes) : ∀ (h : Bytes) (i : Nat), findSub d h = some i → i + d.length ≤ h.length
  | [], i, hh => by
    simp only [findSub] at hh
    split at hh
    · rename_i hd
      have : d = [] := by simpa using hd
      subst this; cases hh; simp
    · cases hh
  | x :: t, i, hh => by
    simp only [findSub] at hh
    split at hh
    · rename_i hp
      cases hh
      have := List.isPrefixOf_iff_prefix.mp hp
      have := this.length_le
      simpa using this
    · cases hfs : findSub d t with
      | none => simp [hfs] at hh
      | some j =>
        simp [hfs] at hh
        have := findSub_le d t j hfs
        simp only [List.length_cons]; omega

theorem avail_le {req : Req} {rd : Reader} {len : Nat} (h : avail req rd = some len) : len ≤ rd.w - rd.r := by
  cases req with
  | exactly n =>
    simp only [avail] at h
    split at h
    · cases h; assumption
    · cases h
  | «until» d =>
    simp only [avail] at h
    cases hf : findSub d rd.unread with
    | none => simp [hf] at h
    | some i =>
      simp [hf] at h
      have h1 := findSub_le d _ i hf
      have h2 := slice_length_le rd.buf rd.r rd.w
      simp only [Reader.unread] at h1
      omega

theorem kread_data {asked : Nat} {ks ks' : List KRes} {b : Bytes} (h : kread asked ks = (.data b, ks')) :
    0 < b.length ∧ b.length ≤ asked ∧ 2 * scriptSize ks' + b.length < 2 * scriptSize ks := by
  cases ks with
  | nil => simp [kread] at h
  | cons k ks =>
    cases k with
    | chunk c =>
      simp only [kread] at h
      split at h
      · simp at h
      · rename_i h0
        split at h
        · rename_i h1
          simp only [Prod.mk.injEq, Got.data.injEq] at h
          obtain ⟨rfl, rfl⟩ := h
          simp only [scriptSize, List.map_cons, List.sum_cons, KRes.size]
          omega
        · rename_i h1
          simp only [Prod.mk.injEq, Got.data.injEq] at h
          obtain ⟨rfl, rfl⟩ := h
          simp only [scriptSize, List.map_cons, List.sum_cons, KRes.size, List.length_take, List.length_drop]
          omega
    | wouldBlock => simp [kread] at h
    | eof => simp [kread] at h
    | err => simp [kread] at h

theorem step_more_measure {c : Client σ} {cap : Nat} {rd : Reader} {s : σ} {ks : List KRes}
    {obs : List (Obs σ)} {rd' : Reader} {s' : σ} {ks' : List KRes}
    (h : step c cap rd s ks = .more obs rd' s' ks') : measure rd' ks' < measure rd ks := by
  unfold step at h
  split at h
  · rename_i len hav
    have hle := avail_le hav
    split at h
    · cases h
    · rename_i hne
      simp only at h
      split at h
      · cases h
      · simp only [Step.more.injEq] at h
        obtain ⟨_, rfl, _, rfl⟩ := h
        simp only [measure]
        omega
  · simp only at h
    split at h
    · cases h
    · split at h
      · rename_i b ks'' hk
        simp only [Step.more.injEq] at h
        obtain ⟨_, rfl, _, rfl⟩ := h
        have := kread_data hk
        have hp := prep_unreadBytes cap rd (need (c.want s) rd)
        simp only [measure]
        omega
      · cases h
      · cases h
      · cases h

/-- Result of one `go_reading` invocation. -/
structure Res (σ : Type) where
  obs : List (Obs σ)
  rd : Reader
  s : σ
  out : Outcome
  rest : List KRes

/-- `go_reading`: run the armed reader and the callback until the reader reports would-block, end of
    stream or an error, or a callback closes the connection.  `ks` = the kernel's answers to the
    successive `socket_read` calls of this invocation; `rest` = the answers not consumed. -/
def goReading (c : Client σ) (cap : Nat) (rd : Reader) (s : σ) (ks : List KRes) : Res σ :=
  match h : step c cap rd s ks with
  | .done obs rd' s' out ks' => ⟨obs, rd', s', out, ks'⟩
  | .more obs rd' s' ks' =>
    let res := goReading c cap rd' s' ks'
    { res with obs := obs ++ res.obs }
termination_by measure rd ks
decreasing_by exact step_more_measure h

/-- End of a connection's run. -/
structure Final (σ : Type) where
  obs : List (Obs σ)
  rd : Reader
  s : σ
  out : Outcome

/-- A connection's life: one `go_reading` per readiness event (the first one is the call made by
    `buffered_socket_read_exactly/_until` when the first reader is armed), until one of them does not
    come back with would-block. -/
def runEvents (c : Client σ) (cap : Nat) (rd : Reader) (s : σ) : List (List KRes) → Final σ
  | [] => ⟨[], rd, s, .wouldBlock⟩
  | ev :: evs =>
    let res := goReading c cap rd s ev
    match res.out with
    | .wouldBlock =>
      let fin := runEvents c cap res.rd res.s evs
      { fin with obs := res.obs ++ fin.obs }
    | _ => ⟨res.obs, res.rd, res.s, res.out⟩

/-- The deliveries (client state at the time of the callback, slice) among the observations. -/
def deliveries : List (Obs σ) → List (σ × Bytes)
  | [] => []
  | .deliver _ _ s b :: os => (s, b) :: deliveries os
  | _ :: os => deliveries os

/-! ## The specification on the byte stream alone -/

/-- How the stream ended (if it did). -/
inductive Terminal where
  | none | eof | err
  deriving Repr, DecidableEq

def Outcome.ofTerminal : Terminal → Outcome
  | .none => .wouldBlock
  | .eof => .peerClosed
  | .err => .ioError

/-- What the armed request takes from the front of the stream. -/
inductive Next where
  | take (len : Nat)
  | tooMuch
  | needMore
  deriving Repr, DecidableEq

def Spec.next (cap : Nat) (req : Req) (str : Bytes) : Next :=
  match req with
  | .exactly n => if cap < n then .tooMuch else if n ≤ str.length then .take n else .needMore
  | .until d =>
    match findSub d (str.take cap) with
    | some i => .take (i + d.length)
    | none => if cap ≤ str.length then .tooMuch else .needMore

theorem Spec.next_take_le {cap : Nat} {req : Req} {str : Bytes} {len : Nat}
    (h : Spec.next cap req str = .take len) : len ≤ str.length := by
  cases req with
  | exactly n =>
    simp only [Spec.next] at h
    split at h
    · cases h
    · split at h
      · cases h; assumption
      · cases h
  | «until» d =>
    simp only [Spec.next] at h
    split at h
    · rename_i i hf
      cases h
      have := findSub_le d _ i hf
      simp only [List.length_take] at this
      omega
    · split at h <;> cases h

/-- The behaviour the byte stream `str` (ended by `t`) prescribes for client `c` started in state `s`:
    the deliveries in order and how the connection ends (`wouldBlock` = still open, waiting). -/
def Spec.run (c : Client σ) (cap : Nat) (s : σ) (str : Bytes) (t : Terminal) : List (σ × Bytes) × Outcome :=
  match h : Spec.next cap (c.want s) str with
  | .tooMuch => ([], .tooMuch)
  | .needMore => ([], .ofTerminal t)
  | .take len =>
    if h0 : len = 0 then ([], .peerClosed)
    else
      let m := str.take len
      let res := c.deliver s m
      if res.2 then ([(s, m)], .clientClosed)
      else
        let r := Spec.run c cap res.1 (str.drop len) t
        ((s, m) :: r.1, r.2)
termination_by str.length
decreasing_by
  have := Spec.next_take_le h
  simp only [List.length_drop]
  omega

/-! ## Bytes and terminal event of a kernel script -/

/-- How an event's answer list ends, as far as `go_reading` can see it. -/
def evFin : List KRes → Terminal
  | [] => .none
  | .chunk b :: ks => if b.length = 0 then .eof else evFin ks
  | .wouldBlock :: _ => .none
  | .eof :: _ => .eof
  | .err :: _ => .err

/-- The bytes an event's answer list offers (up to the first answer that is not data). -/
def evBytes : List KRes → Bytes
  | .chunk b :: ks => if b.length = 0 then [] else b ++ evBytes ks
  | _ => []

/-- The connection's byte stream: the bytes of the events up to the first one that ends the stream. -/
def bytes : List (List KRes) → Bytes
  | [] => []
  | ev :: evs => evBytes ev ++ (if evFin ev = .none then bytes evs else [])

def terminal : List (List KRes) → Terminal
  | [] => .none
  | ev :: evs => if evFin ev = .none then terminal evs else evFin ev

/-- What a peer can observe of a connection's run: the deliveries and how the connection ended
    (`wouldBlock` = still open). -/
def observable (fin : Final σ) : List (σ × Bytes) × Outcome := (deliveries fin.obs, fin.out)

/-- Pointer discipline visible in one observation: a `socket_read` is issued with `r ≤ w ≤ cap` for exactly
    the free space behind `write_ptr`, which is not empty, and the kernel's answer fits; a delivered slice
    is non-empty and lies inside `[r, w)`. -/
def Obs.ok (cap : Nat) : Obs σ → Prop
  | .read r w asked got =>
    r ≤ w ∧ w ≤ cap ∧ 0 < asked ∧ asked = cap - w ∧
      (match got with
       | .data b => 0 < b.length ∧ b.length ≤ asked
       | _ => True)
  | .deliver r w _ b => 0 < b.length ∧ r + b.length ≤ w ∧ w ≤ cap
  | _ => True

/-! ## Clients -/

/-- big-endian value of a byte string (`jet_be32toh`, `jet_be16toh`, `jet_be64toh` after `memcpy`). -/
def be (b : Bytes) : Nat := b.foldl (fun a x => a * 256 + x.toNat) 0

/-- `socket_peer.c`: `read_msg_length` / `read_msg`. -/
inductive RawSt where
  | len
  | msg (n : Nat)
  deriving Repr, DecidableEq

/-- The raw-socket jet peer.  `ok m` = `parse_message(m, len) ≥ 0` (the message handed to the parser is
    exactly the slice; what the parser does with it belongs to other properties). -/
def rawPeer (ok : Bytes → Bool) : Client RawSt where
  want
    | .len => .exactly 4
    | .msg n => .exactly n
  deliver
    | .len, b => if be b = 0 then (.len, false) else (.msg (be b), false)
    | .msg _, m => if ok m then (.len, false) else (.len, true)

def CRLF : Bytes := [13, 10]

/-- `http_connection.c`: `read_start_line` armed with `read_until(CRLF)`; the callback does not re-arm.
    `ok line` = `http_parser_execute` consumed the whole line. -/
def lineClient (delim : Bytes) (ok : Bytes → Bool) : Client Unit where
  want _ := .until delim
  deliver _ l := ((), !ok l)

def httpLine (ok : Bytes → Bool) : Client Unit := lineClient CRLF ok

/-- `websocket.c` header machine (`is_server = true`): `ws_get_header`, `ws_get_first_length`,
    `ws_get_length16/64`, `ws_get_mask`, `ws_get_payload`.  `frameOk p` = `ws_handle_frame` returned `WS_OK` for payload `p`. -/
inductive WsSt where
  | hdr                                  -- read_exactly(1, ws_get_header)
  | len1                                 -- read_exactly(1, ws_get_first_length)
  | len16 (mask : Bool)                  -- read_exactly(2, ws_get_length16)
  | len64 (mask : Bool)                  -- read_exactly(8, ws_get_length64)
  | mask (len : Nat)                     -- read_exactly(4, ws_get_mask)
  | payload (len : Nat) (masked : Bool)  -- read_exactly(len, ws_get_payload)
  deriving Repr, DecidableEq

/-- `read_mask_or_payload`. -/
def wsMaskOrPayload (mask : Bool) (len : Nat) : WsSt × Bool :=
  if mask then (.mask len, false)
  else if len > 0 then (.payload len false, false)
  else (.hdr, true)   -- ws_get_payload(s, NULL, 0): server, frame not masked ⇒ protocol error, closed

def wsHeader (frameOk : Bytes → Bool) : Client WsSt where
  want
    | .hdr => .exactly 1
    | .len1 => .exactly 1
    | .len16 _ => .exactly 2
    | .len64 _ => .exactly 8
    | .mask _ => .exactly 4
    | .payload len _ => .exactly len
  deliver
    | .hdr, _ => (.len1, false)
    | .len1, b =>
      let field := (be b) % 256
      let mask := field / 128 = 1
      let f := field % 128
      if f < 126 then wsMaskOrPayload mask f
      else if f = 126 then (.len16 mask, false)
      else (.len64 mask, false)
    | .len16 mask, b => wsMaskOrPayload mask (be b)
    | .len64 mask, b => wsMaskOrPayload mask (be b)
    | .mask len, _ =>
      if len > 0 then (.payload len true, false)
      else if frameOk [] then (.hdr, false) else (.hdr, true)
    | .payload _ masked, p =>
      if !masked then (.hdr, true)
      else if frameOk p then (.hdr, false) else (.hdr, true)

/-- A test client that exercises re-arming of *different* readers from inside callbacks: the last byte
    `x` of every delivery selects the next request: `0xff` closes, `x ≥ 0x80` arms
    `read_until(CRLF)`, otherwise `read_exactly(x % 8)` (including `read_exactly(0)`). -/
def mixClient : Client Req where
  want s := s
  deliver s b :=
    let x := (b.getLast?.getD 0).toNat
    if x = 255 then (s, true)
    else if x ≥ 128 then (.until CRLF, false)
    else (.exactly (x % 8), false)


/-! ## Direct statements of the two framings (what C09 says in words) -/

/-- 4-byte big-endian encoding of a length. -/
def be32 (n : Nat) : Bytes :=
  [UInt8.ofNat (n / 16777216 % 256), UInt8.ofNat (n / 65536 % 256), UInt8.ofNat (n / 256 % 256), UInt8.ofNat (n % 256)]

/-- The raw-socket framing as a function of the byte stream alone: 4-byte big-endian length; a zero length
    is skipped; a length above `cap` ends the connection (error path); otherwise the message is exactly the
    next `length` bytes; a message the parser refuses ends the connection.  Result: the messages handed to the
    parser, and how the connection ends (`wouldBlock` = still open). -/
def Raw.frames (cap : Nat) (ok : Bytes → Bool) (str : Bytes) (t : Terminal) : List Bytes × Outcome :=
  if _h4 : str.length < 4 then ([], .ofTerminal t)
  else
    let n := be (str.take 4)
    let body := str.drop 4
    if n = 0 then Raw.frames cap ok body t
    else if cap < n then ([], .tooMuch)
    else if body.length < n then ([], .ofTerminal t)
    else if ok (body.take n) then
      let r := Raw.frames cap ok (body.drop n) t
      (body.take n :: r.1, r.2)
    else ([body.take n], .clientClosed)
termination_by str.length
decreasing_by
  all_goals simp only [List.length_drop]
  all_goals omega

/-- the messages (deliveries made in state `msg`) among a raw peer's deliveries. -/
def rawMessages : List (RawSt × Bytes) → List Bytes
  | [] => []
  | (.msg _, m) :: ds => m :: rawMessages ds
  | (.len, _) :: ds => rawMessages ds

/-- `pre` consists of whole frames (zero-length headers and accepted non-empty messages of legal length)
    carrying the messages `ms`. -/
inductive Raw.Whole (cap : Nat) (ok : Bytes → Bool) : Bytes → List Bytes → Prop where
  | nil : Raw.Whole cap ok [] []
  | zero {pre ms} : Raw.Whole cap ok pre ms → Raw.Whole cap ok (be32 0 ++ pre) ms
  | frame {pre ms} (m : Bytes) : m ≠ [] → m.length ≤ cap → m.length < 4294967296 → ok m = true →
      Raw.Whole cap ok pre ms → Raw.Whole cap ok (be32 m.length ++ m ++ pre) (m :: ms)

/-- Lines as a function of the byte stream alone: a line is everything up to and including the first
    occurrence of the delimiter; `cap` bytes without a delimiter end the connection (error path). -/
def Lines.split (cap : Nat) (d : Bytes) (ok : Bytes → Bool) (str : Bytes) (t : Terminal) : List Bytes × Outcome :=
  match hf : findSub d (str.take cap) with
  | some i =>
    if h0 : i + d.length = 0 then ([], .peerClosed)
    else if ok (str.take (i + d.length)) then
      let r := Lines.split cap d ok (str.drop (i + d.length)) t
      (str.take (i + d.length) :: r.1, r.2)
    else ([str.take (i + d.length)], .clientClosed)
  | none => if cap ≤ str.length then ([], .tooMuch) else ([], .ofTerminal t)
termination_by str.length
decreasing_by
  have := findSub_le d _ i hf
  simp only [List.length_take] at this
  simp only [List.length_drop]
  omega

end Cjet.Bufread
