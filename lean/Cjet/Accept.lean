import Cjet.Basic
import Cjet.Generated.Accept
/-!
# Cjet.Accept — the connection-acceptance path of `src/linux/linux_io.c`

Transcription, as committed in /repo, of

* `is_localhost` (the origin classification that becomes `peer.is_local_connection` /
  `http_connection.is_local_connection` and gates `add` under `CONFIG_ALLOW_ADD_ONLY_FROM_LOCALHOST`),
* `set_fd_non_blocking`, `configure_keepalive`, `prepare_peer_socket`,
* `handle_new_jet_connection`, `handle_http` (with the `goto` ladders as they are),
* `accept_common` (the accept loop and its `switch (errno)`),
* `start_server`, `stop_server`.

The kernel and the rest of the daemon are inputs: a *script* is the list of answers `accept()` gives
(a descriptor with the address the kernel stored, or an errno) and, per accepted descriptor, the result
of every system call / allocation / initialisation the set-up performs (`Setup`).  When the script is
used up the kernel answers `EAGAIN` (the queue of the non-blocking listening socket is empty).

The errno classes and the byte patterns of `is_localhost` are not written here: they are regenerated
from the C text on every run (`Cjet.Generated.Accept`, extract/ext_accept.py).

Contract of the callees that is modelled (checked by reading `socket_peer.c` / `http_connection.c`,
see docs/Accept.md): `init_socket_peer` and `init_http_connection` release nothing when they fail (the
HTTP one only unlinks the connection from the connection list again), so the caller frees the
buffered socket and the peer / connection and closes the descriptor; when they succeed the peer /
connection owns the buffered socket and the descriptor from then on.
-/

namespace Cjet.Accept

open Cjet.Generated.Accept

/-! ## is_localhost -/

/-- Offset of `sin_addr` in `struct sockaddr_in`, counted from the end of the family field
    (`sin_port` is 2 bytes). -/
def sinAddrOff : Nat := 2
/-- Offset of `sin6_addr` in `struct sockaddr_in6`, counted from the end of the family field
    (`sin6_port` 2 bytes, `sin6_flowinfo` 4 bytes). -/
def sin6AddrOff : Nat := 6

/-- `n` bytes at offset `off` of the address storage.  `sa` is what `accept()` stored *after* the
    2-byte family field; the storage was zeroed before the call (`memset(&addr, 0, sizeof(addr))`), so
    bytes the kernel did not write read as 0. -/
def field (sa : List UInt8) (off n : Nat) : List UInt8 :=
  (List.range n).map (fun i => sa.getD (off + i) 0)

/-- `is_localhost(&addr)`: `fam` is `addr.ss_family`, `sa` the bytes behind it.
    AF_INET compares `sin_addr` with 127.0.0.1.  **Every other family** takes the `else` branch and
    compares the 16 bytes at the offset of `sin6_addr` with `::ffff:127.0.0.1` and `::1` — also for
    AF_UNIX, where these are bytes 6‥21 of `sun_path`. -/
def isLocalhost (fam : Nat) (sa : List UInt8) : Bool :=
  if fam = AF_INET then
    field sa sinAddrOff 4 == ipv4LocalhostBytes
  else
    field sa sin6AddrOff 16 == mappedIpv4LocalhostBytes || field sa sin6AddrOff 16 == localhostBytes

/-- The bytes behind the family field of a `struct sockaddr_in` (port in network order, address, 8 bytes
    of `sin_zero`). -/
def sockaddrIn (port : List UInt8) (addr : List UInt8) : List UInt8 :=
  port ++ addr ++ List.replicate 8 0

/-- The bytes behind the family field of a `struct sockaddr_in6`. -/
def sockaddrIn6 (port flow addr scope : List UInt8) : List UInt8 :=
  port ++ flow ++ addr ++ scope

/-! ## events -/

/-- Which `peer_function` the listener uses. `none` is the `peer_function == NULL` branch. -/
inductive Kind where
  | jet | http | none
  deriving DecidableEq, Repr, Inhabited

/-- Heap records the set-up allocates. -/
inductive Obj where
  /-- `struct socket_peer` (`alloc_jet_peer`) -/
  | peer
  /-- `struct http_connection` (`alloc_http_connection`) -/
  | conn
  /-- `struct buffered_socket` (`buffered_socket_acquire`) -/
  | bs
  deriving DecidableEq, Repr, Inhabited

/-- System calls of `prepare_peer_socket` on the accepted descriptor. -/
inductive Sys where
  | getfl | setfl | getsockname | nodelay | keepidle | keepintvl | keepcnt | keepalive
  deriving DecidableEq, Repr, Inhabited

/-- Observable events, in program order. -/
inductive Ev where
  /-- `accept(l, …)` returned descriptor `fd` -/
  | acceptFd (l fd : Nat)
  /-- `accept(l, …)` returned -1 with `errno = e` -/
  | acceptErr (l e : Nat)
  /-- a system call on `fd` and whether it succeeded -/
  | sys (fd : Nat) (c : Sys) (ok : Bool)
  | close (fd : Nat)
  | alloc (o : Obj)
  /-- the allocation was refused (`NULL`) -/
  | allocFail (o : Obj)
  | free (o : Obj)
  /-- `init_socket_peer` / `init_http_connection` returned < 0 -/
  | initFail
  /-- initialisation succeeded: a peer / connection now owns `fd` and the two records -/
  | owned (fd : Nat) (loc : Bool) (k : Kind)
  /-- `loop->add(listener)` and its result (true = not `EL_ABORT_LOOP`) -/
  | add (l : Nat) (ok : Bool)
  | remove (l : Nat)
  deriving DecidableEq, Repr, Inhabited

/-- Per accepted descriptor: does each step succeed (`true`) — and the family `getsockname` reports. -/
structure Setup where
  getfl : Bool := true
  setfl : Bool := true
  getsockname : Bool := true
  /-- `ss_family` stored by `getsockname` (the family of the *local* end; the origin
      classification uses the family `accept` stored) -/
  gsFamily : Nat := AF_INET
  nodelay : Bool := true
  keepidle : Bool := true
  keepintvl : Bool := true
  keepcnt : Bool := true
  keepalive : Bool := true
  /-- `alloc_jet_peer` / `alloc_http_connection` -/
  allocOwner : Bool := true
  /-- `buffered_socket_acquire` -/
  acquireBs : Bool := true
  /-- `init_socket_peer` / `init_http_connection` -/
  init : Bool := true
  deriving DecidableEq, Repr, Inhabited

/-! ## prepare_peer_socket -/

/-- A straight-line sequence of system calls each of which ends the sequence when it fails
    (`if (call(...) < 0) return -1;`).  Result: the calls made, and whether all succeeded. -/
def runSteps (fd : Nat) : List (Sys × Bool) → List Ev × Bool
  | [] => ([], true)
  | (c, ok) :: rest =>
    if ok then ((Ev.sys fd c true) :: (runSteps fd rest).1, (runSteps fd rest).2)
    else ([Ev.sys fd c false], false)

/-- `set_fd_non_blocking`: `fcntl(F_GETFL)`, `fcntl(F_SETFL, flags | O_NONBLOCK)`. -/
def nonBlockingSteps (s : Setup) : List (Sys × Bool) := [(.getfl, s.getfl), (.setfl, s.setfl)]

/-- `configure_keepalive`: TCP_KEEPIDLE, TCP_KEEPINTVL, TCP_KEEPCNT. -/
def keepaliveSteps (s : Setup) : List (Sys × Bool) :=
  [(.keepidle, s.keepidle), (.keepintvl, s.keepintvl), (.keepcnt, s.keepcnt)]

/-- The calls of `prepare_peer_socket` in program order: non-blocking, `getsockname`, for
    AF_INET/AF_INET6 sockets TCP_NODELAY and the keep-alive parameters, then SO_KEEPALIVE.
    (No path closes the descriptor: that is the caller's job.) -/
def prepareSteps (s : Setup) : List (Sys × Bool) :=
  nonBlockingSteps s ++ [(.getsockname, s.getsockname)] ++
  (if s.gsFamily = AF_INET ∨ s.gsFamily = AF_INET6 then (Sys.nodelay, s.nodelay) :: keepaliveSteps s else []) ++
  [(.keepalive, s.keepalive)]

/-- `prepare_peer_socket(fd)`: events and `true` for return value 0. -/
def prepare (fd : Nat) (s : Setup) : List Ev × Bool := runSteps fd (prepareSteps s)

/-! ## handle_new_jet_connection / handle_http -/

/-- `handle_new_jet_connection(ev, fd, is_local_connection)`. -/
def handleJet (fd : Nat) (loc : Bool) (s : Setup) : List Ev :=
  if (prepare fd s).2 = false then
    (prepare fd s).1 ++ [.close fd]                                        -- close(fd); return;
  else if s.allocOwner = false then
    (prepare fd s).1 ++ [.allocFail .peer, .close fd]                      -- goto alloc_peer_failed
  else if s.acquireBs = false then
    (prepare fd s).1 ++ [.alloc .peer, .allocFail .bs, .free .peer, .close fd]  -- goto alloc_bs_failed
  else if s.init = false then
    -- cjet_free(bs); goto alloc_bs_failed;
    (prepare fd s).1 ++ [.alloc .peer, .alloc .bs, .initFail, .free .bs, .free .peer, .close fd]
  else
    (prepare fd s).1 ++ [.alloc .peer, .alloc .bs, .owned fd loc .jet]

/-- `handle_http(ev, fd, is_local_connection)`. -/
def handleHttp (fd : Nat) (loc : Bool) (s : Setup) : List Ev :=
  if (prepare fd s).2 = false then
    (prepare fd s).1 ++ [.close fd]
  else if s.allocOwner = false then
    (prepare fd s).1 ++ [.allocFail .conn, .close fd]                      -- goto alloc_failed
  else if s.acquireBs = false then
    (prepare fd s).1 ++ [.alloc .conn, .allocFail .bs, .free .conn, .close fd]  -- goto alloc_bs_failed
  else if s.init = false then
    -- goto init_failed: cjet_free(bs); cjet_free(connection); close(fd);
    (prepare fd s).1 ++ [.alloc .conn, .alloc .bs, .initFail, .free .bs, .free .conn, .close fd]
  else
    (prepare fd s).1 ++ [.alloc .conn, .alloc .bs, .owned fd loc .http]

/-- The `peer_function` call of `accept_common` (or `close(peer_fd)` when it is NULL). -/
def handle (k : Kind) (fd : Nat) (loc : Bool) (s : Setup) : List Ev :=
  match k with
  | .jet => handleJet fd loc s
  | .http => handleHttp fd loc s
  | .none => [.close fd]

/-! ## accept_common -/

/-- What the `switch (errno)` does with one errno. -/
inductive Action where
  /-- `return EL_CONTINUE_LOOP` -/
  | stop
  /-- `continue` (call accept again) -/
  | retry
  /-- `return EL_ABORT_LOOP` -/
  | abort
  deriving DecidableEq, Repr, Inhabited

def defaultAct : Action :=
  if defaultAction = 2 then .abort else if defaultAction = 1 then .retry else .stop

/-- The `switch (errno)` of `accept_common`, from the regenerated case groups. -/
def classify (e : Nat) : Action :=
  if e ∈ fatalErrnos then .abort
  else if e ∈ retryErrnos then .retry
  else if e ∈ stopErrnos then .stop
  else defaultAct

/-- One answer of the kernel to `accept()`. -/
inductive Ans where
  /-- a connection: descriptor, `ss_family` and the bytes behind it that `accept` stored, and how its
      set-up goes -/
  | conn (fd : Nat) (fam : Nat) (sa : List UInt8) (s : Setup)
  | err (e : Nat)
  deriving DecidableEq, Repr, Inhabited

inductive Ret where
  /-- `EL_CONTINUE_LOOP`: the listener stays registered -/
  | continueLoop
  /-- `EL_ABORT_LOOP`: the event loop (the daemon) ends -/
  | abortLoop
  deriving DecidableEq, Repr, Inhabited

structure Res where
  trace : List Ev
  ret : Ret
  /-- number of script answers consumed -/
  used : Nat
  deriving DecidableEq, Repr

/-- `accept_common(ev, peer_function)` with `ev->sock = l`; structural recursion over the script.
    An exhausted script is the kernel answering `EAGAIN`. -/
def acceptLoop (k : Kind) (l : Nat) : List Ans → Res
  | [] =>
    match classify EAGAIN with
    | .abort => ⟨[.acceptErr l EAGAIN], .abortLoop, 0⟩
    | _ => ⟨[.acceptErr l EAGAIN], .continueLoop, 0⟩
  | .err e :: rest =>
    match classify e with
    | .abort => ⟨[.acceptErr l e], .abortLoop, 1⟩
    | .stop => ⟨[.acceptErr l e], .continueLoop, 1⟩
    | .retry =>
      ⟨.acceptErr l e :: (acceptLoop k l rest).trace, (acceptLoop k l rest).ret, (acceptLoop k l rest).used + 1⟩
  | .conn fd fam sa s :: rest =>
    ⟨.acceptFd l fd :: (handle k fd (isLocalhost fam sa) s ++ (acceptLoop k l rest).trace),
     (acceptLoop k l rest).ret, (acceptLoop k l rest).used + 1⟩

/-- The same loop over an endless kernel (`kern i` = answer to the `i`-th call), with fuel = the
    number of `accept` calls the observer waits for.  `none` = still looping after `fuel` calls. -/
def acceptLoopS (k : Kind) (l : Nat) (kern : Nat → Ans) : Nat → Nat → Option (List Ev × Ret)
  | 0, _ => none
  | fuel + 1, i =>
    match kern i with
    | .err e =>
      match classify e with
      | .abort => some ([.acceptErr l e], .abortLoop)
      | .stop => some ([.acceptErr l e], .continueLoop)
      | .retry => (acceptLoopS k l kern fuel (i + 1)).map (fun r => (.acceptErr l e :: r.1, r.2))
    | .conn fd fam sa s =>
      (acceptLoopS k l kern fuel (i + 1)).map
        (fun r => (.acceptFd l fd :: (handle k fd (isLocalhost fam sa) s ++ r.1), r.2))

/-- The kernel behind a finite script: its answers, then `EAGAIN` for ever. -/
def kernOf (script : List Ans) (i : Nat) : Ans := script.getD i (.err EAGAIN)

/-! ## start_server / stop_server -/

/-- `start_server(ev)`: register the listener, run its read function once; when that reports
    anything but `EL_CONTINUE_LOOP`, remove the listener again.  Result `0` / `-1`. -/
def startServer (k : Kind) (l : Nat) (addOk : Bool) (script : List Ans) : List Ev × Int :=
  if addOk = false then ([.add l false], -1)
  else
    match (acceptLoop k l script).ret with
    | .continueLoop => (.add l true :: (acceptLoop k l script).trace, 0)
    | .abortLoop => (.add l true :: ((acceptLoop k l script).trace ++ [.remove l]), -1)

/-- `stop_server(ev)`. -/
def stopServer (l : Nat) : List Ev := [.remove l, .close l]

/-! ## projections of a trace and the reference monitor -/

def closes : List Ev → List Nat
  | [] => []
  | .close fd :: t => fd :: closes t
  | _ :: t => closes t

def owners : List Ev → List Nat
  | [] => []
  | .owned fd _ _ :: t => fd :: owners t
  | _ :: t => owners t

def accepted : List Ev → List Nat
  | [] => []
  | .acceptFd _ fd :: t => fd :: accepted t
  | _ :: t => accepted t

def allocs : List Ev → List Obj
  | [] => []
  | .alloc o :: t => o :: allocs t
  | _ :: t => allocs t

def frees : List Ev → List Obj
  | [] => []
  | .free o :: t => o :: frees t
  | _ :: t => frees t

/-- Errnos `accept` returned, in order. -/
def acceptErrs : List Ev → List Nat
  | [] => []
  | .acceptErr _ e :: t => e :: acceptErrs t
  | _ :: t => acceptErrs t

/-- The record a peer function allocates first. -/
def ownerObj : Kind → Obj
  | .http => .conn
  | _ => .peer

/-- Monitor state: the accepted descriptor that is neither closed nor handed to a peer yet (at most
    one), and the records allocated for it that are neither freed nor handed over yet. -/
structure Mon where
  fd : Option Nat := none
  live : List Obj := []
  deriving DecidableEq, Repr

/-- Reference monitor for descriptor and record discipline; `none` = discipline broken.
    * `accept` may only return a new descriptor when the previous one is resolved and nothing is live;
    * system calls, `close` and the hand-over must name the descriptor in flight (so: no use after
      close, no second close, no close after hand-over, no foreign descriptor);
    * a record is allocated at most once per connection, freed only while live (no double free), and
      the hand-over takes exactly the owner record and the buffered socket;
    * `close` of the descriptor in flight requires every record to be freed already (nothing leaks
      on a failure path). -/
def Mon.step (m : Mon) : Ev → Option Mon
  | .acceptFd _ fd => if m.fd = none ∧ m.live = [] then some ⟨some fd, []⟩ else none
  | .acceptErr _ _ => if m.fd = none ∧ m.live = [] then some m else none
  | .sys fd _ _ => if m.fd = some fd then some m else none
  | .close fd => if m.fd = some fd ∧ m.live = [] then some ⟨none, []⟩ else none
  | .alloc o => if m.fd ≠ none ∧ o ∉ m.live then some ⟨m.fd, o :: m.live⟩ else none
  | .allocFail _ => if m.fd ≠ none then some m else none
  | .free o => if o ∈ m.live then some ⟨m.fd, m.live.erase o⟩ else none
  | .initFail => if m.fd ≠ none then some m else none
  | .owned fd _ k =>
    if m.fd = some fd ∧ m.live = [.bs, ownerObj k] then some ⟨none, []⟩ else none
  | .add _ _ => some m
  | .remove _ => some m

def Mon.run (m : Mon) : List Ev → Option Mon
  | [] => some m
  | e :: t => match m.step e with
    | some m' => m'.run t
    | none => none

/-! ## spec-side helpers used in the theorem statements -/

def Ans.isRetry : Ans → Bool
  | .err e => decide (classify e = .retry)
  | .conn .. => false

def Ans.isConn : Ans → Bool
  | .conn .. => true
  | .err _ => false

def Ans.fd? : Ans → Option Nat
  | .conn fd _ _ _ => some fd
  | .err _ => none

/-- The answers one call of `accept_common` consumes: everything up to and including the first errno
    that is not in the retry class. -/
def cut : List Ans → List Ans
  | [] => []
  | .err e :: rest => if classify e = .retry then .err e :: cut rest else [.err e]
  | a :: rest => a :: cut rest

/-- Descriptors of the connections in a list of answers. -/
def connFds (script : List Ans) : List Nat := script.filterMap Ans.fd?

end Cjet.Accept
