import Cjet.Basic
import Cjet.Generated.Consts
/-!
# Cjet.Evloop — the epoll dispatcher `src/linux/eventloop_epoll.c` (supports C05, C06, C11)

Transcription of `dispatch_events`, `handle_events`, `eventloop_epoll_run`, `eventloop_epoll_add`
and `eventloop_epoll_remove` as committed in /repo (with the repair of commit 676ccd4: `remove`
walks the harvested array `pending_events[0 .. num_pending_events)` and nulls every entry of the
removed `io_event`).  The code before that repair is the same model with `Params.nulling := false`
(kept only to state the counterexample that motivated the repair).

What is state and what is environment:

* an `io_event` is identified by a `Nat` (the harness uses the id as its `sock` as well, so the
  id is also the key of the kernel's interest list).  Whether its `read_function` /
  `write_function` pointers are non-NULL is a fixed attribute of the id (`Params.hasRead/hasWrite`);
  `error_function` is called without a NULL test by the code, and so it is here;
* `Loop.reg` is the kernel's interest list (`epoll_ctl ADD/DEL`), `Loop.current` is
  `loop->current_ev`, `Loop.done ++ Loop.todo` is `pending_events[0 .. num_pending_events)`
  split at the loop index (`done` = entries `0..i`, including the one being processed,
  `todo` = entries `i+1..`), `Loop.goAhead` is `*go_ahead`;
* callbacks are environment: every callback invocation consumes one scripted `Answer` — the
  actions it performs on the loop in order (`remove id`, `add id` with the scripted verdict of
  `epoll_ctl`, clear `go_ahead`) and its return code.  An exhausted script answers
  `EL_CONTINUE_LOOP` and does nothing;
* `epoll_wait` is environment: each call consumes one `Wait` — a ready list (the kernel reports
  the entries whose id is in the interest list at that moment, at most `maxEvents` of them, in
  the scripted order), `-1/EINTR`, or `-1` with another `errno`.  At the end of the script the
  process is told to terminate while it blocks in `epoll_wait` (the signal handler clears
  `go_ahead`, `epoll_wait` returns `-1/EINTR`), which is how `cjet` ends.

The model is a total function from (initial loop state, waits, answers) to the trace of
everything that happened (`TEv`) plus the final state.
-/

namespace Cjet.Evloop

/-- `uint32_t events` of a `struct epoll_event`. -/
abbrev Mask := BitVec 32

def EPOLLIN : Mask := 0x001#32
def EPOLLOUT : Mask := 0x004#32

/-- `(events & ~(EPOLLIN | EPOLLOUT)) != 0` -/
def isErr (m : Mask) : Bool := (m &&& ~~~(EPOLLIN ||| EPOLLOUT)) != 0#32
/-- `events & EPOLLIN` -/
def isIn (m : Mask) : Bool := (m &&& EPOLLIN) != 0#32
/-- `events & EPOLLOUT` -/
def isOut (m : Mask) : Bool := (m &&& EPOLLOUT) != 0#32

/-- Which of the three function pointers of an `io_event`. -/
inductive Fn where
  | read | write | error
  deriving DecidableEq, Repr, Inhabited

/-- `enum eventloop_return` (a value that is neither `EL_ABORT_LOOP` nor `EL_EVENT_REMOVED`
    behaves as `EL_CONTINUE_LOOP`). -/
inductive Ret where
  | abort | cont | removed
  deriving DecidableEq, Repr, Inhabited

/-- What a callback may do to the loop while it runs. -/
inductive Act where
  /-- `eventloop_epoll_remove(ev id)` (the caller normally frees the `io_event` right after) -/
  | remove (id : Nat)
  /-- `eventloop_epoll_add(ev id)`; `kernelOk = false`: `epoll_ctl` fails for an outside reason (`ENOMEM`, `ENOSPC`) -/
  | add (id : Nat) (kernelOk : Bool)
  /-- `*go_ahead = 0` -/
  | stop
  deriving DecidableEq, Repr

/-- One scripted callback invocation. -/
structure Answer where
  ret : Ret := .cont
  acts : List Act := []
  deriving DecidableEq, Repr

/-- One `struct epoll_event` of the harvested array: `data.ptr` (`none` = NULL) and `events`. -/
structure Entry where
  ev : Option Nat
  mask : Mask
  deriving DecidableEq, Repr

/-- `struct eventloop_epoll` + the kernel's interest list + `*go_ahead`. -/
structure Loop where
  reg : List Nat := []
  current : Option Nat := none
  done : List Entry := []
  todo : List Entry := []
  goAhead : Bool := true
  deriving DecidableEq, Repr

/-- The whole harvested array. -/
def Loop.pending (L : Loop) : List Entry := L.done ++ L.todo

/-- Everything observable. -/
inductive TEv where
  /-- a function of `io_event id` is invoked -/
  | call (id : Nat) (f : Fn)
  /-- `eventloop_epoll_remove(id)` ran -/
  | removed (id : Nat)
  /-- `eventloop_epoll_add(id)` ran and returned `EL_CONTINUE_LOOP` (`true`) / `EL_ABORT_LOOP` (`false`) -/
  | added (id : Nat) (ok : Bool)
  /-- `*go_ahead` cleared -/
  | stop
  /-- loop state at the moment the callback returns -/
  | snap (L : Loop)
  /-- the callback returned -/
  | ret (r : Ret)
  /-- `epoll_wait` returned this batch -/
  | harvest (batch : List (Nat × Mask))
  /-- `epoll_wait` returned `-1`, `errno == EINTR` -/
  | eintr
  /-- `epoll_wait` returned `-1`, other `errno` -/
  | waitErr
  /-- termination request while blocked in `epoll_wait` (end of the wait script) -/
  | term
  /-- `eventloop_epoll_run` returned -/
  | runRet (rc : Int)
  deriving DecidableEq, Repr

structure Params where
  /-- `ev->read_function != NULL` -/
  hasRead : Nat → Bool := fun _ => true
  /-- `ev->write_function != NULL` -/
  hasWrite : Nat → Bool := fun _ => true
  /-- the loop over `pending_events` in `eventloop_epoll_remove` (commit 676ccd4); `false` = code before it -/
  nulling : Bool := true
  /-- `CONFIG_MAX_EPOLL_EVENTS` -/
  maxEvents : Nat := Cjet.Generated.cfgMaxEpollEvents

/-! ### `eventloop_epoll_remove`, `eventloop_epoll_add` -/

/-- `if (pending_events[i].data.ptr == ev) pending_events[i].data.ptr = NULL` over a part of the array. -/
def nullify (x : Nat) (es : List Entry) : List Entry :=
  es.map fun e => if e.ev = some x then { e with ev := none } else e

/-- `eventloop_epoll_remove`: `EPOLL_CTL_DEL` (result ignored), clear `current_ev` if it is this
    one, null the harvested entries of this one. -/
def removeEv (P : Params) (x : Nat) (L : Loop) : Loop :=
  { L with
    reg := L.reg.filter (· != x)
    current := if L.current = some x then none else L.current
    done := if P.nulling then nullify x L.done else L.done
    todo := if P.nulling then nullify x L.todo else L.todo }

/-- `eventloop_epoll_add`: `EPOLL_CTL_ADD`; the kernel refuses when told to by the script or when
    the descriptor is already in the interest list (`EEXIST`).  `true` = `EL_CONTINUE_LOOP`. -/
def addEv (x : Nat) (kernelOk : Bool) (L : Loop) : Loop × Bool :=
  if kernelOk && !(L.reg.contains x) then ({ L with reg := L.reg ++ [x] }, true) else (L, false)

/-! ### callbacks (environment) -/

def runActs (P : Params) : List Act → Loop → Loop × List TEv
  | [], L => (L, [])
  | .remove x :: as, L =>
    let r := runActs P as (removeEv P x L)
    (r.1, .removed x :: r.2)
  | .add x ok :: as, L =>
    let a := addEv x ok L
    let r := runActs P as a.1
    (r.1, .added x a.2 :: r.2)
  | .stop :: as, L =>
    let r := runActs P as { L with goAhead := false }
    (r.1, .stop :: r.2)

def nextAnswer : List Answer → Answer × List Answer
  | [] => ({}, [])
  | a :: as => (a, as)

structure CbRes where
  loop : Loop
  script : List Answer
  trace : List TEv
  ret : Ret

/-- `ev->f(ev)`: the callback consumes one answer, performs its actions, returns its code. -/
def callback (P : Params) (x : Nat) (f : Fn) (L : Loop) (sc : List Answer) : CbRes :=
  let a := (nextAnswer sc).1
  let r := runActs P a.acts L
  ⟨r.1, (nextAnswer sc).2, .call x f :: (r.2 ++ [.snap r.1, .ret a.ret]), a.ret⟩

/-! ### one iteration of the `for` loop of `dispatch_events` -/

structure EntryRes where
  loop : Loop
  script : List Answer
  seg : List TEv
  abort : Bool

/-- `if (loop->current_ev != NULL) { if (events & EPOLLOUT) { if (write_function != NULL) … } }` -/
def writePart (P : Params) (x : Nat) (m : Mask) (L : Loop) (sc : List Answer) : EntryRes :=
  if L.current.isSome then
    if isOut m && P.hasWrite x then
      let c := callback P x .write L sc
      ⟨c.loop, c.script, c.trace, c.ret == .abort⟩
    else ⟨L, sc, [], false⟩
  else ⟨L, sc, [], false⟩

def entry (P : Params) (e : Entry) (L : Loop) (sc : List Answer) : EntryRes :=
  match e.ev with
  | none => ⟨L, sc, [], false⟩                                   -- `continue` (current_ev is not touched)
  | some x =>
    let L := { L with current := some x }
    if isErr e.mask then
      let c := callback P x .error L sc
      ⟨c.loop, c.script, c.trace, c.ret == .abort⟩
    else if isIn e.mask && P.hasRead x then
      let c := callback P x .read L sc
      match c.ret with
      | .abort => ⟨c.loop, c.script, c.trace, true⟩
      | .removed => ⟨c.loop, c.script, c.trace, false⟩
      | .cont =>
        let w := writePart P x e.mask c.loop c.script
        ⟨w.loop, w.script, c.trace ++ w.seg, w.abort⟩
    else writePart P x e.mask L sc

/-! ### `dispatch_events`, `handle_events`, `eventloop_epoll_run` -/

structure DispRes where
  loop : Loop
  script : List Answer
  /-- one trace segment per array entry that was reached, in array order -/
  segs : List (List TEv)
  /-- `EL_ABORT_LOOP` -/
  aborted : Bool

/-- The `for` loop; the fuel is the number of entries still to visit. -/
def dispatchLoop (P : Params) : Nat → Loop → List Answer → DispRes
  | 0, L, sc => ⟨L, sc, [], false⟩
  | n + 1, L, sc =>
    match L.todo with
    | [] => ⟨L, sc, [], false⟩
    | e :: rest =>
      let r := entry P e { L with done := L.done ++ [e], todo := rest } sc
      if r.abort then ⟨r.loop, r.script, [r.seg], true⟩
      else
        let d := dispatchLoop P n r.loop r.script
        ⟨d.loop, d.script, r.seg :: d.segs, d.aborted⟩

/-- `dispatch_events` over the array `L.todo` (with `L.done = []` at the call). -/
def dispatch (P : Params) (L : Loop) (sc : List Answer) : DispRes :=
  dispatchLoop P L.todo.length L sc

def DispRes.trace (d : DispRes) : List TEv := d.segs.flatten

/-- `handle_events` for `num_events >= 0`: publish the array, dispatch, withdraw the array. -/
def handleBatch (P : Params) (b : List (Nat × Mask)) (L : Loop) (sc : List Answer) : DispRes :=
  let d := dispatch P { L with done := [], todo := b.map fun p => ⟨some p.1, p.2⟩ } sc
  { d with loop := { d.loop with done := [], todo := [] } }

/-- One `epoll_wait` result. -/
inductive Wait where
  | batch (ready : List (Nat × Mask))
  | eintr
  | err
  deriving DecidableEq, Repr

/-- The kernel: of the scripted ready list, those in the interest list, at most `maxEvents`. -/
def harvest (P : Params) (reg : List Nat) (ready : List (Nat × Mask)) : List (Nat × Mask) :=
  (ready.filter fun p => reg.contains p.1).take P.maxEvents

structure RunRes where
  loop : Loop
  script : List Answer
  trace : List TEv
  rc : Int

/-- `eventloop_epoll_run`. -/
def run (P : Params) : List Wait → Loop → List Answer → RunRes
  | [], L, sc =>
    if L.goAhead then ⟨{ L with goAhead := false }, sc, [.term, .runRet 0], 0⟩
    else ⟨L, sc, [.runRet 0], 0⟩
  | w :: ws, L, sc =>
    if !L.goAhead then ⟨L, sc, [.runRet 0], 0⟩
    else
      match w with
      | .eintr =>
        let r := run P ws L sc
        { r with trace := .eintr :: r.trace }
      | .err => ⟨L, sc, [.waitErr, .runRet (-1)], -1⟩
      | .batch ready =>
        let b := harvest P L.reg ready
        let d := handleBatch P b L sc
        if d.aborted then ⟨d.loop, d.script, .harvest b :: (d.trace ++ [.runRet (-1)]), -1⟩
        else
          let r := run P ws d.loop d.script
          { r with trace := .harvest b :: (d.trace ++ r.trace) }

/-! ### reading a trace -/

/-- The callback invocations of a trace, in order. -/
def callsOf : List TEv → List (Nat × Fn)
  | [] => []
  | .call x f :: t => (x, f) :: callsOf t
  | _ :: t => callsOf t

/-- What the mask of an entry for `io_event x` prescribes when nothing interferes. -/
def prescribed (P : Params) (x : Nat) (m : Mask) : List (Nat × Fn) :=
  if isErr m then [(x, .error)]
  else (if isIn m && P.hasRead x then [(x, .read)] else []) ++
       (if isOut m && P.hasWrite x then [(x, .write)] else [])

/-- Life of one `io_event` as far as the dispatcher is concerned:
    `ok` = may be called; `dead` = removed and not registered again; `stale` = removed and
    registered again, but no `epoll_wait` has returned since. -/
inductive Status where
  | ok | dead | stale
  deriving DecidableEq, Repr

/-- How one trace event changes the status of `x`. -/
def stepStatus (x : Nat) (s : Status) : TEv → Status
  | .removed y => if y = x then .dead else s
  | .added y ok => if y = x ∧ ok = true ∧ s = .dead then .stale else s
  | .harvest _ => if s = .stale then .ok else s
  | _ => s

def statusAfter (x : Nat) (s : Status) (tr : List TEv) : Status := tr.foldl (stepStatus x) s

/-- Trace monitor for one id: a function of `x` is invoked only in status `ok`. -/
def monX (x : Nat) : Status → List TEv → Prop
  | _, [] => True
  | s, e :: t => (∀ f, e = .call x f → s = .ok) ∧ monX x (stepStatus x s e) t

/-- The ids removed in a trace, in order. -/
def removedIn : List TEv → List Nat
  | [] => []
  | .removed x :: t => x :: removedIn t
  | _ :: t => removedIn t

/-- The callback return codes of a trace, in order. -/
def retsOf : List TEv → List Ret
  | [] => []
  | .ret r :: t => r :: retsOf t
  | _ :: t => retsOf t

end Cjet.Evloop
