import Cjet.Basic
import Cjet.Generated.Ws
/-!
# `unmask_payload` (src/websocket.c:64-103)

The C function XORs the buffer in place with `mask[i % 4]`.  For buffers of at least one machine word
(`sizeof(uint_fast32_t)`, 8 on the reference platform) it runs a byte loop up to the next word
boundary (`pre_length` bytes, determined by the *address* of the buffer), a word loop XORing whole
words with a pre-rotated copy of the mask, and a byte loop over the tail.  The address enters only
through `align = address % word`, which is an input of the model.
-/
namespace Cjet.Ws

/-- `mask[i % 4]` -/
def maskByte (key : Bytes) (i : Nat) : UInt8 := key.getD (i % 4) 0

/-- the byte loops: `buffer[i] ^= mask[i % 4]` for `i = start, start+1, …` over the given bytes -/
def xorFrom (key : Bytes) : Nat → Bytes → Bytes
  | _, [] => []
  | start, b :: bs => (b ^^^ maskByte key start) :: xorFrom key (start + 1) bs

/-- the specification: byte `i` is XORed with `mask[i % 4]` -/
def xorMask (key : Bytes) (buf : Bytes) : Bytes := xorFrom key 0 buf

/-- `aligned_mask`: `for i < word: filler[i] = mask[(i + pre_length) % 4]`, here from position `s` on -/
def maskSeq (key : Bytes) : Nat → Nat → Bytes
  | _, 0 => []
  | s, n + 1 => maskByte key s :: maskSeq key (s + 1) n

/-- `*buffer_aligned ^= aligned_mask` on one word (both seen as bytes, so endianness does not matter) -/
def xorWord (am : Bytes) (w : Bytes) : Bytes := List.zipWith (· ^^^ ·) w am

/-- `while (main_length-- > 0) { *buffer_aligned ^= aligned_mask; buffer_aligned++; }` -/
def wordLoop (word : Nat) (am : Bytes) : Nat → Bytes → Bytes
  | 0, bs => bs
  | n + 1, bs => xorWord am (bs.take word) ++ wordLoop word am n (bs.drop word)

/-- `unmask_payload(buffer, length, mask)` with `(uintptr_t)buffer % word = align % word` -/
def unmaskPayload (word align : Nat) (key : Bytes) (buf : Bytes) : Bytes :=
  let len := buf.length
  if len < word then
    xorFrom key 0 buf
  else
    let pre := (word - align % word) % word
    let main := (len - pre) / word
    let post := len - pre - main * word
    let am := maskSeq key pre word
    xorFrom key 0 (buf.take pre)
      ++ wordLoop word am main ((buf.drop pre).take (main * word))
      ++ xorFrom key (len - post) (buf.drop (len - post))

end Cjet.Ws
