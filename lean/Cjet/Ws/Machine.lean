import Cjet.Ws.Dispatch
/-!
# The frame header state machine (src/websocket.c:299-463)

`ws_get_header → ws_get_first_length → [ws_get_length16 | ws_get_length64] → [ws_get_mask] →
ws_get_payload`, written as a client of an abstract exact-reader: in every phase the machine asks for
`want` bytes (1, 1, 2 | 8, 4, payload length) and is called back with exactly that many.  The reader
(`buffered_socket.c`, C09's subject) refuses a request that exceeds its buffer by calling its error
handler, which for the daemon is `free_websocket_peer_on_error` (close frame 1001); end of stream is
delivered as a zero-length callback, which every phase answers with `handle_error(1001)`.
-/
namespace Cjet.Ws
open Cjet.Generated.Ws

inductive Phase
  | header | firstLen | len16 | len64 | mask | payload | closed
  deriving DecidableEq, Repr

structure St where
  flags : Flags := {}
  /-- `s->length` -/
  length : Nat := 0
  /-- `s->mask` -/
  key : Bytes := [0, 0, 0, 0]
  phase : Phase := .header
  deriving DecidableEq, Repr

/-- the number of bytes the pending `read_exactly` asks for -/
def St.want (s : St) : Nat :=
  match s.phase with
  | .header => 1
  | .firstLen => 1
  | .len16 => len16Bytes
  | .len64 => len64Bytes
  | .mask => maskBytes
  | .payload => s.length
  | .closed => 0

/-- after `ws_get_payload` -/
def afterPayload (s : St) (r : PayloadResult) : St × List Action :=
  ({ s with flags := r.flags, phase := if r.open_ then .header else .closed }, r.actions)

/-- `is_frame_header_invalid`: everything the header alone decides — unmasked frame to a server, RSV
    bit without a negotiated extension, fragmented or oversized control frame, reserved opcode -/
def headerInvalid (c : Conf) (f : Flags) (length : Nat) : Bool :=
  if c.isServer && !f.mask then true
  else if f.rsv ≠ 0 && !c.extAccepted then true
  else if f.opcode ≥ opClose then
    if !f.fin then true
    else if length > wsSmallFrameSize then true
    else if f.opcode > opPong then true
    else false
  else if f.opcode > opBinary then true
  else false

/-- `read_mask_or_payload` -/
def readMaskOrPayload (c : Conf) (align : Nat) (s : St) : St × List Action :=
  if headerInvalid c s.flags s.length then
    ({ s with phase := .closed }, handleError c closeProtocolError)
  else if s.flags.mask then
    ({ s with phase := .mask }, [])
  else if s.length > 0 then
    ({ s with phase := .payload }, [])
  else
    afterPayload s (wsGetPayload c s.flags s.key align [])

/-- one callback of the reader with exactly `s.want` bytes -/
def feed (c : Conf) (align : Nat) (s : St) (chunk : Bytes) : St × List Action :=
  match s.phase with
  | .header =>
    let b := chunk.headD 0
    let fin := (b &&& UInt8.ofNat wsHeaderFin) == UInt8.ofNat wsHeaderFin
    let rsv := ((b &&& UInt8.ofNat rsvMask) >>> UInt8.ofNat rsvShift).toNat
    let opcode := (b &&& UInt8.ofNat opcodeMask).toNat
    ({ s with flags := { s.flags with fin := fin, rsv := rsv, opcode := opcode }, phase := .firstLen }, [])
  | .firstLen =>
    let b := chunk.headD 0
    let m := (b &&& UInt8.ofNat wsMaskSet) == UInt8.ofNat wsMaskSet
    let field := (b &&& ~~~(UInt8.ofNat wsMaskSet)).toNat
    let s := { s with flags := { s.flags with mask := m } }
    if field < recvLen7Limit then readMaskOrPayload c align { s with length := field }
    else if field = recvLen16Marker then ({ s with phase := .len16 }, [])
    else ({ s with phase := .len64 }, [])
  | .len16 => readMaskOrPayload c align { s with length := beVal chunk }
  | .len64 => readMaskOrPayload c align { s with length := beVal chunk }
  | .mask =>
    let s := { s with key := chunk }
    if s.length > 0 then ({ s with phase := .payload }, [])
    else afterPayload s (wsGetPayload c s.flags s.key align [])
  | .payload => afterPayload s (wsGetPayload c s.flags s.key align chunk)
  | .closed => (s, [])

/-- the reader's error handler as the daemon installs it (`free_websocket_peer_on_error`):
    `websocket_close(ws, WS_CLOSE_GOING_AWAY); free_websocket_peer(ws_peer);` -/
def errorHandler (c : Conf) : List Action := websocketClose c closeGoingAway ++ [Action.peerFreed]

/-- end of stream: the pending callback is invoked with `len == 0` -/
def eofStep (c : Conf) (s : St) : St × List Action :=
  if s.phase = .closed then (s, []) else ({ s with phase := .closed }, handleError c closeGoingAway)

/-- Run the machine over the bytes the reader holds: as long as the pending request can be satisfied
    it is delivered; a request larger than the read buffer goes to the error handler; otherwise the
    reader waits for more input.  Returns the state, the unconsumed bytes and the actions. -/
def run (c : Conf) (align : Nat) (s : St) (input : Bytes) : St × Bytes × List Action :=
  if s.phase = .closed then (s, input, [])
  else if s.want > c.bufSize then ({ s with phase := .closed }, input, errorHandler c)
  else if s.want = 0 ∨ input.length < s.want then (s, input, [])
  else
    let r := feed c align s (input.take s.want)
    let t := run c align r.1 (input.drop s.want)
    (t.1, t.2.1, r.2 ++ t.2.2)
termination_by input.length
decreasing_by simp only [List.length_drop]; omega

/-- sequencing of one step (state, actions) with the rest of a run (state, unconsumed bytes, actions) -/
def seqRun (r : St × List Action) (t : St × Bytes × List Action) : St × Bytes × List Action :=
  (t.1, t.2.1, r.2 ++ t.2.2)

/-- The same input arriving in pieces: after every piece the machine runs as far as it can and the
    reader keeps the unconsumed bytes. -/
def runChunks (c : Conf) (align : Nat) : St → Bytes → List Bytes → St × Bytes × List Action
  | s, pending, [] => (s, pending, [])
  | s, pending, ch :: chs =>
    let r := run c align s (pending ++ ch)
    let t := runChunks c align r.1 r.2.1 chs
    (t.1, t.2.1, r.2.2 ++ t.2.2)

end Cjet.Ws
