import Cjet.Ws.Unmask
/-!
# `send_frame`, `websocket_send_close_frame` (src/websocket.c:911-991)

Compression is treated as not negotiated (the daemon passes compression level 0, so
`extension_compression.accepted` is never set; the negotiated case is C19's subject).
-/
namespace Cjet.Ws
open Cjet.Generated.Ws

/-- `jet_htobe16((uint16_t)n)` as bytes -/
def be16 (n : Nat) : Bytes := [UInt8.ofNat (n / 256), UInt8.ofNat n]

/-- `jet_htobe64((uint64_t)n)` as bytes -/
def be64 (n : Nat) : Bytes :=
  [UInt8.ofNat (n / 72057594037927936), UInt8.ofNat (n / 281474976710656), UInt8.ofNat (n / 1099511627776),
   UInt8.ofNat (n / 4294967296), UInt8.ofNat (n / 16777216), UInt8.ofNat (n / 65536), UInt8.ofNat (n / 256),
   UInt8.ofNat n]

/-- big-endian value of a byte string (`jet_be16toh` / `jet_be64toh` after `memcpy`) -/
def beVal (bs : Bytes) : Nat := bs.foldl (fun acc b => acc * 256 + b.toNat) 0

/-- `ws_header[0..header_index)` of `send_frame` for a payload of `len` bytes.
    `key` is what `cjet_get_random_bytes` delivered (client mode only). -/
def frameHeader (isServer : Bool) (key : Bytes) (typ len : Nat) : Bytes :=
  let b0 := UInt8.ofNat (typ ||| wsHeaderFin)
  let firstLen : Nat := if len < sendLen7Limit then len else if len < sendLen16Limit then sendLen16Marker else sendLen64Marker
  let ext : Bytes := if len < sendLen7Limit then [] else if len < sendLen16Limit then be16 len else be64 len
  if isServer then
    b0 :: UInt8.ofNat firstLen :: ext
  else
    b0 :: (UInt8.ofNat firstLen ||| UInt8.ofNat wsMaskSet) :: (ext ++ key.take maskBytes)

/-- all bytes handed to `br->writev` by `send_frame`; in client mode the payload is masked in place
    with `unmask_payload` (the payload's address enters through `align`) -/
def sendFrame (isServer : Bool) (word align : Nat) (key : Bytes) (typ : Nat) (payload : Bytes) : Bytes :=
  frameHeader isServer key typ payload.length
    ++ (if isServer then payload else unmaskPayload word align (key.take maskBytes) payload)

/-- `websocket_send_close_frame`: `uint16_t code = status_code; code = jet_htobe16(code)` -/
def closePayload (code : Nat) : Bytes := be16 (code % 65536)

end Cjet.Ws
