import Cjet.Ws.Dispatch
import Cjet.Base64
import Cjet.Sha1
/-!
# The upgrade decision (src/http_connection.c on_url / read_start_line / send_http_error_response,
src/websocket.c:465-659, 854-909)

The tokenisation of the request is http-parser's; the model works over the sequence of its callbacks
(an observed oracle): `line` (a CRLF terminated line is handed to `http_parser_execute`), `url`,
`field`, `value`, `headersComplete`, plus `parserError` (the parser itself rejects the line).
Compression level 0: `Sec-WebSocket-Extensions` is ignored (`fill_requested_extension` returns at once).
-/
namespace Cjet.Ws
open Cjet.Generated.Ws

/-- `enum header_field` -/
inductive HField
  | unknown | key | version | protocol | extensions
  deriving DecidableEq, Repr

inductive HsEvent
  | line
  | url (parseFailed : Bool) (path : Option Bytes)
  | field (name : Bytes)
  | value (v : Bytes)
  | headersComplete (method major minor : Nat) (upgrade : Bool)
  | parserError
  | eof
  | tooLong
  deriving DecidableEq, Repr

inductive HsPhase
  | headers | upgraded | closed
  deriving DecidableEq, Repr

structure Hs where
  /-- number of lines handed to the parser so far -/
  lines : Nat := 0
  /-- `alloc_websocket_peer` has run (the line reader is `websocket_read_header_line` from the next line on) -/
  created : Bool := false
  /-- the line during which it ran: the rest of that line is still `read_start_line`'s -/
  createdLine : Nat := 0
  current : HField := .unknown
  /-- `sec_web_socket_key[24 + 36]`, zeroed by `websocket_init` -/
  secKey : Bytes := List.replicate (secKeyLength + secGuidLength) 0
  protocolRequested : Bool := false
  found : Bool := false
  /-- `connection->status_code` -/
  status : Nat := 0
  phase : HsPhase := .headers
  deriving DecidableEq, Repr

/-- `tolower` in the C locale -/
def lowerByte (b : UInt8) : UInt8 := if 65 ≤ b ∧ b ≤ 90 then b + 32 else b

/-- `(sizeof(name) - 1 == length) && (jet_strncasecmp(at, name, length) == 0)` -/
def headerNameIs (name at_ : Bytes) : Bool :=
  name.length == at_.length && name.map lowerByte == at_.map lowerByte

/-- `isspace` in the C locale -/
def isSpace (b : UInt8) : Bool := b == 32 || (9 ≤ b && b ≤ 13)

/-- `fill_requested_sub_protocol`; `rtok` is the list entry in reverse order: its trailing white
    space (optional before the comma of a list) is dropped first -/
def protoMatches (name rtok : Bytes) : Bool :=
  let tok := (rtok.dropWhile isSpace).reverse
  name.length == tok.length && name == tok

/-- the inner `while` of `check_websocket_protocol`: scan a token up to the next ',' or the end;
    returns whether the token matched and the rest (starting at the ',' if there is one) -/
def scanToken (name : Bytes) : Bytes → Bytes → Bool × Bytes
  | acc, [] => (protoMatches name acc, [])
  | acc, b :: rest => if b == 44 then (protoMatches name acc, b :: rest) else scanToken name (b :: acc) rest

theorem scanToken_rest_le (name : Bytes) (acc bs : Bytes) : (scanToken name acc bs).2.length ≤ bs.length := by
  induction bs generalizing acc with
  | nil => simp [scanToken]
  | cons b rest ih =>
    simp only [scanToken]
    split
    · simp
    · exact Nat.le_trans (ih _) (by simp)

set_option linter.unusedVariables false in
/-- `check_websocket_protocol`: does some token of the comma separated list equal `name`?
    (leading and trailing white space of an entry is skipped) -/
def checkProtocol (name : Bytes) : Bytes → Bool
  | [] => false
  | b :: rest =>
    if !isSpace b && b != 44 then
      let r := scanToken name [] (b :: rest)
      r.1 || (match h : r.2 with
              | [] => false
              | _ :: rest' => checkProtocol name rest')
    else checkProtocol name rest
termination_by bs => bs.length
decreasing_by
  · have := scanToken_rest_le name [] (b :: rest)
    simp only [r, h, List.length_cons] at this ⊢
    omega
  · simp

/-- `get_response(status_code)` -/
def httpResponse (status : Nat) : Bytes :=
  if status = httpBadRequest then httpBadRequestResponse
  else if status = httpNotFound then httpNotFoundResponse
  else httpInternalErrorResponse

/-- the accept value: `b64(sha1(sec_web_socket_key[0..60)))` -/
def acceptValue (secKey : Bytes) : Bytes := Base64.encode (Sha1.sha1 secKey)

/-- the bytes of the 101 response (`send_upgrade_response`, sub-protocol name set, no extension) -/
def upgradeResponse (secKey : Bytes) : Bytes :=
  switchResponse ++ acceptValue secKey ++ switchProtocol ++ subProtocol ++ switchEnd

/-- a callback returned non-zero or the parser rejected the line: what the line reader does -/
def Hs.fail (c : Conf) (h : Hs) : Hs × List Action :=
  if !h.created || h.lines ≤ h.createdLine then
    -- read_start_line
    let st := if h.status = 0 then httpBadRequest else h.status
    ({ h with status := st, phase := .closed }, [Action.write c.sendOk (httpResponse st), Action.closeConn])
  else
    -- websocket_read_header_line
    ({ h with status := httpBadRequest, phase := .closed },
      Action.write c.sendOk (httpResponse httpBadRequest) :: handleError { c with upgradeComplete := false } closeGoingAway)

/-- one callback of the parser (or one reader event) -/
def Hs.step (c : Conf) (target : Bytes) (h : Hs) (e : HsEvent) : Hs × List Action :=
  if h.phase ≠ .headers then (h, []) else
  match e with
  | .line => ({ h with lines := h.lines + 1 }, [])
  | .url parseFailed path =>
    if parseFailed then Hs.fail c { h with status := httpBadRequest }
    else match path with
      | none => Hs.fail c { h with status := httpBadRequest }
      | some p =>
        if target.isPrefixOf p then ({ h with created := true, createdLine := h.lines }, [])
        else Hs.fail c { h with status := httpNotFound }
  | .field name =>
    if headerNameIs hdrKey name then ({ h with current := .key }, [])
    else if headerNameIs hdrVersion name then ({ h with current := .version }, [])
    else if headerNameIs hdrProtocol name then ({ h with current := .protocol }, [])
    else if headerNameIs hdrExtensions name then ({ h with current := .extensions }, [])
    else (h, [])
  | .value v =>
    let h' := { h with current := .unknown }
    match h.current with
    | .key =>
      if v.length = secKeyLength then ({ h' with secKey := v ++ wsGuid }, [])
      else Hs.fail c h'
    | .version => if v = wsVersion then (h', []) else Hs.fail c h'
    | .protocol => ({ h' with protocolRequested := true, found := h.found || checkProtocol subProtocol v }, [])
    | .extensions => (h', [])
    | .unknown => (h', [])
  | .headersComplete method major minor upgrade =>
    let versionOk := major > 1 || (major = 1 && minor ≥ 1)
    if !versionOk then Hs.fail c h
    else if method ≠ httpGet then Hs.fail c h
    else if !upgrade then Hs.fail c h
    else if h.protocolRequested && !h.found then Hs.fail c h
    else
      let w := Action.write c.sendOk (upgradeResponse h.secKey)
      if c.sendOk then ({ h with phase := .upgraded }, [w])
      else
        let r := Hs.fail c h
        (r.1, w :: r.2)
  | .parserError => Hs.fail c h
  | .eof =>
    if h.created then ({ h with phase := .closed }, handleError { c with upgradeComplete := false } closeGoingAway)
    else ({ h with phase := .closed }, [Action.closeConn])
  | .tooLong =>
    if h.created then ({ h with phase := .closed }, errorHandler' c)
    else ({ h with phase := .closed }, [Action.closeConn])
where
  errorHandler' (c : Conf) : List Action := websocketClose { c with upgradeComplete := false } closeGoingAway ++ [Action.peerFreed]

def Hs.run (c : Conf) (target : Bytes) : Hs → List HsEvent → Hs × List Action
  | h, [] => (h, [])
  | h, e :: es =>
    let r := Hs.step c target h e
    let t := Hs.run c target r.1 es
    (t.1, r.2 ++ t.2)

/-! ## Specification side: a request as a list of header lines -/

/-- which of the four headers of interest a field name selects (`websocket_upgrade_on_header_field`) -/
def hdrKind (n : Bytes) : HField :=
  if headerNameIs hdrKey n then .key
  else if headerNameIs hdrVersion n then .version
  else if headerNameIs hdrProtocol n then .protocol
  else if headerNameIs hdrExtensions n then .extensions
  else .unknown

/-- a header the upgrade logic accepts: a key of 24 bytes, version "13", anything else -/
def hdrOk (x : Bytes × Bytes) : Prop :=
  match hdrKind x.1 with
  | .key => x.2.length = secKeyLength
  | .version => x.2 = wsVersion
  | _ => True

/-- the effect of one accepted header line on the handshake state -/
def applyHdr (h : Hs) (x : Bytes × Bytes) : Hs :=
  match hdrKind x.1 with
  | .key => { h with lines := h.lines + 1, secKey := x.2 ++ wsGuid }
  | .protocol => { h with lines := h.lines + 1, protocolRequested := true,
                          found := h.found || checkProtocol subProtocol x.2 }
  | _ => { h with lines := h.lines + 1 }

def hdrFold (h : Hs) (hdrs : List (Bytes × Bytes)) : Hs := hdrs.foldl applyHdr h

/-- the callback sequence of a request: request line, one line per header, the empty line -/
def hdrEvents (hdrs : List (Bytes × Bytes)) : List HsEvent :=
  hdrs.flatMap (fun x => [HsEvent.line, HsEvent.field x.1, HsEvent.value x.2])

def reqEvents (path : Bytes) (hdrs : List (Bytes × Bytes)) (method major minor : Nat) (upgrade : Bool) : List HsEvent :=
  [HsEvent.line, HsEvent.url false (some path)] ++ hdrEvents hdrs ++ [HsEvent.line, HsEvent.headersComplete method major minor upgrade]

/-- the state after the request line of a request for the configured target -/
def hsAfterRequestLine : Hs := { lines := 1, created := true, createdLine := 1 }


end Cjet.Ws
