import Cjet.Ws.Machine
/-!
# RFC 6455 §5.2 wire layout, as a specification (independent of `send_frame`)

```
 byte 0: FIN(1) RSV1-3(3) opcode(4)      byte 1: MASK(1) len7(7)
 len7 = 126: 16 bit big-endian length follows; len7 = 127: 64 bit big-endian length follows
 MASK = 1: 4 byte masking key follows; then the payload, byte i XORed with key[i mod 4]
```
-/
namespace Cjet.Ws
open Cjet.Generated.Ws

/-- which of the three length encodings is used -/
inductive LenForm
  | short | ext16 | ext64
  deriving DecidableEq, Repr

/-- the length fits the encoding (the receiver does not insist on the minimal one) -/
def LenForm.fits : LenForm → Nat → Prop
  | .short, n => n < 126
  | .ext16, n => n < 65536
  | .ext64, n => n < 18446744073709551616

instance (f : LenForm) (n : Nat) : Decidable (f.fits n) := by
  cases f <;> simp only [LenForm.fits] <;> infer_instance

/-- the minimal encoding of a length -/
def LenForm.minimal (n : Nat) : LenForm :=
  if n ≤ 125 then .short else if n ≤ 65535 then .ext16 else .ext64

def bit (b : Bool) : Nat := if b then 128 else 0

/-- the frame header up to and including the extended length -/
def wireHeader (fin : Bool) (rsv opcode : Nat) (masked : Bool) (form : LenForm) (len : Nat) : Bytes :=
  UInt8.ofNat (bit fin + rsv * 16 + opcode) ::
    (match form with
     | .short => [UInt8.ofNat (bit masked + len)]
     | .ext16 => UInt8.ofNat (bit masked + 126) :: be16 len
     | .ext64 => UInt8.ofNat (bit masked + 127) :: be64 len)

/-- the payload as it travels -/
def wirePayload (key : Option Bytes) (payload : Bytes) : Bytes :=
  match key with
  | some k => xorMask k payload
  | none => payload

/-- a complete frame on the wire -/
def wire (fin : Bool) (rsv opcode : Nat) (key : Option Bytes) (form : LenForm) (payload : Bytes) : Bytes :=
  wireHeader fin rsv opcode key.isSome form payload.length ++ key.getD [] ++ wirePayload key payload

/-- the state in which `read_mask_or_payload` is entered after the header of a frame -/
def St.withHeader (s : St) (fin : Bool) (rsv opcode : Nat) (masked : Bool) (len : Nat) : St :=
  { s with flags := { s.flags with fin := fin, rsv := rsv, opcode := opcode, mask := masked }, length := len }

/-- What the machine does with one complete frame `(fin, rsv, opcode, key, payload)`: the flags are
    set from the header, the key is stored, and `ws_get_payload` is entered with the payload as it
    travelled.  Returns the state and the actions after `ws_get_payload`. -/
def St.deliver (c : Conf) (a : Nat) (s : St) (fin : Bool) (rsv opcode : Nat) (key : Option Bytes)
    (payload : Bytes) : St × List Action :=
  let s1 := s.withHeader fin rsv opcode key.isSome payload.length
  let s2 : St := { s1 with key := key.getD s.key }
  afterPayload s2 (wsGetPayload c s2.flags s2.key a (wirePayload key payload))

/-- what `ws_get_payload` does with a frame whose header gave the flags `fl` and whose *unmasked*
    payload is `payload` -/
def frameOutcome (c : Conf) (fl : Flags) (payload : Bytes) : PayloadResult :=
  if c.isServer && !fl.mask then
    { flags := fl, open_ := false, actions := handleError c closeProtocolError }
  else payloadResult c (wsHandleFrame c fl payload)

/-- the close frame a server sends for a status code: `88 02 hi lo` -/
def serverCloseFrame (code : Nat) : Bytes := wire true 0 opClose none .short (be16 (code % 65536))

/-- a frame is refused: nothing but `handle_error(code)` happens and `WS_CLOSED` is returned -/
def HandleResult.refusedWith (r : HandleResult) (c : Conf) (code : Nat) : Prop :=
  r.ret = .closed ∧ r.actions = handleError c code

/-- the configuration used by the non-vacuity examples: the daemon's server endpoint, default read buffer -/
def exampleConf : Conf := { cbs := daemonCallbacks (fun m => m.length ≠ 1), utf8Valid := fun r => r.all (· < 128), bufSize := 512 }

end Cjet.Ws
