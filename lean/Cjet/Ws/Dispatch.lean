import Cjet.Ws.Send
/-!
# `ws_handle_frame`, `ws_get_payload`, `handle_error`, `websocket_close`, `is_status_code_invalid`
(src/websocket.c:105-334, 1053-1065) and the callback set of the daemon (src/websocket_peer.c:61-148).

The dispatcher is a total function from the per-connection flags and one unmasked frame to the new
flags, the `enum websocket_callback_return` it returns, and the list of externally visible actions in
the order the C code performs them.
-/
namespace Cjet.Ws
open Cjet.Generated.Ws

/-- `enum websocket_callback_return` -/
inductive CbRet
  | closed | error | ok
  deriving DecidableEq, Repr

/-- The application callbacks of `struct websocket`: `none` = the function pointer is NULL,
    `some f` = set, `f` giving what the callback returns. -/
structure Callbacks where
  textMessage : Option (Bytes → CbRet)
  textFrame : Option (Bytes → Bool → CbRet)
  binaryMessage : Option (Bytes → CbRet)
  binaryFrame : Option (Bytes → Bool → CbRet)
  ping : Option (Bytes → CbRet)
  pong : Option (Bytes → CbRet)
  close : Option (Nat → CbRet)

/-- `init_websocket_peer` (websocket_peer.c): `text_message_received = text_message_callback` (WS_ERROR
    when `parse_message` fails, else WS_OK), `close_received = close_callback` (returns WS_CLOSED),
    `pong_received` (returns WS_OK); everything else stays NULL from the `memset` in `websocket_init`. -/
def daemonCallbacks (parseOk : Bytes → Bool) : Callbacks :=
  { textMessage := some (fun m => if parseOk m then .ok else .error)
    textFrame := none
    binaryMessage := none
    binaryFrame := none
    ping := none
    pong := some (fun _ => .ok)
    close := some (fun _ => .closed) }

/-- the fixture-like set used by the unit tests: everything set, every callback returning `r` -/
def fullCallbacks (r : CbRet) : Callbacks :=
  { textMessage := some (fun _ => r)
    textFrame := some (fun _ _ => r)
    binaryMessage := some (fun _ => r)
    binaryFrame := some (fun _ _ => r)
    ping := some (fun _ => r)
    pong := some (fun _ => r)
    close := some (fun _ => r) }

/-- externally visible actions, in the order the code performs them -/
inductive Action
  | write (ok : Bool) (bytes : Bytes)   -- `br->writev` (with its result)
  | closeConn                           -- `free_connection` (`br->close`)
  | onError                             -- `s->on_error(s)`
  | peerFreed                           -- the reader's error handler released the peer
  | textMessage (p : Bytes)
  | textFrame (p : Bytes) (last : Bool)
  | binaryMessage (p : Bytes)
  | binaryFrame (p : Bytes) (last : Bool)
  | ping (p : Bytes)
  | pong (p : Bytes)
  | closeReceived (code : Nat)
  deriving DecidableEq, Repr

/-- the `ws_flags` bit-field of `struct websocket` -/
structure Flags where
  fin : Bool := false
  rsv : Nat := 0
  opcode : Nat := 0
  mask : Bool := false
  fragOpcode : Nat := 0
  isFragmented : Bool := false
  isFragCompressed : Bool := false
  deriving DecidableEq, Repr

/-- what is fixed while one input is processed -/
structure Conf where
  isServer : Bool := true
  /-- `extension_compression.accepted` (never set when the compression level is 0) -/
  extAccepted : Bool := false
  upgradeComplete : Bool := true
  cbs : Callbacks
  /-- the verdict of `cjet_is_byte_sequence_valid` on a close reason (C18's subject) -/
  utf8Valid : Bytes → Bool
  /-- the result of `br->writev` -/
  sendOk : Bool := true
  /-- the size of the read buffer (`CONFIG_MAX_MESSAGE_SIZE`) -/
  bufSize : Nat
  /-- `sizeof(uint_fast32_t)` -/
  word : Nat := 8
  /-- what `cjet_get_random_bytes` returns (client mode) -/
  clientKey : Bytes := [0, 0, 0, 0]

/-- `is_status_code_invalid` -/
def isStatusCodeInvalid (code : Nat) : Bool :=
  !(validStatusRanges.any (fun r => decide (r.1 ≤ code) && decide (code ≤ r.2)))

/-- the bytes of one frame as this endpoint sends it -/
def Conf.frame (c : Conf) (align : Nat) (typ : Nat) (payload : Bytes) : Bytes :=
  sendFrame c.isServer c.word align c.clientKey typ payload

/-- In client mode `send_frame` masks the payload *in place*; a buffer that is used again afterwards
    (the ping payload handed to `ping_received`) is seen masked.  (By `unmaskPayload_eq_xorMask` the
    address of the buffer does not matter.) -/
def Conf.afterSend (c : Conf) (payload : Bytes) : Bytes :=
  if c.isServer then payload else xorMask (c.clientKey.take maskBytes) payload

/-- `websocket_close` -/
def websocketClose (c : Conf) (code : Nat) : List Action :=
  (if c.upgradeComplete then [Action.write c.sendOk (c.frame 0 opClose (closePayload code))] else [])
    ++ [Action.closeConn]

/-- `handle_error` -/
def handleError (c : Conf) (code : Nat) : List Action :=
  websocketClose c code ++ [Action.onError]

/-- result of the dispatcher -/
structure HandleResult where
  flags : Flags
  ret : CbRet
  actions : List Action

/-- an error exit of `ws_handle_frame`: `handle_error(s, code); return WS_CLOSED;` -/
def refuse (c : Conf) (f : Flags) (code : Nat) : HandleResult :=
  { flags := f, ret := .closed, actions := handleError c code }

/-- the RSV check at the top of `ws_handle_frame`: `none` = protocol error, `some b` = `compression_bit_set` -/
def rsvCheck (c : Conf) (f : Flags) : Option Bool :=
  if f.rsv ≠ 0 then
    if c.extAccepted then
      if f.rsv ≠ perMessageCompressedBit then none
      else if f.opcode ≥ opClose then none
      else some true
    else none
  else some false

/-- the `if (s->ws_flags.fin == 0) { … }` block: fragmentation bookkeeping; `none` = protocol error -/
def fragStep (f : Flags) (comp : Bool) : Option Flags :=
  if !f.fin then
    if f.opcode ≠ 0 then
      if f.isFragmented then none
      else some { f with isFragmented := true, isFragCompressed := f.isFragCompressed || comp,
                         fragOpcode := f.opcode, opcode := opContinuation }
    else
      if f.rsv ≠ 0 then none
      else if !f.isFragmented then none
      else some f
  else some f

/-- the flags after the last fragment -/
def Flags.endFragment (f : Flags) (last : Bool) : Flags :=
  if last then { f with isFragmented := false, isFragCompressed := false, fragOpcode := opContinuation } else f

/-- the `switch (s->ws_flags.opcode)` of `ws_handle_frame` -/
def dispatchOpcode (c : Conf) (f : Flags) (frame : Bytes) : HandleResult :=
  let length := frame.length
  if f.opcode = opContinuation then
    let last := f.fin
    if f.fragOpcode = opBinary then
      match c.cbs.binaryFrame with
      | none => refuse c f closeUnsupported
      | some cb => { flags := f.endFragment last, ret := cb frame last, actions := [Action.binaryFrame frame last] }
    else if f.fragOpcode = opText then
      match c.cbs.textFrame with
      | none => refuse c f closeUnsupported
      | some cb =>
        match cb frame last with
        | .closed => { flags := f, ret := .closed,
                       actions := Action.textFrame frame last :: handleError c closeUnsupportedData }
        | r => { flags := f.endFragment last, ret := r, actions := [Action.textFrame frame last] }
    else refuse c f closeProtocolError
  else if f.opcode = opBinary then
    match c.cbs.binaryMessage with
    | some cb => { flags := f, ret := cb frame, actions := [Action.binaryMessage frame] }
    | none => refuse c f closeUnsupported
  else if f.opcode = opText then
    match c.cbs.textMessage with
    | some cb =>
      match cb frame with
      | .closed => { flags := f, ret := .closed,
                     actions := Action.textMessage frame :: handleError c closeUnsupportedData }
      | r => { flags := f, ret := r, actions := [Action.textMessage frame] }
    | none => refuse c f closeUnsupported
  else if f.opcode = opPing then
    if length > wsSmallFrameSize then refuse c f closeProtocolError
    else
      let w := Action.write c.sendOk (c.frame 0 opPong frame)
      if !c.sendOk then { flags := f, ret := .error, actions := [w] }
      else match c.cbs.ping with
        | some cb => { flags := f, ret := cb (c.afterSend frame), actions := [w, Action.ping (c.afterSend frame)] }
        | none => { flags := f, ret := .ok, actions := [w] }
  else if f.opcode = opPong then
    if length > wsSmallFrameSize then refuse c f closeProtocolError
    else match c.cbs.pong with
      | some cb => { flags := f, ret := cb frame, actions := [Action.pong frame] }
      | none => { flags := f, ret := .ok, actions := [] }
  else if f.opcode = opClose then
    let status := if length ≥ 2 then beVal (frame.take 2) else closeNormal
    if length > 2 && !c.utf8Valid (frame.drop 2) then refuse c f closeUnsupportedData
    else if length = 1 || length > wsSmallFrameSize || isStatusCodeInvalid status then refuse c f closeProtocolError
    else
      { flags := f, ret := .closed,
        actions := websocketClose c closeNormal ++
          (match c.cbs.close with
           | some _ => [Action.closeReceived status]
           | none => []) }
  else refuse c f closeProtocolError

/-- `ws_handle_frame(s, frame, length)` -/
def wsHandleFrame (c : Conf) (f : Flags) (frame : Bytes) : HandleResult :=
  match rsvCheck c f with
  | none => refuse c f closeProtocolError
  | some comp =>
    if !f.fin && f.opcode ≥ opClose then refuse c f closeProtocolError
    else
      match fragStep f comp with
      | none => refuse c f closeProtocolError
      | some f =>
        if f.isFragmented && (f.opcode < opClose && f.opcode > 0) then refuse c f closeProtocolError
        else dispatchOpcode c f frame

/-- what `ws_get_payload` leaves behind: the flags, and whether the reader goes on with the next header -/
structure PayloadResult where
  flags : Flags
  open_ : Bool
  actions : List Action

/-- the `switch (ret)` at the end of `ws_get_payload` -/
def payloadResult (c : Conf) (r : HandleResult) : PayloadResult :=
  match r.ret with
  | .ok => { flags := r.flags, open_ := true, actions := r.actions }
  | .closed => { flags := r.flags, open_ := false, actions := r.actions }
  | .error => { flags := r.flags, open_ := false, actions := r.actions ++ handleError c closeInternalError }

/-- `ws_get_payload(s, buf, len)` for a delivered payload (`len = s->length`; the `len == 0 &&
    s->length != 0` end-of-stream case is `eofStep`) -/
def wsGetPayload (c : Conf) (f : Flags) (key : Bytes) (align : Nat) (buf : Bytes) : PayloadResult :=
  if c.isServer && !f.mask then
    { flags := f, open_ := false, actions := handleError c closeProtocolError }
  else
    payloadResult c (wsHandleFrame c f (if f.mask then unmaskPayload c.word align key buf else buf))

end Cjet.Ws
