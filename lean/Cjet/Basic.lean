/-
  Cjet.Basic — shared, stable definitions used by every component model and by the
  driver's line protocol.  Core Lean only (no Mathlib, no Std beyond what ships
  with the toolchain), so that `cjetdrv` links as a plain `lean_exe`.
-/

namespace Cjet

/-- Byte strings are plain lists of bytes (C `char` buffers with an explicit length). -/
abbrev Bytes := List UInt8

namespace Hex

def digit (n : Nat) : Char :=
  if n < 10 then Char.ofNat (48 + n) else Char.ofNat (87 + n)

def ofByte (b : UInt8) : String :=
  String.ofList [digit (b.toNat / 16), digit (b.toNat % 16)]

/-- Lower-case hex rendering; the empty byte string is rendered as `-` so that it
    survives whitespace splitting in the line protocol. -/
def ofBytes (bs : Bytes) : String :=
  if bs.isEmpty then "-" else String.join (bs.map ofByte)

def nibble? (c : Char) : Option Nat :=
  if '0' ≤ c ∧ c ≤ '9' then some (c.toNat - 48)
  else if 'a' ≤ c ∧ c ≤ 'f' then some (c.toNat - 87)
  else if 'A' ≤ c ∧ c ≤ 'F' then some (c.toNat - 55)
  else none

def parseList : List Char → Option Bytes
  | [] => some []
  | [_] => none
  | a :: b :: rest =>
    match nibble? a, nibble? b, parseList rest with
    | some x, some y, some tl => some (UInt8.ofNat (x * 16 + y) :: tl)
    | _, _, _ => none

/-- Inverse of `ofBytes` (`-` is the empty string). -/
def toBytes? (s : String) : Option Bytes :=
  if s == "-" then some [] else parseList s.toList

end Hex

/-- Split a protocol line into whitespace separated words. -/
def words (line : String) : List String :=
  (line.trimAscii.toString.splitOn " ").filter (· ≠ "")

/-- Generic driver loop: feed stdin lines through a pure step function that
    returns the new state and the output lines for that input line. -/
partial def lineLoop {σ : Type} (h : IO.FS.Stream) (out : IO.FS.Stream)
    (step : σ → String → σ × List String) (s : σ) : IO Unit := do
  let line ← h.getLine
  if line.isEmpty then
    out.flush
    return ()
  let (s', outs) := step s line
  for o in outs do
    out.putStrLn o
  lineLoop h out step s'

def runLines {σ : Type} (step : σ → String → σ × List String) (init : σ) : IO Unit := do
  lineLoop (← IO.getStdin) (← IO.getStdout) step init

end Cjet
