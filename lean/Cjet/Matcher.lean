import Cjet.Basic
import Cjet.Generated.Consts
import Cjet.Generated.Matcher

/-!
# Cjet.Matcher — model of the path matchers and the rule parser of `src/fetch.c` (property C16)

What is transcribed (line numbers of `src/fetch.c` as of the tree with the F4 fix):

* the libc functions the matchers use, written as the loops they are, over C strings
  (`strcmp`, `strncmp`, `strstr`; `strcasecmp`, `strncasecmp`, `strcasestr` in the C locale,
  reached through the `jet_*` wrappers of `linux/jet_string.c` / `posix/jet_string.c`);
* the twelve match functions (`fetch.c:79-161`) composed from them exactly as the C does
  (`endswith_match` computes `state_path + state_path_length - fetch_path_length`,
  `containsallof_match` loops over `number_of_path_elements`, `equalsnot_match` returns the raw
  `strcmp` value);
* the `matchers[]` table (`fetch.c:163-169`) — *generated* from the source into
  `Cjet.Generated.Matcher` on every run;
* `create_path_matcher` / `fill_path_elements` / `create_matcher` / `add_matchers` /
  `alloc_fetch` / `create_fetch` (`fetch.c:171-374`) with the exact count arithmetic, and
  `state_matches` (`fetch.c:410-429`).

## C strings

A C string is modelled by the list of its bytes *before* the terminator; the end of the list is
the terminating NUL.  JSON strings can contain a NUL (cJSON turns `"\u0000"` into a 0 byte inside
`valuestring` / `string`); everything in fetch.c looks at them through `strlen`/`strcmp`/
`duplicate_string`, i.e. sees the prefix up to the first 0.  That view is `cstr`; every byte string
that enters the model from a rule object or as an element path goes through `cstr` first, and the
results of `cstr` are `NulFree`.  The libc models below are only meaningful on `NulFree` lists
(they never look for a 0 byte — the end of the list *is* the 0), which is the hypothesis of their
specification theorems.

## Integer widths, allocation

`unsigned int` counters are modelled by `Nat` (a rule object has far fewer than 2^31 members:
`CONFIG_MAX_MESSAGE_SIZE` bounds the message), except where wrap-around matters:
`create_path_matcher(0)` computes `sizeof(*pm) + sizeof(pm->path_elements) * (0u - 1)`, which on
LP64 is 24 + 8·(2^32−1) bytes; `cjet_calloc` refuses it because it exceeds
`CONFIG_MAX_HEAPSIZE_IN_KBYTE`·1024.  That is the *only* reason an empty `containsAllOf` array is
refused, so the size computation and the heap-cap test are part of the model (`pathMatcherBytes`,
`callocOk`).  All other allocations are assumed to succeed (allocation failure is property C15).
-/

namespace Cjet.Matcher

open Cjet.Generated.Matcher (CFn Entry table optionKey optionKeyCmpLen)

/-! ## C strings -/

/-- The C view of a byte string: the bytes before the first NUL. -/
def cstr (b : Bytes) : Bytes := b.takeWhile (· != 0)

/-- No embedded NUL: the list is the content of a C string. -/
def NulFree (b : Bytes) : Prop := ∀ x ∈ b, x ≠ 0

instance (b : Bytes) : Decidable (NulFree b) := by unfold NulFree; infer_instance

/-- `tolower` in the C locale. -/
def toLower (c : UInt8) : UInt8 := if 65 ≤ c ∧ c ≤ 90 then c + 32 else c

/-- A string with every byte case-folded. -/
def lower (s : Bytes) : Bytes := s.map toLower

/-- `(unsigned char)a - (unsigned char)b` as an `int`. -/
def diff (a b : UInt8) : Int := (a.toNat : Int) - (b.toNat : Int)

/-! ## libc, as loops -/

def strlen (s : Bytes) : Nat := s.length

/-- `while (*a == *b) { if (!*a) return 0; a++; b++; } return *a - *b;` -/
def strcmp : Bytes → Bytes → Int
  | [], [] => 0
  | [], b :: _ => diff 0 b
  | a :: _, [] => diff a 0
  | a :: as, b :: bs => if a = b then strcmp as bs else diff a b

/-- `strcmp` that stops after `n` bytes. -/
def strncmp : Bytes → Bytes → Nat → Int
  | _, _, 0 => 0
  | [], [], _ + 1 => 0
  | [], b :: _, _ + 1 => diff 0 b
  | a :: _, [], _ + 1 => diff a 0
  | a :: as, b :: bs, n + 1 => if a = b then strncmp as bs n else diff a b

/-- `strcasecmp` in the C locale: compare `tolower` of the bytes. -/
def strcasecmp : Bytes → Bytes → Int
  | [], [] => 0
  | [], b :: _ => diff 0 (toLower b)
  | a :: _, [] => diff (toLower a) 0
  | a :: as, b :: bs => if toLower a = toLower b then strcasecmp as bs else diff (toLower a) (toLower b)

def strncasecmp : Bytes → Bytes → Nat → Int
  | _, _, 0 => 0
  | [], [], _ + 1 => 0
  | [], b :: _, _ + 1 => diff 0 (toLower b)
  | a :: _, [], _ + 1 => diff (toLower a) 0
  | a :: as, b :: bs, n + 1 =>
    if toLower a = toLower b then strncasecmp as bs n else diff (toLower a) (toLower b)

/-- Inner loop of the naive `strstr`: does the needle occur at this position of the haystack?
    (`while (*n) { if (*h != *n) return 0; h++; n++; } return 1;`) -/
def startsAt : Bytes → Bytes → Bool
  | _, [] => true
  | [], _ :: _ => false
  | h :: hs, n :: ns => h == n && startsAt hs ns

/-- The same with `tolower` on both sides. -/
def startsAtCI : Bytes → Bytes → Bool
  | _, [] => true
  | [], _ :: _ => false
  | h :: hs, n :: ns => toLower h == toLower n && startsAtCI hs ns

/-- Outer loop of the naive `strstr`: try every position, the end of the haystack included
    (an empty needle is found in an empty haystack).  Returns the offset of the first occurrence. -/
def strstrFrom (needle : Bytes) : Bytes → Nat → Option Nat
  | [], off => if startsAt [] needle then some off else none
  | h :: t, off => if startsAt (h :: t) needle then some off else strstrFrom needle t (off + 1)

/-- `strstr(haystack, needle)`: `some offset` for a non-NULL result. -/
def strstr (hay needle : Bytes) : Option Nat := strstrFrom needle hay 0

def strcasestrFrom (needle : Bytes) : Bytes → Nat → Option Nat
  | [], off => if startsAtCI [] needle then some off else none
  | h :: t, off => if startsAtCI (h :: t) needle then some off else strcasestrFrom needle t (off + 1)

/-- `strcasestr(haystack, needle)` (glibc, C locale; `jet_strcasestr`). -/
def strcasestr (hay needle : Bytes) : Option Nat := strcasestrFrom needle hay 0

/-! ## Path matchers -/

/-- `struct path_matcher`: the match function and the operands (`path_elements[0 .. n-1]`,
    each a C string made by `duplicate_string`). -/
structure PathMatcher where
  fn : CFn
  elems : List Bytes
  deriving DecidableEq, Repr

/-- `pm->path_elements[0]` (every matcher created by `create_matcher` for a single-operand entry
    has exactly one element, see `buildMatcher_single`). -/
def PathMatcher.first (pm : PathMatcher) : Bytes := pm.elems.headD []

def b2i (b : Bool) : Int := if b then 1 else 0

/-- `for (i = 0; i < n; i++) if (strstr(state_path, pm->path_elements[i]) == NULL) return 0; return 1;` -/
def containsAllLoop (find : Bytes → Bytes → Option Nat) (path : Bytes) : List Bytes → Int
  | [] => 1
  | e :: es => if (find path e).isNone then 0 else containsAllLoop find path es

/-- The twelve match functions of fetch.c; the result is the C `int`. -/
def evalFn : CFn → PathMatcher → Bytes → Int
  | .equals_match, pm, p => b2i (strcmp pm.first p == 0)
  | .equals_match_ignore_case, pm, p => b2i (strcasecmp pm.first p == 0)
  | .contains_match, pm, p => b2i (strstr p pm.first).isSome
  | .contains_match_ignore_case, pm, p => b2i (strcasestr p pm.first).isSome
  | .startswith_match, pm, p =>
    let fetchPathLength := strlen pm.first
    b2i (strncmp pm.first p fetchPathLength == 0)
  | .startswith_match_ignore_case, pm, p =>
    let fetchPathLength := strlen pm.first
    b2i (strncasecmp pm.first p fetchPathLength == 0)
  | .endswith_match, pm, p =>
    let fetchPathLength := strlen pm.first
    let statePathLength := strlen p
    b2i (decide (statePathLength ≥ fetchPathLength) &&
         strcmp (p.drop (statePathLength - fetchPathLength)) pm.first == 0)
  | .endswith_match_ignore_case, pm, p =>
    let fetchPathLength := strlen pm.first
    let statePathLength := strlen p
    b2i (decide (statePathLength ≥ fetchPathLength) &&
         strcasecmp (p.drop (statePathLength - fetchPathLength)) pm.first == 0)
  | .equalsnot_match, pm, p => strcmp pm.first p
  | .equalsnot_match_ignore_case, pm, p => strcasecmp pm.first p
  | .containsallof_match, pm, p => containsAllLoop strstr p pm.elems
  | .containsallof_match_ignore_case, pm, p => containsAllLoop strcasestr p pm.elems

/-! ## The rule object (the value of the `"path"` member of `params`) -/

/-- A member of an array value: a JSON string, or anything else. -/
inductive JItem where
  | str (b : Bytes)
  | other
  deriving DecidableEq, Repr

/-- A member value of the path object, as far as fetch.c distinguishes values. -/
inductive JVal where
  | str (b : Bytes)
  | arr (items : List JItem)
  | tru
  | fls
  | other
  deriving DecidableEq, Repr

/-- Ordered members (key bytes as cJSON stores them, value); duplicates preserved. -/
abbrev Members := List (Bytes × JVal)

/-- `cJSON_GetObjectItem(params, "path")` and its type. -/
inductive PathParam where
  | absent
  | notObject
  | obj (members : Members)
  deriving DecidableEq, Repr

/-- Key comparison of `get_object_item`: `strcmp` when case sensitive, otherwise cJSON's
    `case_insensitive_strcmp` (the `tolower` loop, same loop as `strcasecmp`). -/
def cjsonKeyEq (caseSensitive : Bool) (name key : Bytes) : Bool :=
  if caseSensitive then strcmp name key == 0 else strcasecmp name key == 0

/-- `get_object_item`: the first member whose key matches. -/
def getObjectItem (caseSensitive : Bool) (name : Bytes) : Members → Option JVal
  | [] => none
  | (k, v) :: rest =>
    if cjsonKeyEq caseSensitive name (cstr k) then some v else getObjectItem caseSensitive name rest

/-- `get_case_insensitive(path)`: which cJSON lookup is used and how that lookup compares keys are
    both read from the source (`Cjet.Generated.Matcher`). -/
def getCaseInsensitive (members : Members) : Option JVal :=
  getObjectItem (Cjet.Generated.Matcher.optionLookupCaseSensitive ||
                 Cjet.Generated.Matcher.cjsonGetObjectItemCaseSensitive) optionKey members

/-! ## Creating a fetch -/

/-- Parameters of the build and of the environment. -/
structure Cfg where
  /-- `CONFIG_MAX_NUMBERS_OF_MATCHERS_IN_FETCH` -/
  maxMatchers : Nat
  /-- `CONFIG_MAX_HEAPSIZE_IN_KBYTE * 1024` -/
  heapCapBytes : Nat
  /-- `allocated_memory` of alloc.c at the time of the call (any value) -/
  allocated : Nat
  deriving Repr

/-- The configuration of the repository (constants regenerated from the source). -/
def Cfg.repo : Cfg :=
  { maxMatchers := Cjet.Generated.cfgMaxNumbersOfMatchersInFetch
    heapCapBytes := Cjet.Generated.cfgMaxHeapsizeInKbyte * 1024
    allocated := 0 }

/-- `sizeof(struct path_matcher)` on LP64 (function pointer, unsigned + padding, one `char *`). -/
def sizeofPathMatcher : Nat := 24
/-- `sizeof(pm->path_elements)` = `sizeof(char *[1])` on LP64. -/
def sizeofPathElements : Nat := 8
/-- `sizeof(size_t)`: the header `cjet_calloc` adds. -/
def sizeofSizeT : Nat := 8

/-- `sizeof(*pm) + (sizeof(pm->path_elements) * (number_of_path_elements - 1))` with the
    subtraction in `unsigned int` (wraps for 0) and the rest in 64-bit `size_t` (no wrap for
    counts below 2^32). -/
def pathMatcherBytes (n : Nat) : Nat :=
  sizeofPathMatcher + sizeofPathElements * ((n + 4294967295) % 4294967296)

/-- `cjet_calloc(1, size)` succeeds as far as the heap cap is concerned:
    `!(allocated_memory + (size + sizeof(size_t)) > CONFIG_MAX_HEAPSIZE_IN_KBYTE * 1024)`. -/
def callocOk (cfg : Cfg) (size : Nat) : Bool :=
  !(decide (cfg.allocated + (size + sizeofSizeT) > cfg.heapCapBytes))

/-- The heap cap is below what `create_path_matcher(0)` asks for (true for any realistic cap: the
    request is 32 GiB). -/
def Cfg.Sane (cfg : Cfg) : Prop := cfg.heapCapBytes < pathMatcherBytes 0 + sizeofSizeT

instance (cfg : Cfg) : Decidable cfg.Sane := by unfold Cfg.Sane; infer_instance

/-- Why `create_matcher` / `add_matchers` failed (the C code reports all of them with the same
    response; the distinction is the model's, for the theorems and the histograms). -/
inductive Why where
  | unknownName        -- no entry of `matchers[]` has this name
  | notArray           -- multi-operand entry, value is not an array
  | notString          -- single-operand entry, value is not a string
  | allocFailed        -- `create_path_matcher`: over the heap cap (the empty array lands here)
  | memberNotString    -- `fill_path_elements`: an array member is not a string
  | countMismatch      -- F4 fix: fewer slots filled than counted
  | oobWrite           -- would write `f->matcher[i]` with `i ≥ number_of_matchers` (never happens: `fill_index_lt`)
  deriving DecidableEq, Repr

inductive Err where
  | pathNotObject      -- "fetch path is not an object"            INVALID_PARAMS
  | noMatcher          -- "no matcher in path object"              INVALID_PARAMS
  | tooMany            -- "too many matchers in path object"       INVALID_PARAMS
  | addFailed (w : Why) -- "could not add matchers to fetch"       INTERNAL_ERROR
  deriving DecidableEq, Repr

/-- The lookup loop of `create_matcher`: first entry with `strcmp(matcher->string, name) == 0`. -/
def lookupEntry (name : Bytes) : List Entry → Option Entry
  | [] => none
  | e :: es => if strcmp name e.name == 0 then some e else lookupEntry name es

/-- The loop of `fill_path_elements` for an array: every member must be a string; each is copied
    with `duplicate_string` (C view). -/
def fillPathElements : List JItem → Option (List Bytes)
  | [] => some []
  | .str b :: rest => (fillPathElements rest).map (cstr b :: ·)
  | .other :: _ => none

/-- `create_matcher` up to (not including) the store into `f->matcher[match_index]`. -/
def buildMatcher (cfg : Cfg) (ignoreCase : Bool) (key : Bytes) (v : JVal) : Except Why PathMatcher :=
  match lookupEntry (cstr key) table with
  | none => .error .unknownName
  | some e =>
    let matchFunction := if ignoreCase then e.caseInsensitive else e.caseSensitive
    if e.multi then
      match v with
      | .arr items =>
        let numberOfPathElements := items.length            -- cJSON_GetArraySize
        if !callocOk cfg (pathMatcherBytes numberOfPathElements) then .error .allocFailed
        else match fillPathElements items with
          | none => .error .memberNotString
          | some ops => .ok { fn := matchFunction, elems := ops }
      | _ => .error .notArray
    else
      match v with
      | .str s =>
        if !callocOk cfg (pathMatcherBytes 1) then .error .allocFailed
        else .ok { fn := matchFunction, elems := [cstr s] }
      | _ => .error .notString

/-- The slots `f->matcher[0 .. number_of_matchers-1]` (calloc'ed: all NULL). -/
abbrev Slots := List (Option PathMatcher)

/-- `create_matcher(f, matcher, match_index, ignore_case)`. -/
def createMatcher (cfg : Cfg) (ignoreCase : Bool) (key : Bytes) (v : JVal) (matchIndex : Nat)
    (slots : Slots) : Except Why Slots :=
  match buildMatcher cfg ignoreCase key v with
  | .error w => .error w
  | .ok pm => if matchIndex < slots.length then .ok (slots.set matchIndex (some pm)) else .error .oobWrite

/-- Is this member skipped by the fill loop?  `strncmp(matcher->string, case_insensitive,
    sizeof(case_insensitive)) != 0` means "not skipped". -/
def isOptionKey (key : Bytes) : Bool := strncmp (cstr key) optionKey optionKeyCmpLen == 0

/-- `add_matchers`.  `finalCheck = true` is the code with the F4 fix (`match_index !=
    f->number_of_matchers → error`); `false` is the code before the fix, kept for the
    counterexample theorem. -/
def addMatchers (cfg : Cfg) (finalCheck : Bool) (ignoreCase : Bool) (numberOfMatchers : Nat) :
    Members → Nat → Slots → Except Why Slots
  | [], matchIndex, slots =>
    if finalCheck && matchIndex != numberOfMatchers then .error .countMismatch else .ok slots
  | (k, v) :: rest, matchIndex, slots =>
    if !isOptionKey k then
      match createMatcher cfg ignoreCase k v matchIndex slots with
      | .error w => .error w
      | .ok slots' => addMatchers cfg finalCheck ignoreCase numberOfMatchers rest (matchIndex + 1) slots'
    else addMatchers cfg finalCheck ignoreCase numberOfMatchers rest matchIndex slots

/-- `struct fetch`, as far as matching is concerned. -/
structure Fetch where
  numberOfMatchers : Nat
  matcher : Slots
  deriving DecidableEq, Repr

/-- `alloc_fetch(p, id, number_of_matchers, …)` (allocation assumed to succeed). -/
def allocFetch (n : Nat) : Fetch := { numberOfMatchers := n, matcher := List.replicate n none }

/-- The count arithmetic of `create_fetch`: members, minus one if the option lookup finds
    something; and whether case is ignored (`type == cJSON_True`; any other value, also a non-bool,
    counts as "not set"). -/
def countAndCase (members : Members) : Nat × Bool :=
  match getCaseInsensitive members with
  | none => (members.length, false)
  | some v => (members.length - 1, v == .tru)

/-- `create_fetch` (parametrised by the presence of the F4 fix). -/
def createFetchWith (finalCheck : Bool) (cfg : Cfg) : PathParam → Except Err Fetch
  | .absent => .ok (allocFetch 1)
  | .notObject => .error .pathNotObject
  | .obj members =>
    let (numberOfMatchers, ignoreCase) := countAndCase members
    if numberOfMatchers == 0 then .error .noMatcher
    else if numberOfMatchers > cfg.maxMatchers then .error .tooMany
    else
      let f := allocFetch numberOfMatchers
      match addMatchers cfg finalCheck ignoreCase numberOfMatchers members 0 f.matcher with
      | .error w => .error (.addFailed w)
      | .ok slots => .ok { f with matcher := slots }

/-- `create_fetch` of the current tree. -/
def createFetch (cfg : Cfg) (p : PathParam) : Except Err Fetch := createFetchWith true cfg p

/-- `create_fetch` before the F4 fix. -/
def createFetchUnfixed (cfg : Cfg) (p : PathParam) : Except Err Fetch := createFetchWith false cfg p

/-! ## state_matches -/

inductive Fault where
  | nullMatcher     -- `pm->match_function` with `pm == NULL`
  | outOfBounds     -- `f->matcher[i]` with `i ≥` allocated slots
  deriving DecidableEq, Repr

inductive MatchResult where
  | verdict (b : Bool)
  | fault (f : Fault)
  deriving DecidableEq, Repr

/-- The loop of `state_matches`: `for (i = 0; i < match_array_size; ++i)`; `fuel` is
    `match_array_size - i`. -/
def stateLoop (slots : Slots) (path : Bytes) : Nat → Nat → MatchResult
  | _, 0 => .verdict true
  | i, fuel + 1 =>
    match slots[i]? with
    | none => .fault .outOfBounds
    | some none => .fault .nullMatcher
    | some (some pm) =>
      if evalFn pm.fn pm path == 0 then .verdict false else stateLoop slots path (i + 1) fuel

/-- `state_matches(e, f)` for an element whose path is `path`. -/
def stateMatches (f : Fetch) (path : Bytes) : MatchResult :=
  match f.matcher[0]? with
  | none => .fault .outOfBounds
  | some none => .verdict true          -- "no match function given, so it was a fetch all command"
  | some (some _) => stateLoop f.matcher path 0 f.numberOfMatchers

end Cjet.Matcher
