import Cjet.Hoptable

/-!
# Specification vocabulary for the hopscotch table (property C17)

`Bit`, `Live`, `Maps` (the abstraction relation: the finite map a table denotes), the
well-formedness invariant `WF`, the no-ghost-slot invariant `NoStale`, the two reasons for which
`put` may refuse (`WindowOccupied`, `CannotMove`), and the reference semantics (`runAssoc`, an
association list) against which operation sequences are compared.
-/

namespace Cjet.Hoptable

section
variable {K V : Type} [DecidableEq K] [Inhabited V]

/-- bit `d` of `table[h].hop_info` is set -/
def Bit (t : Table K V) (h d : Nat) : Prop := (slot t h).hop.getLsbD d = true

/-- slot `p` is referenced by some bucket's bitmap -/
def Live (N : Nat) (t : Table K V) (p : Nat) : Prop :=
  ∃ h, h < N ∧ ∃ d, d < W ∧ Bit t h d ∧ (h + d) % N = p

/-- The abstraction: the table maps `k` to `v`. -/
def Maps (N : Nat) (t : Table K V) (k : K) (v : V) : Prop :=
  ∃ h, h < N ∧ ∃ d, d < W ∧ Bit t h d ∧
    (slot t ((h + d) % N)).key = some k ∧ (slot t ((h + d) % N)).val = v

/-- Well-formedness (DESIGN.md A.1): every set hop bit points, at a distance below the table
size, to a slot holding a key that hashes to that bucket; live keys are unique. -/
structure WF (N : Nat) (hash : K → Nat) (t : Table K V) : Prop where
  size : t.size = N
  bits : ∀ h, h < N → ∀ d, d < W → Bit t h d →
    d < N ∧ ∃ k, (slot t ((h + d) % N)).key = some k ∧ hash k = h
  unique : ∀ p q k, Live N t p → Live N t q →
    (slot t p).key = some k → (slot t q).key = some k → p = q

/-- No ghost slots: a slot whose key is not the empty pattern is referenced by a bitmap.
(Holds for the code with fix F25; false for the code before it.) -/
def NoStale (N : Nat) (t : Table K V) : Prop :=
  ∀ p, p < N → (slot t p).key ≠ none → Live N t p

/-- `WF` plus `NoStale`: the invariant of the fixed code. -/
structure WFS (N : Nat) (hash : K → Nat) (t : Table K V) : Prop extends WF N hash t where
  nostale : NoStale N t

/-- every slot of the probe window of bucket `h` holds a live entry -/
def WindowOccupied (N A : Nat) (t : Table K V) (h : Nat) : Prop :=
  ∀ d, d < A → Live N t ((h + d) % N)

/-- no entry of the `W - 1` buckets preceding `fp` can legally be moved into `fp`:
for each check distance `cd`, bucket `fp - cd` has no entry at a distance below `cd`. -/
def CannotMove (N : Nat) (t : Table K V) (fp : Nat) : Prop :=
  ∀ cd, 0 < cd → cd < W → ∀ i, i < cd → ¬ Bit t (subWrap N fp cd) i

/-- The displacement got stuck: in the (rearranged) table there is an empty slot `fp` of the probe
window, too far from the home bucket to be recorded in its bitmap, everything before it in the
window is live, and nothing can be moved into it. -/
def Stuck (N A : Nat) (t : Table K V) (h : Nat) : Prop :=
  ∃ fd, W ≤ fd ∧ fd < A ∧ (slot t ((h + fd) % N)).key = none ∧
    (∀ d, d < fd → Live N t ((h + d) % N)) ∧ CannotMove N t ((h + fd) % N)

/-! ## Operation sequences and the reference map -/

inductive Op (K V : Type)
  | put (k : K) (v : V)
  | get (k : K)
  | remove (k : K)

inductive Out (V : Type)
  | putOk (prev : V)
  | putFull
  | got (r : Option V)
  | removed (r : Option V)
  deriving DecidableEq

def Out.isFull {V : Type} : Out V → Bool
  | .putFull => true
  | _ => false

/-- one operation on the table -/
def stepTable (N A : Nat) (hash : K → Nat) (clr : Bool) (t : Table K V) : Op K V → Out V × Table K V
  | .put k v =>
    let r := put N A hash clr t k v
    match r.rc with
    | .ok => (.putOk r.prev, r.tab)
    | .full => (.putFull, r.tab)
  | .get k => (.got (get N hash t k), t)
  | .remove k => let r := remove N hash t k; (.removed r.1, r.2)

/-- outputs and final table of an operation sequence -/
def runTable (N A : Nat) (hash : K → Nat) (clr : Bool) : Table K V → List (Op K V) → List (Out V) × Table K V
  | t, [] => ([], t)
  | t, op :: ops =>
    let s := stepTable N A hash clr t op
    let r := runTable N A hash clr s.2 ops
    (s.1 :: r.1, r.2)

/-- association-list map: lookup returns the first binding -/
def amGet : List (K × V) → K → Option V
  | [], _ => none
  | (k', v) :: m, k => if k' = k then some v else amGet m k

def amPut (m : List (K × V)) (k : K) (v : V) : List (K × V) := (k, v) :: m

def amDel (m : List (K × V)) (k : K) : List (K × V) := m.filter (fun e => decide (e.1 ≠ k))

/-- The reference: an association-list map.  The only freedom is that a `put` of an **absent** key
may be refused (the `Bool` oracle says when the table refused); a refused put changes nothing.
A `put` of a present key can never be refused: the oracle is ignored. -/
def runAssoc : List (K × V) → List (Op K V) → List Bool → List (Out V)
  | _, [], _ => []
  | m, .put k v :: ops, fulls =>
    let refused := fulls.headD false
    if refused && (amGet m k).isNone then .putFull :: runAssoc m ops fulls.tail
    else .putOk ((amGet m k).getD default) :: runAssoc (amPut m k v) ops fulls.tail
  | m, .get k :: ops, fulls => .got (amGet m k) :: runAssoc m ops fulls.tail
  | m, .remove k :: ops, fulls => .removed (amGet m k) :: runAssoc (amDel m k) ops fulls.tail

/-- which outputs were refusals -/
def refusals (outs : List (Out V)) : List Bool := outs.map Out.isFull

end
end Cjet.Hoptable
