/-
  Cjet.Log — the index arithmetic of log_peer_err / log_peer_info (src/peer.c):

      written = snprintf(buffer, SIZE, "%s: ", name);       // returns the length it WOULD have written
      [clamp written into 0 .. SIZE-1]                        // present since the repair of F2
      ptr = &buffer[written];
      vsnprintf(ptr, SIZE - written, fmt, ...);               // writes at most SIZE - written bytes incl. NUL

  `snprintfRet` is C99's return value for the prefix: name length + 2.  A negative return is not
  produced for "%s: " with a valid string; the clamp's lower half is modelled by Nat.
-/
import Cjet.Generated.Log

namespace Cjet.Log

open Cjet.Generated.Log

def snprintfRet (nameLen : Nat) : Nat := nameLen + 2

/-- write position of the message part; `clamp = false` is the code before the repair -/
def writePos (clamp : Bool) (size nameLen : Nat) : Nat :=
  if clamp then min (snprintfRet nameLen) (size - 1) else snprintfRet nameLen

/-- the size argument handed to vsnprintf (`size_t`: a negative difference wraps; modelled as `none`) -/
def remaining (clamp : Bool) (size nameLen : Nat) : Option Nat :=
  let w := writePos clamp size nameLen
  if w ≤ size then some (size - w) else none

/-- the message part stays inside the buffer: position in range and position + size argument ≤ buffer size -/
def inBounds (clamp : Bool) (size nameLen : Nat) : Bool :=
  match remaining clamp size nameLen with
  | some r => decide (writePos clamp size nameLen < size ∧ writePos clamp size nameLen + r ≤ size)
  | none => false

end Cjet.Log
