/-
  Cjet.Cjson.Utf16 — utf16_literal_to_utf8 yields the UTF-8 encoding (RFC 3629 table) of the code point.
-/
import Cjet.Cjson.Bounds

namespace Cjet.Cjson

/-- UTF-8 encoding of a code point by the table of RFC 3629 §3, written with division and remainder -/
def utf8Spec (cp : Nat) : Bytes :=
  if cp < 0x80 then [UInt8.ofNat cp]
  else if cp < 0x800 then [UInt8.ofNat (0xC0 + cp / 64), UInt8.ofNat (0x80 + cp % 64)]
  else if cp < 0x10000 then
    [UInt8.ofNat (0xE0 + cp / 4096), UInt8.ofNat (0x80 + cp / 64 % 64), UInt8.ofNat (0x80 + cp % 64)]
  else
    [UInt8.ofNat (0xF0 + cp / 262144), UInt8.ofNat (0x80 + cp / 4096 % 64), UInt8.ofNat (0x80 + cp / 64 % 64),
     UInt8.ofNat (0x80 + cp % 64)]

theorem tail_byte (x : Nat) : (x ||| 0x80) &&& 0xBF = 0x80 + x % 64 := by
  have hfin : ∀ y, y < 256 → (y ||| 0x80) &&& 0xBF = 0x80 + y % 64 := by decide +kernel
  have hle : (x ||| 0x80) &&& 0xBF ≤ 0xBF := Nat.and_le_right
  have h1 : ((x ||| 0x80) &&& 0xBF) % 2 ^ 8 = (x ||| 0x80) % 2 ^ 8 &&& 0xBF % 2 ^ 8 := Nat.and_mod_two_pow
  have h2 : (x ||| 0x80) % 2 ^ 8 = x % 2 ^ 8 ||| 0x80 % 2 ^ 8 := Nat.or_mod_two_pow
  rw [h2] at h1
  have h3 : ((x ||| 0x80) &&& 0xBF) % 2 ^ 8 = (x ||| 0x80) &&& 0xBF := Nat.mod_eq_of_lt (by omega)
  rw [h3] at h1
  have h4 := hfin (x % 2 ^ 8) (Nat.mod_lt _ (by decide))
  have e1 : (0x80 : Nat) % 2 ^ 8 = 0x80 := by decide
  have e2 : (0xBF : Nat) % 2 ^ 8 = 0xBF := by decide
  rw [e1, e2] at h1
  rw [h1, h4]
  omega

theorem lead2 : ∀ y, y < 32 → (y ||| 0xC0) &&& 0xFF = 0xC0 + y := by decide +kernel
theorem lead3 : ∀ y, y < 16 → (y ||| 0xE0) &&& 0xFF = 0xE0 + y := by decide +kernel
theorem lead4 : ∀ y, y < 8 → (y ||| 0xF0) &&& 0xFF = 0xF0 + y := by decide +kernel
theorem ascii7 : ∀ y, y < 128 → y &&& 0x7F = y := by decide +kernel

/-- the bit-twiddling encoder of utf16_literal_to_utf8 computes the RFC 3629 encoding, and refuses
    exactly the values above U+10FFFF -/
theorem utf8Encode_eq (cp : Nat) :
    utf8Encode cp = if cp ≤ 0x10FFFF then some (utf8Spec cp) else none := by
  unfold utf8Encode utf8Spec
  by_cases h1 : cp < 0x80
  · rw [if_pos h1, if_pos (by omega), if_pos h1, ascii7 cp h1]
  · rw [if_neg h1]
    by_cases h2 : cp < 0x800
    · rw [if_pos h2, if_pos (by omega), if_neg h1, if_pos h2, tail_byte, Nat.shiftRight_eq_div_pow,
        lead2 _ (by simp only [show (2 : Nat) ^ 6 = 64 by decide]; omega)]
    · rw [if_neg h2]
      by_cases h3 : cp < 0x10000
      · rw [if_pos h3, if_pos (by omega), if_neg h1, if_neg h2, if_pos h3, tail_byte, tail_byte,
          Nat.shiftRight_eq_div_pow, Nat.shiftRight_eq_div_pow,
          lead3 _ (by simp only [show (2 : Nat) ^ 12 = 4096 by decide]; omega)]
      · rw [if_neg h3]
        by_cases h4 : cp ≤ 0x10FFFF
        · rw [if_pos h4, if_pos h4, if_neg h1, if_neg h2, if_neg h3, tail_byte, tail_byte, tail_byte,
            Nat.shiftRight_eq_div_pow, Nat.shiftRight_eq_div_pow, Nat.shiftRight_eq_div_pow,
            lead4 _ (by simp only [show (2 : Nat) ^ 18 = 262144 by decide]; omega)]
        · rw [if_neg h4, if_neg h4]

/-- the value of four hexadecimal digits -/
def hexValue4 (a1 a2 a3 a4 : Nat) : Nat := ((a1 * 16 + a2) * 16 + a3) * 16 + a4

theorem hex4_digits (p : Nat) {d1 d2 d3 d4 : UInt8} {a1 a2 a3 a4 : Nat} (rest : Bytes)
    (h1 : hexVal d1 = some a1) (h2 : hexVal d2 = some a2) (h3 : hexVal d3 = some a3) (h4 : hexVal d4 = some a4) :
    hex4 p (d1 :: d2 :: d3 :: d4 :: rest) = .val (hexValue4 a1 a2 a3 a4) := by
  simp only [hex4, hex4Loop, h1, h2, h3, h4, hexValue4]
  simp

/-- a non-hex digit anywhere makes parse_hex4 answer 0 (cJSON does not distinguish that from `0000`) -/
theorem hex4_invalid_first (p : Nat) {d1 : UInt8} (rest : Bytes) (h1 : hexVal d1 = none) :
    hex4 p (d1 :: rest) = .val 0 := by
  simp only [hex4, hex4Loop, h1]

/-- combining a surrogate pair: the C expression is the arithmetic of RFC 2781 §2.2 -/
theorem surrogate_combine {hi lo : Nat} (hh : 0xD800 ≤ hi ∧ hi ≤ 0xDBFF) (hl : 0xDC00 ≤ lo ∧ lo ≤ 0xDFFF) :
    0x10000 + (((hi &&& 0x3FF) <<< 10) ||| (lo &&& 0x3FF)) = 0x10000 + (hi - 0xD800) * 1024 + (lo - 0xDC00) := by
  have e1 : hi &&& 0x3FF = hi % 2 ^ 10 := Nat.and_two_pow_sub_one_eq_mod hi 10
  have e2 : lo &&& 0x3FF = lo % 2 ^ 10 := Nat.and_two_pow_sub_one_eq_mod lo 10
  rw [e1, e2]
  have hlt : lo % 2 ^ 10 < 2 ^ 10 := Nat.mod_lt _ (by decide)
  rw [← Nat.shiftLeft_add_eq_or_of_lt hlt, Nat.shiftLeft_eq]
  simp only [show (2 : Nat) ^ 10 = 1024 by decide]
  omega

/-- `\uXXXX` with a value outside the surrogate range: 6 bytes consumed, the UTF-8 encoding of the value stored -/
theorem utf16_bmp (p n : Nat) {d1 d2 d3 d4 : UInt8} {a1 a2 a3 a4 : Nat} (rest : Bytes) (hn : 6 ≤ n)
    (h1 : hexVal d1 = some a1) (h2 : hexVal d2 = some a2) (h3 : hexVal d3 = some a3) (h4 : hexVal d4 = some a4)
    (hv : ¬ (0xD800 ≤ hexValue4 a1 a2 a3 a4 ∧ hexValue4 a1 a2 a3 a4 ≤ 0xDFFF))
    (hlt : hexValue4 a1 a2 a3 a4 < 0x10000) :
    utf16 p n (0x5C :: 0x75 :: d1 :: d2 :: d3 :: d4 :: rest) = .ok (utf8Spec (hexValue4 a1 a2 a3 a4)) 6 := by
  unfold utf16
  rw [if_neg (by omega)]
  simp only [List.drop_succ_cons, List.drop_zero]
  rw [hex4_digits _ rest h1 h2 h3 h4]
  try dsimp only
  rw [if_neg (by omega), if_neg (by omega)]
  unfold encodeRes
  rw [utf8Encode_eq, if_pos (by omega)]

/-- a low surrogate first is refused -/
theorem utf16_lone_low (p n : Nat) {d1 d2 d3 d4 : UInt8} {a1 a2 a3 a4 : Nat} (rest : Bytes)
    (h1 : hexVal d1 = some a1) (h2 : hexVal d2 = some a2) (h3 : hexVal d3 = some a3) (h4 : hexVal d4 = some a4)
    (hv : 0xDC00 ≤ hexValue4 a1 a2 a3 a4 ∧ hexValue4 a1 a2 a3 a4 ≤ 0xDFFF) :
    utf16 p n (0x5C :: 0x75 :: d1 :: d2 :: d3 :: d4 :: rest) = .fail := by
  unfold utf16
  split
  · rfl
  · simp only [List.drop_succ_cons, List.drop_zero]
    rw [hex4_digits _ rest h1 h2 h3 h4]
    try dsimp only
    rw [if_pos hv]

set_option maxRecDepth 8192 in
/-- a surrogate pair: 12 bytes consumed, the UTF-8 encoding of the supplementary code point stored -/
theorem utf16_pair (p n : Nat) {d1 d2 d3 d4 e1 e2 e3 e4 : UInt8} {a1 a2 a3 a4 c1 c2 c3 c4 : Nat} (rest : Bytes)
    (hn : 12 ≤ n)
    (h1 : hexVal d1 = some a1) (h2 : hexVal d2 = some a2) (h3 : hexVal d3 = some a3) (h4 : hexVal d4 = some a4)
    (g1 : hexVal e1 = some c1) (g2 : hexVal e2 = some c2) (g3 : hexVal e3 = some c3) (g4 : hexVal e4 = some c4)
    (hh : 0xD800 ≤ hexValue4 a1 a2 a3 a4 ∧ hexValue4 a1 a2 a3 a4 ≤ 0xDBFF)
    (hl : 0xDC00 ≤ hexValue4 c1 c2 c3 c4 ∧ hexValue4 c1 c2 c3 c4 ≤ 0xDFFF) :
    utf16 p n (0x5C :: 0x75 :: d1 :: d2 :: d3 :: d4 :: 0x5C :: 0x75 :: e1 :: e2 :: e3 :: e4 :: rest) =
      .ok (utf8Spec (0x10000 + (hexValue4 a1 a2 a3 a4 - 0xD800) * 1024 + (hexValue4 c1 c2 c3 c4 - 0xDC00))) 12 := by
  unfold utf16
  rw [if_neg (by omega)]
  simp only [List.drop_succ_cons, List.drop_zero]
  rw [hex4_digits _ _ h1 h2 h3 h4]
  try dsimp only
  rw [if_neg (by omega), if_pos hh, if_neg (by omega)]
  try dsimp only
  rw [if_neg (by decide)]
  try dsimp only
  rw [if_neg (by decide), hex4_digits _ rest g1 g2 g3 g4]
  try dsimp only
  rw [if_neg (by omega), surrogate_combine hh hl]
  unfold encodeRes
  rw [utf8Encode_eq, if_pos (by omega)]

/-- a high surrogate that is not followed by `\u` + low surrogate is refused (whatever follows) -/
theorem utf16_lone_high (p n : Nat) {d1 d2 d3 d4 : UInt8} {a1 a2 a3 a4 : Nat} (rest : Bytes)
    (h1 : hexVal d1 = some a1) (h2 : hexVal d2 = some a2) (h3 : hexVal d3 = some a3) (h4 : hexVal d4 = some a4)
    (hh : 0xD800 ≤ hexValue4 a1 a2 a3 a4 ∧ hexValue4 a1 a2 a3 a4 ≤ 0xDBFF)
    (hrest : ∀ e1 e2 e3 e4 c1 c2 c3 c4 r', rest = 0x5C :: 0x75 :: e1 :: e2 :: e3 :: e4 :: r' →
      hexVal e1 = some c1 → hexVal e2 = some c2 → hexVal e3 = some c3 → hexVal e4 = some c4 →
      ¬ (0xDC00 ≤ hexValue4 c1 c2 c3 c4 ∧ hexValue4 c1 c2 c3 c4 ≤ 0xDFFF))
    (hlen : n < (0x5C :: 0x75 :: d1 :: d2 :: d3 :: d4 :: rest).length) :
    utf16 p n (0x5C :: 0x75 :: d1 :: d2 :: d3 :: d4 :: rest) = .fail := by
  unfold utf16
  split
  · rfl
  · simp only [List.drop_succ_cons, List.drop_zero]
    rw [hex4_digits _ rest h1 h2 h3 h4]
    try dsimp only
    rw [if_neg (by omega), if_pos hh]
    split
    · rfl
    · rename_i hn1 hn2
      simp only [List.length_cons] at hlen
      cases rest with
      | nil => simp only [List.length_nil] at hlen; omega
      | cons s0 r7 =>
        try dsimp only
        split
        · rfl
        · rename_i hs0
          have hs0' : s0 = 0x5C := Decidable.not_not.mp hs0
          subst hs0'
          cases r7 with
          | nil => simp only [List.length_cons, List.length_nil] at hlen; omega
          | cons s1 r8 =>
            try dsimp only
            split
            · rfl
            · rename_i hs1
              have hs1' : s1 = 0x75 := Decidable.not_not.mp hs1
              subst hs1'
              -- four more bytes exist (n ≥ 12 and the closing quote is inside the buffer)
              simp only [List.length_cons] at hlen
              match r8, hlen with
              | e1 :: e2 :: e3 :: e4 :: r', _ =>
                cases g1 : hexVal e1 with
                | none => simp only [hex4, hex4Loop, g1]; rfl
                | some c1 =>
                  cases g2 : hexVal e2 with
                  | none => simp only [hex4, hex4Loop, g1, g2]; rfl
                  | some c2 =>
                    cases g3 : hexVal e3 with
                    | none => simp only [hex4, hex4Loop, g1, g2, g3]; rfl
                    | some c3 =>
                      cases g4 : hexVal e4 with
                      | none => simp only [hex4, hex4Loop, g1, g2, g3, g4]; rfl
                      | some c4 =>
                        rw [hex4_digits _ r' g1 g2 g3 g4]
                        try dsimp only
                        have := hrest e1 e2 e3 e4 c1 c2 c3 c4 r' rfl g1 g2 g3 g4
                        rw [if_pos (by omega)]
              | [], h => simp only [List.length_nil] at h; omega
              | [_], h => simp only [List.length_cons, List.length_nil] at h; omega
              | [_, _], h => simp only [List.length_cons, List.length_nil] at h; omega
              | [_, _, _], h => simp only [List.length_cons, List.length_nil] at h; omega

end Cjet.Cjson
