/-
  Cjet.Cjson.Print — print_string_ptr and parse_string are inverse on C strings; printed length arithmetic.
-/
import Cjet.Cjson.Bounds

namespace Cjet.Cjson

/-! ### bytes -/

theorem forall_uint8 {P : UInt8 → Prop} (h : ∀ n : Fin 256, P (UInt8.ofNat n)) : ∀ b, P b := by
  intro b
  simpa using h ⟨b.toNat, b.toNat_lt⟩

theorem hexVal_hexLower : ∀ k, k < 16 → hexVal (hexLower k) = some k := by decide

theorem hexLower_plain : ∀ k, k < 16 → hexLower k ≠ 0x22 ∧ hexLower k ≠ 0x5C := by decide

theorem ofNat_and_7f : ∀ c : UInt8, c.toNat < 128 → UInt8.ofNat (c.toNat &&& 0x7F) = c := by
  apply forall_uint8
  decide +kernel

/-- the shape of what print_string_ptr stores for one non-NUL byte -/
theorem escByte_cases : ∀ c : UInt8, c ≠ 0 →
    (escByte c = [c] ∧ c ≠ 0x22 ∧ c ≠ 0x5C) ∨
    (escByte c = [0x5C, (escByte c).getD 1 0] ∧ simpleEsc ((escByte c).getD 1 0) = some c) ∨
    (escByte c = [0x5C, 0x75, 0x30, 0x30, hexLower (c.toNat / 16), hexLower (c.toNat % 16)] ∧ c.toNat < 32) := by
  apply forall_uint8
  decide +kernel

/-! ### first pass over a printed string -/

theorem scanEnd_plain {c : UInt8} (h1 : c ≠ 0x22) (h2 : c ≠ 0x5C) (rest : Bytes) :
    scanEnd (c :: rest) = (scanEnd rest).map (fun (n, s) => (n + 1, s)) := by
  rw [scanEnd.eq_def]
  dsimp only
  rw [if_neg h1, if_neg h2]
  cases scanEnd rest with
  | none => rfl
  | some v => cases v; rfl

theorem scanEnd_pair (x : UInt8) (rest : Bytes) :
    scanEnd (0x5C :: x :: rest) = (scanEnd rest).map (fun (n, s) => (n + 2, s + 1)) := by
  rw [scanEnd.eq_def]
  simp only [show (0x5C : UInt8) ≠ 0x22 by decide, if_false, if_true]
  cases scanEnd rest with
  | none => rfl
  | some v => cases v; rfl

theorem scanEnd_escByte {c : UInt8} (hc : c ≠ 0) (rest : Bytes) {n s : Nat} (h : scanEnd rest = some (n, s)) :
    ∃ s', scanEnd (escByte c ++ rest) = some (n + (escByte c).length, s') := by
  rcases escByte_cases c hc with ⟨he, h1, h2⟩ | ⟨he, _⟩ | ⟨he, hlt⟩
  · rw [he]
    simp only [List.cons_append, List.nil_append, scanEnd_plain h1 h2, h, Option.map_some, List.length_cons,
      List.length_nil]
    exact ⟨_, rfl⟩
  · rw [he]
    simp only [List.cons_append, List.nil_append, scanEnd_pair, h, Option.map_some, List.length_cons, List.length_nil]
    exact ⟨_, rfl⟩
  · rw [he]
    have ha := hexLower_plain (c.toNat / 16) (by omega)
    have hb := hexLower_plain (c.toNat % 16) (by omega)
    simp only [List.cons_append, List.nil_append, scanEnd_pair,
      scanEnd_plain (show (0x30 : UInt8) ≠ 0x22 by decide) (show (0x30 : UInt8) ≠ 0x5C by decide),
      scanEnd_plain ha.1 ha.2, scanEnd_plain hb.1 hb.2, h, Option.map_some, List.length_cons, List.length_nil]
    exact ⟨_, rfl⟩

theorem scanEnd_quote (post : Bytes) : scanEnd (0x22 :: post) = some (0, 0) := by
  rw [scanEnd.eq_def]; simp

theorem scanEnd_escBody : ∀ (s : Bytes), nulFree s → ∀ (post : Bytes),
    ∃ k, scanEnd (escBody s ++ 0x22 :: post) = some ((escBody s).length, k) := by
  intro s
  induction s with
  | nil => intro _ post; exact ⟨0, by simp [escBody, scanEnd_quote]⟩
  | cons c r ih =>
    intro hs post
    have hc : c ≠ 0 := hs c (by simp)
    obtain ⟨k, hk⟩ := ih (fun x hx => hs x (by simp [hx])) post
    obtain ⟨s', hs'⟩ := scanEnd_escByte hc _ hk
    refine ⟨s', ?_⟩
    simp only [escBody, List.append_assoc, List.length_append]
    rw [hs']
    congr 2
    omega

/-! ### second pass over a printed string -/

theorem hex4_printed (p a b : Nat) (ha : a < 16) (hb : b < 16) (rest : Bytes) :
    hex4 p (0x30 :: 0x30 :: hexLower a :: hexLower b :: rest) = .val (a * 16 + b) := by
  have h0 : hexVal 0x30 = some 0 := by decide
  simp only [hex4, hex4Loop, h0, hexVal_hexLower a ha, hexVal_hexLower b hb]
  simp

theorem unesc_succ (f p n : Nat) (rest : Bytes) :
    unesc (f + 1) p n rest =
      if n = 0 then .ok []
      else
        match rest with
        | [] => .oob p
        | c :: r1 =>
          if c ≠ 0x5C then (unesc f (p + 1) (n - 1) r1).push [c]
          else
            match r1 with
            | [] => .oob (p + 1)
            | c1 :: r2 =>
              match simpleEsc c1 with
              | some x => (unesc f (p + 2) (n - 2) r2).push [x]
              | none =>
                if c1 = 0x75 then
                  match utf16 p n rest with
                  | .ok bytes len => (unesc f (p + len) (n - len) (rest.drop len)).push bytes
                  | .fail => .fail [] p
                  | .oob i => .oob i
                else .fail [] p := by
  rw [unesc.eq_def]
  rfl

theorem unesc_escByte {c : UInt8} (hc : c ≠ 0) (f p m : Nat) (rest : Bytes) :
    unesc (f + 1) p ((escByte c).length + m) (escByte c ++ rest) =
      (unesc f (p + (escByte c).length) m rest).push [c] := by
  rcases escByte_cases c hc with ⟨he, h1, h2⟩ | ⟨he, hs⟩ | ⟨he, hlt⟩
  · have hl : (escByte c).length = 1 := by rw [he]; rfl
    rw [hl, he, unesc_succ, if_neg (by omega)]
    simp only [List.cons_append, List.nil_append]
    rw [if_pos h2, Nat.add_sub_cancel_left]
  · have hl : (escByte c).length = 2 := by rw [he]; rfl
    rw [hl, he, unesc_succ, if_neg (by omega)]
    simp only [List.cons_append, List.nil_append]
    rw [if_neg (by decide)]
    simp only [hs]
    rw [Nat.add_sub_cancel_left]
  · have hl : (escByte c).length = 6 := by rw [he]; rfl
    rw [hl, he, unesc_succ, if_neg (by omega)]
    simp only [List.cons_append, List.nil_append]
    rw [if_neg (by decide)]
    have hse : simpleEsc 0x75 = none := by decide
    simp only [hse, if_true]
    have hu : utf16 p (6 + m)
        (0x5C :: 0x75 :: 0x30 :: 0x30 :: hexLower (c.toNat / 16) :: hexLower (c.toNat % 16) :: rest) = .ok [c] 6 := by
      unfold utf16
      rw [if_neg (by omega)]
      simp only [List.drop_succ_cons, List.drop_zero]
      rw [hex4_printed _ _ _ (by omega) (by omega)]
      have e : c.toNat / 16 * 16 + c.toNat % 16 = c.toNat := by omega
      simp only [e]
      rw [if_neg (by omega), if_neg (by omega)]
      unfold encodeRes utf8Encode
      rw [if_pos (by omega), ofNat_and_7f c (by omega)]
    simp only [hu]
    simp only [List.drop_succ_cons, List.drop_zero]
    rw [Nat.add_sub_cancel_left]

theorem SRes.push_push (a b : Bytes) (r : SRes) : (r.push b).push a = r.push (a ++ b) := by
  cases r <;> simp [SRes.push]

theorem unesc_escBody : ∀ (s : Bytes), nulFree s → ∀ (f p m : Nat) (rest : Bytes),
    unesc (s.length + f) p ((escBody s).length + m) (escBody s ++ rest) =
      (unesc f (p + (escBody s).length) m rest).push s := by
  intro s
  induction s with
  | nil =>
    intro _ f p m rest
    simp only [escBody, List.length_nil, Nat.zero_add, List.nil_append, Nat.add_zero]
    cases unesc f p m rest <;> simp [SRes.push]
  | cons c r ih =>
    intro hs f p m rest
    have hc : c ≠ 0 := hs c (by simp)
    have hr : nulFree r := fun x hx => hs x (by simp [hx])
    simp only [escBody, List.length_cons, List.length_append, List.append_assoc]
    have e1 : r.length + 1 + f = (r.length + f) + 1 := by omega
    have e2 : (escByte c).length + (escBody r).length + m = (escByte c).length + ((escBody r).length + m) := by omega
    rw [e1, e2, unesc_escByte hc, ih hr, SRes.push_push]
    simp only [List.cons_append, List.nil_append]
    congr 2
    omega

theorem cstr_of_nulFree : ∀ (s : Bytes), nulFree s → cstr s = s := by
  intro s
  induction s with
  | nil => intro _; rfl
  | cons c r ih =>
    intro hs
    have hc : c ≠ 0 := hs c (by simp)
    simp only [cstr, if_neg hc]
    rw [ih (fun x hx => hs x (by simp [hx]))]

theorem cstr_nulFree : ∀ (s : Bytes), nulFree (cstr s) := by
  intro s
  induction s with
  | nil => intro c hc; simp [cstr] at hc
  | cons c r ih =>
    intro x hx
    simp only [cstr] at hx
    split at hx
    · simp at hx
    · rename_i hc
      simp only [List.mem_cons] at hx
      rcases hx with rfl | hx
      · exact hc
      · exact ih x hx

/-- parse_string on the text print_string_ptr produced, anywhere in a buffer: the string comes back and the
    offset is right behind the closing quote -/
theorem parseString_printString {inp : Bytes} {b : PB} {s post : Bytes} (hs : nulFree s)
    (hd : inp.drop b.off = printString s ++ post) :
    ∃ a, parseString inp b = .ok ⟨s, a⟩ { b with off := b.off + (printString s).length } := by
  unfold parseString
  rw [hd]
  simp only [printString, List.cons_append, List.append_assoc, List.nil_append]
  rw [if_neg (by simp)]
  obtain ⟨k, hk⟩ := scanEnd_escBody s hs post
  rw [hk]
  dsimp only
  have hle : s.length ≤ (escBody s).length := by
    clear hk hd
    induction s with
    | nil => simp
    | cons c r ih =>
      have hc : c ≠ 0 := hs c (by simp)
      have := ih (fun x hx => hs x (by simp [hx]))
      simp only [escBody, List.length_cons, List.length_append]
      rcases escByte_cases c hc with ⟨he, _⟩ | ⟨he, _⟩ | ⟨he, _⟩ <;> rw [he] <;> simp only [List.length_cons, List.length_nil] <;> omega
  obtain ⟨f, hf⟩ : ∃ f, (escBody s).length + 1 = s.length + (f + 1) := ⟨(escBody s).length - s.length, by omega⟩
  have := unesc_escBody s hs (f + 1) (b.off + 1) 0 (0x22 :: post)
  rw [hf]
  simp only [Nat.add_zero] at this
  rw [this]
  unfold unesc
  simp only [if_true, SRes.push, List.append_nil]
  refine ⟨s.length + (f + 1) - k, ?_⟩
  have e : b.off + 1 + (escBody s).length + 1 = b.off + (0x22 :: (escBody s ++ [0x22])).length := by
    simp only [List.length_cons, List.length_append, List.length_nil]; omega
  rw [e]

/-! ### print_string_ptr's length computation -/

theorem escByte_length (c : UInt8) : (escByte c).length = 1 + escExtra c := by
  revert c
  apply forall_uint8
  decide +kernel

/-- `output_length = strlen(input) + escape_characters` is exactly what the second loop stores between the quotes -/
theorem escBody_length (s : Bytes) : (escBody s).length = s.length + escapeChars s := by
  induction s with
  | nil => rfl
  | cons c r ih =>
    simp only [escBody, escapeChars, List.length_append, List.length_cons, escByte_length, ih]
    omega

end Cjet.Cjson
