/-
  Cjet.Cjson.TreeOps — the tree layer of /repo/src/json/cJSON.c that the daemon calls on every routed
  request, fetch notification and stored state value:

    cJSON_Duplicate(item, recurse)        (element.c, fetch.c, router.c: every value that is kept or forwarded)
    cJSON_Delete                          (what a failed Duplicate releases)
    cJSON_GetObjectItem / …CaseSensitive  (parse.c and every handler: how a member of a message is found)
    cJSON_GetArraySize / cJSON_GetArrayItem

  Items are modelled as they lie in memory (type bits `cJSON_IsReference` / `cJSON_StringIsConst` kept apart
  from the kind), allocation is an explicit ledger: `A.next` counts the calls of the allocation hook,
  `A.live` the blocks handed out and not given back, and an arbitrary schedule `s : Nat → Bool` says which
  calls fail (`s n = true`: call number n returns NULL).  No Mathlib.
-/
import Cjet.Basic

namespace Cjet.Cjson.TreeOps
open Cjet

/-- a cJSON item: `kind` = type & 0xFF, the two flag bits, the three value fields, the member name, the child chain -/
inductive Item where
  | mk (kind : Nat) (isRef constName : Bool) (vint : Int) (vdbl : Nat) (vstr name : Option Bytes) (kids : List Item)
  deriving Repr, Inhabited

/-- allocation ledger -/
structure A where
  next : Nat
  live : Nat
  deriving Repr, DecidableEq, Inhabited

def b2n (b : Bool) : Nat := if b then 1 else 0

/-- one optional allocation: `(succeeded, ledger)` -/
def optAlloc (s : Nat → Bool) (need : Bool) (a : A) : Bool × A :=
  if need then
    if s a.next then (false, ⟨a.next + 1, a.live⟩) else (true, ⟨a.next + 1, a.live + 1⟩)
  else (true, a)

mutual
/-- blocks `cJSON_Delete(item)` gives back: the node; the child chain and the value string unless the item
    is a reference; the name unless it is constant -/
def delFrees : Item → Nat
  | .mk _ r c _ _ vs nm kids =>
    1 + (if r then 0 else delFreesL kids + b2n vs.isSome) + (if c then 0 else b2n nm.isSome)
def delFreesL : List Item → Nat
  | [] => 0
  | k :: ks => delFrees k + delFreesL ks
end

mutual
/-- allocation requests of a complete deep copy, = blocks it holds -/
def allocs : Item → Nat
  | .mk _ _ c _ _ vs nm kids => 1 + b2n vs.isSome + b2n (nm.isSome && !c) + allocsL kids
def allocsL : List Item → Nat
  | [] => 0
  | k :: ks => allocs k + allocsL ks
end

mutual
/-- the item with `cJSON_IsReference` cleared everywhere: what a deep copy is expected to be -/
def norm : Item → Item
  | .mk k _ c vi vd vs nm kids => .mk k false c vi vd vs nm (normL kids)
def normL : List Item → List Item
  | [] => []
  | k :: ks => norm k :: normL ks
end

mutual
/-- `cJSON_Duplicate(item, true)`, statement for statement.  On any failure `goto fail` → `cJSON_Delete(newitem)`
    releases what the new item holds so far (children that were already linked included). -/
def dup (s : Nat → Bool) : Item → A → Option Item × A
  | .mk k _ c vi vd vs nm kids, a =>
    match optAlloc s true a with
    | (false, a1) => (none, a1)
    | (true, a1) =>
      match optAlloc s vs.isSome a1 with
      | (false, a2) => (none, ⟨a2.next, a2.live - 1⟩)
      | (true, a2) =>
        match optAlloc s (nm.isSome && !c) a2 with
        | (false, a3) => (none, ⟨a3.next, a3.live - (1 + b2n vs.isSome)⟩)
        | (true, a3) =>
          match dupL s kids a3 with
          | (none, a4) => (none, ⟨a4.next, a4.live - (1 + b2n vs.isSome + b2n (nm.isSome && !c))⟩)
          | (some ks, a4) => (some (.mk k false c vi vd vs nm ks), a4)
/-- the `while (child != NULL)` loop: the copies made so far hang on `newitem->child`, so the `cJSON_Delete`
    at `fail:` releases them with it (accounted here, where their sizes are known) -/
def dupL (s : Nat → Bool) : List Item → A → Option (List Item) × A
  | [], a => (some [], a)
  | k :: ks, a =>
    match dup s k a with
    | (none, a1) => (none, a1)
    | (some c, a1) =>
      match dupL s ks a1 with
      | (none, a2) => (none, ⟨a2.next, a2.live - delFrees c⟩)
      | (some cs, a2) => (some (c :: cs), a2)
end

/-- `cJSON_Duplicate(item, false)`: node, value string and name only -/
def dupFlat (s : Nat → Bool) : Item → A → Option Item × A
  | .mk k _ c vi vd vs nm _, a =>
    match optAlloc s true a with
    | (false, a1) => (none, a1)
    | (true, a1) =>
      match optAlloc s vs.isSome a1 with
      | (false, a2) => (none, ⟨a2.next, a2.live - 1⟩)
      | (true, a2) =>
        match optAlloc s (nm.isSome && !c) a2 with
        | (false, a3) => (none, ⟨a3.next, a3.live - (1 + b2n vs.isSome)⟩)
        | (true, a3) => (some (.mk k false c vi vd vs nm []), a3)

/-! ### member lookup -/

def Item.name : Item → Option Bytes
  | .mk _ _ _ _ _ _ nm _ => nm

/-- `tolower` in the C locale -/
def lower (c : UInt8) : UInt8 := if 0x41 ≤ c ∧ c ≤ 0x5A then c + 32 else c

/-- `case_insensitive_strcmp(a, b) == 0` for C strings -/
def ciEq (a b : Bytes) : Bool := a.map lower == b.map lower

/-- does the loop of `get_object_item` stop at this child with a hit? -/
def hit (cs : Bool) (key : Bytes) (nm : Option Bytes) : Bool :=
  match nm with
  | none => false
  | some n => if cs then n == key else ciEq key n

/-- `get_object_item(object, key, cs)` as an index into the child chain.  The case-sensitive loop ENDS at a
    child without a name (`current_element->string != NULL` is part of its condition); the case-insensitive
    loop steps over it (`case_insensitive_strcmp` answers 1 for NULL). -/
def getItem (cs : Bool) (key : Bytes) : List Item → Option Nat
  | [] => none
  | k :: ks =>
    if hit cs key k.name then some 0
    else if cs && k.name.isNone then none
    else (getItem cs key ks).map (· + 1)

/-- `cJSON_GetArrayItem(array, index)`: NULL for a negative index or one behind the end -/
def getArrayItem (kids : List Item) (idx : Int) : Option Nat :=
  if idx < 0 then none else if idx.toNat < kids.length then some idx.toNat else none

/-! ### attaching a member -/

def Item.kids : Item → List Item
  | .mk _ _ _ _ _ _ _ ks => ks

/-- outcome of `add_item_to_object`: the object afterwards, and the item when it is NOT attached — the
    caller still owns it then and has to `cJSON_Delete` it (every cjet caller that ignores the result leaks it:
    known finding F60) -/
structure AddRes where
  ok : Bool
  obj : Item
  orphan : Option Item
  a : A
  deriving Repr, Inhabited

/-- `add_item_to_object(object, key, item, hooks, constant_key)` for `object ≠ item`, both non-NULL: the key is
    copied unless constant (the only allocation; on failure NOTHING has been changed), the item's previous
    name is released unless that was constant, the item goes to the end of the chain -/
def addToObject (s : Nat → Bool) (constKey : Bool) (key : Bytes) : Item → Item → A → AddRes
  | .mk ok orf oc ovi ovd ovs onm okids, .mk k r c vi vd vs nm kids, a =>
    match optAlloc s (!constKey) a with
    | (false, a1) => ⟨false, .mk ok orf oc ovi ovd ovs onm okids, some (.mk k r c vi vd vs nm kids), a1⟩
    | (true, a1) =>
      let freed := b2n (!c && nm.isSome)
      ⟨true, .mk ok orf oc ovi ovd ovs onm (okids ++ [.mk k r constKey vi vd vs (some key) kids]), none,
       ⟨a1.next, a1.live - freed⟩⟩

/-! ### replacing a member -/

def Item.withKids : Item → List Item → Item
  | .mk k r c vi vd vs nm _, ks => .mk k r c vi vd vs nm ks

/-- `replace_item_in_object(object, key, replacement, cs)`: the replacement's previous name is released unless
    constant, the key is copied, the first member that answers to the key is replaced IN PLACE and deleted.
    `checked = false` is cJSON 1.7.13 as shipped: the result of the key copy is not inspected, so after a failed
    copy the replacement goes in WITHOUT a name.  `checked = true` is the code as repaired: the call fails, nothing
    in the object changes and the replacement stays with the caller. -/
def replaceInObject (s : Nat → Bool) (checked cs : Bool) (key : Bytes) (obj : Item) : Item → A → AddRes
  | .mk k r c vi vd vs nm kids, a =>
    let a0 : A := ⟨a.next, a.live - b2n (!c && nm.isSome)⟩
    match optAlloc s true a0 with
    | (okc, a1) =>
      let rep : Item := .mk k r false vi vd vs (if okc then some key else none) kids
      if checked && !okc then ⟨false, obj, some (.mk k r c vi vd vs none kids), a1⟩   -- returns before the constant bit is cleared
      else
        match getItem cs key obj.kids with
        | none => ⟨false, obj, some rep, a1⟩
        | some j =>
          match obj.kids[j]? with
          | none => ⟨false, obj, some rep, a1⟩
          | some old => ⟨true, obj.withKids (obj.kids.set j rep), none, ⟨a1.next, a1.live - delFrees old⟩⟩

/-! ### constructors -/

/-- `cJSON_CreateString(str)`: the node, then the copy of the text; when the copy fails the node is deleted -/
def createString (s : Nat → Bool) (str : Bytes) (a : A) : Option Item × A :=
  match optAlloc s true a with
  | (false, a1) => (none, a1)
  | (true, a1) =>
    match optAlloc s true a1 with
    | (false, a2) => (none, ⟨a2.next, a2.live - 1⟩)
    | (true, a2) => (some (.mk 16 false false 0 0 (some str) none []), a2)

end Cjet.Cjson.TreeOps
