/-
  Cjet.Cjson.Bounds — index arithmetic of the parser model: every unguarded read is inside the buffer,
  offsets only move forward, the depth counter is restored, the fuels suffice.
-/
import Cjet.Cjson

namespace Cjet.Cjson

open Cjet.Generated.Cjson (nestingLimit numberBufSize objCommaGuard)

/-! ### literals -/

theorem cmpLit_oob {lit : Bytes} : ∀ {o : Nat} {rest : Bytes} {i : Nat},
    cmpLit o rest lit = .oob i → rest.length < lit.length := by
  induction lit with
  | nil => intro o rest i h; simp [cmpLit] at h
  | cons c cs ih =>
    intro o rest i h
    cases rest with
    | nil => simp
    | cons x r =>
      simp only [cmpLit] at h
      split at h
      · have := ih h
        simp only [List.length_cons]
        omega
      · cases h

theorem isLit_not_oob (inp : Bytes) (b : PB) (lit : Bytes) (i : Nat) : isLit inp b lit ≠ .oob i := by
  intro h
  unfold isLit at h
  split at h
  · have := cmpLit_oob h
    simp only [List.length_drop] at this
    omega
  · cases h

/-! ### white space -/

theorem wsCount_le (l : Bytes) : wsCount l ≤ l.length := by
  induction l with
  | nil => simp [wsCount]
  | cons c r ih =>
    simp only [wsCount]
    split <;> simp only [List.length_cons] <;> omega

@[simp] theorem skipWs_depth (inp : Bytes) (b : PB) : (skipWs inp b).depth = b.depth := by
  unfold skipWs
  split <;> rfl

theorem skipWs_off_ge (inp : Bytes) (b : PB) : b.off ≤ (skipWs inp b).off := by
  unfold skipWs
  split
  · dsimp only
    split <;> omega
  · exact Nat.le_refl _

theorem skipWs_off_lt {inp : Bytes} {b : PB} (h : b.off < inp.length) : (skipWs inp b).off < inp.length := by
  unfold skipWs
  rw [if_pos h]
  dsimp only
  have := wsCount_le (inp.drop b.off)
  simp only [List.length_drop] at this
  split <;> omega

theorem skipWs_of_ge {inp : Bytes} {b : PB} (h : inp.length ≤ b.off) : skipWs inp b = b := by
  unfold skipWs
  rw [if_neg (by omega)]

theorem skipWs_off_le {inp : Bytes} {b : PB} (h : b.off ≤ inp.length) : (skipWs inp b).off ≤ inp.length := by
  by_cases h' : b.off < inp.length
  · exact Nat.le_of_lt (skipWs_off_lt h')
  · rw [skipWs_of_ge (by omega)]; exact h

theorem skipBom_not_oob (inp : Bytes) (b : PB) (i : Nat) : skipBom inp b ≠ .oob i := by
  intro h
  unfold skipBom at h
  split at h
  · split at h
    · cases h
    · cases h
    · rename_i hc
      have := cmpLit_oob hc
      simp only [List.length_drop, bom, List.length_cons, List.length_nil] at this
      omega
  · cases h

/-! ### parse_hex4 / utf16_literal_to_utf8 -/

theorem hex4Loop_oob : ∀ (k p h : Nat) (rest : Bytes) (i : Nat),
    hex4Loop p k h rest = .oob i → rest.length < k := by
  intro k
  induction k with
  | zero => intro p h rest i hh; simp [hex4Loop] at hh
  | succ k ih =>
    intro p h rest i hh
    cases rest with
    | nil => simp
    | cons c r =>
      simp only [hex4Loop] at hh
      split at hh
      · cases hh
      · have := ih _ _ _ _ hh
        simp only [List.length_cons]
        omega

theorem encodeRes_not_oob (cp len i : Nat) : encodeRes cp len ≠ .oob i := by
  unfold encodeRes
  split <;> simp

theorem utf8Encode_length {cp : Nat} {bs : Bytes} (h : utf8Encode cp = some bs) :
    1 ≤ bs.length ∧ bs.length ≤ 4 ∧ (cp < 0x10000 → bs.length ≤ 3) := by
  unfold utf8Encode at h
  split at h
  · cases h; simp
  · split at h
    · cases h; simp
    · split at h
      · cases h; simp
      · split at h
        · cases h; simp; omega
        · cases h

theorem encodeRes_ok {cp len : Nat} {bs : Bytes} {l : Nat} (h : encodeRes cp len = .ok bs l) :
    l = len ∧ 1 ≤ bs.length ∧ bs.length ≤ 4 ∧ (cp < 0x10000 → bs.length ≤ 3) := by
  unfold encodeRes at h
  split at h
  · rename_i bs' he
    cases h
    exact ⟨rfl, utf8Encode_length he⟩
  · cases h

theorem hex4Loop_lt : ∀ (k p h : Nat) (rest : Bytes) (v : Nat),
    hex4Loop p k h rest = .val v → (k = 0 → v = h) ∧ (0 < k → v < (h + 16) * 16 ^ (k - 1)) := by
  intro k
  induction k with
  | zero => intro p h rest v hh; simp [hex4Loop] at hh; simp [hh]
  | succ k ih =>
    intro p h rest v hh
    refine ⟨by omega, fun _ => ?_⟩
    cases rest with
    | nil => simp [hex4Loop] at hh
    | cons c r =>
      simp only [hex4Loop] at hh
      split at hh
      · cases hh
        have : 0 < 16 ^ (k + 1 - 1) := Nat.pow_pos (by omega)
        have : h + 16 ≥ 1 := by omega
        exact Nat.mul_pos (by omega) (by assumption)
      · rename_i d hd
        have hd16 : d < 16 := by
          unfold hexVal at hd
          have := c.toNat_lt
          split at hd
          · rename_i hc; cases hd
            have h1 : c.toNat ≤ 0x39 := by simpa using UInt8.le_iff_toNat_le.mp hc.2
            omega
          · split at hd
            · rename_i hc; cases hd
              have h1 : c.toNat ≤ 0x46 := by simpa using UInt8.le_iff_toNat_le.mp hc.2
              have h2 : 0x41 ≤ c.toNat := by simpa using UInt8.le_iff_toNat_le.mp hc.1
              omega
            · split at hd
              · rename_i hc; cases hd
                have h1 : c.toNat ≤ 0x66 := by simpa using UInt8.le_iff_toNat_le.mp hc.2
                have h2 : 0x61 ≤ c.toNat := by simpa using UInt8.le_iff_toNat_le.mp hc.1
                omega
              · cases hd
        have := ih _ _ _ _ hh
        cases k with
        | zero =>
          have := this.1 rfl
          simp at this ⊢
          omega
        | succ k =>
          have := this.2 (by omega)
          simp only [Nat.add_one_ne_zero, if_false, Nat.add_sub_cancel] at this ⊢
          calc v < ((h + d) * 16 + 16) * 16 ^ k := this
            _ ≤ ((h + 16) * 16) * 16 ^ k := Nat.mul_le_mul_right _ (by omega)
            _ = (h + 16) * 16 ^ (k + 1) := by rw [Nat.pow_succ, Nat.mul_assoc, Nat.mul_comm 16]

theorem hex4_lt {p : Nat} {rest : Bytes} {v : Nat} (h : hex4 p rest = .val v) : v < 0x10000 := by
  have := (hex4Loop_lt 4 p 0 rest v h).2 (by omega)
  simpa using this

theorem utf16_oob {p n : Nat} {rest : Bytes} {i : Nat} (h : utf16 p n rest = .oob i) : rest.length ≤ n := by
  unfold utf16 at h
  split at h
  · cases h
  · rename_i hn
    split at h
    · rename_i j hh
      have := hex4Loop_oob _ _ _ _ _ hh
      simp only [List.length_drop] at this
      omega
    · split at h
      · cases h
      · split at h
        · split at h
          · cases h
          · rename_i hn2
            split at h
            · rename_i hd
              have := congrArg List.length hd
              simp only [List.length_drop, List.length_nil] at this
              omega
            · rename_i s0 r7 hd
              have hl := congrArg List.length hd
              simp only [List.length_drop, List.length_cons] at hl
              split at h
              · cases h
              · cases r7 with
                | nil =>
                  simp only [List.length_nil] at hl
                  omega
                | cons s1 r8 =>
                  dsimp only at h
                  split at h
                  · cases h
                  · split at h
                    · rename_i j hh
                      have := hex4Loop_oob _ _ _ _ _ hh
                      simp only [List.length_cons] at hl
                      omega
                    · split at h
                      · cases h
                      · exact absurd h (encodeRes_not_oob _ _ _)
        · exact absurd h (encodeRes_not_oob _ _ _)

/-- a successful conversion consumed 6 bytes and stored at most 3, or 12 and at most 4; never more than `n` -/
theorem utf16_ok {p n : Nat} {rest bs : Bytes} {len : Nat} (h : utf16 p n rest = .ok bs len) :
    ((len = 6 ∧ bs.length ≤ 3) ∨ (len = 12 ∧ bs.length ≤ 4)) ∧ len ≤ n ∧ 1 ≤ bs.length := by
  unfold utf16 at h
  split at h
  · cases h
  · rename_i hn
    split at h
    · cases h
    · rename_i first hf
      have hflt := hex4_lt hf
      split at h
      · cases h
      · split at h
        · split at h
          · cases h
          · rename_i hn2
            split at h
            · cases h
            · split at h
              · cases h
              · split at h
                · cases h
                · split at h
                  · cases h
                  · split at h
                    · cases h
                    · split at h
                      · cases h
                      · have := encodeRes_ok h
                        refine ⟨Or.inr ⟨this.1, this.2.2.1⟩, by omega, this.2.1⟩
        · have := encodeRes_ok h
          refine ⟨Or.inl ⟨this.1, this.2.2.2 hflt⟩, by omega, this.2.1⟩

/-! ### parse_string -/

theorem SRes.push_oob {pre : Bytes} {r : SRes} {i : Nat} : r.push pre = .oob i ↔ r = .oob i := by
  cases r <;> simp [SRes.push]

theorem SRes.push_nofuel {pre : Bytes} {r : SRes} : r.push pre = .nofuel ↔ r = .nofuel := by
  cases r <;> simp [SRes.push]

/-- the second pass stays inside the buffer as long as the closing quote (offset `p + n`) is inside -/
theorem unesc_not_oob : ∀ (fuel p n : Nat) (rest : Bytes) (i : Nat),
    (n = 0 ∨ n < rest.length) → unesc fuel p n rest ≠ .oob i := by
  intro fuel
  induction fuel with
  | zero => intro p n rest i _ h; simp [unesc] at h
  | succ f ih =>
    intro p n rest i hn h
    unfold unesc at h
    split at h
    · cases h
    · rename_i hn0
      have hlt : n < rest.length := by omega
      cases rest with
      | nil => simp at hlt
      | cons c r1 =>
        simp only [List.length_cons] at hlt
        dsimp only at h
        split at h
        · rw [SRes.push_oob] at h
          exact ih _ _ _ _ (by omega) h
        · cases r1 with
          | nil =>
            -- n < 1 contradicts n ≠ 0
            simp only [List.length_nil] at hlt
            omega
          | cons c1 r2 =>
            simp only [List.length_cons] at hlt
            dsimp only at h
            split at h
            · rw [SRes.push_oob] at h
              exact ih _ _ _ _ (by omega) h
            · split at h
              · split at h
                · rename_i bs len hu
                  rw [SRes.push_oob] at h
                  have := utf16_ok hu
                  refine ih _ _ _ _ ?_ h
                  simp only [List.length_drop, List.length_cons]
                  omega
                · cases h
                · rename_i j hu
                  have := utf16_oob hu
                  simp only [List.length_cons] at this
                  omega
              · cases h

theorem unesc_not_nofuel : ∀ (fuel p n : Nat) (rest : Bytes), n < fuel → unesc fuel p n rest ≠ .nofuel := by
  intro fuel
  induction fuel with
  | zero => intro p n rest h; omega
  | succ f ih =>
    intro p n rest hn h
    unfold unesc at h
    split at h
    · cases h
    · rename_i hn0
      cases rest with
      | nil => cases h
      | cons c r1 =>
        dsimp only at h
        split at h
        · rw [SRes.push_nofuel] at h
          exact ih _ _ _ (by omega) h
        · cases r1 with
          | nil => cases h
          | cons c1 r2 =>
            dsimp only at h
            split at h
            · rw [SRes.push_nofuel] at h
              exact ih _ _ _ (by omega) h
            · split at h
              · split at h
                · rename_i bs len hu
                  rw [SRes.push_nofuel] at h
                  have := utf16_ok hu
                  exact ih _ _ _ (by omega) h
                · cases h
                · cases h
              · cases h

/-- the first pass finds the closing quote inside the buffer, and skipped at most half of the bytes -/
theorem scanEnd_some : ∀ (body : Bytes) (n s : Nat), scanEnd body = some (n, s) →
    n < body.length ∧ body[n]? = some 0x22 ∧ 2 * s ≤ n := by
  intro body
  induction body using List.rec with
  | nil => intro n s h; simp [scanEnd] at h
  | cons c r ih =>
    -- two-step induction: strengthen over the tail of the tail
    intro n s h
    exact (go (c :: r) (c :: r).length (Nat.le_refl _) n s h)
where
  go : ∀ (body : Bytes) (k : Nat), body.length ≤ k → ∀ n s, scanEnd body = some (n, s) →
      n < body.length ∧ body[n]? = some 0x22 ∧ 2 * s ≤ n := by
    intro body k
    induction k generalizing body with
    | zero =>
      intro hk n s h
      cases body with
      | nil => simp [scanEnd] at h
      | cons _ _ => simp at hk
    | succ k ih =>
      intro hk n s h
      cases body with
      | nil => simp [scanEnd] at h
      | cons c r =>
        unfold scanEnd at h
        split at h
        · rename_i hc
          cases h
          simp [hc]
        · split at h
          · cases r with
            | nil => cases h
            | cons c1 r2 =>
              dsimp only at h
              split at h
              · rename_i n' s' he
                have := ih r2 (by simp only [List.length_cons] at hk; omega) n' s' he
                simp only [Option.some.injEq, Prod.mk.injEq] at h
                obtain ⟨rfl, rfl⟩ := h
                simp only [List.length_cons]
                refine ⟨by omega, ?_, by omega⟩
                simpa using this.2.1
              · cases h
          · split at h
            · rename_i n' s' he
              have := ih r (by simp only [List.length_cons] at hk; omega) n' s' he
              simp only [Option.some.injEq, Prod.mk.injEq] at h
              obtain ⟨rfl, rfl⟩ := h
              simp only [List.length_cons]
              refine ⟨by omega, ?_, by omega⟩
              simpa using this.2.1
            · cases h

theorem parseString_oob {inp : Bytes} {b : PB} {i : Nat} (h : parseString inp b = .oob i) :
    inp.length ≤ b.off := by
  unfold parseString at h
  split at h
  · rename_i hd
    have := congrArg List.length hd
    simp only [List.length_drop, List.length_nil] at this
    omega
  · split at h
    · cases h
    · split at h
      · cases h
      · rename_i n s hs
        have hse := scanEnd_some _ _ _ hs
        split at h
        · cases h
        · cases h
        · rename_i hu
          exact absurd hu (unesc_not_oob _ _ _ _ _ (Or.inr hse.1))
        · cases h

theorem parseString_not_nofuel (inp : Bytes) (b : PB) : parseString inp b ≠ .nofuel := by
  intro h
  unfold parseString at h
  split at h
  · cases h
  · split at h
    · cases h
    · split at h
      · cases h
      · split at h
        · cases h
        · cases h
        · cases h
        · rename_i hu
          exact absurd hu (unesc_not_nofuel _ _ _ _ (by omega))

/-- a successful parse_string leaves the offset behind the closing quote, inside the buffer -/
theorem parseString_ok {inp : Bytes} {b : PB} {s : StrOut} {b' : PB} (h : parseString inp b = .ok s b') :
    b.off + 2 ≤ b'.off ∧ b'.off ≤ inp.length ∧ b'.depth = b.depth := by
  unfold parseString at h
  split at h
  · cases h
  · rename_i q body hd
    split at h
    · cases h
    · split at h
      · cases h
      · rename_i n sk hs
        have hse := scanEnd_some _ _ _ hs
        have hl := congrArg List.length hd
        simp only [List.length_drop, List.length_cons] at hl
        split at h
        · cases h
          dsimp only
          omega
        · cases h
        · cases h
        · cases h

/-! ### Res.map -/

theorem Res.map_oob {α β : Type} {f : α → β} {r : Res α} {i : Nat} : r.map f = .oob i ↔ r = .oob i := by
  cases r <;> simp [Res.map]

theorem Res.map_nofuel {α β : Type} {f : α → β} {r : Res α} : r.map f = .nofuel ↔ r = .nofuel := by
  cases r <;> simp [Res.map]

theorem Res.map_ok {α β : Type} {f : α → β} {r : Res α} {y : β} {b : PB} :
    r.map f = .ok y b ↔ ∃ x, r = .ok x b ∧ y = f x := by
  cases r with
  | ok a b' =>
    simp only [Res.map, Res.ok.injEq]
    constructor
    · rintro ⟨rfl, rfl⟩; exact ⟨a, ⟨rfl, rfl⟩, rfl⟩
    · rintro ⟨x, ⟨rfl, rfl⟩, rfl⟩; exact ⟨rfl, rfl⟩
  | fail _ => simp [Res.map]
  | oob _ => simp [Res.map]
  | nofuel => simp [Res.map]

theorem Res.map_fail {α β : Type} {f : α → β} {r : Res α} {b : PB} : r.map f = .fail b ↔ r = .fail b := by
  cases r <;> simp [Res.map]

/-! ### parse_number -/

theorem digitsLen_le (l : Bytes) : digitsLen l ≤ l.length := by
  induction l with
  | nil => simp [digitsLen]
  | cons c r ih =>
    simp only [digitsLen]
    split <;> simp only [List.length_cons] <;> omega

theorem signLen_le (l : Bytes) : signLen l ≤ l.length := by
  cases l with
  | nil => simp [signLen]
  | cons c r =>
    simp only [signLen]
    split <;> simp only [List.length_cons] <;> omega

theorem signLen_le_one (l : Bytes) : signLen l ≤ 1 := by
  cases l with
  | nil => simp [signLen]
  | cons c r =>
    simp only [signLen]
    split <;> omega

theorem mantLen_le (l : Bytes) : (mantLen l).1 ≤ l.length := by
  unfold mantLen
  have h1 := digitsLen_le l
  dsimp only
  split
  · rename_i c r hd
    have hl := congrArg List.length hd
    simp only [List.length_drop, List.length_cons] at hl
    have := digitsLen_le r
    split <;> dsimp only <;> omega
  · exact h1

theorem expLen_le (l : Bytes) : expLen l ≤ l.length := by
  cases l with
  | nil => simp [expLen]
  | cons c r =>
    simp only [expLen]
    split
    · have h1 := digitsLen_le (r.drop (signLen r))
      have h2 := signLen_le r
      simp only [List.length_drop] at h1
      split <;> simp only [List.length_cons] <;> omega
    · omega

theorem strtodLen_le (s : Bytes) : strtodLen s ≤ s.length := by
  unfold strtodLen
  have h1 := signLen_le s
  have h2 := mantLen_le (s.drop (signLen s))
  have h3 := expLen_le (s.drop (signLen s + (mantLen (s.drop (signLen s))).1))
  simp only [List.length_drop] at h2 h3
  dsimp only
  split <;> omega

theorem numScan_length_le (k : Nat) (l : Bytes) : (numScan k l).length ≤ l.length ∧ (numScan k l).length ≤ k := by
  induction k generalizing l with
  | zero => simp [numScan]
  | succ k ih =>
    cases l with
    | nil => simp [numScan]
    | cons c r =>
      simp only [numScan]
      split
      · have := ih r
        simp only [List.length_cons]
        omega
      · simp

theorem parseNumber_ok {inp : Bytes} {b : PB} {t : Tree} {b' : PB} (h : parseNumber inp b = .ok t b') :
    b.off < b'.off ∧ b'.off ≤ inp.length ∧ b'.depth = b.depth ∧ ∃ tok, t = .num tok := by
  unfold parseNumber at h
  dsimp only at h
  split at h
  · cases h
  · rename_i hn
    cases h
    have h1 := strtodLen_le (numScan (numberBufSize - 1) (inp.drop b.off))
    have h2 := (numScan_length_le (numberBufSize - 1) (inp.drop b.off)).1
    simp only [List.length_drop] at h2
    dsimp only
    exact ⟨by omega, by omega, rfl, _, rfl⟩

/-! ### parse_value without recursion -/

theorem parseScalar_not_oob (inp : Bytes) (b : PB) (i : Nat) : parseScalar inp b ≠ some (.oob i) := by
  intro h
  unfold parseScalar at h
  split at h
  · rename_i hh; exact isLit_not_oob _ _ _ _ hh
  · simp at h
  · split at h
    · rename_i hh; exact isLit_not_oob _ _ _ _ hh
    · simp at h
    · split at h
      · rename_i hh; exact isLit_not_oob _ _ _ _ hh
      · simp at h
      · split at h
        · simp at h
        · rename_i c hc
          split at h
          · simp only [Option.some.injEq] at h
            rw [Res.map_oob] at h
            have := parseString_oob h
            have := (List.getElem?_eq_some_iff.mp hc).1
            omega
          · split at h
            · simp only [Option.some.injEq] at h
              unfold parseNumber at h
              dsimp only at h
              split at h <;> cases h
            · split at h <;> simp at h

theorem parseScalar_not_nofuel (inp : Bytes) (b : PB) : parseScalar inp b ≠ some .nofuel := by
  intro h
  unfold parseScalar at h
  split at h
  · simp at h
  · simp at h
  · split at h
    · simp at h
    · simp at h
    · split at h
      · simp at h
      · simp at h
      · split at h
        · simp at h
        · split at h
          · simp only [Option.some.injEq] at h
            rw [Res.map_nofuel] at h
            exact parseString_not_nofuel _ _ h
          · split at h
            · simp only [Option.some.injEq] at h
              unfold parseNumber at h
              dsimp only at h
              split at h <;> cases h
            · split at h <;> simp at h

/-- leaf values have depth 0 -/
def Tree.isLeaf : Tree → Bool
  | .arr _ => false
  | .obj _ => false
  | _ => true

theorem Tree.depth_of_leaf {t : Tree} (h : t.isLeaf = true) : t.depth = 0 := by
  cases t <;> simp [Tree.isLeaf] at h <;> simp [Tree.depth]

theorem isLit_eq_le {inp : Bytes} {b : PB} {lit : Bytes} (h : isLit inp b lit = .eq) : b.off + lit.length ≤ inp.length := by
  unfold isLit at h
  split at h
  · assumption
  · cases h

theorem parseScalar_ok {inp : Bytes} {b : PB} {t : Tree} {b' : PB} (h : parseScalar inp b = some (.ok t b')) :
    b.off < b'.off ∧ b'.off ≤ inp.length ∧ b'.depth = b.depth ∧ t.isLeaf = true := by
  unfold parseScalar at h
  split at h
  · simp at h
  · rename_i hh
    have := isLit_eq_le hh
    simp only [Option.some.injEq, Res.ok.injEq] at h
    obtain ⟨rfl, rfl⟩ := h
    simp only [litNull, List.length_cons, List.length_nil] at this
    exact ⟨by dsimp only; omega, by dsimp only; omega, rfl, rfl⟩
  · split at h
    · simp at h
    · rename_i hh
      have := isLit_eq_le hh
      simp only [Option.some.injEq, Res.ok.injEq] at h
      obtain ⟨rfl, rfl⟩ := h
      simp only [litFalse, List.length_cons, List.length_nil] at this
      exact ⟨by dsimp only; omega, by dsimp only; omega, rfl, rfl⟩
    · split at h
      · simp at h
      · rename_i hh
        have := isLit_eq_le hh
        simp only [Option.some.injEq, Res.ok.injEq] at h
        obtain ⟨rfl, rfl⟩ := h
        simp only [litTrue, List.length_cons, List.length_nil] at this
        exact ⟨by dsimp only; omega, by dsimp only; omega, rfl, rfl⟩
      · split at h
        · simp at h
        · split at h
          · simp only [Option.some.injEq] at h
            rw [Res.map_ok] at h
            obtain ⟨s, hs, rfl⟩ := h
            have := parseString_ok hs
            exact ⟨by omega, this.2.1, this.2.2, rfl⟩
          · split at h
            · simp only [Option.some.injEq] at h
              have := parseNumber_ok h
              obtain ⟨h1, h2, h3, tok, rfl⟩ := this
              exact ⟨h1, h2, h3, rfl⟩
            · split at h <;> simp at h

end Cjet.Cjson
