/-
  Cjet.Cjson.Trees — facts about parsed trees: their strings are C strings; what `Printable` amounts to.
-/
import Cjet.Cjson.Roundtrip

namespace Cjet.Cjson

open Cjet.Generated.Cjson (nestingLimit numberBufSize objCommaGuard)

mutual
/-- every string and every member name of the tree is a C string (no NUL byte) -/
def Tree.StrOk : Tree → Prop
  | .str s => nulFree s
  | .arr items => Tree.StrOkList items
  | .obj ms => Tree.StrOkMembers ms
  | _ => True
def Tree.StrOkList : List Tree → Prop
  | [] => True
  | t :: ts => t.StrOk ∧ Tree.StrOkList ts
def Tree.StrOkMembers : List (Bytes × Tree) → Prop
  | [] => True
  | (k, v) :: ms => nulFree k ∧ v.StrOk ∧ Tree.StrOkMembers ms
end

mutual
theorem Tree.mapNum_id (num : Bytes → Bytes) : ∀ t : Tree, t.hasNum = false → t.mapNum num = t
  | .null, _ => rfl
  | .fls, _ => rfl
  | .tru, _ => rfl
  | .num _, h => by simp [Tree.hasNum] at h
  | .str _, _ => rfl
  | .arr items, h => by
    simp only [Tree.hasNum] at h
    simp only [Tree.mapNum, Tree.mapNumList_id num items h]
  | .obj ms, h => by
    simp only [Tree.hasNum] at h
    simp only [Tree.mapNum, Tree.mapNumMembers_id num ms h]
theorem Tree.mapNumList_id (num : Bytes → Bytes) : ∀ l : List Tree, Tree.hasNumList l = false → Tree.mapNumList num l = l
  | [], _ => rfl
  | t :: ts, h => by
    simp only [Tree.hasNumList, Bool.or_eq_false_iff] at h
    simp only [Tree.mapNumList, Tree.mapNum_id num t h.1, Tree.mapNumList_id num ts h.2]
theorem Tree.mapNumMembers_id (num : Bytes → Bytes) :
    ∀ l : List (Bytes × Tree), Tree.hasNumMembers l = false → Tree.mapNumMembers num l = l
  | [], _ => rfl
  | (k, v) :: ms, h => by
    simp only [Tree.hasNumMembers, Bool.or_eq_false_iff] at h
    simp only [Tree.mapNumMembers, Tree.mapNum_id num v h.1, Tree.mapNumMembers_id num ms h.2]
end

mutual
theorem Tree.allNum_of_noNum (P : Bytes → Prop) : ∀ t : Tree, t.hasNum = false → t.AllNum P
  | .null, _ => by simp [Tree.AllNum]
  | .fls, _ => by simp [Tree.AllNum]
  | .tru, _ => by simp [Tree.AllNum]
  | .num _, h => by simp [Tree.hasNum] at h
  | .str _, _ => by simp [Tree.AllNum]
  | .arr items, h => by
    simp only [Tree.hasNum] at h
    simp only [Tree.AllNum]; exact Tree.allNumList_of_noNum P items h
  | .obj ms, h => by
    simp only [Tree.hasNum] at h
    simp only [Tree.AllNum]; exact Tree.allNumMembers_of_noNum P ms h
theorem Tree.allNumList_of_noNum (P : Bytes → Prop) : ∀ l : List Tree, Tree.hasNumList l = false → Tree.AllNumList P l
  | [], _ => by simp [Tree.AllNumList]
  | t :: ts, h => by
    simp only [Tree.hasNumList, Bool.or_eq_false_iff] at h
    simp only [Tree.AllNumList]
    exact ⟨Tree.allNum_of_noNum P t h.1, Tree.allNumList_of_noNum P ts h.2⟩
theorem Tree.allNumMembers_of_noNum (P : Bytes → Prop) :
    ∀ l : List (Bytes × Tree), Tree.hasNumMembers l = false → Tree.AllNumMembers P l
  | [], _ => by simp [Tree.AllNumMembers]
  | (k, v) :: ms, h => by
    simp only [Tree.hasNumMembers, Bool.or_eq_false_iff] at h
    simp only [Tree.AllNumMembers]
    exact ⟨Tree.allNum_of_noNum P v h.1, Tree.allNumMembers_of_noNum P ms h.2⟩
end

mutual
/-- `Printable` = all strings are C strings and all numbers print as complete number tokens -/
theorem Tree.printable_of (num : Bytes → Bytes) :
    ∀ t : Tree, t.StrOk → t.AllNum (fun tok => NumTok (num tok)) → t.Printable num
  | .null, _, _ => by simp [Tree.Printable]
  | .fls, _, _ => by simp [Tree.Printable]
  | .tru, _, _ => by simp [Tree.Printable]
  | .num _, _, h => by simpa [Tree.Printable, Tree.AllNum] using h
  | .str _, h, _ => by simpa [Tree.Printable, Tree.StrOk] using h
  | .arr items, h1, h2 => by
    simp only [Tree.StrOk] at h1
    simp only [Tree.AllNum] at h2
    simp only [Tree.Printable]; exact Tree.printableList_of num items h1 h2
  | .obj ms, h1, h2 => by
    simp only [Tree.StrOk] at h1
    simp only [Tree.AllNum] at h2
    simp only [Tree.Printable]; exact Tree.printableMembers_of num ms h1 h2
theorem Tree.printableList_of (num : Bytes → Bytes) :
    ∀ l : List Tree, Tree.StrOkList l → Tree.AllNumList (fun tok => NumTok (num tok)) l → Tree.PrintableList num l
  | [], _, _ => by simp [Tree.PrintableList]
  | t :: ts, h1, h2 => by
    simp only [Tree.StrOkList] at h1
    simp only [Tree.AllNumList] at h2
    simp only [Tree.PrintableList]
    exact ⟨Tree.printable_of num t h1.1 h2.1, Tree.printableList_of num ts h1.2 h2.2⟩
theorem Tree.printableMembers_of (num : Bytes → Bytes) :
    ∀ l : List (Bytes × Tree), Tree.StrOkMembers l → Tree.AllNumMembers (fun tok => NumTok (num tok)) l →
      Tree.PrintableMembers num l
  | [], _, _ => by simp [Tree.PrintableMembers]
  | (k, v) :: ms, h1, h2 => by
    simp only [Tree.StrOkMembers] at h1
    simp only [Tree.AllNumMembers] at h2
    simp only [Tree.PrintableMembers]
    exact ⟨h1.1, Tree.printable_of num v h1.2.1 h2.1, Tree.printableMembers_of num ms h1.2.2 h2.2⟩
end

/-! ### the parser only returns C strings -/

def StrOkRec (rec : PB → Res Tree) : Prop := ∀ b t b', rec b = .ok t b' → t.StrOk

theorem arrLoop_strOk {inp : Bytes} {rec : PB → Res Tree} (hrec : StrOkRec rec) :
    ∀ (g : Nat) (b : PB) (items : List Tree) (b' : PB), arrLoop inp rec g b = .ok items b' → Tree.StrOkList items := by
  intro g
  induction g with
  | zero => intro b items b' h; simp [arrLoop] at h
  | succ g ih =>
    intro b items b' h
    rw [arrLoop_succ] at h
    split at h
    · rename_i t b2 hr
      have ht := hrec _ _ _ hr
      split at h
      · split at h
        · rw [Res.map_ok] at h
          obtain ⟨l, hl, rfl⟩ := h
          simp only [Tree.StrOkList]
          exact ⟨ht, ih _ _ _ hl⟩
        · split at h
          · simp only [Res.ok.injEq] at h
            obtain ⟨rfl, _⟩ := h
            simp only [Tree.StrOkList]
            exact ⟨ht, trivial⟩
          · cases h
      · cases h
    · cases h
    · cases h
    · cases h

theorem objLoop_strOk {inp : Bytes} {guard : Bool} {rec : PB → Res Tree} (hrec : StrOkRec rec) :
    ∀ (g : Nat) (b : PB) (ms : List (Bytes × Tree)) (b' : PB), objLoop inp guard rec g b = .ok ms b' →
      Tree.StrOkMembers ms := by
  intro g
  induction g with
  | zero => intro b ms b' h; simp [objLoop] at h
  | succ g ih =>
    intro b ms b' h
    rw [objLoop_succ] at h
    split at h
    · cases h
    · split at h
      · rename_i name b2 hs
        split at h
        · cases h
        · split at h
          · cases h
          · split at h
            · rename_i v b5 hr
              have hv := hrec _ _ _ hr
              split at h
              · split at h
                · rw [Res.map_ok] at h
                  obtain ⟨l, hl, rfl⟩ := h
                  simp only [Tree.StrOkMembers]
                  exact ⟨cstr_nulFree _, hv, ih _ _ _ hl⟩
                · split at h
                  · simp only [Res.ok.injEq] at h
                    obtain ⟨rfl, _⟩ := h
                    simp only [Tree.StrOkMembers]
                    exact ⟨cstr_nulFree _, hv, trivial⟩
                  · cases h
              · cases h
            · cases h
            · cases h
            · cases h
      · cases h
      · cases h
      · cases h

theorem parseArray_strOk {inp : Bytes} {rec : PB → Res Tree} (hrec : StrOkRec rec) {b : PB} {t : Tree} {b' : PB}
    (h : parseArray inp rec b = .ok t b') : t.StrOk := by
  unfold parseArray at h
  split at h
  · cases h
  · try dsimp only at h
    split at h
    · cases h
    · split at h
      · cases h
      · split at h
        · cases h
        · split at h
          · simp only [Res.ok.injEq] at h
            obtain ⟨rfl, _⟩ := h
            simp [Tree.StrOk, Tree.StrOkList]
          · split at h
            · rename_i items b'' hl
              simp only [Res.ok.injEq] at h
              obtain ⟨rfl, _⟩ := h
              simp only [Tree.StrOk]
              exact arrLoop_strOk hrec _ _ _ _ hl
            · cases h
            · cases h
            · cases h

theorem parseObject_strOk {inp : Bytes} {guard : Bool} {rec : PB → Res Tree} (hrec : StrOkRec rec) {b : PB} {t : Tree}
    {b' : PB} (h : parseObject inp guard rec b = .ok t b') : t.StrOk := by
  unfold parseObject at h
  split at h
  · cases h
  · try dsimp only at h
    split at h
    · cases h
    · split at h
      · cases h
      · split at h
        · cases h
        · split at h
          · simp only [Res.ok.injEq] at h
            obtain ⟨rfl, _⟩ := h
            simp [Tree.StrOk, Tree.StrOkMembers]
          · split at h
            · rename_i ms b'' hl
              simp only [Res.ok.injEq] at h
              obtain ⟨rfl, _⟩ := h
              simp only [Tree.StrOk]
              exact objLoop_strOk hrec _ _ _ _ hl
            · cases h
            · cases h
            · cases h

theorem parseScalar_strOk {inp : Bytes} {b : PB} {t : Tree} {b' : PB} (h : parseScalar inp b = some (.ok t b')) :
    t.StrOk := by
  unfold parseScalar at h
  split at h
  · simp at h
  · simp only [Option.some.injEq, Res.ok.injEq] at h
    obtain ⟨rfl, _⟩ := h
    simp [Tree.StrOk]
  · split at h
    · simp at h
    · simp only [Option.some.injEq, Res.ok.injEq] at h
      obtain ⟨rfl, _⟩ := h
      simp [Tree.StrOk]
    · split at h
      · simp at h
      · simp only [Option.some.injEq, Res.ok.injEq] at h
        obtain ⟨rfl, _⟩ := h
        simp [Tree.StrOk]
      · split at h
        · simp at h
        · split at h
          · simp only [Option.some.injEq] at h
            rw [Res.map_ok] at h
            obtain ⟨s, _, rfl⟩ := h
            simp only [Tree.StrOk]
            exact cstr_nulFree _
          · split at h
            · simp only [Option.some.injEq] at h
              obtain ⟨_, _, _, tok, rfl⟩ := parseNumber_ok h
              simp [Tree.StrOk]
            · split at h <;> simp at h

theorem parseValue_strOk (inp : Bytes) (guard : Bool) : ∀ f, StrOkRec (parseValue inp guard f) := by
  intro f
  induction f with
  | zero => intro b t b' h; simp [parseValue] at h
  | succ f ih =>
    intro b t b' h
    rw [parseValue_succ] at h
    split at h
    · rename_i r hr
      subst h
      exact parseScalar_strOk hr
    · split at h
      · split at h
        · exact parseArray_strOk ih h
        · exact parseObject_strOk ih h
      · cases h

theorem parseRes_strOk {inp : Bytes} {guard : Bool} {fuel : Nat} {t : Tree} {b : PB}
    (h : parseRes inp guard fuel = .ok t b) : t.StrOk := by
  unfold parseRes at h
  split at h
  · cases h
  · split at h
    · exact parseValue_strOk inp guard fuel _ _ _ h
    · cases h
    · cases h
    · cases h

end Cjet.Cjson
