/-
  Cjet.Cjson.Roundtrip — parse_value on the text print_value produced gives the tree back.
-/
import Cjet.Cjson.Print
import Cjet.Cjson.Loops

namespace Cjet.Cjson

open Cjet.Generated.Cjson (nestingLimit numberBufSize objCommaGuard)

/-! ### reading a known text at an offset of a buffer -/

theorem getElem?_of_drop {inp : Bytes} {off : Nat} {c : UInt8} {r : Bytes} (h : inp.drop off = c :: r) :
    inp[off]? = some c := by
  have : (inp.drop off)[0]? = some c := by rw [h]; rfl
  simpa [List.getElem?_drop] using this

theorem lt_of_drop {inp : Bytes} {off : Nat} {c : UInt8} {r : Bytes} (h : inp.drop off = c :: r) :
    off < inp.length := by
  have := congrArg List.length h
  simp only [List.length_drop, List.length_cons] at this
  omega

theorem drop_add_of_drop {inp : Bytes} {off : Nat} {w rest : Bytes} (h : inp.drop off = w ++ rest) :
    inp.drop (off + w.length) = rest := by
  rw [← List.drop_drop, h, List.drop_left]

theorem skipWs_id {inp : Bytes} {b : PB} {c : UInt8} {r : Bytes} (h : inp.drop b.off = c :: r) (hc : ¬ c ≤ 32) :
    skipWs inp b = b := by
  have hlt := lt_of_drop h
  unfold skipWs
  rw [if_pos hlt, h]
  simp only [wsCount, if_neg hc, Nat.add_zero]
  rw [if_neg (by omega)]

theorem cmpLit_self (lit : Bytes) : ∀ (o : Nat) (rest : Bytes), cmpLit o (lit ++ rest) lit = .eq := by
  induction lit with
  | nil => intro o rest; simp [cmpLit]
  | cons c cs ih => intro o rest; simp [cmpLit, ih]

theorem isLit_eq {inp : Bytes} {b : PB} {lit rest : Bytes} (hl : 0 < lit.length)
    (h : inp.drop b.off = lit ++ rest) : isLit inp b lit = .eq := by
  unfold isLit
  have := congrArg List.length h
  simp only [List.length_drop, List.length_append] at this
  rw [if_pos (by omega), h, cmpLit_self]

theorem isLit_ne {inp : Bytes} {b : PB} {x y : UInt8} {r l : Bytes} (h : inp.drop b.off = x :: r)
    (hxy : x ≠ y) : isLit inp b (y :: l) = .ne := by
  unfold isLit
  split
  · rw [h]; simp [cmpLit, hxy]
  · rfl

theorem isLit_null_ne {inp : Bytes} {b : PB} {x : UInt8} {r : Bytes} (h : inp.drop b.off = x :: r) (hx : x ≠ 0x6E) :
    isLit inp b litNull = .ne := isLit_ne (l := [0x75, 0x6C, 0x6C]) h hx
theorem isLit_false_ne {inp : Bytes} {b : PB} {x : UInt8} {r : Bytes} (h : inp.drop b.off = x :: r) (hx : x ≠ 0x66) :
    isLit inp b litFalse = .ne := isLit_ne (l := [0x61, 0x6C, 0x73, 0x65]) h hx
theorem isLit_true_ne {inp : Bytes} {b : PB} {x : UInt8} {r : Bytes} (h : inp.drop b.off = x :: r) (hx : x ≠ 0x74) :
    isLit inp b litTrue = .ne := isLit_ne (l := [0x72, 0x75, 0x65]) h hx

/-! ### leaves -/

/-- what may follow a number: the end of the buffer, or a byte outside the number class -/
def PostOk (post : Bytes) : Prop := ∀ c r, post = c :: r → isNumChar c = false

theorem numScan_tok : ∀ (tok : Bytes) (k : Nat) (post : Bytes), tok.length ≤ k → (∀ c ∈ tok, isNumChar c = true) →
    PostOk post → numScan k (tok ++ post) = tok := by
  intro tok
  induction tok with
  | nil =>
    intro k post _ _ hp
    cases k with
    | zero => simp [numScan]
    | succ k =>
      cases post with
      | nil => simp [numScan]
      | cons c r => simp [numScan, hp c r rfl]
  | cons c r ih =>
    intro k post hk hall hp
    cases k with
    | zero => simp at hk
    | succ k =>
      have hc : isNumChar c = true := hall c (by simp)
      simp only [List.cons_append, numScan, hc, if_true]
      rw [ih k post (by simp only [List.length_cons] at hk; omega) (fun x hx => hall x (by simp [hx])) hp]

theorem numHead_facts : ∀ c : UInt8, (c = 0x2D ∨ isDigit c = true) →
    c ≠ 0x6E ∧ c ≠ 0x66 ∧ c ≠ 0x74 ∧ c ≠ 0x22 ∧ ¬ c ≤ 32 ∧ c ≠ 0x5D ∧ c ≠ 0x7D := by
  apply forall_uint8
  decide +kernel

theorem parseScalar_null {inp : Bytes} {b : PB} {post : Bytes} (h : inp.drop b.off = litNull ++ post) :
    parseScalar inp b = some (.ok .null { b with off := b.off + 4 }) := by
  unfold parseScalar
  rw [isLit_eq (by decide) h]

theorem parseScalar_false {inp : Bytes} {b : PB} {post : Bytes} (h : inp.drop b.off = litFalse ++ post) :
    parseScalar inp b = some (.ok .fls { b with off := b.off + 5 }) := by
  unfold parseScalar
  rw [isLit_null_ne (x := 0x66) (by rw [h]; rfl) (by decide)]
  dsimp only
  rw [isLit_eq (by decide) h]

theorem parseScalar_true {inp : Bytes} {b : PB} {post : Bytes} (h : inp.drop b.off = litTrue ++ post) :
    parseScalar inp b = some (.ok .tru { b with off := b.off + 4 }) := by
  unfold parseScalar
  rw [isLit_null_ne (x := 0x74) (by rw [h]; rfl) (by decide)]
  dsimp only
  rw [isLit_false_ne (x := 0x74) (by rw [h]; rfl) (by decide)]
  dsimp only
  rw [isLit_eq (by decide) h]

theorem parseScalar_other {inp : Bytes} {b : PB} {c : UInt8} {r : Bytes} (h : inp.drop b.off = c :: r)
    (h1 : c ≠ 0x6E) (h2 : c ≠ 0x66) (h3 : c ≠ 0x74) :
    parseScalar inp b =
      (if c = 0x22 then some ((parseString inp b).map (fun s => .str (cstr s.written)))
       else if c = 0x2D ∨ isDigit c then some (parseNumber inp b)
       else if c = 0x5B ∨ c = 0x7B then none
       else some (.fail b)) := by
  unfold parseScalar
  rw [isLit_null_ne h h1]
  dsimp only
  rw [isLit_false_ne h h2]
  dsimp only
  rw [isLit_true_ne h h3]
  dsimp only
  rw [getElem?_of_drop h]

theorem parseScalar_string {inp : Bytes} {b : PB} {s post : Bytes} (hs : nulFree s)
    (h : inp.drop b.off = printString s ++ post) :
    parseScalar inp b = some (.ok (.str s) { b with off := b.off + (printString s).length }) := by
  have h' : inp.drop b.off = 0x22 :: (escBody s ++ [0x22] ++ post) := by
    rw [h]; simp [printString]
  rw [parseScalar_other h' (by decide) (by decide) (by decide), if_pos rfl]
  obtain ⟨a, ha⟩ := parseString_printString hs h
  rw [ha]
  simp only [Res.map, cstr_of_nulFree s hs]

theorem parseScalar_number {inp : Bytes} {b : PB} {tok post : Bytes} (ht : NumTok tok) (hp : PostOk post)
    (h : inp.drop b.off = tok ++ post) :
    parseScalar inp b = some (.ok (.num tok) { b with off := b.off + tok.length }) := by
  obtain ⟨hlen, hall, hst, c, r, rfl, hc⟩ := ht
  have hf := numHead_facts c hc
  have h' : inp.drop b.off = c :: (r ++ post) := by rw [h]; rfl
  rw [parseScalar_other h' hf.1 hf.2.1 hf.2.2.1, if_neg hf.2.2.2.1, if_pos hc]
  unfold parseNumber
  dsimp only
  rw [h, numScan_tok (c :: r) _ post (by omega) hall hp, hst, if_neg (by simp), List.take_length]

theorem parseScalar_bracket {inp : Bytes} {b : PB} {c : UInt8} {r : Bytes} (h : inp.drop b.off = c :: r)
    (hc : c = 0x5B ∨ c = 0x7B) : parseScalar inp b = none := by
  have h1 : c ≠ 0x6E ∧ c ≠ 0x66 ∧ c ≠ 0x74 ∧ c ≠ 0x22 ∧ ¬ (c = 0x2D ∨ isDigit c = true) := by
    rcases hc with rfl | rfl <;> decide
  rw [parseScalar_other h h1.1 h1.2.1 h1.2.2.1, if_neg h1.2.2.2.1, if_neg h1.2.2.2.2, if_pos hc]

/-! ### shape of printed text -/

theorem printString_head (s : Bytes) : ∃ r, printString s = 0x22 :: r := ⟨_, rfl⟩

theorem printValue_head (num : Bytes → Bytes) (t : Tree) (ht : t.Printable num) :
    ∃ c r, printValue num t = c :: r ∧ ¬ c ≤ 32 ∧ c ≠ 0x5D ∧ c ≠ 0x7D := by
  cases t with
  | null => exact ⟨0x6E, _, rfl, by decide, by decide, by decide⟩
  | fls => exact ⟨0x66, _, rfl, by decide, by decide, by decide⟩
  | tru => exact ⟨0x74, _, rfl, by decide, by decide, by decide⟩
  | num tok =>
    simp only [Tree.Printable] at ht
    obtain ⟨_, _, _, c, r, hcr, hc⟩ := ht
    have hf := numHead_facts c hc
    exact ⟨c, r, by simp [printValue, hcr], hf.2.2.2.2.1, hf.2.2.2.2.2.1, hf.2.2.2.2.2.2⟩
  | str s => exact ⟨0x22, escBody s ++ [0x22], by simp [printValue, printString], by decide, by decide, by decide⟩
  | arr items =>
    cases items with
    | nil => exact ⟨0x5B, [0x5D], by simp [printValue], by decide, by decide, by decide⟩
    | cons t ts =>
      exact ⟨0x5B, printValue num t ++ printItems num ts, by simp [printValue], by decide, by decide, by decide⟩
  | obj ms =>
    cases ms with
    | nil => exact ⟨0x7B, [0x7D], by simp [printValue], by decide, by decide, by decide⟩
    | cons m ms =>
      obtain ⟨k, v⟩ := m
      exact ⟨0x7B, printString k ++ 0x3A :: (printValue num v ++ printMembers num ms), by simp [printValue],
        by decide, by decide, by decide⟩

theorem printItems_head (num : Bytes → Bytes) (ts : List Tree) :
    ∃ c r, printItems num ts = c :: r ∧ (c = 0x2C ∨ c = 0x5D) := by
  cases ts with
  | nil => exact ⟨0x5D, [], by simp [printItems], Or.inr rfl⟩
  | cons t ts => exact ⟨0x2C, printValue num t ++ printItems num ts, by simp [printItems], Or.inl rfl⟩

theorem printMembers_head (num : Bytes → Bytes) (ms : List (Bytes × Tree)) :
    ∃ c r, printMembers num ms = c :: r ∧ (c = 0x2C ∨ c = 0x7D) := by
  cases ms with
  | nil => exact ⟨0x7D, [], by simp [printMembers], Or.inr rfl⟩
  | cons m ms =>
    obtain ⟨k, v⟩ := m
    exact ⟨0x2C, printString k ++ 0x3A :: (printValue num v ++ printMembers num ms), by simp [printMembers], Or.inl rfl⟩

theorem postOk_of_head {c : UInt8} {r post : Bytes} (hc : isNumChar c = false) : PostOk (c :: r ++ post) := by
  intro c' r' h
  simp only [List.cons_append, List.cons.injEq] at h
  rw [← h.1]; exact hc

theorem printItems_length (num : Bytes → Bytes) (ts : List Tree) : ts.length < (printItems num ts).length := by
  induction ts with
  | nil => simp [printItems]
  | cons t ts ih => simp only [printItems, List.length_cons, List.length_append]; omega

theorem printMembers_length (num : Bytes → Bytes) (ms : List (Bytes × Tree)) :
    ms.length < (printMembers num ms).length := by
  induction ms with
  | nil => simp [printMembers]
  | cons m ms ih =>
    obtain ⟨k, v⟩ := m
    simp only [printMembers, List.length_cons, List.length_append]; omega

/-! ### the round trip, by induction on the fuel (= nesting depth still allowed) -/

/-- round-trip statement for one fuel value -/
def RT (inp : Bytes) (g : Bool) (num : Bytes → Bytes) (f : Nat) : Prop :=
  ∀ (t : Tree) (b : PB) (post : Bytes), t.depth < f → t.Printable num →
    inp.drop b.off = printValue num t ++ post → PostOk post → b.depth + t.depth ≤ nestingLimit →
    parseValue inp g f b = .ok (t.mapNum num) ⟨b.off + (printValue num t).length, b.depth⟩

theorem arrLoop_succ (inp : Bytes) (rec : PB → Res Tree) (g : Nat) (b : PB) :
    arrLoop inp rec (g + 1) b =
      match rec (skipWs inp { b with off := b.off + 1 }) with
      | .ok t b2 =>
        match inp[(skipWs inp b2).off]? with
        | some c =>
          if c = 0x2C then (arrLoop inp rec g (skipWs inp b2)).map (t :: ·)
          else if c = 0x5D then .ok [t] (skipWs inp b2)
          else .fail (skipWs inp b2)
        | none => .fail (skipWs inp b2)
      | .fail b' => .fail b'
      | .oob i => .oob i
      | .nofuel => .nofuel := by
  rw [arrLoop.eq_def]
  rfl

theorem arrLoop_printed {inp : Bytes} {g : Bool} {num : Bytes → Bytes} {f : Nat} (hrt : RT inp g num f) :
    ∀ (ts : List Tree) (t : Tree) (gf : Nat) (b : PB) (post : Bytes), ts.length < gf →
      t.depth < f → Tree.depthList ts < f → t.Printable num → Tree.PrintableList num ts →
      inp.drop (b.off + 1) = printValue num t ++ (printItems num ts ++ post) →
      b.depth + max t.depth (Tree.depthList ts) ≤ nestingLimit →
      arrLoop inp (parseValue inp g f) gf b =
        .ok (t.mapNum num :: Tree.mapNumList num ts)
          ⟨b.off + (printValue num t).length + (printItems num ts).length, b.depth⟩ := by
  intro ts
  induction ts with
  | nil =>
    intro t gf b post hgf hd1 _ hp1 _ hdrop hlim
    obtain ⟨gf', rfl⟩ : ∃ k, gf = k + 1 := ⟨gf - 1, by omega⟩
    obtain ⟨c, r, hcr, hc32, _, _⟩ := printValue_head num t hp1
    have hb1 : skipWs inp { b with off := b.off + 1 } = ⟨b.off + 1, b.depth⟩ :=
      skipWs_id (b := ⟨b.off + 1, b.depth⟩) (c := c) (r := r ++ (printItems num [] ++ post))
        (by rw [hdrop, hcr]; rfl) hc32
    have hpo : PostOk (printItems num [] ++ post) := by
      simp only [printItems]; exact postOk_of_head (by decide)
    have hv := hrt t ⟨b.off + 1, b.depth⟩ _ hd1 hp1 hdrop hpo (by
      simp only [Tree.depthList_nil] at hlim; dsimp only; omega)
    have hd2 : inp.drop (b.off + 1 + (printValue num t).length) = 0x5D :: post := by
      have := drop_add_of_drop hdrop
      simpa [printItems] using this
    have hb3 : skipWs inp ⟨b.off + 1 + (printValue num t).length, b.depth⟩ = ⟨b.off + 1 + (printValue num t).length, b.depth⟩ :=
      skipWs_id (b := ⟨b.off + 1 + (printValue num t).length, b.depth⟩) hd2 (by decide)
    rw [arrLoop_succ, hb1, hv]
    dsimp only
    rw [hb3]
    dsimp only
    rw [getElem?_of_drop hd2]
    dsimp only
    rw [if_neg (by decide), if_pos rfl]
    simp only [Tree.mapNumList, printItems, List.length_cons, List.length_nil]
    congr 2
    omega
  | cons t' ts' ih =>
    intro t gf b post hgf hd1 hd2' hp1 hp2 hdrop hlim
    obtain ⟨gf', rfl⟩ : ∃ k, gf = k + 1 := ⟨gf - 1, by omega⟩
    obtain ⟨c, r, hcr, hc32, _, _⟩ := printValue_head num t hp1
    simp only [Tree.depthList_cons] at hd2' hlim
    simp only [Tree.PrintableList] at hp2
    have hb1 : skipWs inp { b with off := b.off + 1 } = ⟨b.off + 1, b.depth⟩ :=
      skipWs_id (b := ⟨b.off + 1, b.depth⟩) (c := c) (r := r ++ (printItems num (t' :: ts') ++ post))
        (by rw [hdrop, hcr]; rfl) hc32
    have hpo : PostOk (printItems num (t' :: ts') ++ post) := by
      simp only [printItems]; exact postOk_of_head (by decide)
    have hv := hrt t ⟨b.off + 1, b.depth⟩ _ hd1 hp1 hdrop hpo (by dsimp only; omega)
    have hd2 : inp.drop (b.off + 1 + (printValue num t).length) =
        0x2C :: (printValue num t' ++ (printItems num ts' ++ post)) := by
      have := drop_add_of_drop hdrop
      simpa [printItems] using this
    have hb3 : skipWs inp ⟨b.off + 1 + (printValue num t).length, b.depth⟩ = ⟨b.off + 1 + (printValue num t).length, b.depth⟩ :=
      skipWs_id (b := ⟨b.off + 1 + (printValue num t).length, b.depth⟩) hd2 (by decide)
    have hd3 : inp.drop (b.off + 1 + (printValue num t).length + 1) =
        printValue num t' ++ (printItems num ts' ++ post) := by
      have := drop_add_of_drop (w := [0x2C]) (rest := printValue num t' ++ (printItems num ts' ++ post)) hd2
      simpa using this
    have hih := ih t' gf' ⟨b.off + 1 + (printValue num t).length, b.depth⟩ post
      (by simp only [List.length_cons] at hgf; omega) (by omega) (by omega) hp2.1 hp2.2 hd3 (by dsimp only; omega)
    rw [arrLoop_succ, hb1, hv]
    dsimp only
    rw [hb3]
    dsimp only
    rw [getElem?_of_drop hd2]
    dsimp only
    rw [if_pos rfl, hih]
    simp only [Res.map, Tree.mapNumList, printItems, List.length_cons, List.length_append]
    congr 2
    omega

theorem objLoop_succ (inp : Bytes) (guard : Bool) (rec : PB → Res Tree) (g : Nat) (b : PB) :
    objLoop inp guard rec (g + 1) b =
      if guard ∧ ¬ (b.off + 1 < inp.length) then .fail b
      else
        match parseString inp (skipWs inp { b with off := b.off + 1 }) with
        | .ok name b2 =>
          match inp[(skipWs inp b2).off]? with
          | none => .fail (skipWs inp b2)
          | some c =>
            if c ≠ 0x3A then .fail (skipWs inp b2)
            else
              match rec (skipWs inp { skipWs inp b2 with off := (skipWs inp b2).off + 1 }) with
              | .ok v b5 =>
                match inp[(skipWs inp b5).off]? with
                | some c' =>
                  if c' = 0x2C then (objLoop inp guard rec g (skipWs inp b5)).map ((cstr name.written, v) :: ·)
                  else if c' = 0x7D then .ok [(cstr name.written, v)] (skipWs inp b5)
                  else .fail (skipWs inp b5)
                | none => .fail (skipWs inp b5)
              | .fail b' => .fail b'
              | .oob i => .oob i
              | .nofuel => .nofuel
        | .fail b' => .fail b'
        | .oob i => .oob i
        | .nofuel => .nofuel := by
  rw [objLoop.eq_def]
  rfl

theorem objLoop_printed {inp : Bytes} {g : Bool} {num : Bytes → Bytes} {f : Nat} (hrt : RT inp g num f) :
    ∀ (ms : List (Bytes × Tree)) (k : Bytes) (v : Tree) (gf : Nat) (b : PB) (post : Bytes), ms.length < gf →
      v.depth < f → Tree.depthMembers ms < f → nulFree k → v.Printable num → Tree.PrintableMembers num ms →
      inp.drop (b.off + 1) = printString k ++ (0x3A :: (printValue num v ++ (printMembers num ms ++ post))) →
      b.depth + max v.depth (Tree.depthMembers ms) ≤ nestingLimit →
      objLoop inp g (parseValue inp g f) gf b =
        .ok ((k, v.mapNum num) :: Tree.mapNumMembers num ms)
          ⟨b.off + (printString k).length + 1 + (printValue num v).length + (printMembers num ms).length, b.depth⟩ := by
  intro ms
  induction ms with
  | nil =>
    intro k v gf b post hgf hd1 _ hk hp1 _ hdrop hlim
    obtain ⟨gf', rfl⟩ : ∃ j, gf = j + 1 := ⟨gf - 1, by omega⟩
    obtain ⟨c, r, hcr, hc32, _, _⟩ := printValue_head num v hp1
    obtain ⟨rk, hrk⟩ := printString_head k
    have hguard : ¬ (g = true ∧ ¬ (b.off + 1 < inp.length)) := by
      have := lt_of_drop (inp := inp) (off := b.off + 1) (c := 0x22) (by rw [hdrop, hrk]; rfl)
      simp [this]
    have hb1 : skipWs inp { b with off := b.off + 1 } = ⟨b.off + 1, b.depth⟩ :=
      skipWs_id (b := ⟨b.off + 1, b.depth⟩) (c := 0x22) (by rw [hdrop, hrk]; rfl) (by decide)
    obtain ⟨a, hps⟩ := parseString_printString (b := ⟨b.off + 1, b.depth⟩) hk hdrop
    have hd2 : inp.drop (b.off + 1 + (printString k).length) =
        0x3A :: (printValue num v ++ (printMembers num [] ++ post)) := drop_add_of_drop hdrop
    have hb3 : skipWs inp ⟨b.off + 1 + (printString k).length, b.depth⟩ = ⟨b.off + 1 + (printString k).length, b.depth⟩ :=
      skipWs_id (b := ⟨b.off + 1 + (printString k).length, b.depth⟩) hd2 (by decide)
    have hd3 : inp.drop (b.off + 1 + (printString k).length + 1) = printValue num v ++ (printMembers num [] ++ post) := by
      have := drop_add_of_drop (w := [0x3A]) (rest := printValue num v ++ (printMembers num [] ++ post)) hd2
      simpa using this
    have hb4 : skipWs inp ⟨b.off + 1 + (printString k).length + 1, b.depth⟩ = ⟨b.off + 1 + (printString k).length + 1, b.depth⟩ :=
      skipWs_id (b := ⟨b.off + 1 + (printString k).length + 1, b.depth⟩) (c := c)
        (r := r ++ (printMembers num [] ++ post)) (by rw [hd3, hcr]; rfl) hc32
    have hpo : PostOk (printMembers num [] ++ post) := by
      simp only [printMembers]; exact postOk_of_head (by decide)
    have hv := hrt v ⟨b.off + 1 + (printString k).length + 1, b.depth⟩ _ hd1 hp1 hd3 hpo (by
      simp only [Tree.depthMembers_nil] at hlim; dsimp only; omega)
    have hd4 : inp.drop (b.off + 1 + (printString k).length + 1 + (printValue num v).length) = 0x7D :: post := by
      have := drop_add_of_drop hd3
      simpa [printMembers] using this
    have hb5 : skipWs inp ⟨b.off + 1 + (printString k).length + 1 + (printValue num v).length, b.depth⟩ =
        ⟨b.off + 1 + (printString k).length + 1 + (printValue num v).length, b.depth⟩ :=
      skipWs_id (b := ⟨b.off + 1 + (printString k).length + 1 + (printValue num v).length, b.depth⟩) hd4 (by decide)
    rw [objLoop_succ, if_neg hguard, hb1, hps]
    dsimp only
    rw [hb3]
    dsimp only
    rw [getElem?_of_drop hd2]
    dsimp only
    rw [if_neg (by decide), hb4, hv]
    dsimp only
    rw [hb5]
    dsimp only
    rw [getElem?_of_drop hd4]
    dsimp only
    rw [if_neg (by decide), if_pos rfl, cstr_of_nulFree k hk]
    simp only [Tree.mapNumMembers, printMembers, List.length_cons, List.length_nil]
    congr 2
    omega
  | cons m' ms' ih =>
    obtain ⟨k', v'⟩ := m'
    intro k v gf b post hgf hd1 hd2' hk hp1 hp2 hdrop hlim
    obtain ⟨gf', rfl⟩ : ∃ j, gf = j + 1 := ⟨gf - 1, by omega⟩
    obtain ⟨c, r, hcr, hc32, _, _⟩ := printValue_head num v hp1
    obtain ⟨rk, hrk⟩ := printString_head k
    simp only [Tree.depthMembers_cons] at hd2' hlim
    simp only [Tree.PrintableMembers] at hp2
    have hguard : ¬ (g = true ∧ ¬ (b.off + 1 < inp.length)) := by
      have := lt_of_drop (inp := inp) (off := b.off + 1) (c := 0x22) (by rw [hdrop, hrk]; rfl)
      simp [this]
    have hb1 : skipWs inp { b with off := b.off + 1 } = ⟨b.off + 1, b.depth⟩ :=
      skipWs_id (b := ⟨b.off + 1, b.depth⟩) (c := 0x22) (by rw [hdrop, hrk]; rfl) (by decide)
    obtain ⟨a, hps⟩ := parseString_printString (b := ⟨b.off + 1, b.depth⟩) hk hdrop
    have hd2 : inp.drop (b.off + 1 + (printString k).length) =
        0x3A :: (printValue num v ++ (printMembers num ((k', v') :: ms') ++ post)) := drop_add_of_drop hdrop
    have hb3 : skipWs inp ⟨b.off + 1 + (printString k).length, b.depth⟩ = ⟨b.off + 1 + (printString k).length, b.depth⟩ :=
      skipWs_id (b := ⟨b.off + 1 + (printString k).length, b.depth⟩) hd2 (by decide)
    have hd3 : inp.drop (b.off + 1 + (printString k).length + 1) =
        printValue num v ++ (printMembers num ((k', v') :: ms') ++ post) := by
      have := drop_add_of_drop (w := [0x3A]) (rest := printValue num v ++ (printMembers num ((k', v') :: ms') ++ post)) hd2
      simpa using this
    have hb4 : skipWs inp ⟨b.off + 1 + (printString k).length + 1, b.depth⟩ = ⟨b.off + 1 + (printString k).length + 1, b.depth⟩ :=
      skipWs_id (b := ⟨b.off + 1 + (printString k).length + 1, b.depth⟩) (c := c)
        (r := r ++ (printMembers num ((k', v') :: ms') ++ post)) (by rw [hd3, hcr]; rfl) hc32
    have hpo : PostOk (printMembers num ((k', v') :: ms') ++ post) := by
      simp only [printMembers]; exact postOk_of_head (by decide)
    have hv := hrt v ⟨b.off + 1 + (printString k).length + 1, b.depth⟩ _ hd1 hp1 hd3 hpo (by dsimp only; omega)
    have hd4 : inp.drop (b.off + 1 + (printString k).length + 1 + (printValue num v).length) =
        0x2C :: (printString k' ++ (0x3A :: (printValue num v' ++ (printMembers num ms' ++ post)))) := by
      have := drop_add_of_drop hd3
      simpa [printMembers] using this
    have hb5 : skipWs inp ⟨b.off + 1 + (printString k).length + 1 + (printValue num v).length, b.depth⟩ =
        ⟨b.off + 1 + (printString k).length + 1 + (printValue num v).length, b.depth⟩ :=
      skipWs_id (b := ⟨b.off + 1 + (printString k).length + 1 + (printValue num v).length, b.depth⟩) hd4 (by decide)
    have hd5 : inp.drop (b.off + 1 + (printString k).length + 1 + (printValue num v).length + 1) =
        printString k' ++ (0x3A :: (printValue num v' ++ (printMembers num ms' ++ post))) := by
      have := drop_add_of_drop (w := [0x2C])
        (rest := printString k' ++ (0x3A :: (printValue num v' ++ (printMembers num ms' ++ post)))) hd4
      simpa using this
    have hih := ih k' v' gf' ⟨b.off + 1 + (printString k).length + 1 + (printValue num v).length, b.depth⟩ post
      (by simp only [List.length_cons] at hgf; omega) (by omega) (by omega) hp2.1 hp2.2.1 hp2.2.2 hd5
      (by dsimp only; omega)
    rw [objLoop_succ, if_neg hguard, hb1, hps]
    dsimp only
    rw [hb3]
    dsimp only
    rw [getElem?_of_drop hd2]
    dsimp only
    rw [if_neg (by decide), hb4, hv]
    dsimp only
    rw [hb5]
    dsimp only
    rw [getElem?_of_drop hd4]
    dsimp only
    rw [if_pos rfl, hih, cstr_of_nulFree k hk]
    simp only [Res.map, Tree.mapNumMembers, printMembers, List.length_cons, List.length_append]
    congr 2
    omega

theorem parseValue_succ (inp : Bytes) (g : Bool) (f : Nat) (b : PB) :
    parseValue inp g (f + 1) b =
      match parseScalar inp b with
      | some r => r
      | none =>
        match inp[b.off]? with
        | some c =>
          if c = 0x5B then parseArray inp (parseValue inp g f) b
          else parseObject inp g (parseValue inp g f) b
        | none => .fail b := by
  rw [parseValue.eq_def]
  rfl

theorem parseArray_printed {inp : Bytes} {g : Bool} {num : Bytes → Bytes} {f : Nat} (hrt : RT inp g num f)
    (items : List Tree) (b : PB) (post : Bytes) (hd : Tree.depthList items < f)
    (hp : Tree.PrintableList num items) (hdrop : inp.drop b.off = printValue num (.arr items) ++ post)
    (hlim : b.depth + (Tree.depthList items + 1) ≤ nestingLimit) :
    parseArray inp (parseValue inp g f) b =
      .ok (.arr (Tree.mapNumList num items)) ⟨b.off + (printValue num (.arr items)).length, b.depth⟩ := by
  unfold parseArray
  rw [if_neg (by omega)]
  dsimp only
  cases items with
  | nil =>
    have h0 : inp.drop b.off = 0x5B :: 0x5D :: post := by rw [hdrop]; simp [printValue]
    have h1 : inp.drop (b.off + 1) = 0x5D :: post := by
      have := drop_add_of_drop (w := [0x5B]) (rest := 0x5D :: post) h0
      simpa using this
    rw [getElem?_of_drop h0]
    dsimp only
    rw [if_neg (by decide), skipWs_id (b := ⟨b.off + 1, b.depth + 1⟩) h1 (by decide)]
    dsimp only
    rw [getElem?_of_drop h1]
    dsimp only
    rw [if_pos rfl]
    simp [Tree.mapNumList, printValue]
  | cons t ts =>
    simp only [Tree.depthList_cons] at hd hlim
    simp only [Tree.PrintableList] at hp
    have h0 : inp.drop b.off = 0x5B :: (printValue num t ++ (printItems num ts ++ post)) := by
      rw [hdrop]; simp [printValue]
    have h1 : inp.drop (b.off + 1) = printValue num t ++ (printItems num ts ++ post) := by
      have := drop_add_of_drop (w := [0x5B]) (rest := printValue num t ++ (printItems num ts ++ post)) h0
      simpa using this
    obtain ⟨c, r, hcr, hc32, hc5d, _⟩ := printValue_head num t hp.1
    have h1' : inp.drop (b.off + 1) = c :: (r ++ (printItems num ts ++ post)) := by rw [h1, hcr]; rfl
    have hlen : ts.length < inp.length + 1 := by
      have := congrArg List.length h1
      have h2 := printItems_length num ts
      simp only [List.length_drop, List.length_append] at this
      omega
    have hl := arrLoop_printed hrt ts t (inp.length + 1) ⟨b.off, b.depth + 1⟩ post hlen (by omega) (by omega) hp.1 hp.2 h1
      (by dsimp only; omega)
    rw [getElem?_of_drop h0]
    dsimp only
    rw [if_neg (by decide), skipWs_id (b := ⟨b.off + 1, b.depth + 1⟩) h1' hc32]
    dsimp only
    rw [getElem?_of_drop h1']
    dsimp only
    rw [if_neg hc5d, Nat.add_sub_cancel, hl]
    dsimp only
    simp only [Tree.mapNumList, printValue, List.length_cons, List.length_append, Nat.add_sub_cancel]
    congr 2
    omega

theorem parseObject_printed {inp : Bytes} {g : Bool} {num : Bytes → Bytes} {f : Nat} (hrt : RT inp g num f)
    (ms : List (Bytes × Tree)) (b : PB) (post : Bytes) (hd : Tree.depthMembers ms < f)
    (hp : Tree.PrintableMembers num ms) (hdrop : inp.drop b.off = printValue num (.obj ms) ++ post)
    (hlim : b.depth + (Tree.depthMembers ms + 1) ≤ nestingLimit) :
    parseObject inp g (parseValue inp g f) b =
      .ok (.obj (Tree.mapNumMembers num ms)) ⟨b.off + (printValue num (.obj ms)).length, b.depth⟩ := by
  unfold parseObject
  rw [if_neg (by omega)]
  dsimp only
  cases ms with
  | nil =>
    have h0 : inp.drop b.off = 0x7B :: 0x7D :: post := by rw [hdrop]; simp [printValue]
    have h1 : inp.drop (b.off + 1) = 0x7D :: post := by
      have := drop_add_of_drop (w := [0x7B]) (rest := 0x7D :: post) h0
      simpa using this
    rw [getElem?_of_drop h0]
    dsimp only
    rw [if_neg (by decide), skipWs_id (b := ⟨b.off + 1, b.depth + 1⟩) h1 (by decide)]
    dsimp only
    rw [getElem?_of_drop h1]
    dsimp only
    rw [if_pos rfl]
    simp [Tree.mapNumMembers, printValue]
  | cons m ms =>
    obtain ⟨k, v⟩ := m
    simp only [Tree.depthMembers_cons] at hd hlim
    simp only [Tree.PrintableMembers] at hp
    have h0 : inp.drop b.off =
        0x7B :: (printString k ++ (0x3A :: (printValue num v ++ (printMembers num ms ++ post)))) := by
      rw [hdrop]; simp [printValue]
    have h1 : inp.drop (b.off + 1) = printString k ++ (0x3A :: (printValue num v ++ (printMembers num ms ++ post))) := by
      have := drop_add_of_drop (w := [0x7B])
        (rest := printString k ++ (0x3A :: (printValue num v ++ (printMembers num ms ++ post)))) h0
      simpa using this
    obtain ⟨rk, hrk⟩ := printString_head k
    have h1' : inp.drop (b.off + 1) = 0x22 :: (rk ++ (0x3A :: (printValue num v ++ (printMembers num ms ++ post)))) := by
      rw [h1, hrk]; rfl
    have hlen : ms.length < inp.length + 1 := by
      have := congrArg List.length h1
      have h2 := printMembers_length num ms
      simp only [List.length_drop, List.length_append, List.length_cons] at this
      omega
    have hl := objLoop_printed hrt ms k v (inp.length + 1) ⟨b.off, b.depth + 1⟩ post hlen (by omega) (by omega)
      hp.1 hp.2.1 hp.2.2 h1 (by dsimp only; omega)
    rw [getElem?_of_drop h0]
    dsimp only
    rw [if_neg (by decide), skipWs_id (b := ⟨b.off + 1, b.depth + 1⟩) h1' (by decide)]
    dsimp only
    rw [getElem?_of_drop h1']
    dsimp only
    rw [if_neg (by decide), Nat.add_sub_cancel, hl]
    dsimp only
    simp only [Tree.mapNumMembers, printValue, List.length_cons, List.length_append, Nat.add_sub_cancel]
    congr 2
    omega

theorem rt_all (inp : Bytes) (g : Bool) (num : Bytes → Bytes) : ∀ f, RT inp g num f := by
  intro f
  induction f with
  | zero => intro t b post hd; omega
  | succ f ih =>
    intro t b post hd hp hdrop hpo hlim
    rw [parseValue_succ]
    cases t with
    | null =>
      rw [parseScalar_null (post := post) (by simpa [printValue] using hdrop)]
      simp [Tree.mapNum, printValue, litNull]
    | fls =>
      rw [parseScalar_false (post := post) (by simpa [printValue] using hdrop)]
      simp [Tree.mapNum, printValue, litFalse]
    | tru =>
      rw [parseScalar_true (post := post) (by simpa [printValue] using hdrop)]
      simp [Tree.mapNum, printValue, litTrue]
    | num tok =>
      simp only [Tree.Printable] at hp
      rw [parseScalar_number hp hpo (by simpa [printValue] using hdrop)]
      simp [Tree.mapNum, printValue]
    | str s =>
      simp only [Tree.Printable] at hp
      rw [parseScalar_string hp (post := post) (by simpa [printValue] using hdrop)]
      simp [Tree.mapNum, printValue]
    | arr items =>
      obtain ⟨c, r, hcr, _⟩ : ∃ c r, printValue num (.arr items) = c :: r ∧ c = 0x5B := by
        cases items with
        | nil => exact ⟨0x5B, [0x5D], by simp [printValue], rfl⟩
        | cons t ts => exact ⟨0x5B, printValue num t ++ printItems num ts, by simp [printValue], rfl⟩
      rename_i hc
      subst hc
      have h0 : inp.drop b.off = 0x5B :: (r ++ post) := by rw [hdrop, hcr]; rfl
      rw [parseScalar_bracket h0 (Or.inl rfl)]
      dsimp only
      rw [getElem?_of_drop h0]
      dsimp only
      rw [if_pos rfl]
      simp only [Tree.depth_arr] at hd hlim
      simp only [Tree.Printable] at hp
      rw [parseArray_printed ih items b post (by omega) hp hdrop hlim]
      simp [Tree.mapNum]
    | obj ms =>
      obtain ⟨c, r, hcr, _⟩ : ∃ c r, printValue num (.obj ms) = c :: r ∧ c = 0x7B := by
        cases ms with
        | nil => exact ⟨0x7B, [0x7D], by simp [printValue], rfl⟩
        | cons m ms =>
          obtain ⟨k, v⟩ := m
          exact ⟨0x7B, printString k ++ 0x3A :: (printValue num v ++ printMembers num ms), by simp [printValue], rfl⟩
      rename_i hc
      subst hc
      have h0 : inp.drop b.off = 0x7B :: (r ++ post) := by rw [hdrop, hcr]; rfl
      rw [parseScalar_bracket h0 (Or.inr rfl)]
      dsimp only
      rw [getElem?_of_drop h0]
      dsimp only
      rw [if_neg (by decide)]
      simp only [Tree.depth_obj] at hd hlim
      simp only [Tree.Printable] at hp
      rw [parseObject_printed ih ms b post (by omega) hp hdrop hlim]
      simp [Tree.mapNum]

/-- the first byte of a printed value is none of the BOM bytes and no white space -/
theorem printValue_head_top (num : Bytes → Bytes) (t : Tree) (ht : t.Printable num) :
    ∃ c r, printValue num t = c :: r ∧ ¬ c ≤ 32 ∧ c ≠ 0xEF := by
  cases t with
  | null => exact ⟨0x6E, _, rfl, by decide, by decide⟩
  | fls => exact ⟨0x66, _, rfl, by decide, by decide⟩
  | tru => exact ⟨0x74, _, rfl, by decide, by decide⟩
  | num tok =>
    simp only [Tree.Printable] at ht
    obtain ⟨_, _, _, c, r, hcr, hc⟩ := ht
    have hf := numHead_facts c hc
    have hef : c ≠ 0xEF := by
      rcases hc with rfl | hc
      · decide
      · intro h; subst h; revert hc; decide
    exact ⟨c, r, by simp [printValue, hcr], hf.2.2.2.2.1, hef⟩
  | str s => exact ⟨0x22, escBody s ++ [0x22], by simp [printValue, printString], by decide, by decide⟩
  | arr items =>
    cases items with
    | nil => exact ⟨0x5B, [0x5D], by simp [printValue], by decide, by decide⟩
    | cons t ts =>
      exact ⟨0x5B, printValue num t ++ printItems num ts, by simp [printValue], by decide, by decide⟩
  | obj ms =>
    cases ms with
    | nil => exact ⟨0x7B, [0x7D], by simp [printValue], by decide, by decide⟩
    | cons m ms =>
      obtain ⟨k, v⟩ := m
      exact ⟨0x7B, printString k ++ 0x3A :: (printValue num v ++ printMembers num ms), by simp [printValue],
        by decide, by decide⟩

/-- cJSON_ParseWithLengthOpts on the whole printed text -/
theorem parseRes_printed (g : Bool) (num : Bytes → Bytes) (t : Tree) (ht : t.Printable num)
    (hd : t.depth ≤ nestingLimit) :
    parseRes (printValue num t) g (nestingLimit + 1) =
      .ok (t.mapNum num) ⟨(printValue num t).length, 0⟩ := by
  obtain ⟨c, r, hcr, hc32, hef⟩ := printValue_head_top num t ht
  unfold parseRes
  rw [if_neg (by rw [hcr]; simp)]
  have hb : skipBom (printValue num t) ⟨0, 0⟩ = .ok () ⟨0, 0⟩ := by
    unfold skipBom
    split
    · rw [hcr]
      simp only [List.drop_zero, bom, cmpLit, if_neg hef]
    · rfl
  rw [hb]
  dsimp only
  have h0 : (printValue num t).drop (PB.off ⟨0, 0⟩) = c :: r := by simp [hcr]
  rw [skipWs_id h0 hc32]
  have := rt_all (printValue num t) g num (nestingLimit + 1) t ⟨0, 0⟩ [] (by omega) ht (by simp)
    (by intro c r h; cases h) (by simp only [Nat.zero_add]; exact hd)
  rw [this]
  simp

end Cjet.Cjson
