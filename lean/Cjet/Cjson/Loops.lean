/-
  Cjet.Cjson.Loops — parse_array / parse_object / parse_value: no read outside the buffer, offsets move
  forward, the depth counter is restored and bounded, the fuels suffice and the result does not depend on them.
-/
import Cjet.Cjson.Bounds

namespace Cjet.Cjson

open Cjet.Generated.Cjson (nestingLimit numberBufSize objCommaGuard)

/-! ### properties of the recursive-call function `rec` the loops are given -/

/-- `rec` never reads outside the buffer -/
def NoOob (rec : PB → Res Tree) : Prop := ∀ b i, rec b ≠ .oob i

/-- a successful `rec` moves the offset forward, stays inside the buffer and restores the depth counter -/
def Adv (inp : Bytes) (rec : PB → Res Tree) : Prop :=
  ∀ b t b', rec b = .ok t b' → b.off < b'.off ∧ b'.off ≤ inp.length ∧ b'.depth = b.depth

/-- `rec` does not run out of fuel when entered at depth `d` -/
def NoNofuelAt (d : Nat) (rec : PB → Res Tree) : Prop := ∀ b, b.depth = d → rec b ≠ .nofuel

/-- trees returned by `rec` respect the nesting limit, counted from the depth it was entered at -/
def DepthOk (rec : PB → Res Tree) : Prop :=
  ∀ b t b', rec b = .ok t b' → b.depth ≤ nestingLimit → t.depth + b.depth ≤ nestingLimit

/-- `rec'` answers like `rec` wherever `rec` had enough fuel -/
def FuelLe (rec rec' : PB → Res Tree) : Prop := ∀ b, rec b ≠ .nofuel → rec' b = rec b

@[simp] theorem Tree.depthList_nil : Tree.depthList [] = 0 := by simp [Tree.depthList]
@[simp] theorem Tree.depthList_cons (t : Tree) (l : List Tree) :
    Tree.depthList (t :: l) = max t.depth (Tree.depthList l) := by simp [Tree.depthList]
@[simp] theorem Tree.depthMembers_nil : Tree.depthMembers [] = 0 := by simp [Tree.depthMembers]
@[simp] theorem Tree.depthMembers_cons (k : Bytes) (v : Tree) (l : List (Bytes × Tree)) :
    Tree.depthMembers ((k, v) :: l) = max v.depth (Tree.depthMembers l) := by simp [Tree.depthMembers]
@[simp] theorem Tree.depth_arr (l : List Tree) : (Tree.arr l).depth = Tree.depthList l + 1 := by simp [Tree.depth]
@[simp] theorem Tree.depth_obj (l : List (Bytes × Tree)) : (Tree.obj l).depth = Tree.depthMembers l + 1 := by
  simp [Tree.depth]

/-! ### parse_array -/

theorem arrLoop_not_oob {inp : Bytes} {rec : PB → Res Tree} (hrec : NoOob rec) :
    ∀ (g : Nat) (b : PB) (i : Nat), arrLoop inp rec g b ≠ .oob i := by
  intro g
  induction g with
  | zero => intro b i h; simp [arrLoop] at h
  | succ g ih =>
    intro b i h
    unfold arrLoop at h
    split at h
    · try dsimp only at h
      split at h
      · split at h
        · rw [Res.map_oob] at h; exact ih _ _ h
        · split at h <;> cases h
      · cases h
    · cases h
    · rename_i j hj; exact hrec _ _ hj
    · cases h

theorem arrLoop_ok {inp : Bytes} {rec : PB → Res Tree} (hadv : Adv inp rec) :
    ∀ (g : Nat) (b : PB) (items : List Tree) (b' : PB), arrLoop inp rec g b = .ok items b' →
      b.off < b'.off ∧ b'.off < inp.length ∧ b'.depth = b.depth ∧ inp[b'.off]? = some 0x5D := by
  intro g
  induction g with
  | zero => intro b items b' h; simp [arrLoop] at h
  | succ g ih =>
    intro b items b' h
    unfold arrLoop at h
    split at h
    · rename_i t b2 hr
      have ha := hadv _ _ _ hr
      have hs1 := skipWs_off_ge inp { b with off := b.off + 1 }
      have hs2 := skipWs_off_ge inp b2
      simp only [skipWs_depth] at ha
      try dsimp only at h hs1
      split at h
      · rename_i c hc
        have hlt := (List.getElem?_eq_some_iff.mp hc).1
        split at h
        · rw [Res.map_ok] at h
          obtain ⟨l, hl, _⟩ := h
          have := ih _ _ _ hl
          simp only [skipWs_depth] at this
          exact ⟨by omega, this.2.1, by omega, this.2.2.2⟩
        · split at h
          · rename_i hc5
            simp only [Res.ok.injEq] at h
            obtain ⟨_, rfl⟩ := h
            subst hc5
            exact ⟨by omega, hlt, by simp only [skipWs_depth]; omega, hc⟩
          · cases h
      · cases h
    · cases h
    · cases h
    · cases h

theorem arrLoop_not_nofuel {inp : Bytes} {rec : PB → Res Tree} {d : Nat} (hadv : Adv inp rec)
    (hnf : NoNofuelAt d rec) :
    ∀ (g : Nat) (b : PB), b.off ≤ inp.length → inp.length < g + b.off → b.depth = d →
      arrLoop inp rec g b ≠ .nofuel := by
  intro g
  induction g with
  | zero => intro b h1 h2; omega
  | succ g ih =>
    intro b h1 h2 hd h
    unfold arrLoop at h
    split at h
    · rename_i t b2 hr
      have ha := hadv _ _ _ hr
      have hs1 := skipWs_off_ge inp { b with off := b.off + 1 }
      have hs2 := skipWs_off_ge inp b2
      simp only [skipWs_depth] at ha
      try dsimp only at h hs1
      split at h
      · rename_i c hc
        have hlt := (List.getElem?_eq_some_iff.mp hc).1
        split at h
        · rw [Res.map_nofuel] at h
          exact ih _ (by omega) (by omega) (by simp only [skipWs_depth]; omega) h
        · split at h <;> cases h
      · cases h
    · cases h
    · cases h
    · rename_i hr
      exact hnf _ (by simp only [skipWs_depth]; exact hd) hr

theorem arrLoop_depth {inp : Bytes} {rec : PB → Res Tree} (hadv : Adv inp rec) (hd : DepthOk rec) :
    ∀ (g : Nat) (b : PB) (items : List Tree) (b' : PB), arrLoop inp rec g b = .ok items b' →
      b.depth ≤ nestingLimit → Tree.depthList items + b.depth ≤ nestingLimit := by
  intro g
  induction g with
  | zero => intro b items b' h; simp [arrLoop] at h
  | succ g ih =>
    intro b items b' h hb
    unfold arrLoop at h
    split at h
    · rename_i t b2 hr
      have ha := hadv _ _ _ hr
      have hdt := hd _ _ _ hr (by simp only [skipWs_depth]; exact hb)
      simp only [skipWs_depth] at ha hdt
      try dsimp only at h
      split at h
      · split at h
        · rw [Res.map_ok] at h
          obtain ⟨l, hl, rfl⟩ := h
          have := ih _ _ _ hl (by simp only [skipWs_depth]; omega)
          simp only [skipWs_depth] at this
          simp only [Tree.depthList_cons]
          omega
        · split at h
          · simp only [Res.ok.injEq] at h
            obtain ⟨rfl, _⟩ := h
            simp only [Tree.depthList_cons, Tree.depthList_nil]
            omega
          · cases h
      · cases h
    · cases h
    · cases h
    · cases h

theorem arrLoop_fuelLe {inp : Bytes} {rec rec' : PB → Res Tree} (hle : FuelLe rec rec') :
    ∀ (g : Nat) (b : PB), arrLoop inp rec g b ≠ .nofuel → arrLoop inp rec' g b = arrLoop inp rec g b := by
  intro g
  induction g with
  | zero => intro b h; simp [arrLoop] at h
  | succ g ih =>
    intro b h
    unfold arrLoop at h ⊢
    have hr : rec (skipWs inp { b with off := b.off + 1 }) ≠ .nofuel := by
      intro hr; rw [hr] at h; exact h rfl
    rw [hle _ hr]
    split
    · rename_i t b2 hrr
      rw [hrr] at h
      try dsimp only at h ⊢
      split
      · split
        · rename_i hc1 hc2
          simp only [hc1, hc2, if_true] at h
          rw [ih _ (fun hh => h (by rw [hh]; rfl))]
        · rfl
      · rfl
    · rfl
    · rfl
    · rfl

theorem parseArray_not_oob {inp : Bytes} {rec : PB → Res Tree} (hrec : NoOob rec) {b : PB}
    (hb : b.off < inp.length) (i : Nat) : parseArray inp rec b ≠ .oob i := by
  intro h
  unfold parseArray at h
  split at h
  · cases h
  · try dsimp only at h
    split at h
    · rename_i hn
      have := List.getElem?_eq_none_iff.mp hn
      omega
    · split at h
      · cases h
      · split at h
        · cases h
        · split at h
          · cases h
          · split at h
            · cases h
            · cases h
            · rename_i j hj; exact arrLoop_not_oob hrec _ _ _ hj
            · cases h

theorem parseArray_ok {inp : Bytes} {rec : PB → Res Tree} (hadv : Adv inp rec) {b : PB} {t : Tree} {b' : PB}
    (h : parseArray inp rec b = .ok t b') : b.off < b'.off ∧ b'.off ≤ inp.length ∧ b'.depth = b.depth := by
  unfold parseArray at h
  split at h
  · cases h
  · try dsimp only at h
    split at h
    · cases h
    · split at h
      · cases h
      · have hs := skipWs_off_ge inp { off := b.off + 1, depth := b.depth + 1 }
        try dsimp only at hs
        split at h
        · cases h
        · rename_i c hc
          have hlt := (List.getElem?_eq_some_iff.mp hc).1
          split at h
          · simp only [Res.ok.injEq] at h
            obtain ⟨_, rfl⟩ := h
            simp only [skipWs_depth]
            exact ⟨by omega, by omega, by omega⟩
          · split at h
            · rename_i items b'' hl
              have := arrLoop_ok hadv _ _ _ _ hl
              simp only [Res.ok.injEq] at h
              obtain ⟨_, rfl⟩ := h
              simp only [skipWs_depth] at this
              try dsimp only at this ⊢
              exact ⟨by omega, by omega, by omega⟩
            · cases h
            · cases h
            · cases h

theorem parseArray_not_nofuel {inp : Bytes} {rec : PB → Res Tree} (hadv : Adv inp rec) {b : PB}
    (hnf' : b.depth < nestingLimit → NoNofuelAt (b.depth + 1) rec) : parseArray inp rec b ≠ .nofuel := by
  intro h
  unfold parseArray at h
  split at h
  · cases h
  · rename_i hlim
    have hnf := hnf' (by omega)
    try dsimp only at h
    split at h
    · cases h
    · split at h
      · cases h
      · split at h
        · cases h
        · rename_i c hc
          have hlt := (List.getElem?_eq_some_iff.mp hc).1
          split at h
          · cases h
          · split at h
            · cases h
            · cases h
            · cases h
            · rename_i hl
              refine arrLoop_not_nofuel hadv hnf _ _ ?_ ?_ ?_ hl
              · dsimp only; omega
              · dsimp only; omega
              · simp only [skipWs_depth]

theorem parseArray_depth {inp : Bytes} {rec : PB → Res Tree} (hadv : Adv inp rec) (hd : DepthOk rec)
    {b : PB} {t : Tree} {b' : PB} (h : parseArray inp rec b = .ok t b') : t.depth + b.depth ≤ nestingLimit := by
  unfold parseArray at h
  split at h
  · cases h
  · rename_i hlim
    try dsimp only at h
    split at h
    · cases h
    · split at h
      · cases h
      · split at h
        · cases h
        · split at h
          · simp only [Res.ok.injEq] at h
            obtain ⟨rfl, _⟩ := h
            simp only [Tree.depth_arr, Tree.depthList_nil]
            omega
          · split at h
            · rename_i items b'' hl
              have := arrLoop_depth hadv hd _ _ _ _ hl (by simp only [skipWs_depth]; omega)
              simp only [Res.ok.injEq] at h
              obtain ⟨rfl, _⟩ := h
              simp only [skipWs_depth] at this
              simp only [Tree.depth_arr]
              omega
            · cases h
            · cases h
            · cases h

theorem parseArray_fuelLe {inp : Bytes} {rec rec' : PB → Res Tree} (hle : FuelLe rec rec') (b : PB)
    (h : parseArray inp rec b ≠ .nofuel) : parseArray inp rec' b = parseArray inp rec b := by
  unfold parseArray at h ⊢
  split
  · rfl
  · rename_i hlim
    rw [if_neg hlim] at h
    try dsimp only at h ⊢
    split
    · rfl
    · rename_i c0 hc0
      rw [hc0] at h
      try dsimp only at h
      split
      · rfl
      · rename_i hne
        rw [if_neg hne] at h
        split
        · rfl
        · rename_i c hc
          rw [hc] at h
          try dsimp only at h
          split
          · rfl
          · rename_i hc2
            rw [if_neg hc2] at h
            rw [arrLoop_fuelLe hle _ _ (fun hh => h (by rw [hh]))]

/-! ### parse_object -/

theorem objLoop_oob {inp : Bytes} {guard : Bool} {rec : PB → Res Tree} (hrec : NoOob rec) :
    ∀ (g : Nat) (b : PB) (i : Nat), objLoop inp guard rec g b = .oob i → guard = false := by
  intro g
  induction g with
  | zero => intro b i h; simp [objLoop] at h
  | succ g ih =>
    intro b i h
    cases hg : guard with
    | false => rfl
    | true =>
      exfalso
      subst hg
      unfold objLoop at h
      split at h
      · cases h
      · rename_i hgd
        have hlt : b.off + 1 < inp.length := by
          simp only [true_and, Decidable.not_not] at hgd
          exact hgd
        split at h
        · try dsimp only at h
          split at h
          · cases h
          · split at h
            · cases h
            · split at h
              · try dsimp only at h
                split at h
                · split at h
                  · rw [Res.map_oob] at h
                    have := ih _ _ h
                    cases this
                  · split at h <;> cases h
                · cases h
              · cases h
              · rename_i j hj; exact hrec _ _ hj
              · cases h
        · cases h
        · rename_i j hj
          have h1 := parseString_oob hj
          have h2 := @skipWs_off_lt inp { b with off := b.off + 1 } hlt
          omega
        · cases h

theorem objLoop_ok {inp : Bytes} {guard : Bool} {rec : PB → Res Tree} (hadv : Adv inp rec) :
    ∀ (g : Nat) (b : PB) (ms : List (Bytes × Tree)) (b' : PB), objLoop inp guard rec g b = .ok ms b' →
      b.off < b'.off ∧ b'.off < inp.length ∧ b'.depth = b.depth ∧ inp[b'.off]? = some 0x7D := by
  intro g
  induction g with
  | zero => intro b ms b' h; simp [objLoop] at h
  | succ g ih =>
    intro b ms b' h
    unfold objLoop at h
    split at h
    · cases h
    · split at h
      · rename_i name b2 hs
        have hps := parseString_ok hs
        have hs1 := skipWs_off_ge inp { b with off := b.off + 1 }
        have hs2 := skipWs_off_ge inp b2
        simp only [skipWs_depth] at hps
        try dsimp only at h hs1
        split at h
        · cases h
        · split at h
          · cases h
          · split at h
            · rename_i v b5 hr
              have ha := hadv _ _ _ hr
              have hs3 := skipWs_off_ge inp { skipWs inp b2 with off := (skipWs inp b2).off + 1 }
              have hs4 := skipWs_off_ge inp b5
              simp only [skipWs_depth] at ha hs3
              try dsimp only at h hs3 ha
              split at h
              · rename_i c' hc'
                have hlt := (List.getElem?_eq_some_iff.mp hc').1
                split at h
                · rw [Res.map_ok] at h
                  obtain ⟨l, hl, _⟩ := h
                  have := ih _ _ _ hl
                  simp only [skipWs_depth] at this
                  exact ⟨by omega, this.2.1, by omega, this.2.2.2⟩
                · split at h
                  · rename_i hc7
                    simp only [Res.ok.injEq] at h
                    obtain ⟨_, rfl⟩ := h
                    subst hc7
                    exact ⟨by omega, hlt, by simp only [skipWs_depth]; omega, hc'⟩
                  · cases h
              · cases h
            · cases h
            · cases h
            · cases h
      · cases h
      · cases h
      · cases h

theorem objLoop_not_nofuel {inp : Bytes} {guard : Bool} {rec : PB → Res Tree} {d : Nat} (hadv : Adv inp rec)
    (hnf : NoNofuelAt d rec) :
    ∀ (g : Nat) (b : PB), b.off ≤ inp.length → inp.length < g + b.off → b.depth = d →
      objLoop inp guard rec g b ≠ .nofuel := by
  intro g
  induction g with
  | zero => intro b h1 h2; omega
  | succ g ih =>
    intro b h1 h2 hd h
    unfold objLoop at h
    split at h
    · cases h
    · split at h
      · rename_i name b2 hs
        have hps := parseString_ok hs
        have hs1 := skipWs_off_ge inp { b with off := b.off + 1 }
        have hs2 := skipWs_off_ge inp b2
        simp only [skipWs_depth] at hps
        try dsimp only at h hs1
        split at h
        · cases h
        · split at h
          · cases h
          · split at h
            · rename_i v b5 hr
              have ha := hadv _ _ _ hr
              have hs3 := skipWs_off_ge inp { skipWs inp b2 with off := (skipWs inp b2).off + 1 }
              have hs4 := skipWs_off_ge inp b5
              simp only [skipWs_depth] at ha hs3
              try dsimp only at h hs3 ha
              split at h
              · rename_i c' hc'
                have hlt := (List.getElem?_eq_some_iff.mp hc').1
                split at h
                · rw [Res.map_nofuel] at h
                  exact ih _ (by omega) (by omega) (by simp only [skipWs_depth]; omega) h
                · split at h <;> cases h
              · cases h
            · cases h
            · cases h
            · rename_i hr
              exact hnf _ (by simp only [skipWs_depth]; omega) hr
      · cases h
      · cases h
      · rename_i hs
        exact parseString_not_nofuel _ _ hs

theorem objLoop_depth {inp : Bytes} {guard : Bool} {rec : PB → Res Tree} (hadv : Adv inp rec) (hd : DepthOk rec) :
    ∀ (g : Nat) (b : PB) (ms : List (Bytes × Tree)) (b' : PB), objLoop inp guard rec g b = .ok ms b' →
      b.depth ≤ nestingLimit → Tree.depthMembers ms + b.depth ≤ nestingLimit := by
  intro g
  induction g with
  | zero => intro b ms b' h; simp [objLoop] at h
  | succ g ih =>
    intro b ms b' h hb
    unfold objLoop at h
    split at h
    · cases h
    · split at h
      · rename_i name b2 hs
        have hps := parseString_ok hs
        simp only [skipWs_depth] at hps
        try dsimp only at h
        split at h
        · cases h
        · split at h
          · cases h
          · split at h
            · rename_i v b5 hr
              have ha := hadv _ _ _ hr
              have hdt := hd _ _ _ hr (by simp only [skipWs_depth]; omega)
              simp only [skipWs_depth] at ha hdt
              try dsimp only at h ha hdt
              split at h
              · split at h
                · rw [Res.map_ok] at h
                  obtain ⟨l, hl, rfl⟩ := h
                  have := ih _ _ _ hl (by simp only [skipWs_depth]; omega)
                  simp only [skipWs_depth] at this
                  simp only [Tree.depthMembers_cons]
                  omega
                · split at h
                  · simp only [Res.ok.injEq] at h
                    obtain ⟨rfl, _⟩ := h
                    simp only [Tree.depthMembers_cons, Tree.depthMembers_nil]
                    omega
                  · cases h
              · cases h
            · cases h
            · cases h
            · cases h
      · cases h
      · cases h
      · cases h

theorem objLoop_fuelLe {inp : Bytes} {guard : Bool} {rec rec' : PB → Res Tree} (hle : FuelLe rec rec') :
    ∀ (g : Nat) (b : PB), objLoop inp guard rec g b ≠ .nofuel →
      objLoop inp guard rec' g b = objLoop inp guard rec g b := by
  intro g
  induction g with
  | zero => intro b h; simp [objLoop] at h
  | succ g ih =>
    intro b h
    unfold objLoop at h ⊢
    by_cases hgd : (guard = true ∧ ¬ b.off + 1 < inp.length)
    · rw [if_pos hgd, if_pos hgd]
    · rw [if_neg hgd] at h ⊢
      rw [if_neg hgd]
      cases hs : parseString inp (skipWs inp { b with off := b.off + 1 }) with
      | ok name b2 =>
        (simp only [hs] at h; try simp only [hs])
        cases hc : inp[(skipWs inp b2).off]? with
        | none => (try simp only [hc]) <;> rfl
        | some c =>
          (simp only [hc] at h; try simp only [hc])
          by_cases hc3 : c ≠ 0x3A
          · simp only [if_pos hc3]
          · (simp only [if_neg hc3] at h; simp only [if_neg hc3])
            have hr : rec (skipWs inp { off := (skipWs inp b2).off + 1, depth := (skipWs inp b2).depth }) ≠ .nofuel := by
              intro hr; rw [hr] at h; exact h rfl
            rw [hle _ hr]
            cases hrr : rec (skipWs inp { off := (skipWs inp b2).off + 1, depth := (skipWs inp b2).depth }) with
            | ok v b5 =>
              (simp only [hrr] at h; try simp only [hrr])
              cases hc' : inp[(skipWs inp b5).off]? with
              | none => (try simp only [hc']) <;> rfl
              | some c' =>
                (simp only [hc'] at h; try simp only [hc'])
                by_cases hc1 : c' = 0x2C
                · (simp only [if_pos hc1] at h; simp only [if_pos hc1])
                  rw [ih _ (fun hh => h (by rw [hh]; rfl))]
                · simp only [if_neg hc1]
            | fail _ => (try simp only [hrr]) <;> rfl
            | oob _ => (try simp only [hrr]) <;> rfl
            | nofuel => (try simp only [hrr]) <;> rfl
      | fail _ => (try simp only [hs]) <;> rfl
      | oob _ => (try simp only [hs]) <;> rfl
      | nofuel => (try simp only [hs]) <;> rfl

theorem parseObject_oob {inp : Bytes} {guard : Bool} {rec : PB → Res Tree} (hrec : NoOob rec) {b : PB} {i : Nat}
    (h : parseObject inp guard rec b = .oob i) : guard = false := by
  unfold parseObject at h
  split at h
  · cases h
  · try dsimp only at h
    split at h
    · cases h
    · split at h
      · cases h
      · split at h
        · cases h
        · split at h
          · cases h
          · split at h
            · cases h
            · cases h
            · rename_i j hj; exact objLoop_oob hrec _ _ _ hj
            · cases h

theorem parseObject_ok {inp : Bytes} {guard : Bool} {rec : PB → Res Tree} (hadv : Adv inp rec) {b : PB} {t : Tree}
    {b' : PB} (h : parseObject inp guard rec b = .ok t b') :
    b.off < b'.off ∧ b'.off ≤ inp.length ∧ b'.depth = b.depth := by
  unfold parseObject at h
  split at h
  · cases h
  · try dsimp only at h
    split at h
    · cases h
    · split at h
      · cases h
      · have hs := skipWs_off_ge inp { off := b.off + 1, depth := b.depth + 1 }
        try dsimp only at hs
        split at h
        · cases h
        · rename_i c hc
          have hlt := (List.getElem?_eq_some_iff.mp hc).1
          split at h
          · simp only [Res.ok.injEq] at h
            obtain ⟨_, rfl⟩ := h
            simp only [skipWs_depth]
            exact ⟨by omega, by omega, by omega⟩
          · split at h
            · rename_i ms b'' hl
              have := objLoop_ok hadv _ _ _ _ hl
              simp only [Res.ok.injEq] at h
              obtain ⟨_, rfl⟩ := h
              simp only [skipWs_depth] at this
              try dsimp only at this ⊢
              exact ⟨by omega, by omega, by omega⟩
            · cases h
            · cases h
            · cases h

theorem parseObject_not_nofuel {inp : Bytes} {guard : Bool} {rec : PB → Res Tree} (hadv : Adv inp rec) {b : PB}
    (hnf' : b.depth < nestingLimit → NoNofuelAt (b.depth + 1) rec) : parseObject inp guard rec b ≠ .nofuel := by
  intro h
  unfold parseObject at h
  split at h
  · cases h
  · rename_i hlim
    have hnf := hnf' (by omega)
    try dsimp only at h
    split at h
    · cases h
    · split at h
      · cases h
      · split at h
        · cases h
        · rename_i c hc
          have hlt := (List.getElem?_eq_some_iff.mp hc).1
          split at h
          · cases h
          · split at h
            · cases h
            · cases h
            · cases h
            · rename_i hl
              refine objLoop_not_nofuel hadv hnf _ _ ?_ ?_ ?_ hl
              · dsimp only; omega
              · dsimp only; omega
              · simp only [skipWs_depth]

theorem parseObject_depth {inp : Bytes} {guard : Bool} {rec : PB → Res Tree} (hadv : Adv inp rec) (hd : DepthOk rec)
    {b : PB} {t : Tree} {b' : PB} (h : parseObject inp guard rec b = .ok t b') :
    t.depth + b.depth ≤ nestingLimit := by
  unfold parseObject at h
  split at h
  · cases h
  · rename_i hlim
    try dsimp only at h
    split at h
    · cases h
    · split at h
      · cases h
      · split at h
        · cases h
        · split at h
          · simp only [Res.ok.injEq] at h
            obtain ⟨rfl, _⟩ := h
            simp only [Tree.depth_obj, Tree.depthMembers_nil]
            omega
          · split at h
            · rename_i ms b'' hl
              have := objLoop_depth hadv hd _ _ _ _ hl (by simp only [skipWs_depth]; omega)
              simp only [Res.ok.injEq] at h
              obtain ⟨rfl, _⟩ := h
              simp only [skipWs_depth] at this
              simp only [Tree.depth_obj]
              omega
            · cases h
            · cases h
            · cases h

theorem parseObject_fuelLe {inp : Bytes} {guard : Bool} {rec rec' : PB → Res Tree} (hle : FuelLe rec rec') (b : PB)
    (h : parseObject inp guard rec b ≠ .nofuel) : parseObject inp guard rec' b = parseObject inp guard rec b := by
  unfold parseObject at h ⊢
  split
  · rfl
  · rename_i hlim
    rw [if_neg hlim] at h
    try dsimp only at h ⊢
    split
    · rfl
    · rename_i c0 hc0
      rw [hc0] at h
      try dsimp only at h
      split
      · rfl
      · rename_i hne
        rw [if_neg hne] at h
        split
        · rfl
        · rename_i c hc
          rw [hc] at h
          try dsimp only at h
          split
          · rfl
          · rename_i hc2
            rw [if_neg hc2] at h
            rw [objLoop_fuelLe hle _ _ (fun hh => h (by rw [hh]))]

/-! ### parse_value -/

theorem parseValue_adv (inp : Bytes) (guard : Bool) : ∀ f, Adv inp (parseValue inp guard f) := by
  intro f
  induction f with
  | zero => intro b t b' h; simp [parseValue] at h
  | succ f ih =>
    intro b t b' h
    unfold parseValue at h
    split at h
    · rename_i r hr
      subst h
      have := parseScalar_ok hr
      exact ⟨this.1, this.2.1, this.2.2.1⟩
    · split at h
      · split at h
        · exact parseArray_ok ih h
        · exact parseObject_ok ih h
      · cases h

theorem parseValue_depth (inp : Bytes) (guard : Bool) : ∀ f, DepthOk (parseValue inp guard f) := by
  intro f
  induction f with
  | zero => intro b t b' h; simp [parseValue] at h
  | succ f ih =>
    intro b t b' h hb
    unfold parseValue at h
    split at h
    · rename_i r hr
      subst h
      have := parseScalar_ok hr
      rw [Tree.depth_of_leaf this.2.2.2]
      omega
    · split at h
      · split at h
        · exact parseArray_depth (parseValue_adv inp guard f) ih h
        · exact parseObject_depth (parseValue_adv inp guard f) ih h
      · cases h

theorem parseValue_noOob (inp : Bytes) : ∀ f, NoOob (parseValue inp true f) := by
  intro f
  induction f with
  | zero => intro b i h; simp [parseValue] at h
  | succ f ih =>
    intro b i h
    unfold parseValue at h
    split at h
    · rename_i r hr
      subst h
      exact parseScalar_not_oob _ _ _ hr
    · split at h
      · rename_i c hc
        have hlt := (List.getElem?_eq_some_iff.mp hc).1
        split at h
        · exact parseArray_not_oob ih hlt _ h
        · have := parseObject_oob ih h
          cases this
      · cases h

theorem parseValue_not_nofuel (inp : Bytes) (guard : Bool) :
    ∀ f d, nestingLimit < f + d → d ≤ nestingLimit → NoNofuelAt d (parseValue inp guard f) := by
  intro f
  induction f with
  | zero => intro d h1 h2; omega
  | succ f ih =>
    intro d h1 h2 b hb h
    unfold parseValue at h
    split at h
    · rename_i r hr
      subst h
      exact parseScalar_not_nofuel _ _ hr
    · split at h
      · split at h
        · exact parseArray_not_nofuel (parseValue_adv inp guard f)
            (fun hl => ih (b.depth + 1) (by omega) (by omega)) h
        · exact parseObject_not_nofuel (parseValue_adv inp guard f)
            (fun hl => ih (b.depth + 1) (by omega) (by omega)) h
      · cases h

theorem parseValue_fuelLe (inp : Bytes) (guard : Bool) :
    ∀ f, FuelLe (parseValue inp guard f) (parseValue inp guard (f + 1)) := by
  intro f
  induction f with
  | zero => intro b h; simp [parseValue] at h
  | succ f ih =>
    intro b h
    unfold parseValue at h ⊢
    split
    · rfl
    · rename_i hs
      rw [hs] at h
      try dsimp only at h
      split
      · rename_i c hc
        rw [hc] at h
        try dsimp only at h
        split
        · rename_i hc1
          rw [if_pos hc1] at h
          exact parseArray_fuelLe ih b h
        · rename_i hc1
          rw [if_neg hc1] at h
          exact parseObject_fuelLe ih b h
      · rfl

/-- more fuel than needed changes nothing -/
theorem parseValue_fuel_indep (inp : Bytes) (guard : Bool) (f : Nat) (b : PB)
    (h : parseValue inp guard f b ≠ .nofuel) : ∀ k, parseValue inp guard (f + k) b = parseValue inp guard f b := by
  intro k
  induction k with
  | zero => rfl
  | succ k ih =>
    rw [← ih] at h
    rw [← Nat.add_assoc, parseValue_fuelLe inp guard (f + k) b h, ih]

/-! ### cJSON_ParseWithLengthOpts -/

theorem parseRes_not_oob (inp : Bytes) (fuel i : Nat) : parseRes inp true fuel ≠ .oob i := by
  intro h
  unfold parseRes at h
  split at h
  · cases h
  · split at h
    · exact parseValue_noOob inp fuel _ _ h
    · cases h
    · rename_i j hj; exact skipBom_not_oob _ _ _ hj
    · cases h

theorem skipBom_ok {inp : Bytes} {b b1 : PB} {u : Unit} (h : skipBom inp b = .ok u b1) : b1.depth = b.depth := by
  unfold skipBom at h
  split at h
  · split at h
    · cases h; rfl
    · cases h; rfl
    · cases h
  · cases h; rfl

theorem parseRes_not_nofuel (inp : Bytes) (guard : Bool) (fuel : Nat) (hf : nestingLimit < fuel) :
    parseRes inp guard fuel ≠ .nofuel := by
  intro h
  unfold parseRes at h
  split at h
  · cases h
  · split at h
    · rename_i u b1 hb
      have hd := skipBom_ok hb
      exact parseValue_not_nofuel inp guard fuel 0 (by omega) (by omega) _ (by simp only [skipWs_depth]; exact hd) h
    · cases h
    · cases h
    · rename_i hb
      unfold skipBom at hb
      split at hb
      · split at hb <;> cases hb
      · cases hb

theorem parseRes_fuel_indep (inp : Bytes) (guard : Bool) (fuel : Nat) (hf : nestingLimit < fuel) :
    parseRes inp guard fuel = parseRes inp guard (nestingLimit + 1) := by
  have hnf := parseRes_not_nofuel inp guard (nestingLimit + 1) (by omega)
  obtain ⟨k, rfl⟩ : ∃ k, fuel = nestingLimit + 1 + k := ⟨fuel - (nestingLimit + 1), by omega⟩
  unfold parseRes at hnf ⊢
  split
  · rfl
  · rename_i hlen
    rw [if_neg hlen] at hnf
    split
    · rename_i u b1 hb
      rw [hb] at hnf
      exact parseValue_fuel_indep inp guard _ _ hnf k
    · rfl
    · rfl
    · rfl

theorem parseRes_ok {inp : Bytes} {guard : Bool} {fuel : Nat} {t : Tree} {b : PB}
    (h : parseRes inp guard fuel = .ok t b) : b.off ≤ inp.length ∧ t.depth ≤ nestingLimit ∧ b.depth = 0 := by
  unfold parseRes at h
  split at h
  · cases h
  · split at h
    · rename_i u b1 hb
      have hd : b1.depth = 0 := skipBom_ok hb
      have h1 := parseValue_adv inp guard fuel _ _ _ h
      have h2 := parseValue_depth inp guard fuel _ _ _ h (by simp only [skipWs_depth]; omega)
      simp only [skipWs_depth] at h1 h2
      exact ⟨h1.2.1, by omega, by omega⟩
    · cases h
    · cases h
    · cases h

end Cjet.Cjson
